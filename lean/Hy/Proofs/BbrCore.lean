/-
  C12(b): proofs about the BBR control-logic model (Hy/Model/BbrCore.lean).
  The invariant `Inv` holds at event boundaries; every sub-step of OnCongestionEventEx gets a
  frame lemma (`Fr`) and the steps are composed through generalized intermediate states.
-/
import Hy.Model.BbrCore
set_option linter.unusedSimpArgs false
set_option linter.unusedVariables false
namespace Hy.Bbr
open Hy

/-- invariant at event boundaries -/
structure Inv (s : S) : Prop where
  mdsPos : 0 < s.mds
  minEq : s.minCwnd = minPk * s.mds
  maxEq : s.maxCwnd = maxPk * s.mds
  initEq : s.initCwnd = initPk * s.mds
  cw : s.minCwnd ≤ s.cwnd ∧ s.cwnd ≤ s.maxCwnd
  rw : s.rcv ≠ .none → s.minCwnd ≤ s.recWnd
  off : s.cycleOffset < cycleLen

/-! ### generic helpers -/

theorem Res.bind_eq_ok {α β} (r : Res α) (f : α → Res β) (b : β) :
    r.bind f = .ok b ↔ ∃ a, r = .ok a ∧ f a = .ok b := by
  cases r with
  | ok a => simp [Res.bind]
  | reject => simp [Res.bind]
  | panic => simp [Res.bind]

theorem cycleLen_eq : cycleLen = 8 := rfl

theorem mod_cycleLen_lt (x : Nat) : x % cycleLen < cycleLen := Nat.mod_lt _ (by decide)

/-! ### construction, outputs, OnPacketSent -/

theorem new_inv (cfg : Cfg) (mds : Nat) (h : 0 < mds) : Inv (new cfg mds) := by
  refine { mdsPos := h, minEq := rfl, maxEq := rfl, initEq := rfl, cw := ?_, rw := ?_, off := ?_ }
  · simp only [new, minPk, maxPk, initPk, Gen.bbr_minCongestionWindowPackets,
      Gen.bbr_initialCongestionWindowPackets, Gen.quic_MaxCongestionWindowPackets]
    omega
  · intro hr; exact absurd rfl hr
  · simp [new, cycleLen, Gen.bbr_gainCycleLength]

theorem bounds_of_inv (s : S) (h : Inv s) :
    minPk * s.mds ≤ getCwnd s ∧ getCwnd s ≤ maxPk * s.mds := by
  unfold getCwnd
  have := h.cw; have := h.minEq; have := h.maxEq
  split
  · simp only [minPk, maxPk, Gen.bbr_minCongestionWindowPackets, Gen.quic_MaxCongestionWindowPackets] at *
    omega
  · split
    · rename_i hr; have := h.rw hr
      simp only [minPk, maxPk, Gen.bbr_minCongestionWindowPackets, Gen.quic_MaxCongestionWindowPackets] at *
      omega
    · omega

theorem canSend_zero (s : S) (h : Inv s) : canSend s 0 = true := by
  have hb := (bounds_of_inv s h).1
  have hp := h.mdsPos
  simp only [minPk, Gen.bbr_minCongestionWindowPackets] at hb
  simp only [canSend, decide_eq_true_eq]
  omega

theorem onPacketSent_inv (s : S) (h : Inv s) (inflight : Nat) (pn : Int) :
    Inv (onPacketSent s inflight pn) ∧ (onPacketSent s inflight pn).mds = s.mds := by
  refine ⟨?_, rfl⟩
  exact { mdsPos := h.mdsPos, minEq := h.minEq, maxEq := h.maxEq, initEq := h.initEq, cw := h.cw,
          rw := h.rw, off := h.off }

/-! ### SetMaxDatagramSize -/

theorem scale_exact (k a n : Nat) (ha : 0 < a) : (k * a) * n / a = k * n := by
  rw [Nat.mul_right_comm, Nat.mul_div_cancel _ ha]

theorem scaleWnd_exact (k a n : Nat) (ha : 0 < a) : scaleWnd (k * a) a n = .ok (k * n) := by
  unfold scaleWnd
  split
  · rename_i he; rw [he]
  · rw [if_neg (by omega), scale_exact _ _ _ ha]

theorem scaleWnd_ok (w a n : Nat) (ha : 0 < a) : ∃ v, scaleWnd w a n = .ok v := by
  unfold scaleWnd
  split
  · exact ⟨_, rfl⟩
  · rw [if_neg (by omega)]; exact ⟨_, rfl⟩

/-- SetMaxDatagramSize with a non-decreasing size: no panic, invariant kept (the rescaling of
    max/initial windows is exact: (k*a)*n/a = k*n) -/
theorem setMds_spec (s : S) (h : Inv s) (n : Nat) (hn : s.mds ≤ n) :
    ∃ s', setMds s n = .ok s' ∧ Inv s' ∧ s'.mds = n := by
  have hp := h.mdsPos
  have hnpos : 0 < n := by omega
  have h1 : scaleWnd s.initCwnd s.mds n = .ok (initPk * n) := by
    rw [h.initEq]; exact scaleWnd_exact _ _ _ hp
  have h2 : scaleWnd s.maxCwnd s.mds n = .ok (maxPk * n) := by
    rw [h.maxEq]; exact scaleWnd_exact _ _ _ hp
  obtain ⟨v3, h3⟩ := scaleWnd_ok s.cwndForMinPacing s.mds n hp
  obtain ⟨v4, h4⟩ := scaleWnd_ok s.maxCwndAdjusted s.mds n hp
  have heq : setMds s n = .ok
      { s with mds := n, initCwnd := initPk * n, maxCwnd := maxPk * n, minCwnd := minPk * n,
               cwndForMinPacing := v3, maxCwndAdjusted := v4,
               cwnd := if s.cwnd = s.minCwnd then minPk * n
                       else if s.cwnd = s.initCwnd then initPk * n
                       else min (maxPk * n) (max s.cwnd (minPk * n)),
               recWnd := min (maxPk * n) (max s.recWnd (minPk * n)) } := by
    simp only [setMds, Res.bind_eq, Res.pure_eq, h1, h2, h3, h4, Res.bind_ok]
    rw [if_neg (by omega)]
  refine ⟨_, heq, ?_, ?_⟩
  · refine { mdsPos := hnpos, minEq := rfl, maxEq := rfl, initEq := rfl, cw := ?_, rw := ?_, off := h.off }
    · simp only [minPk, maxPk, initPk, Gen.bbr_minCongestionWindowPackets,
        Gen.bbr_initialCongestionWindowPackets, Gen.quic_MaxCongestionWindowPackets]
      split <;> (try split) <;> omega
    · intro _
      simp only [minPk, maxPk, initPk, Gen.bbr_minCongestionWindowPackets,
        Gen.bbr_initialCongestionWindowPackets, Gen.quic_MaxCongestionWindowPackets]
      omega
  · rfl

/-- whenever SetMaxDatagramSize returns at all, the invariant holds afterwards -/
theorem setMds_ok_inv (s : S) (h : Inv s) (n : Nat) (s' : S) (hs : setMds s n = .ok s') :
    Inv s' ∧ s'.mds = n := by
  have hn : s.mds ≤ n := by
    apply Nat.le_of_not_lt
    intro hlt
    simp only [setMds, Res.bind_eq, Res.pure_eq] at hs
    rw [if_pos hlt] at hs
    cases hs
  obtain ⟨s'', e1, e2, e3⟩ := setMds_spec s h n hn
  rw [e1] at hs
  cases hs
  exact ⟨e2, e3⟩

/-! ### frame relation for the sub-steps of OnCongestionEventEx -/

/-- `s'` agrees with `s` on the datagram size and the window fields, and keeps the gain-cycle
    offset in range -/
def Fr (s s' : S) : Prop :=
  s'.mds = s.mds ∧ s'.minCwnd = s.minCwnd ∧ s'.maxCwnd = s.maxCwnd ∧ s'.initCwnd = s.initCwnd ∧
  s'.cwnd = s.cwnd ∧ (s.cycleOffset < cycleLen → s'.cycleOffset < cycleLen)

theorem Fr.refl (s : S) : Fr s s := ⟨rfl, rfl, rfl, rfl, rfl, id⟩

theorem Fr.trans {a b c : S} (h1 : Fr a b) (h2 : Fr b c) : Fr a c := by
  obtain ⟨a1, a2, a3, a4, a5, a6⟩ := h1
  obtain ⟨b1, b2, b3, b4, b5, b6⟩ := h2
  exact ⟨b1.trans a1, b2.trans a2, b3.trans a3, b4.trans a4, b5.trans a5, fun h => b6 (a6 h)⟩

/-- closes `Fr s t` when `t` is `s` or a record update of `s` that leaves the tracked fields alone -/
macro "fr_rfl" : tactic =>
  `(tactic| exact ⟨rfl, rfl, rfl, rfl, rfl, id⟩)

/-- case-split every `if`/`match` of an unfolded pure step, then `fr_rfl` -/
macro "fr_auto" : tactic =>
  `(tactic| ((repeat' (first | split | (dsimp only; split))) <;> fr_rfl))

theorem updateRoundTripCounter_fr (s : S) (a : Int) : Fr s (updateRoundTripCounter s a).1 := by
  unfold updateRoundTripCounter
  fr_auto

theorem updateRecoveryState_fr (s : S) (a : Int) (hl rs : Bool) :
    Fr s (updateRecoveryState s a hl rs) := by
  unfold updateRecoveryState
  fr_auto

theorem maybeUpdateMinRtt_fr (s : S) (now r : Nat) : Fr s (maybeUpdateMinRtt s now r).1 := by
  unfold maybeUpdateMinRtt
  fr_auto

theorem checkIfFullBandwidthReached_fr (s : S) (e : Ev) : Fr s (checkIfFullBandwidthReached s e) := by
  unfold checkIfFullBandwidthReached
  fr_auto

theorem enterStartup_fr (s : S) : Fr s (enterStartup s) := ⟨rfl, rfl, rfl, rfl, rfl, id⟩

/-! ### the Res-valued steps: total, and framed -/

theorem gainAt_ok (i : Nat) (h : i < cycleLen) : ∃ g, gainAt i = .ok g := by
  have h8 : i = 0 ∨ i = 1 ∨ i = 2 ∨ i = 3 ∨ i = 4 ∨ i = 5 ∨ i = 6 ∨ i = 7 := by
    simp only [cycleLen_eq] at h; omega
  rcases h8 with rfl | rfl | rfl | rfl | rfl | rfl | rfl | rfl <;> exact ⟨_, rfl⟩

/-- `r` returns a state framed w.r.t. `s` -/
def OkFr (s : S) (r : Res S) : Prop := ∃ s', r = .ok s' ∧ Fr s s'

theorem OkFr.ok {s t : S} (h : Fr s t) : OkFr s (.ok t) := ⟨t, rfl, h⟩

theorem OkFr.trans {s t : S} {r : Res S} (h1 : Fr s t) (h2 : OkFr t r) : OkFr s r := by
  obtain ⟨s', e1, e2⟩ := h2
  exact ⟨s', e1, h1.trans e2⟩

theorem OkFr.bind {s : S} {r : Res S} {f : S → Res S} (h1 : OkFr s r) (h2 : ∀ t, OkFr t (f t)) :
    OkFr s (r.bind f) := by
  obtain ⟨t, e1, e2⟩ := h1
  rw [e1]
  exact OkFr.trans e2 (h2 t)

theorem updateGainCyclePhase_ok (s : S) (e : Ev) (hl : Bool) : OkFr s (updateGainCyclePhase s e hl) := by
  obtain ⟨g, hg⟩ := gainAt_ok _ (mod_cycleLen_lt (s.cycleOffset + 1))
  simp only [updateGainCyclePhase, Res.bind_eq, Res.pure_eq, hg, Res.bind_ok]
  (repeat' split) <;>
    first
    | exact OkFr.ok (Fr.refl _)
    | exact ⟨_, rfl, rfl, rfl, rfl, rfl, rfl, fun _ => mod_cycleLen_lt _⟩

theorem probeOff_lt (r : Nat) :
    (if r % (cycleLen - 1) ≥ 1 then r % (cycleLen - 1) + 1 else r % (cycleLen - 1)) < cycleLen := by
  have h : r % (cycleLen - 1) < cycleLen - 1 := Nat.mod_lt _ (by decide)
  have h8 := cycleLen_eq
  by_cases hc : r % (cycleLen - 1) ≥ 1
  · rw [if_pos hc]; omega
  · rw [if_neg hc]; omega

theorem enterProbeBw_ok (s : S) (now rnd : Nat) : OkFr s (enterProbeBw s now rnd) := by
  have hlt := probeOff_lt (rnd % Gen.quic_PacketsPerConnectionID)
  obtain ⟨g, hg⟩ := gainAt_ok _ hlt
  simp only [enterProbeBw, Res.bind_eq, Res.pure_eq, hg, Res.bind_ok]
  exact ⟨_, rfl, rfl, rfl, rfl, rfl, rfl, fun _ => hlt⟩

/-- closes `OkFr s r` after all case splits: `r` is `.ok t` or `enterProbeBw t _ _` with `t` a
    harmless update of `s` -/
macro "okfr_close" : tactic =>
  `(tactic| first
    | exact OkFr.ok (by fr_rfl)
    | exact OkFr.trans (by fr_rfl) (enterProbeBw_ok _ _ _))

theorem maybeExitStartupOrDrain_ok (s : S) (e : Ev) : OkFr s (maybeExitStartupOrDrain s e) := by
  simp only [maybeExitStartupOrDrain, Res.bind_eq, Res.pure_eq]
  (repeat' (first | split | (dsimp only; split))) <;> okfr_close

theorem maybeEnterOrExitProbeRtt_ok (s : S) (e : Ev) (rs mre : Bool) :
    OkFr s (maybeEnterOrExitProbeRtt s e rs mre) := by
  simp only [maybeEnterOrExitProbeRtt, enterStartup, Res.bind_eq, Res.pure_eq, Res.bind_ok]
  (repeat' (first | split | (dsimp only; split))) <;>
    first
    | exact OkFr.ok (by fr_rfl)
    | exact OkFr.trans (by fr_rfl)
        (OkFr.bind (enterProbeBw_ok _ _ _) (fun t => OkFr.ok (by fr_rfl)))

theorem calculatePacingRate_panic_or (s : S) (e : Ev) :
    calculatePacingRate s e = .panic ∨ OkFr s (calculatePacingRate s e) := by
  simp only [calculatePacingRate, bandwidthFromDelta, Res.bind_eq, Res.pure_eq]
  (repeat' (first | split | (dsimp only; split))) <;>
    first
    | exact Or.inr (OkFr.ok (by fr_rfl))
    | exact Or.inl rfl

theorem calculatePacingRate_fr (s : S) (e : Ev) (s' : S) (hs : calculatePacingRate s e = .ok s') :
    Fr s s' := by
  rcases calculatePacingRate_panic_or s e with h | ⟨t, h1, h2⟩
  · rw [h] at hs; cases hs
  · rw [h1] at hs; cases hs; exact h2

theorem calculatePacingRate_ok (s : S) (e : Ev) (h : e.env.bw ≠ 0 → e.env.rttMin ≠ 0) :
    ∃ s', calculatePacingRate s e = .ok s' := by
  simp only [calculatePacingRate, bandwidthFromDelta, Res.bind_eq, Res.pure_eq]
  by_cases hbw : e.env.bw = 0
  · rw [if_pos hbw]; exact ⟨_, rfl⟩
  · have hr := h hbw
    rw [if_neg hbw]
    simp only [hr, ↓reduceIte]
    (repeat' split) <;> exact ⟨_, rfl⟩

/-! ### window updates -/

theorem calculateCongestionWindow_spec (s : S) (e : Ev) (hmm : s.minCwnd ≤ s.maxCwnd)
    (hc : s.minCwnd ≤ s.cwnd ∧ s.cwnd ≤ s.maxCwnd) :
    (calculateCongestionWindow s e).mds = s.mds ∧
    (calculateCongestionWindow s e).minCwnd = s.minCwnd ∧
    (calculateCongestionWindow s e).maxCwnd = s.maxCwnd ∧
    (calculateCongestionWindow s e).initCwnd = s.initCwnd ∧
    (calculateCongestionWindow s e).cycleOffset = s.cycleOffset ∧
    s.minCwnd ≤ (calculateCongestionWindow s e).cwnd ∧
    (calculateCongestionWindow s e).cwnd ≤ s.maxCwnd := by
  unfold calculateCongestionWindow
  split
  · exact ⟨rfl, rfl, rfl, rfl, rfl, hc.1, hc.2⟩
  · refine ⟨rfl, rfl, rfl, rfl, rfl, ?_, ?_⟩
    · dsimp only; omega
    · dsimp only; omega

theorem calculateRecoveryWindow_spec (s : S) (e : Ev) :
    Fr s (calculateRecoveryWindow s e) ∧ (calculateRecoveryWindow s e).rcv = s.rcv ∧
    (s.rcv ≠ .none → s.minCwnd ≤ (calculateRecoveryWindow s e).recWnd) := by
  unfold calculateRecoveryWindow
  split
  · rename_i h; exact ⟨Fr.refl s, rfl, fun hn => absurd h hn⟩
  · split
    · refine ⟨by fr_rfl, rfl, fun _ => ?_⟩
      dsimp only; omega
    · refine ⟨by fr_rfl, rfl, fun _ => ?_⟩
      dsimp only; omega

theorem leastUnacked_ok (e : Ev) (hne : e.acked ≠ [] ∨ e.lost ≠ []) : ∃ lu, leastUnacked e = .ok lu := by
  unfold leastUnacked
  cases ha : e.acked.getLast? with
  | some p => exact ⟨_, rfl⟩
  | none =>
    cases hl : e.lost.getLast? with
    | some p => exact ⟨_, rfl⟩
    | none =>
      rw [List.getLast?_eq_none_iff] at ha hl
      rcases hne with h | h
      · exact absurd ha h
      · exact absurd hl h

/-! ### OnCongestionEventEx as (pure prefix) ; (monadic tail) -/

/-- everything before the first fallible step: in-flight bookkeeping, round/recovery counters,
    app-limited flags, min-RTT filter, loss counters.  Returns (state, isRoundStart, minRttExpired). -/
def pre (s : S) (e : Ev) : S × Bool × Bool :=
  let hasLosses := !e.lost.isEmpty
  let s := { s with bytesInFlight := e.prior - sumBytes e.acked - sumBytes e.lost }
  let (s, isRoundStart) :=
    match e.acked.getLast? with
    | some p =>
      let (s, rs) := updateRoundTripCounter s p.1
      (updateRecoveryState s p.1 hasLosses rs, rs)
    | none => (s, false)
  let s := if e.env.sampleValid then
      { s with lastSampleIsAppLimited := e.env.sampleAppLimited,
               hasNoAppLimitedSample := s.hasNoAppLimitedSample || !e.env.sampleAppLimited }
    else s
  let (s, minRttExpired) :=
    match e.env.sampleRtt with
    | some r => maybeUpdateMinRtt s e.now r
    | none => (s, false)
  let s := if hasLosses then
      { s with numLossEventsInRound := s.numLossEventsInRound + 1,
               bytesLostInRound := s.bytesLostInRound + e.env.bytesLost }
    else s
  (s, isRoundStart, minRttExpired)

/-- the final bookkeeping after the window updates -/
def fin (s : S) (isRoundStart : Bool) : S :=
  if isRoundStart then { s with numLossEventsInRound := 0, bytesLostInRound := 0 } else s

/-- the fallible steps and the window updates (verbatim tail of the model's `do` block) -/
def post (s : S) (e : Ev) (isRoundStart minRttExpired : Bool) : Res (S × Int) := do
  let hasLosses := !e.lost.isEmpty
  let s ← if s.mode = .probeBw then updateGainCyclePhase s e hasLosses else pure s
  let s := if isRoundStart ∧ !s.isAtFullBandwidth then checkIfFullBandwidthReached s e else s
  let s ← maybeExitStartupOrDrain s e
  let s ← maybeEnterOrExitProbeRtt s e isRoundStart minRttExpired
  let s ← calculatePacingRate s e
  let s := calculateCongestionWindow s e
  let s := calculateRecoveryWindow s e
  let lu ← leastUnacked e
  let s := if isRoundStart then { s with numLossEventsInRound := 0, bytesLostInRound := 0 } else s
  pure (s, lu)

theorem onCongestionEvent_eq (s : S) (e : Ev) :
    onCongestionEvent s e = post (pre s e).1 e (pre s e).2.1 (pre s e).2.2 := by
  unfold onCongestionEvent pre post
  cases e.acked.getLast? <;> cases e.env.sampleRtt <;> rfl

/-- `post` as a plain chain of binds -/
theorem post_eq (s : S) (e : Ev) (rs mre : Bool) :
    post s e rs mre =
      (if s.mode = .probeBw then updateGainCyclePhase s e (!e.lost.isEmpty) else .ok s).bind fun s1 =>
      (maybeExitStartupOrDrain
        (if rs ∧ !s1.isAtFullBandwidth then checkIfFullBandwidthReached s1 e else s1) e).bind fun s3 =>
      (maybeEnterOrExitProbeRtt s3 e rs mre).bind fun s4 =>
      (calculatePacingRate s4 e).bind fun s5 =>
      (leastUnacked e).bind fun lu =>
      .ok (fin (calculateRecoveryWindow (calculateCongestionWindow s5 e) e) rs, lu) := by
  by_cases h : s.mode = .probeBw <;>
    simp only [post, fin, h, ↓reduceIte, Res.bind_eq, Res.pure_eq, Res.bind_ok]

/-! ### the pure prefix is framed -/

def preA (s : S) (e : Ev) : S :=
  match e.acked.getLast? with
  | some p =>
    updateRecoveryState (updateRoundTripCounter s p.1).1 p.1 (!e.lost.isEmpty) (updateRoundTripCounter s p.1).2
  | none => s

def preB (s : S) (e : Ev) : S :=
  if e.env.sampleValid then
    { s with lastSampleIsAppLimited := e.env.sampleAppLimited,
             hasNoAppLimitedSample := s.hasNoAppLimitedSample || !e.env.sampleAppLimited }
  else s

def preC (s : S) (e : Ev) : S :=
  match e.env.sampleRtt with
  | some r => (maybeUpdateMinRtt s e.now r).1
  | none => s

def preD (s : S) (e : Ev) : S :=
  if !e.lost.isEmpty then
    { s with numLossEventsInRound := s.numLossEventsInRound + 1,
             bytesLostInRound := s.bytesLostInRound + e.env.bytesLost }
  else s

theorem pre_fst_eq (s : S) (e : Ev) :
    (pre s e).1 =
      preD (preC (preB (preA
        { s with bytesInFlight := e.prior - sumBytes e.acked - sumBytes e.lost } e) e) e) e := by
  unfold pre preA preC
  cases e.acked.getLast? <;> cases e.env.sampleRtt <;> rfl

theorem preA_fr (s : S) (e : Ev) : Fr s (preA s e) := by
  unfold preA
  split
  · exact (updateRoundTripCounter_fr s _).trans (updateRecoveryState_fr _ _ _ _)
  · exact Fr.refl s

theorem preB_fr (s : S) (e : Ev) : Fr s (preB s e) := by
  unfold preB
  split <;> fr_rfl

theorem preC_fr (s : S) (e : Ev) : Fr s (preC s e) := by
  unfold preC
  split
  · exact maybeUpdateMinRtt_fr s _ _
  · exact Fr.refl s

theorem preD_fr (s : S) (e : Ev) : Fr s (preD s e) := by
  unfold preD
  split <;> fr_rfl

theorem pre_fr (s : S) (e : Ev) : Fr s (pre s e).1 := by
  rw [pre_fst_eq]
  have h0 : Fr s { s with bytesInFlight := e.prior - sumBytes e.acked - sumBytes e.lost } := by fr_rfl
  exact h0.trans ((preA_fr _ e).trans ((preB_fr _ e).trans ((preC_fr _ e).trans (preD_fr _ e))))

/-! ### the tail -/

theorem fin_spec (s : S) (rs : Bool) :
    Fr s (fin s rs) ∧ (fin s rs).rcv = s.rcv ∧ (fin s rs).recWnd = s.recWnd := by
  unfold fin
  split
  · exact ⟨by fr_rfl, rfl, rfl⟩
  · exact ⟨Fr.refl s, rfl, rfl⟩

/-- the invariant without the recovery-window clause, relative to a fixed datagram size -/
structure Core (s : S) (m : Nat) : Prop where
  mdsEq : s.mds = m
  mPos : 0 < m
  minEq : s.minCwnd = minPk * m
  maxEq : s.maxCwnd = maxPk * m
  initEq : s.initCwnd = initPk * m
  cw : s.minCwnd ≤ s.cwnd ∧ s.cwnd ≤ s.maxCwnd
  off : s.cycleOffset < cycleLen

theorem Core.of_inv {s : S} (h : Inv s) : Core s s.mds :=
  { mdsEq := rfl, mPos := h.mdsPos, minEq := h.minEq, maxEq := h.maxEq, initEq := h.initEq,
    cw := h.cw, off := h.off }

theorem Core.fr {s s' : S} {m : Nat} (h : Core s m) (f : Fr s s') : Core s' m := by
  obtain ⟨f1, f2, f3, f4, f5, f6⟩ := f
  exact { mdsEq := f1.trans h.mdsEq, mPos := h.mPos, minEq := f2.trans h.minEq,
          maxEq := f3.trans h.maxEq, initEq := f4.trans h.initEq,
          cw := by rw [f2, f3, f5]; exact h.cw, off := f6 h.off }

/-- window updates + final bookkeeping re-establish the full invariant -/
theorem tail_inv (s : S) (m : Nat) (e : Ev) (rs : Bool) (h : Core s m) :
    Inv (fin (calculateRecoveryWindow (calculateCongestionWindow s e) e) rs) ∧
    (fin (calculateRecoveryWindow (calculateCongestionWindow s e) e) rs).mds = m := by
  have hmm : s.minCwnd ≤ s.maxCwnd := by
    have := h.cw; omega
  obtain ⟨c1, c2, c3, c4, c5, c6, c7⟩ := calculateCongestionWindow_spec s e hmm h.cw
  generalize calculateCongestionWindow s e = s1 at *
  have h1 : Core s1 m :=
    { mdsEq := c1.trans h.mdsEq, mPos := h.mPos, minEq := c2.trans h.minEq, maxEq := c3.trans h.maxEq,
      initEq := c4.trans h.initEq, cw := by rw [c2, c3]; exact ⟨c6, c7⟩, off := by rw [c5]; exact h.off }
  obtain ⟨r1, r2, r3⟩ := calculateRecoveryWindow_spec s1 e
  have rmin : (calculateRecoveryWindow s1 e).minCwnd = s1.minCwnd := r1.2.1
  generalize calculateRecoveryWindow s1 e = s2 at *
  have h2 : Core s2 m := h1.fr r1
  obtain ⟨g1, g2, g3⟩ := fin_spec s2 rs
  have gmin : (fin s2 rs).minCwnd = s2.minCwnd := g1.2.1
  generalize fin s2 rs = s3 at *
  have h3 : Core s3 m := h2.fr g1
  refine ⟨?_, h3.mdsEq⟩
  exact { mdsPos := by rw [h3.mdsEq]; exact h3.mPos
          minEq := by rw [h3.mdsEq]; exact h3.minEq
          maxEq := by rw [h3.mdsEq]; exact h3.maxEq
          initEq := by rw [h3.mdsEq]; exact h3.initEq
          cw := h3.cw
          rw := by
            intro hr
            rw [g2, r2] at hr
            rw [g3, gmin, rmin]
            exact r3 hr
          off := h3.off }

/-- what a returning tail looks like -/
theorem post_ok_shape (s : S) (e : Ev) (rs mre : Bool) (s' : S) (lu : Int)
    (hs : post s e rs mre = .ok (s', lu)) :
    ∃ s5, Fr s s5 ∧ s' = fin (calculateRecoveryWindow (calculateCongestionWindow s5 e) e) rs := by
  rw [post_eq] at hs
  obtain ⟨s1, h1, hs1⟩ := (Res.bind_eq_ok _ _ _).mp hs
  obtain ⟨s3, h3, hs3⟩ := (Res.bind_eq_ok _ _ _).mp hs1
  obtain ⟨s4, h4, hs4⟩ := (Res.bind_eq_ok _ _ _).mp hs3
  obtain ⟨s5, h5, hs5⟩ := (Res.bind_eq_ok _ _ _).mp hs4
  obtain ⟨l, h6, hs6⟩ := (Res.bind_eq_ok _ _ _).mp hs5
  clear hs hs1 hs3 hs4 hs5
  have f1 : Fr s s1 := by
    split at h1
    · obtain ⟨t, e1, e2⟩ := updateGainCyclePhase_ok s e (!e.lost.isEmpty)
      rw [e1] at h1; cases h1; exact e2
    · cases h1; exact Fr.refl s
  have f2 : Fr s1 (if rs ∧ !s1.isAtFullBandwidth then checkIfFullBandwidthReached s1 e else s1) := by
    split
    · exact checkIfFullBandwidthReached_fr s1 e
    · exact Fr.refl s1
  generalize (if rs ∧ !s1.isAtFullBandwidth then checkIfFullBandwidthReached s1 e else s1) = s2 at *
  have f3 : Fr s2 s3 := by
    obtain ⟨t, e1, e2⟩ := maybeExitStartupOrDrain_ok s2 e
    rw [e1] at h3; cases h3; exact e2
  have f4 : Fr s3 s4 := by
    obtain ⟨t, e1, e2⟩ := maybeEnterOrExitProbeRtt_ok s3 e rs mre
    rw [e1] at h4; cases h4; exact e2
  have f5 : Fr s4 s5 := calculatePacingRate_fr s4 e s5 h5
  refine ⟨s5, f1.trans (f2.trans (f3.trans (f4.trans f5))), ?_⟩
  cases hs6
  rfl

theorem post_noPanic (s : S) (e : Ev) (rs mre : Bool)
    (hne : e.acked ≠ [] ∨ e.lost ≠ [])
    (hrtt : e.env.bw ≠ 0 → e.env.rttMin ≠ 0) :
    ∃ r, post s e rs mre = .ok r := by
  rw [post_eq]
  have h1 : ∃ s1, (if s.mode = .probeBw then updateGainCyclePhase s e (!e.lost.isEmpty) else .ok s) = .ok s1 := by
    split
    · obtain ⟨t, e1, _⟩ := updateGainCyclePhase_ok s e (!e.lost.isEmpty)
      exact ⟨t, e1⟩
    · exact ⟨s, rfl⟩
  obtain ⟨s1, h1⟩ := h1
  rw [h1, Res.bind_ok]
  obtain ⟨s3, h3, _⟩ := maybeExitStartupOrDrain_ok
    (if rs ∧ !s1.isAtFullBandwidth then checkIfFullBandwidthReached s1 e else s1) e
  rw [h3, Res.bind_ok]
  obtain ⟨s4, h4, _⟩ := maybeEnterOrExitProbeRtt_ok s3 e rs mre
  rw [h4, Res.bind_ok]
  obtain ⟨s5, h5⟩ := calculatePacingRate_ok s4 e hrtt
  rw [h5, Res.bind_ok]
  obtain ⟨l, h6⟩ := leastUnacked_ok e hne
  rw [h6, Res.bind_ok]
  exact ⟨_, rfl⟩

/-! ### OnCongestionEventEx -/

/-- whenever OnCongestionEventEx returns (for ARBITRARY environment values, ack/loss lists, times),
    the invariant holds afterwards and the datagram size is unchanged -/
theorem onCongestionEvent_inv (s : S) (h : Inv s) (e : Ev) (s' : S) (lu : Int)
    (hs : onCongestionEvent s e = .ok (s', lu)) : Inv s' ∧ s'.mds = s.mds := by
  rw [onCongestionEvent_eq] at hs
  have hc : Core (pre s e).1 s.mds := (Core.of_inv h).fr (pre_fr s e)
  generalize (pre s e).1 = s0 at *
  obtain ⟨s5, f, rfl⟩ := post_ok_shape s0 e _ _ s' lu hs
  exact tail_inv s5 s.mds e _ (hc.fr f)

/-- recovery window floor, stated on its own -/
theorem onCongestionEvent_recovery_floor (s : S) (h : Inv s) (e : Ev) (s' : S) (lu : Int)
    (hs : onCongestionEvent s e = .ok (s', lu)) : s'.rcv ≠ .none → minPk * s'.mds ≤ s'.recWnd := by
  intro hr
  have hi := (onCongestionEvent_inv s h e s' lu hs).1
  rw [← hi.minEq]
  exact hi.rw hr

/-- no panic site is reached for a QUIC-consistent event -/
theorem onCongestionEvent_noPanic (s : S) (h : Inv s) (e : Ev)
    (hne : e.acked ≠ [] ∨ e.lost ≠ [])
    (hrtt : e.env.bw ≠ 0 → e.env.rttMin ≠ 0) :
    ∃ s' lu, onCongestionEvent s e = .ok (s', lu) := by
  rw [onCongestionEvent_eq]
  obtain ⟨⟨s', lu⟩, hr⟩ := post_noPanic (pre s e).1 e (pre s e).2.1 (pre s e).2.2 hne hrtt
  exact ⟨s', lu, hr⟩

/-! ### pacer bandwidth and the pacer -/

theorem bandwidthForPacer_floor (bps : Int) : minBps ≤ bandwidthForPacer bps := by
  unfold bandwidthForPacer
  split
  · exact Nat.le_refl _
  · rename_i h
    simp only [minBps, Gen.bbr_minBps] at *
    omega

theorem bandwidthForPacer_pos (bps : Int) : 0 < bandwidthForPacer bps := by
  have h := bandwidthForPacer_floor bps
  simp only [minBps, Gen.bbr_minBps] at h
  omega

theorem ceilDiv_mul_ge (a b : Nat) (hb : 0 < b) : a ≤ ceilDiv a b * b := by
  unfold ceilDiv
  have h := Nat.div_add_mod a b
  have hm := Nat.mod_lt a hb
  split
  · rw [Nat.add_mul, Nat.mul_comm (a / b) b]; omega
  · have : a % b = 0 := by omega
    rw [Nat.add_zero, Nat.mul_comm]; omega

/-- pacer: with a positive bandwidth TimeUntilSend does not fault … -/
theorem timeUntilSend_noPanic (p : Pacer) (bw : Nat) (hbw : 0 < bw) : ∃ t, p.timeUntilSend bw = .ok t := by
  unfold Pacer.timeUntilSend
  split
  · exact ⟨_, rfl⟩
  · rw [if_neg (by omega)]
    exact ⟨_, rfl⟩

/-- … and waiting until the announced time yields budget for a full datagram, even if the
    bandwidth seen at wake-up (bw') is any value ≥ the one used for the announcement -/
theorem wakeup_sufficient (p : Pacer) (bw bw' : Nat) (hbw : 0 < bw) (hle : bw ≤ bw')
    (hlt : p.budgetAtLastSent < p.mds) (t : Nat) (ht : p.timeUntilSend bw = .ok t) :
    p.mds ≤ p.budget bw' t := by
  unfold Pacer.timeUntilSend at ht
  rw [if_neg (by omega), if_neg (by omega)] at ht
  have ht' := Res.ok.inj ht
  subst ht'
  unfold Pacer.budget
  simp only [Gen.quic_MinPacingDelayNs]
  generalize hd : ceilDiv (1000000000 * (p.mds - p.budgetAtLastSent)) bw = d
  have hsub : p.last + max 1000000 d - p.last = max 1000000 d := by omega
  rw [hsub]
  apply Nat.le_min.mpr
  constructor
  · unfold maxBurst; omega
  · have h1 : 1000000000 * (p.mds - p.budgetAtLastSent) ≤ d * bw := by
      rw [← hd]; exact ceilDiv_mul_ge _ _ hbw
    have h2 : d * bw ≤ bw' * max 1000000 d := by
      calc d * bw ≤ d * bw' := Nat.mul_le_mul_left _ hle
        _ = bw' * d := Nat.mul_comm _ _
        _ ≤ bw' * max 1000000 d := Nat.mul_le_mul_left _ (Nat.le_max_right _ _)
    have h3 : (p.mds - p.budgetAtLastSent) ≤ bw' * max 1000000 d / 1000000000 := by
      apply (Nat.le_div_iff_mul_le (by decide)).mpr
      omega
    omega

/-! ### traces -/

/-- QUIC-consistency of a trace, relative to the current datagram size -/
def Event.consistent (cur : Nat) : Event → Prop
  | .sent _ _ => True
  | .mds n => cur ≤ n
  | .cong e => (e.acked ≠ [] ∨ e.lost ≠ []) ∧ (e.env.bw ≠ 0 → e.env.rttMin ≠ 0)

def Event.nextMds (cur : Nat) : Event → Nat
  | .mds n => n
  | _ => cur

def Consistent : Nat → List Event → Prop
  | _, [] => True
  | cur, ev :: evs => ev.consistent cur ∧ Consistent (ev.nextMds cur) evs

theorem step_cong_eq (s : S) (e : Ev) :
    step s (.cong e) = (onCongestionEvent s e).bind (fun p => .ok p.1) := rfl

theorem step_spec (s : S) (h : Inv s) (ev : Event) (s1 : S) (hs : step s ev = .ok s1) :
    Inv s1 ∧ s1.mds = ev.nextMds s.mds := by
  cases ev with
  | sent inflight pn =>
    have h1 : onPacketSent s inflight pn = s1 := Res.ok.inj hs
    subst h1
    exact onPacketSent_inv s h inflight pn
  | mds n => exact setMds_ok_inv s h n s1 hs
  | cong e =>
    rw [step_cong_eq] at hs
    obtain ⟨⟨s', lu⟩, h1, h2⟩ := (Res.bind_eq_ok _ _ _).mp hs
    have h3 : s' = s1 := Res.ok.inj h2
    subst h3
    exact onCongestionEvent_inv s h e s' lu h1

theorem step_noPanic (s : S) (h : Inv s) (ev : Event) (hc : ev.consistent s.mds) :
    ∃ s1, step s ev = .ok s1 := by
  cases ev with
  | sent inflight pn => exact ⟨_, rfl⟩
  | mds n =>
    obtain ⟨s', h1, _⟩ := setMds_spec s h n hc
    exact ⟨s', h1⟩
  | cong e =>
    obtain ⟨s', lu, h1⟩ := onCongestionEvent_noPanic s h e hc.1 hc.2
    rw [step_cong_eq, h1]
    exact ⟨s', rfl⟩

theorem run_cons_eq (s : S) (ev : Event) (evs : List Event) :
    run s (ev :: evs) = (step s ev).bind (fun s' => run s' evs) := rfl

/-- every state reached by a run that returns satisfies the invariant (no consistency needed) -/
theorem run_inv (evs : List Event) : ∀ (s : S), Inv s → ∀ s', run s evs = .ok s' → Inv s' := by
  induction evs with
  | nil =>
    intro s h s' hr
    have h1 : s = s' := Res.ok.inj hr
    subst h1
    exact h
  | cons ev evs ih =>
    intro s h s' hr
    rw [run_cons_eq] at hr
    obtain ⟨s1, h1, h2⟩ := (Res.bind_eq_ok _ _ _).mp hr
    exact ih s1 (step_spec s h ev s1 h1).1 s' h2

/-- a QUIC-consistent trace never reaches a panic site -/
theorem run_noPanic (evs : List Event) : ∀ (s : S), Inv s → Consistent s.mds evs →
    ∃ s', run s evs = .ok s' ∧ Inv s' := by
  induction evs with
  | nil =>
    intro s h _
    exact ⟨s, rfl, h⟩
  | cons ev evs ih =>
    intro s h hc
    obtain ⟨s1, h1⟩ := step_noPanic s h ev hc.1
    obtain ⟨i1, m1⟩ := step_spec s h ev s1 h1
    have hc' : Consistent s1.mds evs := by rw [m1]; exact hc.2
    obtain ⟨s', h2, h3⟩ := ih s1 i1 hc'
    refine ⟨s', ?_, h3⟩
    rw [run_cons_eq, h1]
    exact h2

end Hy.Bbr
