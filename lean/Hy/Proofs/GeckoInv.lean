/-
  The bookkeeping invariant through every receiver step; gc; the ticker.  C14 census / caps / ttl.
-/
import Hy.Proofs.GeckoMap
namespace Hy.Gecko
open Hy

theorem maxTable_pos : 0 < maxTable := by decide

theorem inv_evict (st : St) (tie : Key) (h : Inv st) : Inv (evictOldest st tie) := by
  unfold evictOldest; split
  · exact h
  · exact inv_drop _ _ h

theorem evict_spec (st : St) (tie : Key) (h : Inv st) (hne : st.tab ≠ []) :
    ∃ w, evictOldest st tie = dropEntry st w ∧ (aget st.tab w).isSome := by
  obtain ⟨k, e, h1, h2, _⟩ := victimOf_spec st.tab tie hne h.nodupT
  exact ⟨k, by simp [evictOldest, h1], by simp [h2]⟩

theorem inv_admit (st : St) (k : Key) (total now : Nat) (tie : Key) (h : Inv st) (s2 : St) (e : Ent)
    (ha : admitEntry st k total now tie = some (s2, e)) : Inv s2 ∧ aget s2.tab k = some e := by
  unfold admitEntry at ha
  split at ha
  · rename_i e0 ht
    split at ha
    · simp at ha
    · simp only [Option.some.injEq, Prod.mk.injEq] at ha
      obtain ⟨h1, h2⟩ := ha; subst h1; subst h2
      exact ⟨h, ht⟩
  · rename_i ht
    split at ha
    · simp at ha
    · rename_i hp
      simp only [Option.some.injEq, Prod.mk.injEq] at ha
      obtain ⟨h1, h2⟩ := ha; subst h1; subst h2
      refine ⟨?_, by simp⟩
      by_cases hl : st.tab.length ≥ maxTable
      · simp only [hl, ↓reduceIte]
        have hne : st.tab ≠ [] := by
          intro hnil; rw [hnil] at hl; have := maxTable_pos; simp at hl; omega
        obtain ⟨w, hw, hwm⟩ := evict_spec st tie h hne
        rw [hw]
        have hwk : w ≠ k := by
          intro hwk; subst hwk; simp [ht] at hwm
        apply inv_insert _ k _ (inv_drop st w h)
        · rw [drop_tab_ne st w k (Ne.symm hwk)]; exact ht
        · have := drop_per_le st w k.src h.nodupP; omega
        · have := drop_len st w hwm; have := h.tabCap; omega
      · simp only [hl, ↓reduceIte]
        exact inv_insert st k _ h ht (by omega) (by omega)

theorem inv_place (s2 : St) (k : Key) (e : Ent) (idx : Nat) (pl : Bytes)
    (h2 : Inv s2) (hk : (aget s2.tab k).isSome) : Inv (place s2 k e idx pl).1 := by
  unfold place
  split
  · dsimp only
    have h3 := inv_replace s2 k { e with chunks := e.chunks.set idx (some pl), received := e.received + 1 } h2 hk
    split
    · exact h3
    · exact inv_drop _ k h3
  · exact h2

/-- census + caps are preserved by every chunk from every source, whatever is evicted -/
theorem inv_accept (st : St) (k : Key) (hd : Hdr) (pl : Bytes) (now : Nat) (tie : Key)
    (h : Inv st) : Inv (acceptT st k hd pl now tie).1 := by
  unfold acceptT
  split
  · exact h
  · rename_i s2 e ha
    obtain ⟨h2, hk⟩ := inv_admit st k hd.total now tie h s2 e ha
    exact inv_place s2 k e hd.idx pl h2 (by simp [hk])

theorem inv_foldl_drop (ks : List Key) (st : St) (h : Inv st) : Inv (ks.foldl dropEntry st) := by
  induction ks generalizing st with
  | nil => exact h
  | cons k r ih => exact ih _ (inv_drop st k h)

theorem inv_gc (st : St) (now : Nat) (h : Inv st) : Inv (gcExpired st now) := inv_foldl_drop _ _ h

theorem inv_rx (st : St) (src : Nat) (d : Bytes) (now : Nat) (tie : Key) (pcap : Nat) (h : Inv st) :
    Inv (rxT st src d now tie pcap).1 := by
  unfold rxT
  dsimp only
  split
  · exact h
  · split
    · exact h
    · split
      · rename_i hd pl _
        have := inv_accept st { src := src, mid := hd.mid } hd pl now tie h
        split <;> (rename_i heq; rw [heq] at this; exact this)
      · exact h

theorem inv_step (st : St) (ev : Ev) (h : Inv st) : Inv (stepT st ev).1 := by
  cases ev with
  | dgram src d now tie pcap => exact inv_rx st src d now tie pcap h
  | gc now => exact inv_gc st now h

theorem inv_run (evs : List Ev) (st : St) (h : Inv st) : Inv (runT st evs).1 := by
  induction evs generalizing st with
  | nil => exact h
  | cons ev r ih => simp only [runT]; exact ih _ (inv_step st ev h)

/-! ### gc: what survives -/

theorem foldl_drop_tab (ks : List Key) (st : St) (j : Key) (hn : (akeys st.tab).Nodup) :
    (akeys (ks.foldl dropEntry st).tab).Nodup ∧
    aget (ks.foldl dropEntry st).tab j = if j ∈ ks then none else aget st.tab j := by
  induction ks generalizing st with
  | nil => simp [hn]
  | cons k r ih =>
    have hn' : (akeys (dropEntry st k).tab).Nodup := by
      unfold dropEntry; split
      · exact hn
      · exact akeys_adel_nodup _ _ hn
    obtain ⟨h1, h2⟩ := ih (dropEntry st k) hn'
    refine ⟨h1, ?_⟩
    simp only [List.foldl_cons, h2, List.mem_cons]
    by_cases hj : j = k
    · subst hj; simp only [true_or, ↓reduceIte]
      split
      · rfl
      · exact drop_tab_self st j hn
    · simp only [hj, false_or]
      rw [drop_tab_ne st k j hj]

theorem gc_tab (st : St) (now : Nat) (j : Key) (hn : (akeys st.tab).Nodup) :
    aget (gcExpired st now).tab j =
      match aget st.tab j with
      | some e => if e.deadline < now then none else some e
      | none => none := by
  unfold gcExpired
  rw [(foldl_drop_tab _ st j hn).2]
  cases he : aget st.tab j with
  | none =>
    simp only
    split
    · rfl
    · rfl
  | some e =>
    simp only
    have hmem : (j, e) ∈ st.tab := aget_mem he
    by_cases hd : e.deadline < now
    · simp only [hd, ↓reduceIte]
      rw [if_pos]
      exact List.mem_map.mpr ⟨(j, e), List.mem_filter.mpr ⟨hmem, by simp [hd]⟩, rfl⟩
    · simp only [hd, ↓reduceIte]
      rw [if_neg]
      intro hm
      obtain ⟨⟨j', e'⟩, hm1, hm2⟩ := List.mem_map.mp hm
      simp only at hm2; subst hm2
      obtain ⟨hm3, hm4⟩ := List.mem_filter.mp hm1
      have := aget_of_mem hn hm3
      rw [he] at this; simp only [Option.some.injEq] at this; subst this
      simp at hm4; exact hd hm4

/-! ### the ticker -/

theorem inv_advanceN (fuel : Nat) (rx : Rx) (to : Nat) (h : Inv rx.st) : Inv (advanceN fuel rx to).st := by
  induction fuel generalizing rx with
  | zero => exact h
  | succ n ih =>
    simp only [advanceN]; split
    · exact ih _ (inv_gc _ _ h)
    · exact h

theorem inv_advance (rx : Rx) (to : Nat) (h : Inv rx.st) : Inv (advance rx to).st := inv_advanceN _ _ _ h

end Hy.Gecko
