/-
  Codec and sender lemmas for the Gecko model (C14): nothing panics, the `Res` forms equal the
  total forms, encode/decode round trip, pad arithmetic, the fragments of a packet.
-/
import Hy.Proofs.GeckoMap
set_option linter.unusedSimpArgs false
namespace Hy.Gecko
open Hy

theorem headerSize_eq : headerSize = 5 := by decide
theorem saltLen_eq : saltLen = 8 := by decide
theorem minChunks_eq : minChunks = 2 := by decide
theorem maxChunks_eq : maxChunks = 8 := by decide
theorem bufferSize_eq : bufferSize = 2048 := by decide

theorem five_of_len {α} (l : List α) (h : 5 ≤ l.length) : ∃ a b c d e r, l = a :: b :: c :: d :: e :: r := by
  match l, h with
  | a :: b :: c :: d :: e :: r, _ => exact ⟨a, b, c, d, e, r, rfl⟩
  | [], h => simp at h
  | [_], h => simp at h
  | [_, _], h => simp at h
  | [_, _, _], h => simp at h
  | [_, _, _, _], h => simp at h

theorem decodeFrame_eq (inp : Bytes) : decodeFrame inp = .ok (decodeT inp) := by
  unfold decodeFrame decodeT
  by_cases h : inp.length < headerSize
  · simp [h]
  · simp only [h, ↓reduceIte]
    rw [headerSize_eq] at h
    obtain ⟨a, b, c, d, e, rest, rfl⟩ := five_of_len inp (by omega)
    simp only [Res.idx, Res.slice, Res.sliceFrom, List.getElem?_cons_zero, List.getElem?_cons_succ,
        Res.bind_ok, List.getD_cons_zero, List.getD_cons_succ, List.length_cons]
    have h35 : (3 ≤ 5 ∧ 5 ≤ rest.length + 1 + 1 + 1 + 1 + 1) := by omega
    simp only [h35, and_self, ↓reduceIte, Res.bind_ok, List.take_succ_cons, List.drop_succ_cons, List.take_zero,
      List.drop_zero, List.getElem?_cons_zero, List.getElem?_cons_succ]
    have ha : (a.val / 128 % 2 = 0) ↔ a.val < 128 := by have := a.isLt; omega
    by_cases h1 : a.val < 128
    · simp [ha, h1]
    · simp only [ha, h1, ↓reduceIte]
      split
      · rfl
      · split
        · rfl
        · split
          · rfl
          · rename_i h4
            have : headerSize + (d.val * 256 + e.val) ≤ rest.length + 1 + 1 + 1 + 1 + 1 := by omega
            simp only [this, ↓reduceIte, Res.bind_ok]


theorem copyAt_mid (w z src : Bytes) (h : src.length ≤ z.length) :
    copyAt (w ++ z) w.length src = .ok (w ++ src ++ z.drop src.length) := by
  unfold copyAt
  have h1 : w.length ≤ (w ++ z).length := by simp
  simp only [h1, ↓reduceIte]
  have h2 : min src.length ((w ++ z).length - w.length) = src.length := by simp; omega
  simp only [h2, List.take_left', List.take_length]
  congr 1
  rw [List.drop_append]
  simp

@[simp] theorem fill_length (n : Nat) (rnd : Bytes) : (fill n rnd).length = n := by
  simp [fill]

theorem replicate5 (n : Nat) (h : 5 ≤ n) :
    List.replicate n (0 : Byte) = 0 :: 0 :: 0 :: 0 :: 0 :: List.replicate (n - 5) 0 := by
  obtain ⟨m, rfl⟩ : ∃ m, n = m + 5 := ⟨n - 5, by omega⟩
  simp [List.replicate_succ]

theorem encodeFrame_ok (h : Hdr) (payload rnd : Bytes) (outLen : Nat)
    (ht : 2 ≤ h.total ∧ h.total ≤ 8) (hi : h.idx < h.total) (hl : 5 + h.pad + payload.length ≤ outLen) :
    encodeFrame h payload outLen rnd = .ok (.val (frameOf h (fill h.pad rnd) payload)) := by
  unfold encodeFrame
  rw [minChunks_eq, maxChunks_eq, headerSize_eq]
  have c1 : ¬ (h.total < 2 ∨ h.total > 8) := by omega
  have c2 : ¬ (h.idx ≥ h.total) := by omega
  have c3 : ¬ (outLen < 5 + h.pad + payload.length) := by omega
  simp only [c1, c2, c3, ↓reduceIte]
  rw [replicate5 outLen (by omega)]
  simp only [setAt, List.length_cons, List.length_replicate, Nat.zero_lt_succ, ↓reduceIte, List.take_zero,
    List.nil_append, List.drop_succ_cons, List.drop_zero, Res.bind_ok, Nat.lt_add_left_iff_pos,
    List.take_succ_cons, List.cons_append]
  have hs1 : (3 ≤ 5 ∧ 5 ≤ outLen - 5 + 1 + 1 + 1 + 1 + 1) := by omega
  have hs2 : (5 ≤ 5 + h.pad ∧ 5 + h.pad ≤ outLen - 5 + 1 + 1 + 1 + 1 + 1) := by omega
  simp only [Res.slice, List.length_cons, List.length_replicate, hs1, hs2, and_self, ↓reduceIte, Res.bind_ok]
  generalize hb2 : byte (h.idx * 16 % 256 + h.total % 16) = b2
  have hb2' : byte (h.idx * 16 + h.total) = b2 := by
    rw [← hb2]; congr 1; omega
  have e1 : (byte 128 :: byte h.mid :: b2 :: byte (h.pad / 256) :: byte h.pad :: List.replicate (outLen - 5) (0 : Byte))
      = [byte 128, byte h.mid, b2, byte (h.pad / 256), byte h.pad] ++ List.replicate (outLen - 5) 0 := rfl
  rw [e1]
  have := copyAt_mid [byte 128, byte h.mid, b2, byte (h.pad / 256), byte h.pad] (List.replicate (outLen - 5) 0)
    (fill h.pad rnd) (by simp; omega)
  simp only [List.length_cons, List.length_nil] at this
  rw [this]
  simp only [Res.bind_ok, fill_length, List.drop_replicate]
  have := copyAt_mid ([byte 128, byte h.mid, b2, byte (h.pad / 256), byte h.pad] ++ fill h.pad rnd)
    (List.replicate (outLen - 5 - h.pad) 0) payload (by simp; omega)
  simp only [List.length_append, List.length_cons, List.length_nil, fill_length] at this
  rw [show 5 + h.pad = 0 + 1 + 1 + 1 + 1 + 1 + h.pad by omega, this]
  simp only [Res.bind_ok, Res.sliceTo]
  have hlen : ([byte 128, byte h.mid, b2, byte (h.pad / 256), byte h.pad] ++ fill h.pad rnd ++ payload).length
      = 5 + h.pad + payload.length := by simp; omega
  rw [if_pos (by simp; omega)]
  rw [← hlen, List.take_left' rfl]
  simp [frameOf, hb2']


structure Hdr.Valid (h : Hdr) : Prop where
  total : 2 ≤ h.total ∧ h.total ≤ 8
  idx : h.idx < h.total
  mid : h.mid < 256
  pad : h.pad < 65536

theorem decodeT_frameOf (h : Hdr) (pb payload : Bytes) (hv : h.Valid) (hp : pb.length = h.pad) :
    decodeT (frameOf h pb payload) = .val (h, payload) := by
  obtain ⟨⟨t1, t2⟩, hi, hm, hpad⟩ := hv
  unfold decodeT frameOf
  rw [headerSize_eq, minChunks_eq, maxChunks_eq]
  simp only [List.cons_append, List.nil_append, List.length_cons, List.length_append, List.getD_cons_zero,
    List.getD_cons_succ, byte_val]
  have e1 : (h.idx * 16 + h.total) % 256 % 16 = h.total := by omega
  have e2 : (h.idx * 16 + h.total) % 256 / 16 = h.idx := by omega
  have e3 : h.pad / 256 % 256 * 256 + h.pad % 256 = h.pad := by omega
  have e4 : h.mid % 256 = h.mid := by omega
  simp only [e1, e2, e3, e4]
  rw [if_neg (by omega), if_neg (by omega), if_neg (by omega), if_neg (by omega), if_neg (by omega)]
  congr 2
  rw [show 5 + h.pad = (pb.length + 1 + 1 + 1 + 1 + 1) by omega]
  simp

theorem acceptChunk_eq (st : St) (k : Key) (h : Hdr) (pl : Bytes) (now : Nat) (tie : Key) :
    acceptChunk st k h pl now tie = .ok (acceptT st k h pl now tie) := by
  unfold acceptChunk acceptT
  split
  · rfl
  · rename_i s2 e _
    unfold place
    by_cases hi : h.idx ≥ e.chunks.length
    · simp only [hi, ↓reduceIte]
      have : e.chunks[h.idx]? = none := List.getElem?_eq_none (by omega)
      simp [this]
    · simp only [hi, ↓reduceIte, Res.idx]
      have hlt : h.idx < e.chunks.length := by omega
      rw [List.getElem?_eq_getElem hlt]
      simp only [Res.bind_ok]
      cases hc : e.chunks[h.idx] with
      | none => simp only; split <;> rfl
      | some c => rfl

theorem rxStep_eq (st : St) (src : Nat) (d : Bytes) (now : Nat) (tie : Key) (pcap : Nat) :
    rxStep st src d now tie pcap = .ok (rxT st src d now tie pcap) := by
  unfold rxStep rxT
  dsimp only
  split
  · rfl
  · rename_i hne
    have hpos : 0 < (List.take bufferSize d).length := by omega
    simp only [Res.idx, List.getElem?_eq_getElem hpos, Res.bind_ok]
    have hg : (List.take bufferSize d).getD 0 0 = (List.take bufferSize d)[0] := by
      simp [List.getD, List.getElem?_eq_getElem hpos]
    rw [hg]
    generalize (List.take bufferSize d)[0] = b0
    have hb : (b0.val / 128 % 2 = 0) ↔ b0.val < 128 := by have := b0.isLt; omega
    by_cases h1 : b0.val < 128
    · simp [hb, h1]
    · simp only [hb, h1, ↓reduceIte, decodeFrame_eq, Res.bind_ok]
      split
      · rename_i hd pl
        simp only [acceptChunk_eq, Res.bind_ok]
        generalize acceptT st _ _ _ now tie = r
        obtain ⟨st', o⟩ := r
        cases o <;> rfl
      · rfl


theorem randomPadLen_lt (c : Cfg) (n r : Nat) : randomPadLen c n r < 65536 := by
  unfold randomPadLen; dsimp only; split
  · omega
  · exact Nat.mod_lt _ (by omega)

/-- the draw is in `randIntn`'s range, the chunk can fit: the datagram on the wire (salt + header +
    pad + chunk) lies in [minPkt, maxPkt] and the uint16 conversion loses nothing -/
theorem pad_in_range_aux (c : Cfg) (n r : Nat) (hcfg : c.minPkt ≤ c.maxPkt) (hmax : c.maxPkt ≤ bufferSize)
    (hfit : saltLen + headerSize + n ≤ c.maxPkt) (hr : r < max 1 (padDrawBound c n)) :
    c.minPkt ≤ saltLen + headerSize + randomPadLen c n r + n ∧
    saltLen + headerSize + randomPadLen c n r + n ≤ c.maxPkt ∧
    randomPadLen c n r = max c.minPkt (saltLen + headerSize + n) - (saltLen + headerSize + n) + r := by
  unfold randomPadLen padDrawBound at *
  rw [bufferSize_eq] at hmax
  simp only [Nat.max_def] at *
  split at hr <;> split <;> split at hr <;> (try split) <;> (try split) <;> omega

theorem pad_zero_of_too_big (c : Cfg) (n r : Nat) (h : c.maxPkt < saltLen + headerSize + n) :
    randomPadLen c n r = 0 := by
  unfold randomPadLen; simp only [Nat.max_def]; split <;> (try split) <;> omega

/-- chunk `i` of `p` when it is cut into `chunks` pieces as writeFragmented does -/
def chunkOf (p : Bytes) (chunks i : Nat) : Bytes :=
  (p.take (if i < chunks - 1 then i * (p.length / chunks) + p.length / chunks else p.length)).drop (i * (p.length / chunks))

theorem chunk_bounds (len chunks i : Nat) (hc : 1 ≤ chunks) (hi : i < chunks) :
    i * (len / chunks) ≤ (if i < chunks - 1 then i * (len / chunks) + len / chunks else len) ∧
    (if i < chunks - 1 then i * (len / chunks) + len / chunks else len) ≤ len := by
  have h1 : len / chunks * chunks ≤ len := Nat.div_mul_le_self _ _
  generalize len / chunks = x at *
  obtain ⟨m, rfl⟩ : ∃ m, chunks = m + 1 := ⟨chunks - 1, by omega⟩
  simp only [Nat.add_sub_cancel]
  have h2 : i * x ≤ m * x := Nat.mul_le_mul_right _ (by omega)
  rw [Nat.mul_add, Nat.mul_one, Nat.mul_comm] at h1
  split
  · rename_i hlt
    have h4 : (i + 1) * x ≤ m * x := Nat.mul_le_mul_right _ (by omega)
    rw [Nat.add_mul] at h4
    omega
  · omega

theorem slice_chunk (p : Bytes) (chunks i : Nat) (hc : 1 ≤ chunks) (hi : i < chunks) :
    Res.slice p (i * (p.length / chunks)) (if i < chunks - 1 then i * (p.length / chunks) + p.length / chunks else p.length)
      = .ok (chunkOf p chunks i) := by
  have := chunk_bounds p.length chunks i hc hi
  unfold Res.slice chunkOf
  rw [if_pos this]


/-- header of fragment `i` -/
def fragHdr (c : Cfg) (p : Bytes) (chunks mid i r : Nat) : Hdr :=
  { pad := randomPadLen c (chunkOf p chunks i).length r, mid := mid % 256, idx := i, total := chunks }

theorem fragHdr_valid (c : Cfg) (p : Bytes) (chunks mid i r : Nat) (hc : 2 ≤ chunks ∧ chunks ≤ 8) (hi : i < chunks) :
    (fragHdr c p chunks mid i r).Valid :=
  ⟨hc, hi, Nat.mod_lt _ (by omega), randomPadLen_lt _ _ _⟩

theorem fragment_eq (c : Cfg) (p : Bytes) (chunks mid i r : Nat) (rnd : Bytes)
    (hc : 2 ≤ chunks ∧ chunks ≤ 8) (hi : i < chunks) :
    fragment c p chunks mid i r rnd = .ok (.val (frameOf (fragHdr c p chunks mid i r)
      (fill (fragHdr c p chunks mid i r).pad rnd) (chunkOf p chunks i))) := by
  unfold fragment
  dsimp only
  rw [slice_chunk p chunks i (by omega) hi]
  simp only [Res.bind_ok]
  have e1 : i % 256 = i := by omega
  have e2 : chunks % 256 = chunks := by omega
  rw [e1, e2, headerSize_eq]
  exact encodeFrame_ok _ _ _ _ hc hi (Nat.le_refl _)

theorem fragLoop_spec (c : Cfg) (p : Bytes) (chunks mid : Nat) (hc : 2 ≤ chunks ∧ chunks ≤ 8) :
    ∀ (n i : Nat) (draws : List (Nat × Bytes)), i + n ≤ chunks →
    ∃ frames, fragLoop c p chunks mid n i draws = .ok frames ∧ frames.length = n ∧
      ∀ j, j < n → frames[j]? = some (frameOf (fragHdr c p chunks mid (i + j) ((draws.drop j).headD (0, [])).1)
        (fill (fragHdr c p chunks mid (i + j) ((draws.drop j).headD (0, [])).1).pad ((draws.drop j).headD (0, [])).2)
        (chunkOf p chunks (i + j))) := by
  intro n
  induction n with
  | zero => intro i draws _; exact ⟨[], rfl, rfl, fun j hj => absurd hj (by omega)⟩
  | succ n ih =>
    intro i draws hle
    obtain ⟨rest, hr, hlen, hall⟩ := ih (i + 1) draws.tail (by omega)
    simp only [fragLoop]
    rw [fragment_eq c p chunks mid i _ _ hc (by omega)]
    simp only [Res.bind_ok, hr]
    refine ⟨_, rfl, by simp [hlen], ?_⟩
    intro j hj
    cases j with
    | zero => simp
    | succ j =>
      have := hall j (by omega)
      simp only [List.getElem?_cons_succ, this, List.drop_tail]
      rw [show i + 1 + j = i + (j + 1) by omega]

theorem split_spec (c : Cfg) (p : Bytes) (chunks mid : Nat) (draws : List (Nat × Bytes)) (hc : 2 ≤ chunks ∧ chunks ≤ 8) :
    ∃ frames, split c p chunks mid draws = .ok frames ∧ frames.length = chunks ∧
      ∀ j, j < chunks → frames[j]? = some (frameOf (fragHdr c p chunks mid j ((draws.drop j).headD (0, [])).1)
        (fill (fragHdr c p chunks mid j ((draws.drop j).headD (0, [])).1).pad ((draws.drop j).headD (0, [])).2)
        (chunkOf p chunks j)) := by
  unfold split
  rw [if_neg (by omega)]
  obtain ⟨frames, h1, h2, h3⟩ := fragLoop_spec c p chunks mid hc chunks 0 draws (by omega)
  refine ⟨frames, h1, h2, ?_⟩
  intro j hj
  have := h3 j hj
  simpa using this

theorem take_append_drop_take {α} (l : List α) (a b : Nat) (h : a ≤ b) :
    l.take a ++ (l.take b).drop a = l.take b := by
  have : (l.take b).take a = l.take a := by rw [List.take_take]; congr 1; omega
  rw [← this]; exact List.take_append_drop _ _

/-- the chunks, in order, are the packet -/
theorem chunks_concat (p : Bytes) (chunks : Nat) (hc : 1 ≤ chunks) :
    ((List.range chunks).map (chunkOf p chunks)).flatten = p := by
  obtain ⟨m, rfl⟩ : ∃ m, chunks = m + 1 := ⟨chunks - 1, by omega⟩
  have key : ∀ t, t ≤ m → ((List.range t).map (chunkOf p (m + 1))).flatten = p.take (t * (p.length / (m + 1))) := by
    intro t
    induction t with
    | zero => intro _; simp
    | succ t ih =>
      intro ht
      rw [List.range_succ, List.map_append, List.flatten_append, ih (by omega)]
      simp only [List.map_cons, List.map_nil, List.flatten_cons, List.flatten_nil, List.append_nil]
      unfold chunkOf
      rw [if_pos (by omega)]
      rw [show t * (p.length / (m + 1)) + p.length / (m + 1) = (t + 1) * (p.length / (m + 1)) by rw [Nat.add_mul]; omega]
      exact take_append_drop_take _ _ _ (Nat.mul_le_mul_right _ (by omega))
  rw [List.range_succ, List.map_append, List.flatten_append, key m (Nat.le_refl _)]
  simp only [List.map_cons, List.map_nil, List.flatten_cons, List.flatten_nil, List.append_nil]
  unfold chunkOf
  rw [if_neg (by omega), List.take_length]
  exact List.take_append_drop _ _


end Hy.Gecko
