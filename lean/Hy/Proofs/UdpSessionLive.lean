/-
  C07 proofs, layer 4: quiescence after connection loss; sweeper facts.
-/
import Hy.Proofs.UdpSessionStep2
namespace Hy.UdpSession
open Hy.UdpAcl (Addr DialRes)

/-- entry i has a socket and Close() has been called on it -/
def sockClosedOf (s : St) (i : Nat) : Bool :=
  match s.ent i with
  | some e => match e.conn with
    | some k => s.sock k != 0
    | none => false
  | none => false

/-- Steps that need nothing more from outside: everything except the arrival of a client datagram, a
    remote packet or a spontaneous read error, a timer tick, and the loss of the connection itself.
    `ReadFrom` on a closed socket fails (contract of UDPConn.Close); `SendMessage` on a lost connection
    fails (contract of quic.Conn.SendDatagram). -/
def internal (s : St) : Label → Bool
  | .recv _ => false
  | .connLost => false
  | .tick _ => false
  | .loopRead _ _ (some _) => false
  | .loopRead i _ none => sockClosedOf s i
  | .loopSent _ _ => s.down
  | _ => true

/-- no goroutine can move without new input -/
def Quiescent (c : Cfg) (s : St) : Prop := ∀ l, internal s l = true → step c s l = s

theorem closeA_rl (s : St) (i : Nat) (b : Bool) : (closeA s i b).rl = s.rl := (closeA_pcs s i b).1
theorem closeA_sw (s : St) (i : Nat) (b : Bool) : (closeA s i b).sw = s.sw := (closeA_pcs s i b).2.1

theorem q_rl (c : Cfg) (s : St) (hd : s.down = true) (hq : Quiescent c s) : s.rl = .done := by
  cases hrl : s.rl with
  | done => rfl
  | idle =>
    have h2 := congrArg St.rl (hq .recvErr rfl)
    simp [step, hrl, hd] at h2
  | got m =>
    have h2 := congrArg St.rl (hq .lookup rfl)
    simp only [step, hrl] at h2
    split at h2 <;> simp at h2
  | create m =>
    have h2 := congrArg St.rl (hq (.insert 0) rfl)
    simp [step, hrl] at h2
  | feed i m =>
    have h2 := congrArg St.rl (hq (.feedA 0 .hookErr) rfl)
    simp only [step, hrl] at h2
    repeat' split at h2
    all_goals simp [setEnt, emit] at h2
  | closing i =>
    have h2 := congrArg St.rl (hq .rlCloseA rfl)
    simp [step, hrl] at h2
  | write i m =>
    have h2 := congrArg St.rl (hq (.feedB "" true) rfl)
    simp only [step, hrl] at h2
    repeat' split at h2
    all_goals simp [setEnt, emit] at h2
  | stopping p =>
    cases p with
    | nil =>
      have h2 := congrArg St.rl (hq .rlStopDone rfl)
      simp [step, hrl] at h2
    | cons i t =>
      have h2 := congrArg St.rl (hq (.rlStopClose i) rfl)
      simp [step, hrl] at h2
      try (have := congrArg List.length h2; simp at this)

theorem q_sw (c : Cfg) (s : St) (hst : s.stopped = true) (hq : Quiescent c s) : s.sw = .done := by
  cases hsw : s.sw with
  | done => rfl
  | idle =>
    have h2 := congrArg St.sw (hq .swStop rfl)
    simp [step, hsw, hst] at h2
  | closing now sel p =>
    cases p with
    | nil =>
      have h2 := congrArg St.sw (hq .swDone rfl)
      simp [step, hsw] at h2
    | cons i t =>
      have h2 := congrArg St.sw (hq (.swClose i) rfl)
      simp [step, hsw] at h2
      try (have := congrArg List.length h2; simp at this)

theorem q_noPending (c : Cfg) (s : St) (hq : Quiescent c s) (i : Nat) (e : Entry) (he : s.ent i = some e) :
    e.exitPending = false := by
  cases hp : e.exitPending with
  | false => rfl
  | true =>
    have h2 := congrArg (fun s => s.ent i) (hq (.exitB i) rfl)
    simp only [step, he, hp, if_true, emit, setEnt, upd_same] at h2
    have := congrArg Entry.exitPending (Option.some.inj h2)
    simp [hp] at this

theorem q_loopOff (c : Cfg) (s : St) (hI : Inv s) (hd : s.down = true) (hq : Quiescent c s)
    (i : Nat) (e : Entry) (he : s.ent i = some e) (hcl : e.closed = true) : e.lp = .off := by
  cases hlp : e.lp with
  | off => rfl
  | read =>
    exfalso
    have hlive : e.core.live = true := by simp [Entry.core, hlp]
    have hc := hI.skI.live i e.core (sk_ce_some he) hlive
    cases hconn : e.conn with
    | none => simp [Entry.core, hconn] at hc
    | some k =>
      obtain ⟨_, _, hs⟩ := hI.skI.conn i e.core k (sk_ce_some he) (by simp [Entry.core, hconn])
      have hs2 : s.sock k = (if e.core.closed = true then 1 else 0) := hs
      have hs' : s.sock k = 1 := by simpa [Entry.core, hcl] using hs2
      have hint : internal s (.loopRead i 0 none) = true := by
        simp [internal, sockClosedOf, he, hconn, hs']
      have h2 := congrArg (fun s => s.ent i) (hq _ hint)
      simp only [step, he, hlp, hconn, setEnt, upd_same] at h2
      have := congrArg Entry.lp (Option.some.inj h2)
      simp [hlp] at this
  | send =>
    exfalso
    have hint : internal s (.loopSent i false) = true := by simp [internal, hd]
    have h2 := congrArg (fun s => s.ent i) (hq _ hint)
    simp only [step, he, hlp, setEnt, upd_same] at h2
    have := congrArg Entry.lp (Option.some.inj h2)
    simp [hlp] at this
  | closing =>
    exfalso
    have hca : closeA s i true = s := by simp [closeA, he, hcl]
    have h2 := congrArg (fun s => s.ent i) (hq (.loopCloseA i) rfl)
    simp only [step, he, hlp, hca, setEnt, upd_same] at h2
    have := congrArg Entry.lp (Option.some.inj h2)
    simp [hlp] at this

/-- Connection lost and nothing can move ⇒ every goroutine has ended, the table is empty, every
    socket that was opened has been closed exactly once. -/
theorem quiescent_census (c : Cfg) (s : St) (hI : Inv s) (hd : s.down = true) (hq : Quiescent c s) :
    s.rl = .done ∧ s.sw = .done ∧ (∀ sid, s.tbl sid = none) ∧
    (∀ i e, s.ent i = some e → e.lp = .off ∧ e.closed = true ∧ e.exitPending = false) ∧
    (∀ k, k < s.nSock → s.sock k = 1) := by
  have hrl := q_rl c s hd hq
  have hrlok := hI.rl; rw [hrl] at hrlok
  obtain ⟨_, hst, hall⟩ := hrlok
  have hclosed : ∀ i e, s.ent i = some e → e.closed = true := by
    intro i e he; exact hall i e.core (sk_ce_some he)
  refine ⟨hrl, q_sw c s hst hq, ?_, ?_, ?_⟩
  · intro sid
    cases ht : s.tbl sid with
    | none => rfl
    | some i =>
      exfalso
      obtain ⟨ce, hce, _, hl⟩ := hI.skI.tblT sid i ht
      obtain ⟨e, he, hcore⟩ := sk_ce_inv hce
      subst hcore
      rcases hl with hl | hl
      · have := hclosed i e he; simp [Entry.core] at hl; rw [hl] at this; simp at this
      · have := q_noPending c s hq i e he; simp [Entry.core] at hl; rw [hl] at this; simp at this
  · intro i e he
    exact ⟨q_loopOff c s hI hd hq i e he (hclosed i e he), hclosed i e he, q_noPending c s hq i e he⟩
  · intro k hk
    obtain ⟨ce, hce, hconn⟩ := hI.skI.sockOwn k hk
    obtain ⟨e, he, hcore⟩ := sk_ce_inv hce
    subst hcore
    obtain ⟨_, _, hs⟩ := hI.skI.conn _ e.core k (sk_ce_some he) hconn
    have := hclosed _ e he
    have hs2 : s.sock k = (if e.core.closed = true then 1 else 0) := hs
    simpa [Entry.core, this] using hs2

/-! ### close count -/

theorem close_count (s : St) (hI : Inv s) (k : Nat) (hk : k < s.nSock) :
    ∃ e, s.ent (s.sockEnt k) = some e ∧ e.conn = some k ∧ s.sock k = (if e.closed then 1 else 0) := by
  obtain ⟨ce, hce, hconn⟩ := hI.skI.sockOwn k hk
  obtain ⟨e, he, hcore⟩ := sk_ce_inv hce
  subst hcore
  obtain ⟨_, _, hs⟩ := hI.skI.conn _ e.core k (sk_ce_some he) hconn
  exact ⟨e, he, hconn, hs⟩

/-! ### sweeper -/

theorem tick_sel (c : Cfg) (s : St) (now : Nat) (hsw : s.sw = .idle) :
    (step c s (.tick now)).sw =
      .closing now ((List.range s.nEnt).filter (idleAt c s now)) ((List.range s.nEnt).filter (idleAt c s now)) := by
  simp [step, hsw]

theorem mem_idle_scan (c : Cfg) (s : St) (hI : Inv s) (now i : Nat) :
    i ∈ (List.range s.nEnt).filter (idleAt c s now) ↔
      ∃ e, s.ent i = some e ∧ s.tbl e.sid = some i ∧ e.last + c.timeout < now := by
  rw [List.mem_filter, List.mem_range]
  constructor
  · intro ⟨_, h2⟩
    unfold idleAt at h2
    cases he : s.ent i with
    | none => rw [he] at h2; simp at h2
    | some e =>
      rw [he] at h2
      simp only [Bool.and_eq_true, beq_iff_eq, decide_eq_true_eq] at h2
      exact ⟨e, rfl, h2.1, h2.2⟩
  · intro ⟨e, he, ht, hl⟩
    constructor
    · have := hI.skI.fresh i
      by_cases hlt : i < s.nEnt
      · exact hlt
      · have h2 := this (by show s.nEnt ≤ i; omega)
        rw [sk_ce_some he] at h2; simp at h2
    · unfold idleAt; rw [he]
      simp only [Bool.and_eq_true, beq_iff_eq, decide_eq_true_eq]
      exact ⟨ht, hl⟩

end Hy.UdpSession

namespace Hy.UdpSession
open Hy.UdpAcl (Addr DialRes)

/-- only the sweeper's own labels move the sweeper's program counter -/
theorem step_sw (c : Cfg) (s : St) (l : Label)
    (h1 : ∀ now, l ≠ .tick now) (h2 : ∀ i, l ≠ .swClose i) (h3 : l ≠ .swDone) (h4 : l ≠ .swStop) :
    (step c s l).sw = s.sw := by
  cases l with
  | tick now => exact absurd rfl (h1 now)
  | swClose i => exact absurd rfl (h2 i)
  | swDone => exact absurd rfl h3
  | swStop => exact absurd rfl h4
  | rlCloseA => simp only [step]; split <;> simp [closeA_sw]
  | rlStopClose i => simp only [step]; split <;> (try split) <;> simp [closeA_sw]
  | loopCloseA i =>
    simp only [step]
    split
    · split
      · split
        · simp [setEnt, closeA_sw]
        · simp [closeA_sw]
      · rfl
    · rfl
  | _ =>
    simp only [step]
    repeat' split
    all_goals simp [setEnt, emit]

/-- "entry i is closed, or the sweep that selected it (scan time `now`) is still running with i pending" -/
def SweepPending (now i : Nat) (s : St) : Prop :=
  (∃ e, s.ent i = some e ∧ e.closed = true) ∨ (∃ sel p, s.sw = .closing now sel p ∧ i ∈ p)

theorem closed_step (c : Cfg) (s : St) (l : Label) (hI : Inv s) (i : Nat) (e : Entry)
    (he : s.ent i = some e) (hc : e.closed = true) :
    ∃ e', (step c s l).ent i = some e' ∧ e'.closed = true ∧ e'.conn = e.conn ∧ e'.sid = e.sid := by
  obtain ⟨ce', hce', hsid, _, hcl⟩ := (mono_step c s l hI).ent i e.core (sk_ce_some he)
  obtain ⟨e', he', hcore⟩ := sk_ce_inv hce'
  subst hcore
  obtain ⟨a, b⟩ := hcl (by simp [Entry.core, hc])
  exact ⟨e', he', a, b, hsid⟩

theorem sweepPending_step (c : Cfg) (s : St) (l : Label) (hI : Inv s) (now i : Nat)
    (h : SweepPending now i s) : SweepPending now i (step c s l) := by
  rcases h with ⟨e, he, hc⟩ | ⟨sel, p, hsw, hip⟩
  · obtain ⟨e', he', hc', _, _⟩ := closed_step c s l hI i e he hc
    exact Or.inl ⟨e', he', hc'⟩
  · by_cases h1 : ∃ t, l = .tick t
    · obtain ⟨t, rfl⟩ := h1
      have : step c s (.tick t) = s := by simp [step, hsw]
      rw [this]; exact Or.inr ⟨sel, p, hsw, hip⟩
    by_cases h3 : l = .swDone
    · subst h3
      have : step c s .swDone = s := by
        cases p with
        | nil => simp at hip
        | cons a t => simp [step, hsw]
      rw [this]; exact Or.inr ⟨sel, p, hsw, hip⟩
    by_cases h4 : l = .swStop
    · subst h4
      have : step c s .swStop = s := by simp [step, hsw]
      rw [this]; exact Or.inr ⟨sel, p, hsw, hip⟩
    by_cases h2 : ∃ j, l = .swClose j
    · obtain ⟨j, rfl⟩ := h2
      by_cases hj : j ∈ p
      · by_cases hji : j = i
        · subst hji
          left
          have hswok := hI.sw; rw [hsw] at hswok
          obtain ⟨ce, hce, _⟩ := hswok.1 j (hswok.2 j hip)
          obtain ⟨ce2, hce2, hcl2⟩ := closeA_closed (sk s) j ce hce
          have hst : (step c s (.swClose j)).ent j = (closeA s j false).ent j := by simp [step, hsw, hj]
          rw [← sk_closeA s j false] at hce2
          obtain ⟨e2, he2, hcore⟩ := sk_ce_inv hce2
          subst hcore
          exact ⟨e2, by rw [hst]; exact he2, hcl2⟩
        · right
          refine ⟨sel, p.erase j, ?_, (List.mem_erase_of_ne (Ne.symm hji)).mpr hip⟩
          simp [step, hsw, hj]
      · have : step c s (.swClose j) = s := by simp [step, hsw, hj]
        rw [this]; exact Or.inr ⟨sel, p, hsw, hip⟩
    · right
      refine ⟨sel, p, ?_, hip⟩
      rw [step_sw c s l (fun t ht => h1 ⟨t, ht⟩) (fun j hj => h2 ⟨j, hj⟩) h3 h4]; exact hsw

theorem sweepPending_run (c : Cfg) (now i : Nat) (sched : List Label) :
    ∀ s, Inv s → SweepPending now i s → SweepPending now i (run c s sched) := by
  induction sched with
  | nil => intro s _ h; exact h
  | cons l rest ih => intro s hI h; exact ih _ (inv_step c s l hI) (sweepPending_step c s l hI now i h)

end Hy.UdpSession
