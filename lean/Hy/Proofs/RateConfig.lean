/-
  Helper lemmas for the configuration layer of C10 (Hy.Model.RateConfig).
-/
import Hy.Model.RateConfig
import Hy.Proofs.Rate
namespace Hy.RateCfg
open Hy Hy.Rate

def AllSpace (l : List Nat) : Prop := ∀ x ∈ l, isSpace x = true
def AllDigit (l : List Nat) : Prop := ∀ x ∈ l, isDigit x = true
def NoSpace (l : List Nat) : Prop := ∀ x ∈ l, isSpace x = false
def NoDigit (l : List Nat) : Prop := ∀ x ∈ l, isDigit x = false

/-- value of a digit string -/
def digitsVal (ds : List Nat) : Nat := valOf 0 (ds.map (· - 48))

/-! ### character classes and `lower` -/

theorem isSpace_iff (r : Nat) : isSpace r = true ↔
    ((9 ≤ r ∧ r ≤ 13) ∨ r = 32 ∨ r = 0x85 ∨ r = 0xA0 ∨ r = 0x1680 ∨ (0x2000 ≤ r ∧ r ≤ 0x200A) ∨
      r = 0x2028 ∨ r = 0x2029 ∨ r = 0x202F ∨ r = 0x205F ∨ r = 0x3000) := by
  simp [isSpace, or_assoc]
theorem isDigit_iff (r : Nat) : isDigit r = true ↔ (48 ≤ r ∧ r ≤ 57) := by
  simp [isDigit]
theorem isSpace_lower (x : Nat) : isSpace (lower x) = isSpace x := by
  apply Bool.eq_iff_iff.mpr
  rw [isSpace_iff, isSpace_iff]
  unfold lower
  split
  · grind
  · split
    · grind
    · split
      · grind
      · rfl
theorem isDigit_lower (x : Nat) : isDigit (lower x) = isDigit x := by
  apply Bool.eq_iff_iff.mpr
  rw [isDigit_iff, isDigit_iff]
  unfold lower
  split
  · grind
  · split
    · grind
    · split
      · grind
      · rfl
theorem lower_digit {x : Nat} (h : isDigit x = true) : lower x = x := by
  rw [isDigit_iff] at h
  have h1 : ¬(65 ≤ x ∧ x ≤ 90) := by omega
  have h2 : ¬ x = 0x212A := by omega
  have h3 : ¬ x = 0x130 := by omega
  simp only [lower, h1, h2, h3, if_false]
theorem lower_space {x : Nat} (h : isSpace x = true) : lower x = x := by
  rw [isSpace_iff] at h
  have h1 : ¬(65 ≤ x ∧ x ≤ 90) := by omega
  have h2 : ¬ x = 0x212A := by omega
  have h3 : ¬ x = 0x130 := by omega
  simp only [lower, h1, h2, h3, if_false]
theorem digit_not_space {x : Nat} (h : isDigit x = true) : isSpace x = false := by
  rw [isDigit_iff] at h
  apply Bool.eq_false_iff.mpr
  rw [ne_eq, isSpace_iff]
  grind
theorem map_lower_digits {l : List Nat} (h : AllDigit l) : l.map lower = l := by
  induction l with
  | nil => rfl
  | cons a l ih =>
    simp only [List.map_cons]
    rw [lower_digit (h a (by simp)), ih (fun x hx => h x (by simp [hx]))]

theorem map_lower_spaces {l : List Nat} (h : AllSpace l) : l.map lower = l := by
  induction l with
  | nil => rfl
  | cons a l ih =>
    simp only [List.map_cons]
    rw [lower_space (h a (by simp)), ih (fun x hx => h x (by simp [hx]))]


/-! ### dropWhile / takeWhile / trim on concatenations -/

theorem dropWhile_all {p : Nat → Bool} {a : List Nat} (h : ∀ x ∈ a, p x = true) (b : List Nat) :
    (a ++ b).dropWhile p = b.dropWhile p := by
  induction a with
  | nil => rfl
  | cons x a ih =>
    simp only [List.cons_append, List.dropWhile_cons, h x (by simp), if_true]
    exact ih (fun y hy => h y (by simp [hy]))

theorem takeWhile_all {p : Nat → Bool} {a : List Nat} (h : ∀ x ∈ a, p x = true) (b : List Nat) :
    (a ++ b).takeWhile p = a ++ b.takeWhile p := by
  induction a with
  | nil => rfl
  | cons x a ih =>
    simp only [List.cons_append, List.takeWhile_cons, h x (by simp), if_true]
    rw [ih (fun y hy => h y (by simp [hy]))]

theorem dropWhile_head_false {p : Nat → Bool} {x : Nat} (l : List Nat) (h : p x = false) :
    (x :: l).dropWhile p = x :: l := by
  simp [h]

theorem takeWhile_head_false {p : Nat → Bool} {x : Nat} (l : List Nat) (h : p x = false) :
    (x :: l).takeWhile p = [] := by
  simp [h]

/-- a non-empty list none of whose elements satisfies p -/
theorem dropWhile_none {p : Nat → Bool} {l : List Nat} (h : ∀ x ∈ l, p x = false) :
    l.dropWhile p = l := by
  cases l with
  | nil => rfl
  | cons x l => exact dropWhile_head_false l (h x (by simp))

theorem trimLeft_pre {pre b : List Nat} (hp : AllSpace pre) : trimLeft (pre ++ b) = trimLeft b :=
  dropWhile_all hp b

theorem trimRight_post {a post : List Nat} (hp : AllSpace post) : trimRight (a ++ post) = trimRight a := by
  unfold trimRight
  rw [List.reverse_append, dropWhile_all (fun x hx => hp x (List.mem_reverse.mp hx))]

/-- `a ++ b` with `b` non-empty and free of spaces keeps everything on a right trim -/
theorem trimRight_keep (a : List Nat) {b : List Nat} (hb : NoSpace b) (hne : b ≠ []) :
    trimRight (a ++ b) = a ++ b := by
  unfold trimRight
  rw [List.reverse_append]
  have : b.reverse ≠ [] := by simpa using hne
  cases hr : b.reverse with
  | nil => exact absurd hr this
  | cons z w =>
    have hz : isSpace z = false := hb z (List.mem_reverse.mp (by rw [hr]; simp))
    rw [List.cons_append, dropWhile_head_false _ hz, ← List.cons_append, ← hr, ← List.reverse_append,
      List.reverse_reverse]

theorem trimLeft_keep {b : List Nat} (c : List Nat) (hb : NoSpace b) (hne : b ≠ []) :
    trimLeft (b ++ c) = b ++ c := by
  unfold trimLeft
  cases b with
  | nil => exact absurd rfl hne
  | cons z w => exact dropWhile_head_false _ (hb z (by simp))

theorem mem_takeWhile {p : Nat → Bool} {l : List Nat} {x : Nat} (h : x ∈ l.takeWhile p) : p x = true := by
  induction l with
  | nil => simp at h
  | cons a l ih =>
    rw [List.takeWhile_cons] at h
    split at h
    · rename_i ha
      rcases List.mem_cons.mp h with h1 | h1
      · subst h1; exact ha
      · exact ih h1
    · simp at h

/-- every list is spaces ++ its trim ++ spaces -/
theorem trim_decomp (l : List Nat) : ∃ a b, l = a ++ trim l ++ b ∧ AllSpace a ∧ AllSpace b := by
  refine ⟨l.takeWhile isSpace, ((l.dropWhile isSpace).reverse.takeWhile isSpace).reverse, ?_, ?_, ?_⟩
  · unfold trim trimRight trimLeft
    have h1 := List.takeWhile_append_dropWhile (p := isSpace) (l := l)
    have h2 := List.takeWhile_append_dropWhile (p := isSpace) (l := (l.dropWhile isSpace).reverse)
    have h3 : l.dropWhile isSpace =
        ((l.dropWhile isSpace).reverse.dropWhile isSpace).reverse ++
          ((l.dropWhile isSpace).reverse.takeWhile isSpace).reverse := by
      rw [← List.reverse_append, h2, List.reverse_reverse]
    rw [List.append_assoc, ← h3, h1]
  · intro x hx; exact mem_takeWhile hx
  · intro x hx; exact mem_takeWhile (List.mem_reverse.mp hx)

theorem trim_map_lower (l : List Nat) : trim (l.map lower) = (trim l).map lower := by
  have hc : (isSpace ∘ lower) = isSpace := by funext x; exact isSpace_lower x
  unfold trim trimRight trimLeft
  rw [List.dropWhile_map, hc, ← List.map_reverse, List.dropWhile_map, hc, List.map_reverse]


theorem takeWhile_none {p : Nat → Bool} {l : List Nat} (h : ∀ x ∈ l, p x = false) :
    l.takeWhile p = [] := by
  cases l with
  | nil => rfl
  | cons x l => exact takeWhile_head_false l (h x (by simp))

theorem space_not_digit {x : Nat} (h : isSpace x = true) : isDigit x = false := by
  cases hd : isDigit x with
  | false => rfl
  | true => rw [digit_not_space hd] at h; exact absurd h (by decide)

/-! ### the unit switch -/

theorem unitFactor_some {w : List Nat} {f : Nat} (h : unitFactor w = some f) :
    w ≠ [] ∧ NoSpace w ∧ NoDigit w ∧ (1 ≤ f) := by
  unfold unitFactor at h
  rw [Option.map_eq_some_iff] at h
  obtain ⟨p, hp, hf⟩ := h
  have hm := List.mem_of_find?_eq_some hp
  have hb := List.find?_some hp
  have hw : w = runesOf p.1 := (beq_iff_eq.mp hb).symm
  subst hw
  subst hf
  simp only [unitTable, List.mem_cons, List.not_mem_nil, or_false] at hm
  rcases hm with h | h | h | h | h | h | h | h | h | h | h | h | h | h <;> subst h <;>
    simp only [NoSpace, NoDigit] <;> decide

/-! ### ParseUint on the digits -/

theorem digitBytes_eq {ds : List Nat} (hd : AllDigit ds) :
    digitBytes ds = (ds.map (· - 48)).map digitByte := by
  unfold digitBytes
  rw [List.map_map]
  apply List.map_congr_left
  intro x hx
  have := (isDigit_iff x).mp (hd x hx)
  have e : 48 + (x - 48) = x := by omega
  simp only [Function.comp, digitByte, e]

theorem digit_vals_lt {ds : List Nat} (hd : AllDigit ds) : ∀ d ∈ ds.map (· - 48), d < 10 := by
  intro d hdm
  obtain ⟨x, hx, rfl⟩ := List.mem_map.mp hdm
  have := (isDigit_iff x).mp (hd x hx)
  omega

theorem parse_digits {ds : List Nat} (hd : AllDigit ds) (hne : ds ≠ []) :
    parseUintE (digitBytes ds) =
      if digitsVal ds ≤ U64Max then (digitsVal ds, .none) else (U64Max, .range) := by
  rw [digitBytes_eq hd]
  have hne' : (ds.map (· - 48)).map digitByte ≠ [] := by simpa using hne
  unfold parseUintE
  rw [if_neg hne']
  split
  · rename_i h
    exact parseGo_digits _ 0 (digit_vals_lt hd) h
  · rename_i h
    exact parseGo_overflow _ 0 (digit_vals_lt hd) (Nat.zero_le _) (Nat.lt_of_not_le h)

/-! ### StringToBps without the intermediate lower-casing -/

/-- the same function with `lower` pushed to where it matters (the unit) -/
def stringToBpsWith' (k : Nat → Nat → BpsRes) (r : List Nat) : BpsRes :=
  if (trim r).takeWhile isDigit = [] ∨ (trim r).dropWhile isDigit = [] then .errFormat
  else
    match parseUintE (digitBytes ((trim r).takeWhile isDigit)) with
    | (v, .none) =>
      match unitFactor ((trim ((trim r).dropWhile isDigit)).map lower) with
      | some f => k v f
      | none => .errUnit
    | _ => .errRange

theorem stringToBpsWith_eq (k : Nat → Nat → BpsRes) (r : List Nat) :
    stringToBpsWith k r = stringToBpsWith' k r := by
  have hc : (isDigit ∘ lower) = isDigit := by funext x; exact isDigit_lower x
  have h1 : ((trim r).map lower).takeWhile isDigit = (trim r).takeWhile isDigit := by
    rw [List.takeWhile_map, hc]
    exact map_lower_digits (fun x hx => mem_takeWhile hx)
  have h2 : ((trim r).map lower).dropWhile isDigit = ((trim r).dropWhile isDigit).map lower := by
    rw [List.dropWhile_map, hc]
  unfold stringToBpsWith stringToBpsWith'
  simp only [h1, h2, List.map_eq_nil_iff, trim_map_lower]
  rfl

/-! ### the grammar: spaces* digits+ spaces* unit spaces* -/

theorem stringToBpsWith_grammar (k : Nat → Nat → BpsRes) {pre ds mid u post : List Nat} {f : Nat}
    (hpre : AllSpace pre) (hmid : AllSpace mid) (hpost : AllSpace post)
    (hds : AllDigit ds) (hne : ds ≠ []) (hu : unitFactor (u.map lower) = some f) :
    stringToBpsWith k (pre ++ ds ++ mid ++ u ++ post) =
      if digitsVal ds ≤ U64Max then k (digitsVal ds) f else .errRange := by
  obtain ⟨hune, huns, hund, _⟩ := unitFactor_some hu
  have hu_ne : u ≠ [] := by intro h; subst h; exact hune rfl
  have hu_ns : NoSpace u := fun x hx => by
    have := huns (lower x) (List.mem_map.mpr ⟨x, hx, rfl⟩)
    rwa [isSpace_lower] at this
  have hu_nd : NoDigit u := fun x hx => by
    have := hund (lower x) (List.mem_map.mpr ⟨x, hx, rfl⟩)
    rwa [isDigit_lower] at this
  have hds_ns : NoSpace ds := fun x hx => digit_not_space (hds x hx)
  have ht : trim (pre ++ ds ++ mid ++ u ++ post) = ds ++ (mid ++ u) := by
    have e : pre ++ ds ++ mid ++ u ++ post = pre ++ (ds ++ ((mid ++ u) ++ post)) := by
      simp only [List.append_assoc]
    have e2 : ds ++ ((mid ++ u) ++ post) = ((ds ++ mid) ++ u) ++ post := by
      simp only [List.append_assoc]
    unfold trim
    rw [e, trimLeft_pre hpre, trimLeft_keep _ hds_ns hne, e2, trimRight_post hpost,
      trimRight_keep _ hu_ns hu_ne]
    simp only [List.append_assoc]
  have hnd : ∀ x ∈ mid ++ u, isDigit x = false := by
    intro x hx
    rcases List.mem_append.mp hx with h | h
    · exact space_not_digit (hmid x h)
    · exact hu_nd x h
  have htw : (ds ++ (mid ++ u)).takeWhile isDigit = ds := by
    rw [takeWhile_all hds, takeWhile_none hnd, List.append_nil]
  have hdw : (ds ++ (mid ++ u)).dropWhile isDigit = mid ++ u := by
    rw [dropWhile_all hds, dropWhile_none hnd]
  have htu : trim (mid ++ u) = u := by
    unfold trim
    rw [trimLeft_pre hmid]
    have h1 : trimLeft u = u := dropWhile_none hu_ns
    have h2 : trimRight u = u := by simpa using trimRight_keep [] hu_ns hu_ne
    rw [h1, h2]
  have hmu : mid ++ u ≠ [] := by
    intro h; exact hu_ne (List.append_eq_nil_iff.mp h).2
  rw [stringToBpsWith_eq]
  unfold stringToBpsWith'
  rw [ht, htw, hdw, htu, hu, parse_digits hds hne]
  rw [if_neg (by intro h; rcases h with h | h; exact hne h; exact hmu h)]
  by_cases hv : digitsVal ds ≤ U64Max
  · rw [if_pos hv, if_pos hv]
  · rw [if_neg hv, if_neg hv]

theorem stringToBpsWith_ok (k : Nat → Nat → BpsRes) {r : List Nat} {n : Nat}
    (h : stringToBpsWith k r = .ok n) :
    ∃ pre ds mid u post f, r = pre ++ ds ++ mid ++ u ++ post ∧
      AllSpace pre ∧ AllSpace mid ∧ AllSpace post ∧ AllDigit ds ∧ ds ≠ [] ∧
      unitFactor (u.map lower) = some f ∧ digitsVal ds ≤ U64Max ∧ k (digitsVal ds) f = .ok n := by
  rw [stringToBpsWith_eq] at h
  unfold stringToBpsWith' at h
  obtain ⟨a, b, hr, ha, hb⟩ := trim_decomp r
  obtain ⟨m, p2, ht2, hm, hp2⟩ := trim_decomp ((trim r).dropWhile isDigit)
  have hds : AllDigit ((trim r).takeWhile isDigit) := fun x hx => mem_takeWhile hx
  split at h
  · cases h
  · rename_i hc
    have hne : (trim r).takeWhile isDigit ≠ [] := fun e => hc (Or.inl e)
    rw [parse_digits hds hne] at h
    by_cases hv : digitsVal ((trim r).takeWhile isDigit) ≤ U64Max
    · rw [if_pos hv] at h
      simp only at h
      cases hf : unitFactor ((trim ((trim r).dropWhile isDigit)).map lower) with
      | none => rw [hf] at h; cases h
      | some f =>
        rw [hf] at h
        refine ⟨a, (trim r).takeWhile isDigit, m, trim ((trim r).dropWhile isDigit), p2 ++ b, f,
          ?_, ha, hm, ?_, hds, hne, hf, hv, h⟩
        · have hsplit := List.takeWhile_append_dropWhile (p := isDigit) (l := trim r)
          calc r = a ++ trim r ++ b := hr
            _ = a ++ ((trim r).takeWhile isDigit ++ (trim r).dropWhile isDigit) ++ b := by rw [hsplit]
            _ = a ++ ((trim r).takeWhile isDigit ++ (m ++ trim ((trim r).dropWhile isDigit) ++ p2)) ++ b := by
                rw [← ht2]
            _ = _ := by simp only [List.append_assoc]
        · intro x hx
          rcases List.mem_append.mp hx with h1 | h1
          · exact hp2 x h1
          · exact hb x h1
    · rw [if_neg hv] at h
      cases h

/-- an accepted value always fits uint64 -/
theorem stringToBpsR_ok_le {r : List Nat} {n : Nat} (h : stringToBpsR r = .ok n) : n ≤ U64Max := by
  obtain ⟨_, ds, _, _, _, f, _, _, _, _, _, _, _, _, hk⟩ := stringToBpsWith_ok _ h
  cases hk
  have h1 := Nat.mod_lt (digitsVal ds * f) (show 0 < 18446744073709551616 by decide)
  have h2 := Nat.div_le_self (digitsVal ds * f % 18446744073709551616) 8
  simp only [U64Max]
  omega

/-! ### decoding ASCII -/

theorem decodeFuel_ascii (bs : List Nat) (h : ∀ b ∈ bs, b < 128) :
    ∀ fuel, bs.length ≤ fuel → decodeFuel fuel bs = bs := by
  induction bs with
  | nil => intro fuel _; cases fuel <;> rfl
  | cons b bs ih =>
    intro fuel hf
    cases fuel with
    | zero => simp at hf
    | succ fuel =>
      have hb : b < 128 := h b (by simp)
      simp only [decodeFuel, decode1, hb, if_true, List.drop_one, List.tail_cons]
      rw [ih (fun x hx => h x (by simp [hx])) fuel (by simpa using hf)]

theorem decode_ascii (s : Bytes) (h : ∀ b ∈ s, b.val < 128) : decode s = s.map (·.val) := by
  unfold decode
  apply decodeFuel_ascii
  · intro b hb
    obtain ⟨x, hx, rfl⟩ := List.mem_map.mp hb
    exact h x hx
  · exact Nat.le_refl _

end Hy.RateCfg
