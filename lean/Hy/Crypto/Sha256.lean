/-
  SHA-256 (FIPS 180-4), executable, core Lean only (linked into `hydrv`).

  Words are `Nat` kept below 2^32 by explicit `% 2^32` (DESIGN §3: div/mod instead of
  fixed-width types).  `Nat` arithmetic and bit operations are evaluated natively by
  the Lean kernel, so the FIPS test vectors at the end of this file are checked by
  kernel evaluation (`decide +kernel`: plain definitional unfolding, no extra axiom —
  `#print axioms` on them shows none beyond the standard three).

  The punch-packet codec (Hy.Model.Punch) uses this as an INDEPENDENT implementation
  of the hash: the Go side uses crypto/sha256, and the differential compares wire bytes.
  The only fact the proofs need about it is `hash_length` (a digest has 32 bytes).
-/
import Hy.Base.Bytes
namespace Hy.Sha256
open Hy

def two32 : Nat := 4294967296

def K : List Nat := [
  0x428a2f98, 0x71374491, 0xb5c0fbcf, 0xe9b5dba5, 0x3956c25b, 0x59f111f1, 0x923f82a4, 0xab1c5ed5,
  0xd807aa98, 0x12835b01, 0x243185be, 0x550c7dc3, 0x72be5d74, 0x80deb1fe, 0x9bdc06a7, 0xc19bf174,
  0xe49b69c1, 0xefbe4786, 0x0fc19dc6, 0x240ca1cc, 0x2de92c6f, 0x4a7484aa, 0x5cb0a9dc, 0x76f988da,
  0x983e5152, 0xa831c66d, 0xb00327c8, 0xbf597fc7, 0xc6e00bf3, 0xd5a79147, 0x06ca6351, 0x14292967,
  0x27b70a85, 0x2e1b2138, 0x4d2c6dfc, 0x53380d13, 0x650a7354, 0x766a0abb, 0x81c2c92e, 0x92722c85,
  0xa2bfe8a1, 0xa81a664b, 0xc24b8b70, 0xc76c51a3, 0xd192e819, 0xd6990624, 0xf40e3585, 0x106aa070,
  0x19a4c116, 0x1e376c08, 0x2748774c, 0x34b0bcb5, 0x391c0cb3, 0x4ed8aa4a, 0x5b9cca4f, 0x682e6ff3,
  0x748f82ee, 0x78a5636f, 0x84c87814, 0x8cc70208, 0x90befffa, 0xa4506ceb, 0xbef9a3f7, 0xc67178f2]

/-- rotate right within 32 bits (`x < 2^32`, `0 < n < 32`) -/
def rotr (x n : Nat) : Nat := (x >>> n) ||| ((x <<< (32 - n)) % two32)
def add32 (a b : Nat) : Nat := (a + b) % two32
def ch (x y z : Nat) : Nat := (x &&& y) ^^^ ((x ^^^ 0xffffffff) &&& z)
def maj (x y z : Nat) : Nat := (x &&& y) ^^^ (x &&& z) ^^^ (y &&& z)
def bsig0 (x : Nat) : Nat := rotr x 2 ^^^ rotr x 13 ^^^ rotr x 22
def bsig1 (x : Nat) : Nat := rotr x 6 ^^^ rotr x 11 ^^^ rotr x 25
def ssig0 (x : Nat) : Nat := rotr x 7 ^^^ rotr x 18 ^^^ (x >>> 3)
def ssig1 (x : Nat) : Nat := rotr x 17 ^^^ rotr x 19 ^^^ (x >>> 10)

structure State where
  a : Nat
  b : Nat
  c : Nat
  d : Nat
  e : Nat
  f : Nat
  g : Nat
  h : Nat

def init : State :=
  ⟨0x6a09e667, 0xbb67ae85, 0x3c6ef372, 0xa54ff53a, 0x510e527f, 0x9b05688c, 0x1f83d9ab, 0x5be0cd19⟩

/-- message schedule: `w` holds W[0..t-1]; append W[t] -/
def schedStep (w : List Nat) : List Nat :=
  let t := w.length
  w ++ [add32 (add32 (ssig1 (w.getD (t - 2) 0)) (w.getD (t - 7) 0))
              (add32 (ssig0 (w.getD (t - 15) 0)) (w.getD (t - 16) 0))]

def iter {α} (f : α → α) : Nat → α → α
  | 0, a => a
  | n + 1, a => iter f n (f a)

def schedule (w16 : List Nat) : List Nat := iter schedStep 48 w16

def round (s : State) (kw : Nat × Nat) : State :=
  let t1 := add32 (add32 (add32 s.h (bsig1 s.e)) (add32 (ch s.e s.f s.g) kw.1)) kw.2
  let t2 := add32 (bsig0 s.a) (maj s.a s.b s.c)
  ⟨add32 t1 t2, s.a, s.b, s.c, add32 s.d t1, s.e, s.f, s.g⟩

/-- big-endian 32-bit words of a 64-byte block (given as byte values) -/
def wordsOf : List Nat → List Nat
  | a :: b :: c :: d :: rest => (a * 16777216 + b * 65536 + c * 256 + d) :: wordsOf rest
  | _ => []

def compress (s : State) (block : List Nat) : State :=
  let w := schedule (wordsOf block)
  let r := (K.zip w).foldl round s
  ⟨add32 s.a r.a, add32 s.b r.b, add32 s.c r.c, add32 s.d r.d,
   add32 s.e r.e, add32 s.f r.f, add32 s.g r.g, add32 s.h r.h⟩

/-- FIPS 180-4 §5.1.1 padding: 0x80, k zero bytes, 64-bit big-endian bit length -/
def pad (msg : List Nat) : List Nat :=
  let n := msg.length
  let k := (119 - n % 64) % 64
  let bits := n * 8
  msg ++ [128] ++ List.replicate k 0 ++
    [bits / 72057594037927936 % 256, bits / 281474976710656 % 256, bits / 1099511627776 % 256,
     bits / 4294967296 % 256, bits / 16777216 % 256, bits / 65536 % 256, bits / 256 % 256, bits % 256]

def blocks (p : List Nat) : List (List Nat) :=
  (List.range (p.length / 64)).map (fun i => (p.drop (64 * i)).take 64)

def word4 (x : Nat) : Bytes := [byte (x / 16777216), byte (x / 65536), byte (x / 256), byte x]

def digest (s : State) : Bytes :=
  word4 s.a ++ word4 s.b ++ word4 s.c ++ word4 s.d ++ word4 s.e ++ word4 s.f ++ word4 s.g ++ word4 s.h

def hashNat (msg : List Nat) : State := (blocks (pad msg)).foldl compress init

def hash (msg : Bytes) : Bytes := digest (hashNat (msg.map Fin.val))

theorem hash_length (msg : Bytes) : (hash msg).length = 32 := by
  simp [hash, digest, word4]

/-! ### FIPS 180-4 / NIST CAVP example vectors, checked by the kernel at build -/

def vals (b : Bytes) : List Nat := b.map Fin.val

/-- SHA-256("abc") -/
theorem vector_abc : vals (hash [97, 98, 99]) =
    [0xba, 0x78, 0x16, 0xbf, 0x8f, 0x01, 0xcf, 0xea, 0x41, 0x41, 0x40, 0xde, 0x5d, 0xae, 0x22, 0x23,
     0xb0, 0x03, 0x61, 0xa3, 0x96, 0x17, 0x7a, 0x9c, 0xb4, 0x10, 0xff, 0x61, 0xf2, 0x00, 0x15, 0xad] := by
  decide +kernel

/-- SHA-256("") -/
theorem vector_empty : vals (hash []) =
    [0xe3, 0xb0, 0xc4, 0x42, 0x98, 0xfc, 0x1c, 0x14, 0x9a, 0xfb, 0xf4, 0xc8, 0x99, 0x6f, 0xb9, 0x24,
     0x27, 0xae, 0x41, 0xe4, 0x64, 0x9b, 0x93, 0x4c, 0xa4, 0x95, 0x99, 0x1b, 0x78, 0x52, 0xb8, 0x55] := by
  decide +kernel

/-- the 448-bit two-block message "abcdbcdecdefdefgefghfghighijhijkijkljklmklmnlmnomnopnopq" -/
def msg448 : Bytes :=
  [97,98,99,100, 98,99,100,101, 99,100,101,102, 100,101,102,103, 101,102,103,104, 102,103,104,105,
   103,104,105,106, 104,105,106,107, 105,106,107,108, 106,107,108,109, 107,108,109,110,
   108,109,110,111, 109,110,111,112, 110,111,112,113]

theorem vector_448 : vals (hash msg448) =
    [0x24, 0x8d, 0x6a, 0x61, 0xd2, 0x06, 0x38, 0xb8, 0xe5, 0xc0, 0x26, 0x93, 0x0c, 0x3e, 0x60, 0x39,
     0xa3, 0x3c, 0xe4, 0x59, 0x64, 0xff, 0x21, 0x67, 0xf6, 0xec, 0xed, 0xd4, 0x19, 0xdb, 0x06, 0xc1] := by
  decide +kernel

end Hy.Sha256
