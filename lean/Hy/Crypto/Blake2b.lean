/-
  BLAKE2b (RFC 7693), unkeyed, digest length `nn` ≤ 64 — an implementation written from
  the RFC, independent of golang.org/x/crypto/blake2b, so that the Salamander wire format
  can be recomputed by something that is not the code under test (DESIGN §3, C13).

  Core Lean only (linked into `hydrv`).  Everything is structural recursion / folds over
  literal index lists, 64-bit words are `UInt64`.

  Checked at build time (bottom of the file) with `#guard` against
    * RFC 7693 Appendix A: BLAKE2b-512("abc"),
    * `hashlib.blake2b(·, digest_size=32)` on "", "abc", 128, 129 and 300 bytes
      (one block exactly, one block + 1, three blocks),
  and on every run differentially against x/crypto (driver op `hash`) and against Python's
  hashlib (tools/hv/props/C13.py).  `#guard` evaluates with the Lean interpreter, it adds
  no axiom and no theorem depends on it; the theorems of C13 that mention this function
  use only `blake2b256_length`.
-/
import Hy.Base.Bytes
namespace Hy.Blake2b

def iv : Array UInt64 := #[
  0x6a09e667f3bcc908, 0xbb67ae8584caa73b, 0x3c6ef372fe94f82b, 0xa54ff53a5f1d36f1,
  0x510e527fade682d1, 0x9b05688c2b3e6c1f, 0x1f83d9abfb41bd6b, 0x5be0cd19137e2179]

/-- message schedule, RFC 7693 §2.7 (rounds 10 and 11 repeat rows 0 and 1) -/
def sigma : List (Array Nat) := [
  #[0,1,2,3,4,5,6,7,8,9,10,11,12,13,14,15],
  #[14,10,4,8,9,15,13,6,1,12,0,2,11,7,5,3],
  #[11,8,12,0,5,2,15,13,10,14,3,6,7,1,9,4],
  #[7,9,3,1,13,12,11,14,2,6,5,10,4,0,15,8],
  #[9,0,5,7,2,4,10,15,14,1,11,12,6,8,3,13],
  #[2,12,6,10,0,11,8,3,4,13,7,5,15,14,1,9],
  #[12,5,1,15,14,13,4,10,0,7,6,3,9,2,8,11],
  #[13,11,7,14,12,1,3,9,5,0,15,4,8,6,2,10],
  #[6,15,14,9,11,3,0,8,12,2,13,7,1,4,10,5],
  #[10,2,8,4,7,6,1,5,15,11,9,14,3,12,13,0],
  #[0,1,2,3,4,5,6,7,8,9,10,11,12,13,14,15],
  #[14,10,4,8,9,15,13,6,1,12,0,2,11,7,5,3]]

@[inline] def rotr (x : UInt64) (n : UInt64) : UInt64 := (x >>> n) ||| (x <<< (64 - n))

/-- mixing function G, RFC 7693 §3.1 (rotations 32, 24, 16, 63) -/
def g (v : Array UInt64) (a b c d : Nat) (x y : UInt64) : Array UInt64 :=
  let va := v[a]! + v[b]! + x
  let vd := rotr (v[d]! ^^^ va) 32
  let vc := v[c]! + vd
  let vb := rotr (v[b]! ^^^ vc) 24
  let va := va + vb + y
  let vd := rotr (vd ^^^ va) 16
  let vc := vc + vd
  let vb := rotr (vb ^^^ vc) 63
  (((v.set! a va).set! b vb).set! c vc).set! d vd

def round (m : Array UInt64) (v : Array UInt64) (s : Array Nat) : Array UInt64 :=
  let v := g v 0 4 8 12 m[s[0]!]! m[s[1]!]!
  let v := g v 1 5 9 13 m[s[2]!]! m[s[3]!]!
  let v := g v 2 6 10 14 m[s[4]!]! m[s[5]!]!
  let v := g v 3 7 11 15 m[s[6]!]! m[s[7]!]!
  let v := g v 0 5 10 15 m[s[8]!]! m[s[9]!]!
  let v := g v 1 6 11 12 m[s[10]!]! m[s[11]!]!
  let v := g v 2 7 8 13 m[s[12]!]! m[s[13]!]!
  g v 3 4 9 14 m[s[14]!]! m[s[15]!]!

/-- compression function F, RFC 7693 §3.2; `t` is the byte counter (< 2^64 here) -/
def compress (h : Array UInt64) (m : Array UInt64) (t : UInt64) (last : Bool) : Array UInt64 :=
  let v : Array UInt64 := h ++ iv
  let v := v.set! 12 (v[12]! ^^^ t)
  let v := if last then v.set! 14 (v[14]! ^^^ 0xffffffffffffffff) else v
  let v := sigma.foldl (round m) v
  (List.range 8).foldl (fun h' i => h'.set! i (h[i]! ^^^ v[i]! ^^^ v[i+8]!)) h

/-- little-endian 64-bit word `i` of a 128-byte block (missing bytes are zero padding) -/
def word (block : Array UInt8) (i : Nat) : UInt64 :=
  (List.range 8).foldl (fun w j => w ||| ((block.getD (i*8+j) 0).toUInt64 <<< (8 * j).toUInt64)) 0

def wordsOf (block : Array UInt8) : Array UInt64 :=
  ((List.range 16).map (word block)).toArray

/-- the chaining value after all blocks; `nn` = digest length in bytes, no key -/
def chain (nn : Nat) (data : Array UInt8) : Array UInt64 :=
  let h0 := iv.set! 0 (iv[0]! ^^^ 0x01010000 ^^^ UInt64.ofNat nn)
  let n := data.size
  let nblocks := if n == 0 then 1 else (n + 127) / 128
  (List.range nblocks).foldl (fun h bi =>
    let start := bi * 128
    let stop := min n (start + 128)
    compress h (wordsOf (data.extract start stop)) (UInt64.ofNat stop) (bi + 1 == nblocks)) h0

/-- byte `i` of the little-endian serialisation of the chaining value -/
def outByte (h : Array UInt64) (i : Nat) : Byte :=
  byte ((h[i / 8]! >>> (8 * (i % 8)).toUInt64).toUInt8.toNat)

def hash (nn : Nat) (data : Bytes) : Bytes :=
  let h := chain nn ((data.map (fun b => UInt8.ofNat b.val)).toArray)
  (List.range nn).map (outByte h)

theorem hash_length (nn : Nat) (data : Bytes) : (hash nn data).length = nn := by
  simp [hash]

end Hy.Blake2b

namespace Hy

/-- BLAKE2b-256 of a byte string (what `blake2b.Sum256` computes) -/
def blake2b256 (data : Bytes) : Bytes := Blake2b.hash 32 data

theorem blake2b256_length (data : Bytes) : (blake2b256 data).length = 32 :=
  Blake2b.hash_length 32 data

/-! ### build-time known-answer checks (interpreter, no axioms) -/
section KAT
private def pat (n m : Nat) : Bytes := (List.range n).map (fun i => byte (i % m))

-- RFC 7693 Appendix A
#guard toHex (Blake2b.hash 64 (bytesOfString "abc")) =
  "ba80a53f981c4d0d6a2797b69f12f6e94c212f14685ac4b74b12bb6fdbffa2d17d87c5392aab792dc252d5de4533cc9518d38aa8dbf1925ab92386edd4009923"
-- hashlib.blake2b(x, digest_size=32).hexdigest()
#guard toHex (blake2b256 []) = "0e5751c026e543b2e8ab2eb06099daa1d1e5df47778f7787faab45cdf12fe3a8"
#guard toHex (blake2b256 (bytesOfString "abc")) = "bddd813c634239723171ef3fee98579b94964e3bb1cb3e427262c8c068d52319"
#guard toHex (blake2b256 (pat 128 256)) = "c3582f71ebb2be66fa5dd750f80baae97554f3b015663c8be377cfcb2488c1d1"
#guard toHex (blake2b256 (pat 129 256)) = "f7f3c46ba2564ff4c4c162da1f5b605f9f1c4aa6a20652a9f9a337c1a2f5b9c9"
#guard toHex (blake2b256 (pat 300 251)) = "940563f11807c8ba3192299e05cf544b82463742c8a5e80c2a5d81751cd8b0ca"
end KAT

end Hy
