-- Root of the `Hy` library: models, proofs, property theorems.
import Hy.Base.Bytes
import Hy.Base.Res
import Hy.Base.Varint
