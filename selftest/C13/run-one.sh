#!/bin/bash
# usage: c13-selftest.sh <name> [tier]
set -u
name=$1; tier=${2:-quick}
S=/tmp/hyscratch/c13-mut
cd $S && git checkout -q -- . && git apply /tmp/vw/c13/selftest/C13/$name.diff || { echo "apply failed"; exit 2; }
unset GOTOOLCHAIN GOSUMDB
( cd $S/extras && GOPROXY=off GOWORK=$S/go.work go build ./... && GOPROXY=off GOWORK=$S/go.work go vet ./obfs/ ) > /tmp/hyscratch/c13-mut-$name.build 2>&1; echo "build+vet rc=$?"
cd /tmp/vw/c13 && VERIF_REPO=$S python3 tools/run.py C13 --tier $tier > /tmp/hyscratch/c13-mut-$name.log 2>&1; echo "check rc=$?"
tail -3 /tmp/hyscratch/c13-mut-$name.log
cd $S && git checkout -q -- .
