package sem

const (
	k1 = 7
	k2 = k1*3 + 1<<4
	kT int32 = -5
)

type Small uint8

type S struct {
	a, b int32
	u    uint16
	f    func() int64
	name string
}

func divmod(x, y int64) int64 {
	q := x / y
	r := x % y
	return q*1000 + r
}

func shifts(x int32, u uint8) int64 {
	a := x >> 3
	b := x << 29
	c := u << 3
	d := u >> 1
	return int64(a) + int64(b)*3 + int64(c)*5 + int64(d)*7
}

func convs(x int64) int64 {
	a := uint16(x)
	b := int8(x)
	c := uint32(int16(x))
	d := Small(x) + 250
	return int64(a) + int64(b)*65536 + int64(c) + int64(d)
}

func branches(x, y int32) int32 {
	z := x
	if x > y {
		z += k2
	} else if x == y {
		z -= kT
		if z > 100 {
			return -1
		}
	} else {
		z *= 3
	}
	z++
	if z%2 == 0 && y != 0 || x < -1000 {
		z = -z
	}
	return min(z, max(x, y, k1))
}

func (s *S) meth(t int32) int32 {
	s.a = s.a*t + s.b
	if s.a < 0 {
		s.b--
		return int32(s.u) + int32(len(s.name))
	}
	s.u += uint16(t)
	return s.helper(t) + int32(s.f())
}

func (s *S) helper(t int32) int32 {
	return s.a + t/k1
}

func bits(x uint32, y uint32) uint32 {
	return (x&0xff00 | y) ^ (x >> 4)
}

func store(b []byte, v uint32, off int) int {
	b[off] = byte(v >> 24)
	b[off+1] = byte(v >> 16)
	if v > 1000 {
		b[0] = 1
	}
	return off + 2
}

func neg(x int8) int8 {
	return -x / 1
}
