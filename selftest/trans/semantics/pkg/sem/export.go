package sem

import "fmt"

func rec(f func()) (p bool) {
	defer func() {
		if recover() != nil {
			p = true
		}
	}()
	f()
	return false
}

var I64 = []int64{0, 1, -1, 7, -7, 255, 256, -129, 32767, 32768, 65535, 65536, 1 << 31, -(1 << 31), 1<<63 - 1, -(1 << 63), 123456789012, -98765432101}
var I32 = []int32{0, 1, -1, 7, -7, 100, 37, -1001, 1 << 30, -(1 << 31), 1<<31 - 1, 12345}

func Run() {
	for _, x := range I64 {
		for _, y := range I64 {
			var r int64
			if rec(func() { r = divmod(x, y) }) {
				fmt.Printf("divmod %d %d panic\n", x, y)
			} else {
				fmt.Printf("divmod %d %d %d\n", x, y, r)
			}
		}
		fmt.Printf("convs %d %d\n", x, convs(x))
		fmt.Printf("neg %d %d\n", int8(x), neg(int8(x)))
	}
	for _, x := range I32 {
		for _, y := range I32 {
			fmt.Printf("branches %d %d %d\n", x, y, branches(x, y))
			fmt.Printf("shifts %d %d %d\n", x, uint8(y), shifts(x, uint8(y)))
			fmt.Printf("bits %d %d %d\n", uint32(x), uint32(y), bits(uint32(x), uint32(y)))
			s := &S{a: x, b: y, u: uint16(x), f: func() int64 { return int64(y) * 3 }, name: "abc"}
			r := s.meth(y/3 + 1)
			fmt.Printf("meth %d %d %d | %d %d %d %d\n", x, y, y/3+1, s.a, s.b, s.u, r)
		}
	}
	for _, bl := range []int{0, 1, 2, 3, 5} {
		for _, off := range []int{-1, 0, 1, 2, 3} {
			for _, v := range []uint32{0, 1000, 1001, 0xdeadbeef} {
				b := make([]byte, bl)
				var r int
				if rec(func() { r = store(b, v, off) }) {
					fmt.Printf("store %d %d %d panic\n", bl, v, off)
				} else {
					fmt.Printf("store %d %d %d %d\n", bl, v, off, r)
				}
			}
		}
	}
}
