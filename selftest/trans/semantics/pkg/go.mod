module semtest

go 1.21
