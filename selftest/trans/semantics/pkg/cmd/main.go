package main

import "semtest/sem"

func main() { sem.Run() }
