#!/usr/bin/env python3
"""Semantics self-test of the translator (harness/gen/translate.go): the synthetic package pkg/sem
(signed/unsigned division, shifts, narrowing conversions, named types, else-if chains with early
returns, &&/||, min/max, compound assignment, receiver field writes, helper-method calls, a func-typed
field, len of a string field, bit operations, slice stores with variable index, panics) is run in Go
and — translated — evaluated by Lean on the same 1036 inputs; the outputs must be identical.
Usage: python3 selftest/trans/semantics/run.py   (from the framework root; writes only under .build/
and a temporary lean/Hy/Gen/TransSem.lean, which it removes)."""
import os, subprocess, sys
HERE = os.path.dirname(os.path.abspath(__file__))
ROOT = os.path.dirname(os.path.dirname(os.path.dirname(HERE)))
sys.path.insert(0, os.path.join(ROOT, "tools"))
from hv import common as C  # noqa: E402

FUNCS = ["divmod", "shifts", "convs", "branches", "S.meth", "bits", "store", "neg"]


def main():
    vg = C.build_verifgen()
    env = dict(os.environ); env.pop("GOFLAGS", None)
    env.update({"GOWORK": "off", "GOPROXY": "off", "GOTOOLCHAIN": "local"})
    go = subprocess.run(["go", "run", "./cmd"], cwd=os.path.join(HERE, "pkg"), env=env, stdout=subprocess.PIPE, text=True, check=True).stdout
    tr = subprocess.run([vg, "translate", os.path.join(HERE, "pkg"), "-name", "Sem"] + ["sem/sem.go:" + f for f in FUNCS],
                        stdout=subprocess.PIPE, text=True, check=True).stdout
    items = []
    lit = lambda x: "(%s)" % x
    for ln in go.splitlines():
        f = ln.split(); k = f[0]
        if k == "divmod": items.append('s!"divmod %s %s {showR (divmod %s %s)}"' % (f[1], f[2], lit(f[1]), lit(f[2])))
        elif k in ("convs", "neg"): items.append('s!"%s %s {%s %s}"' % (k, f[1], k, lit(f[1])))
        elif k in ("branches", "shifts", "bits"): items.append('s!"%s %s %s {%s %s %s}"' % (k, f[1], f[2], k, lit(f[1]), lit(f[2])))
        elif k == "meth":
            x, y, t = int(f[1]), int(f[2]), int(f[3])
            items.append('(let r := S_meth %s %s %s 3 %s %s; s!"meth %s %s %s | {r.1} {r.2.1} {r.2.2.1} {r.2.2.2}")'
                         % (lit(x), lit(y), lit(y * 3), lit(x % 65536), lit(t), f[1], f[2], f[3]))
        elif k == "store": items.append('s!"store %s %s %s {showS (store %s %s %s)}"' % (f[1], f[2], f[3], lit(f[1]), lit(f[2]), lit(f[3])))
    out = ["import Hy.Gen.TransSem", "open Hy Hy.Gen.TransSem",
           'def showR (r : Res Int) : String := match r with | .ok v => toString v | _ => "panic"',
           'def showS (r : Res (List (Int × Int) × Int)) : String := match r with | .ok v => toString v.2 | _ => "panic"']
    n = 0
    for i in range(0, len(items), 40):
        out.append("def lines%d : List String := [\n%s\n]" % (n, ",\n".join(items[i:i + 40]))); n += 1
    out.append("def main : IO Unit := do")
    out += ["  for l in lines%d do IO.println l" % k for k in range(n)]
    os.makedirs(os.path.join(C.BUILD, "transsem"), exist_ok=True)
    ev = os.path.join(C.BUILD, "transsem", "Eval.lean")
    open(ev, "w").write("\n".join(out) + "\n")
    gen = os.path.join(C.LEAN, "Hy", "Gen", "TransSem.lean")
    with C.Lock("lean"):
        open(gen, "w").write(tr)
        try:
            ok, o = C.lake_build(["Hy.Gen.TransSem"])
            if not ok:
                print(o[-3000:]); return 1
            lean = subprocess.run(["lake", "env", "lean", "--run", ev], cwd=C.LEAN, stdout=subprocess.PIPE, stderr=subprocess.STDOUT, text=True).stdout
        finally:
            os.unlink(gen)
    if lean != go:
        g, l = go.splitlines(), lean.splitlines()
        bad = [(a, b) for a, b in zip(g, l) if a != b][:10]
        print("MISMATCH (%d Go lines, %d Lean lines):" % (len(g), len(l))); [print("  go:  ", a, "\n  lean:", b) for a, b in bad]
        return 1
    print("translator semantics self-test: %d cases, Go and translated Lean agree" % len(go.splitlines()))
    return 0


sys.exit(main())
