//go:build verif

package socks5

import "net"

// VerifDispatch runs the unexported per-connection handler synchronously (C18 harness).
func VerifDispatch(s *Server, conn net.Conn) { s.dispatch(conn) }
