//go:build verif

package proxymux

import "net"

// VerifConnWithOneByte builds the unexported wrapper exactly as dispatch does (mux.go:139).
func VerifConnWithOneByte(conn net.Conn, b byte) net.Conn {
	return &connWithOneByte{Conn: conn, b: b}
}

// verifListenFake, when set by a test, replaces the creation of base listeners.
var verifListenFake func(network, address string) (net.Listener, error)

// verifListen is what the instrumented copy of manager.go (tools/hv/props/C18.py) calls
// instead of correctnet.Listen: the real function unless a fake is installed.
func verifListen(real func(network, address string) (net.Listener, error), network, address string) (net.Listener, error) {
	if verifListenFake != nil {
		return verifListenFake(network, address)
	}
	return real(network, address)
}
