//go:build verif

package proxymux

import "net"

// VerifConnWithOneByte builds the unexported wrapper exactly as dispatch does (mux.go:139).
func VerifConnWithOneByte(conn net.Conn, b byte) net.Conn {
	return &connWithOneByte{Conn: conn, b: b}
}
