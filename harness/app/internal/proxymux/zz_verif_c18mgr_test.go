//go:build verif

package proxymux

// C18 — manager-level histories: the REAL proxymux.ListenSOCKS / ListenHTTP / muxManager
// (manager.go) with scripted base listeners (verifListenFake, see zz_verif_c18.go).
//
//	mgr LS@a0 LH@a1 lLS@b0 F@b X0 A1 C0@a=-,0501 B0 E@a
//
//	LS@<x> / LH@<x>    ListenSOCKS(addr) / ListenHTTP(addr) — GetOrCreate and ml.ListenX() back to back
//	lLS@<x> / lLH@<x>  the same two steps with mainLoop running in between: GetOrCreate, every
//	                   goroutine runs until blocked, then ml.ListenX() (a LATE registration: the
//	                   mux's mainLoop has already read the close channels at its loop head)
//	<x> = a0 | a1 | b0: spellings of addresses; a0 and a1 are two spellings of ONE address
//	F@<x>              the next creation of a base listener for that address fails
//	X<t> A<t>          Close / start Accept on sub-listener t (ids = creation order, all addresses)
//	C<c>@<x>=<chunks>  the open base listener of that address returns conn c; B<c> its client sends
//	E@<x>              the open base listener's Accept fails
//
// Finalisation: close every sub-listener and run to quiescence; CHECK RELEASE (every base
// listener closed, the manager's map empty) at once when the history has no late registration,
// and in every history after one more accepted connection; then hang up silent clients and
// fail what still accepts. Oracles (model-free): at most one open base listener per canonical
// address at every quiescent point; a registration is refused iff a live sub-listener of that
// kind exists on that address; release as above; and per connection the same as for `mux`
// histories (a connection arriving while a release is overdue finds no handler: closed).

import (
	"errors"
	"fmt"
	"net"
	"sort"
	"strconv"
	"strings"
	"sync"
	"testing/synctest"

	vh "github.com/apernet/hysteria/core/v2/verifhlib"
)

var c18MgrAddrs = map[string]string{
	"a0": "127.0.0.1:1080",
	"a1": "[::ffff:127.0.0.1]:1080", // net.ResolveTCPAddr(...).String() = 127.0.0.1:1080
	"b0": "127.0.0.1:1081",
}

type c18MgrBase struct {
	*c18FakeBase
	key string
}

func (b *c18MgrBase) isClosed() bool {
	select {
	case <-b.closed:
		return true
	default:
		return false
	}
}

type c18MgrSub struct {
	l      net.Listener
	kind   string
	alias  byte // 'a' | 'b'
	closed bool
}

func (s *c18MgrSub) isClosed() bool {
	if s.closed {
		return true
	}
	select {
	case <-s.l.(*subListener).closeChan:
		return true
	default:
		return false
	}
}

func c18RunMgrHistory(op string) (out string, oracle []string) {
	f := strings.Fields(op)
	if len(f) == 0 || f[0] != "mgr" {
		return "bad-op", nil
	}
	globalMuxManager = &muxManager{listeners: make(map[string]*muxListener)}
	var bases []*c18MgrBase
	failNext := map[string]bool{}
	verifListenFake = func(network, address string) (net.Listener, error) {
		if failNext[address] {
			delete(failNext, address)
			return nil, errors.New("verif: listen failed (EADDRINUSE)")
		}
		b := &c18MgrBase{c18FakeBase: &c18FakeBase{ch: make(chan c18AcceptRes), closed: make(chan struct{})}, key: address}
		bases = append(bases, b)
		return b, nil
	}
	defer func() { verifListenFake = nil }()

	var subs []*c18MgrSub
	var listens []string
	conns := map[int]*c18FakeConn{}
	connAlias := map[int]byte{}
	var calls []*c18AcceptCall
	var mu sync.Mutex
	outstanding := map[int]bool{}
	canon := func(alias string) string {
		k, _ := globalMuxManager.canonicalizeAddrPort(c18MgrAddrs[alias])
		return k
	}
	openBase := func(key string) *c18MgrBase {
		for i := len(bases) - 1; i >= 0; i-- {
			if bases[i].key == key && !bases[i].isClosed() {
				return bases[i]
			}
		}
		return nil
	}
	checkOnePerKey := func(when string) {
		n := map[string]int{}
		for _, b := range bases {
			if !b.isClosed() {
				n[b.key]++
			}
		}
		for k, c := range n {
			if c > 1 {
				oracle = append(oracle, fmt.Sprintf("%d open base listeners for %s %s", c, k, when))
			}
		}
	}
	listen := func(kind, alias string, late bool) {
		addr, okA := c18MgrAddrs[alias]
		if !okA {
			listens = append(listens, "?")
			return
		}
		key := canon(alias)
		willFail := failNext[key] && func() bool { _, ok := globalMuxManager.listeners[key]; return !ok }()
		live := false
		for _, s := range subs {
			// live = neither its owner nor a shutting-down mux has closed it
			if !s.isClosed() && s.kind == kind && s.alias == alias[0] {
				live = true
			}
		}
		var l net.Listener
		var err error
		if !late {
			if kind == "socks" {
				l, err = ListenSOCKS(addr)
			} else {
				l, err = ListenHTTP(addr)
			}
		} else {
			// the same two steps as ListenSOCKS/ListenHTTP (manager.go:58-72), with the
			// goroutines of the mux running to their blocking points in between
			var ml *muxListener
			ml, err = globalMuxManager.GetOrCreate(addr)
			if err == nil {
				synctest.Wait()
				if kind == "socks" {
					l, err = ml.ListenSOCKS()
				} else {
					l, err = ml.ListenHTTP()
				}
			}
		}
		switch {
		case err == nil:
			listens = append(listens, "ok"+strconv.Itoa(len(subs)))
			subs = append(subs, &c18MgrSub{l: l, kind: kind, alias: alias[0]})
			if live {
				oracle = append(oracle, fmt.Sprintf("a second %s registration on %s was accepted while the first is live", kind, key))
			}
		case errors.Is(err, ErrProtocolInUse):
			listens = append(listens, "inuse")
			if !live {
				oracle = append(oracle, fmt.Sprintf("%s registration on %s refused although no live %s sub-listener exists there", kind, key, kind))
			}
		case errors.Is(err, net.ErrClosed):
			listens = append(listens, "closed")
			oracle = append(oracle, fmt.Sprintf("%s registration on %s hit a mux that is shutting down", kind, key))
		default:
			listens = append(listens, "err")
			if !willFail {
				oracle = append(oracle, fmt.Sprintf("%s registration on %s failed: %v", kind, key, err))
			}
		}
	}
	accept := func(t int) {
		mu.Lock()
		if t >= len(subs) || outstanding[t] {
			mu.Unlock()
			return
		}
		outstanding[t] = true
		call := &c18AcceptCall{sub: t}
		calls = append(calls, call)
		l := subs[t].l
		mu.Unlock()
		go func() {
			conn, err := l.Accept()
			var got []byte
			if err == nil {
				for i := 0; ; i++ {
					p := make([]byte, c18ReadPattern[i%len(c18ReadPattern)])
					n, rerr := conn.Read(p)
					got = append(got, p[:n]...)
					if rerr != nil {
						break
					}
				}
			}
			mu.Lock()
			call.done, call.conn, call.err, call.got = true, conn, err, got
			outstanding[t] = false
			mu.Unlock()
		}()
	}

	for _, tok := range f[1:] {
		synctest.Wait()
		checkOnePerKey("before " + tok)
		at := strings.IndexByte(tok, '@')
		switch {
		case at > 0 && (tok[:at] == "LS" || tok[:at] == "LH" || tok[:at] == "lLS" || tok[:at] == "lLH"):
			kind := "socks"
			if strings.HasSuffix(tok[:at], "H") {
				kind = "http"
			}
			listen(kind, tok[at+1:], tok[0] == 'l')
		case at > 0 && tok[:at] == "F":
			failNext[canon(tok[at+1:]+"0")] = true
		case at > 0 && tok[:at] == "E":
			if b := openBase(canon(tok[at+1:] + "0")); b != nil {
				b.offer(c18AcceptRes{err: errors.New("verif: accept failed (EMFILE)")})
			}
		case tok[0] == 'X':
			if t, err := strconv.Atoi(tok[1:]); err == nil && t < len(subs) {
				subs[t].l.Close()
				subs[t].closed = true
			}
		case tok[0] == 'A':
			if t, err := strconv.Atoi(tok[1:]); err == nil {
				accept(t)
			}
		case tok[0] == 'C' && at > 0:
			id, err := strconv.Atoi(tok[1:at])
			eq := strings.IndexByte(tok, '=')
			if err != nil || eq < at+2 {
				return "bad-op", nil
			}
			if conns[id] == nil {
				c := &c18FakeConn{id: id, release: make(chan struct{})}
				for _, ch := range vh.ParseChunks(tok[eq+1:]) {
					c.chunks = append(c.chunks, ch)
					c.payload = append(c.payload, ch...)
				}
				conns[id] = c
				connAlias[id] = tok[at+1]
				if b := openBase(canon(tok[at+1:eq] + "0")); b != nil {
					c.setHanded(b.offer(c18AcceptRes{conn: c}))
				}
			}
		case tok[0] == 'B':
			if id, err := strconv.Atoi(tok[1:]); err == nil && conns[id] != nil {
				conns[id].send(false)
			}
		default:
			return "bad-op", nil
		}
	}
	// finalisation 1: every sub-listener closed. mainLoop watches the close channels it read at
	// its last loop head, so a base listener whose sub-listeners were all registered after that
	// (a LATE registration with nothing waking mainLoop since) is released only at the next
	// wake-up: without a late registration every base listener must be closed now …
	synctest.Wait()
	for _, s := range subs {
		s.l.Close()
		s.closed = true
	}
	synctest.Wait()
	checkOnePerKey("at the end")
	lateOp := strings.Contains(op, " lL")
	baseLetter := func(b *c18MgrBase) string {
		if b.key == "127.0.0.1:1081" {
			return "b"
		}
		return "a"
	}
	mapKeys := func() []string {
		globalMuxManager.lock.Lock()
		defer globalMuxManager.lock.Unlock()
		var left []string
		for k := range globalMuxManager.listeners {
			left = append(left, k)
		}
		sort.Strings(left)
		return left
	}
	var bstat []string
	for _, b := range bases {
		st := "c"
		if !b.isClosed() {
			st = "o"
			if !lateOp {
				oracle = append(oracle, fmt.Sprintf("release: the base listener of %s is still open although every sub-listener on it is closed (no late registration in this history)", b.key))
			}
		}
		bstat = append(bstat, baseLetter(b)+":"+st)
	}
	if !lateOp {
		for _, k := range mapKeys() {
			oracle = append(oracle, fmt.Sprintf("release: the manager still maps %s to a mux although every sub-listener on it is closed (no late registration in this history)", k))
		}
	}
	// … and in every history one more accepted connection (whose client hangs up at once) wakes
	// mainLoop: after it every base listener is closed and the map is empty; the connection
	// itself has no handler left and must be closed by the mux
	for i, b := range bases {
		if b.isClosed() {
			continue
		}
		c := &c18FakeConn{id: 900 + i, release: make(chan struct{})}
		if b.offer(c18AcceptRes{conn: c}) {
			conns[c.id] = c
			connAlias[c.id] = baseLetter(b)[0]
			c.setHanded(true)
			c.send(false)
		}
	}
	synctest.Wait()
	var astat []string
	for _, b := range bases {
		st := "c"
		if !b.isClosed() {
			st = "o"
			oracle = append(oracle, fmt.Sprintf("release: the base listener of %s is still open although every sub-listener on it is closed and a further connection has been accepted", b.key))
		}
		astat = append(astat, baseLetter(b)+":"+st)
	}
	for _, k := range mapKeys() {
		oracle = append(oracle, fmt.Sprintf("release: the manager still maps %s to a mux although every sub-listener on it is closed and a further connection has been accepted", k))
	}
	// finalisation 3: let every goroutine end
	ids := make([]int, 0, len(conns))
	for id := range conns {
		ids = append(ids, id)
	}
	sort.Ints(ids)
	for _, id := range ids {
		conns[id].send(true)
	}
	synctest.Wait()
	for _, b := range bases {
		b.offer(c18AcceptRes{err: errors.New("verif: accept failed (EMFILE)")})
	}
	synctest.Wait()

	mu.Lock()
	defer mu.Unlock()
	deliveredTo := map[int][]int{}
	var accs []string
	for i, call := range calls {
		switch {
		case !call.done:
			accs = append(accs, "blocked")
			oracle = append(oracle, fmt.Sprintf("Accept #%d on sub-listener %d never returned although everything was closed", i, call.sub))
		case call.err != nil:
			accs = append(accs, "err")
		default:
			w, ok := call.conn.(*connWithOneByte)
			if !ok {
				accs = append(accs, "?")
				continue
			}
			fc := w.Conn.(*c18FakeConn)
			accs = append(accs, "c"+strconv.Itoa(fc.id))
			deliveredTo[fc.id] = append(deliveredTo[fc.id], i)
		}
	}
	parts := []string{"mgr", "L=" + c18Join(listens), "A=" + c18Join(accs)}
	for _, id := range ids {
		c := conns[id]
		c.mu.Lock()
		closed, handed := c.closed, c.handed
		c.mu.Unlock()
		d := deliveredTo[id]
		switch {
		case !handed:
			parts = append(parts, fmt.Sprintf("c%d=unused", id))
		case len(d) > 0:
			call := calls[d[0]]
			parts = append(parts, fmt.Sprintf("c%d=d%d:%s", id, call.sub, vh.Hex(call.got)))
			if len(d) > 1 {
				oracle = append(oracle, fmt.Sprintf("conn %d was returned by %d Accept calls", id, len(d)))
			}
			if closed {
				oracle = append(oracle, fmt.Sprintf("conn %d was delivered to sub-listener %d AND closed by the mux", id, call.sub))
			}
			want := "http"
			if len(c.payload) > 0 && c.payload[0] == 5 {
				want = "socks"
			}
			s := subs[call.sub]
			if s.kind != want || s.alias != connAlias[id] {
				oracle = append(oracle, fmt.Sprintf("routing: conn %d (client sent %s to address %c) was delivered to the %s listener of address %c",
					id, vh.Hex(c.payload), connAlias[id], s.kind, s.alias))
			}
			if string(call.got) != string(c.payload) {
				oracle = append(oracle, fmt.Sprintf("conn %d: handler read %s, client sent %s", id, vh.Hex(call.got), vh.Hex(c.payload)))
			}
		case closed:
			parts = append(parts, fmt.Sprintf("c%d=x", id))
		default:
			parts = append(parts, fmt.Sprintf("c%d=lost", id))
			oracle = append(oracle, fmt.Sprintf("conn %d was handed out by a base listener and is neither delivered to a sub-listener nor closed", id))
		}
	}
	parts = append(parts, "bases="+c18Join(bstat), "after="+c18Join(astat))
	return strings.Join(parts, " "), oracle
}

func c18MgrGen(r *vh.RNG, n int, emit func(op string, tags ...string)) {
	fixed := [][2]string{
		{"mgr LS@a0 LH@a1 A0 A1 C0@a=0501 B0 C1@a=47 B1 X0 X1 LS@a0", "one-mux-two-spellings"},
		{"mgr LS@a0 LS@a1 LH@a0 LH@a1 X0 LS@a1", "second-registration-refused"},
		{"mgr LS@a0 LH@b0 C0@a=47 B0 C1@b=47 B1 A1", "two-addresses"},
		{"mgr LS@a0 LH@a0 X0 X1 LS@a0 X2", "release-and-relisten"},
		{"mgr lLS@a0 X0", "late-registration-then-close"},
		{"mgr lLH@a0 X0 lLS@a1", "late-registration-then-close"},
		{"mgr LS@a0 lLH@a0 X1 X0", "late-registration-then-close"},
		{"mgr F@a LS@a0 LS@a0", "base-listen-error"},
		{"mgr LS@a0 E@a LS@a0", "accept-error-then-relisten"},
	}
	for _, f := range fixed {
		if n <= 0 {
			return
		}
		emit(f[0], f[1])
		n--
	}
	aliases := []string{"a0", "a0", "a1", "b0"}
	for i := 0; i < n; i++ {
		var toks []string
		nsub, nconn := 0, 0
		var handed []int
		late := false
		for s := r.Range(2, 12); s > 0; s-- {
			switch k := r.Intn(20); {
			case k < 6:
				t := []string{"LS", "LH"}[r.Intn(2)]
				if r.Chance(1, 3) {
					t = "l" + t
					late = true
				}
				toks = append(toks, t+"@"+aliases[r.Intn(len(aliases))])
				nsub++
			case k < 10 && nsub > 0:
				toks = append(toks, "X"+strconv.Itoa(r.Intn(nsub)))
			case k < 13 && nsub > 0:
				toks = append(toks, "A"+strconv.Itoa(r.Intn(nsub)))
			case k < 16:
				toks = append(toks, fmt.Sprintf("C%d@%s=%s", nconn, []string{"a", "a", "b"}[r.Intn(3)], c18Payload(r)))
				handed = append(handed, nconn)
				nconn++
			case k < 18 && len(handed) > 0:
				toks = append(toks, "B"+strconv.Itoa(handed[r.Intn(len(handed))]))
			case k == 18 && r.Chance(1, 2):
				toks = append(toks, "E@"+[]string{"a", "b"}[r.Intn(2)])
			case k == 19:
				toks = append(toks, "F@"+[]string{"a", "b"}[r.Intn(2)])
			}
		}
		tag := "mgr-random"
		if late {
			tag = "mgr-random-late-registration"
		}
		emit("mgr "+strings.Join(toks, " "), tag)
	}
}
