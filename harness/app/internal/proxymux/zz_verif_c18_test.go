//go:build verif

package proxymux

// C18 — the shared SOCKS5/HTTP port (mux.go) under scheduled registration / close /
// arrival orders. One op line = one complete history of a fresh muxListener:
//
//	mux LS LH X0 A1 C0=05aa B0 E late1=47 ...
//
//	LS / LH      ListenSOCKS() / ListenHTTP()            (sub-listener ids = creation order)
//	X<t>         sub-listener t .Close()
//	A<t>         start an Accept() on sub-listener t (at most one outstanding per listener)
//	C<c>=<chunks> the base listener's Accept returns conn c; its client will send the
//	             comma-separated hex chunks, one Read result each ("-" = an empty chunk, i.e. a
//	             (0,nil) read — also BEFORE the detection byte; "." = nothing), then EOF
//	B<c>         the client of conn c sends its chunks
//	G<c>=<chunks> like C, but the conn's first data Read is GATED: once the client has sent (B) it
//	             copies the bytes into the caller's buffer and returns only at R<c> — the first
//	             reads of several connections overlap, in any release order
//	E            the base listener's Accept fails (EMFILE-like)
//	late<c>=<hex> conn c is returned by base.Accept() at the moment base.Close() is called
//	             (accepted by the kernel just before the port is closed)
//
// After every stimulus the real goroutines run until all of them are blocked
// (testing/synctest), so each history is deterministic. Every history ends with the same
// finalisation: close every sub-listener, let every silent client hang up, fail the base
// Accept. After that each conn the base listener handed out must have been returned by
// exactly one Accept (of the listener its first byte selects, bytes intact) or closed.
//
// A panic in a goroutine of mux.go kills the process, so the histories run in a child
// process (this same test binary); the parent turns a dead child into outcome `panic`.

import (
	"bufio"
	"bytes"
	"errors"
	"fmt"
	"io"
	"net"
	"os"
	"os/exec"
	"runtime"
	"sort"
	"strconv"
	"strings"
	"sync"
	"testing"
	"testing/synctest"
	"time"

	vh "github.com/apernet/hysteria/core/v2/verifhlib"
)

// ---------------------------------------------------------------- fakes

type c18FakeConn struct {
	id       int
	payload  []byte   // all chunks concatenated: what the client sent
	chunks   [][]byte // what is still to be delivered, one chunk per Read at most
	mu       sync.Mutex
	release  chan struct{}
	released bool
	// a GATED conn: its first data Read copies the bytes into the caller's buffer and returns
	// only when the gate opens (a reader descheduled between "bytes in the buffer" and "caller
	// looks at them"), so that the first reads of several connections overlap
	gate     chan struct{}
	gateOpen bool
	gateUsed bool
	hangup   bool
	closed   bool
	nClose   int
	handed   bool
}

func (c *c18FakeConn) Read(p []byte) (int, error) {
	<-c.release
	c.mu.Lock()
	defer c.mu.Unlock()
	if c.closed {
		return 0, net.ErrClosed
	}
	if c.hangup || len(c.chunks) == 0 {
		return 0, io.EOF
	}
	// the read semantics of a net.Pipe end: at most the rest of the current Write; an empty
	// Write is a (0,nil) read; a zero-length buffer takes nothing of a non-empty Write
	cur := c.chunks[0]
	n := copy(p, cur)
	if n == len(cur) {
		c.chunks = c.chunks[1:]
	} else {
		c.chunks[0] = cur[n:]
	}
	if c.gate != nil && n > 0 && !c.gateUsed {
		c.gateUsed = true
		g := c.gate
		c.mu.Unlock()
		<-g // the bytes are in p; the Read has not returned yet
		c.mu.Lock()
	}
	return n, nil
}

// openGate lets a gated first Read return.
func (c *c18FakeConn) openGate() {
	c.mu.Lock()
	defer c.mu.Unlock()
	if c.gate != nil && !c.gateOpen {
		c.gateOpen = true
		close(c.gate)
	}
}

func (c *c18FakeConn) Write(p []byte) (int, error) { return len(p), nil }

func (c *c18FakeConn) Close() error {
	c.mu.Lock()
	c.closed = true
	c.nClose++
	c.mu.Unlock()
	return nil
}

func (c *c18FakeConn) setHanded(h bool) {
	c.mu.Lock()
	c.handed = h
	c.mu.Unlock()
}

func (c *c18FakeConn) send(hangup bool) {
	c.mu.Lock()
	defer c.mu.Unlock()
	if c.released {
		return
	}
	c.released = true
	c.hangup = hangup
	close(c.release)
}

func (c *c18FakeConn) LocalAddr() net.Addr {
	return &net.TCPAddr{IP: net.IPv4(127, 0, 0, 1), Port: 1080}
}
func (c *c18FakeConn) RemoteAddr() net.Addr {
	return &net.TCPAddr{IP: net.IPv4(127, 0, 0, 1), Port: 40000 + c.id}
}
func (c *c18FakeConn) SetDeadline(t time.Time) error      { return nil }
func (c *c18FakeConn) SetReadDeadline(t time.Time) error  { return nil }
func (c *c18FakeConn) SetWriteDeadline(t time.Time) error { return nil }

type c18AcceptRes struct {
	conn net.Conn
	err  error
}

type c18FakeBase struct {
	ch     chan c18AcceptRes
	closed chan struct{}
	once   sync.Once
	mu     sync.Mutex
	late   *c18FakeConn
}

func (b *c18FakeBase) Accept() (net.Conn, error) {
	select {
	case r := <-b.ch:
		return r.conn, r.err
	case <-b.closed:
		b.mu.Lock()
		l := b.late
		b.late = nil
		b.mu.Unlock()
		if l != nil {
			l.setHanded(true)
			return l, nil
		}
		return nil, net.ErrClosed
	}
}

func (b *c18FakeBase) Close() error   { b.once.Do(func() { close(b.closed) }); return nil }
func (b *c18FakeBase) Addr() net.Addr { return &net.TCPAddr{IP: net.IPv4(127, 0, 0, 1), Port: 1080} }

// offer hands r to a blocked Accept; false when nobody is accepting.
func (b *c18FakeBase) offer(r c18AcceptRes) bool {
	select {
	case b.ch <- r:
		return true
	default:
		return false
	}
}

type c18AcceptCall struct {
	sub  int
	done bool
	conn net.Conn
	err  error
	got  []byte
}

// ---------------------------------------------------------------- one history

var c18ReadPattern = []int{0, 1, 0, 2, 1, 7, 0, 64}

func c18RunHistory(op string) (out string, oracle []string) {
	f := strings.Fields(op)
	if len(f) == 0 || f[0] != "mux" {
		return "bad-op", nil
	}
	base := &c18FakeBase{ch: make(chan c18AcceptRes), closed: make(chan struct{})}
	mux := newMuxListener(base, func() {})
	var subs []net.Listener
	var kinds []string
	var listens []string
	conns := map[int]*c18FakeConn{}
	var calls []*c18AcceptCall
	var mu sync.Mutex // guards calls' fields written by the accepting goroutines
	outstanding := map[int]bool{}

	newConn := func(id int, hexPayload string) *c18FakeConn {
		c := &c18FakeConn{id: id, release: make(chan struct{})}
		for _, ch := range vh.ParseChunks(hexPayload) {
			c.chunks = append(c.chunks, ch)
			c.payload = append(c.payload, ch...)
		}
		conns[id] = c
		return c
	}
	listen := func(kind string) {
		var l net.Listener
		var err error
		if kind == "socks" {
			l, err = mux.ListenSOCKS()
		} else {
			l, err = mux.ListenHTTP()
		}
		switch {
		case err == nil:
			listens = append(listens, "ok"+strconv.Itoa(len(subs)))
			subs = append(subs, l)
			kinds = append(kinds, kind)
		case errors.Is(err, ErrProtocolInUse):
			listens = append(listens, "inuse")
		default:
			listens = append(listens, "closed")
		}
	}
	accept := func(t int) {
		mu.Lock()
		if t >= len(subs) || outstanding[t] {
			mu.Unlock()
			return
		}
		outstanding[t] = true
		call := &c18AcceptCall{sub: t}
		calls = append(calls, call)
		l := subs[t]
		mu.Unlock()
		go func() {
			conn, err := l.Accept()
			var got []byte
			if err == nil {
				// read everything through the wrapper, zero-length and short reads included
				for i := 0; ; i++ {
					p := make([]byte, c18ReadPattern[i%len(c18ReadPattern)])
					n, rerr := conn.Read(p)
					got = append(got, p[:n]...)
					if rerr != nil {
						break
					}
				}
			}
			mu.Lock()
			call.done, call.conn, call.err, call.got = true, conn, err, got
			outstanding[t] = false
			mu.Unlock()
		}()
	}

	for _, tok := range f[1:] {
		synctest.Wait()
		switch {
		case tok == "LS":
			listen("socks")
		case tok == "LH":
			listen("http")
		case tok == "E":
			base.offer(c18AcceptRes{err: errors.New("verif: accept failed (EMFILE)")})
		case strings.HasPrefix(tok, "late"):
			id, payload, ok := c18ParseConnTok(tok[4:])
			if ok && conns[id] == nil {
				c := newConn(id, payload)
				base.mu.Lock()
				if base.late == nil {
					base.late = c
				}
				base.mu.Unlock()
			}
		case tok[0] == 'X':
			if t, err := strconv.Atoi(tok[1:]); err == nil && t < len(subs) {
				subs[t].Close()
			}
		case tok[0] == 'A':
			if t, err := strconv.Atoi(tok[1:]); err == nil {
				accept(t)
			}
		case tok[0] == 'C':
			id, payload, ok := c18ParseConnTok(tok[1:])
			if ok && conns[id] == nil {
				c := newConn(id, payload)
				c.setHanded(base.offer(c18AcceptRes{conn: c}))
			}
		case tok[0] == 'G':
			id, payload, ok := c18ParseConnTok(tok[1:])
			if ok && conns[id] == nil {
				c := newConn(id, payload)
				c.gate = make(chan struct{})
				c.setHanded(base.offer(c18AcceptRes{conn: c}))
			}
		case tok[0] == 'R':
			// the gated Read returns — only if it is under way (the client has sent)
			if id, err := strconv.Atoi(tok[1:]); err == nil && conns[id] != nil {
				c := conns[id]
				c.mu.Lock()
				sent := c.released
				c.mu.Unlock()
				if sent {
					c.openGate()
				}
			}
		case tok[0] == 'B':
			if id, err := strconv.Atoi(tok[1:]); err == nil && conns[id] != nil {
				conns[id].send(false)
			}
		default:
			return "bad-op", nil
		}
	}
	// finalisation
	synctest.Wait()
	for _, l := range subs {
		l.Close()
	}
	synctest.Wait()
	ids := make([]int, 0, len(conns))
	for id := range conns {
		ids = append(ids, id)
	}
	sort.Ints(ids)
	for _, id := range ids {
		conns[id].send(true)
		conns[id].openGate()
	}
	synctest.Wait()
	base.offer(c18AcceptRes{err: errors.New("verif: accept failed (EMFILE)")})
	synctest.Wait()

	mu.Lock()
	defer mu.Unlock()
	deliveredTo := map[int][]int{} // conn id -> indices of calls that returned it
	var accs []string
	for i, call := range calls {
		switch {
		case !call.done:
			accs = append(accs, "blocked")
			oracle = append(oracle, fmt.Sprintf("Accept #%d on sub-listener %d never returned although everything was closed", i, call.sub))
		case call.err != nil:
			accs = append(accs, "err")
		default:
			w, ok := call.conn.(*connWithOneByte)
			if !ok {
				accs = append(accs, "?")
				oracle = append(oracle, "Accept returned something that is not the mux's wrapper conn")
				continue
			}
			fc := w.Conn.(*c18FakeConn)
			accs = append(accs, "c"+strconv.Itoa(fc.id))
			deliveredTo[fc.id] = append(deliveredTo[fc.id], i)
		}
	}
	parts := []string{"mux", "L=" + c18Join(listens), "A=" + c18Join(accs)}
	for _, id := range ids {
		c := conns[id]
		c.mu.Lock()
		closed, handed := c.closed, c.handed
		c.mu.Unlock()
		d := deliveredTo[id]
		switch {
		case !handed:
			parts = append(parts, fmt.Sprintf("c%d=unused", id))
		case len(d) > 0:
			call := calls[d[0]]
			parts = append(parts, fmt.Sprintf("c%d=d%d:%s", id, call.sub, vh.Hex(call.got)))
			if len(d) > 1 {
				oracle = append(oracle, fmt.Sprintf("conn %d was returned by %d Accept calls", id, len(d)))
			}
			if closed {
				oracle = append(oracle, fmt.Sprintf("conn %d was delivered to sub-listener %d AND closed by the mux", id, call.sub))
			}
			want := "http"
			if len(c.payload) > 0 && c.payload[0] == 5 {
				want = "socks"
			}
			if kinds[call.sub] != want {
				oracle = append(oracle, fmt.Sprintf("routing: conn %d (client sent %s) was delivered to the %s listener", id, vh.Hex(c.payload), kinds[call.sub]))
			}
			if !bytes.Equal(call.got, c.payload) {
				oracle = append(oracle, fmt.Sprintf("conn %d: handler read %s, client sent %s", id, vh.Hex(call.got), vh.Hex(c.payload)))
			}
		case closed:
			parts = append(parts, fmt.Sprintf("c%d=x", id))
		default:
			parts = append(parts, fmt.Sprintf("c%d=lost", id))
			oracle = append(oracle, fmt.Sprintf("conn %d was handed out by the base listener and is neither delivered to a sub-listener nor closed", id))
		}
	}
	_ = mux
	return strings.Join(parts, " "), oracle
}

func c18ParseConnTok(s string) (int, string, bool) {
	i := strings.IndexByte(s, '=')
	if i <= 0 {
		return 0, "", false
	}
	id, err := strconv.Atoi(s[:i])
	if err != nil {
		return 0, "", false
	}
	return id, s[i+1:], true
}

func c18Join(ss []string) string {
	if len(ss) == 0 {
		return "."
	}
	return strings.Join(ss, ",")
}

// ---------------------------------------------------------------- child process

const c18Marker = "@@R\t"

func TestVerifC18MuxChild(t *testing.T) {
	if os.Getenv("VERIF_C18_CHILD") != "1" {
		t.Skip("child of TestVerifC18Mux")
	}
	// one P: the goroutines a call spawns do not run before the caller blocks, so "GetOrCreate
	// and ml.ListenX() back to back" is the early-registration order deterministically
	runtime.GOMAXPROCS(1)
	in := bufio.NewReaderSize(os.Stdin, 1<<20)
	w := bufio.NewWriter(os.Stdout)
	for {
		line, err := in.ReadString('\n')
		line = strings.TrimRight(line, "\r\n")
		if line != "" {
			var out string
			var oracle []string
			synctest.Test(t, func(t *testing.T) {
				if strings.HasPrefix(line, "mgr") {
					out, oracle = c18RunMgrHistory(line)
				} else {
					out, oracle = c18RunHistory(line)
				}
			})
			fmt.Fprintf(w, "%s%s", c18Marker, out)
			for _, o := range oracle {
				fmt.Fprintf(w, "\t%s", strings.ReplaceAll(o, "\t", " "))
			}
			fmt.Fprintln(w)
			w.Flush()
		}
		if err != nil {
			return
		}
	}
}

type c18Child struct {
	cmd    *exec.Cmd
	stdin  io.WriteCloser
	stdout *bufio.Reader
	stderr *bytes.Buffer
}

func c18StartChild() (*c18Child, error) {
	cmd := exec.Command(os.Args[0], "-test.run=^TestVerifC18MuxChild$", "-test.count=1", "-test.timeout=0")
	cmd.Env = append(os.Environ(), "VERIF_C18_CHILD=1", "VERIF_OUT=")
	stdin, err := cmd.StdinPipe()
	if err != nil {
		return nil, err
	}
	stdout, err := cmd.StdoutPipe()
	if err != nil {
		return nil, err
	}
	c := &c18Child{cmd: cmd, stdin: stdin, stdout: bufio.NewReaderSize(stdout, 1<<20), stderr: &bytes.Buffer{}}
	cmd.Stderr = c.stderr
	if err := cmd.Start(); err != nil {
		return nil, err
	}
	return c, nil
}

func (c *c18Child) stop() {
	_ = c.stdin.Close()
	done := make(chan struct{})
	go func() { _ = c.cmd.Wait(); close(done) }()
	select {
	case <-done:
	case <-time.After(10 * time.Second):
		_ = c.cmd.Process.Kill()
		<-done
	}
}

// ---------------------------------------------------------------- component

type c18Mux struct {
	child *c18Child
}

func (m *c18Mux) Run(op string) vh.Result {
	if m.child == nil {
		c, err := c18StartChild()
		if err != nil {
			return vh.Result{Out: "harness-error " + err.Error()}
		}
		m.child = c
	}
	if _, err := io.WriteString(m.child.stdin, op+"\n"); err != nil {
		m.child.stop()
		m.child = nil
		return vh.Result{Out: "harness-error write " + err.Error()}
	}
	type lineRes struct {
		line string
		err  error
	}
	ch := make(chan lineRes, 1)
	go func() {
		for {
			line, err := m.child.stdout.ReadString('\n')
			if strings.HasPrefix(line, c18Marker) || err != nil {
				ch <- lineRes{line, err}
				return
			}
		}
	}()
	var lr lineRes
	select {
	case lr = <-ch:
	case <-time.After(60 * time.Second):
		_ = m.child.cmd.Process.Kill()
		lr = <-ch
		m.child.stop()
		m.child = nil
		return vh.Result{Out: "hang", Oracle: []string{"the mux history did not finish within 60 s"}}
	}
	if !strings.HasPrefix(lr.line, c18Marker) {
		// the child died: a goroutine of mux.go panicked (or the bubble deadlocked)
		m.child.stop()
		msg := "process died"
		for _, ln := range strings.Split(m.child.stderr.String(), "\n") {
			if strings.HasPrefix(ln, "panic: ") || strings.HasPrefix(ln, "fatal error: ") {
				msg = ln
				break
			}
		}
		m.child = nil
		return vh.Result{Out: "panic", NonTrivial: true, Oracle: []string{"mux.go: " + msg}}
	}
	parts := strings.Split(strings.TrimRight(lr.line[len(c18Marker):], "\r\n"), "\t")
	return vh.Result{Out: parts[0], Oracle: parts[1:], NonTrivial: strings.Contains(parts[0], "=d") || strings.Contains(parts[0], "=x")}
}

// c18Payload draws what a client sends, as the chunks in which the conn delivers it:
// often with empty chunks — (0,nil) reads — in FRONT of the detection byte.
func c18Payload(r *vh.RNG) string {
	n := r.Pick([]int{0, 1, 1, 2, 3, 6})
	if n == 0 {
		return []string{"-", ".", "-,-"}[r.Intn(3)]
	}
	b := r.Bytes(n)
	switch r.Intn(4) {
	case 0, 1:
		b[0] = 5
	case 2:
		b[0] = byte(r.Pick([]int{'C', 'G', 4, 6, 0, 0x16}))
	}
	var chunks [][]byte
	switch r.Intn(3) {
	case 0:
		chunks = [][]byte{b}
	case 1: // one or two empty reads before the first byte, the rest in one piece
		chunks = append(chunks, []byte{})
		if r.Bool() {
			chunks = append(chunks, []byte{})
		}
		chunks = append(chunks, b)
	default:
		if r.Bool() {
			chunks = append(chunks, []byte{})
		}
		chunks = append(chunks, r.Chunk(b)...)
	}
	return vh.Chunks(chunks)
}

func (m *c18Mux) Gen(r *vh.RNG, n int, emit func(op string, tags ...string)) {
	// two thirds mux-level histories, one third through the manager API
	c18MuxGen(r, n-n/3, emit)
	c18MgrGen(r, n/3, emit)
}

func c18MuxGen(r *vh.RNG, n int, emit func(op string, tags ...string)) {
	// the histories the design singles out, then random ones
	fixed := [][2]string{
		{"mux LS C0=0501 B0 X0", "close-while-pending"},
		{"mux LH C0=47 B0 X0", "close-while-pending"},
		{"mux LS C0=0501 B0 E", "accept-error-while-pending"},
		{"mux LS LH C0=0501 C1=4745 B0 B1 E", "accept-error-while-pending"},
		{"mux LS C0=0501 B0 A0 late1=0502 X0", "conn-accepted-at-close"},
		{"mux LS LH C0=47 B0 late1=05 X0 X1", "conn-accepted-at-close"},
		{"mux LS LH A0 A1 C0=0501 B0 C1=47 B1", "both"},
		{"mux LS LH A0 A1 C0=-,0501 B0 C1=-,-,47,45 B1", "empty-read-before-first-byte"},
		{"mux LS LH C0=-,05,-,01 B0 C1=-,16 B1 A1 A0", "empty-read-before-first-byte"},
		{"mux LS LH A0 A1 G0=0501 B0 C1=4745 B1 R0 A0 A1", "overlapping-first-reads"},
		{"mux LS LH A0 A1 G0=47 G1=0501 B0 B1 R1 A1 R0 A0 A1", "overlapping-first-reads"},
		{"mux LS X0 LS A1 C0=05 B0", "re-register"},
		{"mux LS A0 X0 LS", "close-with-accept-outstanding"},
	}
	for _, f := range fixed {
		if n <= 0 {
			return
		}
		emit(f[0], f[1])
		n--
	}
	for i := 0; i < n; i++ {
		if i%4 == 3 {
			// k connections whose first reads overlap: every byte is in its dispatcher's buffer
			// before any Read returns; the Reads return in a drawn order; both listeners accept
			k := r.Range(2, 4)
			toks := []string{"LS", "LH", "A0", "A1"}
			if r.Bool() {
				toks = []string{"LH", "LS", "A1", "A0"}
			}
			for c := 0; c < k; c++ {
				kind := "G"
				if c > 0 && r.Chance(1, 4) {
					kind = "C" // an ordinary read squeezed in between
				}
				toks = append(toks, fmt.Sprintf("%s%d=%s", kind, c, c18Payload(r)))
			}
			perm := make([]int, k)
			for c := range perm {
				perm[c] = c
			}
			for c := k - 1; c > 0; c-- {
				j := r.Intn(c + 1)
				perm[c], perm[j] = perm[j], perm[c]
			}
			for _, c := range perm {
				toks = append(toks, "B"+strconv.Itoa(c))
			}
			for c := k - 1; c > 0; c-- {
				j := r.Intn(c + 1)
				perm[c], perm[j] = perm[j], perm[c]
			}
			for _, c := range perm {
				toks = append(toks, "R"+strconv.Itoa(c), "A0", "A1")
			}
			emit("mux "+strings.Join(toks, " "), "random-overlapping-first-reads")
			continue
		}
		var toks []string
		nsub, nconn := 0, 0
		var handed []int
		steps := r.Range(2, 14)
		if r.Chance(3, 4) {
			toks = append(toks, []string{"LS", "LH"}[r.Intn(2)])
			nsub++
		}
		for s := 0; s < steps; s++ {
			switch k := r.Intn(20); {
			case k < 3:
				toks = append(toks, []string{"LS", "LH"}[r.Intn(2)])
				nsub++ // an upper bound: a refused Listen creates none
			case k < 5 && nsub > 0:
				toks = append(toks, "X"+strconv.Itoa(r.Intn(nsub)))
			case k < 10 && nsub > 0:
				toks = append(toks, "A"+strconv.Itoa(r.Intn(nsub)))
			case k < 14:
				kind := "C"
				if r.Chance(1, 3) {
					kind = "G"
				}
				toks = append(toks, fmt.Sprintf("%s%d=%s", kind, nconn, c18Payload(r)))
				handed = append(handed, nconn)
				nconn++
			case k < 18 && len(handed) > 0:
				c := handed[r.Intn(len(handed))]
				if r.Chance(1, 3) {
					toks = append(toks, "R"+strconv.Itoa(c))
				} else {
					toks = append(toks, "B"+strconv.Itoa(c))
				}
			case k == 18 && r.Chance(1, 2):
				toks = append(toks, "E")
			case k == 19:
				toks = append(toks, fmt.Sprintf("late%d=%s", nconn, c18Payload(r)))
				nconn++
			}
		}
		tag := "random"
		if strings.Contains(strings.Join(toks, " "), "=-,") {
			tag = "random-empty-read-first"
		}
		emit("mux "+strings.Join(toks, " "), tag)
	}
}

func TestVerifC18Mux(t *testing.T) {
	c := &c18Mux{}
	ran := vh.RunFromEnv(c)
	if c.child != nil {
		c.child.stop()
	}
	if !ran {
		t.Skip("VERIF_OUT not set")
	}
}
