//go:build verif

package http

import (
	"bytes"
	"net"
)

// VerifDispatch runs the unexported per-connection handler synchronously (C18 harness).
func VerifDispatch(s *Server, conn net.Conn) { s.dispatch(conn) }

// VerifCachedConn builds the unexported cachedConn exactly as dispatch does (server.go:90-93).
func VerifCachedConn(conn net.Conn, data []byte) net.Conn {
	return &cachedConn{Conn: conn, Buffer: *bytes.NewBuffer(data)}
}
