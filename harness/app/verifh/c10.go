//go:build verif

package main

// C10, configuration layer: where the declared limits come from. Drives the REAL
// utils.StringToBps / utils.ConvBandwidth (app/internal/utils/bpsconv.go), the real
// fillBandwidthConfig of app/cmd/client.go and app/cmd/server.go, and the real core
// validation (core/server (*Config).fill, core/client (*Config).verifyAndFill).
// Lean model: Hy.Model.RateConfig (driver `hydrv rate`).
//
// ops (strings are hex, "-" = empty):
//
//	bps <hex>            StringToBps(s)                       -> bps ok <n> | bps err format|range|unit
//	convint <i>          ConvBandwidth(int(i))                -> conv ok <n>
//	ccfg <up> <down>     client: fillBandwidthConfig + verifyAndFill -> ccfg ok <tx> <rx> | ccfg err <field>
//	acfg <up> <down>     server: fillBandwidthConfig + fill          -> acfg ok <tx> <rx> | acfg err <field>

import (
	"crypto/tls"
	"errors"
	"fmt"
	"math/big"
	"net"
	"regexp"
	"strconv"
	"strings"
	"time"
	"unicode"

	"github.com/apernet/hysteria/app/v2/cmd"
	"github.com/apernet/hysteria/app/v2/internal/utils"
	"github.com/apernet/hysteria/core/v2/client"
	coreErrs "github.com/apernet/hysteria/core/v2/errors"
	"github.com/apernet/hysteria/core/v2/server"
	vh "github.com/apernet/hysteria/core/v2/verifhlib"
)

var c10Units = []string{"b", "bps", "k", "kb", "kbps", "m", "mb", "mbps", "g", "gb", "gbps", "t", "tb", "tbps"}

func init() {
	vh.Register("ratecfg", func() vh.Component { return &rateCfg{} })
	vh.RegisterConsts(func() map[string]any {
		m := map[string]any{}
		// the unit "table" is a switch: read each factor off the function itself (8 <unit> = factor bytes/s)
		for _, u := range c10Units {
			v, err := utils.StringToBps("8" + u)
			if err != nil {
				v = 0
			}
			m["C10_Unit_"+u] = v
		}
		// the two Unicode facts the model uses, from the compiled unicode tables
		var sp, lo []string
		for r := rune(0x80); r <= unicode.MaxRune; r++ {
			if unicode.IsSpace(r) {
				sp = append(sp, strconv.FormatInt(int64(r), 16))
			}
			if l := unicode.ToLower(r); l < 0x80 {
				lo = append(lo, strconv.FormatInt(int64(r), 16)+">"+strconv.FormatInt(int64(l), 16))
			}
		}
		m["C10_UnicodeSpaces"] = strings.Join(sp, ",")
		m["C10_LowerToASCII"] = strings.Join(lo, ",")
		return m
	})
}

type rateCfg struct{}

type c10DummyConn struct{}

func (c10DummyConn) ReadFrom([]byte) (int, net.Addr, error) { return 0, nil, errors.New("unused") }
func (c10DummyConn) WriteTo([]byte, net.Addr) (int, error)  { return 0, errors.New("unused") }
func (c10DummyConn) Close() error                           { return nil }
func (c10DummyConn) LocalAddr() net.Addr                    { return &net.UDPAddr{} }
func (c10DummyConn) SetDeadline(time.Time) error            { return nil }
func (c10DummyConn) SetReadDeadline(time.Time) error        { return nil }
func (c10DummyConn) SetWriteDeadline(time.Time) error       { return nil }

type c10DummyAuth struct{}

func (c10DummyAuth) Authenticate(net.Addr, string, uint64) (bool, string) { return false, "" }

func c10Str(h string) (string, bool) {
	if h == "-" {
		return "", true
	}
	if len(h)%2 != 0 || strings.Trim(h, "0123456789abcdef") != "" {
		return "", false
	}
	return string(vh.UnHex(h)), true
}

func c10BpsOut(v uint64, err error) string {
	if err == nil {
		return fmt.Sprintf("ok %d", v)
	}
	switch {
	case errors.Is(err, strconv.ErrRange) || strings.Contains(err.Error(), "out of range"):
		return "err range"
	case err.Error() == "invalid format":
		return "err format"
	case err.Error() == "unsupported unit":
		return "err unit"
	}
	return "err other:" + strings.ReplaceAll(err.Error(), " ", "_")
}

var c10Plain = regexp.MustCompile(`^[ \t\n\v\f\r]*([0-9]+)[ \t\n\v\f\r]*([A-Za-z]+)[ \t\n\v\f\r]*$`)

var c10Factor = map[string]int64{"b": 1, "bps": 1, "k": 1e3, "kb": 1e3, "kbps": 1e3, "m": 1e6, "mb": 1e6, "mbps": 1e6,
	"g": 1e9, "gb": 1e9, "gbps": 1e9, "t": 1e12, "tb": 1e12, "tbps": 1e12}

var c10Two64 = new(big.Int).Lsh(big.NewInt(1), 64)

// c10Reading: an ASCII bandwidth string read independently of the code (regexp + big.Int):
// <number><unit> with optional blanks. ok=false: not of that form (must be refused).
// fits: the number itself fits uint64 (otherwise strconv refuses it). want: number x unit as
// the uint64 product the program computes (modulo 2^64), divided by 8; exact: number x unit,
// unreduced.
func c10Reading(s string) (want uint64, exact *big.Int, fits, ok bool) {
	m := c10Plain.FindStringSubmatch(s)
	if m == nil {
		return 0, nil, false, false
	}
	f, known := c10Factor[strings.ToLower(m[2])]
	if !known {
		return 0, nil, false, false
	}
	n, _ := new(big.Int).SetString(m[1], 10)
	fits = n.IsUint64()
	exact = new(big.Int).Mul(n, big.NewInt(f))
	w := new(big.Int).Mod(exact, c10Two64)
	w.Div(w, big.NewInt(8))
	return w.Uint64(), exact, fits, true
}

func c10IsASCII(s string) bool {
	for i := 0; i < len(s); i++ {
		if s[i] >= 0x80 {
			return false
		}
	}
	return true
}

// c10BpsOracle: model-free clauses on one StringToBps result. The product is compared with
// uint64 (wrapping) semantics: that an over-large value wraps is noticed, not claimed.
func c10BpsOracle(s string, v uint64, err error) []string {
	var out []string
	if !c10IsASCII(s) {
		return nil
	}
	want, exact, fits, ok := c10Reading(s)
	switch {
	case !ok && err == nil:
		out = append(out, fmt.Sprintf("%q is not <number><unit> but was accepted as %d B/s", s, v))
	case ok && !fits && err == nil:
		out = append(out, fmt.Sprintf("%q: the number does not fit uint64 but was accepted as %d B/s", s, v))
	case ok && fits && err == nil && v != want:
		out = append(out, fmt.Sprintf("%q means %s bit/s; as a uint64 product / 8 that is %d B/s, but it was accepted as %d B/s", s, exact, want, v))
	case ok && fits && err != nil:
		out = append(out, fmt.Sprintf("%q is <number><unit> with a number that fits, but was refused: %v", s, err))
	}
	return out
}

func (c *rateCfg) Run(op string) vh.Result {
	f := strings.Fields(op)
	bad := vh.Result{Out: "bad-op"}
	if len(f) < 2 {
		return bad
	}
	switch f[0] {
	case "bps":
		s, ok := c10Str(f[1])
		if !ok || len(f) != 2 {
			return bad
		}
		v, err := utils.StringToBps(s)
		v2, err2 := utils.ConvBandwidth(s)
		res := vh.Result{Out: "bps " + c10BpsOut(v, err), NonTrivial: err == nil}
		if v2 != v || (err == nil) != (err2 == nil) {
			res.Oracle = append(res.Oracle, fmt.Sprintf("ConvBandwidth(%q) = %d,%v differs from StringToBps = %d,%v", s, v2, err2, v, err))
		}
		if err != nil && v != 0 {
			res.Oracle = append(res.Oracle, fmt.Sprintf("StringToBps(%q) failed but returned %d", s, v))
		}
		res.Oracle = append(res.Oracle, c10BpsOracle(s, v, err)...)
		return res
	case "convint":
		if len(f) != 2 {
			return bad
		}
		i, err := strconv.ParseInt(f[1], 10, 64)
		if err != nil {
			return bad
		}
		v, err := utils.ConvBandwidth(int(i))
		return vh.Result{Out: "conv " + c10BpsOut(v, err), NonTrivial: true}
	case "ccfg", "acfg":
		if len(f) != 3 {
			return bad
		}
		up, ok1 := c10Str(f[1])
		down, ok2 := c10Str(f[2])
		if !ok1 || !ok2 {
			return bad
		}
		var tx, rx uint64
		var field string
		var err error
		if f[0] == "ccfg" {
			hy := &client.Config{ServerAddr: &net.UDPAddr{IP: net.IPv4(127, 0, 0, 1), Port: 1}}
			field, err = cmd.VerifC10ClientBandwidth(up, down, hy)
			if err == nil {
				err = hy.VerifC10VerifyAndFill()
				var ce coreErrs.ConfigError
				if errors.As(err, &ce) {
					field = ce.Field
				}
			}
			tx, rx = hy.BandwidthConfig.MaxTx, hy.BandwidthConfig.MaxRx
		} else {
			hy := &server.Config{
				TLSConfig:     server.TLSConfig{GetCertificate: func(*tls.ClientHelloInfo) (*tls.Certificate, error) { return nil, errors.New("unused") }},
				Conn:          c10DummyConn{},
				Authenticator: c10DummyAuth{},
			}
			field, err = cmd.VerifC10ServerBandwidth(up, down, hy)
			if err == nil {
				err = hy.VerifC10Fill()
				var ce coreErrs.ConfigError
				if errors.As(err, &ce) {
					field = ce.Field
				}
			}
			tx, rx = hy.BandwidthConfig.MaxTx, hy.BandwidthConfig.MaxRx
		}
		if err != nil {
			if field == "" {
				field = "?:" + strings.ReplaceAll(err.Error(), " ", "_")
			}
			return vh.Result{Out: f[0] + " err " + field}
		}
		res := vh.Result{Out: fmt.Sprintf("%s ok %d %d", f[0], tx, rx), NonTrivial: tx != 0 || rx != 0}
		// the limits that enter the core are exactly the parsed configuration
		for _, p := range []struct {
			name string
			s    string
			got  uint64
		}{{"up", up, tx}, {"down", down, rx}} {
			if p.s == "" {
				if p.got != 0 {
					res.Oracle = append(res.Oracle, fmt.Sprintf("bandwidth.%s is absent but the core limit is %d", p.name, p.got))
				}
				continue
			}
			if want, exact, fits, ok := c10Reading(p.s); ok && fits && c10IsASCII(p.s) && want != p.got {
				res.Oracle = append(res.Oracle, fmt.Sprintf("bandwidth.%s %q means %s bit/s = %d B/s (uint64 product / 8) but the core limit is %d", p.name, p.s, exact, want, p.got))
			}
			if f[0] == "acfg" && p.got != 0 && p.got < 65536 {
				res.Oracle = append(res.Oracle, fmt.Sprintf("server accepted bandwidth.%s %q = %d B/s, below the 65536 floor", p.name, p.s, p.got))
			}
		}
		return res
	}
	return bad
}

func c10h(s string) string { return vh.Hex([]byte(s)) }

// numbers worth visiting: 0, the bit/byte rounding edge, the 65536 floor in every unit,
// each unit's overflow edge floor((2^64-1)/factor) +-1, 2^64 +-1, the product = 0 mod 2^64 case
func c10Numbers() []string {
	out := []string{"0", "1", "7", "8", "9", "15", "16", "100", "524279", "524280", "524287", "524288", "524289", "524296",
		"65535", "65536", "65537", "524", "525", "1000000", "00100", "0000000000000000000000008",
		"18446744073709551615", "18446744073709551616", "18446744073709551614", "99999999999999999999", "4503599627370496", "9007199254740992",
		"9223372036854775807", "9223372036854775808", "2305843009213693952"}
	max := new(big.Int).SetUint64(1<<64 - 1)
	for _, f := range []int64{1e3, 1e6, 1e9, 1e12} {
		q := new(big.Int).Div(max, big.NewInt(f))
		for d := int64(-1); d <= 2; d++ {
			out = append(out, new(big.Int).Add(q, big.NewInt(d)).String())
		}
		// 65536 B/s = 524288 bit/s in this unit (when it divides) and neighbours
		out = append(out, strconv.FormatInt(524288/f, 10), strconv.FormatInt(524288/f+1, 10))
	}
	return out
}

var c10Spellings = []string{"b", "bps", "k", "kb", "kbps", "m", "mb", "mbps", "g", "gb", "gbps", "t", "tb", "tbps",
	"B", "Bps", "BPS", "K", "Kb", "KB", "Kbps", "KBps", "kBps", "M", "Mb", "MB", "Mbps", "MBps", "mBPS", "G", "Gbps", "GBps", "T", "Tbps", "TBPS",
	"\u212a", "\u212abps", "m\u0130", "bit", "bits", "byte", "kbit", "kib", "kibps", "mbit", "mbp", "mbpss", "mbp s", "m b", "p", "ps", "bp", "kk", "mm",
	"mbps/s", "mb/s", "mbit/s", "e", "x", "kbps1", "%", ".", "k.", "\u00b5", "\u043c", "\uff4d", "\uff4dbps"}

var c10Pads = []string{"", " ", "  ", "\t", "\n", "\r\n", "\v\f", "\u00a0", "\u0085", "\u3000", "\u2003", "\u200b", "\ufeff", "\x00", "\xff", "\xc2", "_"}

func c10RandBps(r *vh.RNG) string {
	nums := c10Numbers()
	pick := func(xs []string) string { return xs[r.Intn(len(xs))] }
	n := pick(nums)
	if r.Chance(1, 3) {
		n = strconv.FormatUint(r.U64()>>uint(r.Intn(64)), 10)
	}
	switch r.Intn(12) {
	case 0: // garbage around a number
		g := []string{"-" + n + "mbps", "+" + n + "mbps", n + ".5 mbps", n + "e3 mbps", n + " " + n + " gbps", n, n + " ", "mbps", " ", "mbps " + n,
			"0x" + n + " mbps", n + "_000 mbps", n + ",000 mbps", "\uff11\uff10\uff10 mbps", "\u0661\u0660\u0660 mbps", n + "mbps\x00", "\x00" + n + "mbps", n + "\xffmbps"}
		return pick(g)
	case 1:
		return string(r.Bytes(r.Range(0, 8)))
	case 2: // random ASCII
		b := make([]byte, r.Range(1, 10))
		cs := "0123456789 bkmgtpsBKMGTPS\t.-+"
		for i := range b {
			b[i] = cs[r.Intn(len(cs))]
		}
		return string(b)
	default:
		return pick(c10Pads) + n + pick(c10Pads) + pick(c10Spellings) + pick(c10Pads)
	}
}

func (c *rateCfg) Gen(r *vh.RNG, n int, emit func(op string, tags ...string)) {
	// every number x every accepted unit, tight and with one blank
	for _, num := range c10Numbers() {
		for _, u := range c10Units {
			emit("bps "+c10h(num+u), "num-unit")
			emit("bps "+c10h(num+" "+strings.ToUpper(u)), "num-unit")
		}
	}
	// every spelling and every padding
	for _, u := range c10Spellings {
		emit("bps "+c10h("100"+u), "spelling")
		emit("bps "+c10h("100 "+u), "spelling")
	}
	for _, p := range c10Pads {
		emit("bps "+c10h(p+"100mbps"), "pad")
		emit("bps "+c10h("100"+p+"mbps"), "pad")
		emit("bps "+c10h("100mbps"+p), "pad")
		emit("bps "+c10h("1"+p+"00mbps"), "pad")
		emit("bps "+c10h("100m"+p+"bps"), "pad")
	}
	for _, g := range []string{"", " ", "100", "mbps", "5.4 mbps", "1234 5678 gbps", "damn", "6444", "-1 mbps", "+1 mbps", "1e3 mbps", "0x10 mbps",
		"1_000 mbps", "\uff11\uff10\uff10 mbps", "\u0661\u0660\u0660 mbps", "100 mbps 1", "100 mbps mbps", "100mbps\x00"} {
		emit("bps "+c10h(g), "garbage")
	}
	for _, i := range []string{"0", "1", "65535", "65536", "-1", "-65536", "9223372036854775807", "-9223372036854775808", "12500000"} {
		emit("convint "+i, "convint")
	}
	// config pairs: absent / blank / invalid / below, at and above the floor / overflow
	cfgVals := []string{"", " ", "0 mbps", "1 bps", "7 bps", "8 bps", "524280 bps", "524287 bps", "524288 bps", "524289 bps", "524 kbps", "525 kbps",
		"1 mbps", "100 mbps", "1g", "10 MBps", "65536", "100", "mbps", "18446744073709551615 bps", "18446744073709551616 bps",
		"18446744073709551 kbps", "18446744073709552 kbps", "4503599627370496 tbps", "20000000 tbps", "100 Mbps ", "\t1 gbps", "1 \u212abps"}
	for _, u := range cfgVals {
		for _, d := range []string{"", "100 mbps", "524287 bps", "bad"} {
			emit("ccfg "+c10h(u)+" "+c10h(d), "ccfg")
			emit("acfg "+c10h(u)+" "+c10h(d), "acfg")
			emit("ccfg "+c10h(d)+" "+c10h(u), "ccfg")
			emit("acfg "+c10h(d)+" "+c10h(u), "acfg")
		}
	}
	for i := 0; i < n; i++ {
		switch r.Intn(8) {
		case 0:
			emit("ccfg "+c10h(c10RandBps(r))+" "+c10h(c10RandBps(r)), "ccfg-rand")
		case 1:
			emit("acfg "+c10h(c10RandBps(r))+" "+c10h(c10RandBps(r)), "acfg-rand")
		case 2:
			emit("acfg "+c10h(cfgVals[r.Intn(len(cfgVals))])+" "+c10h(cfgVals[r.Intn(len(cfgVals))]), "acfg-rand")
		default:
			emit("bps "+c10h(c10RandBps(r)), "rand")
		}
	}
}
