//go:build verif

// verif-app: correspondence harness for module app (overlaid at /repo/app/verifh).
// Components register themselves from their own files (vh.Register / vh.RegisterConsts in init).
package main

import "github.com/apernet/hysteria/core/v2/verifhlib"

func main() { verifhlib.Main() }
