//go:build verif

package main

// C16, application side: the configuration function handed to client.NewReconnectableClient
// ((*clientConfig).Config of app/cmd/client.go) must RE-EVALUATE the server address — plain and
// port-hopping form — on every call, not capture a resolved value: after a connection loss the
// reconnecting client asks it again precisely to pick up a changed address.
//
//	cfgeval plain a1 a2 …   server "c16.verif.test:4433";       before the k-th evaluation the fake
//	cfgeval hop   a1 a2 …   server "c16.verif.test:20000-20009"  DNS server starts answering 127.0.0.<ak>
//	→ cfgeval b1 b2 …       the last octet of the ServerAddr each evaluation returned
//
// Model side (`hydrv reconnect`): a fresh evaluation sees the current answer (bk = ak).
// Oracle: a new *client.Config and a new ConnFactory per evaluation; the hop address carries the
// configured port list. Name resolution goes through net.DefaultResolver, which this component
// points at an in-process DNS server (PreferGo + Dial).

import (
	"context"
	"fmt"
	"go/ast"
	"go/parser"
	"go/token"
	"net"
	"path/filepath"
	"reflect"
	"runtime"
	"strconv"
	"strings"
	"sync"
	"sync/atomic"

	"github.com/apernet/hysteria/app/v2/cmd"
	vh "github.com/apernet/hysteria/core/v2/verifhlib"
	"github.com/apernet/hysteria/extras/v2/transport/udphop"
)

func init() {
	vh.Register("c16cfg", func() vh.Component { return &c16Cfg{} })
	vh.RegisterConsts(c16AppShapeFacts)
}

// ------------------------------------------------------------------ structural facts (go/ast)

func c16AppShapeFacts() map[string]any {
	out := map[string]any{
		"c16_app_parsed":                        0,
		"c16_app_configfunc_is_method_value":    0,
		"c16_app_config_allocates_fresh":        0,
		"c16_app_fillServerAddr_resolves":       0,
		"c16_app_fillServerAddr_stores_nothing": 0,
	}
	fn := runtime.FuncForPC(reflect.ValueOf(cmd.Execute).Pointer())
	if fn == nil {
		return out
	}
	file, _ := fn.FileLine(fn.Entry())
	fset := token.NewFileSet()
	f, err := parser.ParseFile(fset, filepath.Join(filepath.Dir(file), "client.go"), nil, 0)
	if err != nil {
		return out
	}
	out["c16_app_parsed"] = 1
	selIs := func(e ast.Expr, x, sel string) bool {
		s, ok := e.(*ast.SelectorExpr)
		if !ok || s.Sel.Name != sel {
			return false
		}
		id, ok := s.X.(*ast.Ident)
		return ok && id.Name == x
	}
	for _, d := range f.Decls {
		fd, ok := d.(*ast.FuncDecl)
		if !ok || fd.Body == nil {
			continue
		}
		recv := ""
		if fd.Recv != nil && len(fd.Recv.List) == 1 && len(fd.Recv.List[0].Names) == 1 {
			if st, ok := fd.Recv.List[0].Type.(*ast.StarExpr); ok {
				if id, ok := st.X.(*ast.Ident); ok && id.Name == "clientConfig" {
					recv = fd.Recv.List[0].Names[0].Name
				}
			}
		}
		switch {
		case fd.Recv == nil && fd.Name.Name == "runClient":
			// var config clientConfig … client.NewReconnectableClient(config.Config, …)
			declared := false
			calls, good := 0, 0
			ast.Inspect(fd.Body, func(n ast.Node) bool {
				switch x := n.(type) {
				case *ast.ValueSpec:
					if id, ok := x.Type.(*ast.Ident); ok && id.Name == "clientConfig" && len(x.Names) == 1 && x.Names[0].Name == "config" {
						declared = true
					}
				case *ast.CallExpr:
					if selIs(x.Fun, "client", "NewReconnectableClient") && len(x.Args) == 3 {
						calls++
						if selIs(x.Args[0], "config", "Config") {
							good++
						}
					}
				}
				return true
			})
			if declared && calls == 1 && good == 1 {
				out["c16_app_configfunc_is_method_value"] = 1
			}
		case recv != "" && fd.Name.Name == "Config":
			fresh, filler, returned := false, false, false
			ast.Inspect(fd.Body, func(n ast.Node) bool {
				switch x := n.(type) {
				case *ast.AssignStmt:
					if len(x.Lhs) == 1 && len(x.Rhs) == 1 && x.Tok == token.DEFINE {
						if id, ok := x.Lhs[0].(*ast.Ident); ok && id.Name == "hyConfig" {
							if u, ok := x.Rhs[0].(*ast.UnaryExpr); ok && u.Op == token.AND {
								if cl, ok := u.X.(*ast.CompositeLit); ok && selIs(cl.Type, "client", "Config") && len(cl.Elts) == 0 {
									fresh = true
								}
							}
						}
					}
				case *ast.SelectorExpr:
					if selIs(x, recv, "fillServerAddr") {
						filler = true
					}
				case *ast.ReturnStmt:
					if len(x.Results) == 2 {
						if id, ok := x.Results[0].(*ast.Ident); ok && id.Name == "hyConfig" {
							returned = true
						}
					}
				}
				return true
			})
			if fresh && filler && returned {
				out["c16_app_config_allocates_fresh"] = 1
			}
		case recv != "" && fd.Name.Name == "fillServerAddr":
			plain, hop, assigns, stores := false, false, false, false
			ast.Inspect(fd.Body, func(n ast.Node) bool {
				switch x := n.(type) {
				case *ast.CallExpr:
					if selIs(x.Fun, "net", "ResolveUDPAddr") {
						plain = true
					}
					if selIs(x.Fun, "udphop", "ResolveUDPHopAddr") {
						hop = true
					}
				case *ast.AssignStmt:
					for i, l := range x.Lhs {
						if selIs(l, "hyConfig", "ServerAddr") && i < len(x.Rhs) {
							if id, ok := x.Rhs[i].(*ast.Ident); ok && id.Name == "addr" {
								assigns = true
							}
						}
						// anything stored on the receiver (or below it) would be a place to keep a resolved value
						e := l
						for {
							if s, ok := e.(*ast.SelectorExpr); ok {
								e = s.X
								continue
							}
							break
						}
						if id, ok := e.(*ast.Ident); ok && id.Name == recv {
							stores = true
						}
					}
				}
				return true
			})
			if plain && hop && assigns {
				out["c16_app_fillServerAddr_resolves"] = 1
			}
			if !stores {
				out["c16_app_fillServerAddr_stores_nothing"] = 1
			}
		}
	}
	return out
}

// ------------------------------------------------------------------ fake DNS

type c16DNS struct {
	pc      net.PacketConn
	octet   atomic.Int32 // answers 127.0.0.<octet> to every A query
	queries atomic.Int64
}

func newC16DNS() *c16DNS {
	pc, err := net.ListenPacket("udp", "127.0.0.1:0")
	if err != nil {
		panic(err)
	}
	d := &c16DNS{pc: pc}
	d.octet.Store(1)
	go d.serve()
	return d
}

func (d *c16DNS) serve() {
	buf := make([]byte, 1500)
	for {
		n, from, err := d.pc.ReadFrom(buf)
		if err != nil {
			return
		}
		q := buf[:n]
		if n < 12 {
			continue
		}
		// walk the question name
		i := 12
		for i < n && q[i] != 0 {
			i += int(q[i]) + 1
		}
		if i+5 > n {
			continue
		}
		qend := i + 5
		qtype := int(q[i+1])<<8 | int(q[i+2])
		d.queries.Add(1)
		resp := make([]byte, 0, 64)
		resp = append(resp, q[0], q[1], 0x81, 0x80, 0, 1, 0, 0, 0, 0, 0, 0)
		resp = append(resp, q[12:qend]...)
		if qtype == 1 { // A
			resp[7] = 1
			resp = append(resp, 0xc0, 0x0c, 0, 1, 0, 1, 0, 0, 0, 0, 0, 4, 127, 0, 0, byte(d.octet.Load()))
		}
		_, _ = d.pc.WriteTo(resp, from)
	}
}

// ------------------------------------------------------------------ component

type c16Cfg struct {
	once sync.Once
	dns  *c16DNS
}

func (c *c16Cfg) setup() {
	c.once.Do(func() {
		c.dns = newC16DNS()
		addr := c.dns.pc.LocalAddr().String()
		net.DefaultResolver = &net.Resolver{
			PreferGo: true,
			Dial: func(ctx context.Context, network, _ string) (net.Conn, error) {
				var dl net.Dialer
				return dl.DialContext(ctx, "udp", addr)
			},
		}
	})
}

func (c *c16Cfg) Run(op string) vh.Result {
	f := strings.Fields(op)
	if len(f) < 3 || f[0] != "cfgeval" || (f[1] != "plain" && f[1] != "hop") {
		return vh.Result{Out: "bad-op"}
	}
	c.setup()
	server := "c16.verif.test:4433"
	if f[1] == "hop" {
		server = "c16.verif.test:20000-20009"
	}
	v := cmd.VerifC16NewConfig(server, "verif")
	out := []string{"cfgeval"}
	var orc []string
	seenCfg := map[uintptr]bool{}
	var keepAlive []any
	seenFac := map[uintptr]bool{}
	for k, a := range f[2:] {
		n, err := strconv.Atoi(a)
		if err != nil || n < 1 || n > 254 {
			return vh.Result{Out: "bad-op"}
		}
		c.dns.octet.Store(int32(n))
		q0 := c.dns.queries.Load()
		cfg, err := v.Eval()
		if err != nil {
			out = append(out, "err")
			orc = append(orc, fmt.Sprintf("evaluation %d of the configuration function failed: %v", k+1, err))
			continue
		}
		var ip net.IP
		switch sa := cfg.ServerAddr.(type) {
		case *net.UDPAddr:
			ip = sa.IP
			if f[1] != "plain" || sa.Port != 4433 {
				orc = append(orc, fmt.Sprintf("evaluation %d: server address %v, want a plain address with port 4433", k+1, sa))
			}
		case *udphop.UDPHopAddr:
			ip = sa.IP
			if f[1] != "hop" || len(sa.Ports) != 10 || sa.Ports[0] != 20000 || sa.Ports[9] != 20009 {
				orc = append(orc, fmt.Sprintf("evaluation %d: hop address %v ports %v, want 20000-20009", k+1, sa, sa.Ports))
			}
		default:
			orc = append(orc, fmt.Sprintf("evaluation %d: server address of type %T", k+1, cfg.ServerAddr))
		}
		last := "?"
		if v4 := ip.To4(); v4 != nil {
			last = strconv.Itoa(int(v4[3]))
		}
		out = append(out, last)
		if last != a {
			orc = append(orc, fmt.Sprintf("evaluation %d returned server address %v although the name now resolves to 127.0.0.%s: the configuration function kept an earlier resolution", k+1, ip, a))
		}
		if c.dns.queries.Load() == q0 {
			orc = append(orc, fmt.Sprintf("evaluation %d did not ask the resolver", k+1))
		}
		// keep every evaluated config (and with it its ConnFactory) alive until the op ends: the
		// identity checks below compare addresses, and the address of a collected object may be reused
		keepAlive = append(keepAlive, cfg)
		cp := reflect.ValueOf(cfg).Pointer()
		if seenCfg[cp] {
			orc = append(orc, fmt.Sprintf("evaluation %d returned the same *client.Config as an earlier one", k+1))
		}
		seenCfg[cp] = true
		if cfg.ConnFactory == nil {
			orc = append(orc, fmt.Sprintf("evaluation %d: no ConnFactory", k+1))
		} else {
			fp := reflect.ValueOf(cfg.ConnFactory).Pointer()
			if seenFac[fp] {
				orc = append(orc, fmt.Sprintf("evaluation %d reuses the (single-use) ConnFactory of an earlier one", k+1))
			}
			seenFac[fp] = true
		}
	}
	runtime.KeepAlive(keepAlive)
	return vh.Result{Out: strings.Join(out, " "), NonTrivial: len(f) > 3, Oracle: orc}
}

func (c *c16Cfg) Gen(r *vh.RNG, n int, emit func(op string, tags ...string)) {
	for i := 0; i < n; i++ {
		kind := "plain"
		if i%2 == 1 {
			kind = "hop"
		}
		k := r.Range(2, 6)
		as := make([]string, k)
		for j := range as {
			as[j] = strconv.Itoa(r.Range(1, 254))
			if j > 0 && r.Chance(1, 4) {
				as[j] = as[j-1] // unchanged between two evaluations
			}
		}
		emit("cfgeval "+kind+" "+strings.Join(as, " "), kind)
	}
}
