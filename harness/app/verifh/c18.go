//go:build verif

package main

// C18 — local SOCKS5/HTTP inbounds gate on credentials and relay bytes intact.
//
// Components (module app):
//   c18socks  the REAL socks5.Server.dispatch on a net.Pipe whose client end writes the op's
//             chunks one Write per chunk (an empty chunk is a zero-length Write = a (0,nil) read)
//   c18http   the REAL http.Server.dispatch likewise; http.ReadRequest is an oracle of the model,
//             its results are obtained by running net/http on an identically chunked replica
//   c18xform  the REAL cachedConn / connWithOneByte on a net.Pipe under scripted read sizes
//
// Everything observable goes through one event log in program order: conn.Write, AuthFunc
// calls with their arguments and verdict, HyClient.TCP(addr), HyClient.UDP(), conn.Close;
// plus what the mock upstream conn received.

import (
	"bufio"
	"bytes"
	"encoding/base64"
	"fmt"
	"io"
	"net"
	nethttp "net/http"
	"regexp"
	"strconv"
	"strings"
	"sync"
	"time"

	hyhttp "github.com/apernet/hysteria/app/v2/internal/http"
	"github.com/apernet/hysteria/app/v2/internal/proxymux"
	hysocks "github.com/apernet/hysteria/app/v2/internal/socks5"
	"github.com/apernet/hysteria/core/v2/client"
	vh "github.com/apernet/hysteria/core/v2/verifhlib"
	txsocks "github.com/txthinking/socks5"
	"golang.org/x/net/idna"
)

func init() {
	// constants of github.com/txthinking/socks5 as compiled into the module: the Lean model
	// states them literally and Hy.Props.C18 proves they agree with these regenerated values
	vh.RegisterConsts(func() map[string]any {
		return map[string]any{
			"c18_socks_Ver": int(txsocks.Ver), "c18_socks_MethodNone": int(txsocks.MethodNone),
			"c18_socks_MethodUsernamePassword": int(txsocks.MethodUsernamePassword),
			"c18_socks_MethodUnsupportAll":     int(txsocks.MethodUnsupportAll),
			"c18_socks_UserPassVer":            int(txsocks.UserPassVer),
			"c18_socks_UserPassStatusSuccess":  int(txsocks.UserPassStatusSuccess),
			"c18_socks_UserPassStatusFailure":  int(txsocks.UserPassStatusFailure),
			"c18_socks_CmdConnect":             int(txsocks.CmdConnect), "c18_socks_CmdUDP": int(txsocks.CmdUDP),
			"c18_socks_ATYPIPv4": int(txsocks.ATYPIPv4), "c18_socks_ATYPDomain": int(txsocks.ATYPDomain),
			"c18_socks_ATYPIPv6": int(txsocks.ATYPIPv6), "c18_socks_RepSuccess": int(txsocks.RepSuccess),
			"c18_socks_RepServerFailure":       int(txsocks.RepServerFailure),
			"c18_socks_RepHostUnreachable":     int(txsocks.RepHostUnreachable),
			"c18_socks_RepCommandNotSupported": int(txsocks.RepCommandNotSupported),
		}
	})
	vh.Register("c18socks", func() vh.Component { return &c18Socks{} })
	vh.Register("c18http", func() vh.Component { return &c18HTTP{} })
	vh.Register("c18xform", func() vh.Component { return &c18Xform{} })
}

const c18Timeout = 15 * time.Second // > httpClientTimeout of server.go

// ---------------------------------------------------------------- event log

type c18EvKind int

const (
	c18Write c18EvKind = iota
	c18Auth
	c18TCP
	c18UDPEv
	c18Close
)

type c18Ev struct {
	kind c18EvKind
	data []byte // write: bytes; TCP: addr
	u, p string
	ok   bool
	up   *c18UpConn
}

type c18Log struct {
	mu  sync.Mutex
	evs []c18Ev
}

func (l *c18Log) add(e c18Ev) {
	l.mu.Lock()
	l.evs = append(l.evs, e)
	l.mu.Unlock()
}

func (l *c18Log) snapshot() []c18Ev {
	l.mu.Lock()
	defer l.mu.Unlock()
	return append([]c18Ev(nil), l.evs...)
}

// ---------------------------------------------------------------- mock upstream conn

// c18UpConn is what HyClient.TCP returns: it records what the proxy writes to the
// upstream. If those bytes are a body-less GET request (the plain-HTTP path through
// net/http's Transport) it answers 200 with Connection: close; otherwise Read blocks
// until Close, so the client→upstream copy runs until the local client's EOF.
type c18UpConn struct {
	mu      sync.Mutex
	cond    *sync.Cond
	got     []byte
	resp    []byte
	isHTTP  bool
	closed  bool
	respEOF bool
}

func newC18UpConn() *c18UpConn {
	c := &c18UpConn{}
	c.cond = sync.NewCond(&c.mu)
	return c
}

func (c *c18UpConn) Write(p []byte) (int, error) {
	c.mu.Lock()
	defer c.mu.Unlock()
	if c.closed {
		return 0, io.ErrClosedPipe
	}
	c.got = append(c.got, p...)
	if i := bytes.Index(c.got, []byte("\r\n")); !c.isHTTP && i >= 0 && bytes.HasSuffix(c.got[:i], []byte(" HTTP/1.1")) &&
		bytes.Contains(c.got, []byte("\r\n\r\n")) {
		c.isHTTP = true
		c.resp = []byte("HTTP/1.1 200 OK\r\nContent-Length: 2\r\nConnection: close\r\n\r\nok")
		c.cond.Broadcast()
	}
	return len(p), nil
}

func (c *c18UpConn) Read(p []byte) (int, error) {
	c.mu.Lock()
	defer c.mu.Unlock()
	for !c.closed && len(c.resp) == 0 && !c.respEOF {
		c.cond.Wait()
	}
	if len(c.resp) > 0 {
		n := copy(p, c.resp)
		c.resp = c.resp[n:]
		if len(c.resp) == 0 {
			c.respEOF = true
		}
		return n, nil
	}
	if c.respEOF && !c.closed {
		return 0, io.EOF
	}
	return 0, io.ErrClosedPipe
}

func (c *c18UpConn) Close() error {
	c.mu.Lock()
	c.closed = true
	c.cond.Broadcast()
	c.mu.Unlock()
	return nil
}

func (c *c18UpConn) received() ([]byte, bool) {
	c.mu.Lock()
	defer c.mu.Unlock()
	return append([]byte(nil), c.got...), c.isHTTP
}

func (c *c18UpConn) LocalAddr() net.Addr                { return &net.TCPAddr{IP: net.IPv4(10, 0, 0, 1), Port: 1} }
func (c *c18UpConn) RemoteAddr() net.Addr               { return &net.TCPAddr{IP: net.IPv4(10, 0, 0, 2), Port: 2} }
func (c *c18UpConn) SetDeadline(t time.Time) error      { return nil }
func (c *c18UpConn) SetReadDeadline(t time.Time) error  { return nil }
func (c *c18UpConn) SetWriteDeadline(t time.Time) error { return nil }

// ---------------------------------------------------------------- mock client.Client

type c18UDP struct {
	once sync.Once
	ch   chan struct{}
}

func (u *c18UDP) Receive() ([]byte, string, error) { <-u.ch; return nil, "", io.ErrClosedPipe }
func (u *c18UDP) Send([]byte, string) error        { return nil }
func (u *c18UDP) Close() error                     { u.once.Do(func() { close(u.ch) }); return nil }

type c18Client struct {
	log    *c18Log
	dialOk bool
	udpOk  bool
}

func (c *c18Client) TCP(addr string) (net.Conn, error) {
	if !c.dialOk {
		c.log.add(c18Ev{kind: c18TCP, data: []byte(addr)})
		return nil, fmt.Errorf("verif: dial refused")
	}
	up := newC18UpConn()
	c.log.add(c18Ev{kind: c18TCP, data: []byte(addr), up: up})
	return up, nil
}

func (c *c18Client) UDP() (client.HyUDPConn, error) {
	c.log.add(c18Ev{kind: c18UDPEv})
	if !c.udpOk {
		return nil, fmt.Errorf("verif: udp refused")
	}
	return &c18UDP{ch: make(chan struct{})}, nil
}

func (c *c18Client) Close() error { return nil }

// ---------------------------------------------------------------- server-side conn wrapper

// c18SrvConn wraps the server end of the pipe: logs Write and Close in program order,
// gives the conn a host:port local address (handleUDP needs one), and signals `quiet`
// when the server enters a Read after every client byte has been delivered, i.e. when
// it has finished reacting to the whole client stream.
type c18SrvConn struct {
	net.Conn
	log       *c18Log
	mu        sync.Mutex
	delivered int
	total     int
	quiet     chan struct{}
	quietOnce sync.Once
	closedCh  chan struct{}
	closeOnce sync.Once
}

func (c *c18SrvConn) Read(p []byte) (int, error) {
	c.mu.Lock()
	if c.delivered >= c.total {
		c.quietOnce.Do(func() { close(c.quiet) })
	}
	c.mu.Unlock()
	n, err := c.Conn.Read(p)
	c.mu.Lock()
	c.delivered += n
	c.mu.Unlock()
	return n, err
}

func (c *c18SrvConn) Write(p []byte) (int, error) {
	c.log.add(c18Ev{kind: c18Write, data: append([]byte(nil), p...)})
	return c.Conn.Write(p)
}

func (c *c18SrvConn) Close() error {
	c.closeOnce.Do(func() {
		c.log.add(c18Ev{kind: c18Close})
		close(c.closedCh)
	})
	return c.Conn.Close()
}

func (c *c18SrvConn) LocalAddr() net.Addr {
	return &net.TCPAddr{IP: net.IPv4(127, 0, 0, 1), Port: 1080}
}
func (c *c18SrvConn) RemoteAddr() net.Addr {
	return &net.TCPAddr{IP: net.IPv4(127, 0, 0, 1), Port: 40000}
}

type c18Run struct {
	evs      []c18Ev
	hang     string
	panicMsg string
}

// c18Drive runs serve(conn) against a client that writes `chunks` (one Write each),
// waits until the server has reacted to everything, closes the client end and waits
// for the handler to return.
func c18Drive(log *c18Log, chunks [][]byte, serve func(net.Conn)) c18Run {
	cEnd, sEnd := net.Pipe()
	total := 0
	for _, c := range chunks {
		total += len(c)
	}
	sc := &c18SrvConn{Conn: sEnd, log: log, total: total, quiet: make(chan struct{}), closedCh: make(chan struct{})}
	done := make(chan struct{})
	var res c18Run
	go func() {
		defer close(done)
		defer func() {
			if r := recover(); r != nil {
				res.panicMsg = strings.ReplaceAll(fmt.Sprint(r), "\n", " ")
			}
		}()
		serve(sc)
	}()
	go func() { _, _ = io.Copy(io.Discard, cEnd) }() // the client reads every reply
	for _, c := range chunks {
		_ = cEnd.SetWriteDeadline(time.Now().Add(c18Timeout))
		if _, err := cEnd.Write(c); err != nil {
			if ne, ok := err.(net.Error); ok && ne.Timeout() {
				res.hang = "server stopped reading the client stream without closing"
			}
			break
		}
	}
	t := time.NewTimer(c18Timeout)
	select {
	case <-sc.quiet:
	case <-sc.closedCh:
	case <-done:
	case <-t.C:
		res.hang = "server neither reads nor closes after the whole client stream"
	}
	t.Stop()
	_ = cEnd.Close()
	t = time.NewTimer(c18Timeout)
	select {
	case <-done:
	case <-t.C:
		res.hang = "handler did not return after the client closed"
	}
	t.Stop()
	res.evs = log.snapshot()
	return res
}

// ---------------------------------------------------------------- op parsing

func c18KV(op string) (string, map[string]string) {
	f := strings.Fields(op)
	m := map[string]string{}
	for _, x := range f[1:] {
		if i := strings.IndexByte(x, '='); i > 0 {
			m[x[:i]] = x[i+1:]
		}
	}
	return f[0], m
}

func c18Flat(chunks [][]byte) []byte {
	var b []byte
	for _, c := range chunks {
		b = append(b, c...)
	}
	return b
}

func c18Ints(s string) []int {
	if s == "." || s == "" {
		return nil
	}
	var out []int
	for _, f := range strings.Split(s, ".") {
		n, _ := strconv.Atoi(f)
		out = append(out, n)
	}
	return out
}

func c18IntsStr(ns []int) string {
	if len(ns) == 0 {
		return "."
	}
	ss := make([]string, len(ns))
	for i, n := range ns {
		ss[i] = strconv.Itoa(n)
	}
	return strings.Join(ss, ".")
}

// c18Class is the first word of an outcome line: did the handler open anything upstream?
func c18Class(toks []string) string {
	for _, t := range toks {
		if t == "panic" || t == "hang" {
			return t + " "
		}
	}
	for _, t := range toks {
		if t == "U" || strings.HasPrefix(t, "T:") {
			return "upstream "
		}
	}
	return "refused "
}

func c18B(b bool) string {
	if b {
		return "1"
	}
	return "0"
}

// ---------------------------------------------------------------- c18socks

type c18Socks struct{}

func (c *c18Socks) Run(op string) vh.Result {
	name, kv := c18KV(op)
	if name != "socks" {
		return vh.Result{Out: "bad-op"}
	}
	authSet := kv["auth"] == "1"
	user, pass := string(vh.UnHex(kv["user"])), string(vh.UnHex(kv["pass"]))
	chunks := vh.ParseChunks(kv["chunks"])
	tail, _ := strconv.Atoi(kv["tail"])
	log := &c18Log{}
	srv := &hysocks.Server{
		HyClient:   &c18Client{log: log, dialOk: kv["dial"] == "1", udpOk: kv["udp"] == "1"},
		DisableUDP: kv["noudp"] == "1",
	}
	if authSet {
		srv.AuthFunc = func(u, p string) bool {
			ok := u == user && p == pass
			log.add(c18Ev{kind: c18Auth, u: u, p: p, ok: ok})
			return ok
		}
	}
	run := c18Drive(log, chunks, func(conn net.Conn) { hysocks.VerifDispatch(srv, conn) })

	var toks []string
	var oracle []string
	stream := c18Flat(chunks)
	authed := false
	closed := false
	var up *c18UpConn
	udpOK := false
	for i, e := range run.evs {
		switch e.kind {
		case c18Write:
			if udpOK && len(e.data) == 10 && bytes.HasPrefix(e.data, []byte{5, 0, 0, 1, 127, 0, 0, 1}) {
				toks = append(toks, "UR")
			} else {
				toks = append(toks, "W:"+vh.Hex(e.data))
			}
		case c18Auth:
			toks = append(toks, "A:"+vh.Hex([]byte(e.u))+":"+vh.Hex([]byte(e.p))+":"+c18B(e.ok))
			if e.ok {
				authed = true
				// the accepted credentials must be bytes of THIS client's stream (RFC 1929 framing)
				want := append([]byte{byte(len(e.u))}, e.u...)
				want = append(want, byte(len(e.p)))
				want = append(want, e.p...)
				if !bytes.Contains(stream, want) {
					oracle = append(oracle, "AuthFunc accepted credentials that the client did not send")
				}
			}
		case c18TCP, c18UDPEv:
			if e.kind == c18TCP {
				toks = append(toks, "T:"+vh.Hex(e.data))
				up = e.up
			} else {
				toks = append(toks, "U")
				udpOK = kv["udp"] == "1"
			}
			if authSet && !authed {
				oracle = append(oracle, fmt.Sprintf("gate: upstream opened (event %d) before AuthFunc accepted credentials from this connection", i))
			}
		case c18Close:
			closed = true
		}
	}
	nontriv := false
	if up != nil {
		got, _ := up.received()
		toks = append(toks, "UP:"+vh.Hex(got))
		nontriv = true
		if tail >= 0 && tail <= len(stream) && !bytes.Equal(got, stream[len(stream)-tail:]) {
			oracle = append(oracle, fmt.Sprintf("relay: upstream received %s, client pipelined %s behind the request", vh.Hex(got), vh.Hex(stream[len(stream)-tail:])))
		}
	} else if udpOK {
		toks = append(toks, "H")
		nontriv = true
	}
	if closed {
		toks = append(toks, "X")
	} else {
		oracle = append(oracle, "connection not closed when the handler returned")
	}
	if run.hang != "" {
		toks = append(toks, "hang")
		oracle = append(oracle, run.hang)
	}
	if run.panicMsg != "" {
		toks = []string{"panic"}
		oracle = append(oracle, "panic in socks5 dispatch: "+run.panicMsg)
	}
	if len(run.evs) > 1 {
		nontriv = true
	}
	return vh.Result{Out: c18Class(toks) + strings.Join(toks, " "), NonTrivial: nontriv, Oracle: oracle}
}

type c18SocksMsg struct {
	methods []byte
	nmeth   int // -1 = len(methods)
	ver     byte
	doAuth  bool
	aver    byte
	u, p    []byte
	rver    byte
	cmd     byte
	atyp    byte
	addr    []byte
	port    []byte
	payload []byte
}

func (m *c18SocksMsg) bytes() (b []byte) {
	n := m.nmeth
	if n < 0 {
		n = len(m.methods)
	}
	b = append(b, m.ver, byte(n))
	b = append(b, m.methods...)
	if m.doAuth {
		b = append(b, m.aver, byte(len(m.u)))
		b = append(b, m.u...)
		b = append(b, byte(len(m.p)))
		b = append(b, m.p...)
	}
	b = append(b, m.rver, m.cmd, 0, m.atyp)
	b = append(b, m.addr...)
	b = append(b, m.port...)
	b = append(b, m.payload...)
	return b
}

func c18Addr(r *vh.RNG) (byte, []byte) {
	switch r.Intn(8) {
	case 0, 1:
		return 1, r.Bytes(4)
	case 2:
		a := make([]byte, 16) // sprinkle zero groups so that "::" compression is exercised
		for g := 0; g < 8; g++ {
			if r.Chance(1, 2) {
				a[2*g], a[2*g+1] = byte(r.U64()), byte(r.U64())
				if r.Chance(1, 3) {
					a[2*g] = 0
				}
			}
		}
		return 4, a
	case 3:
		a := make([]byte, 16) // IPv4-mapped
		a[10], a[11] = 0xff, 0xff
		copy(a[12:], r.Bytes(4))
		return 4, a
	case 4:
		d := r.ASCII(r.Pick([]int{1, 2, 63, 64, 254, 255}))
		return 3, append([]byte{byte(len(d))}, d...)
	case 5:
		d := []byte("2001:db8::" + strconv.Itoa(r.Intn(9))) // a domain with colons gets brackets
		return 3, append([]byte{byte(len(d))}, d...)
	default:
		d := r.ASCII(r.Range(1, 24))
		return 3, append([]byte{byte(len(d))}, d...)
	}
}

func (c *c18Socks) Gen(r *vh.RNG, n int, emit func(op string, tags ...string)) {
	for i := 0; i < n; i++ {
		authSet := r.Chance(3, 4)
		user, pass := r.ASCII(r.Pick([]int{1, 1, 3, 8, 255})), r.ASCII(r.Pick([]int{1, 2, 5, 255}))
		m := &c18SocksMsg{ver: 5, nmeth: -1, aver: 1, rver: 5, cmd: 1}
		m.atyp, m.addr = c18Addr(r)
		m.port = r.Bytes(2)
		m.payload = r.Bytes(r.Pick([]int{0, 0, 1, 7, 64, 300}))
		tail := len(m.payload)
		tag := "wellformed"
		m.methods = []byte{2}
		if !authSet {
			m.methods = []byte{0}
		}
		if r.Chance(1, 2) { // more methods around the right one
			m.methods = append(r.Bytes(r.Intn(4)), m.methods...)
			m.methods = append(m.methods, r.Bytes(r.Intn(3))...)
		}
		m.doAuth = authSet
		m.u, m.p = user, pass
		switch k := r.Intn(20); {
		case k == 0:
			m.cmd, tag = 3, "udp"
		case k == 1:
			m.cmd, tag = byte(r.Pick([]int{0, 2, 4, 255})), "badcmd"
		case k == 2 && authSet:
			m.p, tag = r.ASCII(r.Range(1, 9)), "wrongpass"
		case k == 3 && authSet:
			m.u, tag = r.ASCII(r.Range(1, 9)), "wronguser"
		case k == 4 && authSet:
			// only "no authentication" offered although credentials are configured
			m.methods, m.doAuth, tag = []byte{0}, false, "noauth-offered"
		case k == 5 && authSet:
			// offers user/pass but skips the sub-negotiation and sends the request at once
			m.doAuth, tag = false, "skip-subneg"
		case k == 6 && authSet:
			m.methods, m.doAuth, tag = []byte{0, 1, 3}, false, "noauth-offered-multi"
		case k == 7:
			m.atyp, tag = byte(r.Pick([]int{0, 2, 5, 255})), "badatyp"
		case k == 8:
			m.ver, tag = byte(r.Pick([]int{4, 0, 6})), "badver"
		case k == 9:
			m.nmeth, tag = r.Pick([]int{0, len(m.methods) + 1, 255}), "badnmethods"
		case k == 10 && authSet:
			m.aver, tag = byte(r.Pick([]int{0, 5, 2})), "badauthver"
		case k == 11 && authSet:
			if r.Bool() {
				m.u = nil
			} else {
				m.p = nil
			}
			tag = "emptycred"
		case k == 12:
			m.rver, tag = 4, "badreqver"
		case k == 13 && !authSet:
			m.methods, tag = []byte{2}, "userpass-offered-noauth-server"
		}
		b := m.bytes()
		if tag != "wellformed" && tag != "udp" {
			tail = -1
		}
		switch r.Intn(12) {
		case 0:
			b, tag, tail = b[:r.Intn(len(b)+1)], tag+"+trunc", -1
		case 1:
			j := r.Intn(len(b))
			b[j] ^= byte(1 << r.Intn(8))
			tag, tail = tag+"+flip", -1
		}
		if r.Chance(1, 40) {
			b, tag, tail = r.Bytes(r.Range(0, 40)), "random", -1
		}
		op := fmt.Sprintf("socks auth=%s user=%s pass=%s noudp=%s dial=%s udp=%s tail=%d chunks=%s",
			c18B(authSet), vh.Hex(user), vh.Hex(pass), c18B(r.Chance(1, 4)), c18B(r.Chance(3, 4)), c18B(r.Chance(3, 4)),
			tail, vh.Chunks(r.Chunk(b)))
		emit(op, tag)
	}
}

// ---------------------------------------------------------------- c18http

type c18HTTP struct{}

// c18ChunkConn replays chunks with the read semantics of a net.Pipe end (at most the
// rest of the current Write per Read; an empty Write is a (0,nil) read; EOF at the end).
type c18ChunkConn struct {
	chunks   [][]byte
	consumed int
}

func (c *c18ChunkConn) Read(p []byte) (int, error) {
	if len(c.chunks) == 0 {
		return 0, io.EOF
	}
	cur := c.chunks[0]
	n := copy(p, cur)
	if n == len(cur) {
		c.chunks = c.chunks[1:]
	} else {
		c.chunks[0] = cur[n:]
	}
	c.consumed += n
	return n, nil
}

func c18ASCII(s string) bool {
	for i := 0; i < len(s); i++ {
		if s[i] >= 0x80 {
			return false
		}
	}
	return true
}

func c18RestChunks(cs [][]byte) string {
	if len(cs) == 0 {
		return "."
	}
	ss := make([]string, len(cs))
	for i, c := range cs {
		ss[i] = vh.Hex(c)
	}
	return strings.Join(ss, "/")
}

// c18Oracle runs net/http's own parser over an identically chunked replica of the client
// stream and returns, per successful ReadRequest, what the model takes as the oracle's
// answer. Nothing of app/internal/http is involved.
func c18Oracle(chunks [][]byte, dialOk bool) string {
	cc := &c18ChunkConn{}
	for _, c := range chunks {
		cc.chunks = append(cc.chunks, append([]byte(nil), c...))
	}
	br := bufio.NewReader(cc)
	var reqs []string
	for len(reqs) < 8 {
		req, err := nethttp.ReadRequest(br)
		if err != nil {
			break
		}
		pauth := req.Header.Get("Proxy-Authorization")
		if req.Method == nethttp.MethodConnect {
			buffered, _ := br.Peek(br.Buffered())
			reqs = append(reqs, fmt.Sprintf("C,%s,%s,%s,%s,%s,%s", vh.Hex([]byte(req.URL.Hostname())), vh.Hex([]byte(req.URL.Port())),
				vh.Hex([]byte(pauth)), vh.Hex(buffered), c18RestChunks(cc.chunks), c18B(dialOk)))
			break
		}
		keepAlive := req.ProtoAtLeast(1, 1) &&
			(strings.ToLower(req.Header.Get("Proxy-Connection")) == "keep-alive" ||
				strings.ToLower(req.Header.Get("Connection")) == "keep-alive")
		// what server.go's removeExtraHTTPHostPort leaves in req.URL.Host, and the address
		// net/http's Transport derives from it (canonicalAddr); both replicated with net/url
		host := req.Host
		if host == "" {
			host = req.URL.Host
		}
		if h, p, err := net.SplitHostPort(host); err == nil && p == "80" {
			host = h
		}
		u := *req.URL
		u.Host = host
		urlOk := u.Scheme != "" && u.Host != ""
		port := u.Port()
		if port == "" {
			port = "80"
			if u.Scheme == "https" {
				port = "443"
			}
		}
		hn := u.Hostname()
		if !c18ASCII(hn) {
			if a, err := idna.Lookup.ToASCII(hn); err == nil {
				hn = a
			}
		}
		dialAddr := net.JoinHostPort(hn, port)
		dials := u.Scheme == "http" || u.Scheme == "https" // net/http refuses other schemes before dialling
		reqs = append(reqs, fmt.Sprintf("P,%s,%s,%s,%s,%s,%s", vh.Hex([]byte(pauth)), c18B(urlOk), c18B(dials), vh.Hex([]byte(dialAddr)), c18B(keepAlive), c18B(dialOk)))
		_, _ = io.Copy(io.Discard, req.Body)
	}
	if len(reqs) == 0 {
		return "."
	}
	return strings.Join(reqs, ";")
}

var c18B64Re = regexp.MustCompile(`[A-Za-z0-9+/]+=*`)

var c18StatusRe = regexp.MustCompile(`HTTP/[0-9]\.[0-9] ([0-9]{3}) `)

func (c *c18HTTP) Run(op string) vh.Result {
	name, kv := c18KV(op)
	if name != "http" {
		return vh.Result{Out: "bad-op"}
	}
	authSet := kv["auth"] == "1"
	user, pass := string(vh.UnHex(kv["user"])), string(vh.UnHex(kv["pass"]))
	chunks := vh.ParseChunks(kv["chunks"])
	tail, _ := strconv.Atoi(kv["tail"])
	dialOk := kv["dial"] == "1"
	log := &c18Log{}
	srv := &hyhttp.Server{HyClient: &c18Client{log: log, dialOk: dialOk}, AuthRealm: "verif"}
	if authSet {
		srv.AuthFunc = func(u, p string) bool {
			ok := u == user && p == pass
			log.add(c18Ev{kind: c18Auth, u: u, p: p, ok: ok})
			return ok
		}
	}
	modelOp := fmt.Sprintf("http auth=%s user=%s pass=%s reqs=%s", kv["auth"], kv["user"], kv["pass"], c18Oracle(chunks, dialOk))
	run := c18Drive(log, chunks, func(conn net.Conn) { hyhttp.VerifDispatch(srv, conn) })

	var toks []string
	var oracle []string
	stream := c18Flat(chunks)
	authed := false // an accepted AuthFunc call since the last response
	closed := false
	nontriv := false
	var wbuf []byte
	flushW := func() {
		if len(wbuf) == 0 {
			return
		}
		found := false
		for _, m := range c18StatusRe.FindAllSubmatch(wbuf, -1) {
			toks = append(toks, "S:"+string(m[1]))
			found = true
		}
		if !found {
			toks = append(toks, "S:?")
		}
		wbuf = nil
		authed = false // the next request has to authenticate again
	}
	var ups []*c18UpConn
	for i, e := range run.evs {
		if e.kind != c18Write {
			flushW()
		}
		switch e.kind {
		case c18Write:
			wbuf = append(wbuf, e.data...)
		case c18Auth:
			toks = append(toks, "A:"+vh.Hex([]byte(e.u))+":"+vh.Hex([]byte(e.p))+":"+c18B(e.ok))
			if e.ok {
				authed = true
				// some base64 token of THIS client's stream must decode to user:pass
				sent := false
				for _, tok := range c18B64Re.FindAll(stream, -1) {
					if d, err := base64.StdEncoding.DecodeString(string(tok)); err == nil && string(d) == e.u+":"+e.p {
						sent = true
					}
				}
				if !sent {
					oracle = append(oracle, "AuthFunc accepted credentials that the client did not send")
				}
			}
		case c18TCP:
			toks = append(toks, "T:"+vh.Hex(e.data))
			nontriv = true
			if e.up != nil {
				ups = append(ups, e.up)
			}
			if authSet && !authed {
				oracle = append(oracle, fmt.Sprintf("gate: HyClient.TCP (event %d) without an accepted Proxy-Authorization on this request", i))
			}
		case c18Close:
			closed = true
		}
	}
	flushW()
	// the relay of a CONNECT is the last thing on a connection: its upstream conn is the
	// one that did not act as an HTTP origin
	for _, up := range ups {
		if got, isHTTP := up.received(); !isHTTP {
			toks = append(toks, "UP:"+vh.Hex(got))
			if tail >= 0 && tail <= len(stream) && !bytes.Equal(got, stream[len(stream)-tail:]) {
				oracle = append(oracle, fmt.Sprintf("relay: upstream received %s, client pipelined %s behind the CONNECT header", vh.Hex(got), vh.Hex(stream[len(stream)-tail:])))
			}
		}
	}
	if closed {
		toks = append(toks, "X")
	} else {
		oracle = append(oracle, "connection not closed when the handler returned")
	}
	if run.hang != "" {
		toks = append(toks, "hang")
		oracle = append(oracle, run.hang)
	}
	if run.panicMsg != "" {
		toks = []string{"panic"}
		oracle = append(oracle, "panic in http dispatch: "+run.panicMsg)
	}
	if len(run.evs) > 1 {
		nontriv = true
	}
	return vh.Result{Out: c18Class(toks) + strings.Join(toks, " "), ModelOp: modelOp, NonTrivial: nontriv, Oracle: oracle}
}

func c18AuthHeader(r *vh.RNG, user, pass []byte, right bool) (string, string) {
	b64 := base64.StdEncoding.EncodeToString([]byte(string(user) + ":" + string(pass)))
	if !right {
		switch r.Intn(9) {
		case 0:
			return "", "noheader"
		case 1:
			return "Proxy-Authorization: Basic " + base64.StdEncoding.EncodeToString([]byte(string(user)+":"+string(r.ASCII(4)))) + "\r\n", "wrongpass"
		case 2:
			return "Proxy-Authorization: Bearer " + b64 + "\r\n", "bearer"
		case 3:
			return "Proxy-Authorization: Basic " + base64.StdEncoding.EncodeToString(user) + "\r\n", "nocolon"
		case 4:
			return "Proxy-Authorization: Basic " + strings.TrimRight(b64, "=") + "!\r\n", "badb64"
		case 5:
			return "Proxy-Authorization: Basic  " + b64 + "\r\n", "twospaces"
		case 6:
			return "Authorization: Basic " + b64 + "\r\n", "wrongheader"
		case 7:
			return "Proxy-Authorization: Basic " + base64.RawStdEncoding.EncodeToString([]byte(string(user)+":"+string(pass)+"x")) + "\r\n", "rawb64"
		default:
			return "Proxy-Authorization: Basic\r\n", "short"
		}
	}
	switch r.Intn(4) {
	case 0:
		return "proxy-authorization: BASIC " + b64 + "\r\n", "right-case"
	case 1:
		return "Proxy-Authorization: bAsIc " + b64 + "\r\n", "right-mixed"
	default:
		return "Proxy-Authorization: Basic " + b64 + "\r\n", "right"
	}
}

func c18Payload(r *vh.RNG) []byte {
	p := r.Bytes(r.Pick([]int{0, 0, 1, 5, 64, 300, 5000}))
	if len(p) > 0 {
		p[0] |= 0x80 // never looks like the start of an HTTP request
	}
	return p
}

func (c *c18HTTP) Gen(r *vh.RNG, n int, emit func(op string, tags ...string)) {
	hosts := []string{"example.com", "10.1.2.3", "[2001:db8::1]", "a.b", "localhost"}
	for i := 0; i < n; i++ {
		authSet := r.Chance(3, 4)
		user, pass := r.ASCII(r.Pick([]int{0, 1, 3, 8})), r.ASCII(r.Pick([]int{0, 1, 5, 12}))
		if r.Chance(1, 6) {
			pass = append(pass, ':', 'x') // a password with a colon: SplitN(…, 2) keeps it whole
		}
		var b []byte
		tail := -1
		tag := ""
		nreq := 1
		if r.Chance(1, 3) {
			nreq = 2
		}
		for q := 0; q < nreq; q++ {
			right := r.Chance(2, 3)
			hdr, atag := "", "noauthcfg"
			if authSet || r.Chance(1, 4) {
				hdr, atag = c18AuthHeader(r, user, pass, right)
			}
			host := hosts[r.Intn(len(hosts))]
			last := q == nreq-1
			if last && r.Chance(3, 5) {
				target := host
				if r.Chance(5, 6) {
					target += ":" + strconv.Itoa(r.Pick([]int{80, 443, 8080, 1, 65535}))
				}
				proto := "HTTP/1.1"
				if r.Chance(1, 5) {
					proto = "HTTP/1.0"
				}
				p := c18Payload(r)
				// a CONNECT that DECLARES a body: the handler never touches req.Body, so the
				// tunnel payload behind the header block must still reach the upstream whole
				body := ""
				if r.Chance(1, 3) {
					if len(p) == 0 || r.Chance(1, 2) {
						p = append([]byte{0x81}, r.Bytes(r.Pick([]int{4, 20, 200}))...)
					}
					switch r.Intn(5) {
					case 0:
						body = "Content-Length: " + strconv.Itoa(r.Range(1, len(p)-1+1)) + "\r\n" // fewer than pipelined (or all)
					case 1:
						body = "Content-Length: " + strconv.Itoa(len(p)) + "\r\n"
					case 2:
						body = "Content-Length: " + strconv.Itoa(len(p)+r.Pick([]int{1, 7, 5000})) + "\r\n"
					case 3:
						body = "Transfer-Encoding: chunked\r\n"
					default:
						body = "Transfer-Encoding: chunked\r\n"
						p = append([]byte("5\r\n\x81ELLO\r\n0\r\n\r\n"), p...) // a well-formed chunked body in front
					}
					atag += "-declared-body"
				}
				b = append(b, []byte("CONNECT "+target+" "+proto+"\r\nHost: "+target+"\r\n"+body+hdr+"\r\n")...)
				b = append(b, p...)
				tail = len(p)
				tag += "connect-" + atag
			} else {
				url := "http://" + host
				if r.Chance(1, 3) {
					url += ":" + strconv.Itoa(r.Pick([]int{80, 8080}))
				}
				url += "/p" + strconv.Itoa(r.Intn(10))
				if r.Chance(1, 8) {
					url = "/relative"
				}
				ka := ""
				if !last || r.Chance(1, 2) {
					ka = "Proxy-Connection: keep-alive\r\n"
					if r.Bool() {
						ka = "Connection: Keep-Alive\r\n"
					}
				}
				b = append(b, []byte("GET "+url+" HTTP/1.1\r\nHost: "+host+"\r\n"+ka+hdr+"\r\n")...)
				tag += "plain-" + atag
			}
			if !last {
				tag += ","
			}
		}
		switch r.Intn(14) {
		case 0:
			b, tag, tail = b[:r.Intn(len(b)+1)], tag+"+trunc", -1
		case 1:
			j := r.Intn(len(b))
			b[j] ^= byte(1 << r.Intn(8))
			tag, tail = tag+"+flip", -1
		}
		if r.Chance(1, 40) {
			b, tag, tail = r.Bytes(r.Range(0, 60)), "random", -1
		}
		op := fmt.Sprintf("http auth=%s user=%s pass=%s dial=%s tail=%d chunks=%s",
			c18B(authSet), vh.Hex(user), vh.Hex(pass), c18B(r.Chance(4, 5)), tail, vh.Chunks(r.Chunk(b)))
		emit(op, tag)
	}
}

// ---------------------------------------------------------------- c18xform

type c18Xform struct{}

// c18PipeSource returns the read end of a net.Pipe whose peer writes the chunks one
// Write each and then closes.
func c18PipeSource(chunks [][]byte) net.Conn {
	rEnd, wEnd := net.Pipe()
	go func() {
		for _, c := range chunks {
			if _, err := wEnd.Write(c); err != nil {
				break
			}
		}
		_ = wEnd.Close()
	}()
	return rEnd
}

func (c *c18Xform) Run(op string) vh.Result {
	name, kv := c18KV(op)
	chunks := vh.ParseChunks(kv["chunks"])
	reads := c18Ints(kv["reads"])
	src := c18PipeSource(chunks)
	defer src.Close()
	var conn net.Conn
	var want []byte
	switch name {
	case "cached":
		buf := vh.UnHex(kv["buf"])
		want = append(append([]byte(nil), buf...), c18Flat(chunks)...)
		if len(buf) == 0 {
			conn = src // dispatch hands over the bare conn when nothing is buffered
		} else {
			conn = hyhttp.VerifCachedConn(src, vh.Exact(buf))
		}
	case "onebyte":
		b := vh.UnHex(kv["b"])
		want = append([]byte{b[0]}, c18Flat(chunks)...)
		conn = proxymux.VerifConnWithOneByte(src, b[0])
	default:
		return vh.Result{Out: "bad-op"}
	}
	var outs []string
	var all []byte
	var oracle []string
	_ = src.SetReadDeadline(time.Now().Add(c18Timeout))
	for _, n := range reads {
		p := make([]byte, n)
		k, err := conn.Read(p)
		if k > n {
			oracle = append(oracle, "Read returned more than the buffer holds")
			k = n
		}
		all = append(all, p[:k]...)
		s := vh.Hex(p[:k])
		if err != nil {
			s += "!"
			if ne, ok := err.(net.Error); ok && ne.Timeout() {
				oracle = append(oracle, "Read blocked although bytes were available")
			}
		}
		outs = append(outs, s)
	}
	// model-free: what came out so far is a prefix of (buffered|first byte) ++ stream
	if !bytes.HasPrefix(want, all) {
		oracle = append(oracle, fmt.Sprintf("bytes lost or reordered: read %s, expected a prefix of %s", vh.Hex(all), vh.Hex(want)))
	}
	// … and draining the rest yields exactly the remainder
	_ = src.SetReadDeadline(time.Now().Add(c18Timeout))
	rest, _ := io.ReadAll(conn)
	if !bytes.Equal(append(all, rest...), want) {
		oracle = append(oracle, fmt.Sprintf("bytes lost or reordered: total %s, expected %s", vh.Hex(append(all, rest...)), vh.Hex(want)))
	}
	out := "."
	if len(outs) > 0 {
		out = strings.Join(outs, "|")
	}
	return vh.Result{Out: name + " " + out + " rest=" + vh.Hex(rest), NonTrivial: len(all) > 0, Oracle: oracle}
}

func (c *c18Xform) Gen(r *vh.RNG, n int, emit func(op string, tags ...string)) {
	for i := 0; i < n; i++ {
		data := r.Bytes(r.Pick([]int{0, 1, 2, 9, 40, 200}))
		chunks := r.Chunk(data)
		var reads []int
		for k := r.Intn(12); k > 0; k-- {
			reads = append(reads, r.Pick([]int{0, 0, 1, 1, 2, 3, 7, 64, 32768}))
		}
		if r.Bool() {
			buf := r.Bytes(r.Pick([]int{0, 1, 1, 2, 5, 33}))
			emit(fmt.Sprintf("cached buf=%s chunks=%s reads=%s", vh.Hex(buf), vh.Chunks(chunks), c18IntsStr(reads)), "cached")
		} else {
			tag := "onebyte"
			if len(reads) > 0 && reads[0] == 0 {
				tag = "onebyte-zero-first"
			}
			emit(fmt.Sprintf("onebyte b=%s chunks=%s reads=%s", vh.Hex(r.Bytes(1)), vh.Chunks(chunks), c18IntsStr(reads)), tag)
		}
	}
}
