//go:build verif

package cmd

// C10: the application's bandwidth strings -> core limits. These run the REAL
// (*clientConfig).fillBandwidthConfig / (*serverConfig).fillBandwidthConfig.

import (
	"errors"

	"github.com/apernet/hysteria/core/v2/client"
	"github.com/apernet/hysteria/core/v2/server"
)

// VerifC10ClientBandwidth: `bandwidth: {up, down}` of a client config file -> the
// client.Config it fills (field = configError.Field on failure).
func VerifC10ClientBandwidth(up, down string, hy *client.Config) (field string, err error) {
	c := &clientConfig{}
	c.Bandwidth.Up, c.Bandwidth.Down = up, down
	err = c.fillBandwidthConfig(hy)
	var ce configError
	if errors.As(err, &ce) {
		field = ce.Field
	}
	return field, err
}

// VerifC10ServerBandwidth: the same for a server config file.
func VerifC10ServerBandwidth(up, down string, hy *server.Config) (field string, err error) {
	c := &serverConfig{}
	c.Bandwidth.Up, c.Bandwidth.Down = up, down
	err = c.fillBandwidthConfig(hy)
	var ce configError
	if errors.As(err, &ce) {
		field = ce.Field
	}
	return field, err
}
