//go:build verif

package cmd

// C16: the configuration function the application hands to client.NewReconnectableClient.
// runClient passes the METHOD VALUE `config.Config` of its one clientConfig; this shim builds a
// clientConfig the same way and exposes exactly that method value, so the harness can evaluate
// it several times while the name resolution underneath changes.

import "github.com/apernet/hysteria/core/v2/client"

type VerifC16Config struct {
	c *clientConfig
	f func() (*client.Config, error)
}

// VerifC16NewConfig: a client configuration with `server`, `auth` and `tls.insecure` set.
func VerifC16NewConfig(server, auth string) *VerifC16Config {
	c := &clientConfig{Server: server, Auth: auth}
	c.TLS.Insecure = true
	return &VerifC16Config{c: c, f: c.Config}
}

// Eval is one evaluation of the function NewReconnectableClient would call before connecting.
func (v *VerifC16Config) Eval() (*client.Config, error) { return v.f() }
