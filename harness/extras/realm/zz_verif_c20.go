//go:build verif

package realm

import (
	"fmt"
	"reflect"
	"strings"
	"unsafe"
)

// C20 shim: constants the Lean theorems are stated over, and the two event channels
// (bidirectional view) so that the harness can look at queued events without losing them.

func VerifC20Consts() map[string]any {
	var magicBE uint64
	for _, b := range punchMagic {
		magicBE = magicBE<<8 | uint64(b)
	}
	return map[string]any{
		"punchSaltLen":            uint64(punchSaltLen),
		"punchHeaderLen":          uint64(punchHeaderLen),
		"punchMinWireLen":         uint64(punchMinWireLen),
		"punchMaxWireLen":         uint64(punchMaxWireLen),
		"MaxPunchPadding":         uint64(MaxPunchPadding),
		"punchMagicLen":           uint64(len(punchMagic)),
		"punchMagicBE":            magicBE,
		"PunchPacketHello":        uint64(PunchPacketHello),
		"PunchPacketAck":          uint64(PunchPacketAck),
		"PunchNonceSize":          uint64(PunchNonceSize),
		"PunchObfsKeySize":        uint64(PunchObfsKeySize),
		"defaultPunchEventBuffer": uint64(defaultPunchEventBuffer),
	}
}

// Everything below reads unexported STATE (as opposed to constants) through reflection, so that a
// refactoring of the representation (map → slice, renamed helper types, …) does not stop the
// harness from compiling: what cannot be interpreted is reported at run time.

// verifField returns an addressable, readable view of the unexported field `name` of *ptr.
func verifField(ptr any, name string) (reflect.Value, bool) {
	v := reflect.ValueOf(ptr)
	if v.Kind() != reflect.Pointer || v.IsNil() || v.Elem().Kind() != reflect.Struct {
		return reflect.Value{}, false
	}
	f := v.Elem().FieldByName(name)
	if !f.IsValid() || !f.CanAddr() {
		return reflect.Value{}, false
	}
	return reflect.NewAt(f.Type(), unsafe.Pointer(f.UnsafeAddr())).Elem(), true
}

type verifRLocker interface {
	RLock()
	RUnlock()
}

type verifLocker interface {
	Lock()
	Unlock()
}

// verifLock takes the struct's `mu` (read lock if it has one) and returns the unlock function.
func verifLock(ptr any) func() {
	f, ok := verifField(ptr, "mu")
	if !ok {
		return func() {}
	}
	switch m := f.Addr().Interface().(type) {
	case verifRLocker:
		m.RLock()
		return m.RUnlock
	case verifLocker:
		m.Lock()
		return m.Unlock
	}
	return func() {}
}

// VerifC20Chans returns the conn's two event channels (nil when the fields are not channels of the event types any more).
func VerifC20Chans(c *PunchPacketConn) (chan PunchPacketEvent, chan STUNPacketEvent) {
	var ev chan PunchPacketEvent
	var st chan STUNPacketEvent
	if f, ok := verifField(c, "events"); ok {
		ev, _ = f.Interface().(chan PunchPacketEvent)
	}
	if f, ok := verifField(c, "stun"); ok {
		st, _ = f.Interface().(chan STUNPacketEvent)
	}
	return ev, st
}

// VerifC20Entry is one registered attempt as found in the conn's table.
type VerifC20Entry struct {
	ID   string
	Meta PunchMetadata
}

// verifOpen lifts the read-only mark reflection puts on values reached through unexported fields.
func verifOpen(v reflect.Value) reflect.Value {
	if !v.CanInterface() && v.CanAddr() {
		return reflect.NewAt(v.Type(), unsafe.Pointer(v.UnsafeAddr())).Elem()
	}
	return v
}

func verifMetaOf(v reflect.Value) (PunchMetadata, bool) {
	v = verifOpen(v)
	if v.CanInterface() {
		if m, ok := v.Interface().(PunchMetadata); ok {
			return m, true
		}
	}
	if v.Kind() == reflect.Pointer && !v.IsNil() {
		return verifMetaOf(v.Elem())
	}
	if v.Kind() == reflect.Struct {
		for i := 0; i < v.NumField(); i++ {
			if m, ok := verifMetaOf(v.Field(i)); ok {
				return m, true
			}
		}
	}
	return PunchMetadata{}, false
}

func verifIDOf(v reflect.Value) (string, bool) {
	if v.Kind() == reflect.Pointer && !v.IsNil() {
		return verifIDOf(v.Elem())
	}
	if v.Kind() != reflect.Struct {
		return "", false
	}
	for i := 0; i < v.NumField(); i++ {
		n := strings.ToLower(v.Type().Field(i).Name)
		if v.Field(i).Kind() == reflect.String && (n == "id" || strings.HasSuffix(n, "id")) {
			return v.Field(i).String(), true
		}
	}
	return "", false
}

// VerifC20Registry lists the conn's registered attempts in whatever container holds them: a map
// keyed by the attempt id, or a slice/array of entries with an id field. An id can occur more than
// once in the result (the caller reports that). why != "" means the table could not be interpreted.
func VerifC20Registry(c *PunchPacketConn) (entries []VerifC20Entry, why string) {
	defer func() {
		if r := recover(); r != nil {
			entries, why = nil, fmt.Sprint("reading the attempt table faulted: ", r)
		}
	}()
	unlock := verifLock(c)
	defer unlock()
	f, ok := verifField(c, "attempts")
	if !ok {
		return nil, "PunchPacketConn has no field `attempts`"
	}
	switch f.Kind() {
	case reflect.Map:
		if f.Type().Key().Kind() != reflect.String {
			return nil, "attempts is a map that is not keyed by a string id: " + f.Type().String()
		}
		it := f.MapRange()
		for it.Next() {
			m, ok := verifMetaOf(it.Value())
			if !ok {
				return nil, "no PunchMetadata in the map's values: " + f.Type().String()
			}
			entries = append(entries, VerifC20Entry{it.Key().String(), m})
		}
	case reflect.Slice, reflect.Array:
		for i := 0; i < f.Len(); i++ {
			id, ok1 := verifIDOf(f.Index(i))
			m, ok2 := verifMetaOf(f.Index(i))
			if !ok1 || !ok2 {
				return nil, "no id / PunchMetadata in the entries of " + f.Type().String()
			}
			entries = append(entries, VerifC20Entry{id, m})
		}
	default:
		return nil, "attempts is neither a map nor a slice: " + f.Type().String()
	}
	return entries, ""
}

// VerifC20PuncherIDs lists the ids the ServerPuncher currently routes events for (same conventions).
func VerifC20PuncherIDs(p *ServerPuncher) (ids []string, why string) {
	defer func() {
		if r := recover(); r != nil {
			ids, why = nil, fmt.Sprint("reading the puncher's table faulted: ", r)
		}
	}()
	unlock := verifLock(p)
	defer unlock()
	f, ok := verifField(p, "attempts")
	if !ok {
		return nil, "ServerPuncher has no field `attempts`"
	}
	switch f.Kind() {
	case reflect.Map:
		if f.Type().Key().Kind() != reflect.String {
			return nil, "attempts is a map that is not keyed by a string id: " + f.Type().String()
		}
		for _, k := range f.MapKeys() {
			ids = append(ids, k.String())
		}
	case reflect.Slice, reflect.Array:
		for i := 0; i < f.Len(); i++ {
			id, ok := verifIDOf(f.Index(i))
			if !ok {
				return nil, "no id in the entries of " + f.Type().String()
			}
			ids = append(ids, id)
		}
	default:
		return nil, "attempts is neither a map nor a slice: " + f.Type().String()
	}
	return ids, ""
}
