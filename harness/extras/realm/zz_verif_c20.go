//go:build verif

package realm

// C20 shim: constants the Lean theorems are stated over, and the two event channels
// (bidirectional view) so that the harness can look at queued events without losing them.

func VerifC20Consts() map[string]any {
	var magicBE uint64
	for _, b := range punchMagic {
		magicBE = magicBE<<8 | uint64(b)
	}
	return map[string]any{
		"punchSaltLen":            uint64(punchSaltLen),
		"punchHeaderLen":          uint64(punchHeaderLen),
		"punchMinWireLen":         uint64(punchMinWireLen),
		"punchMaxWireLen":         uint64(punchMaxWireLen),
		"MaxPunchPadding":         uint64(MaxPunchPadding),
		"punchMagicLen":           uint64(len(punchMagic)),
		"punchMagicBE":            magicBE,
		"PunchPacketHello":        uint64(PunchPacketHello),
		"PunchPacketAck":          uint64(PunchPacketAck),
		"PunchNonceSize":          uint64(PunchNonceSize),
		"PunchObfsKeySize":        uint64(PunchObfsKeySize),
		"defaultPunchEventBuffer": uint64(defaultPunchEventBuffer),
	}
}

func VerifC20Chans(c *PunchPacketConn) (chan PunchPacketEvent, chan STUNPacketEvent) {
	return c.events, c.stun
}

// VerifC20Registry returns a copy of the conn's registered attempts (id → metadata).
func VerifC20Registry(c *PunchPacketConn) map[string]PunchMetadata {
	c.mu.RLock()
	defer c.mu.RUnlock()
	out := make(map[string]PunchMetadata, len(c.attempts))
	for k, v := range c.attempts {
		out[k] = v
	}
	return out
}

// VerifC20PuncherIDs returns the ids the ServerPuncher currently routes events for.
func VerifC20PuncherIDs(p *ServerPuncher) []string {
	p.mu.Lock()
	defer p.mu.Unlock()
	out := make([]string, 0, len(p.attempts))
	for k := range p.attempts {
		out = append(out, k)
	}
	return out
}
