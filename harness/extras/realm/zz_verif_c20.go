//go:build verif

package realm

// C20 shim: constants the Lean theorems are stated over, and the two event channels
// (bidirectional view) so that the harness can look at queued events without losing them.

func VerifC20Consts() map[string]any {
	var magicBE uint64
	for _, b := range punchMagic {
		magicBE = magicBE<<8 | uint64(b)
	}
	return map[string]any{
		"punchSaltLen":            uint64(punchSaltLen),
		"punchHeaderLen":          uint64(punchHeaderLen),
		"punchMinWireLen":         uint64(punchMinWireLen),
		"punchMaxWireLen":         uint64(punchMaxWireLen),
		"MaxPunchPadding":         uint64(MaxPunchPadding),
		"punchMagicLen":           uint64(len(punchMagic)),
		"punchMagicBE":            magicBE,
		"PunchPacketHello":        uint64(PunchPacketHello),
		"PunchPacketAck":          uint64(PunchPacketAck),
		"PunchNonceSize":          uint64(PunchNonceSize),
		"PunchObfsKeySize":        uint64(PunchObfsKeySize),
		"defaultPunchEventBuffer": uint64(defaultPunchEventBuffer),
	}
}

func VerifC20Chans(c *PunchPacketConn) (chan PunchPacketEvent, chan STUNPacketEvent) {
	return c.events, c.stun
}
