//go:build verif

package udphop

import "net"

// C19: constants of the package read by the fact extractor (lean/Hy/Gen/Extras.lean).
const (
	VerifPacketQueueSize    = packetQueueSize
	VerifUDPBufferSize      = udpBufferSize
	VerifDefaultHopInterval = defaultHopInterval
)

// VerifAddrs exposes (*UDPHopAddr).addrs for the `hopaddr` correspondence component.
func VerifAddrs(a *UDPHopAddr) ([]net.Addr, error) { return a.addrs() }
