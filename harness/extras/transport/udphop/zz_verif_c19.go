//go:build verif

package udphop

// C19: constants of the package read by the fact extractor (lean/Hy/Gen/Extras.lean).
const (
	VerifPacketQueueSize    = packetQueueSize
	VerifUDPBufferSize      = udpBufferSize
	VerifDefaultHopInterval = defaultHopInterval
)
