//go:build verif

//go:debug randseednop=0

package udphop

// C19 (connection half): correspondence harness for udpHopPacketConn, run inside a
// testing/synctest bubble (virtual time).  The real connection is driven through its public
// methods with a fake ListenUDPFunc (socket census + failure injection); timer-driven hops
// happen by advancing the virtual clock.  Every operation line is executed on the real
// code, its observable outcome is printed in the vocabulary of `hydrv hop`, and the
// nondeterministic choices the code made (rand.Intn address index, which select arm won)
// are passed to the model on the model-op line.
//
//	reset <rseed> <addrhex> <minNs> <maxNs> <listenOk>   new connection to host:portexpr (closes the old one)
//	tick <listenOk>        advance virtual time until the hop timer fires
//	racehop <listenOk>     hop() whose timer fired before Close but which runs after it
//	write <n> | recv <k> <hex> | rtimeout <k> | flood <k> <n> | read <blen>
//	setdl|setrdl|setwdl <t> | setrbuf|setwbuf <n> | addr | socks | close | end
//	closeinlisten <listenOk>   hop() during whose ListenUDPFunc call Close() is issued
//	interval <minNs> <maxNs> | jitter <rseed> <minNs> <maxNs>
//
// Model-free oracle (after every operation, on the fakes and the real struct only):
// at most two sockets open, every open socket is currentConn or prevConn, currentConn is the
// newest socket and open while the connection is; after Close every socket ever created is
// closed and ReadFrom/WriteTo fail; a failed listen changes nothing; every WriteTo goes out
// on the newest socket to (server IP, port of the expression as computed by an independent
// parser); packets that arrive on an open socket while the queue has room come out of
// ReadFrom in arrival order; hops happen Min..Max after the previous one.

import (
	"errors"
	"fmt"
	"math/rand"
	"net"
	"net/netip"
	"os"
	"regexp"
	"runtime"
	"strings"
	"sync"
	"sync/atomic"
	"testing"
	"testing/synctest"
	"time"

	vh "github.com/apernet/hysteria/core/v2/verifhlib"
	"github.com/apernet/hysteria/extras/v2/utils"
)

// memGuard aborts the test binary when the heap explodes (a runaway loop in the code under
// test must not take the machine down).  Started outside the bubble: real time.
func memGuard(limit uint64) {
	go func() {
		var ms runtime.MemStats
		for {
			time.Sleep(50 * time.Millisecond)
			runtime.ReadMemStats(&ms)
			if ms.HeapAlloc > limit {
				fmt.Fprintln(os.Stderr, "verif: heap limit exceeded (runaway loop in the code under test?), aborting")
				os.Exit(3)
			}
		}
	}()
}

// portsTerminates probes, in real time and before any virtual-time bubble exists, that
// enumerating a union that contains port 65535 returns (a uint16 loop counter never does).
// A runaway is recognised by its allocation (hundreds of MB), not by elapsed time.
func portsTerminates() bool {
	done := make(chan struct{})
	go func() {
		defer func() { recover() }()
		_ = utils.PortUnion{{Start: 65534, End: 65535}}.Ports()
		close(done)
	}()
	select {
	case <-done:
		return true
	case <-time.After(20 * time.Millisecond):
	}
	var ms runtime.MemStats
	runtime.ReadMemStats(&ms)
	base := ms.TotalAlloc
	for {
		select {
		case <-done:
			return true
		case <-time.After(5 * time.Millisecond):
			runtime.ReadMemStats(&ms)
			if ms.TotalAlloc-base > 256<<20 {
				return false
			}
		}
	}
}

// hangComp reports the failed probe through the usual files; nothing else can be run safely.
type hangComp struct{}

func (hangComp) Gen(r *vh.RNG, n int, emit func(op string, tags ...string)) {
	emit("reset 1 "+vh.Hex([]byte("127.0.0.1:65534-65535"))+" 0 0 1", "preflight")
}

func (hangComp) Run(op string) vh.Result {
	return vh.Result{Out: "hang", Oracle: []string{"PortUnion{65534-65535}.Ports() does not return (it keeps allocating): the hop address list cannot be built (loop counter wraps at 65535?)"}}
}

func TestVerifC19Hop(t *testing.T) {
	if os.Getenv("VERIF_OUT") == "" {
		t.Skip("VERIF_OUT not set")
	}
	memGuard(6 << 30)
	if !portsTerminates() {
		vh.RunFromEnv(hangComp{})
		return // leave at once: the probe goroutine is still allocating
	}
	synctest.Test(t, func(t *testing.T) {
		c := &hopComp{}
		ran := vh.RunFromEnv(c)
		c.cleanup()
		synctest.Wait()
		if !ran {
			t.Skip("VERIF_OUT not set")
		}
	})
}

// ---------------------------------------------------------------- fake sockets

type fakeTimeout struct{}

func (fakeTimeout) Error() string   { return "i/o timeout" }
func (fakeTimeout) Timeout() bool   { return true }
func (fakeTimeout) Temporary() bool { return true }

type fakeEvt struct {
	data    []byte
	timeout bool
}

type fakeSock struct {
	id      int
	mu      sync.Mutex
	closed  bool
	closeCh chan struct{}
	inbox   chan fakeEvt
	rbuf    int
	wbuf    int
	rdl     time.Time
	wdl     time.Time
	h       *hopComp
}

var fakeSrc = &net.UDPAddr{IP: net.IPv4(192, 0, 2, 1), Port: 1}

func (f *fakeSock) ReadFrom(b []byte) (int, net.Addr, error) {
	select {
	case ev := <-f.inbox:
		if ev.timeout {
			return 0, nil, fakeTimeout{}
		}
		return copy(b, ev.data), fakeSrc, nil
	case <-f.closeCh:
		return 0, nil, net.ErrClosed
	}
}

func (f *fakeSock) WriteTo(b []byte, addr net.Addr) (int, error) {
	f.mu.Lock()
	defer f.mu.Unlock()
	if f.closed {
		return 0, net.ErrClosed
	}
	f.h.mu.Lock()
	f.h.writes = append(f.h.writes, fakeWrite{f.id, addr})
	f.h.mu.Unlock()
	return len(b), nil
}

func (f *fakeSock) Close() error {
	f.mu.Lock()
	defer f.mu.Unlock()
	if f.closed {
		return net.ErrClosed
	}
	f.closed = true
	close(f.closeCh)
	return nil
}

// readDeadlinePassed: a read deadline is set on the socket and lies in the (virtual) past.
func (f *fakeSock) readDeadlinePassed() bool {
	f.mu.Lock()
	defer f.mu.Unlock()
	return !f.rdl.IsZero() && !f.rdl.After(time.Now())
}

func (f *fakeSock) isClosed() bool {
	f.mu.Lock()
	defer f.mu.Unlock()
	return f.closed
}

func (f *fakeSock) LocalAddr() net.Addr {
	return &net.UDPAddr{IP: net.IPv4(127, 0, 0, 1), Port: 40000 + f.id}
}

func (f *fakeSock) set(g func()) error {
	f.mu.Lock()
	defer f.mu.Unlock()
	if f.closed {
		return net.ErrClosed
	}
	g()
	return nil
}

func (f *fakeSock) SetDeadline(t time.Time) error { return f.set(func() { f.rdl, f.wdl = t, t }) }
func (f *fakeSock) SetReadDeadline(t time.Time) error {
	return f.set(func() { f.rdl = t })
}
func (f *fakeSock) SetWriteDeadline(t time.Time) error {
	return f.set(func() { f.wdl = t })
}
func (f *fakeSock) SetReadBuffer(n int) error  { return f.set(func() { f.rbuf = n }) }
func (f *fakeSock) SetWriteBuffer(n int) error { return f.set(func() { f.wbuf = n }) }

type fakeWrite struct {
	sock int
	addr net.Addr
}

// ---------------------------------------------------------------- component

type readRes struct {
	n    int
	addr net.Addr
	err  error
	buf  []byte
}

type hopComp struct {
	mu         sync.Mutex // guards socks/writes/listen bookkeeping (touched from the hop goroutine)
	socks      []*fakeSock
	writes     []fakeWrite
	failNext   bool
	listens    int
	lastListen time.Time
	armClose   bool       // the next ListenUDPFunc call starts Close() on the connection from inside
	closeDone  chan error // result of that Close()

	conn      *udpHopPacketConn
	closed    bool // Close() has returned on conn
	refSet    *[65536]bool
	serverIP  net.IP
	wantIP    netip.Addr // the literal host of the address string, parsed independently
	cfgRdl    int64      // the read deadline last set on the connection by the harness (0 = none)
	lastReset time.Time // when the hop timer was last armed
	pending   chan readRes
	pendBlen  int
	expect    [][]byte // payloads queued and not yet read, in arrival order
	dirty     bool     // FIFO shadow unreliable (a packet was dropped while the queue looked non-full)
}

func unixOrZero(t time.Time) int64 {
	if t.IsZero() {
		return 0
	}
	return t.UnixNano()
}

func timeOf(v int64) time.Time {
	if v == 0 {
		return time.Time{}
	}
	return time.Unix(0, v)
}

func (c *hopComp) listen() (net.PacketConn, error) {
	c.mu.Lock()
	arm := c.armClose
	c.armClose = false
	c.mu.Unlock()
	if arm {
		// Close() arrives while the hop is inside ListenUDPFunc.  It is given every chance to
		// run (it cannot be waited for with synctest.Wait: blocking on the connection mutex,
		// which is what the correct code does, is not a durable block).
		conn := c.conn
		ch := make(chan error, 1)
		var fin atomic.Bool
		go func() {
			err := conn.Close()
			fin.Store(true)
			ch <- err
		}()
		for i := 0; i < 20000 && !fin.Load(); i++ {
			runtime.Gosched()
		}
		c.mu.Lock()
		c.closeDone = ch
		c.mu.Unlock()
	}
	c.mu.Lock()
	defer c.mu.Unlock()
	c.listens++
	c.lastListen = time.Now()
	if c.failNext {
		return nil, errors.New("listen failed (injected)")
	}
	s := &fakeSock{id: len(c.socks), closeCh: make(chan struct{}), inbox: make(chan fakeEvt), h: c}
	c.socks = append(c.socks, s)
	return s, nil
}

func (c *hopComp) nsocks() int {
	c.mu.Lock()
	defer c.mu.Unlock()
	return len(c.socks)
}

func (c *hopComp) sock(k int) *fakeSock {
	c.mu.Lock()
	defer c.mu.Unlock()
	if k < 0 || k >= len(c.socks) {
		return nil
	}
	return c.socks[k]
}

func (c *hopComp) closedFlags() []bool {
	n := c.nsocks()
	out := make([]bool, n)
	for i := 0; i < n; i++ {
		out[i] = c.sock(i).isClosed()
	}
	return out
}

// cleanup closes the connection and lets every goroutine of the history finish.
func (c *hopComp) cleanup() {
	if c.conn != nil {
		_ = c.conn.Close()
		synctest.Wait()
		if c.pending != nil {
			select {
			case <-c.pending:
			default:
			}
		}
		// a socket leaked by the implementation would keep its recvLoop alive: close it
		for i := 0; i < c.nsocks(); i++ {
			_ = c.sock(i).Close()
		}
		synctest.Wait()
	}
	c.conn = nil
	c.closed = false
	c.pending = nil
	c.expect = nil
	c.dirty = false
	c.cfgRdl = 0
	c.mu.Lock()
	c.socks = nil
	c.writes = nil
	c.listens = 0
	c.failNext = false
	c.armClose = false
	c.closeDone = nil
	c.mu.Unlock()
}

// ---- independent reference for the port set (no strconv, no sort)

func refNum(s string) (int, bool) {
	if len(s) == 0 {
		return 0, false
	}
	for i := 0; i < len(s); i++ {
		if s[i] < '0' || s[i] > '9' {
			return 0, false
		}
	}
	s = strings.TrimLeft(s, "0")
	if len(s) > 5 {
		return 0, false
	}
	v := 0
	for i := 0; i < len(s); i++ {
		v = v*10 + int(s[i]-'0')
	}
	return v, v <= 65535
}

func refParse(s string) (*[65536]bool, int, bool) {
	var bm [65536]bool
	if s == "all" || s == "*" {
		for i := range bm {
			bm[i] = true
		}
		return &bm, 65536, true
	}
	for _, item := range strings.Split(s, ",") {
		dash := strings.IndexByte(item, '-')
		if dash < 0 {
			v, ok := refNum(item)
			if !ok {
				return nil, 0, false
			}
			bm[v] = true
			continue
		}
		a, ok1 := refNum(item[:dash])
		b, ok2 := refNum(item[dash+1:])
		if !ok1 || !ok2 {
			return nil, 0, false
		}
		if a > b {
			a, b = b, a
		}
		for i := a; i <= b; i++ {
			bm[i] = true
		}
	}
	n := 0
	for _, x := range bm {
		if x {
			n++
		}
	}
	return &bm, n, true
}

var (
	rePlain   = regexp.MustCompile(`^([^:\[\]]*):([^:\[\]]*)$`)
	reBracket = regexp.MustCompile(`^\[([^\[\]]*)\]:([^:\[\]]*)$`)
)

// refSplit: independent description of host:port / [host]:port.
func refSplit(s string) (host, port string, ok bool) {
	if m := reBracket.FindStringSubmatch(s); m != nil {
		return m[1], m[2], true
	}
	if m := rePlain.FindStringSubmatch(s); m != nil {
		return m[1], m[2], true
	}
	return "", "", false
}

var splitKinds = map[string]string{
	"missing port in address":    "missingport",
	"too many colons in address": "toomanycolons",
	"missing ']' in address":     "missingbracket",
	"unexpected '[' in address":  "unexpectedopen",
	"unexpected ']' in address":  "unexpectedclose",
}

// ---- census oracle

func (c *hopComp) census(fails *[]string) {
	if c.conn == nil {
		return
	}
	n := c.nsocks()
	open := 0
	c.conn.connMutex.RLock()
	cur, prev := c.conn.currentConn, c.conn.prevConn
	c.conn.connMutex.RUnlock()
	for i := 0; i < n; i++ {
		s := c.sock(i)
		if s.isClosed() {
			continue
		}
		open++
		if net.PacketConn(s) != cur && net.PacketConn(s) != prev {
			*fails = append(*fails, fmt.Sprintf("socket %d is open but is neither currentConn nor prevConn (leaked)", i))
		}
	}
	if open > 2 {
		*fails = append(*fails, fmt.Sprintf("%d sockets open between hops (at most 2 allowed)", open))
	}
	if c.closed {
		if open != 0 {
			*fails = append(*fails, fmt.Sprintf("%d socket(s) still open after Close returned", open))
		}
	} else {
		if n > 0 && cur != net.PacketConn(c.sock(n-1)) {
			*fails = append(*fails, "currentConn is not the newest socket")
		}
		if fs, ok := cur.(*fakeSock); ok && fs.isClosed() {
			*fails = append(*fails, "currentConn is closed while the connection is open")
		}
		if fs, ok := prev.(*fakeSock); ok && prev != nil && fs != nil && fs.isClosed() {
			*fails = append(*fails, "prevConn is closed while the connection is open")
		}
	}
}

// startRead issues ReadFrom on its own goroutine and waits until it returned or is parked.
func (c *hopComp) startRead(blen int) (readRes, bool) {
	ch := make(chan readRes, 1)
	conn := c.conn
	go func() {
		buf := make([]byte, blen)
		n, addr, err := conn.ReadFrom(buf)
		ch <- readRes{n, addr, err, buf}
	}()
	synctest.Wait()
	select {
	case r := <-ch:
		return r, true
	default:
		c.pending = ch
		c.pendBlen = blen
		return readRes{}, false
	}
}

// readOutcome renders a completed read and checks it against the FIFO shadow.
func (c *hopComp) readOutcome(r readRes, blen int, fails *[]string) string {
	if r.err != nil {
		var ne net.Error
		if errors.As(r.err, &ne) && ne.Timeout() {
			if len(c.expect) > 0 && c.expect[0] == nil {
				c.expect = c.expect[1:]
			} else if !c.dirty {
				*fails = append(*fails, "ReadFrom returned a timeout error that was not next in arrival order")
			}
			return "read timeout"
		}
		if errors.Is(r.err, net.ErrClosed) {
			return "read closed"
		}
		return "read err=" + r.err.Error()
	}
	got := r.buf[:r.n]
	if len(c.expect) == 0 || c.expect[0] == nil {
		if !c.dirty {
			*fails = append(*fails, "ReadFrom returned a packet that was not next in arrival order")
		}
	} else {
		want := c.expect[0]
		if len(want) > blen {
			want = want[:blen]
		}
		if string(want) != string(got) && !c.dirty {
			*fails = append(*fails, fmt.Sprintf("ReadFrom returned %s, next in arrival order was %s", vh.Hex(got), vh.Hex(want)))
		}
	}
	if len(c.expect) > 0 {
		c.expect = c.expect[1:]
	}
	if r.addr != c.conn.Addr {
		*fails = append(*fails, "ReadFrom did not report the hop address as source")
	}
	return "read pkt=" + vh.Hex(got)
}

// pendingDone collects a parked reader that has completed meanwhile.
func (c *hopComp) pendingDone() (readRes, bool) {
	if c.pending == nil {
		return readRes{}, false
	}
	select {
	case r := <-c.pending:
		c.pending = nil
		return r, true
	default:
		return readRes{}, false
	}
}

func b2s(b bool) string {
	if b {
		return "1"
	}
	return "0"
}

// observeHop renders what a hop() call did, from the fakes.
func (c *hopComp) observeHop(before []bool, listensBefore int, curBefore, prevBefore net.PacketConn, listenOk bool, fails *[]string) (string, string) {
	c.mu.Lock()
	listens := c.listens
	c.mu.Unlock()
	after := c.closedFlags()
	if listens == listensBefore {
		// listen was not called
		if len(after) != len(before) {
			*fails = append(*fails, "a socket appeared without ListenUDPFunc being called")
		}
		return "hop closed", "hop " + b2s(listenOk) + " 0"
	}
	if !listenOk {
		c.conn.connMutex.RLock()
		cur, prev := c.conn.currentConn, c.conn.prevConn
		c.conn.connMutex.RUnlock()
		same := len(after) == len(before) && cur == curBefore && prev == prevBefore
		for i := range before {
			if i < len(after) && before[i] != after[i] {
				same = false
			}
		}
		if !same {
			*fails = append(*fails, "a failed listen changed the sockets (previous socket forgotten or closed)")
		}
		return "hop listenerr", "hop 0 0"
	}
	closedNow := "-"
	for i := range before {
		if !before[i] && after[i] {
			if closedNow != "-" {
				*fails = append(*fails, "one hop closed more than one socket")
			}
			closedNow = fmt.Sprint(i)
		}
	}
	idx := 0
	func() {
		defer func() { recover() }()
		c.conn.connMutex.RLock()
		idx = c.conn.addrIndex
		c.conn.connMutex.RUnlock()
	}()
	return fmt.Sprintf("hop new=%d closed=%s", len(after)-1, closedNow), fmt.Sprintf("hop 1 %d", idx)
}

func (c *hopComp) Run(op string) (res vh.Result) {
	f := strings.Fields(op)
	if len(f) == 0 {
		return vh.Result{Out: "bad-op"}
	}
	var fails []string
	defer func() {
		if r := recover(); r != nil {
			res = vh.Result{Out: "panic", Oracle: append(fails, "panic: "+strings.ReplaceAll(fmt.Sprint(r), "\n", " "))}
		}
	}()
	atoi := func(s string) int64 {
		var v int64
		if _, err := fmt.Sscan(s, &v); err != nil {
			panic("bad number in op: " + s)
		}
		return v
	}
	switch f[0] {
	case "interval":
		cfg, err := HopIntervalConfig{Min: time.Duration(atoi(f[1])), Max: time.Duration(atoi(f[2]))}.normalized()
		if err != nil {
			return vh.Result{Out: "interval err"}
		}
		if cfg.Min < 5*time.Second || cfg.Min > cfg.Max {
			fails = append(fails, fmt.Sprintf("normalized() accepted min=%v max=%v", cfg.Min, cfg.Max))
		}
		return vh.Result{Out: fmt.Sprintf("interval ok %d %d", int64(cfg.Min), int64(cfg.Max)), NonTrivial: true, Oracle: fails}
	case "jitter":
		rand.Seed(atoi(f[1]))
		mn, mx := time.Duration(atoi(f[2])), time.Duration(atoi(f[3]))
		u := &udpHopPacketConn{HopInterval: HopIntervalConfig{Min: mn, Max: mx}}
		first := u.nextHopInterval()
		for i, d := 0, first; i < 16; i, d = i+1, u.nextHopInterval() {
			if d < mn || d > mx {
				fails = append(fails, fmt.Sprintf("nextHopInterval()=%v outside [%v,%v]", d, mn, mx))
				break
			}
		}
		r := int64(0)
		if mn != mx {
			r = int64(first - mn)
		}
		return vh.Result{Out: fmt.Sprintf("jitter %d", int64(first)), ModelOp: fmt.Sprintf("jitter %d %d %d", int64(mn), int64(mx), r), NonTrivial: mn != mx, Oracle: fails}
	case "end":
		c.cleanup()
		return vh.Result{Out: "end"}
	case "reset":
		c.cleanup()
		rand.Seed(atoi(f[1]))
		full := string(vh.UnHex(f[2]))
		mn, mx := atoi(f[3]), atoi(f[4])
		listenOk := f[5] == "1"
		// independent reading of the address: last colon, optional brackets, literal IP
		host, expr, splitOK := refSplit(full)
		ref, nref, valid := refParse(expr)
		ipres := "err"
		var wantIP netip.Addr
		if splitOK {
			if r, e := net.ResolveIPAddr("ip", host); e == nil {
				ipres = vh.Hex(r.IP)
			}
			if lit, e := netip.ParseAddr(host); e == nil {
				wantIP = lit.WithZone("").Unmap()
			}
		}
		mopFail := fmt.Sprintf("reset %s %s %d %d %s 0", f[2], ipres, mn, mx, f[5])
		addr, err := ResolveUDPHopAddr(full)
		if err != nil {
			out := "new err resolve"
			var ipe InvalidPortError
			var ae *net.AddrError
			switch {
			case errors.As(err, &ipe):
				out = "new err port"
			case errors.As(err, &ae) && splitKinds[ae.Err] != "":
				out = "new err split:" + splitKinds[ae.Err]
			}
			if splitOK && valid && ipres != "err" {
				fails = append(fails, fmt.Sprintf("ResolveUDPHopAddr rejected the well-formed address %q: %v", full, err))
			}
			return vh.Result{Out: out, ModelOp: mopFail, Oracle: fails}
		}
		if !valid || !splitOK {
			fails = append(fails, fmt.Sprintf("ResolveUDPHopAddr accepted the malformed address %q", full))
			ref = &[65536]bool{}
		}
		if len(addr.Ports) != nref {
			fails = append(fails, fmt.Sprintf("address lists %d ports, the expression %d", len(addr.Ports), nref))
		}
		if got, ok := netip.AddrFromSlice(addr.IP); wantIP.IsValid() && (!ok || got.Unmap() != wantIP) {
			fails = append(fails, fmt.Sprintf("resolved server IP %v is not the literal host %q", addr.IP, host))
		}
		c.refSet, c.serverIP, c.wantIP = ref, addr.IP, wantIP
		c.failNext = !listenOk
		pc, err := NewUDPHopPacketConn(addr, HopIntervalConfig{Min: time.Duration(mn), Max: time.Duration(mx)}, c.listen)
		synctest.Wait()
		c.failNext = false
		if err != nil {
			if c.nsocks() != 0 {
				fails = append(fails, "NewUDPHopPacketConn failed but left a socket behind")
			}
			c.mu.Lock()
			c.listens = 0
			c.mu.Unlock()
			return vh.Result{Out: "new err", ModelOp: mopFail, Oracle: fails}
		}
		c.conn = pc.(*udpHopPacketConn)
		c.lastReset = time.Now()
		if c.conn.HopInterval.Min < 5*time.Second || c.conn.HopInterval.Min > c.conn.HopInterval.Max {
			fails = append(fails, "connection created with an interval that violates min>=5s, min<=max")
		}
		idx := c.conn.addrIndex
		if idx < 0 || idx >= len(addr.Ports) {
			fails = append(fails, "initial addrIndex out of range")
		}
		c.census(&fails)
		return vh.Result{Out: fmt.Sprintf("new ok n=%d ip=%s", len(addr.Ports), vh.Hex(addr.IP)), NonTrivial: true,
			ModelOp: fmt.Sprintf("reset %s %s %d %d %s %d", f[2], ipres, mn, mx, f[5], idx), Oracle: fails}
	}
	if c.conn == nil {
		return vh.Result{Out: "noconn"}
	}
	out, mop := "bad-op", ""
	switch f[0] {
	case "tick", "racehop":
		listenOk := f[1] == "1"
		before := c.closedFlags()
		c.mu.Lock()
		listensBefore := c.listens
		c.failNext = !listenOk
		c.mu.Unlock()
		c.conn.connMutex.RLock()
		curB, prevB := c.conn.currentConn, c.conn.prevConn
		c.conn.connMutex.RUnlock()
		if f[0] == "racehop" {
			if !c.closed {
				return vh.Result{Out: "idle", ModelOp: "idle"} // only meaningful after Close
			}
			c.conn.hop(time.Second)
			synctest.Wait()
		} else {
			max := c.conn.HopInterval.Max
			deadline := c.lastReset.Add(max + 2*time.Second)
			for time.Now().Before(deadline) {
				time.Sleep(time.Second)
				synctest.Wait()
				c.mu.Lock()
				l := c.listens
				c.mu.Unlock()
				if l != listensBefore {
					break
				}
			}
			c.mu.Lock()
			fired := c.listens != listensBefore
			at := c.lastListen
			c.mu.Unlock()
			if fired {
				d := at.Sub(c.lastReset)
				if d < c.conn.HopInterval.Min || d > c.conn.HopInterval.Max {
					fails = append(fails, fmt.Sprintf("hop fired %v after the timer was armed, outside [%v,%v]", d, c.conn.HopInterval.Min, c.conn.HopInterval.Max))
				}
				c.lastReset = at
			} else {
				if !c.closed {
					fails = append(fails, "the hop timer did not fire within max interval + 2s")
				}
				c.lastReset = time.Now()
			}
		}
		c.mu.Lock()
		c.failNext = false
		c.mu.Unlock()
		out, mop = c.observeHop(before, listensBefore, curB, prevB, listenOk, &fails)
		if f[0] == "racehop" && out != "hop closed" {
			fails = append(fails, "a hop that ran after Close() returned opened or touched sockets")
		}
	case "closeinlisten":
		// Close() is called while hop() is inside ListenUDPFunc (hop invoked directly: the timer
		// has just fired).  Whatever the interleaving, once both have returned every socket
		// must be closed.  Correct code: Close waits for the mutex, so this is `hop ; close`.
		listenOk := f[1] == "1"
		if c.closed {
			out, mop = "idle", "idle"
			break
		}
		c.conn.connMutex.RLock()
		prevB := c.conn.prevConn
		c.conn.connMutex.RUnlock()
		c.mu.Lock()
		listensBefore := c.listens
		c.failNext = !listenOk
		c.armClose = true
		c.closeDone = nil
		c.mu.Unlock()
		var hopPanic any
		func() {
			defer func() { hopPanic = recover() }()
			c.conn.hop(time.Second)
		}()
		synctest.Wait()
		c.mu.Lock()
		c.failNext = false
		c.armClose = false
		done := c.closeDone
		c.closeDone = nil
		listens := c.listens
		c.mu.Unlock()
		var cerr error
		if done != nil {
			select {
			case cerr = <-done:
			default:
				fails = append(fails, "a Close() issued while hop() was inside ListenUDPFunc never returned")
			}
		} else {
			cerr = c.conn.Close() // listen was not called at all
			synctest.Wait()
		}
		c.closed = true
		idx := c.conn.addrIndex
		switch {
		case hopPanic != nil:
			out = "panic"
			fails = append(fails, "hop() racing Close() panicked: "+strings.ReplaceAll(fmt.Sprint(hopPanic), "\n", " "))
		case listens == listensBefore:
			out = "hop closed"
		case !listenOk:
			out = "hop listenerr"
		default:
			closedNow := "-"
			if fs, ok := prevB.(*fakeSock); ok && fs != nil {
				closedNow = fmt.Sprint(fs.id)
			}
			out = fmt.Sprintf("hop new=%d closed=%s", c.nsocks()-1, closedNow)
		}
		mop = fmt.Sprintf("hop %s %d ; close", b2s(listenOk), idx)
		if cerr == nil {
			out += " ; close ok"
		} else {
			out += " ; close err"
		}
		if r, done := c.pendingDone(); done {
			out += " ; " + c.readOutcome(r, c.pendBlen, &fails)
			mop += fmt.Sprintf(" ; readSelect 0 %d", c.pendBlen)
		} else if c.pending != nil {
			fails = append(fails, "Close() did not unblock a parked ReadFrom")
		}
	case "write":
		n := int(atoi(f[1]))
		c.mu.Lock()
		wb := len(c.writes)
		c.mu.Unlock()
		_, err := c.conn.WriteTo(make([]byte, n), &net.UDPAddr{IP: net.IPv4(203, 0, 113, 9), Port: 9})
		mop = "write"
		c.mu.Lock()
		ws := c.writes[wb:]
		c.mu.Unlock()
		switch {
		case err != nil && c.closed:
			out = "write closed"
			if len(ws) != 0 {
				fails = append(fails, "WriteTo failed but a packet went out")
			}
		case err != nil:
			out = "write sockerr"
			fails = append(fails, "WriteTo failed on an open connection: "+err.Error())
		default:
			if c.closed {
				fails = append(fails, "WriteTo succeeded after Close() returned")
			}
			if len(ws) != 1 {
				fails = append(fails, fmt.Sprintf("one WriteTo produced %d socket writes", len(ws)))
				out = "write none"
				break
			}
			w := ws[0]
			ua, _ := w.addr.(*net.UDPAddr)
			port, ipHex := -1, "-"
			if ua != nil {
				port = ua.Port
				if !ua.IP.Equal(c.serverIP) {
					fails = append(fails, fmt.Sprintf("WriteTo went to %v, not to the server IP %v", ua.IP, c.serverIP))
				}
				if got, ok := netip.AddrFromSlice(ua.IP); c.wantIP.IsValid() && (!ok || got.Unmap() != c.wantIP) {
					fails = append(fails, fmt.Sprintf("WriteTo went to IP %v, the address names %v", ua.IP, c.wantIP))
				}
				if ua.Zone != "" {
					fails = append(fails, "WriteTo destination carries a zone")
				}
				ipHex = vh.Hex(ua.IP)
				if port < 0 || port > 65535 || !c.refSet[port] {
					fails = append(fails, fmt.Sprintf("WriteTo went to port %d, which the port expression does not list", port))
				}
			} else {
				fails = append(fails, "WriteTo destination is not a UDP address")
			}
			if w.sock != c.nsocks()-1 {
				fails = append(fails, fmt.Sprintf("WriteTo used socket %d, the newest is %d", w.sock, c.nsocks()-1))
			}
			out = fmt.Sprintf("write sock=%d ip=%s port=%d", w.sock, ipHex, port)
		}
	case "recv", "rtimeout", "flood":
		k := int(atoi(f[1]))
		var payloads [][]byte
		switch f[0] {
		case "recv":
			payloads = [][]byte{vh.UnHex(f[2])}
		case "rtimeout":
			payloads = [][]byte{nil}
		default:
			n := int(atoi(f[2]))
			for i := 0; i < n; i++ {
				payloads = append(payloads, []byte{byte(k), byte(i >> 8), byte(i)})
			}
		}
		var outs, mops []string
		for _, p := range payloads {
			isTimeout := p == nil
			s := c.sock(k)
			qb := len(c.conn.recvQueue)
			// The fake honours its read deadline: a socket whose read deadline has passed (virtual
			// clock) answers the pending ReadFrom with a timeout and never reads the datagram.
			if !isTimeout && s != nil && !s.isClosed() && s.readDeadlinePassed() {
				if c.cfgRdl == 0 {
					which := "socket"
					c.conn.connMutex.RLock()
					if c.conn.prevConn == net.PacketConn(s) {
						which = "the previous socket"
					}
					c.conn.connMutex.RUnlock()
					fails = append(fails, fmt.Sprintf("a packet that arrived on %s (%d) is not delivered and ReadFrom will surface a timeout although no read deadline is set: the socket still carries an expired read deadline that was cleared on the connection", which, k))
					c.dirty = true
				}
				isTimeout, p = true, nil
			}
			if isTimeout {
				mops = append(mops, fmt.Sprintf("rtimeout %d", k))
			} else {
				mops = append(mops, fmt.Sprintf("recv %d %s", k, vh.Hex(p)))
			}
			if s == nil || s.isClosed() || (isTimeout && qb >= cap(c.conn.recvQueue)) {
				outs = append(outs, "idle")
				continue
			}
			hadPending := c.pending != nil
			s.inbox <- fakeEvt{data: p, timeout: isTimeout}
			synctest.Wait()
			qa := len(c.conn.recvQueue)
			r, done := c.pendingDone()
			queued := qa == qb+1 || (hadPending && done)
			if queued {
				if isTimeout {
					c.expect = append(c.expect, nil)
				} else {
					q := p
					if len(q) > udpBufferSize {
						q = q[:udpBufferSize]
					}
					c.expect = append(c.expect, append([]byte{}, q...))
				}
				outs = append(outs, "queued")
			} else {
				outs = append(outs, "dropped")
				if qb < cap(c.conn.recvQueue) {
					which := "an open socket"
					c.conn.connMutex.RLock()
					if c.conn.prevConn == net.PacketConn(s) {
						which = "the previous socket"
					}
					c.conn.connMutex.RUnlock()
					fails = append(fails, fmt.Sprintf("a packet that arrived on %s (%d) with room in the queue was not delivered", which, k))
					c.dirty = true
				}
			}
			if done {
				outs = append(outs, c.readOutcome(r, c.pendBlen, &fails))
				mops = append(mops, fmt.Sprintf("readSelect 1 %d", c.pendBlen))
			}
		}
		out, mop = strings.Join(outs, " ; "), strings.Join(mops, " ; ")
	case "read":
		blen := int(atoi(f[1]))
		mop = "readBegin"
		if c.pending != nil {
			out = "idle"
			break
		}
		if c.closed {
			// Close() has returned: every read must fail.  On the pinned tree the select in
			// ReadFrom picks the queue about half the time while packets are queued, so ask often.
			out = "read closed"
			for i := 0; i < 64; i++ {
				r, done := c.startRead(blen)
				if !done {
					fails = append(fails, "ReadFrom blocked after Close() returned")
					out = "read waiting"
					break
				}
				if r.err == nil {
					fails = append(fails, "ReadFrom returned a packet after Close() had returned (reads must fail after Close)")
					out = c.readOutcome(r, blen, &fails)
					break
				}
				if !errors.Is(r.err, net.ErrClosed) {
					var ne net.Error
					if errors.As(r.err, &ne) && ne.Timeout() {
						fails = append(fails, "ReadFrom returned a queued timeout after Close() had returned (reads must fail with ErrClosed)")
					}
					out = c.readOutcome(r, blen, &fails)
					break
				}
			}
			break
		}
		r, done := c.startRead(blen)
		if !done {
			out = "read waiting"
			break
		}
		out = "read waiting ; " + c.readOutcome(r, blen, &fails)
		mop = fmt.Sprintf("readBegin ; readSelect 1 %d", blen)
	case "close":
		err := c.conn.Close()
		synctest.Wait()
		mop = "close"
		switch {
		case c.closed && err == nil:
			out = "close again"
		case err == nil:
			out = "close ok"
		default:
			out = "close err"
		}
		c.closed = true
		if r, done := c.pendingDone(); done {
			out += " ; " + c.readOutcome(r, c.pendBlen, &fails)
			mop += fmt.Sprintf(" ; readSelect 0 %d", c.pendBlen)
		} else if c.pending != nil {
			fails = append(fails, "Close() did not unblock a parked ReadFrom")
		}
	case "setdl", "setrdl", "setwdl", "setrbuf", "setwbuf":
		v := atoi(f[1])
		var err error
		switch f[0] {
		case "setdl":
			err = c.conn.SetDeadline(timeOf(v))
			c.cfgRdl = v
		case "setrdl":
			err = c.conn.SetReadDeadline(timeOf(v))
			c.cfgRdl = v
		case "setwdl":
			err = c.conn.SetWriteDeadline(timeOf(v))
		case "setrbuf":
			err = c.conn.SetReadBuffer(int(v))
		default:
			err = c.conn.SetWriteBuffer(int(v))
		}
		mop = op
		if err != nil {
			out = "set err"
		} else {
			out = "set ok"
		}
	case "addr":
		a, _ := c.conn.LocalAddr().(*net.UDPAddr)
		mop = "addr"
		if a == nil {
			out = "addr none"
		} else {
			out = fmt.Sprintf("addr sock=%d", a.Port-40000)
		}
	case "socks":
		var sb strings.Builder
		sb.WriteString("socks")
		for i := 0; i < c.nsocks(); i++ {
			s := c.sock(i)
			s.mu.Lock()
			st := "o"
			if s.closed {
				st = "c"
			}
			fmt.Fprintf(&sb, " %d:%s:%d:%d:%d:%d", i, st, s.rbuf, s.wbuf, unixOrZero(s.rdl), unixOrZero(s.wdl))
			s.mu.Unlock()
		}
		fmt.Fprintf(&sb, " q=%d", len(c.conn.recvQueue))
		out, mop = sb.String(), "socks"
	default:
		return vh.Result{Out: "bad-op"}
	}
	c.census(&fails)
	return vh.Result{Out: out, ModelOp: mop, NonTrivial: out != "idle" && out != "noconn", Oracle: fails}
}

// ---------------------------------------------------------------- generator

func (c *hopComp) Gen(r *vh.RNG, n int, emit func(op string, tags ...string)) {
	sec := int64(time.Second)
	for _, iv := range [][2]int64{{0, 0}, {5 * sec, 5 * sec}, {5*sec - 1, 10 * sec}, {0, 5 * sec}, {5 * sec, 0}, {10 * sec, 5 * sec}, {-1, -1},
		{-5 * sec, 5 * sec}, {5 * sec, 1 << 62}, {30 * sec, 30 * sec}, {1, 1}, {4999999999, 4999999999}, {5 * sec, 5*sec + 1}} {
		emit(fmt.Sprintf("interval %d %d", iv[0], iv[1]), "interval")
	}
	for i := 0; i < 40; i++ {
		a := 5*sec + int64(r.Intn(4))*int64(r.Intn(int(sec)))
		b := a + int64(r.Intn(3))*int64(r.Intn(int(20*sec)))
		emit(fmt.Sprintf("jitter %d %d %d", r.Intn(1<<30), a, b), "jitter")
		emit(fmt.Sprintf("interval %d %d", int64(r.Intn(12))*sec/2*int64(r.Intn(3)), int64(r.Intn(12))*sec/2*int64(r.Intn(3))), "interval")
	}
	exprs := []string{"443", "10000-10002", "20000-20009,20010-20019", "5,4,3", "65535", "0", "65534-65535,0-1", "30000-30003,30002-30008",
		"1000-1001,1003", "00080,81", "all", "40000-39990"}
	bad := []string{"", "1-2-3", "65536", "x", "1,,2", "80-"}
	ops := 0
	e := func(op string, tags ...string) { emit(op, tags...); ops++ }
	for ops < n {
		expr := exprs[r.Intn(len(exprs))]
		if r.Chance(1, 25) {
			expr = bad[r.Intn(len(bad))]
		}
		mn, mx := int64(0), int64(0)
		switch r.Intn(8) {
		case 0:
			mn, mx = 5*sec, 5*sec
		case 1:
			mn, mx = 10*sec, 15*sec
		case 2:
			mn, mx = 7*sec+int64(r.Intn(int(sec))), 9*sec+int64(r.Intn(int(sec)))
		case 3:
			if r.Chance(1, 3) {
				mn, mx = []int64{3 * sec, 0, 10 * sec}[r.Intn(3)], []int64{3 * sec, 5 * sec, 6 * sec}[r.Intn(3)]
			}
		}
		lok := "1"
		if r.Chance(1, 20) {
			lok = "0"
		}
		host := []string{"127.0.0.1", "127.0.0.1", "10.1.2.3", "192.0.2.7", "[::1]", "[2001:db8::1]", "[::ffff:1.2.3.4]", "[fe80::1%eth0]"}[r.Intn(8)]
		full := host + ":" + expr
		badAddr := false
		if r.Chance(1, 40) {
			full = []string{"2001:db8::1:" + expr, "[::1]" + expr, "127.0.0.1", "[::1:" + expr, "1.2.3.256:" + expr}[r.Intn(5)]
			badAddr = true
		}
		e(fmt.Sprintf("reset %d %s %d %d %s", r.Intn(1<<30), vh.Hex([]byte(full)), mn, mx, lok), "reset")
		if _, _, okExpr := refParse(expr); badAddr || !okExpr || lok == "0" || (mn|mx != 0 && (mn == 0 || mx == 0 || mn > mx || mn < 5*sec)) {
			// creation is expected to fail: two probes are enough
			e("write 1", "write-noconn")
			e("socks", "socks")
			continue
		}
		nsock, closed := 1, false
		sockPick := func() int {
			switch r.Intn(6) {
			case 0, 1:
				return nsock - 1
			case 2, 3:
				if nsock >= 2 {
					return nsock - 2
				}
				return 0
			case 4:
				if nsock >= 3 {
					return nsock - 3
				}
				return nsock
			default:
				return r.Intn(nsock + 1)
			}
		}
		pay := 0
		payload := func() string {
			pay++
			b := []byte{byte(pay >> 8), byte(pay)}
			switch r.Intn(12) {
			case 0:
				b = append(b, r.Bytes(r.Range(0, 40))...)
			case 1:
				b = append(b, make([]byte, []int{2045, 2046, 2047, 2100}[r.Intn(4)])...)
			}
			return vh.Hex(b)
		}
		blen := func() int { return []int{2048, 2048, 2048, 1500, 1, 0, 4096}[r.Intn(7)] }
		steps := r.Range(4, 40)
		flood := r.Chance(1, 60)
		d10 := r.Chance(1, 5)
		dlclear := r.Chance(1, 6)
		for i := 0; i < steps; i++ {
			if flood && i == 2 {
				e(fmt.Sprintf("flood %d %d", nsock-1, 1020), "flood")
				for j := 0; j < 8; j++ {
					e(fmt.Sprintf("recv %d %s", sockPick(), payload()), "recv-nearfull")
				}
				e("socks", "socks")
				e("read 2048", "read")
				e(fmt.Sprintf("recv %d %s", nsock-1, payload()), "recv-nearfull")
				continue
			}
			if dlclear && !closed && i == 1 {
				// a read deadline that will have passed, a hop, then the deadline is CLEARED: the
				// previous socket must deliver again
				e(fmt.Sprintf("%s %d", []string{"setrdl", "setdl"}[r.Intn(2)], 946684800000000000+int64(1+r.Intn(3))*sec), "setdeadline")
				e("tick 1", "tick")
				nsock++
				e(fmt.Sprintf("%s 0", []string{"setrdl", "setdl"}[r.Intn(2)]), "setdeadline-clear")
				e("socks", "socks")
				e(fmt.Sprintf("recv %d %s", nsock-2, payload()), "recv-prev-after-clear")
				e(fmt.Sprintf("recv %d %s", nsock-1, payload()), "recv")
				e("read 2048", "read")
				e("read 2048", "read")
				continue
			}
			if d10 && !closed && i == steps-3 {
				// packets still queued when Close returns, then a read
				e(fmt.Sprintf("recv %d %s", nsock-1, payload()), "recv")
				if r.Bool() {
					e(fmt.Sprintf("recv %d %s", sockPick(), payload()), "recv")
				}
				e("close", "close")
				closed = true
				e(fmt.Sprintf("read %d", blen()), "read-after-close")
				continue
			}
			k := r.Intn(100)
			switch {
			case k < 22:
				ok := "1"
				if r.Chance(1, 5) {
					ok = "0"
				}
				e("tick "+ok, "tick")
				if ok == "1" && !closed {
					nsock++
				}
			case k < 38:
				e(fmt.Sprintf("write %d", r.Intn(1400)), "write")
			case k < 56:
				e(fmt.Sprintf("recv %d %s", sockPick(), payload()), "recv")
			case k < 59:
				e(fmt.Sprintf("rtimeout %d", sockPick()), "rtimeout")
			case k < 72:
				tag := "read"
				if closed {
					tag = "read-after-close"
				}
				e(fmt.Sprintf("read %d", blen()), tag)
			case k < 80:
				t := int64(0)
				if !r.Chance(1, 4) {
					t = 946684800000000000 + int64(r.Intn(1000))*sec
				}
				e(fmt.Sprintf("%s %d", []string{"setdl", "setrdl", "setwdl"}[r.Intn(3)], t), "setdeadline")
			case k < 85:
				v := []int{0, 1, 4096, 65536, 1 << 20, 7340032, -1}[r.Intn(7)]
				e(fmt.Sprintf("%s %d", []string{"setrbuf", "setwbuf"}[r.Intn(2)], v), "setbuffer")
			case k < 88:
				e("addr", "addr")
			case k < 95:
				e("socks", "socks")
			case k < 98:
				if closed || r.Bool() {
					e("racehop "+[]string{"1", "1", "0"}[r.Intn(3)], "racehop")
				}
			default:
				if r.Chance(1, 3) {
					e("closeinlisten "+[]string{"1", "1", "1", "0"}[r.Intn(4)], "closeinlisten")
				} else {
					e("close", "close")
				}
				closed = true
			}
		}
		if r.Bool() && !closed {
			if r.Chance(1, 3) {
				e("closeinlisten "+[]string{"1", "1", "1", "0"}[r.Intn(4)], "closeinlisten")
			} else {
				e("close", "close")
			}
			closed = true
			e("racehop 1", "racehop")
			e(fmt.Sprintf("read %d", blen()), "read-after-close")
			e("write 10", "write")
			e("tick 1", "tick")
		}
		e("socks", "socks")
	}
	emit("end", "end")
}
