//go:build verif

// C15, online census over REAL connections: a real core/server with the real traffic stats
// server as its TrafficLogger, real core/client clients over loopback UDP, and the ways a
// connection can end:
//
//	close        clients connect (several per id, one with a rejected auth), relay some bytes, Close()
//	serverclose  the server is closed under connected clients
//	kick         POST /kick, the next relayed chunk is refused, the server drops the connection
//	kickudpup / kickudpdown / kicktcpup / kicktcpdown
//	             the kicked user's NEXT traffic report is, respectively, an upstream UDP datagram
//	             (udpIOImpl.ReceiveMessage), a downstream UDP reply (udpIOImpl.SendMessage), a TCP
//	             chunk client→target, a TCP chunk target→client (both via tcpTrafficLogger): it is
//	             refused once and not counted, the server closes the QUIC connection (further TCP
//	             and UDP fail), /online drops the user and stays so, a reconnect is accepted and
//	             reports normally
//	dualauth     ONE QUIC connection (raw HTTP/3 client) sends TWO auth requests at the same time
//	             while the authenticator blocks, then a third afterwards: the connection must
//	             be listed once, and not at all after it is closed
//	vanish       a client's socket goes silent after auth (server idle timeout), and one goes
//	             silent while a SLOW authenticator is still deciding (auth completes after the
//	             client has gone: online must still be followed by offline)
//
// At every quiescent point GET /online must list exactly the connected authenticated clients.
// The model sees `census n {id on off shown}` with on/off = what the server's EventLogger saw.
package main

import (
	"context"
	"crypto/ecdsa"
	"crypto/elliptic"
	"crypto/rand"
	"crypto/tls"
	"crypto/x509"
	"crypto/x509/pkix"
	"encoding/json"
	"fmt"
	"io"
	"math/big"
	"net"
	"net/http"
	"net/url"
	"strings"
	"sync"
	"sync/atomic"
	"time"

	"github.com/apernet/hysteria/core/v2/client"
	"github.com/apernet/hysteria/core/v2/server"
	vh "github.com/apernet/hysteria/core/v2/verifhlib"
	"github.com/apernet/hysteria/extras/v2/trafficlogger"
	"github.com/apernet/quic-go"
	"github.com/apernet/quic-go/http3"
)

func init() { vh.Register("statslive", func() vh.Component { return &statsLive{} }) }

type statsLive struct{}

func (c *statsLive) Gen(r *vh.RNG, n int, emit func(op string, tags ...string)) {
	modes := []string{"dualauth", "kickudpup", "kickudpdown", "kicktcpup", "kicktcpdown", "close", "serverclose", "kick", "vanish"}
	for i := 0; i < n; i++ {
		m := modes[i%len(modes)]
		emit(fmt.Sprintf("live %s %d %d", m, r.U64()%100000, r.Range(2, 6)), m)
	}
}

func liveCert() (tls.Certificate, error) {
	key, err := ecdsa.GenerateKey(elliptic.P256(), rand.Reader)
	if err != nil {
		return tls.Certificate{}, err
	}
	tpl := &x509.Certificate{SerialNumber: big.NewInt(1), Subject: pkix.Name{CommonName: "verif"},
		NotBefore: time.Now().Add(-time.Hour), NotAfter: time.Now().Add(24 * time.Hour),
		KeyUsage: x509.KeyUsageDigitalSignature, ExtKeyUsage: []x509.ExtKeyUsage{x509.ExtKeyUsageServerAuth}, DNSNames: []string{"verif"}}
	der, err := x509.CreateCertificate(rand.Reader, tpl, tpl, &key.PublicKey, key)
	if err != nil {
		return tls.Certificate{}, err
	}
	return tls.Certificate{Certificate: [][]byte{der}, PrivateKey: key}, nil
}

// auth strings: "ok:<id>" accepted as id; "slow:<id>" accepted after a delay; anything else rejected.
// "gate:<id>" blocks until the gate is opened (an authenticator waiting for its backend).
type liveAuth struct {
	slow    time.Duration
	gate    chan struct{}
	waiting atomic.Int32 // gate:… calls that have reached the authenticator
}

func (a *liveAuth) Authenticate(addr net.Addr, auth string, tx uint64) (bool, string) {
	switch {
	case strings.HasPrefix(auth, "ok:"):
		return true, auth[3:]
	case strings.HasPrefix(auth, "gate:"):
		a.waiting.Add(1)
		<-a.gate
		return true, auth[5:]
	case strings.HasPrefix(auth, "slow:"):
		time.Sleep(a.slow)
		return true, auth[5:]
	}
	return false, ""
}

type liveEvents struct {
	mu      sync.Mutex
	on, off map[string]int
}

func (e *liveEvents) Connect(addr net.Addr, id string, tx uint64) {
	e.mu.Lock()
	e.on[id]++
	e.mu.Unlock()
}

func (e *liveEvents) Disconnect(addr net.Addr, id string, err error) {
	e.mu.Lock()
	e.off[id]++
	e.mu.Unlock()
}
func (e *liveEvents) TCPRequest(addr net.Addr, id, reqAddr string)                          {}
func (e *liveEvents) TCPError(addr net.Addr, id, reqAddr string, err error)                 {}
func (e *liveEvents) UDPRequest(addr net.Addr, id string, sessionID uint32, reqAddr string) {}
func (e *liveEvents) UDPError(addr net.Addr, id string, sessionID uint32, err error)        {}

// mutePacketConn: a client socket that can go silent (nothing sent, nothing received) —
// what the network does to a client that lost power.
type mutePacketConn struct {
	net.PacketConn
	muted atomic.Bool
}

func (m *mutePacketConn) WriteTo(p []byte, addr net.Addr) (int, error) {
	if m.muted.Load() {
		return len(p), nil
	}
	return m.PacketConn.WriteTo(p, addr)
}

func (m *mutePacketConn) ReadFrom(p []byte) (int, net.Addr, error) {
	for {
		n, a, err := m.PacketConn.ReadFrom(p)
		if err != nil || !m.muted.Load() {
			return n, a, err
		}
	}
}

type muteFactory struct {
	conn atomic.Pointer[mutePacketConn]
}

func (f *muteFactory) mute() bool {
	if c := f.conn.Load(); c != nil {
		c.muted.Store(true)
		return true
	}
	return false
}

func (f *muteFactory) New(net.Addr) (net.PacketConn, error) {
	u, err := net.ListenUDP("udp", &net.UDPAddr{IP: net.IPv4(127, 0, 0, 1)})
	if err != nil {
		return nil, err
	}
	c := &mutePacketConn{PacketConn: u}
	f.conn.Store(c)
	return c, nil
}

type liveEnv struct {
	stats   trafficlogger.TrafficStatsServer
	srv     server.Server
	addr    net.Addr
	events  *liveEvents
	echo    net.Listener
	problem func(format string, a ...any)
}

func (e *liveEnv) online() map[string]int64 {
	rep := doRecorder(e.stats, "GET", &url.URL{Path: "/online"}, nil, nil)
	m, err := parseOnline(rep.body)
	if rep.status != 200 || err != nil {
		e.problem("/online failed: %d %v", rep.status, err)
		return map[string]int64{}
	}
	return m
}

func sameCensus(a, b map[string]int64) bool {
	if len(a) != len(b) {
		return false
	}
	for k, v := range a {
		if b[k] != v {
			return false
		}
	}
	return true
}

// expectCensus waits (up to d) for /online to equal want; every intermediate listing must be positive.
func (e *liveEnv) expectCensus(what string, want map[string]int64, d time.Duration) {
	deadline := time.Now().Add(d)
	var got map[string]int64
	for {
		got = e.online()
		for k, v := range got {
			if v <= 0 {
				e.problem("%s: online count of %s is %d", what, k, v)
			}
		}
		if sameCensus(got, want) {
			return
		}
		if time.Now().After(deadline) {
			break
		}
		time.Sleep(3 * time.Millisecond)
	}
	e.problem("%s: /online lists %v, connected authenticated clients are %v (after waiting %v)", what, got, want, d)
}

// pushTCP is a TCP target the harness controls: it echoes, and can push unsolicited bytes to
// every connection it has accepted (the remote speaking first).
type pushTCP struct {
	l     net.Listener
	mu    sync.Mutex
	conns []net.Conn
}

func newPushTCP() (*pushTCP, error) {
	l, err := net.Listen("tcp", "127.0.0.1:0")
	if err != nil {
		return nil, err
	}
	p := &pushTCP{l: l}
	go func() {
		for {
			cn, err := l.Accept()
			if err != nil {
				return
			}
			p.mu.Lock()
			p.conns = append(p.conns, cn)
			p.mu.Unlock()
			go func() { _, _ = io.Copy(cn, cn) }()
		}
	}()
	return p, nil
}

func (p *pushTCP) push(b []byte) {
	p.mu.Lock()
	defer p.mu.Unlock()
	for _, c := range p.conns {
		_, _ = c.Write(b)
	}
}

func (p *pushTCP) close() {
	_ = p.l.Close()
	p.mu.Lock()
	for _, c := range p.conns {
		_ = c.Close()
	}
	p.mu.Unlock()
}

// pushUDP is a UDP remote the harness controls: it echoes, remembers who talked to it last and
// can send that peer an unsolicited datagram.
type pushUDP struct {
	c    *net.UDPConn
	mu   sync.Mutex
	peer net.Addr
}

func newPushUDP() (*pushUDP, error) {
	c, err := net.ListenUDP("udp", &net.UDPAddr{IP: net.IPv4(127, 0, 0, 1)})
	if err != nil {
		return nil, err
	}
	p := &pushUDP{c: c}
	go func() {
		buf := make([]byte, 65536)
		for {
			n, a, err := c.ReadFrom(buf)
			if err != nil {
				return
			}
			p.mu.Lock()
			p.peer = a
			p.mu.Unlock()
			_, _ = c.WriteTo(buf[:n], a)
		}
	}()
	return p, nil
}

func (p *pushUDP) push(b []byte) {
	p.mu.Lock()
	a := p.peer
	p.mu.Unlock()
	if a != nil {
		_, _ = p.c.WriteTo(b, a)
	}
}

func (e *liveEnv) traffic(id string) [2]uint64 {
	rep := doRecorder(e.stats, "GET", &url.URL{Path: "/traffic"}, nil, nil)
	m, err := parseTraffic(rep.body)
	if rep.status != 200 || err != nil {
		e.problem("/traffic failed: %d %v", rep.status, err)
		return [2]uint64{}
	}
	return m[id]
}

func udpRoundTrip(u client.HyUDPConn, addr string, n int, d time.Duration) error {
	if err := u.Send(make([]byte, n), addr); err != nil {
		return err
	}
	got := make(chan error, 1)
	go func() {
		b, _, err := u.Receive()
		if err == nil && len(b) != n {
			err = fmt.Errorf("echo of %d bytes came back as %d", n, len(b))
		}
		got <- err
	}()
	select {
	case err := <-got:
		return err
	case <-time.After(d):
		return fmt.Errorf("no UDP echo within %v", d)
	}
}

// kickVariant: one user ("victor") with ONE connection and quiet flows, so that the harness
// decides what his next traffic report after POST /kick is.
func (e *liveEnv) kickVariant(mode string, want map[string]int64) {
	const victim = "victor"
	tcpT, err := newPushTCP()
	if err != nil {
		e.problem("harness: %v", err)
		return
	}
	defer tcpT.close()
	udpT, err := newPushUDP()
	if err != nil {
		e.problem("harness: %v", err)
		return
	}
	defer udpT.c.Close()
	cl, err := e.dial("ok:"+victim, nil, 0)
	if err != nil {
		e.problem("victor could not connect: %v", err)
		return
	}
	defer cl.Close()
	want[victim] = 1
	e.expectCensus("after victor connected", want, 3*time.Second)

	// establish the flow and let its reports settle (a completed echo = both directions logged)
	var tcn net.Conn
	var ucn client.HyUDPConn
	udpAddr := udpT.c.LocalAddr().String()
	switch mode {
	case "kicktcpup", "kicktcpdown":
		tcn, err = cl.TCP(tcpT.l.Addr().String())
		if err == nil {
			buf := make([]byte, 300)
			if _, err = tcn.Write(buf); err == nil {
				_ = tcn.SetReadDeadline(time.Now().Add(3 * time.Second))
				_, err = io.ReadFull(tcn, buf)
				_ = tcn.SetReadDeadline(time.Time{})
			}
		}
	default:
		ucn, err = cl.UDP()
		if err == nil {
			err = udpRoundTrip(ucn, udpAddr, 300, 3*time.Second)
		}
	}
	if err != nil {
		e.problem("victor's warm-up flow failed: %v", err)
		return
	}
	before := e.traffic(victim)
	if before != [2]uint64{300, 300} {
		e.problem("warm-up echo of 300 bytes accounted as tx=%d rx=%d", before[0], before[1])
	}

	jb, _ := json.Marshal([]string{victim})
	if rep := doRecorder(e.stats, "POST", &url.URL{Path: "/kick"}, nil, jb); rep.status != 200 {
		e.problem("kick answered %d", rep.status)
	}
	// the connection is closed when a new stream can no longer be opened on it
	closed := func() bool {
		cn, err := cl.TCP(e.echo.Addr().String())
		if err != nil {
			return true
		}
		_ = cn.Close()
		return false
	}
	// victor's next report, of the chosen kind (datagrams may get lost: repeat until it shows)
	trigger := func() {
		switch mode {
		case "kickudpup":
			_ = ucn.Send(make([]byte, 500), udpAddr)
		case "kickudpdown":
			udpT.push(make([]byte, 500))
		case "kicktcpup":
			_, _ = tcn.Write(make([]byte, 500))
		case "kicktcpdown":
			tcpT.push(make([]byte, 500))
		}
	}
	trigger()
	gone := false
	for t := time.Now().Add(3 * time.Second); time.Now().Before(t); {
		time.Sleep(60 * time.Millisecond)
		if closed() {
			gone = true
			break
		}
		if strings.HasPrefix(mode, "kickudp") {
			trigger()
		}
	}
	if !gone {
		e.problem("%s: victor was kicked and sent his next report, but 3 s later his connection is still open (new streams are accepted)", mode)
	}
	// the refused report is not counted, and it was the only one
	if after := e.traffic(victim); after != before {
		e.problem("%s: the refused report changed victor's counters from %d/%d to %d/%d", mode, before[0], before[1], after[0], after[1])
	}
	if gone {
		// (a datagram send on a closed QUIC connection is silently dropped by quic-go, so "UDP fails"
		// is observed as: no new UDP session can be opened, and the open one reports EOF)
		if _, err := cl.UDP(); err == nil {
			e.problem("%s: a UDP session still opens on the kicked connection", mode)
		}
		if ucn != nil {
			eof := make(chan error, 1)
			go func() {
				for {
					if _, _, err := ucn.Receive(); err != nil {
						eof <- err
						return
					}
				}
			}()
			select {
			case <-eof:
			case <-time.After(2 * time.Second):
				e.problem("%s: victor's UDP session is still readable 2 s after his connection was closed", mode)
			}
		}
		if _, err := cl.TCP(e.echo.Addr().String()); err == nil {
			e.problem("%s: TCP still opens on the kicked connection", mode)
		}
	}
	delete(want, victim)
	e.expectCensus(mode+": after victor was kicked", want, 3*time.Second)
	e.holdCensus(mode+": after victor was kicked", want, 150*time.Millisecond)

	// the kick is spent: a reconnect is accepted and reports normally
	cl2, err := e.dial("ok:"+victim, nil, 0)
	if err != nil {
		e.problem("%s: victor could not reconnect after the kick: %v", mode, err)
		return
	}
	defer cl2.Close()
	want[victim] = 1
	e.expectCensus(mode+": after victor reconnected", want, 3*time.Second)
	cn, err := cl2.TCP(e.echo.Addr().String())
	if err == nil {
		buf := make([]byte, 1000)
		if _, err = cn.Write(buf); err == nil {
			_ = cn.SetReadDeadline(time.Now().Add(3 * time.Second))
			_, err = io.ReadFull(cn, buf)
		}
		_ = cn.Close()
	}
	if err != nil {
		e.problem("%s: relay on the new connection failed: %v", mode, err)
	}
	u2, err := cl2.UDP()
	if err == nil {
		err = udpRoundTrip(u2, udpAddr, 200, 3*time.Second)
	}
	if err != nil {
		e.problem("%s: UDP on the new connection failed: %v", mode, err)
	}
	if after := e.traffic(victim); after != [2]uint64{before[0] + 1200, before[1] + 1200} {
		e.problem("%s: after reconnecting and echoing 1000 (TCP) + 200 (UDP) bytes the counters are %d/%d, expected %d/%d", mode, after[0], after[1], before[0]+1200, before[1]+1200)
	}
	e.holdCensus(mode+": while victor stays reconnected", want, 100*time.Millisecond)
	_ = cl2.Close()
	delete(want, victim)
	e.expectCensus(mode+": after victor left", want, 3*time.Second)
}

// holdCensus: the listing must STAY equal to want for d.
func (e *liveEnv) holdCensus(what string, want map[string]int64, d time.Duration) {
	for t := time.Now().Add(d); time.Now().Before(t); time.Sleep(5 * time.Millisecond) {
		if got := e.online(); !sameCensus(got, want) {
			e.problem("%s: /online lists %v, connected authenticated clients are %v", what, got, want)
			return
		}
	}
}

func (e *liveEnv) dial(auth string, f client.ConnFactory, idle time.Duration) (client.Client, error) {
	cfg := &client.Config{ServerAddr: e.addr, Auth: auth, TLSConfig: client.TLSConfig{InsecureSkipVerify: true}, ConnFactory: f}
	if idle > 0 {
		cfg.QUICConfig.MaxIdleTimeout = idle
		cfg.QUICConfig.KeepAlivePeriod = 2 * time.Second
	}
	c, _, err := client.NewClient(cfg)
	return c, err
}

func (c *statsLive) Run(op string) vh.Result {
	f := strings.Fields(op)
	if len(f) != 4 || f[0] != "live" {
		return vh.Result{Out: "bad-op"}
	}
	var seed uint64
	var k int
	if _, err := fmt.Sscan(f[2], &seed); err != nil {
		return vh.Result{Out: "bad-op"}
	}
	if _, err := fmt.Sscan(f[3], &k); err != nil || k < 1 || k > 32 {
		return vh.Result{Out: "bad-op"}
	}
	mode := f[1]
	var mu sync.Mutex
	var problems []string
	env := &liveEnv{events: &liveEvents{on: map[string]int{}, off: map[string]int{}}}
	env.problem = func(format string, a ...any) {
		mu.Lock()
		if len(problems) < 8 {
			problems = append(problems, fmt.Sprintf(format, a...))
		}
		mu.Unlock()
	}
	setupFail := func(err error) vh.Result {
		return vh.Result{Out: "setup-error " + strings.ReplaceAll(err.Error(), " ", "_")}
	}
	cert, err := liveCert()
	if err != nil {
		return setupFail(err)
	}
	udp, err := net.ListenUDP("udp", &net.UDPAddr{IP: net.IPv4(127, 0, 0, 1)})
	if err != nil {
		return setupFail(err)
	}
	env.addr = udp.LocalAddr()
	env.echo, err = net.Listen("tcp", "127.0.0.1:0")
	if err != nil {
		return setupFail(err)
	}
	defer env.echo.Close()
	go func() {
		for {
			cn, err := env.echo.Accept()
			if err != nil {
				return
			}
			go func() { _, _ = io.Copy(cn, cn); _ = cn.Close() }()
		}
	}()
	env.stats = trafficlogger.NewTrafficStatsServer("")
	authn := &liveAuth{slow: 700 * time.Millisecond, gate: make(chan struct{})}
	env.srv, err = server.NewServer(&server.Config{
		TLSConfig:     server.TLSConfig{Certificates: []tls.Certificate{cert}},
		QUICConfig:    server.QUICConfig{MaxIdleTimeout: 4 * time.Second},
		Conn:          udp,
		Authenticator: authn,
		EventLogger:   env.events,
		TrafficLogger: env.stats,
	})
	if err != nil {
		return setupFail(err)
	}
	serverClosed := false
	defer func() {
		if !serverClosed {
			_ = env.srv.Close()
		}
	}()
	go func() { _ = env.srv.Serve() }()

	r := vh.NewRNG(seed + 99)
	ids := []string{"alice", "bob", "carol"}
	want := map[string]int64{}
	var clients []client.Client
	var owner []string
	connect := func(id string) bool {
		cl, err := env.dial("ok:"+id, nil, 0)
		if err != nil {
			env.problem("client of %s could not connect: %v", id, err)
			return false
		}
		clients = append(clients, cl)
		owner = append(owner, id)
		want[id]++
		return true
	}
	relay := func(cl client.Client, n int) error {
		cn, err := cl.TCP(env.echo.Addr().String())
		if err != nil {
			return err
		}
		defer cn.Close()
		buf := make([]byte, n)
		if _, err := cn.Write(buf); err != nil {
			return err
		}
		_ = cn.SetReadDeadline(time.Now().Add(3 * time.Second))
		_, err = io.ReadFull(cn, buf)
		return err
	}

	for i := 0; i < k; i++ {
		if !connect(ids[r.Intn(len(ids))]) {
			break
		}
	}
	// a client whose auth is rejected never counts
	if bad, err := env.dial("nope", nil, 0); err == nil {
		env.problem("rejected auth produced a client")
		_ = bad.Close()
	}
	env.expectCensus("after connecting", want, 3*time.Second)

	switch mode {
	case "dualauth":
		var qconn *quic.Conn
		var qmu sync.Mutex
		rt := &http3.Transport{
			TLSClientConfig: &tls.Config{InsecureSkipVerify: true},
			Dial: func(ctx context.Context, _ string, tlsCfg *tls.Config, cfg *quic.Config) (*quic.Conn, error) {
				qc, err := quic.DialAddrEarly(ctx, env.addr.String(), tlsCfg, cfg)
				if err == nil {
					qmu.Lock()
					qconn = qc
					qmu.Unlock()
				}
				return qc, err
			},
		}
		auth := func(a string) int {
			resp, err := rt.RoundTrip(vh.NewAuthRequest(a, 0))
			if err != nil {
				env.problem("auth round trip failed: %v", err)
				return -1
			}
			_ = resp.Body.Close()
			return resp.StatusCode
		}
		// open the connection with a request that is NOT an auth request (masquerade answers it)
		if resp, err := rt.RoundTrip(&http.Request{Method: http.MethodGet, URL: &url.URL{Scheme: "https", Host: "verif", Path: "/"}, Header: http.Header{}}); err != nil {
			env.problem("raw HTTP/3 connection failed: %v", err)
			break
		} else {
			_ = resp.Body.Close()
		}
		env.expectCensus("raw connection, not authenticated", want, 2*time.Second)
		nreq := 2 + int(seed%2)
		codes := make([]int, nreq)
		var wg sync.WaitGroup
		for i := 0; i < nreq; i++ {
			wg.Add(1)
			go func(i int) { defer wg.Done(); codes[i] = auth("gate:zoe") }(i)
		}
		// let the requests reach the server: at least one is inside the authenticator; the others
		// are either waiting for the handler's mutex or (if nothing serialises them) inside it too
		for t := time.Now().Add(3 * time.Second); authn.waiting.Load() == 0 && time.Now().Before(t); {
			time.Sleep(2 * time.Millisecond)
		}
		time.Sleep(250 * time.Millisecond)
		inside := authn.waiting.Load()
		close(authn.gate)
		wg.Wait()
		for i, c := range codes {
			if c != vh.StatusAuthOK {
				env.problem("concurrent auth request %d answered %d", i, c)
			}
		}
		if c := auth("ok:zoe"); c != vh.StatusAuthOK { // already authenticated
			env.problem("repeated auth request answered %d", c)
		}
		want["zoe"] = 1
		time.Sleep(100 * time.Millisecond) // every handler has logged what it is going to log
		env.expectCensus(fmt.Sprintf("one connection authenticated by %d concurrent requests (%d reached the authenticator together)", nreq, inside), want, 2*time.Second)
		env.holdCensus("while that connection stays", want, 150*time.Millisecond)
		_ = rt.Close()
		qmu.Lock()
		if qconn != nil {
			_ = qconn.CloseWithError(0, "")
		}
		qmu.Unlock()
		delete(want, "zoe")
		env.expectCensus("after that connection closed", want, 3*time.Second)
		env.holdCensus("after that connection closed", want, 100*time.Millisecond)
		for _, cl := range clients {
			_ = cl.Close()
		}
		env.expectCensus("after everybody closed", map[string]int64{}, 3*time.Second)
	case "close":
		for i, cl := range clients {
			if r.Chance(2, 3) {
				if err := relay(cl, r.Range(1, 5000)); err != nil {
					env.problem("relay failed: %v", err)
				}
			}
			_ = i
		}
		env.expectCensus("after relaying", want, 3*time.Second)
		// close in random order, checking the census after each
		for len(clients) > 0 {
			i := r.Intn(len(clients))
			_ = clients[i].Close()
			want[owner[i]]--
			if want[owner[i]] == 0 {
				delete(want, owner[i])
			}
			clients = append(clients[:i], clients[i+1:]...)
			owner = append(owner[:i], owner[i+1:]...)
			env.expectCensus("after a client closed", want, 3*time.Second)
		}
	case "serverclose":
		_ = env.srv.Close()
		serverClosed = true
		env.expectCensus("after the server closed", map[string]int64{}, 5*time.Second)
		for _, cl := range clients {
			_ = cl.Close()
		}
	case "kickudpup", "kickudpdown", "kicktcpup", "kicktcpdown":
		env.kickVariant(mode, want)
		for _, cl := range clients {
			_ = cl.Close()
		}
		env.expectCensus("after everybody closed", map[string]int64{}, 3*time.Second)
	case "kick":
		victim := owner[0]
		jb, _ := json.Marshal([]string{victim})
		if rep := doRecorder(env.stats, "POST", &url.URL{Path: "/kick"}, nil, jb); rep.status != 200 {
			env.problem("kick answered %d", rep.status)
		}
		// one connection of the victim relays: the refused report must make the server drop THAT connection
		var dropped = -1
		for i, cl := range clients {
			if owner[i] != victim {
				continue
			}
			deadline := time.Now().Add(3 * time.Second)
			for time.Now().Before(deadline) {
				if err := relay(cl, 2000); err != nil {
					dropped = i
					break
				}
			}
			break
		}
		if dropped >= 0 {
			want[victim]--
			if want[victim] == 0 {
				delete(want, victim)
			}
			env.expectCensus("after the kicked connection was dropped", want, 3*time.Second)
		}
		// (if the server did not disconnect within 3 s: that clause is C06's (D11); nothing to check here)
		for _, cl := range clients {
			_ = cl.Close()
		}
		env.expectCensus("after everybody closed", map[string]int64{}, 3*time.Second)
	case "vanish":
		// (a) an authenticated client goes silent; (b) a client goes silent while the slow
		// authenticator is still deciding.  Both must be offline once the server's idle
		// timeout (4 s) has fired.
		fa := &muteFactory{}
		ca, err := env.dial("ok:dave", fa, 4*time.Second)
		if err != nil {
			env.problem("client dave could not connect: %v", err)
		}
		want["dave"]++
		env.expectCensus("after dave connected", want, 3*time.Second)
		fb := &muteFactory{}
		bdone := make(chan struct{})
		go func() {
			defer close(bdone)
			cb, err := env.dial("slow:erin", fb, 4*time.Second)
			if err == nil {
				env.problem("erin's client went silent during authentication but NewClient succeeded")
				_ = cb.Close()
			}
		}()
		time.Sleep(250 * time.Millisecond) // the auth request is at the server, the authenticator is sleeping
		if !fb.mute() || !fa.mute() {
			env.problem("harness: a client socket was not created in time")
		}
		// erin is accepted ~450 ms from now although she is gone: online(erin) is logged …
		wantMid := map[string]int64{}
		for k, v := range want {
			wantMid[k] = v
		}
		wantMid["erin"] = 1
		env.expectCensus("slow auth accepted after the client went silent", wantMid, 3*time.Second)
		// … and both must be taken off the list when the idle timeout fires
		delete(want, "dave")
		env.expectCensus("after the idle timeout of the silent clients", want, 9*time.Second)
		<-bdone
		if ca != nil {
			_ = ca.Close()
		}
		for _, cl := range clients {
			_ = cl.Close()
		}
		env.expectCensus("after everybody closed", map[string]int64{}, 3*time.Second)
	default:
		return vh.Result{Out: "bad-op"}
	}
	if !serverClosed {
		_ = env.srv.Close()
		serverClosed = true
	}
	// after the server is closed every handler returns: nothing may stay listed
	env.expectCensus("after shutdown", map[string]int64{}, 5*time.Second)
	final := env.online()
	// Disconnect events are emitted right after the offline notification: let them land
	for t := time.Now().Add(2 * time.Second); time.Now().Before(t); time.Sleep(2 * time.Millisecond) {
		env.events.mu.Lock()
		bal := 0
		for k, v := range env.events.on {
			bal += v - env.events.off[k]
		}
		env.events.mu.Unlock()
		if bal == 0 {
			break
		}
	}
	env.events.mu.Lock()
	keys := map[string]bool{}
	for k := range env.events.on {
		keys[k] = true
	}
	for k := range final {
		keys[k] = true
	}
	var sb strings.Builder
	names := make([]string, 0, len(keys))
	for k := range keys {
		names = append(names, k)
	}
	sortStrings(names)
	fmt.Fprintf(&sb, "census %d", len(names))
	for _, k := range names {
		fmt.Fprintf(&sb, " %s %d %d %d", hx(k), env.events.on[k], env.events.off[k], final[k])
	}
	env.events.mu.Unlock()
	out := "ok"
	if len(problems) > 0 {
		out = "viol"
	}
	return vh.Result{Out: out, ModelOp: sb.String(), NonTrivial: true, Oracle: problems}
}

func sortStrings(s []string) {
	for i := 1; i < len(s); i++ {
		for j := i; j > 0 && s[j] < s[j-1]; j-- {
			s[j], s[j-1] = s[j-1], s[j]
		}
	}
}
