//go:build verif

package main

import (
	"errors"
	"fmt"
	"net"
	"strings"

	"github.com/apernet/hysteria/extras/v2/outbounds"
	vh "github.com/apernet/hysteria/core/v2/verifhlib"
)

// C08, trusted-base support: the contract on server.Outbound the theorems assume —
//   UDP(a) succeeds  ⇒  CheckUDP(a) succeeds,   and   UDP("") fails —
// sampled on the REAL ACL engine behind the REAL PluggableOutboundAdapter (leaf outbounds are
// fakes that open nothing).  There is no model side: this component only has oracles
// (run through tools/hv/props/C08.py: contract_check).

type c08Leaf struct{ name string }

type c08Conn struct{}

func (c08Conn) ReadFrom(b []byte) (int, *outbounds.AddrEx, error) { return 0, nil, errors.New("closed") }
func (c08Conn) WriteTo(b []byte, addr *outbounds.AddrEx) (int, error) { return len(b), nil }
func (c08Conn) Close() error                                       { return nil }

func (l *c08Leaf) TCP(reqAddr *outbounds.AddrEx) (net.Conn, error) { return nil, errors.New("no tcp") }
func (l *c08Leaf) UDP(reqAddr *outbounds.AddrEx) (outbounds.UDPConn, error) {
	return c08Conn{}, nil
}
func (l *c08Leaf) CheckUDP(reqAddr *outbounds.AddrEx) error { return nil }

var c08Rules = []string{
	"reject(all, udp/53)\ndirect(all)",
	"reject(10.0.0.0/8)\nreject(suffix:bad.example)\nother(all, udp/443)\ndirect(all)",
	"direct(1.2.3.4)\nother(suffix:good.example)\nreject(all)",
	"reject(all, udp)\ndirect(all)",
	"reject(all, tcp)\ndirect(all)",
	"direct(all, udp/1000-2000)\nreject(*.example)\nother(all)",
	"reject(::1)\nreject(2001:db8::/32)\ndirect(all)",
	"",
}

type c08Comp struct {
	eng []*outbounds.PluggableOutboundAdapter
}

func newC08() vh.Component {
	c := &c08Comp{}
	for _, r := range c08Rules {
		obs := []outbounds.OutboundEntry{{Name: "direct", Outbound: &c08Leaf{"direct"}}, {Name: "other", Outbound: &c08Leaf{"other"}}}
		e, err := outbounds.NewACLEngineFromString(r, obs, nil)
		if err != nil {
			panic("c08: rule set does not compile: " + err.Error())
		}
		c.eng = append(c.eng, &outbounds.PluggableOutboundAdapter{PluggableOutbound: e})
	}
	return c
}

func init() { vh.Register("udpcontract", newC08) }

func (c *c08Comp) Gen(r *vh.RNG, n int, emit func(op string, tags ...string)) {
	hosts := []string{"10.1.2.3", "10.255.0.1", "1.2.3.4", "8.8.8.8", "x.bad.example", "bad.example", "good.example", "a.good.example",
		"www.example", "example", "[::1]", "[2001:db8::7]", "[2001:db9::7]", "localhost", "", "[", "a b"}
	ports := []string{"53", "443", "80", "1000", "1500", "2000", "2001", "0", "65535", "65536", "-1", "", "x"}
	for i := 0; i < n; i++ {
		var addr, tag string
		switch r.Intn(12) {
		case 0:
			addr, tag = "_", "empty"
		case 1:
			addr, tag = hosts[r.Intn(len(hosts))], "noport"
		case 2:
			addr, tag = string(r.ASCII(r.Range(1, 12))), "random"
		default:
			addr, tag = hosts[r.Intn(len(hosts))]+":"+ports[r.Intn(len(ports))], "hostport"
		}
		if addr == "" {
			addr = "_"
		}
		if strings.ContainsAny(addr, " \t") {
			addr = strings.ReplaceAll(addr, " ", "%")
		}
		emit(fmt.Sprintf("chk %d %s", r.Intn(len(c08Rules)), addr), tag)
	}
}

func (c *c08Comp) Run(op string) vh.Result {
	f := strings.Fields(op)
	var k int
	if len(f) != 3 || f[0] != "chk" {
		return vh.Result{Out: "bad-op"}
	}
	if _, err := fmt.Sscan(f[1], &k); err != nil || k < 0 || k >= len(c.eng) {
		return vh.Result{Out: "bad-op"}
	}
	addr := f[2]
	if addr == "_" {
		addr = ""
	}
	e := c.eng[k]
	chk := e.CheckUDP(addr)
	conn, derr := e.UDP(addr)
	if conn != nil {
		_ = conn.Close()
	}
	res := vh.Result{Out: fmt.Sprintf("udp=%v chk=%v", derr == nil, chk == nil), NonTrivial: derr == nil || chk == nil}
	if derr == nil && chk != nil {
		res.Oracle = append(res.Oracle, fmt.Sprintf("outbound contract: UDP(%q) succeeded but CheckUDP(%q) = %v (rules %d)", addr, addr, chk, k))
	}
	if addr == "" && derr == nil {
		res.Oracle = append(res.Oracle, "outbound contract: UDP(\"\") succeeded")
	}
	return res
}
