//go:build verif

package main

import (
	"fmt"
	"io"
	"net"
	"strings"
	"time"

	vh "github.com/apernet/hysteria/core/v2/verifhlib"
	"github.com/apernet/hysteria/extras/v2/outbounds/speedtest"
)

// C03 (speed-test part): the in-memory speed-test server and the client's reply readers
// fed arbitrary byte streams under arbitrary chunkings.

func init() {
	vh.Register("speedtest", func() vh.Component { return &stComp{} })
	vh.RegisterConsts(func() map[string]any {
		m := map[string]any{}
		for k, v := range speedtest.VerifConsts() {
			m[k] = v
		}
		return m
	})
}

type stComp struct{}

// scriptConn is a net.Conn whose Read side delivers scripted chunks (an empty chunk is a
// (0,nil) read) and then io.EOF, and whose Write side records sizes (and the first bytes).
type scriptConn struct {
	chunks   [][]byte
	consumed int
	lastEOF  bool // deliver io.EOF together with the last data
	head     []byte
	written  int
	closed   bool
}

func (c *scriptConn) Read(p []byte) (int, error) {
	if len(c.chunks) == 0 {
		return 0, io.EOF
	}
	if len(p) == 0 {
		return 0, nil
	}
	cur := c.chunks[0]
	if len(cur) == 0 {
		c.chunks = c.chunks[1:]
		return 0, nil
	}
	n := copy(p, cur)
	if n == len(cur) {
		c.chunks = c.chunks[1:]
	} else {
		c.chunks[0] = cur[n:]
	}
	c.consumed += n
	if c.lastEOF && len(c.chunks) == 0 {
		return n, io.EOF
	}
	return n, nil
}

func (c *scriptConn) Write(p []byte) (int, error) {
	if len(c.head) < 16 {
		k := 16 - len(c.head)
		if k > len(p) {
			k = len(p)
		}
		c.head = append(c.head, p[:k]...)
	}
	c.written += len(p)
	return len(p), nil
}
func (c *scriptConn) Close() error                       { c.closed = true; return nil }
func (c *scriptConn) LocalAddr() net.Addr                { return &net.TCPAddr{} }
func (c *scriptConn) RemoteAddr() net.Addr               { return &net.TCPAddr{} }
func (c *scriptConn) SetDeadline(t time.Time) error      { return nil }
func (c *scriptConn) SetReadDeadline(t time.Time) error  { return nil }
func (c *scriptConn) SetWriteDeadline(t time.Time) error { return nil }

func stBE32(n uint32) []byte { return []byte{byte(n >> 24), byte(n >> 16), byte(n >> 8), byte(n)} }

func (stComp) Gen(r *vh.RNG, n int, emit func(op string, tags ...string)) {
	sizes := []uint32{0, 1, 2, 3, 7, 255, 256, 1000, 0, 1, 5, 300, 65535, 65536, 65537, 70000}
	for i := 0; i < n; i++ {
		k := r.Intn(100)
		eofFlag := fmt.Sprint(r.Intn(2))
		switch {
		case k < 25: // download request (sizes kept ≤ 200000 so a run stays fast), maybe trailing junk
			l := sizes[r.Intn(len(sizes))]
			b := append([]byte{1}, stBE32(l)...)
			b = append(b, r.Bytes(r.Intn(6))...)
			emit("srv "+eofFlag+" "+vh.Chunks(r.Chunk(b)), "download")
		case k < 55: // upload with exactly / fewer / more bytes than announced
			l := sizes[r.Intn(len(sizes))]
			if l > 1000 && r.Chance(2, 3) {
				l = uint32(r.Intn(1000))
			}
			have := int(l)
			switch r.Intn(4) {
			case 0:
				have = r.Intn(int(l) + 1)
			case 1:
				have = int(l) + r.Intn(9)
			}
			b := append([]byte{2}, stBE32(l)...)
			b = append(b, make([]byte, have)...)
			var cs [][]byte
			if r.Bool() {
				cs = r.Chunk(b[:5])
				rest := b[5:]
				for len(rest) > 0 {
					m := r.Range(1, 70000)
					if m > len(rest) {
						m = len(rest)
					}
					cs = append(cs, rest[:m])
					rest = rest[m:]
				}
			} else {
				cs = [][]byte{b}
			}
			emit("srv "+eofFlag+" "+vh.Chunks(cs), "upload")
		case k < 65: // truncated header / unknown type / random
			var b []byte
			switch r.Intn(3) {
			case 0:
				b = append([]byte{byte(1 + r.Intn(2))}, r.Bytes(r.Intn(4))...)
			case 1:
				b = append([]byte{byte(3 + r.Intn(253))}, r.Bytes(r.Intn(8))...)
				if r.Chance(1, 4) {
					b[0] = 0
				}
			default:
				b = r.Bytes(r.Intn(12))
				if len(b) > 0 && (b[0] == 1 || b[0] == 2) && len(b) >= 5 {
					b[1], b[2] = 0, 0 // keep announced sizes small
				}
			}
			emit("srv "+eofFlag+" "+vh.Chunks(r.Chunk(b)), "malformed")
		case k < 90: // a server's reply as the client reads it
			ml := []int{0, 1, 2, 255, 256, 257, 1000, 65535}[r.Intn(8)]
			if ml == 65535 && r.Chance(3, 4) {
				ml = r.Intn(64)
			}
			if r.Chance(1, 3) {
				ml = r.Intn(3000)
			}
			b := []byte{byte(r.Intn(3)), byte(ml >> 8), byte(ml)}
			have := ml
			if r.Chance(1, 3) {
				have = r.Intn(ml + 1)
			}
			b = append(b, r.Bytes(have)...)
			if r.Chance(1, 3) {
				b = b[:r.Intn(len(b)+1)]
			}
			b = append(b, r.Bytes(r.Intn(4))...)
			op := []string{"reply-dl", "reply-ul"}[r.Intn(2)]
			emit(op+" "+vh.Chunks(r.Chunk(b)), "reply")
		default: // upload summary
			b := r.Bytes(r.Intn(12))
			emit("summary "+vh.Chunks(r.Chunk(b)), "summary")
		}
	}
}

func (stComp) Run(op string) vh.Result {
	f := strings.Fields(op)
	var orc []string
	switch f[0] {
	case "srv":
		cs := vh.ParseChunks(f[2])
		c := &scriptConn{chunks: cs, lastEOF: f[1] == "1"}
		out := vh.Guard(func() string {
			err := speedtest.VerifServer(c)
			st := "done"
			if err != nil {
				st = "closed"
			}
			return fmt.Sprintf("%s out=%s written=%d consumed=%d", st, vh.Hex(c.head[:min(5, len(c.head))]), c.written, c.consumed)
		})
		if out == "panic" {
			orc = append(orc, "speed-test server panicked on peer bytes")
		}
		if !c.closed && out != "panic" {
			orc = append(orc, "server returned without closing the connection")
		}
		return vh.Result{Out: out, NonTrivial: strings.HasPrefix(out, "done"), Oracle: orc}
	case "reply-dl", "reply-ul":
		cs := vh.ParseChunks(f[1])
		c := &scriptConn{chunks: cs}
		out := vh.Guard(func() string {
			var ok bool
			var msg string
			var err error
			if f[0] == "reply-dl" {
				ok, msg, err = speedtest.VerifReadDownloadResponse(c)
			} else {
				ok, msg, err = speedtest.VerifReadUploadResponse(c)
			}
			if err != nil {
				return fmt.Sprintf("eof consumed=%d", c.consumed)
			}
			b := "0"
			if ok {
				b = "1"
			}
			return fmt.Sprintf("ok %s %s consumed=%d", b, vh.Hex([]byte(msg)), c.consumed)
		})
		if out == "panic" {
			orc = append(orc, "reply reader panicked on peer bytes")
		}
		return vh.Result{Out: out, NonTrivial: strings.HasPrefix(out, "ok"), Oracle: orc}
	case "summary":
		cs := vh.ParseChunks(f[1])
		c := &scriptConn{chunks: cs}
		out := vh.Guard(func() string {
			d, l, err := speedtest.VerifReadUploadSummary(c)
			if err != nil {
				return fmt.Sprintf("eof consumed=%d", c.consumed)
			}
			return fmt.Sprintf("ok %d %d consumed=%d", d/time.Millisecond, l, c.consumed)
		})
		if out == "panic" {
			orc = append(orc, "summary reader panicked on peer bytes")
		}
		return vh.Result{Out: out, NonTrivial: strings.HasPrefix(out, "ok"), Oracle: orc}
	}
	return vh.Result{Out: "bad-op"}
}
