//go:build verif

// C13 structural facts about extras/obfs/salamander.go, recomputed from the CURRENT working
// tree (go/ast) every time `verif-extras consts` runs, i.e. on every check.
//
// Why: Hy.Model.Salamander treats one WriteTo and one ReadFrom iteration as atomic steps. The
// wrapper serialises Obfuscate under writeMutex and Deobfuscate under readMutex — DIFFERENT
// mutexes — while both derive the packet key through the obfuscator's single scratch buffer
// `keyInput` (PSK ‖ salt slot). The two directions are therefore atomic with respect to each
// other only because each takes the obfuscator's OWN mutex `lk` around the key derivation.
// These facts pin exactly that:
//
//	smKeyInputMethods              methods of *salamanderObfuscator that mention <recv>.keyInput
//	sm<Obfuscate|Deobfuscate>KeyUsesLocked / …Unlocked
//	                               top-level statements of that method that mention <recv>.keyInput or call
//	                               one of those methods, counted by whether <recv>.lk is held at that point
//	                               (between the top-level statements `<recv>.lk.Lock()` and `<recv>.lk.Unlock()`)
//	sm<…>LockNested                lock operations on <recv>.lk that are not top-level statements (the walker
//	                               does not follow those, so the obligation requires 0)
//	smOtherKeyUsers                other methods that call a keyInput method or mention keyInput
//
// A missing file or method yields 9999 (the obligation then fails).
package main

import (
	"go/ast"
	"go/parser"
	"go/token"
	"os"
	"path/filepath"

	vh "github.com/apernet/hysteria/core/v2/verifhlib"
)

func init() { vh.RegisterConsts(c13Facts) }

func c13RepoRoot() string {
	if r := os.Getenv("VERIF_REPO"); r != "" {
		return r
	}
	return "/repo"
}

const (
	c13Type  = "salamanderObfuscator"
	c13Mutex = "lk"
	c13Buf   = "keyInput"
)

func c13RecvName(fd *ast.FuncDecl) string {
	if fd.Recv == nil || len(fd.Recv.List) != 1 {
		return ""
	}
	t := fd.Recv.List[0].Type
	if st, ok := t.(*ast.StarExpr); ok {
		t = st.X
	}
	id, ok := t.(*ast.Ident)
	if !ok || id.Name != c13Type || len(fd.Recv.List[0].Names) != 1 {
		return ""
	}
	return fd.Recv.List[0].Names[0].Name
}

func c13IsRecvSel(e ast.Expr, recv, field string) bool {
	s, ok := e.(*ast.SelectorExpr)
	if !ok || s.Sel.Name != field {
		return false
	}
	id, ok := s.X.(*ast.Ident)
	return ok && id.Name == recv
}

// c13LockOp recognises the expression `<recv>.lk.Lock()` / `.Unlock()`.
func c13LockOp(e ast.Expr, recv string) string {
	c, ok := e.(*ast.CallExpr)
	if !ok || len(c.Args) != 0 {
		return ""
	}
	s, ok := c.Fun.(*ast.SelectorExpr)
	if !ok || !c13IsRecvSel(s.X, recv, c13Mutex) {
		return ""
	}
	if s.Sel.Name == "Lock" || s.Sel.Name == "Unlock" {
		return s.Sel.Name
	}
	return ""
}

// c13Uses counts, inside node n, mentions of <recv>.keyInput and calls <recv>.<m>() with m in ms.
func c13Uses(n ast.Node, recv string, ms map[string]bool) int {
	cnt := 0
	ast.Inspect(n, func(x ast.Node) bool {
		switch v := x.(type) {
		case *ast.SelectorExpr:
			if c13IsRecvSel(v, recv, c13Buf) {
				cnt++
			}
		case *ast.CallExpr:
			if s, ok := v.Fun.(*ast.SelectorExpr); ok {
				if id, ok := s.X.(*ast.Ident); ok && id.Name == recv && ms[s.Sel.Name] {
					cnt++
				}
			}
		}
		return true
	})
	return cnt
}

func c13Facts() map[string]any {
	out := map[string]any{
		"smKeyInputMethods": 9999, "smOtherKeyUsers": 9999,
		"smObfuscateKeyUsesLocked": 9999, "smObfuscateKeyUsesUnlocked": 9999, "smObfuscateLockNested": 9999,
		"smDeobfuscateKeyUsesLocked": 9999, "smDeobfuscateKeyUsesUnlocked": 9999, "smDeobfuscateLockNested": 9999,
	}
	fset := token.NewFileSet()
	file, err := parser.ParseFile(fset, filepath.Join(c13RepoRoot(), "extras", "obfs", "salamander.go"), nil, 0)
	if err != nil {
		return out
	}
	methods := map[string]*ast.FuncDecl{}
	for _, d := range file.Decls {
		if fd, ok := d.(*ast.FuncDecl); ok && fd.Body != nil && c13RecvName(fd) != "" {
			methods[fd.Name.Name] = fd
		}
	}
	keyMethods := map[string]bool{}
	for name, fd := range methods {
		if c13Uses(fd.Body, c13RecvName(fd), nil) > 0 {
			keyMethods[name] = true
		}
	}
	// the two entry points are examined statement by statement, so they are not "key methods"
	// even if they were to touch the buffer directly
	delete(keyMethods, "Obfuscate")
	delete(keyMethods, "Deobfuscate")
	out["smKeyInputMethods"] = len(keyMethods)
	other := 0
	for name, fd := range methods {
		if name == "Obfuscate" || name == "Deobfuscate" || keyMethods[name] {
			continue
		}
		other += c13Uses(fd.Body, c13RecvName(fd), keyMethods)
	}
	out["smOtherKeyUsers"] = other
	for _, name := range []string{"Obfuscate", "Deobfuscate"} {
		fd, ok := methods[name]
		if !ok {
			continue
		}
		recv := c13RecvName(fd)
		held := false
		locked, unlocked, topOps, allOps := 0, 0, 0, 0
		for _, st := range fd.Body.List {
			if es, ok := st.(*ast.ExprStmt); ok {
				switch c13LockOp(es.X, recv) {
				case "Lock":
					held = true
					topOps++
					continue
				case "Unlock":
					held = false
					topOps++
					continue
				}
			}
			if u := c13Uses(st, recv, keyMethods); u > 0 {
				if held {
					locked += u
				} else {
					unlocked += u
				}
			}
		}
		ast.Inspect(fd.Body, func(x ast.Node) bool {
			if e, ok := x.(ast.Expr); ok && c13LockOp(e, recv) != "" {
				allOps++
			}
			return true
		})
		out["sm"+name+"KeyUsesLocked"] = locked
		out["sm"+name+"KeyUsesUnlocked"] = unlocked
		out["sm"+name+"LockNested"] = allOps - topOps
	}
	return out
}
