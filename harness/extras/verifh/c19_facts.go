//go:build verif

// C19 structural facts about extras/transport/udphop/conn.go, recomputed from the CURRENT
// working tree (go/ast) every time `verif-extras consts` runs, i.e. on every check.  They tie
// the atomicity assumption of Hy.Model.Hop ("hop(), Close and WriteTo are single steps") to
// the source: in hop, the test of `closed`, the ListenUDPFunc() call, the closing of prevConn
// and the assignments of prevConn/currentConn all sit inside ONE connMutex.Lock…Unlock region;
// Close sets `closed`, closes both sockets and closes closeChan inside one write-locked region;
// WriteTo tests `closed` and writes on currentConn inside one (read- or write-) locked region.
//
// Per function F in {Hop, Close, WriteTo} and event kind K the fact udphop<F><K> is
// held*100 + region, where held = 0 (no lock) / 1 (RLock) / 2 (Lock) and regions are numbered
// from 1 in source order; 0 = the event does not occur; 9999 = it occurs under different
// lock states.  udphop<F>LockOps counts the lock operations on connMutex in F and
// udphop<F>LockNested those that are not top-level statements of F (the walker only follows
// top-level ones, so the obligation requires 0).
package main

import (
	"go/ast"
	"go/parser"
	"go/token"
	"os"
	"path/filepath"

	vh "github.com/apernet/hysteria/core/v2/verifhlib"
)

func init() { vh.RegisterConsts(c19Facts) }

const c19Mutex = "connMutex"

func c19RepoRoot() string {
	if r := os.Getenv("VERIF_REPO"); r != "" {
		return r
	}
	return "/repo"
}

type c19Walker struct {
	recv   string
	held   int
	region int
	facts  map[string]int
}

func (w *c19Walker) isRecvField(e ast.Expr, field string) bool {
	s, ok := e.(*ast.SelectorExpr)
	if !ok || s.Sel.Name != field {
		return false
	}
	id, ok := s.X.(*ast.Ident)
	return ok && id.Name == w.recv
}

// lockOp recognises `<recv>.connMutex.<Lock|Unlock|RLock|RUnlock>()`.
func (w *c19Walker) lockOp(e ast.Expr) string {
	c, ok := e.(*ast.CallExpr)
	if !ok || len(c.Args) != 0 {
		return ""
	}
	s, ok := c.Fun.(*ast.SelectorExpr)
	if !ok || !w.isRecvField(s.X, c19Mutex) {
		return ""
	}
	switch s.Sel.Name {
	case "Lock", "Unlock", "RLock", "RUnlock":
		return s.Sel.Name
	}
	return ""
}

func (w *c19Walker) event(kind string) {
	v := w.held*100 + w.region
	if w.held == 0 {
		v = 0 + 1000 // unlocked occurrence: distinguishable from "absent"
	}
	if old, ok := w.facts[kind]; ok && old != v {
		v = 9999
	}
	w.facts[kind] = v
}

// scan records the events inside one top-level statement under the current lock state.
func (w *c19Walker) scan(n ast.Node) {
	lhs := map[ast.Expr]bool{}
	ast.Inspect(n, func(x ast.Node) bool {
		switch s := x.(type) {
		case *ast.AssignStmt:
			for _, l := range s.Lhs {
				lhs[l] = true
				switch {
				case w.isRecvField(l, "closed"):
					w.event("ClosedWrite")
				case w.isRecvField(l, "currentConn"), w.isRecvField(l, "prevConn"):
					w.event("Swap")
				}
			}
		case *ast.CallExpr:
			if w.lockOp(s) != "" {
				w.facts["LockNested"]++ // top-level lock statements never reach scan
			}
			if w.isRecvField(s.Fun, "ListenUDPFunc") {
				w.event("Listen")
			}
			if f, ok := s.Fun.(*ast.SelectorExpr); ok {
				if w.isRecvField(f.X, "currentConn") || w.isRecvField(f.X, "prevConn") {
					switch f.Sel.Name {
					case "Close":
						w.event("SockClose")
					case "WriteTo":
						w.event("SockWrite")
					}
				}
			}
			if id, ok := s.Fun.(*ast.Ident); ok && id.Name == "close" && len(s.Args) == 1 && w.isRecvField(s.Args[0], "closeChan") {
				w.event("ChanClose")
			}
		case *ast.SelectorExpr:
			if w.isRecvField(s, "closed") && !lhs[s] {
				w.event("ClosedRead")
			}
		}
		return true
	})
}

func (w *c19Walker) walk(body *ast.BlockStmt) {
	for _, st := range body.List {
		var call ast.Expr
		deferred := false
		switch s := st.(type) {
		case *ast.ExprStmt:
			call = s.X
		case *ast.DeferStmt:
			call, deferred = s.Call, true
		}
		if call != nil {
			if op := w.lockOp(call); op != "" {
				w.facts["LockOps"]++
				switch {
				case deferred: // defer Unlock/RUnlock: held until the function returns
				case op == "Lock":
					w.region++
					w.held = 2
				case op == "RLock":
					w.region++
					w.held = 1
				default:
					w.held = 0
				}
				continue
			}
		}
		w.scan(st)
	}
}

func c19Facts() map[string]any {
	out := map[string]any{}
	kinds := map[string][]string{
		"Hop":     {"ClosedRead", "Listen", "SockClose", "Swap", "LockOps", "LockNested"},
		"Close":   {"ClosedRead", "ClosedWrite", "SockClose", "ChanClose", "LockOps", "LockNested"},
		"WriteTo": {"ClosedRead", "SockWrite", "LockOps", "LockNested"},
	}
	names := map[string]string{"hop": "Hop", "Close": "Close", "WriteTo": "WriteTo"}
	for _, f := range names {
		for _, k := range kinds[f] {
			out["udphop"+f+k] = 0
		}
	}
	fset := token.NewFileSet()
	file, err := parser.ParseFile(fset, filepath.Join(c19RepoRoot(), "extras/transport/udphop/conn.go"), nil, parser.SkipObjectResolution)
	if err != nil {
		out["udphopFactsParsed"] = 0
		return out
	}
	out["udphopFactsParsed"] = 1
	for _, d := range file.Decls {
		fd, ok := d.(*ast.FuncDecl)
		if !ok || fd.Body == nil || fd.Recv == nil || len(fd.Recv.List) != 1 || len(fd.Recv.List[0].Names) != 1 {
			continue
		}
		st, ok := fd.Recv.List[0].Type.(*ast.StarExpr)
		if !ok {
			continue
		}
		if id, ok := st.X.(*ast.Ident); !ok || id.Name != "udpHopPacketConn" {
			continue
		}
		name, ok := names[fd.Name.Name]
		if !ok {
			continue
		}
		w := &c19Walker{recv: fd.Recv.List[0].Names[0].Name, facts: map[string]int{}}
		w.walk(fd.Body)
		for _, k := range kinds[name] {
			out["udphop"+name+k] = w.facts[k]
		}
	}
	return out
}
