//go:build verif

package main

import (
	"bytes"
	"context"
	"errors"
	"fmt"
	"net"
	"net/netip"
	"sort"
	"strconv"
	"strings"
	"sync"
	"sync/atomic"
	"time"

	vh "github.com/apernet/hysteria/core/v2/verifhlib"
	"github.com/apernet/hysteria/extras/v2/realm"
)

// C20: the REAL realm.ServerPuncher on a real PunchPacketConn over a channel-fed fake conn, driven
// through histories of Respond calls (concurrent attempts, duplicate ids, short timeouts,
// cancellations) and incoming packets (hello/ack of live, finished and foreign attempts, from
// usable and unusable sources). After every op the harness waits until the goroutines are
// quiescent and prints: calls returned since the last op, punch packets sent, the conn's
// registered attempts, the puncher's routed ids, packets handed to the reader.

func init() { vh.Register("punchsrv", func() vh.Component { return &punchSrv{} }) }

type srvSend struct {
	data []byte
	dst  string
}

type srvConn struct {
	in     chan inPkt
	reads  atomic.Int64 // entries into ReadFrom
	mu     sync.Mutex
	sends  []srvSend
	closed atomic.Bool
}

func (c *srvConn) ReadFrom(p []byte) (int, net.Addr, error) {
	c.reads.Add(1)
	e, ok := <-c.in
	if !ok {
		return 0, nil, errFake
	}
	return copy(p, e.data), e.addr, nil
}

func (c *srvConn) WriteTo(p []byte, a net.Addr) (int, error) {
	dst := "?"
	if u, ok := a.(*net.UDPAddr); ok {
		if ip4 := u.IP.To4(); ip4 != nil {
			dst = fmt.Sprintf("%s:%d", vh.Hex(ip4), u.Port)
		} else {
			dst = fmt.Sprintf("%s:%d", vh.Hex(u.IP), u.Port)
		}
	}
	c.mu.Lock()
	c.sends = append(c.sends, srvSend{append([]byte{}, p...), dst})
	c.mu.Unlock()
	return len(p), nil
}
func (c *srvConn) Close() error { return nil }
func (c *srvConn) LocalAddr() net.Addr {
	return &net.UDPAddr{IP: net.IPv4(192, 0, 2, 254).To4(), Port: 443}
}
func (c *srvConn) SetDeadline(time.Time) error      { return nil }
func (c *srvConn) SetReadDeadline(time.Time) error  { return nil }
func (c *srvConn) SetWriteDeadline(time.Time) error { return nil }

type srvCall struct {
	k      int
	id     string
	m      metaT
	cancel context.CancelFunc
	done   chan struct{}
	res    realm.PunchResult
	err    error
	pmsg   string
	seen   bool // return already printed
}

func (c *srvCall) returned() bool {
	select {
	case <-c.done:
		return true
	default:
		return false
	}
}

type punchSrv struct {
	inner    *srvConn
	conn     *realm.PunchPacketConn
	p        *realm.ServerPuncher
	stopAll  context.CancelFunc
	calls    map[int]*srvCall
	order    []int
	injected int64
	passed   atomic.Int64
	passBad  atomic.Int64
	lastPkt  atomic.Pointer[inPkt]
	nsends   int
	npassed  int64
}

const srvWait = 3 * time.Second

func waitFor(cond func() bool) bool {
	deadline := time.Now().Add(srvWait)
	for !cond() {
		if time.Now().After(deadline) {
			return false
		}
		time.Sleep(100 * time.Microsecond)
	}
	return true
}

func (s *punchSrv) teardown() {
	if s.conn == nil {
		return
	}
	for _, c := range s.calls {
		c.cancel()
	}
	for _, c := range s.calls {
		<-c.done
	}
	s.stopAll()
	close(s.inner.in)
	s.conn = nil
}

func (s *punchSrv) reset(buf int) {
	s.teardown()
	s.inner = &srvConn{in: make(chan inPkt)}
	s.conn, _ = realm.NewPunchPacketConn(s.inner, buf)
	ctx, cancel := context.WithCancel(context.Background())
	s.stopAll = cancel
	s.p, _ = realm.NewServerPuncher(ctx, s.conn)
	s.calls = map[int]*srvCall{}
	s.order = nil
	s.injected, s.nsends, s.npassed = 0, 0, 0
	s.passed.Store(0)
	s.passBad.Store(0)
	conn, inner := s.conn, s.inner
	go func() { // QUIC's receive loop
		buf := make([]byte, 2048)
		for {
			n, addr, err := conn.ReadFrom(buf)
			if err != nil {
				return
			}
			if p := s.lastPkt.Load(); p == nil || !bytes.Equal(buf[:n], p.data) || addr != p.addr {
				s.passBad.Add(1)
			}
			s.passed.Add(1)
			_ = inner
		}
	}()
	waitFor(func() bool { return s.inner.reads.Load() >= 1 })
}

// live: the calls that hold their id now (entered, not returned, not refused), by the harness's own bookkeeping
func (s *punchSrv) liveByID() map[string]*srvCall {
	out := map[string]*srvCall{}
	for _, k := range s.order {
		c := s.calls[k]
		if !c.returned() {
			if _, taken := out[c.id]; !taken {
				out[c.id] = c
			}
		}
	}
	return out
}

func outcomeOf(c *srvCall) string {
	switch {
	case c.pmsg != "":
		return "panic"
	case c.err == nil:
		return fmt.Sprintf("ok/%s/%d", showAddrPort(c.res.PeerAddr), c.res.Packet.Type)
	case errors.Is(c.err, realm.ErrPunchTimeout):
		return "timeout"
	case errors.Is(c.err, context.Canceled):
		return "cancel"
	case errors.Is(c.err, realm.ErrInvalidPunchAttempt) && strings.Contains(c.err.Error(), "duplicate"):
		return "dup"
	case errors.Is(c.err, realm.ErrInvalidPunchAttempt), errors.Is(c.err, realm.ErrInvalidPunchConfig), errors.Is(c.err, realm.ErrInvalidPunchPacket):
		return "invalid"
	}
	return "error:" + strings.ReplaceAll(c.err.Error(), " ", "_")
}

func setStr(xs []string) string {
	if len(xs) == 0 {
		return "."
	}
	sort.Strings(xs)
	out := xs[:0]
	for i, x := range xs {
		if i == 0 || x != xs[i-1] {
			out = append(out, x)
		}
	}
	return strings.Join(out, ",")
}

// snapshot prints the observable state and runs the model-free oracles that hold in every quiescent state.
func (s *punchSrv) snapshot(res *vh.Result, helloOf ...metaT) {
	hellosToo := func(nonce string) bool {
		for _, m := range helloOf {
			if sx(m.nonce) == nonce {
				return true
			}
		}
		return false
	}
	var rets []string
	for _, k := range s.order {
		c := s.calls[k]
		if c.returned() && !c.seen {
			c.seen = true
			rets = append(rets, fmt.Sprintf("%d:%s", k, outcomeOf(c)))
			if c.pmsg != "" {
				res.Oracle = append(res.Oracle, "Respond panicked: "+c.pmsg)
			}
		}
	}
	s.inner.mu.Lock()
	newSends := append([]srvSend{}, s.inner.sends[s.nsends:]...)
	s.nsends = len(s.inner.sends)
	s.inner.mu.Unlock()
	var sends []string
	for _, w := range newSends {
		typ, nonce := -1, "?"
		for _, k := range s.order {
			c := s.calls[k]
			if ok, t, _, _ := refWellFormed(w.data, c.m.nonce, c.m.obfs); ok {
				typ, nonce = int(t), sx(c.m.nonce)
				break
			}
		}
		if typ == 1 && !hellosToo(nonce) {
			continue // only the hello burst of the call this op started is attributed to it (tickers re-send at any time)
		}
		sends = append(sends, fmt.Sprintf("%d/%s/%s", typ, w.dst, nonce))
		if typ < 0 {
			res.Oracle = append(res.Oracle, "the puncher wrote a packet that is not a punch packet of any attempt: "+vh.Hex(w.data))
		}
	}
	entries, why := realm.VerifC20Registry(s.conn)
	if why != "" {
		res.Oracle = append(res.Oracle, "harness: the conn's attempt table cannot be read (representation changed?): "+why)
	}
	reg := map[string]realm.PunchMetadata{}
	var regS, pmS []string
	for _, e := range entries {
		regS = append(regS, sx(e.ID)+"/"+sx(e.Meta.Nonce))
		if _, dup := reg[e.ID]; dup {
			res.Oracle = append(res.Oracle, fmt.Sprintf("attempt id %q is registered more than once on the conn (a removal will leave a stale entry that keeps diverting)", e.ID))
		}
		reg[e.ID] = e.Meta
	}
	pids, why2 := realm.VerifC20PuncherIDs(s.p)
	if why2 != "" {
		res.Oracle = append(res.Oracle, "harness: the puncher's attempt table cannot be read (representation changed?): "+why2)
	}
	for _, id := range pids {
		pmS = append(pmS, sx(id))
	}
	passed := s.passed.Load()
	ch, _ := realm.VerifC20Chans(s.conn)
	res.Out = fmt.Sprintf("ret=%s sent=%s reg=%s pm=%s pass=%d q=%d panic=0", setStr(rets), setStr(sends), setStr(regS), setStr(pmS), passed-s.npassed, len(ch))
	s.npassed = passed
	// oracles
	live := s.liveByID()
	for id, m := range reg {
		c, ok := live[id]
		if !ok {
			res.Oracle = append(res.Oracle, fmt.Sprintf("attempt %q is still registered on the conn although no Respond call for it is in progress (every call for it has returned): stale diversion", id))
		} else if m.Nonce != c.m.nonce || m.Obfs != c.m.obfs {
			res.Oracle = append(res.Oracle, fmt.Sprintf("the conn's metadata for the live attempt %q is not the one its Respond call registered (a refused or foreign call changed it)", id))
		}
	}
	for id := range live {
		if _, ok := reg[id]; !ok {
			res.Oracle = append(res.Oracle, fmt.Sprintf("the attempt %q in progress is not registered on the conn (something other than its own Respond call removed it)", id))
		}
	}
	for _, id := range pids {
		if _, ok := live[id]; !ok {
			res.Oracle = append(res.Oracle, fmt.Sprintf("the puncher still routes events for %q although every Respond call for it has returned", id))
		}
	}
	if n := s.passBad.Load(); n > 0 {
		res.Oracle = append(res.Oracle, "a packet handed to the reader was not byte-identical with the injected one / its source address")
	}
}

func parsePeers(s string) []netip.AddrPort {
	if s == "." {
		return nil
	}
	var out []netip.AddrPort
	for _, e := range strings.Split(s, ",") {
		f := strings.Split(e, ":")
		ip, _ := netip.AddrFromSlice(vh.UnHex(f[0]))
		port, _ := strconv.Atoi(f[1])
		out = append(out, netip.AddrPortFrom(ip, uint16(port)))
	}
	return out
}

// the candidates the engine derives from these peers for an IPv4 socket (the generator keeps IPs
// distinct, so the symmetric-NAT expansion does not apply): valid IPv4 peers, de-duplicated
func candsOf(peers []netip.AddrPort) string {
	var xs []string
	for _, p := range peers {
		if p.IsValid() && p.Port() != 0 && p.Addr().Is4() {
			xs = append(xs, showAddrPort(p))
		}
	}
	return setStr(xs)
}

func (s *punchSrv) startCall(k int, id string, m metaT, peers []netip.AddrPort, tmo, ivl time.Duration) *srvCall {
	ctx, cancel := context.WithCancel(context.Background())
	c := &srvCall{k: k, id: id, m: m, cancel: cancel, done: make(chan struct{})}
	s.calls[k] = c
	s.order = append(s.order, k)
	p := s.p
	local := []netip.AddrPort{netip.MustParseAddrPort("192.0.2.254:443")}
	go func() {
		defer close(c.done)
		_, c.pmsg = vh.GuardMsg(func() string {
			c.res, c.err = p.Respond(ctx, id, local, peers, realm.PunchMetadata{Nonce: m.nonce, Obfs: m.obfs}, realm.PunchConfig{Timeout: tmo, Interval: ivl})
			return ""
		})
	}()
	return c
}

func (s *punchSrv) helloCount(m metaT) int {
	s.inner.mu.Lock()
	defer s.inner.mu.Unlock()
	n := 0
	for _, w := range s.inner.sends[s.nsends:] {
		if ok, t, _, _ := refWellFormed(w.data, m.nonce, m.obfs); ok && t == 1 {
			n++
		}
	}
	return n
}

func (s *punchSrv) Run(op string) vh.Result {
	f := strings.Fields(op)
	var res vh.Result
	if len(f) == 0 {
		return vh.Result{Out: "bad-op", Oracle: []string{"harness: empty op"}}
	}
	if f[0] != "sreset" && s.conn == nil {
		s.reset(8)
	}
	ms := func(x string) time.Duration { n, _ := strconv.Atoi(x); return time.Duration(n) * time.Millisecond }
	switch {
	case f[0] == "sreset" && len(f) == 2:
		n, _ := strconv.Atoi(f[1])
		s.reset(n)
		return vh.Result{Out: "ok"}
	case f[0] == "scall" && len(f) == 8:
		// scall <k> <id> <nonce> <obfs> <peers> <timeout ms> <interval ms>
		k, _ := strconv.Atoi(f[1])
		id, m := unsx(f[2]), metaT{unsx(f[3]), unsx(f[4])}
		peers := parsePeers(f[5])
		tmo, ivl := ms(f[6]), ms(f[7])
		cands := candsOf(peers)
		_, busy := s.liveByID()[id]
		c := s.startCall(k, id, m, peers, tmo, ivl)
		_, _, mok := refMeta(m.nonce, m.obfs)
		valid := id != "" && mok && cands != "." && tmo >= 0 && ivl >= 0
		short := tmo > 0 && tmo < time.Second
		fin := "live"
		ok := true
		switch {
		case !valid || busy || short:
			ok = waitFor(c.returned)
			if valid && !busy {
				fin = "timeout"
			}
		default:
			nc := len(strings.Split(cands, ","))
			ok = waitFor(func() bool { return c.returned() || s.helloCount(m) >= nc })
		}
		if !ok {
			res.Oracle = append(res.Oracle, "harness: the Respond call did not reach the expected state within 3 s")
		}
		res.ModelOp = fmt.Sprintf("scall %d %s %s %s %s %s %s %s", k, f[2], f[3], f[4], cands, f[6], f[7], fin)
		if valid && !busy {
			s.snapshot(&res, m)
		} else {
			s.snapshot(&res)
		}
		res.NonTrivial = valid
		if busy && valid && c.returned() && !(errors.Is(c.err, realm.ErrInvalidPunchAttempt)) {
			res.Oracle = append(res.Oracle, "a second Respond call for a live attempt id was not refused")
		}
		return res
	case f[0] == "scall2" && len(f) == 9:
		// scall2 <kA> <kB> <id> <nonceA> <obfsA> <nonceB> <obfsB> <peers>: both enter concurrently, long timeout
		kA, _ := strconv.Atoi(f[1])
		kB, _ := strconv.Atoi(f[2])
		id := unsx(f[3])
		mA, mB := metaT{unsx(f[4]), unsx(f[5])}, metaT{unsx(f[6]), unsx(f[7])}
		peers := parsePeers(f[8])
		cands := candsOf(peers)
		nc := len(strings.Split(cands, ","))
		cA := s.startCall(kA, id, mA, peers, 30*time.Second, time.Hour)
		cB := s.startCall(kB, id, mB, peers, 30*time.Second, time.Hour)
		ok := waitFor(func() bool {
			return (cA.returned() && s.helloCount(mB) >= nc) || (cB.returned() && s.helloCount(mA) >= nc)
		})
		if !ok {
			res.Oracle = append(res.Oracle, "of two concurrent Respond calls with one id, not exactly one was refused within 3 s")
		}
		w, l, mw, ml := kA, kB, f[4]+" "+f[5], f[6]+" "+f[7]
		if cA.returned() {
			w, l, mw, ml = kB, kA, ml, mw
			s.order[len(s.order)-2], s.order[len(s.order)-1] = kB, kA // the winner holds the id
		}
		res.ModelOp = fmt.Sprintf("scall2 %d %d %s %s %s %s", w, l, f[3], mw, ml, cands)
		s.snapshot(&res, mA, mB)
		res.NonTrivial = true
		return res
	case f[0] == "scancel" && len(f) == 2:
		k, _ := strconv.Atoi(f[1])
		if c, ok := s.calls[k]; ok {
			c.cancel()
			if !waitFor(c.returned) {
				res.Oracle = append(res.Oracle, "a cancelled Respond call did not return within 3 s")
			}
			res.NonTrivial = !c.seen
		}
		s.snapshot(&res)
		return res
	case f[0] == "spkt" && len(f) == 2:
		specs := parseSpecs(f[1])
		if len(specs) != 1 || specs[0].isErr {
			return vh.Result{Out: "bad-op", Oracle: []string{"harness: spkt takes one packet"}}
		}
		p := specs[0]
		v := viewOf(p.data)
		// who is expected to complete (harness's own reference decoder over the calls in progress)
		var expect *srvCall
		var expType byte
		if !v.response && srcUsable(p.addr) {
			for _, c := range s.liveByID() {
				if ok, t, _, _ := refWellFormed(p.data, c.m.nonce, c.m.obfs); ok {
					expect, expType = c, t
				}
			}
		}
		finished := false // a punch packet of an attempt that is over
		for _, k := range s.order {
			c := s.calls[k]
			if ok, _, _, _ := refWellFormed(p.data, c.m.nonce, c.m.obfs); ok && c.returned() {
				finished = true
			}
		}
		before := s.passed.Load()
		s.lastPkt.Store(&p)
		s.injected++
		want := s.inner.reads.Load() + 1
		s.inner.in <- p
		ok := waitFor(func() bool { return s.inner.reads.Load() >= want })
		if expect != nil {
			ok = ok && waitFor(expect.returned)
		} else {
			time.Sleep(time.Millisecond)
		}
		if !ok {
			res.Oracle = append(res.Oracle, "harness: the packet was not processed / the attempt did not complete within 3 s")
		}
		hint := ""
		if expect != nil {
			hint = expect.id
		}
		res.ModelOp = fmt.Sprintf("spkt %s@%s@%s@%s", vh.Hex(p.data), p.tok, v.String(), sx(hint))
		s.inner.mu.Lock()
		newSends := append([]srvSend{}, s.inner.sends[s.nsends:]...)
		s.inner.mu.Unlock()
		s.snapshot(&res)
		passedNow := s.passed.Load() > before
		switch {
		case expect == nil && !v.response && !passedNow:
			what := "a packet that is neither a STUN response nor a punch packet of an attempt in progress"
			if finished {
				what = "a punch packet of a FINISHED attempt"
			}
			res.Oracle = append(res.Oracle, what+" was withheld from the reader")
		case expect != nil && passedNow:
			res.Oracle = append(res.Oracle, "a punch packet of an attempt in progress was handed to the reader")
		}
		// acks: only in answer to a hello of an attempt in progress, to that packet's source
		for _, w := range newSends {
			for _, k := range s.order {
				c := s.calls[k]
				if ok, t, _, _ := refWellFormed(w.data, c.m.nonce, c.m.obfs); ok && t == 2 {
					src := ""
					if u, ok := p.addr.(*net.UDPAddr); ok && srcUsable(p.addr) {
						src = showAddrPort(netip.AddrPortFrom(netip.MustParseAddr(u.IP.String()).Unmap(), uint16(u.Port)))
					}
					if expect == nil || expType != 1 || c.m != expect.m || w.dst != src {
						res.Oracle = append(res.Oracle, fmt.Sprintf("an ack was sent to %s although the packet just received is not a hello of that attempt from that source", w.dst))
					}
					break
				}
			}
		}
		res.NonTrivial = expect != nil || finished
		return res
	}
	return vh.Result{Out: "bad-op", Oracle: []string{"harness: unparsable op"}}
}

func (s *punchSrv) Gen(r *vh.RNG, n int, emit func(op string, tags ...string)) {
	count := 0
	e := func(op string, tags ...string) { emit(op, tags...); count++ }
	for count < n {
		e(fmt.Sprintf("sreset %d", r.Pick([]int{0, 1, 4, 8})), "sreset")
		type att struct {
			k    int
			id   string
			m    metaT
			live bool
		}
		var atts []*att
		nextK, nextID := 0, 0
		peer := func() string { // distinct IPv4 hosts
			return fmt.Sprintf("%s:%d", vh.Hex([]byte{10, byte(r.Range(0, 250)), byte(r.Range(0, 250)), byte(r.Range(1, 250))}), r.Range(1, 65535))
		}
		peers := func() string {
			switch r.Intn(10) {
			case 0:
				return peer() + "," + fmt.Sprintf("%s:0", vh.Hex(r.Bytes(4))) // one peer without a port
			case 1:
				return peer() + "," + fmt.Sprintf("%s:%d", vh.Hex(r.Bytes(16)), r.Range(1, 65535)) // an IPv6 peer on an IPv4 socket
			case 2, 3:
				return peer() + "," + peer()
			}
			return peer()
		}
		liveAtts := func() []*att {
			var out []*att
			for _, a := range atts {
				if a.live {
					out = append(out, a)
				}
			}
			return out
		}
		srcTok := func() string {
			switch r.Intn(10) {
			case 0:
				return fmt.Sprintf("u:%s:%d", vh.Hex(r.Bytes(4)), r.Pick([]int{0, -1, 65536}))
			case 1:
				return fmt.Sprintf("x:%s:%d", vh.Hex(r.Bytes(4)), r.Range(1, 65535))
			case 2:
				return fmt.Sprintf("u:00000000000000000000ffff%s:%d", vh.Hex(r.Bytes(4)), r.Range(1, 65535))
			}
			return fmt.Sprintf("u:%s:%d", vh.Hex(r.Bytes(4)), r.Range(1, 65535))
		}
		steps := r.Range(8, 30)
		for i := 0; i < steps; i++ {
			la := liveAtts()
			k := r.Intn(100)
			switch {
			case k < 22: // a new attempt that stays in progress
				a := &att{nextK, fmt.Sprintf("a%d", nextID), randMeta(r), true}
				nextK++
				nextID++
				tags := "scall-live"
				if r.Chance(1, 8) && len(atts) > 0 { // the id of a finished attempt is used again, with fresh metadata
					o := atts[r.Intn(len(atts))]
					if !o.live {
						a.id, tags = o.id, "scall-reuse-finished-id"
					}
				}
				atts = append(atts, a)
				e(fmt.Sprintf("scall %d %s %s %s %s 30000 %d", a.k, sx(a.id), sx(a.m.nonce), sx(a.m.obfs), peers(), r.Pick([]int{0, 5, 3600000})), tags)
			case k < 30: // short deadline: times out
				a := &att{nextK, fmt.Sprintf("a%d", nextID), randMeta(r), false}
				nextK++
				nextID++
				atts = append(atts, a)
				e(fmt.Sprintf("scall %d %s %s %s %s %d %d", a.k, sx(a.id), sx(a.m.nonce), sx(a.m.obfs), peer(), r.Pick([]int{10, 20, 30}), r.Pick([]int{0, 4, 3600000})), "scall-timeout")
			case k < 38: // duplicate id of an attempt in progress (other metadata, or the same)
				if len(la) == 0 {
					continue
				}
				o := la[r.Intn(len(la))]
				m := randMeta(r)
				if r.Chance(1, 4) {
					m = o.m
				}
				a := &att{nextK, o.id, m, false}
				nextK++
				atts = append(atts, a)
				e(fmt.Sprintf("scall %d %s %s %s %s %d 0", a.k, sx(a.id), sx(m.nonce), sx(m.obfs), peer(), r.Pick([]int{20, 30000})), "scall-duplicate")
			case k < 43: // refused arguments
				a := &att{nextK, fmt.Sprintf("a%d", nextID), randMeta(r), false}
				nextK++
				nextID++
				id, m, ps, tmo, ivl := a.id, a.m, peer(), "30000", "0"
				switch r.Intn(5) {
				case 0:
					id = ""
				case 1:
					m = badMeta(r)
				case 2:
					ps = "."
					if r.Bool() {
						ps = fmt.Sprintf("%s:0", vh.Hex(r.Bytes(4)))
					}
				case 3:
					tmo = "-5"
				default:
					ivl = "-1"
				}
				a.id, a.m = id, m
				atts = append(atts, a)
				e(fmt.Sprintf("scall %d %s %s %s %s %s %s", a.k, sx(id), sx(m.nonce), sx(m.obfs), ps, tmo, ivl), "scall-invalid")
			case k < 47: // two calls with one id race for it
				a := &att{nextK, fmt.Sprintf("a%d", nextID), randMeta(r), true}
				b := &att{nextK + 1, a.id, randMeta(r), true}
				nextK += 2
				nextID++
				// which one wins is the scheduler's choice: both metas are tried by later packets
				atts = append(atts, a, b)
				e(fmt.Sprintf("scall2 %d %d %s %s %s %s %s %s", a.k, b.k, sx(a.id), sx(a.m.nonce), sx(a.m.obfs), sx(b.m.nonce), sx(b.m.obfs), peer()), "scall2")
			case k < 55: // cancellation
				if len(atts) == 0 {
					continue
				}
				a := atts[r.Intn(len(atts))]
				if len(la) > 0 && r.Chance(3, 4) {
					a = la[r.Intn(len(la))]
				}
				a.live = false
				e(fmt.Sprintf("scancel %d", a.k), "scancel")
			default: // a packet arrives
				var data []byte
				tag := ""
				fin := []*att{}
				for _, a := range atts {
					if !a.live && a.id != "" {
						if _, _, ok := refMeta(a.m.nonce, a.m.obfs); ok {
							fin = append(fin, a)
						}
					}
				}
				kk := r.Intn(100)
				switch {
				case kk < 40 && len(la) > 0: // hello / ack of an attempt in progress → completes it
					a := la[r.Intn(len(la))]
					t := byte(r.Range(1, 2))
					data, tag = refPacket(r, a.m, t, pickPad(r)), fmt.Sprintf("pkt-live-type%d", t)
					// (if the source is unusable the attempt stays in progress; the generator cannot know
					// which of two racing calls holds the id — it keeps both marked live)
				case kk < 55 && len(la) > 0:
					a := la[r.Intn(len(la))]
					data, tag = mutatePunch(r, refPacket(r, a.m, byte(r.Range(1, 2)), pickPad(r)))
					tag = "pkt-live-" + tag
				case kk < 75 && len(fin) > 0: // packets of finished / refused attempts must reach QUIC
					a := fin[r.Intn(len(fin))]
					data, tag = refPacket(r, a.m, byte(r.Range(1, 2)), pickPad(r)), "pkt-finished"
				case kk < 82:
					data, tag = refPacket(r, randMeta(r), byte(r.Range(1, 2)), pickPad(r)), "pkt-foreign"
				case kk < 90:
					data, tag = stunPackets(r)
				default:
					data, tag = quicLike(r), "pkt-quic-like"
				}
				src := srcTok()
				e("spkt "+vh.Hex(data)+"@"+src, tag)
				// bookkeeping for the generator only: a valid packet from a usable source ends the attempt
				if strings.HasPrefix(tag, "pkt-live-type") && strings.HasPrefix(src, "u:") && !strings.HasSuffix(src, ":0") && !strings.HasSuffix(src, ":-1") && !strings.HasSuffix(src, ":65536") {
					for _, a := range la {
						if ok, _, _, _ := refWellFormed(data, a.m.nonce, a.m.obfs); ok {
							a.live = false
							for _, b := range atts { // its racing twin lost long ago
								if b.id == a.id && b != a && b.live {
									b.live = false
								}
							}
						}
					}
				}
			}
		}
		// wind down: cancel what is still in progress; everything must be unregistered afterwards
		for _, a := range atts {
			if a.live {
				e(fmt.Sprintf("scancel %d", a.k), "scancel-final")
			}
		}
		if len(atts) > 0 {
			a := atts[r.Intn(len(atts))]
			if _, _, ok := refMeta(a.m.nonce, a.m.obfs); ok {
				e("spkt "+vh.Hex(refPacket(r, a.m, 1, 0))+"@"+fmt.Sprintf("u:%s:%d", vh.Hex(r.Bytes(4)), r.Range(1, 65535)), "pkt-after-all-returned")
			}
		}
	}
}
