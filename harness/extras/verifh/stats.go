//go:build verif

// C15 correspondence harness for extras/trafficlogger (the traffic stats API server).
//
//	stats      sequential differential: random histories through the REAL http.Handler
//	           (httptest recorder, and a real httptest.Server for well-formed requests) and
//	           direct LogTraffic / LogOnlineState calls, against `hydrv stats`.
//	statsconc  concurrent runs (reporters, pollers with and without clear, kickers, connections
//	           going online/offline) checked against the order-independent consequences of the
//	           theorems; the totals go to `hydrv stats`, which evaluates `Totals.ok` on them.
//
// The oracles restate the property's clauses on what the implementation returned (a ledger of
// allowed bytes, outstanding kicks and paired notifications); they do not use the Lean model.
package main

import (
	"bytes"
	"encoding/json"
	"fmt"
	"io"
	"net/http"
	"net/http/httptest"
	"net/url"
	"runtime"
	"sort"
	"strconv"
	"strings"
	"sync"
	"sync/atomic"

	vh "github.com/apernet/hysteria/core/v2/verifhlib"
	"github.com/apernet/hysteria/extras/v2/trafficlogger"
)

func init() {
	vh.Register("stats", func() vh.Component { return &statsSeq{} })
	vh.Register("statsconc", func() vh.Component { return &statsConc{} })
}

// ------------------------------------------------------------------ shared helpers

func hx(s string) string { return vh.Hex([]byte(s)) }
func unhx(s string) string {
	return string(vh.UnHex(s))
}

type tentry struct {
	Tx *uint64 `json:"tx"`
	Rx *uint64 `json:"rx"`
}

// parseTraffic decodes a /traffic body strictly: an object of {"tx":u64,"rx":u64}.
func parseTraffic(body []byte) (map[string][2]uint64, error) {
	dec := json.NewDecoder(bytes.NewReader(body))
	dec.DisallowUnknownFields()
	var m map[string]*tentry
	if err := dec.Decode(&m); err != nil {
		return nil, err
	}
	if m == nil {
		return nil, fmt.Errorf("null")
	}
	out := map[string][2]uint64{}
	for k, e := range m {
		if e == nil || e.Tx == nil || e.Rx == nil {
			return nil, fmt.Errorf("entry %q incomplete", k)
		}
		out[k] = [2]uint64{*e.Tx, *e.Rx}
	}
	return out, nil
}

func parseOnline(body []byte) (map[string]int64, error) {
	var m map[string]int64
	if err := json.Unmarshal(body, &m); err != nil {
		return nil, err
	}
	if m == nil {
		return nil, fmt.Errorf("null")
	}
	return m, nil
}

func showTraffic(m map[string][2]uint64) string {
	if len(m) == 0 {
		return "-"
	}
	ks := make([]string, 0, len(m))
	for k := range m {
		ks = append(ks, hx(k))
	}
	sort.Strings(ks)
	parts := make([]string, len(ks))
	for i, k := range ks {
		v := m[unhx(k)]
		parts[i] = fmt.Sprintf("%s=%d/%d", k, v[0], v[1])
	}
	return strings.Join(parts, ",")
}

func showOnline(m map[string]int64) string {
	if len(m) == 0 {
		return "-"
	}
	ks := make([]string, 0, len(m))
	for k := range m {
		ks = append(ks, hx(k))
	}
	sort.Strings(ks)
	parts := make([]string, len(ks))
	for i, k := range ks {
		parts[i] = fmt.Sprintf("%s=%d", k, m[unhx(k)])
	}
	return strings.Join(parts, ",")
}

type reply struct {
	status int
	ctype  string
	body   []byte
}

func doRecorder(h http.Handler, method string, u *url.URL, auth *string, body []byte) reply {
	req, err := http.NewRequest(method, "http://stats.invalid/", bytes.NewReader(body))
	if err != nil {
		// method token invalid for net/http: build by hand
		req = &http.Request{Method: method, Header: http.Header{}, Body: io.NopCloser(bytes.NewReader(body)), Proto: "HTTP/1.1", ProtoMajor: 1, ProtoMinor: 1, Host: "stats.invalid"}
	}
	req.URL = u
	req.RequestURI = u.RequestURI()
	if auth != nil {
		req.Header.Set("Authorization", *auth)
	}
	rec := httptest.NewRecorder()
	h.ServeHTTP(rec, req)
	res := rec.Result()
	b, _ := io.ReadAll(res.Body)
	return reply{res.StatusCode, res.Header.Get("Content-Type"), b}
}

func doNet(c *http.Client, base string, method string, u *url.URL, auth *string, body []byte) (reply, error) {
	target := base + u.RequestURI()
	req, err := http.NewRequest(method, target, bytes.NewReader(body))
	if err != nil {
		return reply{}, err
	}
	if auth != nil {
		req.Header.Set("Authorization", *auth)
	}
	res, err := c.Do(req)
	if err != nil {
		return reply{}, err
	}
	defer res.Body.Close()
	b, _ := io.ReadAll(res.Body)
	return reply{res.StatusCode, res.Header.Get("Content-Type"), b}, nil
}

// ------------------------------------------------------------------ sequential component

type statsSeq struct {
	srv    trafficlogger.TrafficStatsServer
	secret string
	ts     *httptest.Server
	client *http.Client

	// ledger (model-free restatement of the property)
	allowed  map[string][2]uint64 // Σ accepted, mod 2^64
	cleared  map[string][2]uint64 // Σ shown by clearing snapshots, mod 2^64
	pending  map[string]bool      // kick outstanding
	live     map[string]int64     // paired online − offline
	unpaired map[string]bool      // an offline arrived with no online before it

	histFailed bool // the oracle already failed in this history (its ledger is no longer meaningful)
	nfail      int  // oracle failures reported so far (capped: the first ones are what matters)
}

func (c *statsSeq) reset(secret string) {
	if c.ts != nil {
		c.ts.Close()
		c.ts = nil
	}
	c.secret = secret
	c.srv = trafficlogger.NewTrafficStatsServer(secret)
	c.allowed = map[string][2]uint64{}
	c.cleared = map[string][2]uint64{}
	c.pending = map[string]bool{}
	c.live = map[string]int64{}
	c.unpaired = map[string]bool{}
	c.histFailed = false
}

var statsIDPool = []string{"a", "b", "user1", "nobody", "", "ü", "a b", `"q"`, "<x>&", "id/with/slash", "0", "null",
	strings.Repeat("L", 300), "日本", "a\tb", "A"}

var statsBigs = []uint64{0, 1, 2, 255, 1500, 65535, 1 << 20, 1<<32 - 1, 1 << 32, 1<<62 + 12345, 1 << 63, 1<<63 + 1, 1<<64 - 2, 1<<64 - 1}

func (c *statsSeq) Gen(r *vh.RNG, n int, emit func(op string, tags ...string)) {
	emitted := 0
	for emitted < n {
		secrets := []string{"", "", "s3cret", "Bearer abc.def", "päss", " lead"}
		secret := secrets[r.Intn(len(secrets))]
		emit("reset "+hx(secret), "reset")
		emitted++
		// id pool of this history
		k := r.Range(1, 4)
		ids := make([]string, k)
		for i := range ids {
			ids[i] = statsIDPool[r.Intn(len(statsIDPool))]
		}
		pick := func() string {
			if r.Chance(1, 25) {
				return statsIDPool[r.Intn(len(statsIDPool))]
			}
			return ids[r.Intn(len(ids))]
		}
		amount := func(big bool) uint64 {
			if big && r.Chance(1, 3) {
				return statsBigs[r.Intn(len(statsBigs))]
			}
			if r.Chance(1, 10) {
				return 0
			}
			return uint64(r.Range(1, 70000))
		}
		bigHistory := r.Chance(1, 4)
		goodAuth := func() string {
			if secret == "" {
				return []string{"-", "-", hx("anything")}[r.Intn(3)]
			}
			return hx(secret)
		}
		authFor := func() (string, string) {
			if r.Chance(1, 8) {
				bad := []string{"", "wrong", secret + "x", strings.ToUpper(secret) + "!", "Bearer " + secret, " " + secret}
				b := bad[r.Intn(len(bad))]
				if b == "" {
					return "-", "auth-none"
				}
				return hx(b), "auth-bad"
			}
			return goodAuth(), "auth-ok"
		}
		netOK := func(auth string) string {
			// real TCP server only for requests net/http transmits verbatim
			a := unhx(auth)
			if auth != "-" && (strings.TrimSpace(a) != a || !isASCII(a)) {
				return "0"
			}
			if r.Chance(1, 6) {
				return "1"
			}
			return "0"
		}
		steps := r.Range(8, 70)
		for j := 0; j < steps; j++ {
			emitted++
			switch w := r.Intn(100); {
			case w < 34:
				emit(fmt.Sprintf("log %s %d %d", hx(pick()), amount(bigHistory), amount(bigHistory)), "log")
			case w < 47:
				a, t := authFor()
				qs := []string{"", "", "clear=1", "clear=1", "clear=true", "clear=0", "clear=false", "clear=T", "clear=t", "clear=TRUE", "clear=True",
					"clear=yes", "clear=", "clear", "Clear=1", "clear=1&clear=0", "clear=0&clear=1", "x=1&clear=t", "clear=%31", "clear=1;x=2",
					"clear=+1", "clear=2", "clear=tRUE", "clear=F", "CLEAR=1", "clear=1&", "&clear=1", "clear=%zz"}
				q := qs[r.Intn(len(qs))]
				emit(fmt.Sprintf("http %s %s GET %s %s -", netOK(a), a, hx("/traffic"), hx(q)), "traffic", t)
			case w < 59:
				a, t := authFor()
				var body string
				tag := "kick"
				switch b := r.Intn(20); {
				case b < 11:
					m := r.Range(1, 3)
					l := make([]string, m)
					for i := range l {
						l[i] = pick()
					}
					jb, _ := json.Marshal(l)
					body = string(jb)
				case b == 11:
					body = "[]"
				case b == 12:
					body = "null"
				case b == 13:
					body = ""
					tag = "kick-malformed"
				case b == 14:
					body = []string{"{", `["a"`, `[1]`, `"a"`, `{"a":1}`, `[["a"]]`, `tru`, `[true]`, `["a",]`, "\x00"}[r.Intn(10)]
					tag = "kick-malformed"
				case b == 15:
					body = `["` + ids[0] + `"] trailing garbage`
					if !json.Valid([]byte(`["` + ids[0] + `"]`)) {
						body = `["a"] x`
					}
				case b == 16:
					body = `["a", null, "b"]`
				case b == 17:
					jb, _ := json.Marshal([]string{ids[0], ids[0], ids[0]})
					body = string(jb)
				case b == 18:
					body = ` [ "a" , "b" ] `
				default:
					l := make([]string, 40)
					for i := range l {
						l[i] = fmt.Sprintf("u%d", i)
					}
					l[7] = pick()
					jb, _ := json.Marshal(l)
					body = string(jb)
				}
				emit(fmt.Sprintf("http %s %s POST %s - %s", netOK(a), a, hx("/kick"), hx(body)), tag, t)
			case w < 74:
				id := pick()
				on := "1"
				// mostly paired; sometimes an offline with nothing online
				if r.Chance(2, 5) {
					on = "0"
				}
				emit(fmt.Sprintf("onl %s %s", hx(id), on), "onl")
			case w < 83:
				a, t := authFor()
				emit(fmt.Sprintf("http %s %s GET %s %s -", netOK(a), a, hx("/online"), hx([]string{"", "", "clear=1", "x"}[r.Intn(4)])), "online", t)
			default:
				a, t := authFor()
				methods := []string{"GET", "POST", "PUT", "DELETE", "HEAD", "PATCH", "OPTIONS", "get", "Post"}
				paths := []string{"/", "/traffic", "/kick", "/online", "/dump/streams", "/traffic/", "/Traffic", "/kick/", "//traffic", "/nope", "/online/x", "", "/traffic%20"}
				m := methods[r.Intn(len(methods))]
				p := paths[r.Intn(len(paths))]
				body := "-"
				if r.Chance(1, 2) {
					jb, _ := json.Marshal([]string{pick()})
					body = hx(string(jb))
				}
				net := netOK(a)
				if m == "HEAD" || m == "get" || m == "Post" || p == "" || strings.Contains(p, "%") || strings.Contains(p, "//") {
					net = "0"
				}
				emit(fmt.Sprintf("http %s %s %s %s %s %s", net, a, m, hx(p), hx([]string{"", "clear=1"}[r.Intn(2)]), body), "misc", t)
			}
		}
		// always end a history with authorised reads of everything
		emit(fmt.Sprintf("http 0 %s GET %s - -", goodAuth(), hx("/traffic")), "traffic", "auth-ok")
		emit(fmt.Sprintf("http 0 %s GET %s - -", goodAuth(), hx("/online")), "online", "auth-ok")
		emitted += 2
	}
}

func isASCII(s string) bool {
	for i := 0; i < len(s); i++ {
		if s[i] >= 0x80 || s[i] < 0x20 {
			return false
		}
	}
	return true
}

func (c *statsSeq) Run(op string) vh.Result {
	f := strings.Fields(op)
	if len(f) == 0 {
		return vh.Result{Out: "bad-op"}
	}
	if f[0] == "reset" && len(f) == 2 {
		c.reset(unhx(f[1]))
		return vh.Result{Out: "reset"}
	}
	if c.srv == nil {
		c.reset("")
	}
	var orc []string
	fail := func(format string, a ...any) {
		if c.histFailed || c.nfail >= 40 {
			return
		}
		orc = append(orc, fmt.Sprintf(format, a...))
	}
	defer func() {
		if len(orc) > 0 {
			c.histFailed = true
			c.nfail++
		}
	}()
	switch {
	case f[0] == "log" && len(f) == 4:
		id := unhx(f[1])
		tx, e1 := strconv.ParseUint(f[2], 10, 64)
		rx, e2 := strconv.ParseUint(f[3], 10, 64)
		if e1 != nil || e2 != nil {
			return vh.Result{Out: "bad-op"}
		}
		ok := c.srv.LogTraffic(id, tx, rx)
		// kick clause: refused exactly when a kick is outstanding; the refusal consumes it
		if ok == c.pending[id] {
			if ok {
				fail("kick not honoured: a kick of %q is outstanding but its next report was accepted", id)
			} else {
				fail("report of %q refused although no kick is outstanding (kick consumed twice / not consumed)", id)
			}
		}
		c.pending[id] = false
		if ok {
			a := c.allowed[id]
			c.allowed[id] = [2]uint64{a[0] + tx, a[1] + rx}
		}
		return vh.Result{Out: "log " + map[bool]string{true: "1", false: "0"}[ok], NonTrivial: true, Oracle: orc}
	case f[0] == "onl" && len(f) == 3:
		id := unhx(f[1])
		on := f[2] == "1"
		c.srv.LogOnlineState(id, on)
		if on {
			c.live[id]++
		} else if c.live[id] == 0 {
			c.unpaired[id] = true
		} else {
			c.live[id]--
		}
		return vh.Result{Out: "onl", NonTrivial: true}
	case f[0] == "http" && len(f) == 7:
		var auth *string
		if f[2] != "-" {
			a := unhx(f[2])
			auth = &a
		}
		method, path, rawq := f[3], unhx(f[4]), unhx(f[5])
		body := vh.UnHex(f[6])
		u := &url.URL{Scheme: "http", Host: "stats.invalid", Path: path, RawQuery: rawq}
		var rep reply
		if f[1] == "1" {
			if c.ts == nil {
				c.ts = httptest.NewServer(c.srv)
				c.client = c.ts.Client()
			}
			var err error
			rep, err = doNet(c.client, c.ts.URL, method, u, auth, body)
			if err != nil {
				return vh.Result{Out: "net-error " + strings.ReplaceAll(err.Error(), " ", "_")}
			}
		} else {
			rep = doRecorder(c.srv, method, u, auth, body)
		}
		// what the decoders make of the request (inputs of the model)
		clearVal := u.Query().Get("clear")
		var ids []string
		bodyTok := "bad"
		if err := json.NewDecoder(bytes.NewReader(body)).Decode(&ids); err == nil {
			hs := make([]string, len(ids))
			for i, s := range ids {
				hs[i] = hx(s)
			}
			bodyTok = "ids:" + strings.Join(hs, ",")
		}
		hdr := "-"
		if auth != nil {
			hdr = hx(*auth)
		}
		mop := fmt.Sprintf("http %s %s %s %s %s", hdr, hx(method), hx(path), hx(clearVal), bodyTok)

		// ---- oracle: access control
		authorised := c.secret == "" || (auth != nil && *auth == c.secret)
		if !authorised && rep.status != http.StatusUnauthorized {
			fail("request without the secret answered %d instead of 401", rep.status)
		}
		if authorised && rep.status == http.StatusUnauthorized {
			fail("request with the correct secret answered 401")
		}
		out := ""
		nontrivial := false
		switch {
		case rep.status == 401:
			out = "401"
		case rep.status == 404:
			out = "404"
		case rep.status == 400:
			out = "400"
		case rep.status == 200 && strings.Contains(string(rep.body), "Hysteria Traffic Stats API server"):
			out = "200 index"
		case rep.status == 200 && method == "GET" && path == "/traffic":
			nontrivial = true
			m, err := parseTraffic(rep.body)
			if err != nil {
				fail("/traffic reply is not the documented JSON: %v", err)
				out = "200 traffic !unparsable"
				break
			}
			if !strings.HasPrefix(rep.ctype, "application/json") {
				fail("/traffic reply has Content-Type %q", rep.ctype)
			}
			out = "200 traffic " + showTraffic(m)
			// conservation clause: cleared so far + shown now = allowed so far (uint64 arithmetic)
			keys := map[string]bool{}
			for k := range m {
				keys[k] = true
			}
			for k := range c.allowed {
				keys[k] = true
			}
			for k := range c.cleared {
				keys[k] = true
			}
			for k := range keys {
				cl, sh, al := c.cleared[k], m[k], c.allowed[k]
				if cl[0]+sh[0] != al[0] || cl[1]+sh[1] != al[1] {
					fail("conservation broken for %q: cleared %d/%d + shown %d/%d != allowed %d/%d", k, cl[0], cl[1], sh[0], sh[1], al[0], al[1])
				}
			}
			if b, _ := strconv.ParseBool(clearVal); b && authorised {
				for k, sh := range m {
					cl := c.cleared[k]
					c.cleared[k] = [2]uint64{cl[0] + sh[0], cl[1] + sh[1]}
				}
			}
		case rep.status == 200 && method == "GET" && path == "/online":
			nontrivial = true
			m, err := parseOnline(rep.body)
			if err != nil {
				fail("/online reply is not the documented JSON: %v", err)
				out = "200 online !unparsable"
				break
			}
			out = "200 online " + showOnline(m)
			for k, v := range m {
				if v <= 0 {
					fail("online count of %q is %d (must be positive or absent)", k, v)
				}
			}
			keys := map[string]bool{}
			for k := range m {
				keys[k] = true
			}
			for k := range c.live {
				keys[k] = true
			}
			for k := range keys {
				if c.unpaired[k] {
					continue
				}
				if m[k] != c.live[k] {
					fail("online census wrong for %q: listed %d, connected %d", k, m[k], c.live[k])
				}
			}
		case rep.status == 200 && method == "GET" && path == "/dump/streams":
			out = "200 dump"
		case rep.status == 200 && len(rep.body) == 0:
			out = "200 empty"
			nontrivial = true
		default:
			out = fmt.Sprintf("other %d %d", rep.status, len(rep.body))
		}
		// kick ledger: an authorised, decodable POST /kick makes a kick outstanding for every listed id
		if authorised && method == "POST" && path == "/kick" && bodyTok != "bad" {
			if rep.status != 200 {
				fail("well-formed kick answered %d", rep.status)
			}
			for _, id := range ids {
				c.pending[id] = true
			}
		}
		return vh.Result{Out: out, ModelOp: mop, NonTrivial: nontrivial, Oracle: orc}
	}
	return vh.Result{Out: "bad-op"}
}

// ------------------------------------------------------------------ concurrent component

type statsConc struct{}

func (c *statsConc) Gen(r *vh.RNG, n int, emit func(op string, tags ...string)) {
	modes := []string{"mix", "mix", "noclear", "storm", "census", "mixnet"}
	for i := 0; i < n; i++ {
		m := modes[i%len(modes)]
		ids := r.Range(1, 4)
		loggers := r.Range(3, 10)
		reports := r.Range(400, 2500)
		pollers := r.Range(1, 4)
		kickers := r.Range(0, ids)
		if m == "mixnet" {
			reports = r.Range(200, 600)
		}
		emit(fmt.Sprintf("conc %s %d %d %d %d %d %d", m, r.U64()%1000000, ids, loggers, reports, pollers, kickers), m)
	}
}

type concTotals struct {
	allowed, cleared, final [2]uint64
	refusals, kicks         uint64
	pending                 bool
}

func (c *statsConc) Run(op string) vh.Result {
	f := strings.Fields(op)
	if len(f) != 8 || f[0] != "conc" {
		return vh.Result{Out: "bad-op"}
	}
	mode := f[1]
	var nums [6]int
	for i := range nums {
		v, err := strconv.Atoi(f[2+i])
		if err != nil || v < 0 {
			return vh.Result{Out: "bad-op"}
		}
		nums[i] = v
	}
	seed, nids, nlog, nrep, npoll, nkick := uint64(nums[0]), nums[1], nums[2], nums[3], nums[4], nums[5]
	if nids < 1 || nids > 16 || nlog < 1 || nlog > 64 || npoll > 16 || nkick > nids {
		return vh.Result{Out: "bad-op"}
	}
	if mode == "census" {
		return concCensus(seed, nids, nlog, nrep, npoll)
	}
	secret := "k"
	srv := trafficlogger.NewTrafficStatsServer(secret)
	ids := make([]string, nids)
	for i := range ids {
		ids[i] = fmt.Sprintf("user%d", i)
	}
	// request plumbing: direct ServeHTTP from many goroutines, or a real TCP server
	var ts *httptest.Server
	var client *http.Client
	if mode == "mixnet" {
		ts = httptest.NewServer(srv)
		defer ts.Close()
		client = ts.Client()
	}
	request := func(method, path, rawq string, body []byte) reply {
		u := &url.URL{Scheme: "http", Host: "stats.invalid", Path: path, RawQuery: rawq}
		if ts != nil {
			rep, err := doNet(client, ts.URL, method, u, &secret, body)
			if err != nil {
				return reply{status: -1, body: []byte(err.Error())}
			}
			return rep
		}
		return doRecorder(srv, method, u, &secret, body)
	}

	var mu sync.Mutex
	var problems []string
	problem := func(format string, a ...any) {
		mu.Lock()
		if len(problems) < 8 {
			problems = append(problems, fmt.Sprintf(format, a...))
		}
		mu.Unlock()
	}
	tot := make([]concTotals, nids)
	refusalSeen := make([]atomic.Uint64, nids) // bumped by reporters when a report is refused
	started := make([][2]atomic.Uint64, nids)  // Σ of reports begun (upper bound of what a snapshot can show)
	done := make([][2]atomic.Uint64, nids)     // Σ of accepted reports that have returned (lower bound)
	var kickersDone atomic.Bool
	var stopPollers atomic.Bool
	var wgLog, wgKick, wgPoll sync.WaitGroup

	withClear := mode != "noclear"
	solo := mode != "storm"

	// reporters
	type logLocal struct {
		allowed  [][2]uint64
		refusals []uint64
	}
	locals := make([]logLocal, nlog)
	for g := 0; g < nlog; g++ {
		locals[g] = logLocal{make([][2]uint64, nids), make([]uint64, nids)}
		wgLog.Add(1)
		go func(g int) {
			defer wgLog.Done()
			r := vh.NewRNG(seed*7919 + uint64(g) + 1)
			for n := 0; n < nrep || (nkick > 0 && !kickersDone.Load()); n++ {
				i := r.Intn(nids)
				tx, rx := uint64(r.Range(0, 3000)), uint64(r.Range(0, 3000))
				started[i][0].Add(tx)
				started[i][1].Add(rx)
				if srv.LogTraffic(ids[i], tx, rx) {
					locals[g].allowed[i][0] += tx
					locals[g].allowed[i][1] += rx
					done[i][0].Add(tx)
					done[i][1].Add(rx)
				} else {
					locals[g].refusals[i]++
					refusalSeen[i].Add(1)
				}
				if n%64 == 0 {
					runtime.Gosched()
				}
			}
		}(g)
	}
	// kickers: kicker j owns id j (solo: waits for its refusal before kicking again)
	kicksPer := 3 + int(seed%5)
	kickCounts := make([]uint64, nids)
	for j := 0; j < nkick; j++ {
		wgKick.Add(1)
		go func(j int) {
			defer wgKick.Done()
			r := vh.NewRNG(seed*104729 + uint64(j) + 1)
			for k := 0; k < kicksPer; k++ {
				l := []string{ids[j]}
				if r.Chance(1, 3) {
					l = append(l, "ghost"+strconv.Itoa(j)) // an id nobody reports for
				}
				jb, _ := json.Marshal(l)
				rep := request("POST", "/kick", "", jb)
				if rep.status != 200 {
					problem("kick answered %d %s", rep.status, rep.body)
					return
				}
				kickCounts[j]++
				if solo {
					for refusalSeen[j].Load() < kickCounts[j] {
						runtime.Gosched()
					}
				} else if r.Chance(1, 2) {
					runtime.Gosched()
				}
			}
		}(j)
	}
	// pollers
	clearedLocal := make([][][2]uint64, npoll)
	for p := 0; p < npoll; p++ {
		clearedLocal[p] = make([][2]uint64, nids)
		wgPoll.Add(1)
		go func(p int) {
			defer wgPoll.Done()
			clearing := withClear && p%2 == 0
			last := make([][2]uint64, nids)
			for !stopPollers.Load() {
				var lo [][2]uint64
				if !withClear {
					lo = make([][2]uint64, nids)
					for i := range lo {
						lo[i] = [2]uint64{done[i][0].Load(), done[i][1].Load()}
					}
				}
				q := ""
				if clearing {
					q = "clear=1"
				}
				rep := request("GET", "/traffic", q, nil)
				if rep.status != 200 {
					problem("poll answered %d %s", rep.status, rep.body)
					return
				}
				m, err := parseTraffic(rep.body)
				if err != nil {
					problem("poll reply unparsable: %v", err)
					return
				}
				for i, id := range ids {
					v := m[id]
					if clearing {
						clearedLocal[p][i][0] += v[0]
						clearedLocal[p][i][1] += v[1]
					}
					if !withClear {
						// nothing ever clears: a snapshot is a prefix sum — between what had been
						// accepted before the request and what had been begun after it, and monotone
						hi := [2]uint64{started[i][0].Load(), started[i][1].Load()}
						for d := 0; d < 2; d++ {
							if v[d] < lo[i][d] || v[d] > hi[d] {
								problem("snapshot of %s[%d]=%d outside [%d,%d]", id, d, v[d], lo[i][d], hi[d])
							}
							if v[d] < last[i][d] {
								problem("snapshot of %s[%d] went back from %d to %d with no clear", id, d, last[i][d], v[d])
							}
						}
						last[i] = v
					}
				}
				runtime.Gosched()
			}
		}(p)
	}
	wgKick.Wait()
	kickersDone.Store(true)
	wgLog.Wait()
	stopPollers.Store(true)
	wgPoll.Wait()

	// quiescent: final snapshot, then probe for outstanding kicks
	rep := request("GET", "/traffic", "", nil)
	fin, err := parseTraffic(rep.body)
	if rep.status != 200 || err != nil {
		problem("final snapshot failed: %d %v", rep.status, err)
		fin = map[string][2]uint64{}
	}
	for i, id := range ids {
		t := &tot[i]
		for g := range locals {
			t.allowed[0] += locals[g].allowed[i][0]
			t.allowed[1] += locals[g].allowed[i][1]
			t.refusals += locals[g].refusals[i]
		}
		for p := range clearedLocal {
			t.cleared[0] += clearedLocal[p][i][0]
			t.cleared[1] += clearedLocal[p][i][1]
		}
		t.final = fin[id]
		t.kicks = kickCounts[i]
		t.pending = !srv.LogTraffic(id, 0, 0)
	}
	// model-free check of the order-independent consequences
	for i, id := range ids {
		t := tot[i]
		for d := 0; d < 2; d++ {
			if t.cleared[d]+t.final[d] != t.allowed[d] {
				problem("bytes not conserved for %s[%d]: cleared %d + final %d != allowed %d (lost %d)", id, d, t.cleared[d], t.final[d], t.allowed[d],
					int64(t.allowed[d])-int64(t.cleared[d]+t.final[d]))
			}
		}
		pend := uint64(0)
		if t.pending {
			pend = 1
		}
		if solo && t.refusals+pend != t.kicks {
			problem("kicks of %s: %d kicks, %d refusals, outstanding=%v (each kick must refuse exactly one report)", id, t.kicks, t.refusals, t.pending)
		}
		if !solo && (t.refusals+pend > t.kicks || (t.kicks > 0 && t.refusals+pend == 0)) {
			problem("kicks of %s: %d kicks, %d refusals, outstanding=%v", id, t.kicks, t.refusals, t.pending)
		}
	}
	var sb strings.Builder
	fmt.Fprintf(&sb, "totals %d %d", b2i(solo), nids)
	for i := range ids {
		t := tot[i]
		fmt.Fprintf(&sb, " %s %d %d %d %d %d %d %d %d %d", hx(ids[i]), t.allowed[0], t.cleared[0], t.final[0], t.allowed[1], t.cleared[1], t.final[1],
			t.refusals, t.kicks, b2i(t.pending))
	}
	out := "ok"
	if len(problems) > 0 {
		out = "viol"
	}
	return vh.Result{Out: out, ModelOp: sb.String(), NonTrivial: true, Oracle: problems}
}

// concCensus: `conns` goroutines play connections of a few users: online, (barrier), offline.
// At the barrier the exact number of connections per user is known; pollers in between only
// check positivity and the bound; at the end the listing must be empty.
func concCensus(seed uint64, nids, conns, rounds, npoll int) vh.Result {
	srv := trafficlogger.NewTrafficStatsServer("")
	ids := make([]string, nids)
	for i := range ids {
		ids[i] = fmt.Sprintf("user%d", i)
	}
	rounds = 2 + rounds%5
	var problems []string
	var mu sync.Mutex
	problem := func(format string, a ...any) {
		mu.Lock()
		if len(problems) < 8 {
			problems = append(problems, fmt.Sprintf(format, a...))
		}
		mu.Unlock()
	}
	get := func() map[string]int64 {
		rep := doRecorder(srv, "GET", &url.URL{Path: "/online"}, nil, nil)
		m, err := parseOnline(rep.body)
		if rep.status != 200 || err != nil {
			problem("/online failed: %d %v", rep.status, err)
			return map[string]int64{}
		}
		return m
	}
	var stop atomic.Bool
	var wgPoll sync.WaitGroup
	for p := 0; p < npoll; p++ {
		wgPoll.Add(1)
		go func() {
			defer wgPoll.Done()
			for !stop.Load() {
				for k, v := range get() {
					if v <= 0 || v > int64(conns) {
						problem("online count of %s is %d with %d connections in all", k, v, conns)
					}
				}
				runtime.Gosched()
			}
		}()
	}
	var onTotal, offTotal [16]uint64
	var lastShown [16]int64
	r := vh.NewRNG(seed + 17)
	for round := 0; round < rounds; round++ {
		owner := make([]int, conns)
		expect := make([]int64, nids)
		stay := make([]bool, conns)
		for c := range owner {
			owner[c] = r.Intn(nids)
			stay[c] = r.Chance(1, 2)
		}
		var up, down sync.WaitGroup
		release := make(chan struct{})
		for c := 0; c < conns; c++ {
			up.Add(1)
			down.Add(1)
			go func(c int) {
				defer down.Done()
				srv.LogOnlineState(ids[owner[c]], true)
				if !stay[c] {
					// a short-lived connection: gone again before the barrier
					srv.LogOnlineState(ids[owner[c]], false)
				}
				up.Done()
				<-release
				if stay[c] {
					srv.LogOnlineState(ids[owner[c]], false)
				}
			}(c)
			onTotal[owner[c]]++
			offTotal[owner[c]]++
			if stay[c] {
				expect[owner[c]]++
			}
		}
		up.Wait()
		m := get()
		for i, id := range ids {
			if m[id] != expect[i] {
				problem("census at the barrier: %s listed %d, connected %d", id, m[id], expect[i])
			}
		}
		for k := range m {
			if !strings.HasPrefix(k, "user") {
				problem("unknown id %q listed", k)
			}
		}
		close(release)
		down.Wait()
	}
	stop.Store(true)
	wgPoll.Wait()
	m := get()
	if len(m) != 0 {
		problem("everyone disconnected but /online lists %v (stale entry)", m)
	}
	var sb strings.Builder
	fmt.Fprintf(&sb, "census %d", nids)
	for i, id := range ids {
		lastShown[i] = m[id]
		fmt.Fprintf(&sb, " %s %d %d %d", hx(id), onTotal[i], offTotal[i], lastShown[i])
	}
	out := "ok"
	if len(problems) > 0 {
		out = "viol"
	}
	return vh.Result{Out: out, ModelOp: sb.String(), NonTrivial: true, Oracle: problems}
}
