//go:build verif

package main

// C17 (sniffing is transparent to the proxied flow) + the QUIC-sniffer part of C03 (D2).
//
// Component "sniff": stateless ops
//
//	tcp <addr> <chunks> <dl> <fin>     Sniffer.TCP on a scripted HyStream
//	udp <addr> <packet>                Sniffer.UDP on a cap==len copy of the packet
//
// <addr>, <packet> hex ("-" = empty); <chunks> as vh.Chunks; <dl> "-" or the number of
// stream Read calls that succeed before the read deadline fires; <fin> 1 = EOF is reported
// together with the last bytes, 0 = by a separate (0, EOF) read.
//
// The model-op line appends what the external parsers / crypto did (they are parameters of
// the Lean model): the tee-level Read sizes, http.ReadRequest's Host on the bytes handed
// back, utls' ServerName, the header-protection mask with the sample it was computed on,
// the AEAD result with packet number and AAD length, and sort.Slice's permutation.
//
// Oracles are model-free: putback ++ remainder == sent, packet slice unchanged, port
// unchanged and address still parseable, host ∈ {original, Host / SNI found independently},
// truncated or unrecognised input leaves the address alone, deadline reset, no panic.

import (
	"bufio"
	"bytes"
	"crypto/aes"
	"crypto/cipher"
	"crypto/hkdf"
	"crypto/sha256"
	"encoding/base64"
	"encoding/binary"
	"fmt"
	"go/ast"
	"go/parser"
	"go/token"
	"io"
	"net"
	"net/http"
	"net/url"
	"os"
	"sort"
	"strconv"
	"strings"
	"time"

	"github.com/apernet/quic-go"
	utls "github.com/refraction-networking/utls"

	vh "github.com/apernet/hysteria/core/v2/verifhlib"
	"github.com/apernet/hysteria/extras/v2/sniff"
)

func init() {
	vh.Register("sniff", func() vh.Component { return &sniffComp{} })
	vh.RegisterConsts(sniff.VerifConsts)
	vh.RegisterConsts(sniffShape)
}

// sniffShape: structural facts of package extras/sniff read from its SOURCE (go/ast) in the
// tree under check ($VERIF_REPO, default /repo).  Sniffer.TCP hands its buffer to the caller,
// who uses it after other streams have been sniffed by the same Sniffer: the buffer must be
// owned by the call.  The facts: the package declares no package-level variable that could
// hold shared state (blank `var _ I = ...` assertions and error sentinels apart), does not
// import sync, and Sniffer / teeReader keep no byte buffer across calls (teeReader is created
// per call; Sniffer has its four configuration fields and none of slice/pointer/map/chan type).
func sniffShape() map[string]any {
	repo := os.Getenv("VERIF_REPO")
	if repo == "" {
		repo = "/repo"
	}
	dir := repo + "/extras/sniff"
	vars, syncImp, snifferBufFields, snifferFields, parsed := 0, 0, 0, 0, 0
	ents, _ := os.ReadDir(dir)
	fset := token.NewFileSet()
	for _, e := range ents {
		n := e.Name()
		if e.IsDir() || !strings.HasSuffix(n, ".go") || strings.HasSuffix(n, "_test.go") || strings.HasPrefix(n, "zz_verif") || strings.HasPrefix(n, "mock_") {
			continue
		}
		f, err := parser.ParseFile(fset, dir+"/"+n, nil, 0)
		if err != nil {
			continue
		}
		parsed++
		for _, im := range f.Imports {
			if im.Path.Value == `"sync"` || im.Path.Value == `"sync/atomic"` {
				syncImp++
			}
		}
		for _, d := range f.Decls {
			gd, ok := d.(*ast.GenDecl)
			if !ok {
				continue
			}
			for _, sp := range gd.Specs {
				switch x := sp.(type) {
				case *ast.ValueSpec:
					if gd.Tok != token.VAR {
						continue
					}
					for i, nm := range x.Names {
						if nm.Name == "_" {
							continue
						}
						if i < len(x.Values) {
							if c, ok := x.Values[i].(*ast.CallExpr); ok {
								if se, ok := c.Fun.(*ast.SelectorExpr); ok {
									if id, ok := se.X.(*ast.Ident); ok && (id.Name == "errors" && se.Sel.Name == "New" || id.Name == "fmt" && se.Sel.Name == "Errorf") {
										continue
									}
								}
							}
						}
						vars++
					}
				case *ast.TypeSpec:
					st, ok := x.Type.(*ast.StructType)
					if !ok || x.Name.Name != "Sniffer" {
						continue
					}
					for _, fl := range st.Fields.List {
						snifferFields += len(fl.Names)
						switch fl.Type.(type) {
						case *ast.ArrayType, *ast.StarExpr, *ast.MapType, *ast.ChanType:
							snifferBufFields += len(fl.Names)
						}
					}
				}
			}
		}
	}
	return map[string]any{
		"sniff_srcFilesParsed":   uint64(parsed),
		"sniff_pkgLevelVars":     uint64(vars),
		"sniff_importsSync":      uint64(syncImp),
		"sniff_snifferFields":    uint64(snifferFields),
		"sniff_snifferBufFields": uint64(snifferBufFields),
	}
}

type sniffComp struct{}

const (
	none       = "~"
	bufioFirst = 4096 // bufio.NewReader's buffer; tied to Gen.sniff_bufioSize by a Props obligation
	maxHdr     = 256 * 1024
)

// ---------------------------------------------------------------- scripted HyStream

type scriptStream struct {
	chunks     [][]byte
	dl         int // -1 never; else Read calls that still succeed
	fin        bool
	reads      []int
	delivered  int
	probeReads int // Read calls that belong to the 3-byte probe
	probeDone  bool
	deadlines  []time.Time
}

func (s *scriptStream) markProbe(err error) {
	if !s.probeDone && (s.delivered >= 3 || err != nil) {
		s.probeDone = true
		s.probeReads = len(s.reads)
	}
}

func (s *scriptStream) Read(p []byte) (int, error) {
	s.reads = append(s.reads, len(p))
	if s.dl == 0 {
		s.markProbe(os.ErrDeadlineExceeded)
		return 0, os.ErrDeadlineExceeded
	}
	if len(s.chunks) == 0 {
		s.markProbe(io.EOF)
		return 0, io.EOF
	}
	c := s.chunks[0]
	n := len(p)
	if len(c) < n {
		n = len(c)
	}
	copy(p, c[:n])
	if n == len(c) {
		s.chunks = s.chunks[1:]
	} else {
		s.chunks[0] = c[n:]
	}
	if s.dl > 0 {
		s.dl--
	}
	s.delivered += n
	var err error
	if s.fin && len(s.chunks) == 0 {
		err = io.EOF
	}
	s.markProbe(err)
	return n, err
}

func (s *scriptStream) rest() []byte {
	var b []byte
	for _, c := range s.chunks {
		b = append(b, c...)
	}
	return b
}

func (s *scriptStream) StreamID() quic.StreamID            { return 0 }
func (s *scriptStream) Write(p []byte) (int, error)        { return len(p), nil }
func (s *scriptStream) Close() error                       { return nil }
func (s *scriptStream) SetWriteDeadline(t time.Time) error { return nil }
func (s *scriptStream) SetDeadline(t time.Time) error      { return nil }
func (s *scriptStream) SetReadDeadline(t time.Time) error {
	s.deadlines = append(s.deadlines, t)
	return nil
}

// ---------------------------------------------------------------- independent parsers

// indepHTTPHost: Host of the first request in b, via net/http and net/url (not sniff.go).
func indepHTTPHost(b []byte) (hostname string, raw string, ok bool) {
	req, _ := http.ReadRequest(bufio.NewReader(io.LimitReader(bytes.NewReader(b), maxHdr)))
	if req == nil || req.Host == "" {
		return "", "", false
	}
	return (&url.URL{Host: req.Host}).Hostname(), req.Host, true
}

// indepSNI: first host_name of the server_name extension of a ClientHello-shaped handshake
// message (the 4-byte handshake header is not looked at: utls does not either, and the property
// only asks that the name be present in the bytes).
func indepSNI(hs []byte) (string, bool) {
	if len(hs) < 4 {
		return "", false
	}
	b := hs[4:] // type and 24-bit length are skipped unvalidated, as utls does
	skip := func(n int) bool {
		if len(b) < n {
			return false
		}
		b = b[n:]
		return true
	}
	if !skip(2 + 32) {
		return "", false
	}
	if len(b) < 1 || !skip(1+int(b[0])) { // session id
		return "", false
	}
	if len(b) < 2 || !skip(2+(int(b[0])<<8|int(b[1]))) { // cipher suites
		return "", false
	}
	if len(b) < 1 || !skip(1+int(b[0])) { // compression
		return "", false
	}
	if len(b) < 2 {
		return "", false
	}
	el := int(b[0])<<8 | int(b[1])
	b = b[2:]
	if el > len(b) {
		return "", false
	}
	b = b[:el]
	for len(b) >= 4 {
		t := int(b[0])<<8 | int(b[1])
		n := int(b[2])<<8 | int(b[3])
		b = b[4:]
		if n > len(b) {
			return "", false
		}
		e := b[:n]
		b = b[n:]
		if t != 0 {
			continue
		}
		if len(e) < 2 {
			return "", false
		}
		e = e[2:]
		for len(e) >= 3 {
			nt := e[0]
			nl := int(e[1])<<8 | int(e[2])
			e = e[3:]
			if nl > len(e) {
				return "", false
			}
			if nt == 0 {
				return string(e[:nl]), true
			}
			e = e[nl:]
		}
		return "", false
	}
	return "", false
}

func utlsName(b []byte) string {
	ch := utls.UnmarshalClientHello(b)
	if ch == nil {
		return none
	}
	return vh.Hex([]byte(ch.ServerName))
}

func cleanHost(h string) bool { return !strings.ContainsAny(h, "[]") }

// ---------------------------------------------------------------- QUIC Initial (RFC 9001), independent of /repo

var (
	saltV1 = vh.UnHex("38762cf7f55934b34d179ae6a4c80cadccbb7f0a")
	saltV2 = vh.UnHex("0dede3def700a6db819381be6e269dcbf9bd2ed9")
)

const (
	quicV1 = 0x1
	quicV2 = 0x6b3343cf
)

func expandLabel(secret []byte, label string, n int) []byte {
	info := []byte{byte(n >> 8), byte(n), byte(6 + len(label))}
	info = append(info, "tls13 "...)
	info = append(info, label...)
	info = append(info, 0)
	out, err := hkdf.Expand(sha256.New, secret, string(info), n)
	if err != nil {
		panic(err)
	}
	return out
}

type initKeys struct {
	aead cipher.AEAD
	iv   []byte
	hp   cipher.Block
}

func clientInitialKeys(ver uint32, dcid []byte) initKeys {
	salt, pre := saltV1, "quic "
	if ver == quicV2 {
		salt, pre = saltV2, "quicv2 "
	}
	initial, err := hkdf.Extract(sha256.New, dcid, salt)
	if err != nil {
		panic(err)
	}
	cs := expandLabel(initial, "client in", 32)
	key := expandLabel(cs, pre+"key", 16)
	iv := expandLabel(cs, pre+"iv", 12)
	hpk := expandLabel(cs, pre+"hp", 16)
	blk, _ := aes.NewCipher(key)
	aead, _ := cipher.NewGCM(blk)
	hp, _ := aes.NewCipher(hpk)
	return initKeys{aead, iv, hp}
}

func (k initKeys) nonce(pn int64) []byte {
	n := make([]byte, 12)
	binary.BigEndian.PutUint64(n[4:], uint64(pn))
	for i := range n {
		n[i] ^= k.iv[i]
	}
	return n
}

func (k initKeys) mask(sample []byte) []byte {
	m := make([]byte, 16)
	k.hp.Encrypt(m, sample)
	return m
}

func varint(n uint64, w int) []byte {
	switch w {
	case 0:
		return []byte{byte(n)}
	case 1:
		return []byte{byte(n>>8) | 0x40, byte(n)}
	case 2:
		return []byte{byte(n>>24) | 0x80, byte(n >> 16), byte(n >> 8), byte(n)}
	}
	return []byte{byte(n>>56) | 0xc0, byte(n >> 48), byte(n >> 40), byte(n >> 32), byte(n >> 24), byte(n >> 16), byte(n >> 8), byte(n)}
}

func minW(n uint64) int {
	switch {
	case n <= 63:
		return 0
	case n <= 16383:
		return 1
	case n <= 1073741823:
		return 2
	}
	return 3
}

func readVarint(b []byte) (uint64, []byte, bool) {
	if len(b) == 0 {
		return 0, nil, false
	}
	l := 1 << (b[0] >> 6)
	if len(b) < l {
		return 0, nil, false
	}
	v := uint64(b[0] & 0x3f)
	for i := 1; i < l; i++ {
		v = v<<8 | uint64(b[i])
	}
	return v, b[l:], true
}

type initialSpec struct {
	ver        uint32
	typeBits   byte // bits 4-5 of the first byte
	dcid, scid []byte
	token      []byte
	pnLen      int
	pn         uint32
	frames     []byte // plaintext frames
	padTo      int    // pad the plaintext with PADDING frames so that the datagram has this size (0 = none)
}

// buildInitial protects a client Initial per RFC 9001 §5.
func buildInitial(s initialSpec) []byte {
	first := byte(0xc0) | s.typeBits<<4 | byte(s.pnLen-1)
	hdr := []byte{first, byte(s.ver >> 24), byte(s.ver >> 16), byte(s.ver >> 8), byte(s.ver)}
	hdr = append(hdr, byte(len(s.dcid)))
	hdr = append(hdr, s.dcid...)
	hdr = append(hdr, byte(len(s.scid)))
	hdr = append(hdr, s.scid...)
	hdr = append(hdr, varint(uint64(len(s.token)), minW(uint64(len(s.token))))...)
	hdr = append(hdr, s.token...)
	plain := append([]byte{}, s.frames...)
	for len(plain)+s.pnLen < 4+1 { // header-protection sample needs 4 bytes after the pn start + 16 of tag
		plain = append(plain, 0)
	}
	if s.padTo > 0 {
		for len(hdr)+2+s.pnLen+len(plain)+16 < s.padTo {
			plain = append(plain, 0)
		}
	}
	length := uint64(s.pnLen + len(plain) + 16)
	hdr = append(hdr, varint(length, 1)...)
	pnOff := len(hdr)
	for i := s.pnLen - 1; i >= 0; i-- {
		hdr = append(hdr, byte(s.pn>>(8*uint(i))))
	}
	k := clientInitialKeys(s.ver, s.dcid)
	ct := k.aead.Seal(nil, k.nonce(int64(s.pn)), plain, hdr)
	pkt := append(append([]byte{}, hdr...), ct...)
	m := k.mask(pkt[pnOff+4 : pnOff+20])
	pkt[0] ^= m[0] & 0x0f
	for i := 0; i < s.pnLen; i++ {
		pkt[pnOff+i] ^= m[1+i]
	}
	return pkt
}

// quicTrace: what the crypto primitives do on this datagram, at the inputs the sniffer's
// control flow (with both repairs) presents to them.  Written against the RFC and the
// reading of header.go / payload.go — NOT by calling them.
type quicTrace struct {
	reached   bool // header accepted, version supported, lengths consistent: UnProtect is called
	sample    []byte
	mask      []byte
	pn        int64
	hdrLen    int
	openState string // "~" not called, "!" authentication failed, else hex plaintext
	plain     []byte
	perm      []int
	offs      []int64
	datas     [][]byte
}

func mirrorQUIC(data []byte) (tr quicTrace) {
	tr.openState = none
	b := data
	if len(b) < 5 {
		return
	}
	typeByte := b[0]
	ver := binary.BigEndian.Uint32(b[1:5])
	b = b[5:]
	if ver != 0 && typeByte&0x40 == 0 {
		return
	}
	readCID := func() ([]byte, bool) {
		if len(b) < 1 {
			return nil, false
		}
		n := int(b[0])
		b = b[1:]
		if len(b) >= n {
			c := b[:n]
			b = b[n:]
			return c, true
		}
		if len(b) == 0 { // io.EOF is swallowed by readConnectionID: zero id, reader at end
			return make([]byte, n), true
		}
		return nil, false
	}
	dcid, ok := readCID()
	if !ok {
		return
	}
	if _, ok = readCID(); !ok {
		return
	}
	initialType := byte(0)
	if ver == quicV2 {
		initialType = 1
	}
	if typeByte>>4&3 == initialType {
		tl, r, ok := readVarint(b)
		if !ok || tl > uint64(len(r)) {
			return
		}
		b = r[tl:]
	}
	length, r, ok := readVarint(b)
	if !ok {
		return
	}
	b = r
	offset := len(data) - len(b)
	if ver != quicV1 && ver != quicV2 {
		return
	}
	if length == 0 || uint64(len(data)) < uint64(offset)+length {
		return
	}
	n := offset + int(length)
	tr.reached = true
	if n < offset+20 {
		return
	}
	pkt := append([]byte{}, data[:n]...)
	k := clientInitialKeys(ver, dcid)
	tr.sample = append([]byte{}, pkt[offset+4:offset+20]...)
	tr.mask = k.mask(tr.sample)
	if typeByte&0x80 != 0 {
		pkt[0] ^= tr.mask[0] & 0x0f
	} else {
		pkt[0] ^= tr.mask[0] & 0x1f
	}
	pnLen := int(pkt[0]&3) + 1
	var pn int64
	for i := 0; i < pnLen; i++ {
		pkt[offset+i] ^= tr.mask[1+i]
		pn = pn<<8 | int64(pkt[offset+i])
	}
	tr.pn = pn // decodePacketNumber(2, pn, pnLen) == pn for every truncated value
	tr.hdrLen = offset + pnLen
	ct := pkt[offset+pnLen:]
	if len(ct) < 16 {
		return
	}
	plain, err := k.aead.Open(nil, k.nonce(pn), ct, pkt[:offset+pnLen])
	if err != nil {
		tr.openState = "!"
		return
	}
	tr.plain = plain
	tr.openState = vh.Hex(plain)
	// frames (for sort.Slice's permutation and for the independent server name)
	p := plain
	for len(p) > 0 {
		typ, r, ok := readVarint(p)
		if !ok {
			return
		}
		p = r
		if typ == 0 || typ == 1 {
			continue
		}
		if typ != 6 {
			return
		}
		off, r, ok := readVarint(p)
		if !ok {
			return
		}
		dl, r2, ok := readVarint(r)
		if !ok || dl > uint64(len(r2)) {
			return
		}
		tr.offs = append(tr.offs, int64(off))
		tr.datas = append(tr.datas, r2[:dl])
		p = r2[dl:]
	}
	if len(tr.offs) >= 2 {
		tr.perm = sniff.VerifSortPerm(tr.offs)
	}
	return
}

// indepCryptoStream: the CRYPTO stream by offset (stable order, must be gap-free from the
// lowest offset), for the independent server-name oracle only.
func (tr quicTrace) indepCryptoStream() []byte {
	if len(tr.offs) == 0 {
		return nil
	}
	idx := make([]int, len(tr.offs))
	for i := range idx {
		idx[i] = i
	}
	sort.SliceStable(idx, func(a, b int) bool { return tr.offs[idx[a]] < tr.offs[idx[b]] })
	var out []byte
	for _, i := range idx {
		out = append(out, tr.datas[i]...)
	}
	return out
}

// ---------------------------------------------------------------- builders for the generator

func buildClientHello(r *vh.RNG, sni string, withSNI bool, alpn []string, pad int, legacy bool) []byte {
	var ext []byte
	addExt := func(t int, body []byte) {
		ext = append(ext, byte(t>>8), byte(t), byte(len(body)>>8), byte(len(body)))
		ext = append(ext, body...)
	}
	if withSNI {
		n := []byte(sni)
		body := []byte{byte((len(n) + 3) >> 8), byte(len(n) + 3), 0, byte(len(n) >> 8), byte(len(n))}
		addExt(0, append(body, n...))
	}
	addExt(10, []byte{0, 4, 0, 0x1d, 0, 0x17})
	addExt(13, []byte{0, 6, 4, 3, 8, 4, 4, 1})
	if len(alpn) > 0 {
		var l []byte
		for _, a := range alpn {
			l = append(l, byte(len(a)))
			l = append(l, a...)
		}
		addExt(16, append([]byte{byte(len(l) >> 8), byte(len(l))}, l...))
	}
	if !legacy {
		addExt(43, []byte{2, 3, 4})
		ks := append([]byte{0, 36, 0, 0x1d, 0, 32}, r.Bytes(32)...)
		addExt(51, ks)
	}
	if pad > 0 {
		addExt(21, make([]byte, pad))
	}
	body := []byte{3, 3}
	body = append(body, r.Bytes(32)...)
	body = append(body, 32)
	body = append(body, r.Bytes(32)...)
	body = append(body, 0, 6, 0x13, 0x01, 0x13, 0x02, 0xc0, 0x2f)
	body = append(body, 1, 0)
	body = append(body, byte(len(ext)>>8), byte(len(ext)))
	body = append(body, ext...)
	hs := []byte{1, byte(len(body) >> 16), byte(len(body) >> 8), byte(len(body))}
	return append(hs, body...)
}

func tlsRecord(typ byte, ver uint16, declared int, body []byte) []byte {
	rec := []byte{typ, byte(ver >> 8), byte(ver), byte(declared >> 8), byte(declared)}
	return append(rec, body...)
}

var sniNames = []string{"example.com", "a.b", "www.notion.so", "x", "xn--bcher-kva.example", "very-long-label-" + strings.Repeat("z", 40) + ".example.org", "2001:db8::7", "192.0.2.7", "UPPER.Example.COM"}

var hostHeaders = []string{"example.com", "example.com:8080", "192.0.2.1", "192.0.2.1:81", "[2001:db8::1]", "[2001:db8::1]:8443", "[::1]", "[fe80::1%25eth0]", "localhost", "EXAMPLE.org:80", "a.b.c.d.e.f:65535", "xn--bcher-kva.example"}

// malformed Host values (outside "valid HTTP": no port / parse oracle on these)
var badHosts = []string{"a]b", "[abc", "]", "[", "[]", "[]:1", "a:b:c", "ex ample", "example.com:", "example.com:http", ":80", "[::1]x:80", "[[::1]]", "[::1]]:80"}

var reqAddrs = []string{"1.2.3.4:80", "203.0.113.9:443", "[2001:db8::2]:443", "10.0.0.1:8080", "example.org:8080", "9.9.9.9:65535", "[::1]:1"}

var badAddrs = []string{"noport", "1.2.3.4", "[::1]", "a:b:c", ""}

var methods = []string{"GET", "POST", "PUT", "HEAD", "OPTIONS", "DELETE", "PATCH", "CONNECT", "get", "Foo", "PRI"}

func buildHTTP(r *vh.RNG, host string, withHost bool, absURI bool, hdrBytes int, body []byte) []byte {
	var sb strings.Builder
	m := methods[r.Intn(len(methods))]
	target := "/" + string(r.ASCII(r.Intn(12)))
	if absURI {
		target = "http://" + host + target
	}
	proto := "HTTP/1.1"
	if !withHost && r.Bool() {
		proto = "HTTP/1.0"
	}
	sb.WriteString(m + " " + target + " " + proto + "\r\n")
	hostLine := ""
	if withHost {
		k := "Host"
		if r.Chance(1, 4) {
			k = "host"
		}
		hostLine = k + ": " + host + "\r\n"
	}
	before := r.Bool()
	if before {
		sb.WriteString(hostLine)
	}
	i := 0
	for sb.Len() < hdrBytes {
		l := r.Range(1, 200)
		if rem := hdrBytes - sb.Len(); rem > 4096 {
			l = r.Range(1000, 4000)
		}
		sb.WriteString("X-Pad-" + strconv.Itoa(i) + ": " + string(r.ASCII(l)) + "\r\n")
		i++
	}
	if !before {
		sb.WriteString(hostLine)
	}
	sb.WriteString("\r\n")
	return append([]byte(sb.String()), body...)
}

// chunking that stays cheap for large inputs: every mode (1-byte reads, empty reads, ...) up
// to 1500 bytes, a fine-grained head followed by coarser chunks beyond that.
func chunkFor(r *vh.RNG, b []byte) [][]byte {
	if len(b) <= 1500 {
		return r.Chunk(b)
	}
	head := r.Range(0, 600)
	out := r.Chunk(b[:head])
	b = b[head:]
	lo, hi := 64, 2048
	if len(b) > 8192 {
		lo, hi = 1024, 20000
	}
	for len(b) > 0 {
		n := r.Range(lo, hi)
		if n > len(b) {
			n = len(b)
		}
		out = append(out, vh.Exact(b[:n]))
		b = b[n:]
	}
	return out
}

func b64(s string) []byte {
	b, err := base64.StdEncoding.DecodeString(s)
	if err != nil {
		panic(err)
	}
	return b
}

// the test suite's own samples (extras/sniff/sniff_test.go, internal/quic/packet_protector_test.go)
var (
	suiteTLS    = b64(suiteTLSb64)
	suiteQUIC   = b64(suiteQUICb64)
	suiteServer = vh.UnHex("c7ff0000200008f067a5502a4262b5004075fb12ff07823a5d24534d906ce4c76782a2167e3479c0f7f6395dc2c91676302fe6d70bb7cbeb117b4ddb7d17349844fd61dae200b8338e1b932976b61d91e64a02e9e0ee72e3a6f63aba4ceeeec5be2f24f2d86027572943533846caa13e6f163fb257473d0eda5047360fd4a47efd8142fafc0f76")
	suiteShort  = vh.UnHex("4cfe4189655e5cd55c41f69080575d7999c25a5bfb")
	d2Packet    = vh.UnHex("400000000100000001ff")
)

// ---------------------------------------------------------------- generator

func addrHex(a string) string { return vh.Hex([]byte(a)) }

func pickAddr(r *vh.RNG) string {
	if r.Chance(1, 40) {
		return badAddrs[r.Intn(len(badAddrs))]
	}
	return reqAddrs[r.Intn(len(reqAddrs))]
}

func tcpOp(r *vh.RNG, addr string, sent []byte) string {
	cs := chunkFor(r, sent)
	dl := "-"
	if r.Chance(2, 5) {
		dl = strconv.Itoa(r.Intn(len(cs) + 2))
		if len(cs) > 6 && r.Bool() {
			dl = strconv.Itoa(r.Intn(6))
		}
	}
	fin := "0"
	if r.Bool() {
		fin = "1"
	}
	return "tcp " + addrHex(addr) + " " + vh.Chunks(cs) + " " + dl + " " + fin
}

func (sniffComp) Gen(r *vh.RNG, n int, emit func(op string, tags ...string)) {
	// fixed block: the suite's samples and the recorded defect inputs
	emit("udp "+addrHex("2.3.4.5:443")+" "+vh.Hex(suiteQUIC), "udp-suite")
	emit("udp "+addrHex("2.3.4.5:443")+" "+vh.Hex(suiteServer), "udp-suite")
	emit("udp "+addrHex("2.3.4.5:443")+" "+vh.Hex(suiteShort), "udp-suite")
	emit("udp "+addrHex("90.90.90.90:90")+" "+vh.Hex([]byte("oh my sweet summer child")), "udp-suite")
	emit("udp "+addrHex("1.2.3.4:443")+" "+vh.Hex(d2Packet), "udp-short-header")
	emit("tcp "+addrHex("222.222.222.222:443")+" "+vh.Hex(suiteTLS)+" - 0", "tls-suite")
	emit("tcp "+addrHex("1.2.3.4:80")+" "+vh.Hex([]byte("GET / HTTP/1.1\r\nHost: [2001:db8::1]\r\n\r\n"))+" - 0", "http-v6-noport")
	emit("two 2 "+addrHex("1.2.3.4:443")+" "+vh.Hex(suiteTLS)+" - 0 "+addrHex("5.6.7.8:80")+" "+
		vh.Hex([]byte("GET /other HTTP/1.1\r\nHost: other.example\r\n\r\n"))+" - 0", "two-TH", "two")
	// truncation of the suite's QUIC sample and of a small built Initial at every offset
	small := buildInitial(initialSpec{ver: quicV1, dcid: vh.UnHex("8394c8f03e515708"), pnLen: 2, pn: 1,
		frames: cryptoFrames(r, buildClientHello(r, "a.b", true, nil, 0, true), 1, 0)})
	step := 1
	if n < 20000 {
		step = 7
	}
	for i := 0; i <= len(suiteQUIC); i += step {
		emit("udp "+addrHex("2.3.4.5:443")+" "+vh.Hex(suiteQUIC[:i]), "udp-trunc-sweep")
	}
	for i := 0; i <= len(small); i++ {
		emit("udp "+addrHex("2.3.4.5:443")+" "+vh.Hex(small[:i]), "udp-trunc-sweep")
	}
	for i := 0; i < len(small); i++ { // one-byte mutation at every offset
		m := append([]byte{}, small...)
		m[i] ^= byte(1 << uint(r.Intn(8)))
		emit("udp "+addrHex("2.3.4.5:443")+" "+vh.Hex(m), "udp-mut-sweep")
	}
	for i := 0; i < n; i++ {
		k := r.Intn(100)
		switch {
		case k < 8:
			genTwo(r, emit)
		case k < 22:
			genHTTP(r, emit)
		case k < 40:
			genTLS(r, emit)
		case k < 50:
			genGarbageTCP(r, emit)
		case k < 78:
			genQUICValid(r, emit)
		case k < 92:
			genQUICMutated(r, emit)
		default:
			genUDPGarbage(r, emit)
		}
	}
}

// genTwo: 2..4 streams (every combination of HTTP / TLS / unrecognised) for one shared Sniffer.
func genTwo(r *vh.RNG, emit func(op string, tags ...string)) {
	k := r.Pick([]int{2, 2, 2, 3, 4})
	op := "two " + strconv.Itoa(k)
	tag := "two-"
	for i := 0; i < k; i++ {
		var one string
		capture := func(o string, _ ...string) { one = o }
		switch r.Intn(3) {
		case 0:
			genHTTP(r, capture)
			tag += "H"
		case 1:
			genTLS(r, capture)
			tag += "T"
		default:
			genGarbageTCP(r, capture)
			tag += "U"
		}
		op += " " + strings.TrimPrefix(one, "tcp ")
	}
	emit(op, tag[:6], "two")
}

func genHTTP(r *vh.RNG, emit func(op string, tags ...string)) {
	addr := pickAddr(r)
	tag := "http-valid"
	host := hostHeaders[r.Intn(len(hostHeaders))]
	withHost := true
	abs := false
	switch r.Intn(12) {
	case 0:
		withHost = false
		tag = "http-nohost"
	case 1:
		abs = true
		tag = "http-absuri"
	case 2, 3:
		host = badHosts[r.Intn(len(badHosts))]
		tag = "http-badhost"
	}
	size := r.Pick([]int{0, 0, 0, 0, 100, 100, 1000, 1000, 4000, 4090, 4096, 4100, 8192, 20000})
	if r.Chance(1, 400) {
		size = r.Pick([]int{65536, 262000, 262144 - 30, 262144 + 10, 270000})
		tag = "http-huge"
	}
	body := r.Bytes(r.Pick([]int{0, 0, 5, 27, 300}))
	sent := buildHTTP(r, host, withHost, abs, size, body)
	if r.Chance(1, 12) { // cut the request somewhere (client stops / FIN)
		sent = sent[:r.Intn(len(sent)+1)]
		tag = "http-cut"
	}
	if len(sent) > 0 && r.Chance(1, 25) { // a non-HTTP byte inside the header block
		i := r.Intn(len(sent))
		sent[i] = byte(r.U64())
		tag = "http-mut"
	}
	emit(tcpOp(r, addr, sent), tag)
}

func genTLS(r *vh.RNG, emit func(op string, tags ...string)) {
	addr := pickAddr(r)
	tag := "tls-valid"
	var hs []byte
	if r.Chance(1, 6) {
		hs = append([]byte{}, suiteTLS[5:]...)
	} else {
		name := sniNames[r.Intn(len(sniNames))]
		var alpn []string
		if r.Bool() {
			alpn = []string{"h2", "http/1.1"}
		}
		hs = buildClientHello(r, name, !r.Chance(1, 6), alpn, r.Pick([]int{0, 0, 7, 200, 1200, 15000}), r.Chance(1, 4))
	}
	typ, ver := byte(0x16), uint16(0x0301)
	declared := len(hs)
	switch r.Intn(14) {
	case 0:
		declared = r.Pick([]int{0, 1, 3, 4, len(hs) - 1, len(hs) + 1, len(hs) + 100, 16384, 65535})
		if declared < 0 {
			declared = 0
		}
		tag = "tls-declen"
	case 1:
		typ = byte(r.Pick([]int{0x15, 0x17, 0x18}))
		tag = "tls-type"
	case 2:
		ver = uint16(r.Pick([]int{0x0300, 0x0303, 0x0309, 0x030a, 0x0203, 0x0403}))
		tag = "tls-version"
	case 3:
		i := r.Intn(len(hs))
		hs[i] ^= byte(1 << uint(r.Intn(8)))
		tag = "tls-mut"
	case 4:
		hs[0] = byte(r.Pick([]int{0, 2, 11}))
		tag = "tls-nothello"
	}
	sent := tlsRecord(typ, ver, declared, hs)
	sent = append(sent, r.Bytes(r.Pick([]int{0, 0, 1, 40}))...) // bytes after the record
	if r.Chance(1, 8) {
		sent = sent[:r.Intn(len(sent)+1)]
		tag = "tls-cut"
	}
	emit(tcpOp(r, addr, sent), tag)
}

func genGarbageTCP(r *vh.RNG, emit func(op string, tags ...string)) {
	addr := pickAddr(r)
	var sent []byte
	tag := "tcp-garbage"
	switch r.Intn(5) {
	case 0:
		tag = "tcp-empty"
	case 1:
		sent = r.Bytes(r.Range(1, 2))
		tag = "tcp-short"
	case 2: // around the letter boundaries of isHTTP and the byte ranges of isTLS
		edge := []int{'@', 'A', 'Z', '[', '`', 'a', 'z', '{', 0x15, 0x16, 0x17, 0x18, 0x02, 0x03, 0x04, 0x09, 0x0a}
		sent = []byte{byte(r.Pick(edge)), byte(r.Pick(edge)), byte(r.Pick(edge))}
		sent = append(sent, r.Bytes(r.Intn(40))...)
		tag = "tcp-edge"
	default:
		sent = r.Bytes(r.Range(3, 300))
	}
	emit(tcpOp(r, addr, sent), tag)
}

// cryptoFrames splits a handshake message into CRYPTO frames.
// mode 0: in order; 1: shuffled; 2: with a gap; 3: stream starts at a non-zero offset;
// 4: with empty frames (equal offsets); PADDING / PING are sprinkled in.
func cryptoFrames(r *vh.RNG, hs []byte, parts int, mode int) []byte {
	type fr struct {
		off  uint64
		data []byte
	}
	var frs []fr
	base := uint64(0)
	if mode == 3 {
		base = uint64(r.Pick([]int{1, 5, 63, 64, 16384, 262143, 262144, 262145, 1 << 30}))
	}
	rest := hs
	pos := base
	for p := parts; p >= 1; p-- {
		n := len(rest) / p
		if p > 1 && n > 0 {
			n = r.Range(0, 2*n)
			if n > len(rest) {
				n = len(rest)
			}
		}
		frs = append(frs, fr{pos, rest[:n]})
		pos += uint64(n)
		rest = rest[n:]
		if mode == 2 && p == parts/2+1 {
			pos += uint64(r.Range(1, 9))
		}
		if mode == 4 && r.Chance(1, 2) {
			frs = append(frs, fr{pos, nil})
		}
	}
	if mode == 1 || mode == 4 {
		for i := len(frs) - 1; i > 0; i-- {
			j := r.Intn(i + 1)
			frs[i], frs[j] = frs[j], frs[i]
		}
	}
	var out []byte
	for _, f := range frs {
		for r.Chance(1, 4) {
			out = append(out, byte(r.Intn(2)))
		}
		out = append(out, 6)
		out = append(out, varint(f.off, r.Range(minW(f.off), 3))...)
		out = append(out, varint(uint64(len(f.data)), r.Range(minW(uint64(len(f.data))), 3))...)
		out = append(out, f.data...)
	}
	return out
}

func randomInitial(r *vh.RNG) (initialSpec, string) {
	tag := "udp-initial"
	s := initialSpec{ver: quicV1, pnLen: r.Range(1, 4), pn: uint32(r.Intn(4))}
	if r.Chance(1, 4) {
		s.ver = quicV2
		s.typeBits = 1
	}
	s.dcid = r.Bytes(r.Pick([]int{0, 1, 8, 8, 8, 16, 20, 255}))
	s.scid = r.Bytes(r.Pick([]int{0, 0, 8, 20}))
	s.token = r.Bytes(r.Pick([]int{0, 0, 0, 1, 63, 64, 100}))
	name := sniNames[r.Intn(len(sniNames))]
	withSNI := !r.Chance(1, 8)
	hs := buildClientHello(r, name, withSNI, []string{"h3"}, r.Pick([]int{0, 0, 30, 300}), false)
	mode, parts := 0, 1
	switch r.Intn(12) {
	case 0, 1:
		parts = r.Range(2, 5)
	case 2, 3:
		mode, parts = 1, r.Range(2, 6)
		tag = "udp-initial-shuffled"
	case 4:
		mode, parts = 2, r.Range(2, 5)
		tag = "udp-initial-gap"
	case 5:
		mode, parts = 3, r.Range(1, 3)
		tag = "udp-initial-offset"
	case 6:
		mode, parts = 4, r.Range(2, 14)
		tag = "udp-initial-emptyframes"
	case 7:
		hs[0] = byte(r.Pick([]int{0, 2}))
		tag = "udp-initial-nothello"
	case 8:
		hs = hs[:r.Intn(4)]
		tag = "udp-initial-tiny"
	}
	s.frames = cryptoFrames(r, hs, parts, mode)
	if r.Chance(1, 10) {
		s.frames = append(s.frames, byte(r.Pick([]int{2, 7, 0x1c, 0x40})), 0) // another frame type
		tag = "udp-initial-otherframe"
	}
	if r.Chance(2, 3) {
		s.padTo = 1200
	}
	if r.Chance(1, 12) { // Handshake / 0-RTT / Retry type bits: parsed without a token
		s.typeBits = byte(r.Intn(4))
		tag = "udp-longhdr-type"
	}
	return s, tag
}

func genQUICValid(r *vh.RNG, emit func(op string, tags ...string)) {
	s, tag := randomInitial(r)
	pkt := buildInitial(s)
	if r.Chance(1, 6) { // coalesced / trailing bytes after the packet
		pkt = append(pkt, r.Bytes(r.Range(1, 60))...)
		tag += "+trail"
	}
	emit("udp "+addrHex(pickAddr(r))+" "+vh.Hex(pkt), tag)
}

func genQUICMutated(r *vh.RNG, emit func(op string, tags ...string)) {
	s, _ := randomInitial(r)
	if r.Bool() {
		s.padTo = 0
	}
	pkt := buildInitial(s)
	tag := "udp-mut"
	switch r.Intn(7) {
	case 0: // truncate
		pkt = pkt[:r.Intn(len(pkt)+1)]
		tag = "udp-trunc"
	case 1: // truncate inside / just after the header
		hl := 7 + len(s.dcid) + len(s.scid) + len(s.token) + 4
		if hl > len(pkt) {
			hl = len(pkt)
		}
		pkt = pkt[:r.Intn(hl+1)]
		tag = "udp-trunc-header"
	case 2: // flip a header byte
		hl := 7 + len(s.dcid) + len(s.scid) + len(s.token) + 4
		if hl > len(pkt) {
			hl = len(pkt)
		}
		pkt[r.Intn(hl)] ^= byte(1 << uint(r.Intn(8)))
		tag = "udp-mut-header"
	case 3: // flip any byte
		pkt[r.Intn(len(pkt))] ^= byte(1 << uint(r.Intn(8)))
	case 4: // clear the long-header bit (short-header form), often short
		pkt[0] &^= 0x80
		if r.Bool() {
			pkt = pkt[:r.Intn(len(pkt)+1)]
		}
		tag = "udp-short-header"
	case 5: // version field
		v := uint32(r.Pick([]int{0, 2, 0x6b3343cf, 0xff000020, 0x0a0a0a0a}))
		if len(pkt) >= 5 {
			binary.BigEndian.PutUint32(pkt[1:5], v)
		}
		tag = "udp-version"
	case 6: // length field games: short packets with a declared length around what is there
		hdr := []byte{byte(r.Pick([]int{0xc0, 0xc3, 0x40, 0x43, 0x00, 0xd0})), 0, 0, 0, 1, 0, 0, 0}
		body := r.Bytes(r.Intn(40))
		l := len(body) + r.Range(-3, 3)
		if l < 0 {
			l = 0
		}
		hdr = append(hdr, varint(uint64(l), r.Range(minW(uint64(l)), 3))...)
		pkt = append(hdr, body...)
		tag = "udp-lenfield"
	}
	emit("udp "+addrHex(pickAddr(r))+" "+vh.Hex(pkt), tag)
}

func genUDPGarbage(r *vh.RNG, emit func(op string, tags ...string)) {
	var pkt []byte
	tag := "udp-garbage"
	switch r.Intn(4) {
	case 0:
		tag = "udp-empty"
	case 1:
		pkt = r.Bytes(r.Range(1, 12))
	case 2: // short-header look-alikes
		pkt = append([]byte{byte(0x40 | r.Intn(0x40)), 0, 0, 0, 1}, r.Bytes(r.Intn(30))...)
		tag = "udp-short-header"
	default:
		pkt = r.Bytes(r.Range(1, 1300))
	}
	emit("udp "+addrHex(pickAddr(r))+" "+vh.Hex(pkt), tag)
}

// ---------------------------------------------------------------- running one op on the real code

func (sniffComp) Run(op string) vh.Result {
	f := strings.Fields(op)
	var res vh.Result
	switch {
	case len(f) == 5 && f[0] == "tcp":
		res = runTCP(op, f)
	case len(f) == 3 && f[0] == "udp":
		res = runUDP(op, f)
	case len(f) >= 10 && f[0] == "two":
		res = runTwo(op, f)
	default:
		return vh.Result{Out: "bad-op"}
	}
	for i, o := range res.Oracle { // peer-chosen bytes end up in names and error texts: keep the files ASCII
		q := strconv.QuoteToASCII(o)
		res.Oracle[i] = strings.ReplaceAll(q[1:len(q)-1], `\"`, `"`)
	}
	return res
}

func readsCSV(xs []int) string {
	if len(xs) == 0 {
		return "."
	}
	ss := make([]string, len(xs))
	for i, x := range xs {
		ss[i] = strconv.Itoa(x)
	}
	return strings.Join(ss, ",")
}

// tcpRun is one Sniffer.TCP call whose evaluation is deferred: the putback slice is kept
// exactly as returned (NOT copied), the way handleTCPRequest keeps it while it dials.
type tcpRun struct {
	addr0, addr string
	sent        []byte
	st          *scriptStream
	putback     []byte
	err         error
	out, msg    string
}

func tcpSniff(s *sniff.Sniffer, f []string) *tcpRun {
	t := &tcpRun{addr0: string(vh.UnHex(f[0]))}
	chunks := vh.ParseChunks(f[1])
	for _, c := range chunks {
		t.sent = append(t.sent, c...)
	}
	t.st = &scriptStream{chunks: chunks, dl: -1, fin: f[3] == "1"}
	if f[2] != "-" {
		t.st.dl, _ = strconv.Atoi(f[2])
	}
	t.addr = t.addr0
	t.out, t.msg = vh.GuardMsg(func() string {
		t.putback, t.err = s.TCP(t.st, &t.addr)
		return "ok"
	})
	return t
}

func runTCP(op string, f []string) vh.Result {
	t := tcpSniff(&sniff.Sniffer{Timeout: time.Hour}, f[1:5])
	res, extra := t.finish()
	res.ModelOp = op + " " + extra
	return res
}

// runTwo: k >= 2 streams through ONE Sniffer, one after the other; every stream's oracles
// are evaluated only after the last one has been sniffed.  The server writes the replay
// bytes of stream A after its outbound dial completes, and other streams are sniffed by the
// same Sniffer in the meantime: the returned slice must stay what it was.
func runTwo(op string, f []string) vh.Result {
	k, _ := strconv.Atoi(f[1])
	if k < 2 || len(f) != 2+4*k {
		return vh.Result{Out: "bad-op"}
	}
	s := &sniff.Sniffer{Timeout: time.Hour}
	runs := make([]*tcpRun, k)
	for i := 0; i < k; i++ {
		runs[i] = tcpSniff(s, f[2+4*i:6+4*i])
	}
	var res vh.Result
	outs := make([]string, k)
	mop := "two " + f[1]
	for i, t := range runs {
		r, extra := t.finish()
		outs[i] = r.Out
		mop += " " + strings.Join(f[2+4*i:6+4*i], " ") + " " + extra
		for _, o := range r.Oracle {
			res.Oracle = append(res.Oracle, fmt.Sprintf("stream %d of %d sniffed in sequence by one Sniffer, evaluated after the last: %s", i+1, k, o))
		}
		res.NonTrivial = res.NonTrivial || r.NonTrivial
	}
	res.Out = strings.Join(outs, " ; ")
	res.ModelOp = mop
	return res
}

// finish evaluates a run: outcome line, oracles, and the parsers' behaviour for the model
// (the three fields appended to the stream's four on the model-op line).
func (t *tcpRun) finish() (res vh.Result, extra string) {
	addr0, addr, sent, st, putback, err, out, msg := t.addr0, t.addr, t.sent, t.st, t.putback, t.err, t.out, t.msg
	rest := st.rest()
	// what the external parsers did (model parameters)
	post := st.reads
	if st.probeDone {
		post = st.reads[st.probeReads:]
	} else {
		post = nil
	}
	reads := append([]int{bufioFirst}, post...)
	// the bytes the sniffer consumed from the stream = the bytes its parsers were handed
	consumed := sent[:len(sent)-len(rest)]
	httpHost := none
	if _, raw, ok := indepHTTPHost(consumed); ok {
		httpHost = vh.Hex([]byte(raw))
	}
	sni := none
	if len(sent) >= 5 {
		cl := int(sent[3])<<8 | int(sent[4])
		if len(consumed) >= 5+cl {
			sni = utlsName(sent[5 : 5+cl])
		}
	}
	extra = readsCSV(reads) + " " + httpHost + " " + sni
	if out == "panic" {
		res.Out = "panic"
		res.Oracle = append(res.Oracle, "Sniffer.TCP panicked: "+msg)
		res.NonTrivial = true
		return res, extra
	}
	if err != nil {
		res.Out = "abort"
		if _, _, e := net.SplitHostPort(addr0); e == nil {
			res.Oracle = append(res.Oracle, fmt.Sprintf("Sniffer.TCP returned an error (%v) for a well-formed request address %q: the connection is dropped", err, addr0))
		}
		return res, extra
	}
	res.Out = "ok pb=" + vh.Hex(putback) + " addr=" + vh.Hex([]byte(addr)) + " rest=" + vh.Hex(rest)
	res.NonTrivial = st.delivered >= 3
	// ---- oracles
	if !bytes.Equal(append(append([]byte{}, putback...), rest...), sent) {
		res.Oracle = append(res.Oracle, fmt.Sprintf("replay bytes followed by the unread remainder differ from what the client sent (sent %d bytes, putback %d, remainder %d)", len(sent), len(putback), len(rest)))
	}
	if len(st.deadlines) < 2 || st.deadlines[0].IsZero() || !st.deadlines[len(st.deadlines)-1].IsZero() {
		res.Oracle = append(res.Oracle, "read deadline not set before / not cleared after sniffing")
	}
	h0, p0, e0 := net.SplitHostPort(addr0)
	// the hook only ever runs on addresses Check accepted; those must have a port (set semantics: C19)
	if (&sniff.Sniffer{RewriteDomain: true}).Check(false, addr0) && e0 != nil {
		res.Oracle = append(res.Oracle, fmt.Sprintf("Sniffer.Check accepted %q, which has no port", addr0))
	}
	isHTTP := len(sent) >= 3 && isLetters(sent[:3])
	isTLS := len(sent) >= 3 && sent[0] >= 0x16 && sent[0] <= 0x17 && sent[1] == 3 && sent[2] <= 9
	// expected name, found independently in the FULL bytes the client sent
	expName, expOK, expClean := "", false, false
	if isHTTP {
		if hn, raw, ok := indepHTTPHost(sent); ok {
			expName, expOK = hn, true
			_, prt, e := net.SplitHostPort(raw)
			validPort := e != nil || isDigits(prt)
			expClean = cleanHost(hn) && validPort && hn != ""
		}
	} else if isTLS && len(sent) >= 5 {
		cl := int(sent[3])<<8 | int(sent[4])
		if len(sent) >= 5+cl {
			if nm, ok := indepSNI(sent[5 : 5+cl]); ok {
				expName, expOK, expClean = nm, true, cleanHost(nm)
			}
		}
	}
	if addr != addr0 {
		if e0 != nil {
			res.Oracle = append(res.Oracle, "address rewritten although the original has no port")
		} else {
			h1, p1, e1 := net.SplitHostPort(addr)
			if !expOK {
				res.Oracle = append(res.Oracle, fmt.Sprintf("address rewritten to %q but the bytes sent contain no Host header / server name", addr))
			} else if expClean {
				if e1 != nil {
					res.Oracle = append(res.Oracle, fmt.Sprintf("rewritten address %q no longer parses (%v); original %q, sniffed name %q", addr, e1, addr0, expName))
				} else {
					if p1 != p0 {
						res.Oracle = append(res.Oracle, fmt.Sprintf("port changed: %q -> %q", addr0, addr))
					}
					if h1 != h0 && h1 != expName {
						res.Oracle = append(res.Oracle, fmt.Sprintf("host rewritten to %q, which is neither the original %q nor the name in the bytes sent %q", h1, h0, expName))
					}
				}
			}
		}
		// truncated / unrecognised input must leave the address alone
		if !isHTTP && !isTLS {
			res.Oracle = append(res.Oracle, "address rewritten on input that is neither HTTP nor TLS")
		}
		if isHTTP {
			if _, _, ok := indepHTTPHost(consumed); !ok {
				res.Oracle = append(res.Oracle, "address rewritten although the bytes read so far do not contain a complete request with a Host")
			}
		}
		if isTLS {
			if len(consumed) < 5 || len(consumed) < 5+(int(sent[3])<<8|int(sent[4])) {
				res.Oracle = append(res.Oracle, "address rewritten although the TLS record was not completely read")
			}
		}
	}
	return res, extra
}

func isLetters(b []byte) bool {
	for _, c := range b {
		if (c < 'A' || c > 'Z') && (c < 'a' || c > 'z') {
			return false
		}
	}
	return true
}

func isDigits(s string) bool {
	for _, c := range s {
		if c < '0' || c > '9' {
			return false
		}
	}
	return true
}

func permCSV(p []int) string {
	if len(p) == 0 {
		return "."
	}
	return readsCSV(p)
}

func runUDP(op string, f []string) vh.Result {
	addr0 := string(vh.UnHex(f[1]))
	pkt := vh.UnHex(f[2])
	var res vh.Result
	// parameters of the model: what the crypto does at the inputs the sniffer presents
	tr := mirrorQUIC(pkt)
	sample, mask := none, none
	if tr.sample != nil {
		sample, mask = vh.Hex(tr.sample), vh.Hex(tr.mask)
	}
	// the CRYPTO payload the real chain extracts (on its own copy) and utls' view of it
	plOut, sni := none, none
	var pl []byte
	var plErr error
	o1, m1 := vh.GuardMsg(func() string {
		pl, plErr = sniff.VerifReadCryptoPayload(vh.Exact(pkt))
		return "ok"
	})
	if o1 == "ok" && plErr == nil {
		plOut = vh.Hex(pl)
		if len(pl) >= 4 && pl[0] == 1 {
			sni = utlsName(pl)
		}
	}
	res.ModelOp = op + " " + sample + " " + mask + " " + strconv.FormatInt(tr.pn, 10) + " " + strconv.Itoa(tr.hdrLen) +
		" " + tr.openState + " " + permCSV(tr.perm) + " " + sni
	res.NonTrivial = tr.reached
	// the hook itself, on a cap==len slice, exactly as udpSessionManager hands it over
	data := vh.Exact(pkt)
	addr := addr0
	var err error
	o2, m2 := vh.GuardMsg(func() string {
		err = (&sniff.Sniffer{}).UDP(data, &addr)
		return "ok"
	})
	if o1 == "panic" || o2 == "panic" {
		res.Out = "panic"
		res.NonTrivial = true
		msg := m2
		if msg == "" {
			msg = m1
		}
		res.Oracle = append(res.Oracle, "QUIC sniffer panicked on a "+strconv.Itoa(len(pkt))+"-byte datagram: "+msg)
		return res
	}
	after := "="
	if !bytes.Equal(data, pkt) {
		after = vh.Hex(data)
		nd := 0
		for i := range pkt {
			if data[i] != pkt[i] {
				nd++
			}
		}
		res.Oracle = append(res.Oracle, fmt.Sprintf("the first UDP packet was modified by the sniffer before being forwarded (%d of %d bytes differ)", nd, len(pkt)))
	}
	e := "0"
	if err != nil {
		e = "1"
		if _, _, e0 := net.SplitHostPort(addr0); e0 == nil {
			res.Oracle = append(res.Oracle, fmt.Sprintf("Sniffer.UDP returned an error (%v) for a well-formed request address", err))
		}
	}
	res.Out = "ok data=" + after + " addr=" + vh.Hex([]byte(addr)) + " err=" + e + " pl=" + plOut
	if addr != addr0 {
		h0, p0, e0 := net.SplitHostPort(addr0)
		nm, ok := indepSNI(tr.indepCryptoStream())
		if e0 != nil {
			res.Oracle = append(res.Oracle, "address rewritten although the original has no port")
		} else if !ok {
			res.Oracle = append(res.Oracle, fmt.Sprintf("address rewritten to %q but the decrypted Initial carries no server name", addr))
		} else if cleanHost(nm) {
			h1, p1, e1 := net.SplitHostPort(addr)
			if e1 != nil {
				res.Oracle = append(res.Oracle, fmt.Sprintf("rewritten address %q no longer parses (%v)", addr, e1))
			} else {
				if p1 != p0 {
					res.Oracle = append(res.Oracle, fmt.Sprintf("port changed: %q -> %q", addr0, addr))
				}
				if h1 != h0 && h1 != nm {
					res.Oracle = append(res.Oracle, fmt.Sprintf("host rewritten to %q, neither the original nor the server name %q in the packet", h1, nm))
				}
			}
		}
	}
	return res
}
