//go:build verif

package main

import (
	vh "github.com/apernet/hysteria/core/v2/verifhlib"
	"github.com/apernet/hysteria/extras/v2/obfs"
)

// C14: constants of extras/obfs/gecko*.go for lean/Hy/Gen/Extras.lean. The correspondence
// stream itself is the in-package test harness/extras/obfs/zz_verif_c14_test.go.
func init() { vh.RegisterConsts(obfs.VerifC14Consts) }
