//go:build verif

package main

// C17 end to end: what the proxied TARGET receives.
//
// Component "sniffe2e": a real core/server with the REAL sniff.Sniffer as RequestHook and a
// recording Outbound, a real core/client over loopback UDP.  One op is a batch of cases that
// run concurrently on the one client connection (so the one Sniffer serves several streams
// at the same time, as in production):
//
//	e2e <m> { t <addr> <chunks> <pause> <dialms> | u <addr> <packet> <packet2> } × m
//
// t: client.TCP(addr), one Write per chunk back to back, with a pause of 3.75 × the sniff
// timeout BEFORE chunk number <pause> ("-": none), the fake outbound takes <dialms> to dial;
// then the client waits for the target's banner and closes.  u: client.UDP(), Send(packet),
// Send(packet2).  Cases are told apart at the outbound by the PORT of their address (unique
// within a batch): a changed port shows up as a missing plus a stray dial.
//
// Oracles (model-free): target bytes == client bytes, exactly and in order; dialled once;
// dial host ∈ {original, Host / SNI found independently in the bytes sent}, port unchanged;
// unhooked or not-yet-complete input ⇒ address untouched; exactly the target's banner comes
// back to the client (a second response header would precede it); UDP: first datagram arrives
// byte-identical, at the dialled address; the second one follows to the same address.
//
// The model-op line carries what the model's parameters did (Check's verdict, the parser's
// result on the bytes visible before the pause, the crypto trace) for SniffServer.hookedTCP /
// hookedUDP.

import (
	"bytes"
	"crypto/ecdsa"
	"crypto/elliptic"
	"crypto/rand"
	"crypto/tls"
	"crypto/x509"
	"crypto/x509/pkix"
	"errors"
	"fmt"
	"io"
	"math/big"
	"net"
	"strconv"
	"strings"
	"sync"
	"time"

	"github.com/apernet/hysteria/core/v2/client"
	"github.com/apernet/hysteria/core/v2/server"
	vh "github.com/apernet/hysteria/core/v2/verifhlib"
	"github.com/apernet/hysteria/extras/v2/sniff"
)

func init() { vh.Register("sniffe2e", func() vh.Component { return &sniffE2E{} }) }

const (
	e2eTimeout = 400 * time.Millisecond
	e2ePause   = 1500 * time.Millisecond
	e2eBanner  = "verif-target-banner\n"
)

type sniffE2E struct {
	once sync.Once
	err  error
	srv  server.Server
	cl   client.Client
	ob   *recOutbound
	hook *sniff.Sniffer
}

// ---------------------------------------------------------------- recording outbound

type recTCP struct {
	mu     sync.Mutex
	got    []byte
	closed chan struct{}
	once   sync.Once
	sentB  bool
}

func (c *recTCP) Read(p []byte) (int, error) {
	c.mu.Lock()
	first := !c.sentB
	c.sentB = true
	c.mu.Unlock()
	if first {
		return copy(p, e2eBanner), nil
	}
	<-c.closed
	return 0, io.EOF
}

func (c *recTCP) Write(p []byte) (int, error) {
	c.mu.Lock()
	c.got = append(c.got, p...)
	c.mu.Unlock()
	return len(p), nil
}
func (c *recTCP) Close() error                       { c.once.Do(func() { close(c.closed) }); return nil }
func (c *recTCP) LocalAddr() net.Addr                { return &net.TCPAddr{IP: net.IPv4(127, 0, 0, 1)} }
func (c *recTCP) RemoteAddr() net.Addr               { return &net.TCPAddr{IP: net.IPv4(127, 0, 0, 1)} }
func (c *recTCP) SetDeadline(t time.Time) error      { return nil }
func (c *recTCP) SetReadDeadline(t time.Time) error  { return nil }
func (c *recTCP) SetWriteDeadline(t time.Time) error { return nil }

type recUDP struct {
	mu     sync.Mutex
	pkts   [][]byte
	tos    []string
	closed chan struct{}
	once   sync.Once
}

func (c *recUDP) ReadFrom(b []byte) (int, string, error) {
	<-c.closed
	return 0, "", errors.New("closed")
}

func (c *recUDP) WriteTo(b []byte, addr string) (int, error) {
	c.mu.Lock()
	c.pkts = append(c.pkts, append([]byte{}, b...))
	c.tos = append(c.tos, addr)
	c.mu.Unlock()
	return len(b), nil
}
func (c *recUDP) Close() error { c.once.Do(func() { close(c.closed) }); return nil }

type e2eSlot struct {
	dialDelay time.Duration
	dials     []string
	tcp       *recTCP
	udp       *recUDP
}

type recOutbound struct {
	mu    sync.Mutex
	slots map[string]*e2eSlot // by port
	stray []string
}

func (o *recOutbound) slot(reqAddr string) *e2eSlot {
	_, port, err := net.SplitHostPort(reqAddr)
	o.mu.Lock()
	defer o.mu.Unlock()
	s := o.slots[port]
	if err != nil || s == nil {
		o.stray = append(o.stray, reqAddr)
		return nil
	}
	s.dials = append(s.dials, reqAddr)
	return s
}

func (o *recOutbound) TCP(reqAddr string) (net.Conn, error) {
	s := o.slot(reqAddr)
	if s == nil {
		return nil, errors.New("verif: no such target")
	}
	time.Sleep(s.dialDelay)
	c := &recTCP{closed: make(chan struct{})}
	o.mu.Lock()
	s.tcp = c
	o.mu.Unlock()
	return c, nil
}

func (o *recOutbound) UDP(reqAddr string) (server.UDPConn, error) {
	s := o.slot(reqAddr)
	if s == nil {
		return nil, errors.New("verif: no such target")
	}
	c := &recUDP{closed: make(chan struct{})}
	o.mu.Lock()
	s.udp = c
	o.mu.Unlock()
	return c, nil
}

func (o *recOutbound) CheckUDP(reqAddr string) error { return nil }

type e2eAuth struct{}

func (e2eAuth) Authenticate(addr net.Addr, auth string, tx uint64) (bool, string) {
	return true, "verif"
}

func e2eCert() (tls.Certificate, error) {
	key, err := ecdsa.GenerateKey(elliptic.P256(), rand.Reader)
	if err != nil {
		return tls.Certificate{}, err
	}
	tpl := &x509.Certificate{SerialNumber: big.NewInt(1), Subject: pkix.Name{CommonName: "verif"},
		NotBefore: time.Now().Add(-time.Hour), NotAfter: time.Now().Add(24 * time.Hour),
		KeyUsage: x509.KeyUsageDigitalSignature, ExtKeyUsage: []x509.ExtKeyUsage{x509.ExtKeyUsageServerAuth}, DNSNames: []string{"verif"}}
	der, err := x509.CreateCertificate(rand.Reader, tpl, tpl, &key.PublicKey, key)
	if err != nil {
		return tls.Certificate{}, err
	}
	return tls.Certificate{Certificate: [][]byte{der}, PrivateKey: key}, nil
}

func (c *sniffE2E) setup() {
	cert, err := e2eCert()
	if err != nil {
		c.err = err
		return
	}
	udp, err := net.ListenUDP("udp", &net.UDPAddr{IP: net.IPv4(127, 0, 0, 1)})
	if err != nil {
		c.err = err
		return
	}
	c.ob = &recOutbound{slots: map[string]*e2eSlot{}}
	// RewriteDomain false: a destination that already is a domain is NOT hooked (Check false)
	c.hook = &sniff.Sniffer{Timeout: e2eTimeout, RewriteDomain: false}
	c.srv, err = server.NewServer(&server.Config{
		TLSConfig:     server.TLSConfig{Certificates: []tls.Certificate{cert}},
		Conn:          udp,
		Authenticator: e2eAuth{},
		RequestHook:   c.hook,
		Outbound:      c.ob,
	})
	if err != nil {
		c.err = err
		return
	}
	go func() { _ = c.srv.Serve() }()
	c.cl, _, c.err = client.NewClient(&client.Config{ServerAddr: udp.LocalAddr(), Auth: "x",
		TLSConfig: client.TLSConfig{InsecureSkipVerify: true}})
}

// ---------------------------------------------------------------- generator

var e2eHosts = []string{"1.2.3.4", "203.0.113.9", "[2001:db8::2]", "10.0.0.1", "example.org"}

func (c *sniffE2E) Gen(r *vh.RNG, n int, emit func(op string, tags ...string)) {
	for b := 0; b < n; b++ {
		const m = 6
		op := "e2e " + strconv.Itoa(m)
		var tags []string
		for i := 0; i < m; i++ {
			host := e2eHosts[r.Intn(len(e2eHosts))]
			if r.Chance(1, 2) {
				host = e2eHosts[r.Intn(3)] // mostly IP literals: hooked
			}
			addr := host + ":" + strconv.Itoa(3000+17*i+r.Intn(17))
			if i%3 == 2 {
				cs, tag := e2eUDPCase(r)
				op += " u " + addrHex(addr) + " " + cs
				tags = append(tags, tag)
				continue
			}
			sent, tag, hdrEnd := e2eTCPBytes(r)
			// split into 1..4 writes; one boundary likes to sit inside the header / record
			var cuts []int
			if hdrEnd > 1 && r.Chance(2, 3) {
				cuts = append(cuts, r.Range(1, hdrEnd-1))
			}
			for len(cuts) < r.Intn(4) && len(sent) > 1 {
				cuts = append(cuts, r.Range(1, len(sent)-1))
			}
			cuts = append(cuts, 0, len(sent))
			sortInts(cuts)
			var chunks [][]byte
			for j := 1; j < len(cuts); j++ {
				if cuts[j] > cuts[j-1] {
					chunks = append(chunks, sent[cuts[j-1]:cuts[j]])
				}
			}
			pause := "-"
			if len(chunks) > 0 && r.Chance(1, 2) {
				pause = strconv.Itoa(r.Intn(len(chunks)))
				tag += "+pause"
			}
			op += " t " + addrHex(addr) + " " + vh.Chunks(chunks) + " " + pause + " " + strconv.Itoa(r.Pick([]int{0, 0, 80}))
			tags = append(tags, tag)
		}
		emit(op, tags...)
	}
}

func sortInts(a []int) {
	for i := 1; i < len(a); i++ {
		for j := i; j > 0 && a[j] < a[j-1]; j-- {
			a[j], a[j-1] = a[j-1], a[j]
		}
	}
}

// e2eTCPBytes: first bytes of a flow followed by more payload; hdrEnd = where the sniffable
// part (header block / TLS record) ends.
func e2eTCPBytes(r *vh.RNG) (sent []byte, tag string, hdrEnd int) {
	tail := r.Bytes(r.Pick([]int{0, 1, 200, 5000, 70000}))
	switch r.Intn(5) {
	case 0, 1:
		host := hostHeaders[r.Intn(len(hostHeaders))]
		h := buildHTTP(r, host, true, false, r.Pick([]int{0, 100, 3000, 9000}), nil)
		return append(h, tail...), "e2e-http", len(h)
	case 2, 3:
		hs := buildClientHello(r, sniNames[r.Intn(len(sniNames))], !r.Chance(1, 6), []string{"h2"}, r.Pick([]int{0, 300, 3000}), false)
		rec := tlsRecord(0x16, 0x0301, len(hs), hs)
		return append(rec, tail...), "e2e-tls", len(rec)
	default:
		g := r.Bytes(r.Range(0, 60))
		return append(g, tail...), "e2e-garbage", len(g)
	}
}

func e2eUDPCase(r *vh.RNG) (string, string) {
	var pkt []byte
	tag := "e2e-quic"
	switch r.Intn(5) {
	case 0:
		pkt = suiteQUIC
		tag = "e2e-quic-suite"
	case 1:
		pkt = r.Bytes(r.Range(1, 1300))
		tag = "e2e-udp-garbage"
	case 2:
		s, _ := randomInitial(r)
		pkt = buildInitial(s)
		tag = "e2e-quic-random"
	default:
		hs := buildClientHello(r, sniNames[r.Intn(len(sniNames))], true, []string{"h3"}, 0, false)
		pkt = buildInitial(initialSpec{ver: quicV1, dcid: r.Bytes(8), pnLen: r.Range(1, 4), pn: 0,
			frames: cryptoFrames(r, hs, r.Range(1, 3), r.Intn(2)), padTo: r.Pick([]int{0, 1200})})
	}
	return vh.Hex(pkt) + " " + vh.Hex(r.Bytes(r.Range(1, 40))), tag
}

// ---------------------------------------------------------------- run

type e2eCase struct {
	kind         string
	addr         string
	chunks       [][]byte
	pause        int
	pkt, pkt2    []byte
	slot         *e2eSlot
	out, mop     string
	oracle       []string
	clientGot    []byte
	sent         []byte
	tcpNoConnect string
	suspect      bool // outcome contradicts the script's timing: re-run alone before reporting
}

func (c *sniffE2E) Run(op string) vh.Result {
	c.once.Do(c.setup)
	if c.err != nil {
		return vh.Result{Out: "setup-error " + strings.ReplaceAll(c.err.Error(), " ", "_")}
	}
	f := strings.Fields(op)
	if len(f) < 2 || f[0] != "e2e" {
		return vh.Result{Out: "bad-op"}
	}
	m, _ := strconv.Atoi(f[1])
	f = f[2:]
	var cases []*e2eCase
	slots := map[string]*e2eSlot{}
	for i := 0; i < m; i++ {
		if len(f) == 0 {
			return vh.Result{Out: "bad-op"}
		}
		k := &e2eCase{kind: f[0], pause: -1}
		switch {
		case f[0] == "t" && len(f) >= 5:
			k.addr = string(vh.UnHex(f[1]))
			k.chunks = vh.ParseChunks(f[2])
			if f[3] != "-" {
				k.pause, _ = strconv.Atoi(f[3])
			}
			d, _ := strconv.Atoi(f[4])
			k.slot = &e2eSlot{dialDelay: time.Duration(d) * time.Millisecond}
			f = f[5:]
		case f[0] == "u" && len(f) >= 4:
			k.addr = string(vh.UnHex(f[1]))
			k.pkt, k.pkt2 = vh.UnHex(f[2]), vh.UnHex(f[3])
			k.slot = &e2eSlot{}
			f = f[4:]
		default:
			return vh.Result{Out: "bad-op"}
		}
		_, port, err := net.SplitHostPort(k.addr)
		if err != nil || slots[port] != nil {
			return vh.Result{Out: "bad-op"}
		}
		slots[port] = k.slot
		cases = append(cases, k)
	}
	c.ob.mu.Lock()
	c.ob.slots = slots
	c.ob.stray = nil
	c.ob.mu.Unlock()
	var wg sync.WaitGroup
	for _, k := range cases {
		wg.Add(1)
		go func(k *e2eCase) {
			defer wg.Done()
			if k.kind == "t" {
				c.runTCPCase(k)
			} else {
				c.runUDPCase(k)
			}
		}(k)
	}
	wg.Wait()
	var res vh.Result
	res.NonTrivial = true
	outs := make([]string, len(cases))
	mop := "e2e " + strconv.Itoa(m)
	for i, k := range cases {
		if k.kind == "t" {
			c.evalTCP(k)
			// Whether the sniffer saw the bytes before or after its deadline is a matter of real
			// time.  A case whose outcome contradicts its script (everything was written at once
			// yet nothing was sniffed, or the other way round) is re-run ALONE, up to twice: a
			// scheduling hiccup on a loaded machine goes away, a defect does not.
			for try := 0; try < 2 && k.suspect; try++ {
				_, port, _ := net.SplitHostPort(k.addr)
				k.slot = &e2eSlot{dialDelay: k.slot.dialDelay}
				c.ob.mu.Lock()
				c.ob.slots = map[string]*e2eSlot{port: k.slot}
				c.ob.mu.Unlock()
				k.oracle, k.sent, k.clientGot, k.tcpNoConnect, k.suspect = nil, nil, nil, "", false
				c.runTCPCase(k)
				c.evalTCP(k)
			}
		} else {
			c.evalUDP(k)
		}
		outs[i] = k.out
		mop += " " + k.mop
		for _, o := range k.oracle {
			q := strconv.QuoteToASCII(fmt.Sprintf("case %d (%s %s): %s", i+1, k.kind, k.addr, o))
			res.Oracle = append(res.Oracle, strings.ReplaceAll(q[1:len(q)-1], `\"`, `"`))
		}
	}
	c.ob.mu.Lock()
	for _, s := range c.ob.stray {
		res.Oracle = append(res.Oracle, strconv.QuoteToASCII("the outbound was dialled for an address no case asked for (port changed?): "+s))
	}
	c.ob.mu.Unlock()
	res.Out = strings.Join(outs, " ; ")
	res.ModelOp = mop
	return res
}

func (c *sniffE2E) runTCPCase(k *e2eCase) {
	for _, ch := range k.chunks {
		k.sent = append(k.sent, ch...)
	}
	conn, err := c.cl.TCP(k.addr)
	if err != nil {
		k.tcpNoConnect = err.Error()
		return
	}
	var rmu sync.Mutex
	var live []byte
	defer func() {
		rmu.Lock()
		k.clientGot = append([]byte{}, live...)
		rmu.Unlock()
	}()
	gotBanner := make(chan struct{})
	go func() {
		buf := make([]byte, 4096)
		signalled := false
		for {
			n, err := conn.Read(buf)
			rmu.Lock()
			live = append(live, buf[:n]...)
			enough := len(live) >= len(e2eBanner)
			rmu.Unlock()
			if enough && !signalled {
				signalled = true
				close(gotBanner)
			}
			if err != nil {
				if !signalled {
					close(gotBanner)
				}
				return
			}
		}
	}()
	for i, ch := range k.chunks {
		if i == k.pause {
			time.Sleep(e2ePause)
		}
		if _, err := conn.Write(ch); err != nil {
			break
		}
	}
	select {
	case <-gotBanner:
	case <-time.After(4 * time.Second):
	}
	time.Sleep(20 * time.Millisecond) // anything that wrongly follows the banner
	_ = conn.Close()
	// the server closes the target once the client's direction has ended
	deadline := time.After(4 * time.Second)
	for {
		c.ob.mu.Lock()
		t := k.slot.tcp
		c.ob.mu.Unlock()
		if t != nil {
			select {
			case <-t.closed:
				return
			default:
			}
		}
		select {
		case <-deadline:
			return
		case <-time.After(5 * time.Millisecond):
		}
	}
}

func (c *sniffE2E) evalTCP(k *e2eCase) {
	sent := k.sent
	hooked := c.hook.Check(false, k.addr)
	// what the sniffer could see before its deadline
	visible := sent
	cut := "-"
	if k.pause >= 0 {
		n := 0
		for i := 0; i < k.pause; i++ {
			n += len(k.chunks[i])
		}
		visible = sent[:n]
		cut = strconv.Itoa(n)
	}
	kind, name := "n", none
	isH := len(visible) >= 3 && isLetters(visible[:3])
	isT := len(visible) >= 3 && visible[0] >= 0x16 && visible[0] <= 0x17 && visible[1] == 3 && visible[2] <= 9
	if isH {
		kind = "h"
		if _, raw, ok := indepHTTPHost(visible); ok {
			name = vh.Hex([]byte(raw))
		}
	} else if isT {
		kind = "s"
		if len(visible) >= 5 {
			if cl := int(visible[3])<<8 | int(visible[4]); len(visible) >= 5+cl {
				name = utlsName(visible[5 : 5+cl])
			}
		}
	}
	k.mop = "t " + strconv.Itoa(e2eB(hooked)) + " " + addrHex(k.addr) + " " + vh.Hex(sent) + " " + cut + " " + kind + " " + name
	c.ob.mu.Lock()
	dials := append([]string{}, k.slot.dials...)
	t := k.slot.tcp
	c.ob.mu.Unlock()
	if k.tcpNoConnect != "" {
		k.oracle = append(k.oracle, "client.TCP failed: "+k.tcpNoConnect)
	}
	if len(dials) != 1 || t == nil {
		k.oracle = append(k.oracle, fmt.Sprintf("the target was dialled %d times (addresses %q)", len(dials), dials))
		k.out = "t same=0 n=0 dial=~ resp=0"
		return
	}
	t.mu.Lock()
	got := append([]byte{}, t.got...)
	t.mu.Unlock()
	same := bytes.Equal(got, sent)
	if !same {
		i := 0
		for i < len(got) && i < len(sent) && got[i] == sent[i] {
			i++
		}
		k.oracle = append(k.oracle, fmt.Sprintf("the target received %d bytes, the client sent %d; first difference at offset %d", len(got), len(sent), i))
	}
	resp := string(k.clientGot) == e2eBanner
	if !resp {
		k.oracle = append(k.oracle, fmt.Sprintf("the client read %q from the proxied connection, the target wrote %q", trunc(k.clientGot, 80), e2eBanner))
	}
	dial := dials[0]
	named := name != none && name != "-"
	k.suspect = hooked && ((named && dial == k.addr) || (!named && dial != k.addr))
	k.out = "t same=" + strconv.Itoa(e2eB(same)) + " n=" + strconv.Itoa(len(got)) + " dial=" + addrHex(dial) + " resp=" + strconv.Itoa(e2eB(resp))
	if dial != k.addr {
		h0, p0, _ := net.SplitHostPort(k.addr)
		h1, p1, e1 := net.SplitHostPort(dial)
		if !hooked {
			k.oracle = append(k.oracle, fmt.Sprintf("destination %q is not hooked (Check false) but %q was dialled", k.addr, dial))
		}
		if name == none || name == "-" {
			k.oracle = append(k.oracle, fmt.Sprintf("%q dialled although the bytes that arrived before the sniff deadline hold no complete request / hello with a name", dial))
		}
		exp, ok := "", false
		if isH {
			exp, _, ok = indepHTTPHost(sent)
		} else if isT && len(sent) >= 5 {
			if cl := int(sent[3])<<8 | int(sent[4]); len(sent) >= 5+cl {
				exp, ok = indepSNI(sent[5 : 5+cl])
			}
		}
		if e1 != nil {
			if ok && cleanHost(exp) {
				k.oracle = append(k.oracle, fmt.Sprintf("dialled address %q does not parse", dial))
			}
		} else {
			if p1 != p0 {
				k.oracle = append(k.oracle, fmt.Sprintf("port changed: %q -> %q", k.addr, dial))
			}
			if h1 != h0 && (!ok || h1 != exp) {
				k.oracle = append(k.oracle, fmt.Sprintf("dial host %q is neither the original nor the name in the bytes sent (%q)", h1, exp))
			}
		}
	}
}

func trunc(b []byte, n int) []byte {
	if len(b) > n {
		return b[:n]
	}
	return b
}

func e2eB(b bool) int {
	if b {
		return 1
	}
	return 0
}

func (c *sniffE2E) runUDPCase(k *e2eCase) {
	uc, err := c.cl.UDP()
	if err != nil {
		k.tcpNoConnect = err.Error()
		return
	}
	defer uc.Close()
	_ = uc.Send(k.pkt, k.addr)
	// the second datagram is sent once the first has been forwarded (datagrams may reorder)
	wait := func(n int, d time.Duration) {
		deadline := time.Now().Add(d)
		for time.Now().Before(deadline) {
			c.ob.mu.Lock()
			u := k.slot.udp
			c.ob.mu.Unlock()
			if u != nil {
				u.mu.Lock()
				l := len(u.pkts)
				u.mu.Unlock()
				if l >= n {
					return
				}
			}
			time.Sleep(3 * time.Millisecond)
		}
	}
	wait(1, 2*time.Second)
	_ = uc.Send(k.pkt2, k.addr)
	wait(2, 2*time.Second)
}

func quicModelFields(pkt []byte) (string, quicTrace) {
	tr := mirrorQUIC(pkt)
	sample, mask := none, none
	if tr.sample != nil {
		sample, mask = vh.Hex(tr.sample), vh.Hex(tr.mask)
	}
	sni := none
	var pl []byte
	var plErr error
	o1, _ := vh.GuardMsg(func() string {
		pl, plErr = sniff.VerifReadCryptoPayload(vh.Exact(pkt))
		return "ok"
	})
	if o1 == "ok" && plErr == nil && len(pl) >= 4 && pl[0] == 1 {
		sni = utlsName(pl)
	}
	return sample + " " + mask + " " + strconv.FormatInt(tr.pn, 10) + " " + strconv.Itoa(tr.hdrLen) +
		" " + tr.openState + " " + permCSV(tr.perm) + " " + sni, tr
}

func (c *sniffE2E) evalUDP(k *e2eCase) {
	hooked := c.hook.Check(true, k.addr)
	fields, tr := quicModelFields(k.pkt)
	k.mop = "u " + strconv.Itoa(e2eB(hooked)) + " " + addrHex(k.addr) + " " + vh.Hex(k.pkt) + " " + fields
	c.ob.mu.Lock()
	dials := append([]string{}, k.slot.dials...)
	u := k.slot.udp
	c.ob.mu.Unlock()
	if k.tcpNoConnect != "" {
		k.oracle = append(k.oracle, "client.UDP failed: "+k.tcpNoConnect)
	}
	if len(dials) != 1 || u == nil {
		k.oracle = append(k.oracle, fmt.Sprintf("the UDP target was dialled %d times (addresses %q)", len(dials), dials))
		k.out = "u none"
		return
	}
	u.mu.Lock()
	pkts, tos := u.pkts, u.tos
	u.mu.Unlock()
	dial := dials[0]
	first := len(pkts) >= 1 && bytes.Equal(pkts[0], k.pkt)
	to := none
	if len(tos) >= 1 {
		to = addrHex(tos[0])
	}
	k.out = "u first=" + strconv.Itoa(e2eB(first)) + " dial=" + addrHex(dial) + " to=" + to
	if len(pkts) == 0 {
		k.oracle = append(k.oracle, "the first datagram never reached the target")
		return
	}
	if !first {
		nd := 0
		for i := range k.pkt {
			if i >= len(pkts[0]) || pkts[0][i] != k.pkt[i] {
				nd++
			}
		}
		k.oracle = append(k.oracle, fmt.Sprintf("the first datagram arrived at the target modified (%d bytes instead of %d, %d differ)", len(pkts[0]), len(k.pkt), nd))
	}
	if tos[0] != dial {
		k.oracle = append(k.oracle, fmt.Sprintf("first datagram written to %q but %q was dialled", tos[0], dial))
	}
	if len(pkts) < 2 || !bytes.Equal(pkts[1], k.pkt2) || tos[1] != dial {
		k.oracle = append(k.oracle, "the second datagram of the session did not arrive unmodified at the dialled address")
	}
	if dial != k.addr {
		h0, p0, _ := net.SplitHostPort(k.addr)
		h1, p1, e1 := net.SplitHostPort(dial)
		nm, ok := indepSNI(tr.indepCryptoStream())
		if !hooked {
			k.oracle = append(k.oracle, fmt.Sprintf("destination %q is not hooked but %q was dialled", k.addr, dial))
		}
		if e1 != nil {
			if ok && cleanHost(nm) {
				k.oracle = append(k.oracle, fmt.Sprintf("dialled address %q does not parse", dial))
			}
		} else {
			if p1 != p0 {
				k.oracle = append(k.oracle, fmt.Sprintf("port changed: %q -> %q", k.addr, dial))
			}
			if h1 != h0 && (!ok || h1 != nm) {
				k.oracle = append(k.oracle, fmt.Sprintf("dial host %q is neither the original nor the server name in the Initial (%q)", h1, nm))
			}
		}
	}
}
