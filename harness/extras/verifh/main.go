//go:build verif

// verif-extras: correspondence harness for module extras (overlaid at /repo/extras/verifh).
// Components register themselves from their own files (vh.Register / vh.RegisterConsts in init).
package main

import "github.com/apernet/hysteria/core/v2/verifhlib"

func main() { verifhlib.Main() }
