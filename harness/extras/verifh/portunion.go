//go:build verif

package main

import (
	"fmt"
	"os"
	"runtime"
	"strings"
	"time"

	vh "github.com/apernet/hysteria/core/v2/verifhlib"
	"github.com/apernet/hysteria/extras/v2/transport/udphop"
	"github.com/apernet/hysteria/extras/v2/utils"
)

// C19 (port-set half): utils.ParsePortUnion / Normalize / Ports / Contains.
//
//	parse <hex of the expression string>
//	norm  <a-b,c-d,...>      Normalize on a hand-built PortUnion (Start <= End)
//
// Outcome line (compared with `hydrv portunion`):
//
//	nil
//	ok <s-e,s-e,...> n=<len(Ports())> h=<rolling hash of Ports()> c=<Contains on probe ports>
//
// Model-free oracle: an independent tiny parser marks a 65536-entry bitmap; Contains must
// equal the bitmap on every port, Ports() must be exactly the marked ports in increasing
// order without duplicates, the ranges must be sorted/disjoint/non-adjacent, and the
// parser must return nil exactly on the strings the tiny parser rejects.

func init() {
	vh.Register("portunion", func() vh.Component { memGuard(6 << 30); return &puComp{} })
	vh.RegisterConsts(func() map[string]any {
		return map[string]any{
			"udphopPacketQueueSize":      udphop.VerifPacketQueueSize,
			"udphopUdpBufferSize":        udphop.VerifUDPBufferSize,
			"udphopDefaultHopIntervalNs": int64(udphop.VerifDefaultHopInterval),
		}
	})
}

// memGuard aborts the harness when the heap explodes (a runaway loop in the code under
// test must not take the machine down).
func memGuard(limit uint64) {
	go func() {
		var ms runtime.MemStats
		for {
			time.Sleep(50 * time.Millisecond)
			runtime.ReadMemStats(&ms)
			if ms.HeapAlloc > limit {
				fmt.Fprintln(os.Stderr, "verif: heap limit exceeded (runaway loop in the code under test?), aborting")
				os.Exit(3)
			}
		}
	}()
}

type puComp struct {
	dead bool // a call into the implementation did not return (runaway loop)
}

// ---- independent reference (no strconv, no sort): a bitmap over 0..65535

type bitmap [65536]bool

func refNum(s string) (int, bool) {
	if len(s) == 0 {
		return 0, false
	}
	for i := 0; i < len(s); i++ {
		if s[i] < '0' || s[i] > '9' {
			return 0, false
		}
	}
	s = strings.TrimLeft(s, "0")
	if len(s) > 5 {
		return 0, false
	}
	v := 0
	for i := 0; i < len(s); i++ {
		v = v*10 + int(s[i]-'0')
	}
	if v > 65535 {
		return 0, false
	}
	return v, true
}

// puRefParse returns (bitmap, valid).
func puRefParse(s string) (*bitmap, bool) {
	var bm bitmap
	if s == "all" || s == "*" {
		for i := range bm {
			bm[i] = true
		}
		return &bm, true
	}
	for _, item := range strings.Split(s, ",") {
		dash := strings.IndexByte(item, '-')
		if dash < 0 {
			v, ok := refNum(item)
			if !ok {
				return nil, false
			}
			bm[v] = true
			continue
		}
		a, ok1 := refNum(item[:dash])
		b, ok2 := refNum(item[dash+1:])
		if !ok1 || !ok2 {
			return nil, false
		}
		if a > b {
			a, b = b, a
		}
		for i := a; i <= b; i++ {
			bm[i] = true
		}
	}
	return &bm, true
}

var probes = []uint16{0, 1, 2, 79, 80, 81, 442, 443, 444, 1023, 1024, 9999, 10000, 10001, 20000, 32767, 32768, 50000, 65533, 65534, 65535}

func describe(u utils.PortUnion, ports []uint16) string {
	var sb strings.Builder
	sb.WriteString("ok ")
	for i, r := range u {
		if i > 0 {
			sb.WriteByte(',')
		}
		fmt.Fprintf(&sb, "%d-%d", r.Start, r.End)
	}
	if len(u) == 0 {
		sb.WriteByte('.')
	}
	var h uint64
	for i, p := range ports {
		h = (h*31 + uint64(p) + uint64(i)) % 1000000007
	}
	fmt.Fprintf(&sb, " n=%d h=%d c=", len(ports), h)
	for _, p := range probes {
		if u.Contains(p) {
			sb.WriteByte('1')
		} else {
			sb.WriteByte('0')
		}
	}
	return sb.String()
}

// runaway reports whether the goroutine that will signal on done is in a runaway allocating
// loop: it is still running after 20 ms AND keeps allocating hundreds of megabytes (a
// legitimate Ports() allocates well under 1 MB however slow the machine is).  Judging by
// allocation rather than by time keeps a loaded machine from raising a false alarm.
func runaway[T any](done <-chan T) (T, bool) {
	var zero T
	select {
	case v := <-done:
		return v, false
	case <-time.After(20 * time.Millisecond):
	}
	var ms runtime.MemStats
	runtime.ReadMemStats(&ms)
	base := ms.TotalAlloc
	for {
		select {
		case v := <-done:
			return v, false
		case <-time.After(5 * time.Millisecond):
			runtime.ReadMemStats(&ms)
			if ms.TotalAlloc-base > 256<<20 {
				return zero, true
			}
		}
	}
}

// callPorts runs u.Ports() with a watchdog: a loop counter that wraps at 65535 never ends.
func (c *puComp) callPorts(u utils.PortUnion) ([]uint16, bool) {
	done := make(chan []uint16, 1)
	go func() {
		defer func() {
			if recover() != nil {
				done <- nil
			}
		}()
		done <- u.Ports()
	}()
	p, bad := runaway(done)
	if bad {
		c.dead = true
		return nil, false
	}
	return p, true
}

func (c *puComp) check(u utils.PortUnion, bm *bitmap) (string, []string) {
	var fails []string
	ports, ok := c.callPorts(u)
	if !ok {
		return "hang", []string{"Ports() does not return: it keeps allocating (loop counter wraps at 65535?)"}
	}
	// normal form
	for i, r := range u {
		if r.Start > r.End {
			fails = append(fails, fmt.Sprintf("range %d-%d has Start > End", r.Start, r.End))
		}
		if i > 0 && uint32(u[i-1].End)+1 >= uint32(r.Start) {
			fails = append(fails, fmt.Sprintf("ranges %d-%d and %d-%d are not sorted/disjoint/non-adjacent", u[i-1].Start, u[i-1].End, r.Start, r.End))
		}
	}
	// Contains == bitmap on every port
	bad := 0
	for p := 0; p < 65536; p++ {
		if u.Contains(uint16(p)) != bm[p] {
			if bad == 0 {
				fails = append(fails, fmt.Sprintf("Contains(%d)=%v but the expression %s it", p, !bm[p], map[bool]string{true: "lists", false: "does not list"}[bm[p]]))
			}
			bad++
		}
	}
	// Ports() == marked ports in increasing order
	j := 0
	okPorts := true
	for p := 0; p < 65536 && okPorts; p++ {
		if bm[p] {
			if j >= len(ports) || int(ports[j]) != p {
				okPorts = false
			}
			j++
		}
	}
	if !okPorts || j != len(ports) {
		fails = append(fails, fmt.Sprintf("Ports() (len %d) is not the increasing enumeration of the %d listed ports", len(ports), j))
	}
	return describe(u, ports), fails
}

func (c *puComp) Run(op string) vh.Result {
	if c.dead {
		return vh.Result{Out: "skipped"}
	}
	f := strings.Fields(op)
	if len(f) != 2 {
		return vh.Result{Out: "bad-op"}
	}
	switch f[0] {
	case "parse":
		s := string(vh.UnHex(f[1]))
		u := utils.ParsePortUnion(s)
		bm, valid := puRefParse(s)
		if u == nil {
			var fails []string
			if valid {
				fails = append(fails, fmt.Sprintf("ParsePortUnion(%q) = nil but the expression is well formed", s))
			}
			return vh.Result{Out: "nil", Oracle: fails, NonTrivial: false}
		}
		if !valid {
			return vh.Result{Out: describe(u, nil), Oracle: []string{fmt.Sprintf("ParsePortUnion(%q) accepted a malformed expression", s)}}
		}
		out, fails := c.check(u, bm)
		return vh.Result{Out: out, Oracle: fails, NonTrivial: true}
	case "norm":
		var u utils.PortUnion
		var bm bitmap
		if f[1] != "." {
			for _, it := range strings.Split(f[1], ",") {
				var a, b int
				if _, err := fmt.Sscanf(it, "%d-%d", &a, &b); err != nil || a > b || b > 65535 || a < 0 {
					return vh.Result{Out: "bad-op"}
				}
				u = append(u, utils.PortRange{Start: uint16(a), End: uint16(b)})
				for i := a; i <= b; i++ {
					bm[i] = true
				}
			}
		}
		n := u.Normalize()
		out, fails := c.check(n, &bm)
		return vh.Result{Out: out, Oracle: fails, NonTrivial: len(u) > 1}
	}
	return vh.Result{Out: "bad-op"}
}

// ---- generator

func (c *puComp) Gen(r *vh.RNG, n int, emit func(op string, tags ...string)) {
	boundary := []int{0, 1, 2, 79, 80, 81, 443, 1023, 1024, 9999, 10000, 10001, 32767, 32768, 65533, 65534, 65535}
	port := func() int {
		switch r.Intn(4) {
		case 0:
			return boundary[r.Intn(len(boundary))]
		case 1:
			return r.Intn(65536)
		default:
			return 10000 + r.Intn(40) // a small window so that ranges touch and overlap often
		}
	}
	num := func(v int) string {
		s := fmt.Sprint(v)
		if r.Chance(1, 6) {
			s = strings.Repeat("0", r.Range(1, 25)) + s
		}
		return s
	}
	item := func() string {
		if r.Bool() {
			return num(port())
		}
		a := port()
		var b int
		switch r.Intn(4) {
		case 0:
			b = port()
		case 1:
			b = a
		default:
			b = a + r.Range(-6, 6)
			if b < 0 {
				b = 0
			}
			if b > 65535 {
				b = 65535
			}
		}
		return num(a) + "-" + num(b)
	}
	valid := func() string {
		k := 1
		switch r.Intn(5) {
		case 0:
		case 1, 2:
			k = r.Range(2, 4)
		default:
			k = r.Range(2, 12)
		}
		its := make([]string, k)
		for i := range its {
			its[i] = item()
		}
		// chains of adjacent ranges: [a,a+1],[a+2,a+3],...
		if r.Chance(1, 5) {
			a := port()
			for i := range its {
				w := r.Intn(3)
				b := a + w
				if b > 65535 {
					b = 65535
				}
				if a > 65535 {
					a = 65535
				}
				its[i] = fmt.Sprintf("%d-%d", a, b)
				a = b + 1 + r.Intn(2) // adjacent or a gap of one
			}
			// shuffle
			for i := len(its) - 1; i > 0; i-- {
				j := r.Intn(i + 1)
				its[i], its[j] = its[j], its[i]
			}
		}
		return strings.Join(its, ",")
	}
	badNums := []string{"65536", "65537", "99999", "100000", "4294967296", "18446744073709551616", "184467440737095516150", "-1", "+1", "1_0", "0x10", "1e3", " 1", "1 ", "", "٣", "1\x00", "\xff", "12a"}
	mutate := func(s string) string {
		b := []byte(s)
		switch r.Intn(10) {
		case 0: // stray separator
			i := r.Intn(len(s) + 1)
			return s[:i] + []string{",", "-", ",,", "--", ",-", "-,"}[r.Intn(6)] + s[i:]
		case 1: // space
			i := r.Intn(len(s) + 1)
			return s[:i] + []string{" ", "\t", "\n"}[r.Intn(3)] + s[i:]
		case 2: // a bad number as an item
			return s + "," + badNums[r.Intn(len(badNums))]
		case 3: // bad number inside a range
			bn := badNums[r.Intn(len(badNums))]
			if r.Bool() {
				return s + "," + bn + "-" + num(port())
			}
			return num(port()) + "-" + bn + "," + s
		case 4: // delete a byte
			if len(b) > 0 {
				i := r.Intn(len(b))
				b = append(b[:i:i], b[i+1:]...)
			}
		case 5: // replace a byte
			if len(b) > 0 {
				b[r.Intn(len(b))] = "0123456789,-*al x"[r.Intn(17)]
			}
		case 6: // three-part range
			return s + "," + num(port()) + "-" + num(port()) + "-" + num(port())
		case 7: // leading / trailing comma
			if r.Bool() {
				return "," + s
			}
			return s + ","
		case 8: // wildcard mixed in
			return []string{"all," + s, s + ",*", "all,all", "ALL", "All", " all", "*,", "**", "al", "alll"}[r.Intn(10)]
		default: // random bytes
			return string(r.Bytes(r.Range(1, 6)))
		}
		return string(b)
	}
	fixed := []string{"all", "*", "", ",", "-", "0", "65535", "65536", "0-65535", "65535-0", "1-65535,0", "65534,65535", "65535,65535",
		"0-0", "00000000000000000000000000000080", "80,443", "20000-50000", "1000-2000,1500-2500", "1000-2000,2001-3000", "1000-2000,2002-3000",
		"5,4,3,2,1", "1-2,2-3,3-4", "65535-65535,0-0", "10-5", "1,,2", "1-", "-1", "1-2-3", " 80", "80 ", "0x50", "+80", "1_000",
		"65530-65535,65535", "0-65534,65535", "0-32767,32768-65535", "65536-65537", "1-65536", "99999999999999999999999"}
	for _, s := range fixed {
		if c.dead {
			break
		}
		emit("parse "+vh.Hex([]byte(s)), "fixed")
	}
	for i := 0; i < n && !c.dead; i++ {
		switch k := r.Intn(20); {
		case k < 11:
			emit("parse "+vh.Hex([]byte(valid())), "valid")
		case k < 17:
			emit("parse "+vh.Hex([]byte(mutate(valid()))), "mutated")
		case k < 18:
			emit("parse "+vh.Hex([]byte(badNums[r.Intn(len(badNums))])), "badnum")
		default:
			// Normalize on a hand-built union (unsorted, overlapping, adjacent, duplicates)
			k := r.Intn(9)
			its := make([]string, k)
			for i := range its {
				a, b := port(), port()
				if r.Bool() {
					b = a + r.Intn(4)
					if b > 65535 {
						b = 65535
					}
				}
				if a > b {
					a, b = b, a
				}
				its[i] = fmt.Sprintf("%d-%d", a, b)
			}
			s := strings.Join(its, ",")
			if k == 0 {
				s = "."
			}
			emit("norm "+s, "norm")
		}
	}
}
