//go:build verif

// C15: structural facts about extras/trafficlogger/http.go, recomputed from the SOURCE of the
// working tree (go/ast) every time `verif-extras consts` runs, i.e. on every check.  They are
// what ties "each modelled operation is one atomic step" (Hy.Model.Stats) to the code: the
// snapshot and the reset of getTraffic(clear) sit in ONE Lock…Unlock region, LogTraffic's kick
// test and counter update are one region, and no map is touched without the mutex.
package main

import (
	"go/ast"
	"go/parser"
	"go/token"
	"os"
	"path/filepath"
	"sort"
	"strconv"
	"strings"

	vh "github.com/apernet/hysteria/core/v2/verifhlib"
)

func init() { vh.RegisterConsts(statsFacts) }

const (
	c15Impl  = "trafficStatsServerImpl"
	c15Mutex = "Mutex"
)

var c15Maps = map[string]bool{"StatsMap": true, "KickMap": true, "OnlineMap": true}

type c15Access struct {
	fn     string
	field  string
	write  bool
	held   byte // 0 none, 'R', 'W'
	region int
}

type c15Walker struct {
	mutex    string          // name of the mutex field of the receiver
	fields   map[string]bool // receiver fields whose accesses are recorded
	calls    map[string]bool // method names whose call sites are recorded (as field "call:<name>[:<last arg>]")
	recv     string
	fn       string
	held     byte
	region   int
	counter  int // regions are numbered in source order, never reused across branches
	deferred bool
	lockOps  int
	bad      bool // lock state differs between branches / loop body changes it / lock op in an unexpected place
	acc      []c15Access
}

func c15RepoRoot() string {
	if r := os.Getenv("VERIF_REPO"); r != "" {
		return r
	}
	return "/repo"
}

// lockCall recognises `<recv>.Mutex.<Lock|Unlock|RLock|RUnlock>()`.
func (w *c15Walker) lockCall(e ast.Expr) string {
	c, ok := e.(*ast.CallExpr)
	if !ok || len(c.Args) != 0 {
		return ""
	}
	s, ok := c.Fun.(*ast.SelectorExpr)
	if !ok {
		return ""
	}
	m, ok := s.X.(*ast.SelectorExpr)
	if !ok || m.Sel.Name != w.mutex {
		return ""
	}
	if id, ok := m.X.(*ast.Ident); !ok || id.Name != w.recv {
		return ""
	}
	switch s.Sel.Name {
	case "Lock", "Unlock", "RLock", "RUnlock":
		return s.Sel.Name
	}
	return ""
}

func (w *c15Walker) mapSel(e ast.Expr) string {
	s, ok := e.(*ast.SelectorExpr)
	if !ok || !w.fields[s.Sel.Name] {
		return ""
	}
	if id, ok := s.X.(*ast.Ident); !ok || id.Name != w.recv {
		return ""
	}
	return s.Sel.Name
}

// baseMap: the map field an lvalue / operand denotes (s.M, s.M[k], s.M[k].f …).
func (w *c15Walker) baseMap(e ast.Expr) string {
	for {
		if f := w.mapSel(e); f != "" {
			return f
		}
		switch x := e.(type) {
		case *ast.IndexExpr:
			e = x.X
		case *ast.SelectorExpr:
			e = x.X
		case *ast.ParenExpr:
			e = x.X
		case *ast.StarExpr:
			e = x.X
		default:
			return ""
		}
	}
}

func (w *c15Walker) record(field string, write bool) {
	w.acc = append(w.acc, c15Access{w.fn, field, write, w.held, w.region})
}

// scan records every map access in an expression/simple statement under the current lock state.
func (w *c15Walker) scan(n ast.Node, inClosure bool) {
	if n == nil {
		return
	}
	writes := map[ast.Expr]bool{}
	ast.Inspect(n, func(x ast.Node) bool {
		switch s := x.(type) {
		case *ast.AssignStmt:
			for _, l := range s.Lhs {
				if f := w.baseMap(l); f != "" {
					writes[l] = true
				}
			}
		case *ast.IncDecStmt:
			if f := w.baseMap(s.X); f != "" {
				writes[s.X] = true
			}
		case *ast.CallExpr:
			if id, ok := s.Fun.(*ast.Ident); ok && (id.Name == "delete" || id.Name == "clear") && len(s.Args) > 0 {
				if f := w.baseMap(s.Args[0]); f != "" {
					writes[s.Args[0]] = true
				}
			}
			// sync/atomic value methods on a tracked field: x.Store(v) / Swap / CompareAndSwap / Add / And / Or
			// write it (x.Load() is a read, recorded below like any other mention of the field)
			if fs, ok := s.Fun.(*ast.SelectorExpr); ok {
				switch fs.Sel.Name {
				case "Store", "Swap", "CompareAndSwap", "Add", "And", "Or":
					if f := w.baseMap(fs.X); f != "" {
						writes[fs.X] = true
					}
				}
			}
			if w.lockCall(s) != "" {
				// a lock operation buried inside an expression: not a shape we understand
				w.bad = true
			}
		}
		return true
	})
	// second pass: every selector of a map field is an access; it is a write if it is the base of a written lvalue
	written := map[*ast.SelectorExpr]bool{}
	for l := range writes {
		e := l
		for {
			if s, ok := e.(*ast.SelectorExpr); ok && w.mapSel(s) != "" {
				written[s] = true
				break
			}
			switch x := e.(type) {
			case *ast.IndexExpr:
				e = x.X
				continue
			case *ast.SelectorExpr:
				e = x.X
				continue
			case *ast.ParenExpr:
				e = x.X
				continue
			case *ast.StarExpr:
				e = x.X
				continue
			}
			break
		}
	}
	var visit func(x ast.Node, closure bool)
	visit = func(x ast.Node, closure bool) {
		ast.Inspect(x, func(y ast.Node) bool {
			if fl, ok := y.(*ast.FuncLit); ok && y != x {
				visit(fl.Body, true)
				return false
			}
			if c, ok := y.(*ast.CallExpr); ok {
				if cs, ok := c.Fun.(*ast.SelectorExpr); ok && w.calls[cs.Sel.Name] {
					name := "call:" + cs.Sel.Name
					if n := len(c.Args); n > 0 {
						if id, ok := c.Args[n-1].(*ast.Ident); ok && (id.Name == "true" || id.Name == "false") {
							name += ":" + id.Name
						}
					}
					if closure {
						w.acc = append(w.acc, c15Access{w.fn, name, false, 0, -1})
					} else {
						w.record(name, false)
					}
				}
			}
			if s, ok := y.(*ast.SelectorExpr); ok {
				if f := w.mapSel(s); f != "" {
					if closure {
						// runs at an unknown time: treat as unlocked
						w.acc = append(w.acc, c15Access{w.fn, f, written[s], 0, -1})
					} else {
						w.record(f, written[s])
					}
				}
			}
			return true
		})
	}
	visit(n, inClosure)
}

type c15State struct {
	held     byte
	region   int
	deferred bool
}

func (w *c15Walker) get() c15State  { return c15State{w.held, w.region, w.deferred} }
func (w *c15Walker) set(s c15State) { w.held, w.region, w.deferred = s.held, s.region, s.deferred }

func terminates(b *ast.BlockStmt) bool {
	if b == nil || len(b.List) == 0 {
		return false
	}
	switch s := b.List[len(b.List)-1].(type) {
	case *ast.ReturnStmt:
		return true
	case *ast.ExprStmt:
		if c, ok := s.X.(*ast.CallExpr); ok {
			if id, ok := c.Fun.(*ast.Ident); ok && id.Name == "panic" {
				return true
			}
		}
	}
	return false
}

func (w *c15Walker) block(b *ast.BlockStmt) {
	if b == nil {
		return
	}
	for _, st := range b.List {
		w.stmt(st)
	}
}

func (w *c15Walker) stmt(st ast.Stmt) {
	switch s := st.(type) {
	case *ast.ExprStmt:
		switch w.lockCall(s.X) {
		case "Lock":
			if w.held != 0 {
				w.bad = true
			}
			w.counter++
			w.held, w.region, w.lockOps = 'W', w.counter, w.lockOps+1
			return
		case "RLock":
			if w.held != 0 {
				w.bad = true
			}
			w.counter++
			w.held, w.region, w.lockOps = 'R', w.counter, w.lockOps+1
			return
		case "Unlock":
			if w.held != 'W' || w.deferred {
				w.bad = true
			}
			w.held, w.lockOps = 0, w.lockOps+1
			return
		case "RUnlock":
			if w.held != 'R' || w.deferred {
				w.bad = true
			}
			w.held, w.lockOps = 0, w.lockOps+1
			return
		}
		w.scan(s, false)
	case *ast.DeferStmt:
		switch w.lockCall(s.Call) {
		case "Unlock":
			if w.held != 'W' {
				w.bad = true
			}
			w.deferred, w.lockOps = true, w.lockOps+1
			return
		case "RUnlock":
			if w.held != 'R' {
				w.bad = true
			}
			w.deferred, w.lockOps = true, w.lockOps+1
			return
		case "Lock", "RLock":
			w.bad = true
			return
		}
		w.scan(s.Call, true) // runs at function exit
	case *ast.GoStmt:
		w.scan(s.Call, true)
	case *ast.BlockStmt:
		w.block(s)
	case *ast.IfStmt:
		if s.Init != nil {
			w.stmt(s.Init)
		}
		w.scan(s.Cond, false)
		before := w.get()
		w.block(s.Body)
		afterThen, thenTerm := w.get(), terminates(s.Body)
		w.set(before)
		elseTerm := false
		if s.Else != nil {
			w.stmt(s.Else)
			if eb, ok := s.Else.(*ast.BlockStmt); ok {
				elseTerm = terminates(eb)
			}
		}
		afterElse := w.get()
		switch {
		case thenTerm && elseTerm:
		case thenTerm:
			w.set(afterElse)
		case elseTerm:
			w.set(afterThen)
		default:
			// both continue: they must agree on whether the lock is held (region numbers may differ)
			if afterThen.held != afterElse.held || afterThen.deferred != afterElse.deferred {
				w.bad = true
			}
			if afterThen.region > afterElse.region {
				w.set(afterThen)
			}
		}
	case *ast.ForStmt:
		if s.Init != nil {
			w.stmt(s.Init)
		}
		if s.Cond != nil {
			w.scan(s.Cond, false)
		}
		before := w.get()
		w.block(s.Body)
		if s.Post != nil {
			w.stmt(s.Post)
		}
		if a := w.get(); a.held != before.held || a.deferred != before.deferred || a.region != before.region {
			w.bad = true
		}
	case *ast.RangeStmt:
		w.scan(s.X, false)
		before := w.get()
		w.block(s.Body)
		if a := w.get(); a.held != before.held || a.deferred != before.deferred || a.region != before.region {
			w.bad = true
		}
	case *ast.SwitchStmt, *ast.TypeSwitchStmt, *ast.SelectStmt:
		// not used by the methods we look at; a lock operation inside would be flagged by scan
		w.scan(s, false)
	case *ast.LabeledStmt:
		w.stmt(s.Stmt)
	case *ast.ReturnStmt:
		if w.held != 0 && !w.deferred {
			w.bad = true // returns with the lock held
		}
		w.scan(s, false)
	default:
		w.scan(st, false)
	}
}

// wholeBodyRegion: the body starts with `<lock>(); defer <unlock>()` and has no other lock operation.
func wholeBodyRegion(w *c15Walker, fd *ast.FuncDecl, lock, unlock string) bool {
	if fd.Body == nil || len(fd.Body.List) < 2 {
		return false
	}
	e, ok := fd.Body.List[0].(*ast.ExprStmt)
	if !ok || w.lockCall(e.X) != lock {
		return false
	}
	d, ok := fd.Body.List[1].(*ast.DeferStmt)
	if !ok || w.lockCall(d.Call) != unlock {
		return false
	}
	return w.lockOps == 2 && !w.bad
}

func b2i(b bool) int {
	if b {
		return 1
	}
	return 0
}

func statsFacts() map[string]any {
	out := map[string]any{
		"c15_logtraffic_one_region":       0,
		"c15_gettraffic_clear_one_region": 0,
		"c15_gettraffic_read_locked":      0,
		"c15_kick_one_region":             0,
		"c15_logonline_one_region":        0,
		"c15_getonline_one_region":        0,
		"c15_map_access_unlocked":         999,
		"c15_map_write_not_wlocked":       999,
		"c15_routes":                      "?",
		"c15_clear_param":                 "?",
		"c15_auth_header":                 "?",
		"c15_auth_one_region":             0,
		"c15_logonline_sites":             "?",
		"c15_refusal_sites":               "?",
		"c15_copytwoway_loggers":          "?",
	}
	serverFacts(out)
	path := filepath.Join(c15RepoRoot(), "extras", "trafficlogger", "http.go")
	fset := token.NewFileSet()
	f, err := parser.ParseFile(fset, path, nil, 0)
	if err != nil {
		return out
	}
	walkers := map[string]*c15Walker{}
	decls := map[string]*ast.FuncDecl{}
	for _, d := range f.Decls {
		fd, ok := d.(*ast.FuncDecl)
		if !ok || fd.Recv == nil || len(fd.Recv.List) != 1 || fd.Body == nil {
			continue
		}
		st, ok := fd.Recv.List[0].Type.(*ast.StarExpr)
		if !ok {
			continue
		}
		if id, ok := st.X.(*ast.Ident); !ok || id.Name != c15Impl {
			continue
		}
		recv := "_"
		if len(fd.Recv.List[0].Names) == 1 {
			recv = fd.Recv.List[0].Names[0].Name
		}
		w := &c15Walker{mutex: c15Mutex, fields: c15Maps, recv: recv, fn: fd.Name.Name}
		w.block(fd.Body)
		walkers[fd.Name.Name] = w
		decls[fd.Name.Name] = fd
	}
	unlocked, notW := 0, 0
	for _, w := range walkers {
		if w.bad {
			unlocked++
		}
		for _, a := range w.acc {
			if a.held == 0 {
				unlocked++
			}
			if a.write && a.held != 'W' {
				notW++
			}
		}
	}
	out["c15_map_access_unlocked"] = unlocked
	out["c15_map_write_not_wlocked"] = notW

	if w := walkers["LogTraffic"]; w != nil {
		touches := false
		for _, a := range w.acc {
			if a.field == "KickMap" || a.field == "StatsMap" {
				touches = true
			}
		}
		out["c15_logtraffic_one_region"] = b2i(touches && wholeBodyRegion(w, decls["LogTraffic"], "Lock", "Unlock"))
	}
	if w := walkers["LogOnlineState"]; w != nil {
		out["c15_logonline_one_region"] = b2i(len(w.acc) > 0 && wholeBodyRegion(w, decls["LogOnlineState"], "Lock", "Unlock"))
	}
	if w := walkers["getOnline"]; w != nil {
		out["c15_getonline_one_region"] = b2i(len(w.acc) > 0 && wholeBodyRegion(w, decls["getOnline"], "RLock", "RUnlock"))
	}
	if w := walkers["kick"]; w != nil && !w.bad {
		ok, region, n := true, -2, 0
		for _, a := range w.acc {
			if a.field != "KickMap" {
				continue
			}
			n++
			if a.held != 'W' || (region != -2 && a.region != region) {
				ok = false
			}
			region = a.region
		}
		out["c15_kick_one_region"] = b2i(ok && n > 0)
	}
	if w := walkers["getTraffic"]; w != nil && !w.bad {
		reads := map[int]bool{}  // regions with a read of StatsMap
		writes := map[int]bool{} // regions with a write of StatsMap
		allHeld := true
		for _, a := range w.acc {
			if a.field != "StatsMap" {
				continue
			}
			if a.held == 0 {
				allHeld = false
			}
			if a.write {
				if a.held != 'W' {
					allHeld = false
				}
				writes[a.region] = true
			} else {
				reads[a.region] = true
			}
		}
		clearOK := len(writes) > 0 && allHeld
		for r := range writes {
			if !reads[r] { // the reset is not in the region that took the snapshot
				clearOK = false
			}
		}
		readOnly := false
		for r := range reads {
			if !writes[r] {
				readOnly = true
			}
		}
		out["c15_gettraffic_clear_one_region"] = b2i(clearOK)
		out["c15_gettraffic_read_locked"] = b2i(readOnly && allHeld)
	}

	// routes of ServeHTTP, the `clear` parameter, the auth header
	if fd := decls["ServeHTTP"]; fd != nil {
		var routes []string
		ast.Inspect(fd.Body, func(x ast.Node) bool {
			b, ok := x.(*ast.BinaryExpr)
			if !ok || b.Op != token.LAND {
				return true
			}
			m, p := eqOperand(b.X, "Method"), eqOperand(b.Y, "Path")
			if m != "" && p != "" {
				routes = append(routes, m+" "+p)
				return false
			}
			return true
		})
		out["c15_routes"] = strings.Join(routes, ";")
		ast.Inspect(fd.Body, func(x ast.Node) bool {
			if c, ok := x.(*ast.CallExpr); ok {
				if s, ok := c.Fun.(*ast.SelectorExpr); ok && s.Sel.Name == "Get" && len(c.Args) == 1 {
					if hs, ok := s.X.(*ast.SelectorExpr); ok && hs.Sel.Name == "Header" {
						if l, ok := c.Args[0].(*ast.BasicLit); ok {
							out["c15_auth_header"], _ = strconv.Unquote(l.Value)
						}
					}
				}
			}
			return true
		})
	}
	if fd := decls["getTraffic"]; fd != nil {
		ast.Inspect(fd.Body, func(x ast.Node) bool {
			if c, ok := x.(*ast.CallExpr); ok {
				if s, ok := c.Fun.(*ast.SelectorExpr); ok && s.Sel.Name == "Get" && len(c.Args) == 1 {
					if q, ok := s.X.(*ast.CallExpr); ok {
						if qs, ok := q.Fun.(*ast.SelectorExpr); ok && qs.Sel.Name == "Query" {
							if l, ok := c.Args[0].(*ast.BasicLit); ok {
								out["c15_clear_param"], _ = strconv.Unquote(l.Value)
							}
						}
					}
				}
			}
			return true
		})
	}
	return out
}

// eqOperand: for `r.<Field> == X` / `r.URL.<Field> == X` returns X rendered ("GET" for http.MethodGet, the literal for strings).
func eqOperand(e ast.Expr, field string) string {
	b, ok := e.(*ast.BinaryExpr)
	if !ok || b.Op != token.EQL {
		return ""
	}
	s, ok := b.X.(*ast.SelectorExpr)
	if !ok || s.Sel.Name != field {
		return ""
	}
	switch v := b.Y.(type) {
	case *ast.BasicLit:
		u, err := strconv.Unquote(v.Value)
		if err != nil {
			return ""
		}
		return u
	case *ast.SelectorExpr:
		if strings.HasPrefix(v.Sel.Name, "Method") {
			return strings.ToUpper(strings.TrimPrefix(v.Sel.Name, "Method"))
		}
	}
	return ""
}

// ---------------------------------------------------------------- core/server/server.go
//
// The model's step `authReq` (Hy.Stats.Server.connStep) is atomic: "is this connection already
// authenticated?", the authenticator's verdict, setting authenticated/authID and sending
// LogOnlineState(id, true) happen with nobody else in between.  In the code that is the
// authMutex region of h3sHandler.ServeHTTP; the fact below says all four sit in ONE
// Lock()…Unlock() region (so two auth requests in flight on one connection cannot both find
// authenticated == false).  The flag may be a plain bool or an atomic.Bool (Load = read, Store = write).  c15_logonline_sites lists every LogOnlineState call site of the
// package: the model has exactly these two.
func serverFacts(out map[string]any) {
	dir := filepath.Join(c15RepoRoot(), "core", "server")
	fset := token.NewFileSet()
	entries, err := os.ReadDir(dir)
	if err != nil {
		return
	}
	var sites, refusal, relayLoggers []string
	parsed := false
	for _, e := range entries {
		n := e.Name()
		if e.IsDir() || !strings.HasSuffix(n, ".go") || strings.HasSuffix(n, "_test.go") || strings.HasPrefix(n, "zz_verif") {
			continue
		}
		f, err := parser.ParseFile(fset, filepath.Join(dir, n), nil, 0)
		if err != nil {
			return
		}
		parsed = true
		for _, d := range f.Decls {
			fd, ok := d.(*ast.FuncDecl)
			if !ok || fd.Body == nil {
				continue
			}
			refusal = append(refusal, refusalSites(fd)...)
			// which TrafficLogger every copyTwoWayEx call passes (4th argument)
			ast.Inspect(fd.Body, func(x ast.Node) bool {
				if c, ok := x.(*ast.CallExpr); ok {
					if id, ok := c.Fun.(*ast.Ident); ok && id.Name == "copyTwoWayEx" && len(c.Args) >= 4 {
						kind := "other"
						if u, ok := c.Args[3].(*ast.UnaryExpr); ok && u.Op == token.AND {
							if cl, ok := u.X.(*ast.CompositeLit); ok {
								if t, ok := cl.Type.(*ast.Ident); ok {
									kind = t.Name
								}
							}
						}
						relayLoggers = append(relayLoggers, fd.Name.Name+":"+kind)
					}
				}
				return true
			})
			// every LogOnlineState call site, wherever it is
			ast.Inspect(fd.Body, func(x ast.Node) bool {
				if c, ok := x.(*ast.CallExpr); ok {
					if s, ok := c.Fun.(*ast.SelectorExpr); ok && s.Sel.Name == "LogOnlineState" && len(c.Args) == 2 {
						arg := "?"
						if id, ok := c.Args[1].(*ast.Ident); ok {
							arg = id.Name
						}
						sites = append(sites, fd.Name.Name+":"+arg)
					}
				}
				return true
			})
			if fd.Name.Name != "ServeHTTP" || fd.Recv == nil || len(fd.Recv.List) != 1 {
				continue
			}
			st, ok := fd.Recv.List[0].Type.(*ast.StarExpr)
			if !ok {
				continue
			}
			if id, ok := st.X.(*ast.Ident); !ok || id.Name != "h3sHandler" || len(fd.Recv.List[0].Names) != 1 {
				continue
			}
			w := &c15Walker{mutex: "authMutex", fields: map[string]bool{"authenticated": true, "authID": true},
				calls: map[string]bool{"Authenticate": true, "LogOnlineState": true},
				recv:  fd.Recv.List[0].Names[0].Name, fn: "ServeHTTP"}
			w.block(fd.Body)
			region, ok1 := -2, true
			var nRead, nWrite, nAuth, nOnline int
			for _, a := range w.acc {
				switch {
				case a.field == "authenticated" && !a.write:
					nRead++
				case a.field == "authenticated" && a.write:
					nWrite++
				case a.field == "authID":
				case a.field == "call:Authenticate":
					nAuth++
				case a.field == "call:LogOnlineState:true":
					nOnline++
				default:
					ok1 = false // e.g. LogOnlineState(…, false) or a non-literal argument inside ServeHTTP
				}
				if a.held != 'W' || (region != -2 && a.region != region) {
					ok1 = false
				}
				region = a.region
			}
			out["c15_auth_one_region"] = b2i(ok1 && nRead >= 1 && nWrite == 1 && nAuth == 1 && nOnline == 1)
		}
	}
	if parsed {
		sort.Strings(sites)
		out["c15_logonline_sites"] = strings.Join(sites, ";")
		sort.Strings(refusal)
		out["c15_refusal_sites"] = strings.Join(refusal, ";")
		sort.Strings(relayLoggers)
		out["c15_copytwoway_loggers"] = strings.Join(relayLoggers, ";")
	}
}

// refusalSites classifies every `….LogTraffic(…)` call site of a function of core/server:
//
//	closes      `ok := x.LogTraffic(…)` immediately followed by `if !ok { … }` whose body calls
//	            CloseWithError (the refusal closes the QUIC connection where it is observed)
//	noclose     the same shape, but the `if !ok` body does not close the connection
//	unchecked   the result is assigned and not tested by the next statement
//	returns-l   `return l.LogTraffic(…)`: the verdict is handed to the caller (copyBufferLog turns
//	            false into errDisconnect); `l` must then be a logger that closes (see
//	            c15_copytwoway_loggers)
//	other       any other shape
//
// rendered as "<Recv.>Func:<class>".
func refusalSites(fd *ast.FuncDecl) []string {
	name := fd.Name.Name
	if fd.Recv != nil && len(fd.Recv.List) == 1 {
		t := fd.Recv.List[0].Type
		if st, ok := t.(*ast.StarExpr); ok {
			t = st.X
		}
		if id, ok := t.(*ast.Ident); ok {
			name = id.Name + "." + name
		}
	}
	isLog := func(e ast.Expr) (*ast.CallExpr, bool) {
		c, ok := e.(*ast.CallExpr)
		if !ok {
			return nil, false
		}
		s, ok := c.Fun.(*ast.SelectorExpr)
		return c, ok && s.Sel.Name == "LogTraffic"
	}
	classified := map[*ast.CallExpr]string{}
	var blocks func(n ast.Node)
	blocks = func(n ast.Node) {
		ast.Inspect(n, func(x ast.Node) bool {
			var list []ast.Stmt
			switch b := x.(type) {
			case *ast.BlockStmt:
				list = b.List
			case *ast.CaseClause:
				list = b.Body
			default:
				return true
			}
			for i, st := range list {
				switch s := st.(type) {
				case *ast.AssignStmt:
					if len(s.Rhs) != 1 || len(s.Lhs) != 1 {
						continue
					}
					c, ok := isLog(s.Rhs[0])
					if !ok {
						continue
					}
					v, ok := s.Lhs[0].(*ast.Ident)
					class := "unchecked"
					if ok && i+1 < len(list) {
						if ifs, ok := list[i+1].(*ast.IfStmt); ok && ifs.Init == nil {
							if u, ok := ifs.Cond.(*ast.UnaryExpr); ok && u.Op == token.NOT {
								if id, ok := u.X.(*ast.Ident); ok && id.Name == v.Name {
									class = "noclose"
									ast.Inspect(ifs.Body, func(y ast.Node) bool {
										if cc, ok := y.(*ast.CallExpr); ok {
											if cs, ok := cc.Fun.(*ast.SelectorExpr); ok && cs.Sel.Name == "CloseWithError" {
												class = "closes"
											}
										}
										return true
									})
								}
							}
						}
					}
					classified[c] = class
				case *ast.ReturnStmt:
					if len(s.Results) == 1 {
						if c, ok := isLog(s.Results[0]); ok {
							class := "other"
							if id, ok := c.Fun.(*ast.SelectorExpr).X.(*ast.Ident); ok {
								class = "returns-" + id.Name
							}
							classified[c] = class
						}
					}
				}
			}
			return true
		})
	}
	blocks(fd.Body)
	var out []string
	ast.Inspect(fd.Body, func(x ast.Node) bool {
		if c, ok := x.(*ast.CallExpr); ok {
			if _, ok := isLog(c); ok {
				class, seen := classified[c]
				if !seen {
					class = "other"
				}
				out = append(out, name+":"+class)
			}
		}
		return true
	})
	return out
}
