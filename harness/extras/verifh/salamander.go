//go:build verif

package main

import (
	"bytes"
	"errors"
	"fmt"
	"net"
	"runtime"
	"sort"
	"strconv"
	"strings"
	"sync"
	"syscall"
	"time"

	"golang.org/x/crypto/blake2b"

	vh "github.com/apernet/hysteria/core/v2/verifhlib"
	"github.com/apernet/hysteria/extras/v2/obfs"
)

// C13: Salamander obfuscation (extras/obfs/salamander.go) and its socket wrapper
// (extras/obfs/conn.go), driven only through the exported WrapPacketConnSalamander.
//
// ops
//   hash <hex>                                      x/crypto BLAKE2b-256 vs the Lean implementation
//   new <m|u|n> <key>                               constructor: PSK length gate, wrapper type chosen
//   xfer <va> <vb> <seed> <key> <cap> <items>       A = wrap(connA,key) writes, B = wrap(connB,key) reads
//        items (comma separated, in order):  p<hex> payload written through A, its wire datagram goes to B
//                                            f<hex> payload written through A while the inner WriteTo fails
//                                            j<hex> raw datagram put on B's inner socket
//                                            e<hex> raw datagram that B's inner ReadFrom returns with an error
//   conc <m|u> <seed> <key> <W> <R> <K> <maxlen> <J> one looped-back wrapped socket, W writers x K packets,
//                                                   R readers, J junk datagrams injected concurrently
//   duplex <m|u> <seed> <keylen> <N> <maxlen>       one wrapped socket: a receive loop (N valid datagrams from a peer,
//                                                   built with the PROTOCOL.md reference) and a send loop (N payloads)
//                                                   run SIMULTANEOUSLY; every packet spec-checked in both directions
// variants: m = in-memory net.PacketConn, u = in-memory conn that also has SyscallConn/SetReadBuffer/
// SetWriteBuffer (selects obfsPacketConnUDP), n = a real *net.UDPConn on 127.0.0.1.

func init() {
	vh.Register("salamander", func() vh.Component { return &salComp{} })
	vh.RegisterConsts(func() map[string]any { return obfs.VerifC13Consts() })
}

type salComp struct{}

// loopback reads wait this long; after two timeouts (something is broken and will be
// reported anyway) the wait is cut so that a run on a broken tree still ends quickly.
var udpTimeouts int

func udpWait() time.Duration {
	if udpTimeouts >= 2 {
		return 100 * time.Millisecond
	}
	return 2 * time.Second
}

// ---------------------------------------------------------------- in-memory sockets

var (
	errDrained  = errors.New("verif: no more datagrams")
	errInjected = errors.New("verif: injected read error")
	errWrite    = errors.New("verif: injected write error")
	errNoSys    = errors.New("verif: no syscall conn")
)

type dgram struct {
	data []byte
	port int
	err  bool
}

// memConn is a datagram socket in memory: ReadFrom hands out ONE queued datagram per
// call, truncated to the caller's buffer (UDP semantics); WriteTo records what it is given.
type memConn struct {
	mu        sync.Mutex
	cond      *sync.Cond
	q         []dgram
	sent      []dgram // every WriteTo, in order (copied)
	arrivals  []dgram // everything ever appended to q, in order
	failNext  bool
	loop      bool // WriteTo also enqueues the datagram for ReadFrom
	block     bool // ReadFrom waits on an empty queue until close
	closed    bool
	maxReadIn int // largest buffer ReadFrom was given
}

func newMem() *memConn {
	m := &memConn{}
	m.cond = sync.NewCond(&m.mu)
	return m
}

func (m *memConn) push(d dgram) {
	m.mu.Lock()
	m.q = append(m.q, d)
	m.arrivals = append(m.arrivals, d)
	m.cond.Signal()
	m.mu.Unlock()
}

func (m *memConn) finish() {
	m.mu.Lock()
	m.closed = true
	m.cond.Broadcast()
	m.mu.Unlock()
}

func (m *memConn) ReadFrom(b []byte) (int, net.Addr, error) {
	m.mu.Lock()
	defer m.mu.Unlock()
	if len(b) > m.maxReadIn {
		m.maxReadIn = len(b)
	}
	for len(m.q) == 0 {
		if !m.block || m.closed {
			return 0, nil, errDrained
		}
		m.cond.Wait()
	}
	d := m.q[0]
	m.q = m.q[1:]
	n := copy(b, d.data)
	var err error
	if d.err {
		err = errInjected
	}
	return n, &net.UDPAddr{IP: net.IPv4(127, 0, 0, 1), Port: d.port}, err
}

func (m *memConn) WriteTo(b []byte, addr net.Addr) (int, error) {
	m.mu.Lock()
	defer m.mu.Unlock()
	port := 0
	if ua, ok := addr.(*net.UDPAddr); ok && ua != nil {
		port = ua.Port
	}
	d := dgram{data: vh.Exact(b), port: port}
	m.sent = append(m.sent, d)
	if m.failNext {
		m.failNext = false
		return 0, errWrite
	}
	if m.loop {
		m.q = append(m.q, d)
		m.arrivals = append(m.arrivals, d)
		m.cond.Signal()
	}
	return len(b), nil
}

func (m *memConn) Close() error                       { m.finish(); return nil }
func (m *memConn) LocalAddr() net.Addr                { return &net.UDPAddr{IP: net.IPv4(127, 0, 0, 1), Port: 1} }
func (m *memConn) SetDeadline(t time.Time) error      { return nil }
func (m *memConn) SetReadDeadline(t time.Time) error  { return nil }
func (m *memConn) SetWriteDeadline(t time.Time) error { return nil }

// memUDP additionally satisfies obfs' udpLikePacketConn.
type memUDP struct {
	*memConn
	rb, wb, sc int
}

func (m *memUDP) SyscallConn() (syscall.RawConn, error) { m.sc++; return nil, errNoSys }
func (m *memUDP) SetReadBuffer(n int) error             { m.rb = n; return nil }
func (m *memUDP) SetWriteBuffer(n int) error            { m.wb = n; return nil }

func innerOf(variant string, m *memConn) net.PacketConn {
	if variant == "u" {
		return &memUDP{memConn: m}
	}
	return m
}

// ---------------------------------------------------------------- PROTOCOL.md, written out

// specObf is the "Salamander" section of PROTOCOL.md, literally: 8 bytes of salt, then
// payload[i] ^= BLAKE2b-256(key + salt)[i % 32].
func specObf(key, salt, p []byte) []byte {
	h := blake2b.Sum256(append(append([]byte{}, key...), salt...))
	out := append([]byte{}, salt...)
	for i, c := range p {
		out = append(out, c^h[i%32])
	}
	return out
}

var kats = map[string]string{
	"-":      "0e5751c026e543b2e8ab2eb06099daa1d1e5df47778f7787faab45cdf12fe3a8",
	"616263": "bddd813c634239723171ef3fee98579b94964e3bb1cb3e427262c8c068d52319",
}

func pat(n, m int) []byte {
	b := make([]byte, n)
	for i := range b {
		b[i] = byte(i % m)
	}
	return b
}

func init() {
	kats[vh.Hex(pat(128, 256))] = "c3582f71ebb2be66fa5dd750f80baae97554f3b015663c8be377cfcb2488c1d1"
	kats[vh.Hex(pat(129, 256))] = "f7f3c46ba2564ff4c4c162da1f5b605f9f1c4aa6a20652a9f9a337c1a2f5b9c9"
	kats[vh.Hex(pat(300, 251))] = "940563f11807c8ba3192299e05cf544b82463742c8a5e80c2a5d81751cd8b0ca"
}

// ---------------------------------------------------------------- generator

var keyLens = []int{4, 4, 5, 8, 16, 31, 32, 33, 63, 64}
var payLens = []int{1, 1, 2, 31, 32, 33, 63, 64, 65, 1199, 1200, 1252, 1452, 2039, 2040, 2040}
var overLens = []int{2041, 2042, 2048, 2100, 4000}
var junkLens = []int{0, 1, 2, 7, 8, 8, 8, 9}

func genKey(r *vh.RNG) []byte {
	switch k := r.Intn(20); {
	case k < 12:
		return r.Bytes(r.Pick(keyLens))
	case k < 17:
		return r.Bytes(r.Range(4, 64))
	case k < 19:
		return r.Bytes(r.Pick([]int{65, 119, 120, 121, 128, 200, 248, 249})) // key ‖ salt crosses a BLAKE2b block
	}
	return r.Bytes(r.Range(0, 3))
}

func genPayLen(r *vh.RNG) int {
	switch k := r.Intn(20); {
	case k < 8:
		return r.Pick(payLens)
	case k < 13:
		return r.Range(1, 100)
	case k < 17:
		return r.Range(1, 2040)
	case k < 18:
		return 0
	}
	return r.Pick(overLens)
}

func (salComp) Gen(r *vh.RNG, n int, emit func(op string, tags ...string)) {
	// known answers first
	katKeys := make([]string, 0, len(kats))
	for k := range kats {
		katKeys = append(katKeys, k)
	}
	sort.Strings(katKeys)
	for _, k := range katKeys {
		emit("hash "+k, "hash-kat")
	}
	for i := len(katKeys); i < n; i++ {
		// reader-vs-writer soak at fixed positions (6 per 6000 ops, alternating a 16-byte and a
		// 1 KiB key: the longer hash widens the key-derivation window)
		if i%1000 == 500 {
			kl := []int{16, 1024}[(i/1000)%2]
			emit(fmt.Sprintf("duplex %s %d %d %d %d", []string{"m", "u"}[r.Intn(2)], r.Intn(1<<30), kl, 3000, 48), "duplex")
			continue
		}
		k := r.Intn(1000)
		switch {
		case k < 80:
			l := r.Pick([]int{0, 1, 11, 12, 63, 64, 72, 111, 112, 127, 128, 129, 136, 255, 256, 257, 384, 385})
			if r.Chance(1, 2) {
				l = r.Range(0, 400)
			}
			emit("hash "+vh.Hex(r.Bytes(l)), "hash")
		case k < 130:
			v := []string{"m", "u", "n"}[r.Intn(3)]
			key := r.Bytes(r.Pick([]int{0, 1, 2, 3, 3, 4, 4, 5, 32, 64, 100}))
			emit("new "+v+" "+vh.Hex(key), "new")
		case k < 135:
			v := []string{"m", "u"}[r.Intn(2)]
			emit(fmt.Sprintf("conc %s %d %s %d %d %d %d %d", v, r.Intn(1<<30), vh.Hex(r.Bytes(r.Range(4, 64))),
				r.Range(1, 4), r.Range(1, 4), r.Range(1, 12), r.Pick([]int{16, 100, 1200, 2040}), r.Range(0, 10)), "conc")
		default:
			va, vb := "m", "m"
			switch v := r.Intn(100); {
			case v < 40:
			case v < 55:
				va, vb = "u", "u"
			case v < 70:
				va = "u"
			case v < 85:
				vb = "u"
			case v < 90:
				va = "n"
			case v < 95:
				vb = "n"
			default:
				va, vb = "n", "n"
			}
			key := genKey(r)
			nitems := r.Range(1, 8)
			var items []string
			big := 0
			tg := map[string]bool{"xfer": true, "v:" + va + vb: true}
			switch {
			case len(key) < 4:
				tg["key<4"] = true
			case len(key) > 64:
				tg["key>64"] = true
			default:
				tg["key4..64"] = true
			}
			firstPay := -1
			for j := 0; j < nitems; j++ {
				c := r.Intn(100)
				switch {
				case c < 55 || j == 0 && c < 80: // payload
					l := genPayLen(r)
					if l > 100 {
						big++
						if big > 2 {
							l = r.Range(1, 100)
						}
					}
					if firstPay < 0 {
						firstPay = l
					}
					switch {
					case l == 0:
						tg["pay0"] = true
					case l == 1:
						tg["pay1"] = true
					case l == 2040:
						tg["pay2040"] = true
					case l > 2040:
						tg["pay>2040(outside the property)"] = true
					default:
						tg["pay2..2039"] = true
					}
					kind := "p"
					if va != "n" && r.Chance(1, 25) {
						kind = "f"
					}
					items = append(items, kind+vh.Hex(r.Bytes(l)))
				case c < 90: // short junk
					l := r.Pick(junkLens)
					tg[fmt.Sprintf("junk%d", l)] = true
					kind := "j"
					if vb != "n" && r.Chance(1, 20) {
						kind = "e"
					}
					items = append(items, kind+vh.Hex(r.Bytes(l)))
				case c < 97: // junk long enough to pass
					items = append(items, "j"+vh.Hex(r.Bytes(r.Range(9, 60))))
				default: // datagram at / above the read buffer
					big++
					l := r.Pick([]int{2047, 2048, 2049, 2056, 2100})
					if big > 2 {
						l = 12
					}
					kind := "j"
					if vb != "n" && r.Chance(1, 10) {
						kind = "e"
					}
					items = append(items, kind+vh.Hex(r.Bytes(l)))
				}
			}
			cap := 2048
			switch c := r.Intn(20); {
			case c < 10:
			case c < 14:
				cap = 65536
			case c < 15:
				cap = 1452
			case c < 17 && firstPay > 0:
				cap = firstPay - r.Intn(2) // exactly fits / one short
			case c < 18:
				cap = r.Range(1, 64)
			case c < 19 && vb != "n":
				cap = 0
			}
			if cap < 1 && vb == "n" {
				cap = 1
			}
			if firstPay > 0 && cap < firstPay {
				tg["caller-buffer-too-small"] = true
			}
			var tl []string
			for t := range tg {
				tl = append(tl, t)
			}
			sort.Strings(tl)
			emit(fmt.Sprintf("xfer %s %s %d %s %d %s", va, vb, r.Intn(1<<30), vh.Hex(key), cap, strings.Join(items, ",")), tl...)
		}
	}
}

// ---------------------------------------------------------------- running ops

func b01(b bool) string {
	if b {
		return "1"
	}
	return "0"
}

func listOr(ss []string) string {
	if len(ss) == 0 {
		return "."
	}
	return strings.Join(ss, ",")
}

type delivery struct {
	n       int
	addr    int
	err     bool
	payload []byte
}

func (d delivery) String() string {
	return fmt.Sprintf("%d:%d:%s:%s", d.n, d.addr, b01(d.err), vh.Hex(d.payload))
}

func (salComp) Run(op string) vh.Result {
	f := strings.Fields(op)
	switch f[0] {
	case "hash":
		return runHash(f)
	case "new":
		return runNew(f)
	case "xfer":
		return runXfer(f)
	case "conc":
		return runConc(f)
	case "duplex":
		return runDuplex(f)
	}
	return vh.Result{Out: "bad-op"}
}

func runHash(f []string) vh.Result {
	d := vh.UnHex(f[1])
	h := blake2b.Sum256(d)
	var orc []string
	if want, ok := kats[f[1]]; ok && want != vh.Hex(h[:]) {
		orc = append(orc, "x/crypto BLAKE2b-256 differs from the hashlib known answer "+want)
	}
	return vh.Result{Out: "hash " + vh.Hex(h[:]), NonTrivial: true, Oracle: orc}
}

// wrap builds the inner socket of the variant and wraps it through the exported constructor.
// For "n" the inner socket is a real UDP socket on loopback.
func wrap(variant string, key []byte, seed int64) (w net.PacketConn, m *memConn, u *net.UDPConn, err error) {
	w, m, _, u, err = wrap2(variant, key, seed)
	return
}

func wrap2(variant string, key []byte, seed int64) (w net.PacketConn, m *memConn, mu *memUDP, u *net.UDPConn, err error) {
	var inner net.PacketConn
	if variant == "n" {
		u, err = net.ListenUDP("udp4", &net.UDPAddr{IP: net.IPv4(127, 0, 0, 1)})
		if err != nil {
			panic("verif: loopback UDP unavailable: " + err.Error())
		}
		inner = u
	} else {
		m = newMem()
		inner = innerOf(variant, m)
		mu, _ = inner.(*memUDP)
	}
	w, err = obfs.WrapPacketConnSalamander(inner, key)
	if err != nil {
		if u != nil {
			u.Close()
		}
		return nil, m, mu, nil, err
	}
	if !obfs.VerifC13SetRand(w, seed) {
		panic("verif: WrapPacketConnSalamander did not return an obfs wrapper around a salamander obfuscator")
	}
	return w, m, mu, u, nil
}

func runNew(f []string) vh.Result {
	variant, key := f[1], vh.UnHex(f[2])
	var orc []string
	w, _, inner, u, err := wrap2(variant, key, 1)
	if u != nil {
		defer u.Close()
	}
	if err != nil {
		if len(key) >= 4 {
			orc = append(orc, fmt.Sprintf("a %d-byte PSK was refused: %v", len(key), err))
		}
		if !errors.Is(err, obfs.ErrPSKTooShort) {
			orc = append(orc, "refusal is not ErrPSKTooShort")
		}
		return vh.Result{Out: "refused", ModelOp: "new " + f[2], NonTrivial: true, Oracle: orc}
	}
	if len(key) < 4 {
		orc = append(orc, fmt.Sprintf("a %d-byte PSK was accepted (minimum is 4)", len(key)))
	}
	kind := obfs.VerifC13Kind(w)
	type udpish interface {
		SetReadBuffer(int) error
		SetWriteBuffer(int) error
		SyscallConn() (syscall.RawConn, error)
	}
	ui, isUDP := w.(udpish)
	switch variant {
	case "m":
		if kind != "plain" || isUDP {
			orc = append(orc, "plain PacketConn was not wrapped as obfsPacketConn")
		}
	case "u":
		if kind != "udp" || !isUDP {
			orc = append(orc, "UDP-like PacketConn was not wrapped as obfsPacketConnUDP")
		} else {
			ui.SetReadBuffer(12345)
			ui.SetWriteBuffer(23456)
			_, e := ui.SyscallConn()
			if inner == nil || inner.rb != 12345 || inner.wb != 23456 || inner.sc != 1 || e != errNoSys {
				orc = append(orc, "SetReadBuffer/SetWriteBuffer/SyscallConn are not passed through to the inner socket")
			}
		}
	case "n":
		if kind != "udp" || !isUDP {
			orc = append(orc, "*net.UDPConn was not wrapped as obfsPacketConnUDP")
		} else {
			if rc, e := ui.SyscallConn(); e != nil || rc == nil {
				orc = append(orc, "SyscallConn of a wrapped *net.UDPConn failed")
			}
			if e := ui.SetReadBuffer(1 << 16); e != nil {
				orc = append(orc, "SetReadBuffer of a wrapped *net.UDPConn failed")
			}
			if w.LocalAddr().String() != u.LocalAddr().String() {
				orc = append(orc, "LocalAddr differs from the inner socket's")
			}
		}
	}
	return vh.Result{Out: "ok", ModelOp: "new " + f[2], NonTrivial: true, Oracle: orc}
}

type item struct {
	kind byte
	data []byte
}

func parseItems(s string) []item {
	var out []item
	if s == "." {
		return nil
	}
	for _, x := range strings.Split(s, ",") {
		out = append(out, item{kind: x[0], data: vh.UnHex(x[1:])})
	}
	return out
}

func runXfer(f []string) vh.Result {
	va, vb := f[1], f[2]
	seed, _ := strconv.ParseInt(f[3], 10, 64)
	key := vh.UnHex(f[4])
	cap, _ := strconv.Atoi(f[5])
	items := parseItems(f[6])
	var orc []string

	A, mA, uA, err := wrap(va, key, seed)
	if err != nil {
		if len(key) >= 4 {
			orc = append(orc, fmt.Sprintf("a %d-byte PSK was refused", len(key)))
		}
		return vh.Result{Out: "refused", ModelOp: fmt.Sprintf("xfer %s %d .", f[4], cap), Oracle: orc}
	}
	B, mB, uB, err := wrap(vb, key, seed+1)
	if err != nil {
		panic("verif: second wrap failed")
	}
	if len(key) < 4 {
		orc = append(orc, fmt.Sprintf("a %d-byte PSK was accepted (minimum is 4)", len(key)))
	}
	var closers []func() error
	defer func() {
		for _, c := range closers {
			c()
		}
	}()
	if uA != nil {
		closers = append(closers, uA.Close)
	}
	if uB != nil {
		closers = append(closers, uB.Close)
	}

	// ---- write side: every p/f item goes through A.WriteTo; the wire datagram is captured
	var sink *net.UDPConn
	if va == "n" {
		sink, err = net.ListenUDP("udp4", &net.UDPAddr{IP: net.IPv4(127, 0, 0, 1)})
		if err != nil {
			panic("verif: loopback UDP unavailable")
		}
		closers = append(closers, sink.Close)
	}
	type inc struct {
		data []byte
		id   int
		err  bool
	}
	var incoming []inc
	var W, X, mitems []string
	type exp struct { // deliveries the property itself requires (valid payloads only)
		id      int
		payload []byte
	}
	var want []exp
	shortIDs := map[int]int{} // id -> datagram length, for datagrams of ≤ 8 bytes
	quietShort := map[int]bool{}
	sinkBuf := make([]byte, 8192)
	for k, it := range items {
		id := k + 1
		switch it.kind {
		case 'p', 'f':
			p := vh.Exact(it.data)
			orig := append([]byte{}, p...)
			var wire []byte
			var n int
			var werr error
			if va == "n" {
				if it.kind == 'f' {
					return vh.Result{Out: "unsupported"}
				}
				n, werr = A.WriteTo(p, sink.LocalAddr())
				sink.SetReadDeadline(time.Now().Add(udpWait()))
				m, _, rerr := sink.ReadFrom(sinkBuf)
				if rerr != nil {
					udpTimeouts++
					return vh.Result{Out: "timeout", Oracle: []string{"nothing arrived on the loopback sink after WriteTo"}}
				}
				wire = append([]byte{}, sinkBuf[:m]...)
			} else {
				if it.kind == 'f' {
					mA.failNext = true
				}
				before := len(mA.sent)
				n, werr = A.WriteTo(p, &net.UDPAddr{IP: net.IPv4(127, 0, 0, 1), Port: id})
				if len(mA.sent) != before+1 {
					orc = append(orc, fmt.Sprintf("item %d: WriteTo made %d inner writes, expected exactly 1", id, len(mA.sent)-before))
					return vh.Result{Out: "inner-writes", Oracle: orc}
				}
				wire = mA.sent[before].data
				if mA.sent[before].port != id {
					orc = append(orc, fmt.Sprintf("item %d: destination address not passed through", id))
				}
			}
			if !bytes.Equal(p, orig) {
				orc = append(orc, fmt.Sprintf("item %d: WriteTo modified the caller's buffer", id))
			}
			W = append(W, fmt.Sprintf("%d:%s", n, b01(werr != nil)))
			X = append(X, vh.Hex(wire))
			salt := []byte{}
			if len(wire) >= 8 {
				salt = wire[:8]
			}
			mitems = append(mitems, fmt.Sprintf("%c%s:%s", it.kind, vh.Hex(salt), vh.Hex(p)))
			// counts (model-free)
			if it.kind == 'p' && (n != len(p) || werr != nil) {
				orc = append(orc, fmt.Sprintf("item %d: WriteTo of %d bytes returned (%d, %v), required (%d, nil)", id, len(p), n, werr, len(p)))
			}
			if it.kind == 'f' && (n != 0 || werr == nil) {
				orc = append(orc, fmt.Sprintf("item %d: WriteTo returned (%d, %v) although the inner write failed", id, n, werr))
			}
			// wire format against PROTOCOL.md (model-free), for the sizes the property covers
			if len(p) <= 2040 {
				if len(wire) != len(p)+8 {
					orc = append(orc, fmt.Sprintf("item %d: wire datagram is %d bytes for a %d-byte payload, required %d", id, len(wire), len(p), len(p)+8))
				} else if !bytes.Equal(wire, specObf(key, wire[:8], p)) {
					orc = append(orc, fmt.Sprintf("item %d: wire bytes are not salt ‖ payload XOR BLAKE2b-256(key ‖ salt)[i %% 32] (PROTOCOL.md)", id))
				}
			}
			if it.kind == 'p' {
				incoming = append(incoming, inc{wire, id, false})
				if len(p) >= 1 && len(p) <= 2040 && len(p) <= cap && len(key) >= 4 {
					want = append(want, exp{id, p})
				}
				if len(wire) <= 8 {
					shortIDs[id] = len(wire)
					if len(wire) >= 1 {
						quietShort[id] = true
					}
				}
			}
		case 'j', 'e':
			incoming = append(incoming, inc{vh.Exact(it.data), id, it.kind == 'e'})
			mitems = append(mitems, fmt.Sprintf("%c%s", it.kind, vh.Hex(it.data)))
			if len(it.data) <= 8 {
				shortIDs[id] = len(it.data)
				if len(it.data) >= 1 && it.kind == 'j' {
					quietShort[id] = true
				}
			}
		default:
			return vh.Result{Out: "bad-op"}
		}
	}

	// ---- read side
	var got []delivery
	buf := make([]byte, cap)
	canary := make([]byte, cap+16)
	if vb == "n" {
		if cap < 1 {
			return vh.Result{Out: "unsupported"}
		}
		portID := map[int]int{}
		send := func(data []byte, id int) {
			s, err := net.ListenUDP("udp4", &net.UDPAddr{IP: net.IPv4(127, 0, 0, 1)})
			if err != nil {
				panic("verif: loopback UDP unavailable")
			}
			closers = append(closers, s.Close)
			portID[s.LocalAddr().(*net.UDPAddr).Port] = id
			if _, err := s.WriteTo(data, uB.LocalAddr()); err != nil {
				panic("verif: loopback send failed: " + err.Error())
			}
		}
		for _, in := range incoming {
			if in.err {
				return vh.Result{Out: "unsupported"}
			}
			send(in.data, in.id)
		}
		send([]byte{0, 1, 2, 3, 4, 5, 6, 7, 0xee}, -1) // sentinel: 1-byte payload, always fits
		for {
			uB.SetReadDeadline(time.Now().Add(udpWait()))
			n, addr, err := B.ReadFrom(buf)
			if err != nil {
				udpTimeouts++
				orc = append(orc, "a 9-byte datagram (salt + 1 payload byte) sent last on loopback never came out of ReadFrom: "+err.Error())
				break
			}
			id, ok := portID[addr.(*net.UDPAddr).Port]
			if !ok {
				orc = append(orc, "ReadFrom returned an address nobody sent from")
			}
			if id == -1 {
				break
			}
			got = append(got, delivery{n, id, false, append([]byte{}, buf[:max(n, 0)]...)})
		}
	} else {
		for _, in := range incoming {
			mB.push(dgram{data: in.data, port: in.id, err: in.err})
		}
		for {
			copy(canary, buf)
			n, addr, err := B.ReadFrom(buf)
			if err == errDrained {
				if n != 0 {
					orc = append(orc, "n != 0 with the inner socket's own error")
				}
				break
			}
			if n < 0 || n > cap {
				orc = append(orc, fmt.Sprintf("ReadFrom returned n=%d for a %d-byte buffer", n, cap))
				break
			}
			id := 0
			if ua, ok := addr.(*net.UDPAddr); ok && ua != nil {
				id = ua.Port
			}
			if err != nil && err != errInjected {
				orc = append(orc, "ReadFrom invented an error: "+err.Error())
			}
			got = append(got, delivery{n, id, err != nil, append([]byte{}, buf[:n]...)})
			if len(got) > len(incoming)+2 {
				orc = append(orc, "more ReadFrom results than datagrams")
				break
			}
		}
	}

	// ---- property oracles on the read side (model-free)
	// (a) transparency: the deliveries that carry bytes from valid payload items are exactly those
	//     payloads, in order, with n = len(payload), the sender's address, no error
	wantIDs := map[int]bool{}
	for _, w := range want {
		wantIDs[w.id] = true
	}
	var gotValid []delivery
	for _, d := range got {
		if wantIDs[d.addr] {
			gotValid = append(gotValid, d)
		}
	}
	if len(gotValid) != len(want) {
		orc = append(orc, fmt.Sprintf("%d valid payloads were written but %d of them arrived", len(want), len(gotValid)))
	} else {
		for i, w := range want {
			d := gotValid[i]
			if d.addr != w.id || d.n != len(w.payload) || d.err || !bytes.Equal(d.payload, w.payload) {
				orc = append(orc, fmt.Sprintf("payload of item %d (%d bytes) arrived as n=%d addr=%d err=%v equal=%v",
					w.id, len(w.payload), d.n, d.addr, d.err, bytes.Equal(d.payload, w.payload)))
				break
			}
		}
	}
	// (b) junk: a datagram of ≤ 8 bytes never puts a byte into the caller's buffer, and one of
	//     1..8 bytes (no inner error) does not end a ReadFrom call at all
	for _, d := range got {
		if l, short := shortIDs[d.addr]; short {
			if d.n > 0 {
				orc = append(orc, fmt.Sprintf("a %d-byte datagram surfaced as %d payload bytes", l, d.n))
			}
			if quietShort[d.addr] {
				orc = append(orc, fmt.Sprintf("a %d-byte datagram ended a ReadFrom call (n=%d) instead of being skipped", l, d.n))
			}
		}
	}
	// (c) every delivery's byte count is what left the wire minus the salt
	byID := map[int]inc{}
	for _, in := range incoming {
		byID[in.id] = in
	}
	for _, d := range got {
		in, ok := byID[d.addr]
		if !ok {
			orc = append(orc, fmt.Sprintf("delivery from address %d that no datagram had", d.addr))
			continue
		}
		l := min(len(in.data), 2048)
		if d.n > 0 && d.n != l-8 {
			orc = append(orc, fmt.Sprintf("ReadFrom returned n=%d for a %d-byte datagram (salt included?)", d.n, len(in.data)))
		}
	}

	var R []string
	for _, d := range got {
		R = append(R, d.String())
	}
	out := fmt.Sprintf("xfer W=%s X=%s R=%s", listOr(W), listOr(X), listOr(R))
	res := vh.Result{Out: out, ModelOp: fmt.Sprintf("xfer %s %d %s", f[4], cap, listOr(mitems)),
		NonTrivial: len(want) > 0, Oracle: orc}
	return res
}

// ---------------------------------------------------------------- concurrency

func fnv64(h uint64, b []byte) uint64 {
	for _, c := range b {
		h ^= uint64(c)
		h *= 0x100000001b3
	}
	return h
}

func be32(n int) []byte { return []byte{byte(n >> 24), byte(n >> 16), byte(n >> 8), byte(n)} }

func digest(ds []delivery) uint64 {
	h := uint64(0xcbf29ce484222325)
	for _, d := range ds {
		h = fnv64(h, be32(d.addr))
		h = fnv64(h, be32(d.n))
		h = fnv64(h, d.payload)
	}
	return h
}

func runConc(f []string) vh.Result {
	variant := f[1]
	seed, _ := strconv.ParseInt(f[2], 10, 64)
	key := vh.UnHex(f[3])
	nW, _ := strconv.Atoi(f[4])
	nR, _ := strconv.Atoi(f[5])
	K, _ := strconv.Atoi(f[6])
	maxLen, _ := strconv.Atoi(f[7])
	J, _ := strconv.Atoi(f[8])
	var orc []string
	var omu sync.Mutex
	fail := func(s string) { omu.Lock(); orc = append(orc, s); omu.Unlock() }

	m := newMem()
	m.loop, m.block = true, true
	S, err := obfs.WrapPacketConnSalamander(innerOf(variant, m), key)
	if err != nil {
		return vh.Result{Out: "refused", ModelOp: "conc " + f[3] + " 2048 .", Oracle: []string{"PSK refused"}}
	}
	obfs.VerifC13SetRand(S, seed)

	// payloads are fixed by the seed, whatever the schedule
	r := vh.NewRNG(uint64(seed))
	payloads := map[int][]byte{}
	for w := 0; w < nW; w++ {
		for k := 0; k < K; k++ {
			l := r.Range(1, maxLen)
			if r.Chance(1, 6) {
				l = maxLen
			}
			payloads[(w+1)*1000+k] = r.Bytes(l)
		}
	}
	junk := make([][]byte, J)
	for j := range junk {
		junk[j] = r.Bytes(r.Range(1, 8))
	}

	var wg, rg sync.WaitGroup
	for w := 0; w < nW; w++ {
		wg.Add(1)
		go func(w int) {
			defer wg.Done()
			for k := 0; k < K; k++ {
				port := (w+1)*1000 + k
				p := payloads[port]
				n, err := S.WriteTo(p, &net.UDPAddr{IP: net.IPv4(127, 0, 0, 1), Port: port})
				if n != len(p) || err != nil {
					fail(fmt.Sprintf("concurrent WriteTo of %d bytes returned (%d, %v)", len(p), n, err))
				}
			}
		}(w)
	}
	wg.Add(1)
	go func() {
		defer wg.Done()
		for j, b := range junk {
			m.push(dgram{data: b, port: 900000 + j})
		}
	}()
	var gmu sync.Mutex
	var got []delivery
	for i := 0; i < nR; i++ {
		rg.Add(1)
		go func() {
			defer rg.Done()
			buf := make([]byte, 2048)
			for {
				n, addr, err := S.ReadFrom(buf)
				if err != nil {
					if err != errDrained {
						fail("concurrent ReadFrom invented an error: " + err.Error())
					}
					return
				}
				d := delivery{n, addr.(*net.UDPAddr).Port, false, append([]byte{}, buf[:n]...)}
				gmu.Lock()
				got = append(got, d)
				gmu.Unlock()
			}
		}()
	}
	wg.Wait()
	m.finish()
	rg.Wait()

	sort.SliceStable(got, func(i, j int) bool { return got[i].addr < got[j].addr })
	// model-free: every packet arrives exactly once, intact, with its own byte count; no junk arrives
	seen := map[int]int{}
	for _, d := range got {
		seen[d.addr]++
		p, ok := payloads[d.addr]
		if !ok {
			fail(fmt.Sprintf("a datagram nobody wrote through the wrapper was delivered (addr %d, n=%d)", d.addr, d.n))
			continue
		}
		if d.n != len(p) || !bytes.Equal(d.payload, p) {
			fail(fmt.Sprintf("packet %d (%d bytes) arrived corrupted under concurrency (n=%d)", d.addr, len(p), d.n))
		}
	}
	for port := range payloads {
		if seen[port] != 1 {
			fail(fmt.Sprintf("packet %d was delivered %d times", port, seen[port]))
		}
	}
	sort.Strings(orc)
	if len(orc) > 4 {
		orc = orc[:4]
	}
	// the model gets every datagram that reached the inner socket, in arrival order
	var mi []string
	for _, a := range m.arrivals {
		mi = append(mi, fmt.Sprintf("%s@%d", vh.Hex(a.data), a.port))
	}
	return vh.Result{Out: fmt.Sprintf("conc n=%d dl=%016x", len(got), digest(got)),
		ModelOp: fmt.Sprintf("conc %s 2048 %s", f[3], listOr(mi)), NonTrivial: nW*K > 0, Oracle: orc}
}

// ---------------------------------------------------------------- reader against writer

// runDuplex drives what quic-go does to the socket: ONE goroutine in ReadFrom and ONE in
// WriteTo on the same wrapped socket at the same time. Obfuscate runs under the wrapper's
// writeMutex and Deobfuscate under its readMutex - different mutexes - while both derive
// their key through the obfuscator's single keyInput scratch buffer, so only the
// obfuscator's own lock keeps a write from clobbering the salt slot under a concurrent read
// (and vice versa). Inbound datagrams are built by the harness with the PROTOCOL.md
// reference (specObf) and must come out intact exactly once; every outbound wire datagram
// must be specObf of its payload under the salt it carries.
func runDuplex(f []string) vh.Result {
	variant := f[1]
	seed, _ := strconv.ParseInt(f[2], 10, 64)
	keyLen, _ := strconv.Atoi(f[3])
	N, _ := strconv.Atoi(f[4])
	maxLen, _ := strconv.Atoi(f[5])
	if N > 20000 || keyLen < 4 || maxLen < 1 || maxLen > 2040 {
		return vh.Result{Out: "bad-op"}
	}
	r := vh.NewRNG(uint64(seed))
	key := r.Bytes(keyLen)
	if prev := runtime.GOMAXPROCS(0); prev < 4 {
		runtime.GOMAXPROCS(4)
		defer runtime.GOMAXPROCS(prev)
	}
	m := newMem()
	S, err := obfs.WrapPacketConnSalamander(innerOf(variant, m), key)
	if err != nil {
		return vh.Result{Out: "refused", Oracle: []string{"PSK refused"}}
	}
	obfs.VerifC13SetRand(S, seed)
	inPay := make([][]byte, N)
	outPay := make([][]byte, N)
	var min []string
	for k := 0; k < N; k++ {
		inPay[k] = r.Bytes(r.Range(1, maxLen))
		outPay[k] = r.Bytes(r.Range(1, maxLen))
		w := specObf(key, r.Bytes(8), inPay[k])
		m.q = append(m.q, dgram{data: w, port: k + 1})
		min = append(min, fmt.Sprintf("%s@%d", vh.Hex(w), k+1))
	}
	var orc []string
	var got []delivery
	var wcounts []int
	var werrs int
	start := make(chan struct{})
	var wg sync.WaitGroup
	wg.Add(2)
	go func() { // receive loop
		defer wg.Done()
		buf := make([]byte, 2048)
		<-start
		for {
			n, addr, err := S.ReadFrom(buf)
			if err != nil {
				return
			}
			got = append(got, delivery{n, addr.(*net.UDPAddr).Port, false, append([]byte{}, buf[:n]...)})
		}
	}()
	go func() { // send loop
		defer wg.Done()
		<-start
		for k := 0; k < N; k++ {
			n, err := S.WriteTo(outPay[k], &net.UDPAddr{IP: net.IPv4(127, 0, 0, 1), Port: k + 1})
			wcounts = append(wcounts, n)
			if err != nil {
				werrs++
			}
		}
	}()
	close(start)
	wg.Wait()

	// inbound: exactly once, in order, intact
	if len(got) != N {
		orc = append(orc, fmt.Sprintf("%d datagrams from the peer, %d ReadFrom results", N, len(got)))
	}
	badIn := 0
	for i, d := range got {
		if i >= N {
			break
		}
		if d.addr != i+1 || d.n != len(inPay[i]) || !bytes.Equal(d.payload, inPay[i]) {
			if badIn == 0 {
				orc = append(orc, fmt.Sprintf("a packet from the peer (%d bytes, #%d) was delivered altered while a write was in progress (n=%d)", len(inPay[i]), i+1, d.n))
			}
			badIn++
		}
	}
	// outbound: counts and wire format
	if len(m.sent) != N || werrs != 0 {
		orc = append(orc, fmt.Sprintf("%d WriteTo calls made %d inner writes, %d errors", N, len(m.sent), werrs))
	}
	badOut := 0
	var mout []string
	h := uint64(0xcbf29ce484222325)
	for k, d := range m.sent {
		if k >= N {
			break
		}
		h = fnv64(h, be32(len(d.data)))
		h = fnv64(h, d.data)
		salt := []byte{}
		if len(d.data) >= 8 {
			salt = d.data[:8]
		}
		mout = append(mout, vh.Hex(salt)+":"+vh.Hex(outPay[k]))
		if wcounts[k] != len(outPay[k]) {
			orc = append(orc, fmt.Sprintf("WriteTo of %d bytes returned %d", len(outPay[k]), wcounts[k]))
		}
		if len(d.data) != len(outPay[k])+8 || !bytes.Equal(d.data, specObf(key, salt, outPay[k])) {
			if badOut == 0 {
				orc = append(orc, fmt.Sprintf("outbound datagram #%d written while a read was in progress is not salt ‖ payload XOR BLAKE2b-256(key ‖ salt)[i %% 32]", k+1))
			}
			badOut++
		}
	}
	if badIn+badOut > 0 {
		orc = append(orc, fmt.Sprintf("%d of %d inbound and %d of %d outbound packets wrong", badIn, N, badOut, N))
	}
	if len(orc) > 5 {
		orc = orc[:5]
	}
	return vh.Result{Out: fmt.Sprintf("duplex in=%d:%016x out=%d:%016x", len(got), digest(got), len(m.sent), h),
		ModelOp: fmt.Sprintf("duplex %s 2048 %s %s", vh.Hex(key), listOr(min), listOr(mout)), NonTrivial: true, Oracle: orc}
}
