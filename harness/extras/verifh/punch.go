//go:build verif

package main

import (
	"bytes"
	"context"
	crand "crypto/rand"
	"crypto/sha256"
	"encoding/hex"
	"errors"
	"fmt"
	"net"
	"net/netip"
	"runtime"
	"strconv"
	"strings"
	"sync"
	"sync/atomic"
	"time"

	"github.com/pion/stun/v3"

	vh "github.com/apernet/hysteria/core/v2/verifhlib"
	"github.com/apernet/hysteria/extras/v2/realm"
)

// C20: realm punch codec (EncodePunchPacket / DecodePunchPacket) and PunchPacketConn.

func init() {
	vh.Register("punchcodec", func() vh.Component { return &punchCodec{} })
	vh.Register("punchconn", func() vh.Component { return &punchConn{} })
	vh.RegisterConsts(realm.VerifC20Consts)
}

// ---------------------------------------------------------------- reference (written from the wire
// format stated in punch.go's comment: 8-byte salt, then XOR with sha256(key‖salt) repeated over
// 8-byte magic, 1-byte type, 16-byte nonce, 0..1024 padding bytes). Uses Go's crypto/sha256; the
// Lean model has its own SHA-256.

var refMagic = []byte{'H', 'Y', 'R', 'L', 'M', 'v', '1', 0}

const (
	refSalt   = 8
	refHeader = 25
	refMaxPad = 1024
)

func refXor(b, key, salt []byte) {
	m := sha256.Sum256(append(append([]byte{}, key...), salt...))
	for i := range b {
		b[i] ^= m[i%32]
	}
}

func refEncode(t byte, nonce, key, pad, salt []byte) []byte {
	plain := append(append(append(append([]byte{}, refMagic...), t), nonce...), pad...)
	refXor(plain, key, salt)
	return append(append([]byte{}, salt...), plain...)
}

func refMeta(nonceS, obfsS string) (nonce, key []byte, ok bool) {
	nonce, e1 := hex.DecodeString(nonceS)
	key, e2 := hex.DecodeString(obfsS)
	if e1 != nil || e2 != nil || len(nonce) != 16 || len(key) != 32 {
		return nil, nil, false
	}
	return nonce, key, true
}

// refWellFormed: is pkt a punch packet of exactly this metadata?
func refWellFormed(pkt []byte, nonceS, obfsS string) (ok bool, t byte, padLen int, why string) {
	nonce, key, mok := refMeta(nonceS, obfsS)
	if !mok {
		return false, 0, 0, "metadata invalid"
	}
	if len(pkt) < refSalt+refHeader {
		return false, 0, 0, "shorter than salt+header"
	}
	if len(pkt) > refSalt+refHeader+refMaxPad {
		return false, 0, 0, "longer than salt+header+max padding"
	}
	plain := append([]byte{}, pkt[refSalt:]...)
	refXor(plain, key, pkt[:refSalt])
	if !bytes.Equal(plain[:8], refMagic) {
		return false, 0, 0, "magic differs"
	}
	if plain[8] != 1 && plain[8] != 2 {
		return false, 0, 0, fmt.Sprintf("type %d is not hello/ack", plain[8])
	}
	if !bytes.Equal(plain[9:25], nonce) {
		return false, 0, 0, "nonce differs"
	}
	return true, plain[8], len(plain) - refHeader, ""
}

// ---------------------------------------------------------------- deterministic crypto/rand

type detReader struct {
	r     *vh.RNG
	calls [][]byte
}

func (d *detReader) Read(p []byte) (int, error) {
	b := d.r.Bytes(len(p))
	copy(p, b)
	d.calls = append(d.calls, b)
	return len(p), nil
}

var randMu sync.Mutex

// withDetRand runs f with crypto/rand.Reader replaced by a seeded generator and returns the
// byte strings it handed out, one per Read call.
func withDetRand(seed uint64, f func()) [][]byte {
	randMu.Lock()
	defer randMu.Unlock()
	old := crand.Reader
	d := &detReader{r: vh.NewRNG(seed)}
	crand.Reader = d
	defer func() { crand.Reader = old }()
	f()
	return d.calls
}

func sx(s string) string { return vh.Hex([]byte(s)) } // a string on the op line: hex of its bytes

func unsx(s string) string { return string(vh.UnHex(s)) }

// ---------------------------------------------------------------- metadata pool

type metaT struct{ nonce, obfs string }

func randMeta(r *vh.RNG) metaT {
	return metaT{hex.EncodeToString(r.Bytes(16)), hex.EncodeToString(r.Bytes(32))}
}

func upperSome(r *vh.RNG, s string) string {
	b := []byte(s)
	for i := range b {
		if b[i] >= 'a' && b[i] <= 'f' && r.Bool() {
			b[i] -= 32
		}
	}
	return string(b)
}

// badMeta: metadata that decodePunchMetadata must refuse
func badMeta(r *vh.RNG) metaT {
	m := randMeta(r)
	switch r.Intn(8) {
	case 0:
		m.nonce = m.nonce[:30]
	case 1:
		m.nonce = m.nonce + "00"
	case 2:
		m.obfs = m.obfs[:62]
	case 3:
		m.obfs = m.obfs + "ab"
	case 4:
		m.nonce = m.nonce[:31]
	case 5:
		m.nonce = "g" + m.nonce[1:]
	case 6:
		m.obfs = m.obfs[:10] + "_" + m.obfs[11:]
	default:
		m.nonce, m.obfs = "", ""
	}
	return m
}

// a meta that differs from m in the nonce only (one byte, at position pos), or in the key only
func nonceNeighbour(r *vh.RNG, m metaT, pos int) metaT {
	n, _ := hex.DecodeString(m.nonce)
	n[pos] ^= byte(1 << r.Intn(8))
	return metaT{hex.EncodeToString(n), m.obfs}
}

func keyNeighbour(r *vh.RNG, m metaT) metaT {
	k, _ := hex.DecodeString(m.obfs)
	k[r.Intn(32)] ^= byte(1 << r.Intn(8))
	return metaT{m.nonce, hex.EncodeToString(k)}
}

var padLens = []int{0, 0, 1, 7, 31, 32, 33, 63, 64, 511, 1023, 1024}

func pickPad(r *vh.RNG) int {
	if r.Chance(1, 3) {
		return r.Range(0, 1024)
	}
	return padLens[r.Intn(len(padLens))]
}

func refPacket(r *vh.RNG, m metaT, t byte, pad int) []byte {
	n, k, _ := refMeta(m.nonce, m.obfs)
	return refEncode(t, n, k, r.Bytes(pad), r.Bytes(8))
}

// mutate a valid punch packet at the field boundaries; returns the packet and a tag
func mutatePunch(r *vh.RNG, pkt []byte) ([]byte, string) {
	p := append([]byte{}, pkt...)
	switch r.Intn(10) {
	case 0: // truncated below the window
		return p[:r.Pick([]int{0, 1, 7, 8, 9, 16, 17, 31, 32})], "trunc-short"
	case 1: // truncated inside the padding (still a punch packet: padding is not authenticated)
		if len(p) > 33 {
			return p[:r.Range(33, len(p)-1)], "trunc-pad"
		}
		return p, "valid"
	case 2: // extended beyond the window
		return append(p[:33], r.Bytes(r.Pick([]int{1025, 1026, 1100, 1400}))...), "too-long"
	case 3: // extended to exactly the maximum / maximum+1
		return append(p[:33], r.Bytes(r.Pick([]int{1024, 1025}))...), "len-edge"
	case 4:
		p[r.Intn(8)] ^= byte(1 << r.Intn(8))
		return p, "flip-salt"
	case 5:
		p[8+r.Intn(8)] ^= byte(1 << r.Intn(8))
		return p, "flip-magic"
	case 6:
		if r.Bool() {
			p[16] ^= byte(1 << r.Intn(8))
		} else {
			p[16] ^= byte(r.Range(1, 255))
		}
		return p, "flip-type"
	case 7:
		p[17+r.Intn(16)] ^= byte(1 << r.Intn(8))
		return p, "flip-nonce"
	case 8:
		p[32] ^= byte(1 << r.Intn(8)) // last nonce byte
		return p, "flip-nonce-last"
	default:
		if len(p) > 33 {
			p[33+r.Intn(len(p)-33)] ^= byte(1 << r.Intn(8))
			return p, "flip-pad"
		}
		return p, "valid"
	}
}

func quicLike(r *vh.RNG) []byte {
	n := r.Pick([]int{20, 33, 40, 64, 200, 1057, 1058, 1200, 1252, 1350})
	b := r.Bytes(n)
	if r.Bool() {
		b[0] = 0x40 | (b[0] & 0x3f) // short header
	} else {
		b[0] = 0xc0 | (b[0] & 0x3f) // long header, version 1
		copy(b[1:5], []byte{0, 0, 0, 1})
	}
	return b
}

// ---------------------------------------------------------------- component: punchcodec

type punchCodec struct{}

func (punchCodec) Gen(r *vh.RNG, n int, emit func(op string, tags ...string)) {
	pool := []metaT{randMeta(r), randMeta(r), randMeta(r)}
	pool = append(pool, metaT{pool[0].nonce, pool[1].obfs}, metaT{pool[1].nonce, pool[0].obfs})
	for i := 0; i < n; i++ {
		m := pool[r.Intn(len(pool))]
		if r.Chance(1, 10) {
			m = randMeta(r)
		}
		if r.Chance(1, 6) {
			m = metaT{upperSome(r, m.nonce), upperSome(r, m.obfs)}
		}
		k := r.Intn(100)
		switch {
		case k < 4:
			emit("sha "+vh.Hex(r.Bytes(r.Pick([]int{0, 1, 40, 55, 56, 63, 64, 65, 119, 120, 128, 300}))), "sha")
		case k < 22: // the real encoder, valid input
			emit(fmt.Sprintf("enc %d %s %s %d", r.Range(1, 2), sx(m.nonce), sx(m.obfs), r.U64()>>1), "enc-valid")
		case k < 26: // the real encoder, bad type / bad metadata
			if r.Bool() {
				emit(fmt.Sprintf("enc %d %s %s %d", r.Pick([]int{0, 3, 4, 127, 129, 255}), sx(m.nonce), sx(m.obfs), r.U64()>>1), "enc-badtype")
			} else {
				b := badMeta(r)
				emit(fmt.Sprintf("enc %d %s %s %d", r.Range(1, 2), sx(b.nonce), sx(b.obfs), r.U64()>>1), "enc-badmeta")
			}
		case k < 40: // valid packet, same metadata
			pkt := refPacket(r, m, byte(r.Range(1, 2)), pickPad(r))
			emit(fmt.Sprintf("dec %s %s %s", vh.Hex(pkt), sx(m.nonce), sx(m.obfs)), "dec-valid")
		case k < 62: // mutated packet, same metadata
			pkt, tag := mutatePunch(r, refPacket(r, m, byte(r.Range(1, 2)), pickPad(r)))
			emit(fmt.Sprintf("dec %s %s %s", vh.Hex(pkt), sx(m.nonce), sx(m.obfs)), "dec-"+tag)
		case k < 67: // well-formed except for the type byte
			pkt := refPacket(r, m, byte(r.Pick([]int{0, 3, 4, 0x11, 0x12, 0x81, 0x82, 0xff})), pickPad(r))
			emit(fmt.Sprintf("dec %s %s %s", vh.Hex(pkt), sx(m.nonce), sx(m.obfs)), "dec-badtype")
		case k < 80: // decode under a neighbouring nonce (one bit in one byte, every position incl. first and last)
			pkt := refPacket(r, m, byte(r.Range(1, 2)), pickPad(r))
			pos := r.Pick([]int{0, 1, 7, 8, 14, 15, r.Intn(16)})
			o := nonceNeighbour(r, m, pos)
			emit(fmt.Sprintf("dec %s %s %s", vh.Hex(pkt), sx(o.nonce), sx(o.obfs)), "dec-other-nonce")
		case k < 88: // decode under another key / another attempt of the pool
			pkt := refPacket(r, m, byte(r.Range(1, 2)), pickPad(r))
			o := keyNeighbour(r, m)
			if r.Bool() {
				o = pool[r.Intn(len(pool))]
			}
			emit(fmt.Sprintf("dec %s %s %s", vh.Hex(pkt), sx(o.nonce), sx(o.obfs)), "dec-other-key")
		case k < 92: // bad metadata on a valid packet
			pkt := refPacket(r, m, 1, pickPad(r))
			b := badMeta(r)
			emit(fmt.Sprintf("dec %s %s %s", vh.Hex(pkt), sx(b.nonce), sx(b.obfs)), "dec-badmeta")
		default: // random / QUIC-like bytes at the window's edges
			var pkt []byte
			if r.Bool() {
				pkt = quicLike(r)
			} else {
				pkt = r.Bytes(r.Pick([]int{0, 1, 24, 25, 32, 33, 34, 100, 1056, 1057, 1058, 1500}))
			}
			emit(fmt.Sprintf("dec %s %s %s", vh.Hex(pkt), sx(m.nonce), sx(m.obfs)), "dec-random")
		}
	}
}

func (punchCodec) Run(op string) vh.Result {
	f := strings.Fields(op)
	switch {
	case len(f) == 2 && f[0] == "sha":
		d := sha256.Sum256(vh.UnHex(f[1]))
		return vh.Result{Out: "ok " + vh.Hex(d[:]), NonTrivial: true}
	case len(f) == 5 && f[0] == "enc":
		return runEnc(f)
	case len(f) == 4 && f[0] == "dec":
		return runDec(f)
	}
	return vh.Result{Out: "bad-op", Oracle: []string{"harness: unparsable op"}}
}

func runEnc(f []string) vh.Result {
	t, _ := strconv.Atoi(f[1])
	meta := realm.PunchMetadata{Nonce: unsx(f[2]), Obfs: unsx(f[3])}
	seed, _ := strconv.ParseUint(f[4], 10, 64)
	var pkt []byte
	var err error
	var pmsg string
	calls := withDetRand(seed, func() {
		_, pmsg = vh.GuardMsg(func() string {
			pkt, err = realm.EncodePunchPacket(realm.PunchPacketType(t), meta)
			return ""
		})
	})
	var res vh.Result
	mop := func(pad, salt []byte) string {
		return fmt.Sprintf("enc %d %s %s %s %s", t, f[2], f[3], vh.Hex(pad), vh.Hex(salt))
	}
	if pmsg != "" {
		res.Out = "panic"
		res.ModelOp = mop(nil, nil)
		res.Oracle = append(res.Oracle, "EncodePunchPacket panicked: "+pmsg)
		return res
	}
	if err != nil {
		res.Out = "reject"
		res.ModelOp = mop(nil, nil)
		if !errors.Is(err, realm.ErrInvalidPunchPacket) {
			res.Oracle = append(res.Oracle, "EncodePunchPacket error is not ErrInvalidPunchPacket: "+err.Error())
		}
		if _, _, ok := refMeta(meta.Nonce, meta.Obfs); ok && (t == 1 || t == 2) {
			res.Oracle = append(res.Oracle, "EncodePunchPacket refused a valid type and valid metadata")
		}
		return res
	}
	res.Out = "ok " + vh.Hex(pkt)
	res.NonTrivial = true
	// what the code drew: the last Read is the salt, the one before it the padding (if any)
	var pad, salt []byte
	if len(calls) > 0 {
		salt = calls[len(calls)-1]
	}
	padLen := len(pkt) - (refSalt + refHeader)
	if padLen > 0 && len(calls) > 1 {
		pad = calls[len(calls)-2]
	}
	res.ModelOp = mop(pad, salt)
	// model-free oracles
	if padLen < 0 || padLen > realm.MaxPunchPadding {
		res.Oracle = append(res.Oracle, fmt.Sprintf("encoded packet has padding length %d outside 0..%d", padLen, realm.MaxPunchPadding))
	}
	if len(pad) != max(padLen, 0) || len(salt) != refSalt || !bytes.Equal(pkt[:min(len(pkt), refSalt)], salt) {
		res.Oracle = append(res.Oracle, "harness: could not recover the encoder's random draws (pad/salt)")
	}
	if ok, rt, rp, why := refWellFormed(pkt, meta.Nonce, meta.Obfs); !ok || int(rt) != t || rp != padLen {
		res.Oracle = append(res.Oracle, "encoded packet is not a well-formed punch packet of its metadata and type: "+why)
	}
	got, derr := realm.DecodePunchPacket(pkt, meta)
	if derr != nil || int(got.Type) != t || got.PaddingLength != padLen {
		res.Oracle = append(res.Oracle, fmt.Sprintf("round trip broken: decode(encode) = (%v,%v), want type %d pad %d", got, derr, t, padLen))
	}
	// the same key with another nonce must never decode
	if n, _, ok := refMeta(meta.Nonce, meta.Obfs); ok {
		n[int(seed%16)] ^= 0x01
		other := realm.PunchMetadata{Nonce: hex.EncodeToString(n), Obfs: meta.Obfs}
		if _, e := realm.DecodePunchPacket(pkt, other); e == nil {
			res.Oracle = append(res.Oracle, "packet decodes under the same key and a different nonce "+other.Nonce)
		}
	}
	return res
}

func runDec(f []string) vh.Result {
	pkt := vh.Exact(vh.UnHex(f[1]))
	orig := append([]byte{}, pkt...)
	meta := realm.PunchMetadata{Nonce: unsx(f[2]), Obfs: unsx(f[3])}
	var got realm.PunchPacket
	var err error
	_, pmsg := vh.GuardMsg(func() string {
		got, err = realm.DecodePunchPacket(pkt, meta)
		return ""
	})
	var res vh.Result
	if pmsg != "" {
		res.Out = "panic"
		res.Oracle = append(res.Oracle, "DecodePunchPacket panicked: "+pmsg)
		return res
	}
	if !bytes.Equal(pkt, orig) {
		res.Oracle = append(res.Oracle, "DecodePunchPacket modified the caller's packet")
	}
	ok, rt, rp, why := refWellFormed(pkt, meta.Nonce, meta.Obfs)
	if err != nil {
		res.Out = "reject"
		if ok {
			res.Oracle = append(res.Oracle, "a well-formed punch packet of this metadata was refused: "+err.Error())
		}
		if !errors.Is(err, realm.ErrInvalidPunchPacket) {
			res.Oracle = append(res.Oracle, "DecodePunchPacket error is not ErrInvalidPunchPacket: "+err.Error())
		}
		return res
	}
	res.Out = fmt.Sprintf("ok %d %d", got.Type, got.PaddingLength)
	res.NonTrivial = true
	if !ok {
		res.Oracle = append(res.Oracle, "accepted a packet that is not a punch packet of this metadata: "+why)
	} else if byte(got.Type) != rt || got.PaddingLength != rp {
		res.Oracle = append(res.Oracle, fmt.Sprintf("decoded (type %d, pad %d), the packet carries (type %d, pad %d)", got.Type, got.PaddingLength, rt, rp))
	}
	return res
}

// ---------------------------------------------------------------- fake wrapped conn

type otherAddr struct {
	ip   []byte
	port int
}

func (*otherAddr) Network() string  { return "verif" }
func (a *otherAddr) String() string { return fmt.Sprintf("%x:%d", a.ip, a.port) }

type inPkt struct {
	isErr bool
	data  []byte
	addr  net.Addr
	tok   string // the address token of the op line
}

var errFake = errors.New("verif: wrapped conn error")

type fakeConn struct {
	queue     []inPkt
	next      int
	delivered int64 // number of queue entries handed out (atomic: read by the conc op's reader only)
	cycle     bool
	stop      *atomic.Bool
	yield     bool
	onWrite   func(p []byte, a net.Addr) // observes outgoing packets (the discover op answers binding requests)
}

func (c *fakeConn) ReadFrom(p []byte) (int, net.Addr, error) {
	if c.yield {
		runtime.Gosched()
	}
	if c.next >= len(c.queue) {
		if !c.cycle || c.stop.Load() || len(c.queue) == 0 {
			return 0, nil, errFake
		}
		c.next = 0
	}
	e := c.queue[c.next]
	c.next++
	atomic.AddInt64(&c.delivered, 1)
	if e.isErr {
		return 0, nil, errFake
	}
	n := copy(p, e.data)
	return n, e.addr, nil
}
func (c *fakeConn) WriteTo(p []byte, a net.Addr) (int, error) {
	if c.onWrite != nil {
		c.onWrite(p, a)
	}
	return len(p), nil
}
func (c *fakeConn) Close() error                     { return nil }
func (c *fakeConn) LocalAddr() net.Addr              { return &net.UDPAddr{IP: net.IPv4(127, 0, 0, 1), Port: 1} }
func (c *fakeConn) SetDeadline(time.Time) error      { return nil }
func (c *fakeConn) SetReadDeadline(time.Time) error  { return nil }
func (c *fakeConn) SetWriteDeadline(time.Time) error { return nil }

// address token: u:<iphex>:<port> (*net.UDPAddr), x:<iphex>:<port> (another net.Addr type), n:-:0 (nil)
func parseAddrTok(s string) net.Addr {
	f := strings.Split(s, ":")
	if len(f) != 3 {
		panic("harness: bad addr token " + s)
	}
	port, _ := strconv.Atoi(f[2])
	ip := vh.UnHex(f[1])
	switch f[0] {
	case "u":
		return &net.UDPAddr{IP: net.IP(ip), Port: port}
	case "x":
		return &otherAddr{ip, port}
	}
	return nil
}

func parseSpecs(s string) []inPkt {
	if s == "." {
		return nil
	}
	var out []inPkt
	for _, e := range strings.Split(s, ";") {
		if e == "E" {
			out = append(out, inPkt{isErr: true})
			continue
		}
		f := strings.Split(e, "@")
		if len(f) != 2 {
			panic("harness: bad packet spec " + e)
		}
		out = append(out, inPkt{data: vh.Exact(vh.UnHex(f[0])), addr: parseAddrTok(f[1]), tok: f[1]})
	}
	return out
}

// ---------------------------------------------------------------- the STUN oracle (pion/stun, called directly)

type stunView struct {
	isMsg, decOK, bindOK bool
	xor, mapped          string // "n" or <iphex>/<port>
	txid                 []byte // msg.TransactionID when it decodes
	response             bool   // harness's own reading of "is a STUN binding success response with a usable mapped address"
}

func viewOf(pkt []byte) (v stunView) {
	v.xor, v.mapped = "n", "n"
	defer func() {
		if r := recover(); r != nil { // pion panicked: treat as not decodable
			v = stunView{xor: "n", mapped: "n"}
		}
	}()
	v.isMsg = stun.IsMessage(pkt)
	m := stun.New()
	if err := stun.Decode(pkt, m); err != nil {
		return v
	}
	v.decOK = true
	v.txid = append([]byte{}, m.TransactionID[:]...)
	v.bindOK = m.Type == stun.BindingSuccess
	usable := func(ip net.IP, port int) bool {
		return port >= 1 && port <= 65535 && (len(ip) == 4 || len(ip) == 16)
	}
	var x stun.XORMappedAddress
	var haveX, okX bool
	if err := x.GetFrom(m); err == nil {
		v.xor = fmt.Sprintf("%s/%d", vh.Hex(x.IP), x.Port)
		haveX, okX = true, usable(x.IP, x.Port)
	}
	var a stun.MappedAddress
	var haveA, okA bool
	if err := a.GetFrom(m); err == nil {
		v.mapped = fmt.Sprintf("%s/%d", vh.Hex(a.IP), a.Port)
		haveA, okA = true, usable(a.IP, a.Port)
	}
	v.response = v.isMsg && v.bindOK && ((haveX && okX) || (!haveX && haveA && okA))
	return v
}

func (v stunView) String() string {
	b := func(x bool) string {
		if x {
			return "1"
		}
		return "0"
	}
	return b(v.isMsg) + b(v.decOK) + b(v.bindOK) + "," + v.xor + "," + v.mapped + "," + vh.Hex(v.txid)
}

func srcUsable(a net.Addr) bool {
	u, ok := a.(*net.UDPAddr)
	return ok && u != nil && (len(u.IP) == 4 || len(u.IP) == 16) && u.Port >= 1 && u.Port <= 65535
}

func showAddrPort(a netip.AddrPort) string {
	return fmt.Sprintf("%s:%d", vh.Hex(a.Addr().AsSlice()), a.Port())
}

// ---------------------------------------------------------------- component: punchconn

type punchConn struct {
	conn   *realm.PunchPacketConn
	inner  *fakeConn
	shadow map[string]metaT // the attempts the harness registered successfully and did not remove
}

// justified: may this packet be withheld from the reader at all, given the shadow registry?
func justified(shadow map[string]metaT, p inPkt) (bool, string) {
	if viewOf(p.data).response {
		return true, "stun"
	}
	if !srcUsable(p.addr) {
		return false, ""
	}
	for id, m := range shadow {
		if ok, _, _, _ := refWellFormed(p.data, m.nonce, m.obfs); ok {
			return true, id
		}
	}
	return false, ""
}

func (c *punchConn) reset(buf int) {
	c.inner = &fakeConn{stop: &atomic.Bool{}}
	c.conn, _ = realm.NewPunchPacketConn(c.inner, buf)
	c.shadow = map[string]metaT{}
}

func (c *punchConn) peekEvents() []realm.PunchPacketEvent {
	ch, _ := realm.VerifC20Chans(c.conn)
	var evs []realm.PunchPacketEvent
	for {
		select {
		case e := <-ch:
			evs = append(evs, e)
			continue
		default:
		}
		break
	}
	for _, e := range evs {
		ch <- e
	}
	return evs
}

func stunPackets(r *vh.RNG) ([]byte, string) {
	var id [stun.TransactionIDSize]byte
	copy(id[:], r.Bytes(12))
	ip4 := net.IP(r.Bytes(4))
	ip6 := net.IP(r.Bytes(16))
	mapped6 := net.IP(append(append([]byte{}, 0, 0, 0, 0, 0, 0, 0, 0, 0, 0, 0xff, 0xff), r.Bytes(4)...))
	port := r.Range(1, 65535)
	build := func(s ...stun.Setter) []byte {
		m, err := stun.Build(append([]stun.Setter{stun.NewTransactionIDSetter(id)}, s...)...)
		if err != nil {
			return r.Bytes(20)
		}
		return append([]byte{}, m.Raw...)
	}
	switch r.Intn(14) {
	case 0:
		return build(stun.BindingSuccess, &stun.XORMappedAddress{IP: ip4, Port: port}), "stun-resp-xor4"
	case 1:
		return build(stun.BindingSuccess, &stun.XORMappedAddress{IP: ip6, Port: port}), "stun-resp-xor6"
	case 2:
		return build(stun.BindingSuccess, &stun.MappedAddress{IP: ip4, Port: port}), "stun-resp-mapped4"
	case 3:
		return build(stun.BindingSuccess, &stun.XORMappedAddress{IP: mapped6, Port: port}), "stun-resp-xor-v4mapped"
	case 4: // not a response: a request that looks exactly like STUN
		return build(stun.BindingRequest), "stun-request"
	case 5:
		return build(stun.BindingError, &stun.XORMappedAddress{IP: ip4, Port: port}), "stun-error-with-addr"
	case 6:
		return build(stun.BindingSuccess), "stun-success-no-addr"
	case 7: // port 0 in the XOR address: parse error although a MAPPED-ADDRESS is present
		return build(stun.BindingSuccess, &stun.XORMappedAddress{IP: ip4, Port: 0}, &stun.MappedAddress{IP: ip4, Port: port}), "stun-xor-port0"
	case 8:
		return build(stun.BindingSuccess, &stun.MappedAddress{IP: ip6, Port: 0}), "stun-mapped-port0"
	case 9:
		return build(stun.NewType(stun.MethodBinding, stun.ClassIndication), &stun.XORMappedAddress{IP: ip4, Port: port}), "stun-indication"
	case 10: // truncated response
		b := build(stun.BindingSuccess, &stun.XORMappedAddress{IP: ip4, Port: port})
		return b[:r.Range(1, len(b)-1)], "stun-truncated"
	case 11: // bit-flipped response
		b := build(stun.BindingSuccess, &stun.XORMappedAddress{IP: ip4, Port: port})
		b[r.Intn(len(b))] ^= byte(1 << r.Intn(8))
		return b, "stun-flipped"
	case 12: // STUN header with cookie, garbage after it
		b := r.Bytes(r.Range(20, 60))
		copy(b[4:8], []byte{0x21, 0x12, 0xa4, 0x42})
		return b, "stun-cookie-garbage"
	default:
		return build(stun.NewType(stun.MethodAllocate, stun.ClassSuccessResponse), &stun.XORMappedAddress{IP: ip4, Port: port}), "stun-allocate-success"
	}
}

// punchStrayStun: STUN traffic that is NOT an answer to anything we asked: binding requests (what
// any STUN-speaking peer or scanner sends), indications, error responses, truncated / flipped
// messages, and now and then a genuine binding success of somebody else's transaction.
func punchStrayStun(r *vh.RNG) ([]byte, string) {
	var id [stun.TransactionIDSize]byte
	copy(id[:], r.Bytes(12))
	ip4 := net.IP(r.Bytes(4))
	port := r.Range(1, 65535)
	build := func(s ...stun.Setter) []byte {
		m, err := stun.Build(append([]stun.Setter{stun.NewTransactionIDSetter(id)}, s...)...)
		if err != nil {
			return r.Bytes(20)
		}
		return append([]byte{}, m.Raw...)
	}
	switch r.Intn(8) {
	case 0, 1:
		return build(stun.BindingRequest), "stun-request"
	case 2:
		return build(stun.NewType(stun.MethodBinding, stun.ClassIndication)), "stun-indication"
	case 3:
		return build(stun.BindingError, &stun.XORMappedAddress{IP: ip4, Port: port}), "stun-error-with-addr"
	case 4:
		b := build(stun.BindingSuccess, &stun.XORMappedAddress{IP: ip4, Port: port})
		return b[:r.Range(20, len(b)-1)], "stun-truncated"
	case 5:
		return build(stun.BindingSuccess), "stun-success-no-addr"
	case 6:
		return build(stun.BindingSuccess, &stun.XORMappedAddress{IP: ip4, Port: port}), "stun-resp-xor4"
	default:
		d, tag := stunPackets(r)
		return d, tag
	}
}

func punchGenDiscover(r *vh.RNG) string {
	seed := r.U64() >> 1
	m := fmt.Sprintf("%s/%d", vh.Hex(r.Bytes(4)), r.Range(1, 65535))
	switch k := r.Intn(20); {
	case k < 9:
		return fmt.Sprintf("discover %d n", seed)
	case k < 18:
		return fmt.Sprintf("discover %d ok:%s", seed, m)
	case k < 19:
		return fmt.Sprintf("discover %d wrongtx:%s", seed, m)
	default:
		return fmt.Sprintf("discover %d err:%s", seed, m)
	}
}

func genAddr(r *vh.RNG) string {
	switch r.Intn(20) {
	case 0:
		return "n:-:0"
	case 1:
		return fmt.Sprintf("x:%s:%d", vh.Hex(r.Bytes(4)), r.Range(1, 65535))
	case 2:
		return fmt.Sprintf("u:%s:%d", vh.Hex(r.Bytes(4)), r.Pick([]int{0, -1, 65536, 70000}))
	case 3:
		return fmt.Sprintf("u:%s:%d", vh.Hex(r.Bytes(r.Pick([]int{0, 3, 5, 15, 17}))), r.Range(1, 65535))
	case 4, 5:
		return fmt.Sprintf("u:%s:%d", vh.Hex(r.Bytes(16)), r.Range(1, 65535))
	case 6, 7:
		return fmt.Sprintf("u:00000000000000000000ffff%s:%d", vh.Hex(r.Bytes(4)), r.Pick([]int{1, 443, 65535}))
	default:
		return fmt.Sprintf("u:%s:%d", vh.Hex(r.Bytes(4)), r.Range(1, 65535))
	}
}

type attemptT struct {
	id string
	m  metaT
}

// genPacket draws one incoming packet given the attempts that are registered now, those that
// were registered and have been removed, and foreign ones that never were.
func genPacket(r *vh.RNG, live, removed, foreign []attemptT) (string, string) {
	pick := func(xs []attemptT) (attemptT, bool) {
		if len(xs) == 0 {
			return attemptT{}, false
		}
		return xs[r.Intn(len(xs))], true
	}
	var data []byte
	tag := ""
	k := r.Intn(100)
	switch {
	case k < 18:
		data, tag = quicLike(r), "quic-like"
	case k < 26:
		data, tag = r.Bytes(r.Pick([]int{0, 1, 19, 20, 32, 33, 34, 100, 1057, 1058, 1400})), "random"
	case k < 46:
		if a, ok := pick(live); ok {
			data, tag = refPacket(r, a.m, byte(r.Range(1, 2)), pickPad(r)), "punch-live"
		} else {
			data, tag = quicLike(r), "quic-like"
		}
	case k < 58:
		if a, ok := pick(live); ok {
			data, tag = mutatePunch(r, refPacket(r, a.m, byte(r.Range(1, 2)), pickPad(r)))
			tag = "punch-live-" + tag
		} else {
			data, tag = r.Bytes(40), "random"
		}
	case k < 68:
		if a, ok := pick(removed); ok {
			data, tag = refPacket(r, a.m, byte(r.Range(1, 2)), pickPad(r)), "punch-removed"
		} else if a, ok := pick(foreign); ok {
			data, tag = refPacket(r, a.m, byte(r.Range(1, 2)), pickPad(r)), "punch-foreign"
		}
	case k < 76:
		if a, ok := pick(foreign); ok {
			data, tag = refPacket(r, a.m, byte(r.Range(1, 2)), pickPad(r)), "punch-foreign"
		}
	case k < 80:
		if a, ok := pick(live); ok { // a live attempt's key with another nonce / its nonce with another key
			o := nonceNeighbour(r, a.m, r.Intn(16))
			if r.Bool() {
				o = keyNeighbour(r, a.m)
			}
			data, tag = refPacket(r, o, byte(r.Range(1, 2)), pickPad(r)), "punch-neighbour"
		}
	default:
		data, tag = stunPackets(r)
	}
	if tag == "" {
		data, tag = r.Bytes(50), "random"
	}
	return vh.Hex(data) + "@" + genAddr(r), tag
}

func (c *punchConn) Gen(r *vh.RNG, n int, emit func(op string, tags ...string)) {
	count := 0
	e := func(op string, tags ...string) { emit(op, tags...); count++ }
	for count < n {
		// one history: a conn, a changing registry, reads in between
		e(fmt.Sprintf("reset %d", r.Pick([]int{0, -1, 1, 1, 2, 3, 16})), "reset")
		var live, removed, foreign []attemptT
		for i := 0; i < 3; i++ {
			foreign = append(foreign, attemptT{fmt.Sprintf("f%d", i), randMeta(r)})
		}
		nextID := 0
		steps := r.Range(6, 30)
		for s := 0; s < steps; s++ {
			k := r.Intn(100)
			switch {
			case k < 22: // register
				a := attemptT{fmt.Sprintf("a%d", nextID), randMeta(r)}
				nextID++
				switch r.Intn(10) {
				case 0: // the same metadata under a second id
					if len(live) > 0 {
						a.m = live[r.Intn(len(live))].m
					}
				case 1: // the same bytes written with other hex digits' case
					if len(live) > 0 {
						o := live[r.Intn(len(live))].m
						a.m = metaT{upperSome(r, o.nonce), upperSome(r, o.obfs)}
					}
				case 2: // an existing key with a fresh nonce
					if len(live) > 0 {
						a.m.obfs = live[r.Intn(len(live))].m.obfs
					}
				case 3: // re-register an existing id with new metadata: the old metadata stops matching
					if len(live) > 0 {
						i := r.Intn(len(live))
						a.id = live[i].id
						removed = append(removed, attemptT{"old-" + a.id, live[i].m})
						live = append(live[:i:i], live[i+1:]...)
					}
				case 4: // a foreign attempt becomes registered
					i := r.Intn(len(foreign))
					a.m = foreign[i].m
					foreign[i] = attemptT{foreign[i].id, randMeta(r)}
				}
				e(fmt.Sprintf("add %s %s %s", sx(a.id), sx(a.m.nonce), sx(a.m.obfs)), "add")
				live = append(live, a)
			case k < 26: // refused registrations
				if r.Bool() {
					m := randMeta(r)
					e(fmt.Sprintf("add - %s %s", sx(m.nonce), sx(m.obfs)), "add-empty-id")
				} else {
					b := badMeta(r)
					id := fmt.Sprintf("a%d", nextID)
					if len(live) > 0 && r.Bool() {
						id = live[r.Intn(len(live))].id // refused re-registration keeps the old metadata
					}
					e(fmt.Sprintf("add %s %s %s", sx(id), sx(b.nonce), sx(b.obfs)), "add-badmeta")
				}
			case k < 38: // remove
				if len(live) > 0 && r.Chance(5, 6) {
					i := r.Intn(len(live))
					e("rm "+sx(live[i].id), "rm")
					removed = append(removed, live[i])
					live = append(live[:i:i], live[i+1:]...)
				} else {
					e("rm "+sx(fmt.Sprintf("zz%d", r.Intn(3))), "rm-unknown")
				}
			case k < 42:
				e("drain", "drain")
			case k < 46: // stray STUN packets (mostly non-responses) reach the conn, then the STUN discovery runs on it
				np := r.Range(1, 4)
				specs := make([]string, 0, np)
				tags := []string{"read-stray-stun"}
				for i := 0; i < np; i++ {
					d, tag := punchStrayStun(r)
					specs = append(specs, vh.Hex(d)+"@"+genAddr(r))
					tags = append(tags, tag)
				}
				e("read "+strings.Join(specs, ";"), tags...)
				e(punchGenDiscover(r), "discover")
			case k < 48:
				e(punchGenDiscover(r), "discover")
			default: // read
				np := r.Pick([]int{0, 1, 1, 2, 3, 4, 6, 9})
				specs := make([]string, 0, np+1)
				tags := []string{"read"}
				for i := 0; i < np; i++ {
					s, tag := genPacket(r, live, removed, foreign)
					specs = append(specs, s)
					tags = append(tags, tag)
				}
				if r.Chance(1, 6) {
					specs = append(specs[:r.Intn(len(specs)+1)], "E")
				}
				if len(specs) == 0 {
					e("read .", "read-empty")
				} else {
					e("read "+strings.Join(specs, ";"), tags...)
				}
			}
		}
		e("drain", "drain")
		if r.Chance(1, 4) { // concurrent registration/removal while reading
			var st, vo []string
			var stA, voA []attemptT
			for i := 0; i < r.Range(0, 2); i++ {
				a := attemptT{fmt.Sprintf("s%d", i), randMeta(r)}
				stA = append(stA, a)
				st = append(st, fmt.Sprintf("%s,%s,%s", sx(a.id), sx(a.m.nonce), sx(a.m.obfs)))
			}
			for i := 0; i < r.Range(1, 3); i++ {
				a := attemptT{fmt.Sprintf("v%d", i), randMeta(r)}
				voA = append(voA, a)
				vo = append(vo, fmt.Sprintf("%s,%s,%s", sx(a.id), sx(a.m.nonce), sx(a.m.obfs)))
			}
			np := r.Range(4, 16)
			specs := make([]string, 0, np)
			for i := 0; i < np; i++ {
				var s string
				switch r.Intn(5) {
				case 0:
					s, _ = genPacket(r, stA, nil, foreign)
				case 1:
					s, _ = genPacket(r, voA, nil, foreign)
				case 2, 3: // a plain punch packet of one of the attempts, from a usable source
					all := append(append([]attemptT{}, stA...), voA...)
					a := all[r.Intn(len(all))]
					s = fmt.Sprintf("%s@u:%s:%d", vh.Hex(refPacket(r, a.m, byte(r.Range(1, 2)), pickPad(r))), vh.Hex(r.Bytes(4)), r.Range(1, 65535))
				default:
					s, _ = genPacket(r, append(append([]attemptT{}, stA...), voA...), nil, foreign)
				}
				specs = append(specs, s)
			}
			stS := "."
			if len(st) > 0 {
				stS = strings.Join(st, ";")
			}
			e(fmt.Sprintf("conc %d %d %s %s %s", r.Range(20, 200), r.Range(1, 3), stS, strings.Join(vo, ";"), strings.Join(specs, ";")), "conc")
		}
	}
}

func (c *punchConn) Run(op string) vh.Result {
	f := strings.Fields(op)
	if len(f) == 0 {
		return vh.Result{Out: "bad-op", Oracle: []string{"harness: empty op"}}
	}
	if f[0] != "reset" && f[0] != "conc" && c.conn == nil {
		c.reset(0)
	}
	switch {
	case f[0] == "reset" && len(f) == 2:
		n, _ := strconv.Atoi(f[1])
		c.reset(n)
		return vh.Result{Out: fmt.Sprintf("ok %d", cap(c.conn.Events()))}
	case f[0] == "add" && len(f) == 4:
		id, m := unsx(f[1]), metaT{unsx(f[2]), unsx(f[3])}
		var err error
		_, pmsg := vh.GuardMsg(func() string {
			err = c.conn.AddPunchAttempt(id, realm.PunchMetadata{Nonce: m.nonce, Obfs: m.obfs})
			return ""
		})
		if pmsg != "" {
			return vh.Result{Out: "panic", Oracle: []string{"AddPunchAttempt panicked: " + pmsg}}
		}
		_, _, mok := refMeta(m.nonce, m.obfs)
		if err != nil {
			var o []string
			if mok && id != "" {
				o = append(o, "AddPunchAttempt refused a valid id and valid metadata: "+err.Error())
			}
			return vh.Result{Out: "reject", Oracle: o}
		}
		c.shadow[id] = m
		var o []string
		if !mok || id == "" {
			o = append(o, "AddPunchAttempt accepted an empty id or invalid metadata")
		}
		return vh.Result{Out: "ok", NonTrivial: true, Oracle: o}
	case f[0] == "rm" && len(f) == 2:
		id := unsx(f[1])
		c.conn.RemovePunchAttempt(id)
		delete(c.shadow, id)
		return vh.Result{Out: "ok", NonTrivial: true}
	case f[0] == "drain" && len(f) == 1:
		return c.runDrain()
	case f[0] == "read" && len(f) == 2:
		return c.runRead(f[1])
	case f[0] == "discover" && len(f) == 3:
		return c.runDiscover(f)
	case f[0] == "conc" && len(f) == 6:
		return punchRunConc(f)
	}
	return vh.Result{Out: "bad-op", Oracle: []string{"harness: unparsable op"}}
}

func (c *punchConn) runDrain() vh.Result {
	var evs, sts []string
	for {
		select {
		case e := <-c.conn.Events():
			evs = append(evs, fmt.Sprintf("%s,%s,%d,%d", sx(e.AttemptID), showAddrPort(e.From), e.Packet.Type, e.Packet.PaddingLength))
			continue
		case s := <-c.conn.STUNEvents():
			sts = append(sts, showAddrPort(s.Addr))
			continue
		default:
		}
		break
	}
	j := func(xs []string) string {
		if len(xs) == 0 {
			return "."
		}
		return strings.Join(xs, ";")
	}
	return vh.Result{Out: "ev " + j(evs) + " stun " + j(sts), NonTrivial: len(evs)+len(sts) > 0}
}

func (c *punchConn) runRead(specS string) vh.Result {
	specs := parseSpecs(specS)
	c.inner.queue, c.inner.next, c.inner.delivered = specs, 0, 0
	before := len(c.peekEvents())
	buf := make([]byte, 2048)
	var n int
	var addr net.Addr
	var err error
	_, pmsg := vh.GuardMsg(func() string {
		n, addr, err = c.conn.ReadFrom(buf)
		return ""
	})
	var res vh.Result
	k := int(c.inner.delivered)
	// model op: every packet with pion's verdict and the attempt Go's map iteration picked
	after := c.peekEvents()
	newEvs := after[min(before, len(after)):]
	mspecs := make([]string, len(specs))
	ei := 0
	for i, p := range specs {
		if p.isErr {
			mspecs[i] = "E"
			continue
		}
		v := viewOf(p.data)
		hint := ""
		diverted := i < k-1 || (i == k-1 && err != nil)
		if diverted && !v.response && ei < len(newEvs) {
			hint = newEvs[ei].AttemptID
			ei++
		}
		mspecs[i] = fmt.Sprintf("%s@%s@%s@%s", vh.Hex(p.data), p.tok, v.String(), sx(hint))
	}
	res.ModelOp = "read ."
	if len(mspecs) > 0 {
		res.ModelOp = "read " + strings.Join(mspecs, ";")
	}
	if pmsg != "" {
		res.Out = "panic"
		res.Oracle = append(res.Oracle, "ReadFrom panicked: "+pmsg)
		return res
	}
	ch, sch := realm.VerifC20Chans(c.conn)
	q := fmt.Sprintf("q=%d,%d", len(ch), len(sch))
	// model-free oracles
	nDiv := k
	if err == nil {
		nDiv = k - 1
	}
	for i := 0; i < nDiv && i < len(specs); i++ {
		if specs[i].isErr {
			continue
		}
		if ok, _ := justified(c.shadow, specs[i]); !ok {
			res.Oracle = append(res.Oracle, fmt.Sprintf("packet %d (%s from %s) was withheld from the reader although it is neither a STUN binding response nor a punch packet of a currently registered attempt", i, vh.Hex(specs[i].data), specs[i].tok))
		}
	}
	if err != nil {
		res.Out = fmt.Sprintf("err %d %s", k, q)
		if err != errFake {
			res.Oracle = append(res.Oracle, "ReadFrom returned an error of its own: "+err.Error())
		}
		res.NonTrivial = nDiv > 0
		return res
	}
	if k < 1 || k > len(specs) || specs[k-1].isErr {
		res.Out = fmt.Sprintf("ret %d %s ? %s", k, vh.Hex(buf[:n]), q)
		res.Oracle = append(res.Oracle, "ReadFrom returned a packet the wrapped conn did not deliver")
		return res
	}
	p := specs[k-1]
	tok := p.tok
	if !bytes.Equal(buf[:n], p.data) {
		res.Oracle = append(res.Oracle, fmt.Sprintf("returned packet differs from the injected one: got %s want %s", vh.Hex(buf[:n]), vh.Hex(p.data)))
	}
	if addr != p.addr {
		tok = "MISMATCH"
		res.Oracle = append(res.Oracle, fmt.Sprintf("returned source address %v is not the injected one (%s)", addr, p.tok))
	}
	if ok, by := justified(c.shadow, p); ok {
		res.Oracle = append(res.Oracle, fmt.Sprintf("a packet that must be diverted (%s) was handed to the reader", by))
	}
	res.Out = fmt.Sprintf("ret %d %s %s %s", k, vh.Hex(buf[:n]), tok, q)
	res.NonTrivial = true
	return res
}

type punchFixedResolver struct{ ip net.IP }

func (r punchFixedResolver) LookupIPAddr(context.Context, string) ([]net.IPAddr, error) {
	return []net.IPAddr{{IP: r.ip}}, nil
}

// discover <seed> <answer>: run the REAL DiscoverWithDemux — the consumer of the STUN event
// channel — on this conn, with whatever earlier reads left on the channel. The fake wrapped conn
// swallows the outgoing binding request; <answer> = n (the server stays silent: timeout) |
// ok:<ip>/<port> (a binding success with that XOR-MAPPED-ADDRESS and the request's transaction id) |
// wrongtx:<ip>/<port> (a binding success of another transaction) | err:<ip>/<port> (a binding error).
// The answer is handed to a reader goroutine (ReadFrom) once the consumer has emptied the channel.
func (c *punchConn) runDiscover(f []string) vh.Result {
	seed, _ := strconv.ParseUint(f[1], 10, 64)
	kind, mapped := f[2], ""
	if i := strings.IndexByte(f[2], ':'); i >= 0 {
		kind, mapped = f[2][:i], f[2][i+1:]
	}
	var mip net.IP
	mport := 0
	if mapped != "" {
		g := strings.Split(mapped, "/")
		mip = net.IP(vh.UnHex(g[0]))
		mport, _ = strconv.Atoi(g[1])
	}
	timeout := 5 * time.Second
	switch kind {
	case "n":
		timeout = 30 * time.Millisecond
	case "wrongtx", "err":
		timeout = 400 * time.Millisecond
	}
	server := &net.UDPAddr{IP: net.IPv4(192, 0, 2, 1).To4(), Port: 3478}
	var sentTx [][]byte
	var answer *inPkt
	sent := make(chan struct{})
	c.inner.queue, c.inner.next, c.inner.delivered = nil, 0, 0
	c.inner.onWrite = func(p []byte, _ net.Addr) {
		if !stun.IsMessage(p) {
			return
		}
		tx := append([]byte{}, p[8:20]...)
		sentTx = append(sentTx, tx)
		if kind == "n" || answer != nil {
			return
		}
		var id [stun.TransactionIDSize]byte
		copy(id[:], tx)
		typ := stun.BindingSuccess
		switch kind {
		case "wrongtx":
			id[0] ^= 0x55
		case "err":
			typ = stun.BindingError
		}
		m, err := stun.Build(stun.NewTransactionIDSetter(id), typ, &stun.XORMappedAddress{IP: mip, Port: mport})
		if err != nil {
			return
		}
		answer = &inPkt{data: vh.Exact(m.Raw), addr: server, tok: fmt.Sprintf("u:%s:%d", vh.Hex(server.IP), server.Port)}
		c.inner.queue = []inPkt{*answer}
		close(sent)
	}
	defer func() { c.inner.onWrite = nil }()
	_, sch := realm.VerifC20Chans(c.conn)
	var done atomic.Bool
	var wg sync.WaitGroup
	wg.Add(1)
	go func() { // the conn's reader: delivers the answer once the consumer has caught up
		defer wg.Done()
		for !done.Load() {
			select {
			case <-sent:
				if len(sch) == 0 {
					func() {
						defer func() { _ = recover() }()
						_, _, _ = c.conn.ReadFrom(make([]byte, 2048))
					}()
					return
				}
			default:
			}
			time.Sleep(100 * time.Microsecond)
		}
	}()
	var addrs []netip.AddrPort
	var err error
	pmsg := ""
	withDetRand(seed, func() {
		_, pmsg = vh.GuardMsg(func() string {
			ctx, cancel := context.WithTimeout(context.Background(), timeout)
			defer cancel()
			addrs, err = realm.DiscoverWithDemux(ctx, c.conn, realm.STUNConfig{
				Servers: []string{"192.0.2.1:3478"}, Timeout: timeout, Resolver: punchFixedResolver{server.IP},
			})
			return ""
		})
	})
	done.Store(true)
	wg.Wait()
	var res vh.Result
	tx := []byte(nil)
	if len(sentTx) > 0 {
		tx = sentTx[0]
	}
	ans := "n"
	if answer != nil {
		ans = fmt.Sprintf("%s@%s@%s@-", vh.Hex(answer.data), answer.tok, viewOf(answer.data).String())
	}
	res.ModelOp = fmt.Sprintf("discover %s %s", vh.Hex(tx), ans)
	if pmsg != "" {
		res.Out = "panic"
		res.Oracle = append(res.Oracle, "STUN event consumer panicked: DiscoverWithDemux: "+pmsg)
		return res
	}
	ch, _ := realm.VerifC20Chans(c.conn)
	q := fmt.Sprintf("q=%d,%d", len(ch), len(sch))
	switch {
	case err == nil:
		ss := make([]string, len(addrs))
		for i, a := range addrs {
			ss[i] = showAddrPort(a)
		}
		res.Out = "addrs " + strings.Join(ss, ";") + " " + q
		res.NonTrivial = true
	case errors.Is(err, context.DeadlineExceeded):
		res.Out = "failed " + q
	default:
		res.Out = "error " + q
		res.Oracle = append(res.Oracle, "DiscoverWithDemux failed with an error of its own: "+err.Error())
	}
	if len(sentTx) != 1 {
		res.Oracle = append(res.Oracle, fmt.Sprintf("harness: expected one binding request, saw %d", len(sentTx)))
	}
	if kind == "ok" && mport >= 1 && (err != nil || len(addrs) != 1 || int(addrs[0].Port()) != mport) {
		res.Oracle = append(res.Oracle, fmt.Sprintf("the server answered the binding request with a mapped address, DiscoverWithDemux reported (%v, %v)", addrs, err))
	}
	return res
}

// conc <rounds> <writers> <stable> <volatile> <specs>: the stable attempts stay registered, the
// volatile ones are added and removed by `writers` goroutines while one reader drains the wrapped
// conn (which cycles through the packets until the writers are done).
func punchRunConc(f []string) vh.Result {
	rounds, _ := strconv.Atoi(f[1])
	writers, _ := strconv.Atoi(f[2])
	parseReg := func(s string) []attemptT {
		if s == "." {
			return nil
		}
		var out []attemptT
		for _, e := range strings.Split(s, ";") {
			g := strings.Split(e, ",")
			out = append(out, attemptT{unsx(g[0]), metaT{unsx(g[1]), unsx(g[2])}})
		}
		return out
	}
	stable, vol := parseReg(f[3]), parseReg(f[4])
	specs := parseSpecs(f[5])
	var res vh.Result
	mspecs := make([]string, len(specs))
	for i, p := range specs {
		mspecs[i] = fmt.Sprintf("%s@%s@%s@-", vh.Hex(p.data), p.tok, viewOf(p.data).String())
	}
	res.ModelOp = fmt.Sprintf("conc %s %s %s", f[3], f[4], strings.Join(mspecs, ";"))

	stop := &atomic.Bool{}
	inner := &fakeConn{queue: specs, cycle: true, stop: stop, yield: true}
	conn, _ := realm.NewPunchPacketConn(inner, 4)
	stableM, allM := map[string]metaT{}, map[string]metaT{}
	for _, a := range stable {
		if conn.AddPunchAttempt(a.id, realm.PunchMetadata{Nonce: a.m.nonce, Obfs: a.m.obfs}) == nil {
			stableM[a.id], allM[a.id] = a.m, a.m
		}
	}
	for _, a := range vol {
		if _, dup := stableM[a.id]; !dup {
			allM[a.id] = a.m
		}
	}
	var wg sync.WaitGroup
	var panics atomic.Int64
	for w := 0; w < writers; w++ {
		wg.Add(1)
		go func(w int) {
			defer wg.Done()
			defer func() {
				if recover() != nil {
					panics.Add(1)
				}
			}()
			for i := 0; i < rounds; i++ {
				for j := range vol {
					a := vol[(j+w)%len(vol)]
					if _, dup := stableM[a.id]; dup {
						continue
					}
					_ = conn.AddPunchAttempt(a.id, realm.PunchMetadata{Nonce: a.m.nonce, Obfs: a.m.obfs})
					runtime.Gosched()
					conn.RemovePunchAttempt(a.id)
				}
				for _, a := range stable { // re-registering a stable attempt with the same metadata keeps it registered
					_ = conn.AddPunchAttempt(a.id, realm.PunchMetadata{Nonce: a.m.nonce, Obfs: a.m.obfs})
				}
			}
		}(w)
	}
	done := make(chan struct{})
	var badEvents []string
	go func() { // consumer of both event channels
		defer close(done)
		for {
			select {
			case e := <-conn.Events():
				if _, ok := allM[e.AttemptID]; !ok || (e.Packet.Type != 1 && e.Packet.Type != 2) {
					badEvents = append(badEvents, fmt.Sprintf("event for attempt %q type %d", e.AttemptID, e.Packet.Type))
				}
			case <-conn.STUNEvents():
			case <-time.After(2 * time.Millisecond):
				if stop.Load() {
					return
				}
			}
		}
	}()
	go func() { wg.Wait(); stop.Store(true) }()

	// the reader (this goroutine): which queue entries came back, across all passes
	nret := make([]int, len(specs))
	ndiv := make([]int, len(specs))
	var bad []string
	buf := make([]byte, 2048)
	last := int64(0)
	pmsgAll := ""
	for {
		var n int
		var addr net.Addr
		var err error
		_, pmsg := vh.GuardMsg(func() string {
			n, addr, err = conn.ReadFrom(buf)
			return ""
		})
		if pmsg != "" {
			pmsgAll = pmsg
			break
		}
		now := atomic.LoadInt64(&inner.delivered)
		if len(specs) == 0 {
			break
		}
		hi := now
		if err != nil {
			hi = now + 1 // nothing returned: everything delivered since `last` was diverted
		}
		for d := last + 1; d < hi; d++ {
			ndiv[int((d-1)%int64(len(specs)))]++
		}
		if err != nil {
			break
		}
		i := int((now - 1) % int64(len(specs)))
		nret[i]++
		if !bytes.Equal(buf[:n], specs[i].data) || addr != specs[i].addr {
			bad = append(bad, fmt.Sprintf("packet %d came back altered (data or source address)", i))
		}
		last = now
	}
	stop.Store(true)
	wg.Wait()
	<-done
	if pmsgAll != "" || panics.Load() > 0 {
		res.Out = "panic"
		res.Oracle = append(res.Oracle, "panic during concurrent add/remove/read: "+pmsgAll)
		return res
	}
	var sb strings.Builder
	for i, p := range specs {
		if p.isErr {
			sb.WriteByte('E')
			continue
		}
		must, _ := justified(stableM, p)
		may, _ := justified(allM, p)
		switch {
		case must:
			if nret[i] > 0 {
				res.Oracle = append(res.Oracle, fmt.Sprintf("packet %d is a STUN response or a punch packet of an attempt that stayed registered, but was handed to the reader %d times", i, nret[i]))
				sb.WriteByte('X')
			} else {
				sb.WriteByte('D')
			}
		case !may:
			if ndiv[i] > 0 {
				res.Oracle = append(res.Oracle, fmt.Sprintf("packet %d (%s) matches no attempt that was ever registered and is not a STUN response, but was withheld %d times", i, vh.Hex(p.data), ndiv[i]))
				sb.WriteByte('X')
			} else {
				sb.WriteByte('R')
			}
		default:
			sb.WriteByte('?')
		}
	}
	for _, b := range bad {
		res.Oracle = append(res.Oracle, b)
	}
	for _, b := range badEvents {
		res.Oracle = append(res.Oracle, b)
	}
	res.Out = "ok " + sb.String()
	res.NonTrivial = true
	return res
}
