//go:build verif

package main

import (
	"bytes"
	"errors"
	"fmt"
	"net"
	"net/netip"
	"regexp"
	"sort"
	"strconv"
	"strings"

	"golang.org/x/net/idna"

	vh "github.com/apernet/hysteria/core/v2/verifhlib"
	"github.com/apernet/hysteria/extras/v2/outbounds"
	"github.com/apernet/hysteria/extras/v2/outbounds/acl"
)

// C09: ACL decisions are first-match and independent of lookup history.
//
// Component `acl` (stateful):
//
//	rules <cache> <obs> <texthex>   load a rule text. cache=0: outbounds.NewACLEngineFromString
//	                                (its own cache size); cache=N>0: acl.ParseTextRules +
//	                                acl.Compile(…, N, …) wrapped in the same aclEngine.
//	                                obs: "-" or user outbound names joined by ","
//	q <name> <v4> <v6> <proto> <port> [<ri>]   one aclEngine.handle call (= HostInfo from the request's
//	                                ResolveInfo + Match + default + hijack); ri: 0 no ResolveInfo,
//	                                1 ResolveInfo{v4,v6}, 2 the same with Err set
//
// Every q is ALSO asked on a freshly compiled rule set (model-free oracle "the cache is
// invisible") and answered by an independent reference evaluator written from the ACL
// documentation (model-free oracle "first match in file order").

func init() {
	vh.Register("acl", func() vh.Component { return &aclComp{} })
	vh.RegisterConsts(func() map[string]any {
		return map[string]any{"aclCacheSize": outbounds.VerifACLCacheSize()}
	})
}

type markOB struct{ id string }

var errMarker = errors.New("verif marker outbound")

func (m *markOB) TCP(*outbounds.AddrEx) (net.Conn, error)          { return nil, errMarker }
func (m *markOB) UDP(*outbounds.AddrEx) (outbounds.UDPConn, error) { return nil, errMarker }
func (m *markOB) CheckUDP(*outbounds.AddrEx) error                 { return errMarker }

func obID(ob outbounds.PluggableOutbound) string {
	if ob == nil {
		return "-"
	}
	if m, ok := ob.(*markOB); ok {
		return m.id
	}
	return outbounds.VerifBuiltinName(ob)
}

type aclComp struct {
	loaded  bool
	engine  outbounds.PluggableOutbound
	rs      acl.CompiledRuleSet[outbounds.PluggableOutbound]
	obMap   map[string]outbounds.PluggableOutbound
	trs     []acl.TextRule
	ref     []refRule
	refOK   bool
	keyInfo map[acl.VerifKey]string
	known   map[acl.VerifKey]struct{}
}

func ipHex(ip net.IP) string { return vh.Hex(ip) }

func unhexIP(s string) net.IP {
	b := vh.UnHex(s)
	if len(b) == 0 {
		return nil
	}
	return net.IP(vh.Exact(b))
}

func classifyErr(err error) string {
	var se *acl.InvalidSyntaxError
	if errors.As(err, &se) {
		return fmt.Sprintf("err syntax %d", se.LineNum)
	}
	var ce *acl.CompilationError
	if errors.As(err, &ce) {
		w := 2
		switch {
		case strings.HasPrefix(ce.Message, "outbound "):
			w = 1
		case strings.HasPrefix(ce.Message, "invalid protocol/port"):
			w = 3
		case strings.HasPrefix(ce.Message, "invalid hijack address"):
			w = 4
		}
		return fmt.Sprintf("err compile %d %d", ce.LineNum, w)
	}
	return "err other " + strings.ReplaceAll(err.Error(), " ", "_")
}

func (c *aclComp) Run(op string) vh.Result {
	f := strings.Fields(op)
	switch f[0] {
	case "rules":
		return c.runRules(f)
	case "q":
		return c.runQuery(f)
	}
	return vh.Result{Out: "bad-op"}
}

func (c *aclComp) runRules(f []string) vh.Result {
	*c = aclComp{}
	cache, _ := strconv.Atoi(f[1])
	var entries []outbounds.OutboundEntry
	if f[2] != "-" {
		for i, n := range strings.Split(f[2], ",") {
			entries = append(entries, outbounds.OutboundEntry{Name: n, Outbound: &markOB{id: fmt.Sprintf("m%d", i)}})
		}
	}
	text := string(vh.UnHex(f[3]))
	c.obMap = outbounds.VerifOutboundsToMap(entries)
	names := make([]string, 0, len(c.obMap))
	for k := range c.obMap {
		names = append(names, k)
	}
	sort.Strings(names)
	kv := make([]string, len(names))
	for i, k := range names {
		kv[i] = k + "=" + obID(c.obMap[k])
	}
	mop := fmt.Sprintf("rules %s %s %s", obID(c.obMap["default"]), strings.Join(kv, ","), f[3])

	var err error
	if cache == 0 {
		c.engine, err = outbounds.NewACLEngineFromString(text, entries, nil)
	} else {
		var trs []acl.TextRule
		trs, err = acl.ParseTextRules(text)
		if err == nil {
			var rs acl.CompiledRuleSet[outbounds.PluggableOutbound]
			rs, err = acl.Compile[outbounds.PluggableOutbound](trs, c.obMap, cache, nil)
			if err == nil {
				c.engine = outbounds.VerifNewACLEngine(rs, c.obMap["default"])
			}
		}
	}
	if err != nil {
		return vh.Result{Out: classifyErr(err), ModelOp: mop, NonTrivial: true}
	}
	c.rs, _ = outbounds.VerifACLParts(c.engine)
	c.trs, _ = acl.ParseTextRules(text)
	c.ref, c.refOK = refParse(text)
	c.keyInfo = map[acl.VerifKey]string{}
	c.known = map[acl.VerifKey]struct{}{}
	c.loaded = true
	dump := acl.VerifDumpRules(c.rs, obID)
	ds := "-"
	if len(dump) > 0 {
		ds = strings.Join(dump, ";")
	}
	var orc []string
	if c.refOK && len(c.ref) != len(dump) {
		orc = append(orc, fmt.Sprintf("rule count: the text has %d rules, the compiled set %d", len(c.ref), len(dump)))
	}
	return vh.Result{Out: fmt.Sprintf("ok %d %s", len(dump), ds), ModelOp: mop, NonTrivial: true, Oracle: orc}
}

func keySet(ks []acl.VerifKey) map[acl.VerifKey]struct{} {
	m := make(map[acl.VerifKey]struct{}, len(ks))
	for _, k := range ks {
		m[k] = struct{}{}
	}
	return m
}

func ipEq(a, b net.IP) bool { return bytes.Equal(a, b) }

type engineOut struct {
	final string
	rw    string
	bad   string
}

// one aclEngine.handle call and what it did to the request address
// errPartial stands for what the resolvers leave in ResolveInfo.Err when one of the A/AAAA
// lookups failed while the other produced an address (or when both failed).
var errPartial = errors.New("verif: AAAA lookup timed out")

// riShape: "0" = no ResolveInfo, "1" = ResolveInfo{IPv4, IPv6}, "2" = the same with Err set
// (extras/outbounds/interface.go: a resolution can carry an error AND addresses).
func callHandle(engine outbounds.PluggableOutbound, name string, v4, v6 net.IP, shape string, proto acl.Protocol, port uint16) engineOut {
	addr := &outbounds.AddrEx{Host: name, Port: port}
	var ri *outbounds.ResolveInfo
	switch shape {
	case "1":
		ri = &outbounds.ResolveInfo{IPv4: v4, IPv6: v6}
	case "2":
		ri = &outbounds.ResolveInfo{IPv4: v4, IPv6: v6, Err: errPartial}
	}
	addr.ResolveInfo = ri
	final := outbounds.VerifACLHandle(engine, addr, proto)
	out := engineOut{final: obID(final), rw: "0"}
	changed := addr.Host != name || addr.ResolveInfo != ri || addr.Port != port
	if changed {
		h := net.ParseIP(addr.Host)
		if h == nil {
			out.bad = "rewritten Host is not an IP: " + strconv.Quote(addr.Host)
			h = net.IP{}
		}
		var r4, r6 net.IP
		if addr.ResolveInfo != nil {
			r4, r6 = addr.ResolveInfo.IPv4, addr.ResolveInfo.IPv6
		}
		out.rw = fmt.Sprintf("1:%s:%s:%s", ipHex(h), ipHex(r4), ipHex(r6))
		if addr.Port != port {
			out.bad = "port rewritten"
		}
	}
	return out
}

func (c *aclComp) runQuery(f []string) vh.Result {
	if !c.loaded {
		return vh.Result{Out: "no-rules", ModelOp: strings.Join(f[:6], " ") + " - . 0"}
	}
	name := string(vh.UnHex(f[1]))
	v4, v6 := unhexIP(f[2]), unhexIP(f[3])
	pn, _ := strconv.Atoi(f[4])
	proto := acl.Protocol(pn)
	p64, _ := strconv.ParseUint(f[5], 10, 16)
	port := uint16(p64)
	// shape of the request's ResolveInfo (optional 7th field; default: present iff an address is)
	shape := "1"
	if v4 == nil && v6 == nil {
		shape = "0"
	}
	if len(f) > 6 {
		shape = f[6]
	}
	if shape == "0" { // no ResolveInfo: the resolution produced no address
		v4, v6 = nil, nil
		f[2], f[3] = "-", "-"
	}

	// idna.ToUnicode of the normalised name is an INPUT of the model
	norm := strings.TrimRight(strings.ToLower(name), ".")
	uname, err := idna.ToUnicode(norm)
	if err != nil {
		uname = norm
	}
	us := "-"
	if rs := []rune(uname); len(rs) > 0 {
		parts := make([]string, len(rs))
		for i, r := range rs {
			parts[i] = strconv.Itoa(int(r))
		}
		us = strings.Join(parts, ".")
	}

	var orc []string
	// c.known = the cache population after the previous lookup
	eo := callHandle(c.engine, name, v4, v6, shape, proto, port)
	after := acl.VerifCacheKeys(c.rs)
	if eo.bad != "" {
		orc = append(orc, eo.bad)
	}
	var added, evicted []acl.VerifKey
	for _, k := range after {
		if _, ok := c.known[k]; !ok {
			added = append(added, k)
		}
	}
	if len(after) != len(c.known)+len(added) { // something left the cache
		aset := keySet(after)
		for k := range c.known {
			if _, ok := aset[k]; !ok {
				evicted = append(evicted, k)
			}
		}
		sort.Slice(evicted, func(i, j int) bool { return c.keyInfo[evicted[i]] < c.keyInfo[evicted[j]] })
	}
	for _, k := range added {
		c.known[k] = struct{}{}
	}
	for _, k := range evicted {
		delete(c.known, k)
	}
	// the raw decision: the same lookup again (served by the entry just used; must not change the cache)
	host := acl.HostInfo{Name: name, IPv4: v4, IPv6: v6}
	ob, hij := c.rs.Match(host, proto, port)
	again := acl.VerifCacheKeys(c.rs)
	if len(again) != len(after) {
		orc = append(orc, "repeating the lookup changed the cache population")
	}
	qf := strings.Join(f[1:6], ":")
	if len(added) > 1 {
		orc = append(orc, fmt.Sprintf("one lookup added %d cache entries", len(added)))
	}
	if len(added) == 1 {
		c.keyInfo[added[0]] = qf
		cob, chij, ok := acl.VerifCachePeek(c.rs, added[0])
		if ok && (obID(cob) != obID(ob) || !ipEq(chij, hij)) {
			orc = append(orc, fmt.Sprintf("cached decision (%s,%s) differs from the returned one (%s,%s)", obID(cob), ipHex(chij), obID(ob), ipHex(hij)))
		}
	}
	ev := "."
	if len(evicted) > 0 {
		es := make([]string, len(evicted))
		for i, k := range evicted {
			if s, ok := c.keyInfo[k]; ok {
				es[i] = s
			} else {
				es[i] = "?"
			}
			delete(c.keyInfo, k)
		}
		ev = strings.Join(es, ";")
	}
	hit := "0"
	if len(added) == 0 {
		hit = "1"
	}
	out := fmt.Sprintf("ob=%s hij=%s hit=%s len=%d eng=%s rw=%s", obID(ob), ipHex(hij), hit, len(after), eo.final, eo.rw)

	// handle vs Match (model-free)
	wantFinal := obID(ob)
	if ob == nil {
		wantFinal = obID(c.obMap["default"])
	}
	if eo.final != wantFinal {
		// first in the list: the other engine-level symptoms (extra cache entry, …) follow from it
		orc = append([]string{}, append([]string{fmt.Sprintf("engine: handle (ResolveInfo shape %s) served %s, but the rules asked with every address the resolution produced (%s, %s) decide %s", shape, eo.final, ipHex(v4), ipHex(v6), wantFinal)}, orc...)...)
	}
	if (hij != nil) != (eo.rw != "0") && ob != nil {
		orc = append(orc, "hijack address and request rewriting disagree")
	}
	if hij != nil && eo.rw != "0" {
		want := "1:" + ipHex(hij.To16()) + ":"
		if p4 := hij.To4(); p4 != nil {
			want += ipHex(p4) + ":-"
		} else {
			want += "-:" + ipHex(hij)
		}
		if eo.rw != want {
			orc = append(orc, "request rewritten to "+eo.rw+", hijack address wants "+want)
		}
	}

	// oracle 1: the same question on a freshly compiled rule set (no history)
	fresh, ferr := acl.Compile[outbounds.PluggableOutbound](c.trs, c.obMap, 1, nil)
	if ferr != nil {
		orc = append(orc, "fresh compile failed: "+ferr.Error())
	} else {
		fob, fhij := fresh.Match(host, proto, port)
		if obID(fob) != obID(ob) || !ipEq(fhij, hij) {
			orc = append(orc, fmt.Sprintf("cache visible: this history answers (%s,%s), a fresh rule set answers (%s,%s)", obID(ob), ipHex(hij), obID(fob), ipHex(fhij)))
		}
		// … and through the engine (the fresh set now holds exactly this one decision)
		fe := callHandle(outbounds.VerifNewACLEngine(fresh, c.obMap["default"]), name, v4, v6, shape, proto, port)
		if fe.final != eo.final || fe.rw != eo.rw {
			orc = append(orc, fmt.Sprintf("cache visible at the engine: this history serves (%s,%s), a fresh engine (%s,%s)", eo.final, eo.rw, fe.final, fe.rw))
		}
	}

	// oracle 2: independent reference evaluator (first match in file order)
	if c.refOK {
		rob, rhij := refEval(c.ref, uname, v4, v6, pn, int(port))
		wantOb := "-"
		if rob != "" {
			wantOb = obID(c.obMap[rob])
		}
		gotHij := "-"
		if hij != nil {
			gotHij = ipHex(hij.To16())
		}
		wantHij := "-"
		if rhij.IsValid() {
			a := rhij.As16()
			wantHij = ipHex(a[:])
		}
		if wantOb != obID(ob) || wantHij != gotHij {
			orc = append(orc, fmt.Sprintf("first-match: the reference evaluator decides (%s,%s), Match returned (%s,%s)", wantOb, wantHij, obID(ob), gotHij))
		}
	}

	mop := fmt.Sprintf("q %s %s %s %s %s %s %s %s", f[1], f[2], f[3], f[4], f[5], us, ev, shape)
	return vh.Result{Out: out, ModelOp: mop, NonTrivial: ob != nil, Oracle: orc}
}

// ---------------------------------------------------------------- reference evaluator
//
// Written from the ACL documentation, sharing no code with extras/outbounds/acl:
// a rule is outbound(address[, proto/port[, hijack]]); the first rule in file order whose
// address, protocol and port match decides.  It abstains (ok=false) on anything it does
// not understand; then only the other oracle and the model judge that rule file.
// Port specification 0 (alone or 0-0) is read as "any port" as in the repaired code
// (DESIGN section 7: single-port `tcp/0` is outside the property).

type refRule struct {
	ob      string
	kind    int // 0 all, 1 exact, 2 suffix, 3 wildcard, 4 ip, 5 cidr
	pat     string
	re      *regexp.Regexp
	addr    netip.Addr
	pfx     netip.Prefix
	proto   int
	anyPort bool
	lo, hi  int
	hij     netip.Addr
}

var (
	refWord   = regexp.MustCompile(`^[0-9A-Za-z_]+$`)
	refDigits = regexp.MustCompile(`^[0-9]{1,5}$`)
)

func refParse(text string) ([]refRule, bool) {
	var out []refRule
	for _, line := range strings.Split(text, "\n") {
		if i := strings.IndexByte(line, '#'); i >= 0 {
			line = line[:i]
		}
		line = strings.TrimSpace(line)
		if line == "" {
			continue
		}
		i := strings.IndexByte(line, '(')
		if i <= 0 || !strings.HasSuffix(line, ")") {
			return nil, false
		}
		name := strings.TrimSpace(line[:i])
		if !refWord.MatchString(name) {
			return nil, false
		}
		parts := strings.Split(line[i+1:len(line)-1], ",")
		if len(parts) < 1 || len(parts) > 3 {
			return nil, false
		}
		for j := range parts {
			parts[j] = strings.TrimSpace(parts[j])
		}
		r := refRule{ob: strings.ToLower(name)}
		a := strings.TrimRight(strings.ToLower(parts[0]), ".")
		switch {
		case a == "all" || a == "*":
			r.kind = 0
		case strings.HasPrefix(a, "geoip:") || strings.HasPrefix(a, "geosite:"):
			return nil, false
		case strings.HasPrefix(a, "suffix:"):
			r.kind, r.pat = 2, a[len("suffix:"):]
			if r.pat == "" {
				return nil, false
			}
		case strings.Contains(a, "/"):
			p, err := netip.ParsePrefix(a)
			if err != nil {
				return nil, false
			}
			if p.Addr().Is4In6() && p.Bits() >= 96 {
				p = netip.PrefixFrom(p.Addr().Unmap(), p.Bits()-96)
			}
			r.kind, r.pfx = 5, p.Masked()
		default:
			if ad, err := netip.ParseAddr(a); err == nil {
				if ad.Zone() != "" {
					return nil, false
				}
				r.kind, r.addr = 4, ad.Unmap()
			} else if strings.Contains(a, "*") {
				segs := strings.Split(a, "*")
				for k := range segs {
					segs[k] = regexp.QuoteMeta(segs[k])
				}
				re, err := regexp.Compile(`(?s)^` + strings.Join(segs, `.*`) + `$`)
				if err != nil {
					return nil, false
				}
				r.kind, r.re = 3, re
			} else {
				r.kind, r.pat = 1, a
			}
		}
		r.anyPort = true
		if len(parts) >= 2 {
			pp := strings.ToLower(parts[1])
			prs, pos, hasPort := strings.Cut(pp, "/")
			switch prs {
			case "", "*":
				if prs == "" && hasPort {
					return nil, false
				}
			case "tcp":
				r.proto = 1
			case "udp":
				r.proto = 2
			default:
				return nil, false
			}
			if hasPort && pos != "*" {
				los, his, isRange := strings.Cut(pos, "-")
				if !isRange {
					his = los
				}
				if !refDigits.MatchString(los) || !refDigits.MatchString(his) {
					return nil, false
				}
				r.lo, _ = strconv.Atoi(los)
				r.hi, _ = strconv.Atoi(his)
				if r.lo > r.hi || r.hi > 65535 {
					return nil, false
				}
				r.anyPort = r.lo == 0 && r.hi == 0
			}
		}
		if len(parts) == 3 && parts[2] != "" {
			h, err := netip.ParseAddr(parts[2])
			if err != nil || h.Zone() != "" {
				return nil, false
			}
			r.hij = h
		}
		out = append(out, r)
	}
	return out, true
}

func refIPs(v4, v6 net.IP) []netip.Addr {
	var out []netip.Addr
	for _, b := range []net.IP{v4, v6} {
		if a, ok := netip.AddrFromSlice(b); ok {
			out = append(out, a.Unmap())
		}
	}
	return out
}

func refEval(rules []refRule, uname string, v4, v6 net.IP, proto, port int) (string, netip.Addr) {
	ips := refIPs(v4, v6)
	for _, r := range rules {
		if r.proto != 0 && r.proto != proto {
			continue
		}
		if !r.anyPort && (port < r.lo || port > r.hi) {
			continue
		}
		m := false
		switch r.kind {
		case 0:
			m = true
		case 1:
			m = uname == r.pat
		case 2:
			m = uname == r.pat || strings.HasSuffix(uname, "."+r.pat)
		case 3:
			m = r.re.MatchString(uname)
		case 4:
			for _, a := range ips {
				m = m || a == r.addr
			}
		case 5:
			for _, a := range ips {
				m = m || r.pfx.Contains(a)
			}
		}
		if m {
			return r.ob, r.hij
		}
	}
	return "", netip.Addr{}
}

// ---------------------------------------------------------------- generator

type aclGen struct {
	r      *vh.RNG
	file   int
	dom    string // theme domain of the rule file
	tld    string
	b4     [4]byte
	b6     [16]byte
	port   int
	users  []string
	names  []string   // query names that interact with the rules
	ips4   [][]byte   // query IPv4 candidates (4 bytes)
	ips6   [][]byte   // query IPv6 candidates (16 bytes)
	ports  []int      // query ports at the rules' boundaries
}

var aclLabels = []string{"example", "www", "mail", "a", "b", "x", "cdn", "xn--bcher-kva", "co", "test"}
var aclTLDs = []string{"com", "net", "org", "uk", "io"}

func (g *aclGen) pick(xs []string) string { return xs[g.r.Intn(len(xs))] }

func (g *aclGen) caseMix(s string) string {
	switch g.r.Intn(6) {
	case 0:
		return strings.ToUpper(s)
	case 1:
		b := []byte(s)
		for i := range b {
			if g.r.Bool() && b[i] >= 'a' && b[i] <= 'z' {
				b[i] -= 32
			}
		}
		return string(b)
	}
	return s
}

func v6Text(r *vh.RNG, b [16]byte) string {
	a := netip.AddrFrom16(b)
	switch r.Intn(4) {
	case 0: // fully expanded
		p := make([]string, 8)
		for i := 0; i < 8; i++ {
			p[i] = fmt.Sprintf("%x", int(b[2*i])<<8|int(b[2*i+1]))
		}
		return strings.Join(p, ":")
	case 1:
		return strings.ToUpper(a.String())
	}
	return a.String()
}

func v4Text(b []byte) string { return fmt.Sprintf("%d.%d.%d.%d", b[0], b[1], b[2], b[3]) }

func flipBit(b []byte, bit int) []byte {
	c := append([]byte(nil), b...)
	if bit >= 0 && bit < 8*len(c) {
		c[bit/8] ^= 0x80 >> (bit % 8)
	}
	return c
}

func hostBitsSet(b []byte, prefix int) []byte {
	c := append([]byte(nil), b...)
	for i := prefix; i < 8*len(c); i++ {
		c[i/8] |= 0x80 >> (i % 8)
	}
	return c
}

func (g *aclGen) addIPsAround(base []byte, prefix int) {
	if prefix < 0 {
		prefix = 0
	}
	cands := [][]byte{base, flipBit(base, prefix-1), flipBit(base, prefix), hostBitsSet(base, prefix), flipBit(base, 8*len(base)-1)}
	for _, c := range cands {
		if len(c) == 4 {
			g.ips4 = append(g.ips4, c)
		} else {
			g.ips6 = append(g.ips6, c)
		}
	}
}

// address field of a rule; also records names / IPs that interact with it
func (g *aclGen) address() (string, string) {
	r := g.r
	d := g.dom
	k := r.Intn(100)
	switch {
	case k < 8:
		return g.pick([]string{"all", "*", "ALL", "All.", "*."}), "addr-all"
	case k < 22:
		n := g.pick([]string{d, "www." + d, "a.b." + d, g.tld, "x" + d, d + ".", "xn--bcher-kva." + g.tld, "01.2.3.4", "1.2.3", "1.2.3.4.5", "1.2.3.256", "::g", "1::2::3", "fe80::1%eth0", "12345::", ":1", "1:2:3:4:5:6:7", "1:2:3:4:5:6:7:8:9", "::1.2.3", "1.2.3.4:80"})
		g.names = append(g.names, n, "www."+n, "x"+n)
		return g.caseMix(n), "addr-exact"
	case k < 38:
		n := g.pick([]string{d, g.tld, "www." + d, "b." + d, d + "."})
		g.names = append(g.names, n, "x."+n, "x"+n, n+"x", "a.b."+n, "."+n)
		return g.caseMix("suffix:" + n), "addr-suffix"
	case k < 58:
		w := g.pick([]string{"*." + d, "*" + d, "www.*", "*.*", "**", "w*w." + d, d[:3] + "*", "*a*", "**." + g.tld, "*." + g.tld, "www.*." + g.tld, "*.*.*", "a*b*c", "*x", "1.2.3.*", "*.1"})
		for _, fill := range []string{"", "a", "a.b", "www"} {
			g.names = append(g.names, strings.ReplaceAll(w, "*", fill))
		}
		return g.caseMix(w), "addr-wildcard"
	case k < 74:
		switch r.Intn(5) {
		case 0, 1:
			g.addIPsAround(g.b4[:], 32)
			return v4Text(g.b4[:]), "addr-ip4"
		case 2:
			g.addIPsAround(g.b4[:], 32)
			return g.caseMix("::ffff:" + v4Text(g.b4[:])), "addr-ip4mapped"
		default:
			g.addIPsAround(g.b6[:], 128)
			return v6Text(r, g.b6), "addr-ip6"
		}
	case k < 98:
		switch r.Intn(6) {
		case 0, 1, 2:
			p := (g.file + r.Intn(3)) % 33 // every IPv4 prefix length comes round
			if r.Chance(1, 4) {
				p = r.Intn(33)
			}
			base := g.b4[:]
			if r.Bool() {
				base = flipBit(base, 31) // host bits set in the rule text
			}
			g.addIPsAround(g.b4[:], p)
			zeros := ""
			if r.Chance(1, 10) {
				zeros = "0"
			}
			return fmt.Sprintf("%s/%s%d", v4Text(base), zeros, p), fmt.Sprintf("addr-cidr4/%d", p)
		case 3:
			p := r.Pick([]int{0, 1, 7, 8, 9, 32, 48, 63, 64, 65, 95, 96, 97, 120, 127, 128})
			if r.Bool() {
				p = r.Intn(129)
			}
			g.addIPsAround(g.b6[:], p)
			return fmt.Sprintf("%s/%d", v6Text(r, g.b6), p), "addr-cidr6"
		case 4: // v4-mapped v6 network
			p := r.Pick([]int{0, 80, 90, 95, 96, 97, 104, 120, 127, 128})
			g.addIPsAround(g.b4[:], p-96)
			return fmt.Sprintf("::ffff:%s/%d", v4Text(g.b4[:]), p), "addr-cidr4mapped"
		default:
			g.addIPsAround(g.b4[:], 0)
			g.addIPsAround(g.b6[:], 0)
			return g.pick([]string{"0.0.0.0/0", "::/0", "::ffff:0:0/96", "0.0.0.0/32", "::/128"}), "addr-cidr-any"
		}
	default:
		return g.pick([]string{"suffix:", "suffix:.", "1.2.3.4/33", "1.2.3/24", "/", "*/8", d + "/24", "::/129", "1.2.3.4/", "1.2.3.4/-1", "1.2.3.4/+8", "fe80::1%eth0/64", " "}), "addr-bad"
	}
}

func (g *aclGen) protoPort() string {
	r := g.r
	P := g.port
	if r.Chance(2, 5) {
		return ""
	}
	pr := g.pick([]string{"tcp", "udp", "*", "TCP", "Udp", "tcp", "udp"})
	k := r.Intn(100)
	note := func(ps ...int) {
		for _, p := range ps {
			g.ports = append(g.ports, p-1, p, p+1)
		}
	}
	switch {
	case k < 12:
		return g.pick([]string{"*", "*/*", "tcp", "udp", "TCP", pr + "/*"})
	case k < 30:
		note(P)
		return fmt.Sprintf("%s/%d", pr, P)
	case k < 45:
		note(P, P+10)
		return fmt.Sprintf("%s/%d-%d", pr, P, P+10)
	case k < 55: // adjacent to the previous range
		note(P+11, P+20)
		return fmt.Sprintf("%s/%d-%d", pr, P+11, P+20)
	case k < 72: // ranges starting at 0
		hi := r.Pick([]int{0, 1, 100, 1023, P, 65535})
		note(hi)
		g.ports = append(g.ports, 200, 101, 1024)
		return fmt.Sprintf("%s/0-%d", pr, hi)
	case k < 78:
		return g.pick([]string{pr + "/0", pr + "/65535", pr + "/1-65535", pr + "/65535-65535", pr + "/0080", pr + "/1-1"})
	case k < 90:
		lo := r.Intn(65536)
		hi := lo + r.Intn(65536-lo)
		note(lo, hi)
		return fmt.Sprintf("%s/%d-%d", pr, lo, hi)
	case k < 96: // odd but accepted or rejected spellings
		return g.pick([]string{pr + "/ 80-90", pr + "/ 80-90", pr + "/*", pr + "/80 -90", pr + "/ 80", pr + " /80", pr + "/80- 90", "*/ *"})
	default: // invalid
		return g.pick([]string{"icmp", pr + "/200-100", pr + "/65536", pr + "/-1", pr + "/+80", pr + "/8_0", pr + "/", "/80", pr + "/80/90", pr + "/80-", pr + "/-", pr + "/0-65536", "tcpx", pr + "/80-90-100", pr + "/0x50"})
	}
}

func (g *aclGen) ruleLine(obs []string) (string, []string) {
	r := g.r
	var tags []string
	ob := g.caseMix(g.pick(obs))
	if r.Chance(1, 150) {
		ob = "nosuch"
		tags = append(tags, "bad-outbound")
	}
	addr, t := g.address()
	tags = append(tags, t)
	pp := g.protoPort()
	hij := ""
	if r.Chance(1, 6) {
		hij = g.pick([]string{"1.1.1.1", "2001:db8::53", "::ffff:8.8.8.8", "8.8.4.4", "::1", "2001:DB8::1"})
		if r.Chance(1, 25) {
			hij = g.pick([]string{"abc", "1.1.1.1.", "1.1.1", "::ffff:1.2.3", "fe80::1%lo"})
			tags = append(tags, "bad-hijack")
		}
	}
	sp := func() string {
		if r.Chance(1, 30) {
			return g.pick([]string{"\r", "\f", "\v", " \v "})
		}
		return g.pick([]string{"", "", " ", "  ", "\t"})
	}
	// between the name and "(" the regexp allows \s, which has no vertical tab: that line is a syntax error
	gap := g.pick([]string{"", "", " ", "\t "})
	if r.Chance(1, 40) {
		gap = g.pick([]string{"\r", "\f", "\r\t", "\v", " \v"})
	}
	line := ob + gap + "(" + sp() + addr + sp()
	if pp != "" || hij != "" {
		if pp == "" {
			pp = g.pick([]string{" ", "*", "*/*"})
		}
		line += "," + sp() + pp + sp()
	}
	if hij != "" {
		line += "," + sp() + hij + sp()
	}
	line += ")"
	if r.Chance(1, 8) {
		line += g.pick([]string{" # comment", "#x", "   # a(b)"})
	}
	if r.Chance(1, 10) {
		line = "  " + line + " "
	}
	return line, tags
}

func (g *aclGen) ruleFile() (string, string, []string) {
	r := g.r
	g.file++
	g.dom = g.pick(aclLabels) + "." + g.pick(aclTLDs)
	if r.Chance(1, 4) {
		g.dom = g.pick(aclLabels) + "." + g.dom
	}
	g.tld = g.dom[strings.LastIndexByte(g.dom, '.')+1:]
	copy(g.b4[:], r.Bytes(4))
	if r.Chance(1, 4) {
		g.b4 = [4]byte{10, 0, byte(r.Intn(2)), byte(r.Intn(3))}
	}
	copy(g.b6[:], r.Bytes(16))
	if r.Chance(1, 2) {
		g.b6 = [16]byte{0x20, 0x01, 0x0d, 0xb8}
		g.b6[15] = byte(r.Intn(3))
		g.b6[7] = byte(r.Intn(2))
	}
	g.port = r.Pick([]int{1, 53, 80, 443, 1000, 8080, 65500})
	g.names = []string{g.dom, "", "localhost", "other.org"}
	g.ips4, g.ips6, g.ports = nil, nil, []int{0, 1, 65535, 200}
	users := []string{}
	for i, n := 0, r.Intn(4); i < n; i++ {
		users = append(users, g.pick([]string{"proxy", "ob1", "Out_2", "x", "default", "direct", "reject", "PROXY"}))
	}
	g.users = users
	obs := []string{"direct", "reject", "default"}
	obs = append(obs, users...)
	var lines []string
	var tags []string
	n := r.Range(1, 10)
	if r.Chance(1, 40) {
		n = 0
	}
	for i := 0; i < n; i++ {
		if r.Chance(1, 10) {
			lines = append(lines, g.pick([]string{"", "   ", "# comment only", "\t# x"}))
		}
		l, t := g.ruleLine(obs)
		lines = append(lines, l)
		tags = append(tags, t...)
	}
	// D8-shaped pair: a range starting at 0 followed by a catch-all
	if r.Chance(1, 6) {
		lines = append(lines, fmt.Sprintf("%s(all, %s/0-%d)", g.pick(obs), g.pick([]string{"tcp", "udp", "*"}), r.Pick([]int{100, 1023, 1})), g.pick(obs)+"(all)")
		tags = append(tags, "range-from-0")
	}
	if r.Chance(1, 25) { // one syntactically invalid line
		bad := g.pick([]string{"a(all", "a all)", "(all)", "a(all,tcp,1.1.1.1,x)", "a(,tcp)", "a(all,,1.1.1.1)", "a b(all)", "a(all) x", "a-b(all)", "a()", "a(all,)", "a(all)b"})
		pos := r.Intn(len(lines) + 1)
		lines = append(lines[:pos], append([]string{bad}, lines[pos:]...)...)
		tags = append(tags, "bad-syntax")
	}
	// these parse: the regexp is looser than it looks
	if r.Chance(1, 20) {
		lines = append(lines, g.pick([]string{"direct(a(b)", "direct((all))", "direct( )", "direct(all))", "direct(all)(x)", "reject(a b)"}))
		tags = append(tags, "odd-syntax")
	}
	ustr := "-"
	if len(users) > 0 {
		ustr = strings.Join(users, ",")
	}
	if r.Chance(1, 8) { // CRLF file
		tags = append(tags, "crlf")
		return strings.Join(lines, "\r\n"), ustr, tags
	}
	return strings.Join(lines, "\n"), ustr, tags
}

func (g *aclGen) query() string {
	r := g.r
	name := g.pick(g.names)
	switch r.Intn(8) {
	case 0:
		name = strings.ToUpper(name)
	case 1:
		name += "."
	case 2:
		name = g.caseMix(name) + g.pick([]string{"", ".", ".."})
	case 3:
		name = g.pick(aclLabels) + "." + name
	}
	var v4, v6 []byte
	if len(g.ips4) > 0 && r.Chance(3, 5) {
		v4 = g.ips4[r.Intn(len(g.ips4))]
		switch r.Intn(8) {
		case 0: // the 16-byte form of the same address
			v4 = append(append([]byte(nil), 0, 0, 0, 0, 0, 0, 0, 0, 0, 0, 0xff, 0xff), v4...)
		case 1:
			if r.Chance(1, 4) {
				v4 = append([]byte(nil), v4[:3]...) // odd length
			}
		}
	} else if r.Chance(1, 6) {
		v4 = r.Bytes(4)
	}
	if len(g.ips6) > 0 && r.Chance(2, 5) {
		v6 = g.ips6[r.Intn(len(g.ips6))]
	} else if r.Chance(1, 10) && len(g.ips4) > 0 { // a v4-mapped address in the IPv6 slot
		v6 = append(append([]byte(nil), 0, 0, 0, 0, 0, 0, 0, 0, 0, 0, 0xff, 0xff), g.ips4[r.Intn(len(g.ips4))]...)
	} else if r.Chance(1, 10) {
		v6 = r.Bytes(16)
	}
	proto := 1 + r.Intn(2)
	if r.Chance(1, 40) {
		proto = 0
	}
	port := g.ports[r.Intn(len(g.ports))]
	if r.Chance(1, 5) {
		port = r.Intn(65536)
	}
	if port < 0 {
		port = 0
	}
	if port > 65535 {
		port = 65535
	}
	// ResolveInfo in every shape: absent; present (v4 only / v6 only / both / neither); and each
	// of the present ones with Err set (A ok + AAAA failed, the reverse, total failure)
	shape := "1"
	if v4 == nil && v6 == nil {
		shape = g.pick([]string{"0", "0", "1", "2"})
	} else if r.Chance(2, 5) {
		shape = "2"
	}
	return fmt.Sprintf("q %s %s %s %d %d %s", vh.Hex([]byte(name)), vh.Hex(v4), vh.Hex(v6), proto, port, shape)
}

func (c *aclComp) Gen(r *vh.RNG, n int, emit func(op string, tags ...string)) {
	g := &aclGen{r: r}
	cacheSize := outbounds.VerifACLCacheSize()
	emitted := 0
	for emitted < n {
		text, users, tags := g.ruleFile()
		big := r.Chance(1, 40)
		cache := r.Pick([]int{1, 1, 2, 3, 4, 8, 16, 64})
		if big || r.Chance(1, 10) {
			cache = 0 // the engine's own constructor and cache size
		}
		tags = append(tags, fmt.Sprintf("cache=%d", cache))
		emit(fmt.Sprintf("rules %d %s %s", cache, users, vh.Hex([]byte(text))), tags...)
		emitted++
		if !c.loaded { // the file was refused: nothing to ask (two queries show that)
			emit(g.query(), "q-no-rules")
			emit(g.query(), "q-no-rules")
			emitted += 2
			continue
		}
		if big {
			// more distinct keys than the cache holds, every one asked again after it was evicted
			nq := cacheSize + r.Range(50, 200)
			pool := make([]string, 0, nq)
			seen := map[string]bool{}
			for len(pool) < nq {
				q := g.query()
				if r.Chance(3, 4) { // spread over ports: distinct keys, same rule interactions
					f := strings.Fields(q)
					f[5] = strconv.Itoa(r.Intn(65536))
					q = strings.Join(f, " ")
				}
				if !seen[q] {
					seen[q] = true
					pool = append(pool, q)
				}
			}
			for _, q := range pool {
				emit(q, "q-big-first", "ri="+q[len(q)-1:])
				emitted++
			}
			for i := 0; i < nq+200; i++ {
				var q string
				if r.Chance(1, 3) {
					q = pool[r.Intn(64)] // hot set
				} else {
					q = pool[r.Intn(len(pool))]
				}
				emit(q, "q-big-again", "ri="+q[len(q)-1:])
				emitted++
			}
			continue
		}
		np := r.Range(10, 60)
		pool := make([]string, np)
		for i := range pool {
			pool[i] = g.query()
		}
		nq := r.Range(60, 240)
		recent := []string{}
		for i := 0; i < nq; i++ {
			var q string
			if len(recent) > 0 && r.Chance(1, 2) {
				q = recent[r.Intn(len(recent))]
			} else {
				q = pool[r.Intn(len(pool))]
			}
			recent = append(recent, q)
			if len(recent) > 6 {
				recent = recent[1:]
			}
			emit(q, "q", "ri="+q[len(q)-1:])
			emitted++
		}
	}
}
