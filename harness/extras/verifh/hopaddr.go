//go:build verif

package main

import (
	"errors"
	"fmt"
	"net"
	"net/netip"
	"regexp"
	"strings"

	vh "github.com/apernet/hysteria/core/v2/verifhlib"
	"github.com/apernet/hysteria/extras/v2/transport/udphop"
)

// C19 (address half): udphop.ResolveUDPHopAddr, UDPHopAddr.addrs / String / Network.
//
//	resolve <hex of the address string>
//
// Outcome line (compared with `hydrv hopaddr`):
//
//	err split:<kind> | err resolve | err port
//	ok ip=<hex of IP bytes> n=<len(Ports)> h=<hash of Ports> ah=<hash of addrs()> first= last= str=<hex of String()> net=udphop
//
// net.ResolveIPAddr and net.IP.String are parameters of the model: the harness calls them on
// the host it obtained with its OWN splitter and passes the results on the model-op line.
// ResolveUDPHopAddr takes no resolver argument, so host names would go to the system
// resolver: the generator uses literal IPs (and a few names that fail fast) only.
//
// Model-free oracle: acceptance == (the string matches `host:port` / `[host]:port` as two
// regular expressions describe it) && host resolves && the port expression is well formed per
// the independent bitmap parser; for a literal host the IP equals netip.ParseAddr's; Ports is
// the increasing enumeration of the bitmap; addrs() has one entry per port, in order, all
// with that one IP; PortStr is the text after the last colon; String() splits back.

func init() { vh.Register("hopaddr", func() vh.Component { memGuard(6 << 30); return &haComp{} }) }

type haComp struct{}

var (
	haPlain   = regexp.MustCompile(`^([^:\[\]]*):([^:\[\]]*)$`)
	haBracket = regexp.MustCompile(`^\[([^\[\]]*)\]:([^:\[\]]*)$`)
)

// haSplit: independent description of what net.SplitHostPort accepts.
func haSplit(s string) (host, port string, ok bool) {
	if m := haBracket.FindStringSubmatch(s); m != nil {
		return m[1], m[2], true
	}
	if m := haPlain.FindStringSubmatch(s); m != nil {
		return m[1], m[2], true
	}
	return "", "", false
}

var haSplitKinds = map[string]string{
	"missing port in address":   "missingport",
	"too many colons in address": "toomanycolons",
	"missing ']' in address":     "missingbracket",
	"unexpected '[' in address":  "unexpectedopen",
	"unexpected ']' in address":  "unexpectedclose",
}

func haHash(ports []uint16) uint64 {
	var h uint64
	for i, p := range ports {
		h = (h*31 + uint64(p) + uint64(i)) % 1000000007
	}
	return h
}

func haIPSum(ip net.IP) uint64 {
	var a uint64
	for _, b := range ip {
		a = a*3 + uint64(b)
	}
	return a
}

func (c *haComp) Run(op string) vh.Result {
	f := strings.Fields(op)
	if len(f) != 2 || f[0] != "resolve" {
		return vh.Result{Out: "bad-op"}
	}
	s := string(vh.UnHex(f[1]))
	var fails []string
	// what the environment answers (parameters of the model)
	host, port, splitOK := haSplit(s)
	ipres, iptext := "err", "-"
	var envIP net.IP
	resolveOK := false
	if splitOK {
		if r, err := net.ResolveIPAddr("ip", host); err == nil {
			resolveOK = true
			envIP = r.IP
			ipres, iptext = vh.Hex(r.IP), vh.Hex([]byte(r.IP.String()))
		}
	}
	mop := fmt.Sprintf("resolve %s %s %s", f[1], ipres, iptext)
	bm, portOK := puRefParse(port)

	a, err := udphop.ResolveUDPHopAddr(s)
	if err != nil {
		out := "err resolve"
		var ae *net.AddrError
		var ipe udphop.InvalidPortError
		switch {
		case errors.As(err, &ipe):
			out = "err port"
		case errors.As(err, &ae) && haSplitKinds[ae.Err] != "":
			out = "err split:" + haSplitKinds[ae.Err]
		}
		if splitOK && resolveOK && portOK {
			fails = append(fails, fmt.Sprintf("ResolveUDPHopAddr(%q) failed (%v) but the address splits, the host resolves and the port expression is well formed", s, err))
		}
		if splitOK && strings.HasPrefix(out, "err split") {
			fails = append(fails, fmt.Sprintf("ResolveUDPHopAddr(%q) reports a split error on a well-formed host:port", s))
		}
		return vh.Result{Out: out, ModelOp: mop, Oracle: fails, NonTrivial: splitOK}
	}
	if !(splitOK && resolveOK && portOK) {
		fails = append(fails, fmt.Sprintf("ResolveUDPHopAddr(%q) succeeded but split=%v resolve=%v port-expression=%v", s, splitOK, resolveOK, portOK))
	}
	if splitOK {
		if lit, e := netip.ParseAddr(host); e == nil {
			if got, ok := netip.AddrFromSlice(a.IP); !ok || got.Unmap() != lit.WithZone("").Unmap() {
				fails = append(fails, fmt.Sprintf("resolved IP %v is not the literal host %q", a.IP, host))
			}
		}
		if resolveOK && !a.IP.Equal(envIP) && !(len(a.IP) == 0 && len(envIP) == 0) {
			fails = append(fails, fmt.Sprintf("resolved IP %v differs from net.ResolveIPAddr(%q) = %v", a.IP, host, envIP))
		}
		if a.PortStr != port {
			fails = append(fails, fmt.Sprintf("PortStr %q is not the text after the last colon %q", a.PortStr, port))
		}
	}
	if portOK {
		j, okPorts := 0, true
		for p := 0; p < 65536 && okPorts; p++ {
			if bm[p] {
				if j >= len(a.Ports) || int(a.Ports[j]) != p {
					okPorts = false
				}
				j++
			}
		}
		if !okPorts || j != len(a.Ports) {
			fails = append(fails, fmt.Sprintf("Ports (len %d) is not the increasing enumeration of the %d listed ports", len(a.Ports), j))
		}
	}
	as, aerr := udphop.VerifAddrs(a)
	if aerr != nil {
		fails = append(fails, "addrs() failed: "+aerr.Error())
	}
	if len(as) != len(a.Ports) {
		fails = append(fails, fmt.Sprintf("addrs() has %d entries for %d ports", len(as), len(a.Ports)))
	}
	var ah uint64
	first, last := 0, 0
	for i, x := range as {
		ua, ok := x.(*net.UDPAddr)
		if !ok {
			fails = append(fails, "addrs() entry is not a *net.UDPAddr")
			break
		}
		if i < len(a.Ports) && ua.Port != int(a.Ports[i]) {
			fails = append(fails, fmt.Sprintf("addrs()[%d] has port %d, Ports[%d] is %d", i, ua.Port, i, a.Ports[i]))
		}
		if !ua.IP.Equal(a.IP) && !(len(ua.IP) == 0 && len(a.IP) == 0) {
			fails = append(fails, fmt.Sprintf("addrs()[%d] has IP %v, the address has %v", i, ua.IP, a.IP))
		}
		if ua.Zone != "" {
			fails = append(fails, "addrs() entry carries a zone")
		}
		ah = (ah*31 + uint64(ua.Port) + uint64(i) + haIPSum(ua.IP)*7) % 1000000007
		if i == 0 {
			first = ua.Port
		}
		last = ua.Port
		if len(fails) > 6 {
			break
		}
	}
	str := a.String()
	if h2, p2, e := net.SplitHostPort(str); e != nil || h2 != a.IP.String() || p2 != a.PortStr {
		fails = append(fails, fmt.Sprintf("String() = %q does not split back into (%q, %q)", str, a.IP.String(), a.PortStr))
	}
	out := fmt.Sprintf("ok ip=%s n=%d h=%d ah=%d first=%d last=%d str=%s net=%s", vh.Hex(a.IP), len(a.Ports), haHash(a.Ports), ah, first, last,
		vh.Hex([]byte(str)), a.Network())
	return vh.Result{Out: out, ModelOp: mop, Oracle: fails, NonTrivial: true}
}

func (c *haComp) Gen(r *vh.RNG, n int, emit func(op string, tags ...string)) {
	hosts := []string{"127.0.0.1", "10.1.2.3", "192.0.2.7", "255.255.255.255", "0.0.0.0", "[::1]", "[2001:db8::1]", "[::ffff:1.2.3.4]", "[fe80::1%eth0]",
		"[::]", "", "[]", "[127.0.0.1]", "1.2.3.4"}
	badHosts := []string{"::1", "2001:db8::1", "[::1", "::1]", "[[::1]]", "[::1]]", "a[b", "a]b", "[a]b", "[::1]x", "1.2.3.256", "x.invalid", "[1.2.3.4:5]", " 127.0.0.1", "127.0.0.1 "}
	exprs := []string{"443", "80,443-445", "10000-10002", "20000-20009,20010-20019", "5,4,3", "65535", "0", "65534-65535,0-1", "all", "*", "00080,81", "40000-39990", "1000-1001,1003"}
	badExprs := []string{"", "80,", ",80", "80,,81", " 80", "80 ", "80:90", "1-2-3", "65536", "80-", "x", "8 0", "80,443-445,", "[80]", "80]", "-"}
	fixed := []string{"", ":", "[]:", "1.2.3.4", "[::1]", "[::1]:", "1.2.3.4:", ":80", "[::1]:80", "::1:80", "[::1]80", "[::1]:80:90", "a:b:c", "[a]b:c", "a[b:c", "a]b:c", "[a:]:c]",
		"[[a]:1", "[a]:[1", "1.2.3.4:80,443-445", "1.2.3.4:80,", "1.2.3.4: 80", "1.2.3.4:80 ", "1.2.3.4 :80", "[fe80::1%eth0]:1-3", "[::ffff:1.2.3.4]:65535", "localhost:80"}
	for _, s := range fixed {
		emit("resolve "+vh.Hex([]byte(s)), "fixed")
	}
	expr := func() string {
		if r.Chance(1, 3) {
			k := r.Range(1, 5)
			its := make([]string, k)
			for i := range its {
				a := []int{0, 1, 79, 80, 443, 10000, 10001, 10002, 65534, 65535}[r.Intn(10)] + 0
				if r.Bool() {
					its[i] = fmt.Sprint(a)
				} else {
					b := a + r.Range(-3, 3)
					if b < 0 {
						b = 0
					}
					if b > 65535 {
						b = 65535
					}
					its[i] = fmt.Sprintf("%d-%d", a, b)
				}
			}
			return strings.Join(its, ",")
		}
		return exprs[r.Intn(len(exprs))]
	}
	for i := 0; i < n; i++ {
		var s, tag string
		switch k := r.Intn(20); {
		case k < 9:
			s, tag = hosts[r.Intn(len(hosts))]+":"+expr(), "valid"
		case k < 12:
			s, tag = hosts[r.Intn(len(hosts))]+":"+badExprs[r.Intn(len(badExprs))], "badexpr"
		case k < 14:
			s, tag = badHosts[r.Intn(len(badHosts))]+":"+expr(), "badhost"
		case k < 15:
			s, tag = hosts[r.Intn(len(hosts))], "noport"
		default:
			s, tag = hosts[r.Intn(len(hosts))]+":"+expr(), "mutated"
			b := []byte(s)
			switch r.Intn(4) {
			case 0:
				j := r.Intn(len(b) + 1)
				s = string(b[:j]) + string(":[], -%"[r.Intn(7)]) + string(b[j:])
			case 1:
				if len(b) > 0 {
					j := r.Intn(len(b))
					s = string(b[:j]) + string(b[j+1:])
				}
			case 2:
				if len(b) > 0 {
					b[r.Intn(len(b))] = ":[],-0 a"[r.Intn(8)]
					s = string(b)
				}
			default:
				s = s + string(":[],"[r.Intn(4)])
			}
		}
		emit("resolve "+vh.Hex([]byte(s)), tag)
	}
}
