//go:build verif

package outbounds

import "github.com/apernet/hysteria/extras/v2/outbounds/acl"

// C09 shim: access to the unexported ACL engine.

func VerifACLCacheSize() int { return aclCacheSize }

// VerifNewACLEngine wraps a compiled rule set exactly as NewACLEngineFromString does.
func VerifNewACLEngine(rs acl.CompiledRuleSet[PluggableOutbound], def PluggableOutbound) PluggableOutbound {
	return &aclEngine{rs, def}
}

func VerifACLParts(ob PluggableOutbound) (acl.CompiledRuleSet[PluggableOutbound], PluggableOutbound) {
	e := ob.(*aclEngine)
	return e.RuleSet, e.Default
}

func VerifACLHandle(ob PluggableOutbound, addr *AddrEx, proto acl.Protocol) PluggableOutbound {
	return ob.(*aclEngine).handle(addr, proto)
}

func VerifOutboundsToMap(obs []OutboundEntry) map[string]PluggableOutbound {
	return outboundsToMap(obs)
}

// VerifBuiltinName names the built-in outbounds by their type.
func VerifBuiltinName(ob PluggableOutbound) string {
	switch ob.(type) {
	case *directOutbound:
		return "direct"
	case *aclRejectOutbound:
		return "reject"
	case nil:
		return "nil"
	}
	return "other"
}
