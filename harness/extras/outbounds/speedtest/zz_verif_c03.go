//go:build verif

package speedtest

import (
	"io"
	"net"
	"time"
)

// In-package shim for the C03 correspondence harness (compiled in with -overlay).

func VerifServer(conn net.Conn) error { return server(conn) }

func VerifReadDownloadResponse(r io.Reader) (bool, string, error) { return readDownloadResponse(r) }
func VerifReadUploadResponse(r io.Reader) (bool, string, error)   { return readUploadResponse(r) }
func VerifReadUploadSummary(r io.Reader) (time.Duration, uint32, error) {
	return readUploadSummary(r)
}
func VerifReadDownloadRequest(r io.Reader) (uint32, error) { return readDownloadRequest(r) }

func VerifConsts() map[string]uint64 {
	return map[string]uint64{"speedtestChunkSize": chunkSize, "speedtestTypeDownload": typeDownload, "speedtestTypeUpload": typeUpload}
}
