//go:build verif

package acl

import (
	"encoding/hex"
	"fmt"
	"net"
)

// C09 shim: read-only access to the compiled rules and to the decision cache of a
// CompiledRuleSet (nothing here changes what Match does).

// VerifKey is the cache key type of compiledRuleSetImpl.
type VerifKey = matchResultCacheKey

func verifImpl[O Outbound](rs CompiledRuleSet[O]) *compiledRuleSetImpl[O] {
	return rs.(*compiledRuleSetImpl[O])
}

// VerifCacheKeys lists the keys currently in the decision cache (oldest first).
func VerifCacheKeys[O Outbound](rs CompiledRuleSet[O]) []VerifKey {
	return verifImpl(rs).Cache.Keys()
}

// VerifCachePeek reads a cached decision without touching recency.
func VerifCachePeek[O Outbound](rs CompiledRuleSet[O], k VerifKey) (O, net.IP, bool) {
	r, ok := verifImpl(rs).Cache.Peek(k)
	return r.Outbound, r.HijackAddress, ok
}

func verifHex(b []byte) string {
	if len(b) == 0 {
		return "-"
	}
	return hex.EncodeToString(b)
}

// VerifDumpRules renders the compiled rules canonically:
// outbound|matcher|proto|start|end|hijack
func VerifDumpRules[O Outbound](rs CompiledRuleSet[O], name func(O) string) []string {
	impl := verifImpl(rs)
	out := make([]string, 0, len(impl.Rules))
	for _, r := range impl.Rules {
		var m string
		switch hm := r.HostMatcher.(type) {
		case *allMatcher:
			m = "all"
		case *domainMatcher:
			switch hm.Mode {
			case domainMatchExact:
				m = "exact:" + verifHex([]byte(hm.Pattern))
			case domainMatchWildcard:
				m = "wild:" + verifHex([]byte(hm.Pattern))
			case domainMatchSuffix:
				m = "suffix:" + verifHex([]byte(hm.Pattern))
			default:
				m = fmt.Sprintf("domain-mode-%d", hm.Mode)
			}
		case *ipMatcher:
			m = "ip:" + verifHex(hm.IP)
		case *cidrMatcher:
			m = "cidr:" + verifHex(hm.IPNet.IP) + "/" + verifHex(hm.IPNet.Mask)
		default:
			m = fmt.Sprintf("other:%T", r.HostMatcher)
		}
		out = append(out, fmt.Sprintf("%s|%s|%d|%d|%d|%s", name(r.Outbound), m, int(r.Protocol), r.StartPort, r.EndPort, verifHex(r.HijackAddress)))
	}
	return out
}
