//go:build verif

package obfs

// C14 correspondence harness (in-package, virtual time through testing/synctest).
//
// One receiver *geckoPacketConn over a fake inner conn (the Salamander layer is the
// identity here; the op `e2e` exercises the real stack end to end), any number of
// sender conns, all inside one synctest bubble so that time.Now() and the gcLoop
// ticker are driven by the harness.  After every op the harness reads
// len(reassembly), perSource and the entries of the touched source in-package and
// prints them for comparison with `hydrv gecko`; what the code chose at random
// (chunk count, message id, pad lengths/bytes, eviction victim) is recovered from its
// output/state and handed to the model on the model-op line.
//
// Model-free oracles (they never consult the model):
//   * census: perSource[s] == |{k in reassembly : k.addr == s}| for every s, both ways
//   * caps: len(reassembly) <= geckoMaxReassembly, perSource[s] <= geckoMaxPerSource
//   * ttl: no entry survives its deadline by a tick period (TTL/2) or more
//   * integrity: a delivered packet is the concatenation of chunks that arrived under ONE
//     (source,msgID,count) key; and it is a packet that was sent from that source
//   * writer: every datagram that can fit lies in [minPkt,maxPkt]; frames of one message
//     fed to a fresh receiver in a permuted order with duplicates give back the packet
//   * short-header packets pass through unchanged in both directions; no panic

import (
	"bytes"
	"errors"
	"fmt"
	"hash/fnv"
	"net"
	"sort"
	"strconv"
	"strings"
	"testing"
	"testing/synctest"
	"time"

	vh "github.com/apernet/hysteria/core/v2/verifhlib"
)

func TestVerifGecko(t *testing.T) {
	ran := false
	synctest.Test(t, func(t *testing.T) {
		c := &c14Comp{}
		ran = vh.RunFromEnv(c)
		c.closeAll()
	})
	if !ran {
		t.Skip("VERIF_OUT not set")
	}
}

// ---------------------------------------------------------------- fake inner conn

type c14Addr int

func (a c14Addr) Network() string { return "udp" }
func (a c14Addr) String() string  { return "src-" + strconv.Itoa(int(a)) }

type c14Dgram struct {
	src  int
	data []byte
}

var errC14Dry = errors.New("c14: inner conn has nothing queued")

type c14Inner struct {
	queue    []c14Dgram
	consumed int
	onRead   func() // called at the start of every ReadFrom of the layer above
	written  [][]byte
}

func (c *c14Inner) ReadFrom(p []byte) (int, net.Addr, error) {
	if c.onRead != nil {
		c.onRead()
	}
	if len(c.queue) == 0 {
		return 0, nil, errC14Dry
	}
	d := c.queue[0]
	c.queue = c.queue[1:]
	c.consumed++
	return copy(p, d.data), c14Addr(d.src), nil
}

func (c *c14Inner) WriteTo(p []byte, _ net.Addr) (int, error) {
	c.written = append(c.written, vh.Exact(p))
	return len(p), nil
}
func (c *c14Inner) Close() error                     { return nil }
func (c *c14Inner) LocalAddr() net.Addr              { return c14Addr(0) }
func (c *c14Inner) SetDeadline(time.Time) error      { return nil }
func (c *c14Inner) SetReadDeadline(time.Time) error  { return nil }
func (c *c14Inner) SetWriteDeadline(time.Time) error { return nil }

// ---------------------------------------------------------------- component

type c14FedKey struct {
	src, mid, total int
}

type c14Msg struct {
	src    int
	frames [][]byte
}

type c14Sender struct {
	inner *c14Inner
	conn  *geckoPacketConn
}

type c14Comp struct {
	minPkt, maxPkt int
	t0             time.Time
	inner          *c14Inner
	rx             *geckoPacketConn
	senders        map[int]*c14Sender
	msgs           []c14Msg                    // messages written by `tx`, for `rxm`
	sent           map[int]map[string]bool     // source -> packets sent (ground truth)
	declared       map[c14FedKey]int           // key -> number of messages declared under it
	fed            map[c14FedKey][][][]byte    // key -> idx -> distinct payloads that arrived
	// virtual time at which each pending entry (by identity, not by key: a key can be re-used by a later
	// message) was first seen in the table, i.e. when its first chunk arrived. Ground truth for the TTL
	// oracle, independent of the deadline field the implementation maintains.
	first map[*reassemblyEntry]time.Time
}

func (c *c14Comp) closeAll() {
	if c.rx != nil {
		c.rx.Close()
		c.rx = nil
	}
	for _, s := range c.senders {
		s.conn.Close()
	}
	c.senders = nil
}

func (c *c14Comp) reset(mn, mx int) {
	c.closeAll()
	c.minPkt, c.maxPkt = mn, mx
	c.inner = &c14Inner{}
	c.t0 = time.Now()
	c.rx = newGeckoPacketConn(c.inner, mn, mx)
	c.senders = map[int]*c14Sender{}
	c.msgs = nil
	c.sent = map[int]map[string]bool{}
	c.declared = map[c14FedKey]int{}
	c.fed = map[c14FedKey][][][]byte{}
	c.first = map[*reassemblyEntry]time.Time{}
}

func (c *c14Comp) ensure() {
	if c.rx == nil {
		c.reset(geckoDefaultMinPacket, geckoDefaultMaxPacket)
	}
}

func (c *c14Comp) now() int64 { return int64(time.Since(c.t0)) }

func (c *c14Comp) markSent(src int, p []byte) {
	if c.sent[src] == nil {
		c.sent[src] = map[string]bool{}
	}
	c.sent[src][string(p)] = true
}

// ---------------------------------------------------------------- state observation

const c14HashM = 4294967291

func c14Mix(x, y uint64) uint64 { return (x*1000003 + y) % c14HashM }

func c14EntFields(e *reassemblyEntry) (mask, sumLen uint64) {
	for i, ch := range e.chunks {
		if ch != nil {
			mask += 1 << uint(i)
			sumLen += uint64(len(ch))
		}
	}
	return
}

func c14SrcOf(addr string) uint64 {
	n, _ := strconv.Atoi(strings.TrimPrefix(addr, "src-"))
	return uint64(n)
}

func (c *c14Comp) entHash(k reassemblyKey, e *reassemblyEntry) uint64 {
	mask, sl := c14EntFields(e)
	h := c14Mix(c14SrcOf(k.addr), uint64(k.msgID))
	h = c14Mix(h, uint64(e.total))
	h = c14Mix(h, uint64(e.received))
	h = c14Mix(h, mask)
	h = c14Mix(h, uint64(e.deadline.Sub(c.t0)))
	h = c14Mix(h, sl)
	return h
}

// showState prints len(reassembly), len(perSource) and an order-independent hash of both maps.
func (c *c14Comp) showState() string {
	g := c.rx
	g.mu.Lock()
	defer g.mu.Unlock()
	var th, ph uint64
	for k, e := range g.reassembly {
		th = (th + c.entHash(k, e)) % c14HashM
	}
	for s, v := range g.perSource {
		ph = (ph + c14Mix(c14SrcOf(s), uint64(v))) % c14HashM
	}
	return fmt.Sprintf("n=%d ns=%d h=%d.%d", len(g.reassembly), len(g.perSource), th, ph)
}

func (c *c14Comp) showSrc(src int) string {
	g := c.rx
	g.mu.Lock()
	defer g.mu.Unlock()
	addr := c14Addr(src).String()
	type row struct {
		mid int
		s   string
	}
	var rows []row
	for k, e := range g.reassembly {
		if k.addr != addr {
			continue
		}
		mask, sl := c14EntFields(e)
		rows = append(rows, row{int(k.msgID), fmt.Sprintf("%d/%d/%d/%d/%d/%d", k.msgID, e.total, e.received, mask, int64(e.deadline.Sub(c.t0)), sl)})
	}
	if len(rows) == 0 {
		return "-"
	}
	sort.Slice(rows, func(i, j int) bool { return rows[i].mid < rows[j].mid })
	ss := make([]string, len(rows))
	for i, r := range rows {
		ss[i] = r.s
	}
	return strings.Join(ss, ",")
}

func (c *c14Comp) dump() string {
	g := c.rx
	g.mu.Lock()
	defer g.mu.Unlock()
	type row struct {
		src, mid int
		s        string
	}
	var rows []row
	for k, e := range g.reassembly {
		slots := make([]string, len(e.chunks))
		for i, ch := range e.chunks {
			if ch == nil {
				slots[i] = "_"
			} else {
				slots[i] = vh.Hex(ch)
			}
		}
		src := int(c14SrcOf(k.addr))
		rows = append(rows, row{src, int(k.msgID), fmt.Sprintf("%d:%d:%d:%d:%d:%s", src, k.msgID, e.total, e.received,
			int64(e.deadline.Sub(c.t0)), strings.Join(slots, ","))})
	}
	sort.Slice(rows, func(i, j int) bool {
		if rows[i].src != rows[j].src {
			return rows[i].src < rows[j].src
		}
		return rows[i].mid < rows[j].mid
	})
	es := "-"
	if len(rows) > 0 {
		ss := make([]string, len(rows))
		for i, r := range rows {
			ss[i] = r.s
		}
		es = strings.Join(ss, ";")
	}
	type prow struct {
		src int
		v   int
	}
	var ps []prow
	for s, v := range g.perSource {
		ps = append(ps, prow{int(c14SrcOf(s)), v})
	}
	sort.Slice(ps, func(i, j int) bool { return ps[i].src < ps[j].src })
	pss := "-"
	if len(ps) > 0 {
		ss := make([]string, len(ps))
		for i, p := range ps {
			ss[i] = fmt.Sprintf("%d:%d", p.src, p.v)
		}
		pss = strings.Join(ss, ";")
	}
	return "dump " + es + " | " + pss
}

// stateOracle: census, caps, ttl — read from the implementation's maps only.
func (c *c14Comp) stateOracle() []string {
	g := c.rx
	g.mu.Lock()
	defer g.mu.Unlock()
	var orc []string
	if len(g.reassembly) > geckoMaxReassembly {
		orc = append(orc, fmt.Sprintf("caps: %d pending messages, limit %d", len(g.reassembly), geckoMaxReassembly))
	}
	census := map[string]int{}
	now := time.Now()
	late := 0
	// first-arrival bookkeeping: entries that appeared during this op arrived now (virtual time does not
	// move inside an op that delivers datagrams); entries that left the table are forgotten
	arrivals := make(map[*reassemblyEntry]time.Time, len(g.reassembly))
	overdue, worst := 0, time.Duration(0)
	for _, e := range g.reassembly {
		t, ok := c.first[e]
		if !ok {
			t = now
		}
		arrivals[e] = t
		// forgotten after its TTL, whatever anyone sends: the first gcLoop tick after arrival+TTL comes at most
		// TTL/2 later, so an entry whose first chunk arrived TTL + TTL/2 ago or earlier cannot be here any more
		if age := now.Sub(t); age >= geckoReassemblyTTL+geckoReassemblyTTL/2 {
			overdue++
			if age > worst {
				worst = age
			}
		}
	}
	c.first = arrivals
	if overdue > 0 {
		orc = append(orc, fmt.Sprintf("ttl: %d incomplete message(s) still pending %v after their first chunk arrived (TTL %v, gc every %v)",
			overdue, worst, geckoReassemblyTTL, geckoReassemblyTTL/2))
	}
	for k, e := range g.reassembly {
		census[k.addr]++
		if !now.Before(e.deadline.Add(geckoReassemblyTTL / 2)) {
			late++
		}
		if e.deadline.Sub(now) > geckoReassemblyTTL {
			orc = append(orc, fmt.Sprintf("ttl: entry %s/%d has a deadline %v ahead, more than the TTL", k.addr, k.msgID, e.deadline.Sub(now)))
		}
	}
	if late > 0 {
		orc = append(orc, fmt.Sprintf("ttl: %d incomplete message(s) still pending a tick period or more after their deadline", late))
	}
	bad := 0
	first := ""
	for s, n := range census {
		if g.perSource[s] != n {
			bad++
			if first == "" {
				first = fmt.Sprintf("%s: counter %d, table has %d", s, g.perSource[s], n)
			}
		}
		if n > geckoMaxPerSource {
			orc = append(orc, fmt.Sprintf("caps: source %s has %d pending messages, limit %d", s, n, geckoMaxPerSource))
		}
	}
	for s, v := range g.perSource {
		if v > geckoMaxPerSource {
			orc = append(orc, fmt.Sprintf("caps: perSource[%s] = %d, limit %d", s, v, geckoMaxPerSource))
		}
		if _, ok := census[s]; !ok {
			bad++
			if first == "" {
				first = fmt.Sprintf("%s: counter %d, table has 0", s, v)
			}
		}
	}
	if bad > 0 {
		orc = append(orc, fmt.Sprintf("census: perSource differs from the table for %d source(s), e.g. %s", bad, first))
	}
	return orc
}

// c14Snap is the key set of the table before/after one datagram. Copying 4096 keys per datagram while a
// table is being filled dominates the run time, so between 256 entries and (cap - 8) only the size is
// recorded ("light"): an eviction there would show up as a divergence from the model (which is told "-").
type c14Snap struct {
	keys  map[reassemblyKey]struct{}
	n     int
	light bool
}

func (c *c14Comp) snapshot() c14Snap {
	g := c.rx
	g.mu.Lock()
	defer g.mu.Unlock()
	n := len(g.reassembly)
	if n > 256 && n < geckoMaxReassembly-8 {
		return c14Snap{n: n, light: true}
	}
	s := c14Snap{keys: make(map[reassemblyKey]struct{}, n), n: n}
	for k := range g.reassembly {
		s.keys[k] = struct{}{}
	}
	return s
}

// ---------------------------------------------------------------- frames (harness-side, independent of the code)

func c14Frame(b0 byte, mid, idx, total int, pad []byte, payload []byte) []byte {
	f := []byte{b0, byte(mid), byte(idx<<4 | total&0x0f), byte(len(pad) >> 8), byte(len(pad))}
	f = append(f, pad...)
	return append(f, payload...)
}

// c14Parse is the harness's own reading of the wire layout documented in gecko_frame.go.
func c14Parse(d []byte) (mid, idx, total int, payload []byte, ok bool) {
	if len(d) > geckoBufferSize {
		d = d[:geckoBufferSize]
	}
	if len(d) < 5 || d[0]&0x80 == 0 {
		return
	}
	mid, idx, total = int(d[1]), int(d[2]>>4), int(d[2]&0x0f)
	pad := int(d[3])<<8 | int(d[4])
	if total < 2 || total > 8 || idx >= total || 5+pad > len(d) {
		return
	}
	return mid, idx, total, d[5+pad:], true
}

func (c *c14Comp) noteFed(src int, d []byte) (c14FedKey, bool) {
	mid, idx, total, payload, ok := c14Parse(d)
	if !ok {
		return c14FedKey{}, false
	}
	k := c14FedKey{src, mid, total}
	if c.fed[k] == nil {
		c.fed[k] = make([][][]byte, total)
	}
	for _, x := range c.fed[k][idx] {
		if bytes.Equal(x, payload) {
			return k, true
		}
	}
	c.fed[k][idx] = append(c.fed[k][idx], vh.Exact(payload))
	return k, true
}

// isConcat: data = x_0 ++ ... ++ x_{n-1} with x_i among the payloads that arrived for slot i.
func c14IsConcat(slots [][][]byte, i int, data []byte) bool {
	if i == len(slots) {
		return len(data) == 0
	}
	for _, x := range slots[i] {
		if bytes.HasPrefix(data, x) && c14IsConcat(slots, i+1, data[len(x):]) {
			return true
		}
	}
	return false
}

func (c *c14Comp) integrityOracle(src int, k c14FedKey, keyOK bool, data []byte, pcap int) []string {
	if len(data) >= pcap {
		return nil // truncated by the caller's buffer: nothing to judge
	}
	if !keyOK || !c14IsConcat(c.fed[k], 0, data) {
		return []string{"integrity: delivered packet is not the concatenation of chunks that arrived under one (source,msgID,count) key"}
	}
	if c.sent[src][string(data)] {
		return nil
	}
	if c.declared[k] >= 2 {
		return []string{fmt.Sprintf("integrity(D9): delivered %d-byte packet was never sent: it splices chunks of different messages "+
			"that shared (source,msgID,chunk count) — the 8-bit message id was reused while the earlier message was still pending", len(data))}
	}
	return []string{"integrity: delivered packet was never sent by that source"}
}

// ---------------------------------------------------------------- ops

func c14Atoi(s string) int {
	n, err := strconv.Atoi(s)
	if err != nil {
		panic("c14: bad number " + s)
	}
	return n
}

func c14Seed(s string) uint64 {
	h := fnv.New64a()
	h.Write([]byte(s))
	return h.Sum64()
}

// feed queues datagrams on the receiver's inner conn and calls ReadFrom until it runs dry.
func (c *c14Comp) feed(pcap int, ds []c14Dgram) vh.Result {
	var orc []string
	now := c.now()
	n := len(ds)
	snaps := make([]c14Snap, 0, n+1)
	c.inner.queue = append([]c14Dgram(nil), ds...)
	c.inner.consumed = 0
	c.inner.onRead = func() { snaps = append(snaps, c.snapshot()) }
	outs := make([]string, n)
	for i := range outs {
		outs[i] = "d"
	}
	buf := make([]byte, pcap)
	nontrivial := false
	fedKeys := make([]c14FedKey, n)
	fedOK := make([]bool, n)
	fedDone := 0
	for guard := 0; guard <= n+1; guard++ {
		var got int
		var addr net.Addr
		var err error
		msg := ""
		func() {
			defer func() {
				if r := recover(); r != nil {
					msg = fmt.Sprint(r)
				}
			}()
			got, addr, err = c.rx.ReadFrom(buf)
		}()
		// everything consumed so far has arrived (ground truth for the integrity oracle)
		for ; fedDone < c.inner.consumed; fedDone++ {
			fedKeys[fedDone], fedOK[fedDone] = c.noteFed(ds[fedDone].src, ds[fedDone].data)
		}
		if msg != "" {
			c.inner.onRead = nil
			return vh.Result{Out: "panic", Oracle: []string{"panic in ReadFrom: " + msg}}
		}
		if err != nil {
			break
		}
		j := c.inner.consumed - 1
		if j < 0 {
			orc = append(orc, "ReadFrom returned a packet without reading a datagram")
			break
		}
		d := ds[j]
		data := buf[:got]
		if addr == nil || addr.String() != c14Addr(d.src).String() {
			orc = append(orc, "ReadFrom returned a packet under another source address")
		}
		first := byte(0)
		if len(d.data) > 0 {
			first = d.data[0]
		}
		if first&0x80 == 0 {
			outs[j] = "p:" + vh.Hex(data)
			want := d.data
			if len(want) > geckoBufferSize {
				want = want[:geckoBufferSize]
			}
			if len(want) > pcap {
				want = want[:pcap]
			}
			if !bytes.Equal(data, want) {
				orc = append(orc, "short-header packet was not passed through unchanged")
			}
		} else {
			outs[j] = "m:" + vh.Hex(data)
			nontrivial = true
			orc = append(orc, c.integrityOracle(d.src, fedKeys[j], fedOK[j], data, pcap)...)
		}
	}
	c.inner.onRead = nil
	snaps = append(snaps, c.snapshot())
	// an ill-formed fragment frame (by the harness's own reading of the documented layout) must leave the table alone
	for j, d := range ds {
		if j+1 >= len(snaps) || len(d.data) == 0 || d.data[0]&0x80 == 0 {
			continue
		}
		if _, _, _, _, ok := c14Parse(d.data); ok {
			continue
		}
		same := snaps[j].n == snaps[j+1].n
		if same && !snaps[j].light && !snaps[j+1].light {
			for k := range snaps[j].keys {
				if _, ok := snaps[j+1].keys[k]; !ok {
					same = false
					break
				}
			}
		}
		if !same {
			orc = append(orc, fmt.Sprintf("malformed: an ill-formed fragment frame (%d bytes from src-%d) changed the reassembly table", len(d.data), d.src))
		}
	}
	// eviction victims: a key that vanished while datagram j was processed, other than j's own key
	fields := make([]string, n)
	for j, d := range ds {
		tie := "-"
		if j+1 < len(snaps) && !snaps[j].light && !snaps[j+1].light {
			own := reassemblyKey{addr: c14Addr(d.src).String()}
			if len(d.data) > 1 {
				own.msgID = d.data[1]
			}
			for k := range snaps[j].keys {
				if _, still := snaps[j+1].keys[k]; !still && k != own {
					tie = fmt.Sprintf("%d:%d", c14SrcOf(k.addr), k.msgID)
					break
				}
			}
		}
		fields[j] = fmt.Sprintf("%d=%s=%s", d.src, vh.Hex(d.data), tie)
	}
	last := ds[n-1].src
	c.rx.mu.Lock()
	ps := c.rx.perSource[c14Addr(last).String()]
	c.rx.mu.Unlock()
	if ps > 0 {
		nontrivial = true
	}
	out := fmt.Sprintf("rx %s %s ps=%d e=%s", strings.Join(outs, ","), c.showState(), ps, c.showSrc(last))
	orc = append(orc, c.stateOracle()...)
	return vh.Result{Out: out, ModelOp: fmt.Sprintf("rx %d %d %s", now, pcap, strings.Join(fields, " ")), NonTrivial: nontrivial, Oracle: orc}
}

func (c *c14Comp) sender(s int) *c14Sender {
	if sd, ok := c.senders[s]; ok {
		return sd
	}
	in := &c14Inner{}
	sd := &c14Sender{inner: in, conn: newGeckoPacketConn(in, c.minPkt, c.maxPkt)}
	c.senders[s] = sd
	return sd
}

// freshRoundTrip feeds the frames of one message to a brand-new receiver in a permuted
// order with duplicates and returns what comes out (model-free reassembly oracle).
func (c *c14Comp) freshRoundTrip(frames [][]byte, seed uint64) ([][]byte, string) {
	r := vh.NewRNG(seed)
	order := make([]int, 0, 2*len(frames))
	for i := range frames {
		order = append(order, i)
	}
	for i := len(order) - 1; i > 0; i-- {
		j := r.Intn(i + 1)
		order[i], order[j] = order[j], order[i]
	}
	// duplicates are inserted before the last first-occurrence so that the message completes once
	if len(order) > 1 {
		for k := r.Intn(3); k > 0; k-- {
			pos := r.Intn(len(order) - 1)
			dup := order[r.Intn(pos+1)]
			order = append(order[:pos+1], append([]int{dup}, order[pos+1:]...)...)
		}
	}
	in := &c14Inner{}
	g := newGeckoPacketConn(in, c.minPkt, c.maxPkt)
	defer g.Close()
	for _, i := range order {
		in.queue = append(in.queue, c14Dgram{src: 7, data: frames[i]})
	}
	var got [][]byte
	buf := make([]byte, 8192)
	msg := ""
	func() {
		defer func() {
			if r := recover(); r != nil {
				msg = fmt.Sprint(r)
			}
		}()
		for {
			n, _, err := g.ReadFrom(buf)
			if err != nil {
				return
			}
			got = append(got, vh.Exact(buf[:n]))
		}
	}()
	return got, msg
}

func (c *c14Comp) tx(s int, p []byte, op string) vh.Result {
	var orc []string
	sd := c.sender(s)
	sd.inner.written = nil
	var ret int
	var err error
	if msg := func() (m string) {
		defer func() {
			if r := recover(); r != nil {
				m = fmt.Sprint(r)
			}
		}()
		ret, err = sd.conn.WriteTo(vh.Exact(p), c14Addr(999))
		return ""
	}(); msg != "" {
		return vh.Result{Out: "panic", Oracle: []string{"panic in WriteTo: " + msg}}
	}
	if err != nil {
		return vh.Result{Out: "reject", ModelOp: fmt.Sprintf("tx %d %s 0 0 .", s, vh.Hex(p)), Oracle: []string{"WriteTo failed: " + err.Error()}}
	}
	frames := sd.inner.written
	long := len(p) > 0 && p[0]&0x80 != 0
	chunks, mid := 0, 0
	var pads [][]byte
	if long {
		chunks = len(frames)
		for i, f := range frames {
			if len(f) < 5 {
				orc = append(orc, fmt.Sprintf("writer: frame %d is shorter than a header", i))
				pads = append(pads, nil)
				continue
			}
			if i == 0 {
				mid = int(f[1])
			}
			pl := int(f[3])<<8 | int(f[4])
			if 5+pl > len(f) {
				orc = append(orc, fmt.Sprintf("writer: frame %d declares %d pad bytes but is %d long", i, pl, len(f)))
				pl = len(f) - 5
			}
			pads = append(pads, f[5:5+pl])
			// size range: the datagram on the wire is the frame plus the Salamander salt
			wire := smSaltLen + len(f)
			if wire < c.minPkt {
				orc = append(orc, fmt.Sprintf("size: datagram of %d bytes is below minPkt %d", wire, c.minPkt))
			}
			if wire > c.maxPkt && pl != 0 {
				orc = append(orc, fmt.Sprintf("size: datagram of %d bytes (with %d pad bytes) exceeds maxPkt %d", wire, pl, c.maxPkt))
			}
		}
		if chunks < geckoMinFragmentChunks || chunks > geckoMaxFragmentChunks {
			orc = append(orc, fmt.Sprintf("writer: %d fragments", chunks))
		}
		got, pmsg := c.freshRoundTrip(frames, c14Seed(op))
		if pmsg != "" {
			orc = append(orc, "panic in ReadFrom on the writer's own frames: "+pmsg)
		} else if len(got) != 1 || !bytes.Equal(got[0], p) {
			orc = append(orc, fmt.Sprintf("round trip: permuted/duplicated fragments gave %d packet(s), equal to the original: %v",
				len(got), len(got) == 1 && bytes.Equal(got[0], p)))
		}
		if chunks > 0 {
			c.declared[c14FedKey{s, mid, chunks}]++
		}
	} else if len(p) > 0 {
		if len(frames) != 1 || !bytes.Equal(frames[0], p) {
			orc = append(orc, "short-header packet was not written through unchanged")
		}
	} else if len(frames) != 0 {
		orc = append(orc, "empty packet produced a datagram")
	}
	if len(p) > 0 {
		c.markSent(s, p)
		c.msgs = append(c.msgs, c14Msg{src: s, frames: frames})
	}
	return vh.Result{
		Out:        fmt.Sprintf("tx %d %s padok=1 idok=1", ret, vh.Chunks(frames)),
		ModelOp:    fmt.Sprintf("tx %d %s %d %d %s", s, vh.Hex(p), chunks, mid, vh.Chunks(pads)),
		NonTrivial: long, Oracle: orc}
}

// e2e: the real stack (Gecko over Salamander) on both ends of an in-memory wire.
func (c *c14Comp) e2e(mn, mx int, p []byte, seed uint64) vh.Result {
	var orc []string
	wa, wb := &c14Inner{}, &c14Inner{}
	ga, err1 := WrapPacketConnGecko(wa, GeckoOptions{Password: []byte("verif-c14"), MinPacketSize: mn, MaxPacketSize: mx})
	gb, err2 := WrapPacketConnGecko(wb, GeckoOptions{Password: []byte("verif-c14"), MinPacketSize: mn, MaxPacketSize: mx})
	if err1 != nil || err2 != nil {
		if ga != nil {
			ga.Close()
		}
		if gb != nil {
			gb.Close()
		}
		return vh.Result{Out: "e2e ok", Oracle: []string{"e2e: wrap failed"}}
	}
	defer ga.Close()
	defer gb.Close()
	rmn, rmx := ga.(*geckoPacketConn).minPkt, ga.(*geckoPacketConn).maxPkt
	msg := func() (m string) {
		defer func() {
			if r := recover(); r != nil {
				m = fmt.Sprint(r)
			}
		}()
		if _, err := ga.WriteTo(vh.Exact(p), c14Addr(2)); err != nil {
			orc = append(orc, "e2e: WriteTo failed: "+err.Error())
		}
		wire := wa.written
		long := len(p) > 0 && p[0]&0x80 != 0
		if long && len(wire) >= 1 {
			cs := len(p) / len(wire)
			lastChunk := len(p) - (len(wire)-1)*cs
			for i, w := range wire {
				if len(w) < rmn {
					orc = append(orc, fmt.Sprintf("size: wire datagram of %d bytes is below minPkt %d", len(w), rmn))
				}
				cl := cs
				if i == len(wire)-1 {
					cl = lastChunk
				}
				if smSaltLen+geckoHeaderSize+cl <= rmx && len(w) > rmx {
					orc = append(orc, fmt.Sprintf("size: wire datagram of %d bytes exceeds maxPkt %d although its %d-byte chunk fits", len(w), rmx, cl))
				}
			}
		}
		r := vh.NewRNG(seed)
		order := make([]int, len(wire))
		for i := range order {
			order[i] = i
		}
		for i := len(order) - 1; i > 0; i-- {
			j := r.Intn(i + 1)
			order[i], order[j] = order[j], order[i]
		}
		for _, i := range order {
			wb.queue = append(wb.queue, c14Dgram{src: 1, data: wire[i]})
		}
		buf := make([]byte, 8192)
		var got [][]byte
		for {
			n, _, err := gb.ReadFrom(buf)
			if err != nil {
				break
			}
			got = append(got, vh.Exact(buf[:n]))
		}
		if len(p) > 0 && smSaltLen+geckoHeaderSize+len(p) <= udpBufferSize {
			if len(got) != 1 || !bytes.Equal(got[0], p) {
				orc = append(orc, fmt.Sprintf("e2e: packet of %d bytes came back as %d packet(s), equal: %v", len(p), len(got), len(got) == 1 && bytes.Equal(got[0], p)))
			}
		}
		return ""
	}()
	if msg != "" {
		return vh.Result{Out: "panic", Oracle: []string{"panic in the Gecko/Salamander stack: " + msg}}
	}
	return vh.Result{Out: "e2e ok", NonTrivial: true, Oracle: orc}
}

func (c *c14Comp) Run(op string) vh.Result {
	f := strings.Fields(op)
	if len(f) == 0 {
		panic("c14: empty op")
	}
	if f[0] != "reset" {
		c.ensure()
	}
	switch f[0] {
	case "reset":
		c.reset(c14Atoi(f[1]), c14Atoi(f[2]))
		return vh.Result{Out: "reset"}
	case "wrap":
		mn, mx := c14Atoi(f[1]), c14Atoi(f[2])
		pc, err := WrapPacketConnGecko(&c14Inner{}, GeckoOptions{Password: []byte("verif-c14"), MinPacketSize: mn, MaxPacketSize: mx})
		if err != nil {
			return vh.Result{Out: "wrap err", NonTrivial: true}
		}
		g := pc.(*geckoPacketConn)
		defer g.Close()
		var orc []string
		if g.minPkt <= 0 || g.minPkt > g.maxPkt || g.maxPkt > geckoBufferSize {
			orc = append(orc, fmt.Sprintf("config: accepted size range [%d,%d]", g.minPkt, g.maxPkt))
		}
		return vh.Result{Out: fmt.Sprintf("wrap ok %d %d", g.minPkt, g.maxPkt), NonTrivial: true, Oracle: orc}
	case "sent": // sent <src> <mid> <total> <hex>: ground truth for crafted messages
		src, mid, total := c14Atoi(f[1]), c14Atoi(f[2]), c14Atoi(f[3])
		c.markSent(src, vh.UnHex(f[4]))
		c.declared[c14FedKey{src, mid, total}]++
		return vh.Result{Out: "sent", ModelOp: "sent 0 0"}
	case "tx":
		return c.tx(c14Atoi(f[1]), vh.UnHex(f[2]), op)
	case "rx": // rx <pcap> <src>=<hex> ...
		pcap := c14Atoi(f[1])
		var ds []c14Dgram
		for _, x := range f[2:] {
			i := strings.IndexByte(x, '=')
			ds = append(ds, c14Dgram{src: c14Atoi(x[:i]), data: vh.Exact(vh.UnHex(x[i+1:]))})
		}
		return c.feed(pcap, ds)
	case "rxm": // rxm <pcap> <m>.<i> | <m>.a (all frames) | <m>.x<k> (all but frame k) ... : frames of messages written by tx
		pcap := c14Atoi(f[1])
		var ds []c14Dgram
		for _, x := range f[2:] {
			i := strings.IndexByte(x, '.')
			if len(c.msgs) == 0 {
				continue
			}
			m := c.msgs[c14Atoi(x[:i])%len(c.msgs)]
			if len(m.frames) == 0 {
				continue
			}
			sel := x[i+1:]
			switch {
			case sel == "a":
				for _, fr := range m.frames {
					ds = append(ds, c14Dgram{src: m.src, data: fr})
				}
			case strings.HasPrefix(sel, "x"):
				skip := c14Atoi(sel[1:]) % len(m.frames)
				for j, fr := range m.frames {
					if j != skip {
						ds = append(ds, c14Dgram{src: m.src, data: fr})
					}
				}
			default:
				ds = append(ds, c14Dgram{src: m.src, data: m.frames[c14Atoi(sel)%len(m.frames)]})
			}
		}
		if len(ds) == 0 {
			return vh.Result{Out: "nop", ModelOp: "nop"}
		}
		return c.feed(pcap, ds)
	case "adv": // adv <ns>: let virtual time pass (the gcLoop ticker runs)
		d := time.Duration(c14Atoi(f[1]))
		time.Sleep(d)
		synctest.Wait()
		return vh.Result{Out: "adv " + c.showState(), ModelOp: fmt.Sprintf("adv %d", c.now()), NonTrivial: true, Oracle: c.stateOracle()}
	case "gc": // gc <ns since reset>: gcExpired called directly with that time
		at := c14Atoi(f[1])
		out := vh.Guard(func() string {
			c.rx.gcExpired(c.t0.Add(time.Duration(at)))
			return "gc " + c.showState()
		})
		var orc []string
		if out == "panic" {
			orc = append(orc, "panic in gcExpired")
		}
		// entries whose first chunk arrived more than a TTL before `at` must be gone (ground truth, not the deadline field)
		c.rx.mu.Lock()
		for k, e := range c.rx.reassembly {
			if t, ok := c.first[e]; ok && c.t0.Add(time.Duration(at)).After(t.Add(geckoReassemblyTTL)) {
				orc = append(orc, fmt.Sprintf("ttl: entry %s/%d survived a gc run %v after its first chunk arrived (TTL %v)",
					k.addr, k.msgID, c.t0.Add(time.Duration(at)).Sub(t), geckoReassemblyTTL))
				break
			}
		}
		// entries whose deadline is before `at` must be gone
		for k, e := range c.rx.reassembly {
			if c.t0.Add(time.Duration(at)).After(e.deadline) {
				orc = append(orc, fmt.Sprintf("ttl: entry %s/%d survived a gc past its deadline", k.addr, k.msgID))
				break
			}
		}
		c.rx.mu.Unlock()
		// the direct call may run with a time in the past/future of the clock: only census and caps apply
		for _, o := range c.stateOracle() {
			if !strings.HasPrefix(o, "ttl:") {
				orc = append(orc, o)
			}
		}
		return vh.Result{Out: out, NonTrivial: true, Oracle: orc}
	case "dump":
		return vh.Result{Out: c.dump()}
	case "dec":
		d := vh.Exact(vh.UnHex(f[1]))
		var orc []string
		out, msg := vh.GuardMsg(func() string {
			h, pl, err := decodeFrame(d)
			switch {
			case err == nil:
				if !bytes.HasSuffix(d, pl) {
					orc = append(orc, "decodeFrame: payload is not a suffix of the input")
				}
				// the header invariants documented on frameHeader / the wire layout comment
				if h.totalChunks < geckoMinFragmentChunks || h.totalChunks > geckoMaxFragmentChunks || h.chunkIdx >= h.totalChunks ||
					geckoHeaderSize+int(h.padLen)+len(pl) != len(d) || d[0]&geckoFlagFragment == 0 {
					orc = append(orc, fmt.Sprintf("decodeFrame accepted a frame that violates the documented header invariants: idx %d, total %d, pad %d, %d bytes",
						h.chunkIdx, h.totalChunks, h.padLen, len(d)))
				}
				return fmt.Sprintf("dec ok %d %d %d %d %s", h.padLen, h.msgID, h.chunkIdx, h.totalChunks, vh.Hex(pl))
			case errors.Is(err, errFrameTruncated):
				return "dec truncated"
			case errors.Is(err, errFrameInvalid):
				return "dec invalid"
			}
			return "dec err"
		})
		if out == "panic" {
			orc = append(orc, "panic in decodeFrame: "+msg)
		}
		return vh.Result{Out: out, NonTrivial: strings.HasPrefix(out, "dec ok"), Oracle: orc}
	case "enc": // enc <pad> <mid> <idx> <total> <outLen> <payload>
		pad, mid, idx, total, outLen := c14Atoi(f[1]), c14Atoi(f[2]), c14Atoi(f[3]), c14Atoi(f[4]), c14Atoi(f[5])
		payload := vh.UnHex(f[6])
		var orc []string
		rnd := []byte(nil)
		out, msg := vh.GuardMsg(func() string {
			buf := make([]byte, outLen)
			h := frameHeader{padLen: uint16(pad), msgID: uint8(mid), chunkIdx: uint8(idx), totalChunks: uint8(total)}
			n, err := encodeFrame(h, payload, buf)
			switch {
			case err == nil:
				if n >= 5+pad {
					rnd = buf[5 : 5+pad]
				}
				// model-free: decode gives the header and payload back
				h2, pl, derr := decodeFrame(buf[:n])
				if derr != nil || h2 != h || !bytes.Equal(pl, payload) {
					orc = append(orc, "frame round trip: decodeFrame(encodeFrame(h, payload)) differs from (h, payload)")
				}
				return "enc ok " + vh.Hex(buf[:n])
			case errors.Is(err, errFrameTruncated):
				return "enc truncated"
			case errors.Is(err, errFrameInvalid):
				return "enc invalid"
			}
			return "enc err"
		})
		if out == "panic" {
			orc = append(orc, "panic in encodeFrame: "+msg)
		}
		return vh.Result{Out: out, ModelOp: op + " " + vh.Hex(rnd), NonTrivial: strings.HasPrefix(out, "enc ok"), Oracle: orc}
	case "e2e": // e2e <min> <max> <hex>
		return c.e2e(c14Atoi(f[1]), c14Atoi(f[2]), vh.UnHex(f[3]), c14Seed(op))
	}
	panic("c14: unknown op " + f[0])
}

// ---------------------------------------------------------------- generator

type c14GenMsg struct {
	src, mid, total int
	p               []byte
	frames          [][]byte
}

var c14Cfgs = [][2]int{{512, 1200}, {512, 1200}, {1, 1}, {14, 14}, {13, 2048}, {100, 100}, {1200, 1200}, {64, 80}, {1, 2048}, {2048, 2048}, {700, 701}}

var c14Lens = []int{1, 2, 3, 7, 8, 9, 15, 16, 17, 31, 63, 64, 100, 255, 256, 499, 500, 1186, 1187, 1188, 1200, 1350, 1499, 1500}

// craft builds a message the way any conforming sender may: `total` chunks, any split
// (the repo's own split when even), any pad.
func c14Craft(r *vh.RNG, src, mid, total int, p []byte, smallPad bool) c14GenMsg {
	m := c14GenMsg{src: src, mid: mid, total: total, p: p}
	cuts := make([]int, total+1)
	cuts[total] = len(p)
	if r.Chance(2, 3) {
		cs := len(p) / total
		for i := 1; i < total; i++ {
			cuts[i] = i * cs
		}
	} else {
		for i := 1; i < total; i++ {
			cuts[i] = r.Intn(len(p) + 1)
		}
		sort.Ints(cuts)
	}
	for i := 0; i < total; i++ {
		pl := r.Intn(6)
		if !smallPad && r.Chance(1, 6) {
			pl = r.Pick([]int{0, 1, 255, 256, 700, 1190})
		}
		b0 := byte(0x80)
		if r.Chance(1, 5) {
			b0 |= byte(r.Intn(128))
		}
		if 5+pl+cuts[i+1]-cuts[i] > geckoBufferSize { // a frame the receiver's buffer would cut is not a frame of this message
			pl = geckoBufferSize - 5 - (cuts[i+1] - cuts[i])
		}
		m.frames = append(m.frames, c14Frame(b0, mid, i, total, r.Bytes(pl), p[cuts[i]:cuts[i+1]]))
	}
	return m
}

func c14Payload(r *vh.RNG) []byte {
	n := r.Range(1, 40)
	if r.Chance(1, 8) {
		n = r.Pick(c14Lens)
	}
	p := r.Bytes(n)
	p[0] |= 0x80
	return p
}

func c14Junk(r *vh.RNG, base []byte) []byte {
	if r.Chance(1, 25) { // longer than the read buffer: the inner conn hands up geckoBufferSize bytes
		n := r.Pick([]int{geckoBufferSize - 1, geckoBufferSize, geckoBufferSize + 1, geckoBufferSize + 60})
		if r.Bool() {
			return c14Frame(0x80, r.Intn(256), 0, r.Range(2, 8), r.Bytes(r.Intn(3)), r.Bytes(n-5))
		}
		b := r.Bytes(n)
		b[0] &= 0x7f
		return b
	}
	switch r.Intn(8) {
	case 0:
		return nil // empty datagram
	case 1:
		b := r.Bytes(r.Range(1, 4)) // shorter than a header
		b[0] |= 0x80
		return b
	case 2:
		b := r.Bytes(r.Range(5, 30)) // random fields
		b[0] |= 0x80
		return b
	case 3: // total out of range
		return c14Frame(0x80, r.Intn(256), 0, r.Pick([]int{0, 1, 9, 15}), nil, r.Bytes(3))
	case 4: // idx >= total
		t := r.Range(2, 8)
		return c14Frame(0x80, r.Intn(256), r.Range(t, 15), t, nil, r.Bytes(3))
	case 5: // pad longer than the datagram
		f := c14Frame(0x80, r.Intn(256), 0, 2, nil, r.Bytes(r.Intn(4)))
		f[3], f[4] = byte(r.Intn(256)), byte(r.Range(len(f)-4, 255))
		return f
	case 6: // pad exactly to the end: empty payload, valid
		return c14Frame(0x80, r.Intn(256), 0, r.Range(2, 8), r.Bytes(r.Intn(5)), nil)
	default: // a real frame cut short
		if len(base) > 0 {
			return append([]byte(nil), base[:r.Intn(len(base))]...)
		}
		return []byte{0x80}
	}
}

func c14Short(r *vh.RNG) []byte {
	b := r.Bytes(r.Range(1, 24))
	b[0] &= 0x7f
	return b
}

func c14Cfg(r *vh.RNG) [2]int { return c14Cfgs[r.Intn(len(c14Cfgs))] }

type c14Emit func(op string, tags ...string)

func c14Dg(src int, d []byte) string { return fmt.Sprintf("%d=%s", src, vh.Hex(d)) }

// emitStream sends a list of datagrams in groups of 1..4 per rx op, with time steps, dumps
// and junk sprinkled in.
func c14EmitStream(r *vh.RNG, emit c14Emit, ds []c14Dgram, tag string, advChance int) {
	for i := 0; i < len(ds); {
		k := 1
		if r.Chance(1, 3) {
			k = r.Range(2, 4)
		}
		if i+k > len(ds) {
			k = len(ds) - i
		}
		parts := make([]string, k)
		for j := 0; j < k; j++ {
			parts[j] = c14Dg(ds[i+j].src, ds[i+j].data)
		}
		pcap := 4096
		if r.Chance(1, 40) {
			pcap = r.Pick([]int{0, 1, 5, 16})
		}
		emit(fmt.Sprintf("rx %d %s", pcap, strings.Join(parts, " ")), tag)
		i += k
		if advChance > 0 && r.Chance(1, advChance) {
			emit(fmt.Sprintf("adv %d", r.Pick([]int{1, 1000, 1000000, 500000000, 1999999999, 2000000000, 3999999999, 4000000000, 4000000001})), tag+"-adv")
		}
		if r.Chance(1, 25) {
			emit("dump", "dump")
		}
	}
}

func c14Shuffle(r *vh.RNG, ds []c14Dgram, mode int) {
	switch mode {
	case 0: // full shuffle
		for i := len(ds) - 1; i > 0; i-- {
			j := r.Intn(i + 1)
			ds[i], ds[j] = ds[j], ds[i]
		}
	case 1: // local swaps
		for i := 0; i+1 < len(ds); i++ {
			if r.Chance(1, 3) {
				ds[i], ds[i+1] = ds[i+1], ds[i]
			}
		}
	case 2: // reversed
		for i, j := 0, len(ds)-1; i < j; i, j = i+1, j-1 {
			ds[i], ds[j] = ds[j], ds[i]
		}
	}
}

// mix: several sources and messages with distinct keys; permuted, duplicated, interleaved,
// some chunks lost, junk and short-header packets in between.
func c14GenMix(r *vh.RNG, emit c14Emit) {
	cfg := c14Cfg(r)
	emit(fmt.Sprintf("reset %d %d", cfg[0], cfg[1]), "reset")
	nsrc := r.Range(1, 5)
	nmsg := r.Range(1, 10)
	used := map[[2]int]bool{}
	var ds []c14Dgram
	var anyFrame []byte
	for i := 0; i < nmsg; i++ {
		src := r.Range(1, nsrc)
		mid := r.Pick([]int{0, 1, 7, 7, 254, 255, r.Intn(256)})
		if used[[2]int{src, mid}] {
			continue
		}
		used[[2]int{src, mid}] = true
		m := c14Craft(r, src, mid, r.Range(2, 8), c14Payload(r), false)
		emit(fmt.Sprintf("sent %d %d %d %s", m.src, m.mid, m.total, vh.Hex(m.p)), "sent")
		lose := -1
		if r.Chance(1, 6) {
			lose = r.Intn(m.total)
		}
		for j, f := range m.frames {
			if j == lose {
				continue
			}
			ds = append(ds, c14Dgram{m.src, f})
			if r.Chance(1, 5) {
				ds = append(ds, c14Dgram{m.src, f})
			}
			anyFrame = f
		}
	}
	// junk comes from its own sources so that it never shares a key with a declared message
	for k := r.Intn(6); k > 0; k-- {
		ds = append(ds, c14Dgram{100 + k, c14Junk(r, anyFrame)}) // one datagram per junk source
	}
	for k := r.Intn(4); k > 0; k-- {
		ds = append(ds, c14Dgram{r.Range(1, nsrc), c14Short(r)})
	}
	c14Shuffle(r, ds, r.Intn(4))
	c14EmitStream(r, emit, ds, "mix", 12)
	emit("dump", "dump")
}

// reuse: two messages under one (source, id): same count (D9), different count, or separated by the TTL.
func c14GenReuse(r *vh.RNG, emit c14Emit) {
	emit("reset 512 1200", "reset")
	src, mid := r.Range(1, 3), r.Pick([]int{0, 7, 255, r.Intn(256)})
	ta := r.Range(2, 8)
	tb := ta
	kind := r.Intn(4)
	if kind == 1 {
		tb = 2 + (ta-2+r.Range(1, 6))%7
	}
	a := c14Craft(r, src, mid, ta, c14Payload(r), true)
	b := c14Craft(r, src, mid, tb, c14Payload(r), true)
	emit(fmt.Sprintf("sent %d %d %d %s", a.src, a.mid, a.total, vh.Hex(a.p)), "sent")
	emit(fmt.Sprintf("sent %d %d %d %s", b.src, b.mid, b.total, vh.Hex(b.p)), "sent")
	lose := r.Intn(ta)
	var da, db []c14Dgram
	for j, f := range a.frames {
		if j != lose {
			da = append(da, c14Dgram{src, f})
		}
	}
	for _, f := range b.frames {
		db = append(db, c14Dgram{src, f})
	}
	c14Shuffle(r, da, r.Intn(4))
	c14Shuffle(r, db, r.Intn(4))
	tag := []string{"reuse-same-count", "reuse-other-count", "reuse-after-ttl", "reuse-interleaved"}[kind]
	switch kind {
	case 2:
		c14EmitStream(r, emit, da, tag, 0)
		emit(fmt.Sprintf("adv %d", r.Pick([]int{8000000001, 12000000000, 16000000000})), tag+"-adv")
		c14EmitStream(r, emit, db, tag, 0)
	case 3:
		all := append(da, db...)
		c14Shuffle(r, all, 1)
		c14EmitStream(r, emit, all, tag, 0)
	default:
		c14EmitStream(r, emit, da, tag, 0)
		c14EmitStream(r, emit, db, tag, 0)
	}
	emit("dump", "dump")
}

// percap: one source opens more messages than the per-source cap; completion, expiry and gc free slots.
func c14GenPerCap(r *vh.RNG, emit c14Emit) {
	emit("reset 512 1200", "reset")
	src := r.Range(1, 3)
	var ms []c14GenMsg
	nm := r.Range(8, 12)
	base := r.Intn(256)
	for i := 0; i < nm; i++ {
		m := c14Craft(r, src, (base+i)%256, r.Range(2, 4), c14Payload(r), true)
		ms = append(ms, m)
		emit(fmt.Sprintf("sent %d %d %d %s", m.src, m.mid, m.total, vh.Hex(m.p)), "sent")
	}
	for _, m := range ms { // first chunk of each
		emit(fmt.Sprintf("rx 4096 %s", c14Dg(src, m.frames[0])), "percap-open")
		if r.Chance(1, 4) {
			emit(fmt.Sprintf("adv %d", r.Pick([]int{1, 1000000, 1000000000})), "percap-adv")
		}
	}
	// finish some, in random order; each completion frees a slot for a refused one
	for k := 0; k < nm; k++ {
		m := ms[r.Intn(nm)]
		for j := 1; j < m.total; j++ {
			emit(fmt.Sprintf("rx 4096 %s", c14Dg(src, m.frames[j])), "percap-finish")
		}
		if r.Chance(1, 2) {
			m2 := ms[r.Intn(nm)]
			emit(fmt.Sprintf("rx 4096 %s", c14Dg(src, m2.frames[0])), "percap-reopen")
		}
		if r.Chance(1, 5) {
			emit(fmt.Sprintf("adv %d", r.Pick([]int{4000000000, 8000000000, 3000000000})), "percap-adv")
		}
	}
	emit("dump", "dump")
}

// ttl: pending entries, gc probed at deadline-1, deadline, deadline+1, and the ticker.
func c14GenTTL(r *vh.RNG, emit c14Emit) {
	emit("reset 512 1200", "reset")
	clock := 0
	var deadlines []int
	for i := r.Range(1, 6); i > 0; i-- {
		m := c14Craft(r, r.Range(1, 3), i*9, r.Range(2, 5), c14Payload(r), true)
		emit(fmt.Sprintf("sent %d %d %d %s", m.src, m.mid, m.total, vh.Hex(m.p)), "sent")
		emit(fmt.Sprintf("rx 4096 %s", c14Dg(m.src, m.frames[r.Intn(m.total)])), "ttl-open")
		deadlines = append(deadlines, clock+int(geckoReassemblyTTL))
		if r.Chance(2, 3) {
			d := r.Pick([]int{1, 999, 1000000, 1000000000, 3999999999})
			emit(fmt.Sprintf("adv %d", d), "ttl-adv")
			clock += d
		}
	}
	for k := r.Range(2, 6); k > 0; k-- {
		if r.Chance(1, 2) {
			d := deadlines[r.Intn(len(deadlines))]
			emit(fmt.Sprintf("gc %d", d+r.Pick([]int{-1, 0, 0, 1, 1})), "ttl-gc-boundary")
		} else {
			d := r.Pick([]int{1, 3999999999, 4000000000, 4000000001, 7999999999, 8000000000, 8000000001, 12000000000})
			emit(fmt.Sprintf("adv %d", d), "ttl-adv")
			clock += d
		}
		if r.Chance(1, 3) {
			emit("dump", "dump")
		}
	}
	emit("dump", "dump")
}

// writer: the real WriteTo at size boundaries and in every configuration; its frames are
// then delivered to the receiver (rxm) permuted, duplicated and interleaved.
func c14GenWriter(r *vh.RNG, emit c14Emit) {
	cfg := c14Cfg(r)
	emit(fmt.Sprintf("reset %d %d", cfg[0], cfg[1]), "reset")
	n := r.Range(2, 8)
	for i := 0; i < n; i++ {
		l := r.Pick(c14Lens)
		if r.Chance(1, 3) {
			l = r.Range(1, 1500)
		}
		if r.Chance(1, 6) {
			l = cfg[1] - 13 + r.Range(-2, 2) // chunk alone at the size limit (when sent in 1..2 pieces)
			if l < 1 {
				l = 1
			}
		}
		p := r.Bytes(l)
		tag := "tx-long"
		switch {
		case r.Chance(1, 6):
			p[0] &= 0x7f
			tag = "tx-short"
		default:
			p[0] |= 0x80
		}
		if r.Chance(1, 30) {
			p = nil
			tag = "tx-empty"
		}
		emit(fmt.Sprintf("tx %d %s", r.Range(1, 3), vh.Hex(p)), tag)
	}
	// deliver: all (message, chunk) pairs with chunk index up to 7 (taken modulo the real count)
	var refs []string
	for m := 0; m < n; m++ {
		for i := 0; i < 8; i++ {
			refs = append(refs, fmt.Sprintf("%d.%d", m, i))
		}
	}
	for i := len(refs) - 1; i > 0; i-- {
		j := r.Intn(i + 1)
		refs[i], refs[j] = refs[j], refs[i]
	}
	for i := 0; i < len(refs); {
		k := r.Range(1, 4)
		if i+k > len(refs) {
			k = len(refs) - i
		}
		emit("rxm 4096 "+strings.Join(refs[i:i+k], " "), "rxm")
		i += k
	}
	emit("dump", "dump")
}

// codec / config / end-to-end: stateless ops.
func c14GenCodec(r *vh.RNG, emit c14Emit) {
	for k := r.Range(3, 10); k > 0; k-- {
		switch r.Intn(6) {
		case 0, 1: // decodeFrame on well- and ill-formed input
			var d []byte
			if r.Bool() {
				total := r.Range(0, 15)
				idx := r.Range(0, 15)
				d = c14Frame(byte(r.Intn(256)), r.Intn(256), idx, total, r.Bytes(r.Intn(4)), r.Bytes(r.Intn(6)))
				if r.Chance(1, 3) {
					d[3], d[4] = byte(r.Intn(2)), byte(r.Intn(256))
				}
				if r.Chance(1, 4) {
					d = d[:r.Intn(len(d)+1)]
				}
			} else {
				d = r.Bytes(r.Intn(12))
			}
			emit("dec "+vh.Hex(d), "dec")
		case 2, 3: // encodeFrame with any header and buffer size
			pad := r.Pick([]int{0, 1, 2, 255, 256, 300})
			pl := r.Bytes(r.Intn(8))
			need := 5 + pad + len(pl)
			outLen := need
			if r.Chance(1, 3) {
				outLen = need + r.Range(-3, 3)
				if outLen < 0 {
					outLen = 0
				}
			}
			emit(fmt.Sprintf("enc %d %d %d %d %d %s", pad, r.Intn(256), r.Range(0, 9), r.Range(0, 10), outLen, vh.Hex(pl)), "enc")
		case 4:
			vals := []int{-1, 0, 1, 13, 512, 1200, 1201, 2048, 2049}
			emit(fmt.Sprintf("wrap %d %d", r.Pick(vals), r.Pick(vals)), "wrap")
		default:
			cfg := c14Cfg(r)
			l := r.Pick(c14Lens)
			if r.Bool() {
				l = r.Range(1, 1500)
			}
			p := r.Bytes(l)
			if r.Chance(1, 5) {
				p[0] &= 0x7f
			} else {
				p[0] |= 0x80
			}
			emit(fmt.Sprintf("e2e %d %d %s", cfg[0], cfg[1], vh.Hex(p)), "e2e")
		}
	}
}

// global: more than geckoMaxReassembly pending messages from many sources → oldest-eviction
// (with ties), then completion, expiry, and a refill.
func c14GenGlobal(r *vh.RNG, emit c14Emit) {
	emit("reset 512 1200", "reset")
	nsrc := geckoMaxReassembly/geckoMaxPerSource + r.Range(4, 24)
	type ref struct{ src, mid, total int }
	// the message under a key is a function of the key, so that every chunk that ever arrives
	// under it belongs to the one declared message
	chunk := func(x ref, i int) []byte { return []byte{byte(x.src), byte(x.src >> 8), byte(x.mid), byte(i)} }
	frame := func(x ref, i int) string { return c14Dg(x.src, c14Frame(0x80, x.mid, i, x.total, nil, chunk(x, i))) }
	declared := map[[2]int]int{}
	declare := func(x ref) ref {
		if t, ok := declared[[2]int{x.src, x.mid}]; ok {
			x.total = t
			return x
		}
		declared[[2]int{x.src, x.mid}] = x.total
		var p []byte
		for i := 0; i < x.total; i++ {
			p = append(p, chunk(x, i)...)
		}
		emit(fmt.Sprintf("sent %d %d %d %s", x.src, x.mid, x.total, vh.Hex(p)), "sent")
		return x
	}
	var open []ref
	batch := r.Pick([]int{8, 64, 500, 5000})
	cnt := 0
	var parts []string
	flush := func() {
		if len(parts) > 0 {
			emit("rx 4096 "+strings.Join(parts, " "), "global-open")
			parts = nil
		}
	}
	for s := 1; s <= nsrc; s++ {
		for j := 0; j < geckoMaxPerSource; j++ {
			x := ref{s, (s*7 + j) % 256, 2 + (s+j)%7} // declared (`sent`) when it is completed below
			parts = append(parts, frame(x, r.Intn(x.total)))
			open = append(open, x)
			cnt++
			if len(parts) == 8 {
				flush()
			}
			if cnt%batch == 0 {
				flush()
				emit("adv 1000", "global-adv")
			}
		}
	}
	flush()
	// over the cap now: complete old and new entries, open more from fresh sources
	for k := 0; k < 60; k++ {
		x := declare(open[r.Intn(len(open))])
		var fr []string
		for i := 0; i < x.total; i++ {
			fr = append(fr, frame(x, i))
		}
		emit("rx 4096 "+strings.Join(fr, " "), "global-touch")
		if r.Chance(1, 6) {
			x := declare(ref{nsrc + 1 + r.Intn(50), r.Intn(256), 2})
			emit("rx 4096 "+frame(x, 0), "global-new")
		}
	}
	emit("adv 4000000000", "global-adv")
	emit(fmt.Sprintf("gc %d", 8000000000+r.Intn(5000)), "global-gc")
	for k := 0; k < 20; k++ {
		s := r.Range(1, nsrc)
		x := declare(ref{s, (s*7 + 100 + r.Intn(100)) % 256, 2}) // ids the sources did not use above
		emit("rx 4096 "+frame(x, 0), "global-refill")
	}
	emit("adv 8000000001", "global-adv")
	emit("dump", "dump")
}

// selfevict: the table is filled to the global cap while the OLDEST entries belong to sources that are
// below their own cap; those sources then open new messages, so that evictOldestLocked removes an entry
// of the very source that is inserting (several rounds, one source owning a single entry, ties or not),
// followed by completion of the new messages and expiry of everything (no counter may stay behind).
func c14GenSelfEvict(r *vh.RNG, emit c14Emit) {
	emit("reset 512 1200", "reset")
	type ref struct{ src, mid, total int }
	chunk := func(x ref, i int) []byte { return []byte{byte(x.src), byte(x.src >> 8), byte(x.mid), byte(i)} }
	frame := func(x ref, i int) string { return c14Dg(x.src, c14Frame(0x80, x.mid, i, x.total, nil, chunk(x, i))) }
	// old sources: how many entries each owns before the fill (all below geckoMaxPerSource)
	olds := []struct{ src, n int }{{9001, r.Range(2, 4)}, {9002, 1}, {9003, geckoMaxPerSource - 1}, {9004, r.Range(1, 3)}}
	spaced := r.Bool() // distinct deadlines, or ties among the entries of one source
	count := 0
	for _, o := range olds {
		for j := 0; j < o.n; j++ {
			emit("rx 4096 "+frame(ref{o.src, j, 2}, 0), "selfevict-old")
			count++
			if spaced {
				emit("adv 1000", "selfevict-adv")
			}
		}
		emit("adv 1000", "selfevict-adv") // sources are strictly ordered by age; within one source ties are allowed
	}
	emit("adv 1000000", "selfevict-adv")
	// fill to exactly the global cap with younger entries of other sources
	var parts []string
	for s := 1; count < geckoMaxReassembly; s++ {
		for j := 0; j < geckoMaxPerSource && count < geckoMaxReassembly; j++ {
			parts = append(parts, frame(ref{s, (s + j) % 256, 2 + (s+j)%7}, 0))
			count++
			if len(parts) == 32 {
				emit("rx 4096 "+strings.Join(parts, " "), "selfevict-fill")
				parts = nil
			}
		}
	}
	if len(parts) > 0 {
		emit("rx 4096 "+strings.Join(parts, " "), "selfevict-fill")
	}
	// rounds: each old source opens new messages; every admission evicts the oldest entry — its own
	var fresh []ref
	for _, o := range olds { // in age order: the inserting source owns the oldest entries of the table
		for j := 0; j < o.n; j++ {
			x := ref{o.src, 100 + j, 2}
			fresh = append(fresh, x)
			emit("rx 4096 "+frame(x, 0), "selfevict-round")
		}
	}
	// one more source at its cap must be refused, a new source is admitted (evicting someone else's entry)
	emit("rx 4096 "+frame(ref{1, 200, 2}, 0), "selfevict-refused")
	emit("rx 4096 "+frame(ref{9100, 1, 2}, 0), "selfevict-other")
	// complete some of the new messages, then let everything expire: no perSource record may remain
	for _, x := range fresh {
		if r.Chance(1, 2) {
			p := append(chunk(x, 0), chunk(x, 1)...)
			emit(fmt.Sprintf("sent %d %d %d %s", x.src, x.mid, x.total, vh.Hex(p)), "sent")
			emit("rx 4096 "+frame(x, 1), "selfevict-complete")
		}
	}
	emit("adv 4000000000", "selfevict-adv")
	emit("adv 8000000001", "selfevict-adv")
	emit("dump", "dump")
}

// pin: an attacker replays captured chunks more often than the TTL, across several TTLs, with ticks and
// direct gc runs in between: every pending message must still be forgotten after its TTL, and the source's
// slots must be free again (it was at its cap; a new message is then admitted).
func c14GenPin(r *vh.RNG, emit c14Emit) {
	emit("reset 512 1200", "reset")
	src := r.Range(1, 3)
	n := r.Pick([]int{1, 3, geckoMaxPerSource, geckoMaxPerSource})
	type ref struct{ mid, total, idx int }
	var ms []ref
	frame := func(x ref, i int) string {
		return c14Dg(src, c14Frame(0x80, x.mid, i, x.total, nil, []byte{byte(src), byte(x.mid), byte(i)}))
	}
	for j := 0; j < n; j++ {
		x := ref{(40 + j*31) % 256, r.Range(2, 5), 0}
		x.idx = r.Intn(x.total)
		ms = append(ms, x)
		emit("rx 4096 "+frame(x, x.idx), "pin-open")
	}
	if n == geckoMaxPerSource {
		emit("rx 4096 "+frame(ref{250, 2, 0}, 0), "pin-refused") // at the cap
	}
	replay := func() {
		// the same chunk again (a duplicate), sometimes a chunk with a wrong count (dropped as inconsistent),
		// several in one ReadFrom round
		var parts []string
		for _, x := range ms {
			if r.Chance(3, 4) {
				parts = append(parts, frame(x, x.idx))
			}
			if r.Chance(1, 6) {
				parts = append(parts, frame(ref{x.mid, 2 + (x.total-1)%7, 0}, 0))
			}
		}
		if len(parts) == 0 {
			parts = append(parts, frame(ms[0], ms[0].idx))
		}
		emit("rx 4096 "+strings.Join(parts, " "), "pin-replay")
	}
	// phase 1: replays every < TTL until just before arrival + TTL + TTL/2; at that instant the messages
	// must be gone and the source must have its slots back: a full set of new messages is admitted
	for _, d := range []int{3000000000, 3000000000, 3000000000, 2900000000} {
		emit(fmt.Sprintf("adv %d", d), "pin-adv")
		replay()
	}
	emit("adv 100000000", "pin-adv") // now = first arrival + 12 s
	for j := 0; j < geckoMaxPerSource; j++ {
		emit("rx 4096 "+frame(ref{(7 + j*13) % 256, 2, 0}, 0), "pin-new")
	}
	// phase 2: keep replaying across several TTLs at a random interval, gc runs in between (in the code as it
	// is a replay after expiry opens a NEW entry: the oracle follows entries by identity, not by key)
	step := r.Pick([]int{1000000000, 3000000000, 3999999999, 7000000000, 7999999999})
	clock := 12000000000
	for clock < 6*int(geckoReassemblyTTL) {
		emit(fmt.Sprintf("adv %d", step), "pin-adv")
		clock += step
		replay()
		if r.Chance(1, 3) {
			emit(fmt.Sprintf("gc %d", clock), "pin-gc")
		}
	}
	emit("dump", "dump")
}

// wrap: one real sender writes more than 256 packets (the 8-bit id wraps); some messages stay
// incomplete, so that a later message with the same id may meet them.
func c14GenWrap(r *vh.RNG, emit c14Emit, count int) {
	emit("reset 512 1200", "reset")
	snd := 1
	for i := 0; i < count; i++ {
		p := r.Bytes(r.Range(1, 60))
		p[0] |= 0x80
		emit(fmt.Sprintf("tx %d %s", snd, vh.Hex(p)), "wrap-tx")
		// deliver all chunks, or (sometimes) all but one: that message stays pending
		if r.Chance(1, 40) {
			emit(fmt.Sprintf("rxm 4096 %d.x%d", i, r.Intn(8)), "wrap-rxm-partial")
		} else {
			emit(fmt.Sprintf("rxm 4096 %d.a", i), "wrap-rxm")
		}
	}
	emit("dump", "dump")
}

func (c *c14Comp) Gen(r *vh.RNG, n int, emit func(op string, tags ...string)) {
	count := 0
	em := func(op string, tags ...string) {
		count++
		emit(op, tags...)
	}
	if n >= 3000 {
		c14GenSelfEvict(r.Fork(), em)
		c14GenGlobal(r.Fork(), em)
		c14GenWrap(r.Fork(), em, 300)
	}
	if n >= 50000 {
		for i := 0; i < 3; i++ {
			c14GenSelfEvict(r.Fork(), em)
			c14GenGlobal(r.Fork(), em)
			c14GenWrap(r.Fork(), em, 600)
		}
	}
	for count < n {
		k := r.Intn(100)
		switch {
		case k < 40:
			c14GenMix(r, em)
		case k < 50:
			c14GenReuse(r, em)
		case k < 60:
			c14GenPerCap(r, em)
		case k < 66:
			c14GenTTL(r, em)
		case k < 72:
			c14GenPin(r, em)
		case k < 85:
			c14GenWriter(r, em)
		default:
			c14GenCodec(r, em)
		}
	}
}
