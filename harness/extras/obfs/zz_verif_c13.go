//go:build verif

package obfs

import (
	"math/rand"
	"net"
)

// VerifC13Consts exposes the constants the C13 theorems are stated over
// (regenerated into lean/Hy/Gen/Extras.lean on every run).
func VerifC13Consts() map[string]any {
	return map[string]any{
		"smSaltLen":     smSaltLen,
		"smPSKMinLen":   smPSKMinLen,
		"smKeyLen":      smKeyLen,
		"udpBufferSize": udpBufferSize,
	}
}

// VerifC13Kind says which wrapper type wrapPacketConn chose for a connection returned
// by WrapPacketConnSalamander: "plain" (*obfsPacketConn), "udp" (*obfsPacketConnUDP).
func VerifC13Kind(pc net.PacketConn) string {
	switch pc.(type) {
	case *obfsPacketConn:
		return "plain"
	case *obfsPacketConnUDP:
		return "udp"
	}
	return "other"
}

// VerifC13SetRand replaces the time-seeded salt source of the Salamander obfuscator
// inside a wrapped connection by a seeded one, so that a run is reproducible. Nothing
// else of the object is touched; the salt actually used is read off the wire by the
// harness and handed to the model. Called right after construction, before the object is
// shared with any goroutine, so no lock is taken (and the shim does not depend on how the
// obfuscator locks).
func VerifC13SetRand(pc net.PacketConn, seed int64) bool {
	var opc *obfsPacketConn
	switch c := pc.(type) {
	case *obfsPacketConn:
		opc = c
	case *obfsPacketConnUDP:
		opc = c.obfsPacketConn
	default:
		return false
	}
	ob, ok := opc.Obfs.(*salamanderObfuscator)
	if !ok {
		return false
	}
	ob.RandSrc = rand.New(rand.NewSource(seed))
	return true
}
