//go:build verif

package obfs

// VerifC14Consts exposes every constant of the Gecko layer (and the Salamander salt
// length its padding arithmetic depends on) to the fact extractor; the Lean theorems
// of C14 are stated over these names (lean/Hy/Gen/Extras.lean, regenerated on every run).
func VerifC14Consts() map[string]any {
	return map[string]any{
		"geckoReassemblyTTL":     int64(geckoReassemblyTTL), // nanoseconds
		"geckoMaxReassembly":     geckoMaxReassembly,
		"geckoMaxPerSource":      geckoMaxPerSource,
		"geckoBufferSize":        geckoBufferSize,
		"geckoDefaultMinPacket":  geckoDefaultMinPacket,
		"geckoDefaultMaxPacket":  geckoDefaultMaxPacket,
		"geckoFlagFragment":      geckoFlagFragment,
		"geckoHeaderSize":        geckoHeaderSize,
		"geckoMinFragmentChunks": geckoMinFragmentChunks,
		"geckoMaxFragmentChunks": geckoMaxFragmentChunks,
		"smSaltLen":              smSaltLen,
	}
}
