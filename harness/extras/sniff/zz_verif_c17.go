//go:build verif

package sniff

import (
	"bufio"

	quicInternal "github.com/apernet/hysteria/extras/v2/sniff/internal/quic"
)

// C17 shim (in-package: internal/quic is importable only from here).

// VerifConsts: constants of sniff.go and of the QUIC sniffer, plus the size of the
// first Read a default bufio.Reader issues (the tee reader's probe must fit into it).
func VerifConsts() map[string]any {
	m := quicInternal.VerifConsts()
	m["sniff_maxHTTPHeaderBytes"] = uint64(sniffMaxHTTPHeaderBytes)
	m["sniff_bufioSize"] = uint64(bufio.NewReader(nil).Size())
	return m
}

// VerifReadCryptoPayload is quic.ReadCryptoPayload (works on the slice it is given).
func VerifReadCryptoPayload(packet []byte) ([]byte, error) {
	return quicInternal.ReadCryptoPayload(packet)
}

func VerifSortPerm(offsets []int64) []int { return quicInternal.VerifSortPerm(offsets) }
