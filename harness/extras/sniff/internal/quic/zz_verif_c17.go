//go:build verif

package quic

import "sort"

// C17 / C03(D2) shim: package quic is internal to extras/sniff, so what the harness
// needs is exported here and re-exported by extras/sniff/zz_verif_c17.go.

// VerifConsts are the limits the model's constants are tied to.
func VerifConsts() map[string]any {
	return map[string]any{
		"sniff_quicMaxCryptoFrameDataLen": uint64(maxCryptoFrameDataLen),
		"sniff_quicMaxCryptoPayloadLen":   uint64(maxCryptoPayloadLen),
		"sniff_quicV1":                    uint64(V1),
		"sniff_quicV2":                    uint64(V2),
		"sniff_quicPaddingFrameType":      uint64(paddingFrameType),
		"sniff_quicPingFrameType":         uint64(pingFrameType),
		"sniff_quicCryptoFrameType":       uint64(cryptoFrameType),
	}
}

// VerifSortPerm returns the order in which assembleCryptoFrames' sort.Slice (same
// algorithm, same less function, same length) leaves frames with these offsets:
// perm[i] = original index of the frame that ends up at position i.
func VerifSortPerm(offsets []int64) []int {
	type fr struct {
		cryptoFrame
		idx int
	}
	frames := make([]fr, len(offsets))
	for i, o := range offsets {
		frames[i] = fr{cryptoFrame{Offset: o}, i}
	}
	sort.Slice(frames, func(i, j int) bool { return frames[i].Offset < frames[j].Offset })
	perm := make([]int, len(frames))
	for i, f := range frames {
		perm[i] = f.idx
	}
	return perm
}
