//go:build verif

package main

// C01/C02 loopback world: the REAL server.NewServer on a 127.0.0.1 UDP socket, fakes for
// Authenticator / Outbound / EventLogger / TrafficLogger / RequestHook / MasqHandler that log
// every call keyed by the connection (its remote address = the raw client's local port), and
// raw quic-go clients that speak HTTP/3 by hand (HEADERS frames built with qpack, so that
// :method/:authority/:path reach the server byte for byte) and open raw 0x401 streams and
// UDPMessage datagrams.  Nothing here dials a real socket other than the loopback QUIC one.

import (
	"bytes"
	"context"
	"crypto/ecdsa"
	"crypto/elliptic"
	"crypto/rand"
	"crypto/tls"
	"crypto/x509"
	"errors"
	"fmt"
	"io"
	"math/big"
	"net"
	"net/http"
	"os"
	"runtime"
	"sort"
	"strconv"
	"strings"
	"sync"
	"time"

	"github.com/apernet/quic-go"
	"github.com/apernet/quic-go/quicvarint"
	"github.com/quic-go/qpack"

	"github.com/apernet/hysteria/core/v2/internal/protocol"
	"github.com/apernet/hysteria/core/v2/server"
)

const (
	awSafety   = 4 * time.Second // safety net on every client read (a hit shows up as an outcome "timeout")
	awPositive = 2 * time.Second // bounded wait for an effect that is expected to come
)

var (
	awCertOnce sync.Once
	awCert     tls.Certificate
)

func awTestCert() tls.Certificate {
	awCertOnce.Do(func() {
		key, err := ecdsa.GenerateKey(elliptic.P256(), rand.Reader)
		if err != nil {
			panic(err)
		}
		tpl := &x509.Certificate{
			SerialNumber: big.NewInt(1),
			NotBefore:    time.Now().Add(-time.Hour),
			NotAfter:     time.Now().Add(24 * time.Hour),
			DNSNames:     []string{"localhost"},
			KeyUsage:     x509.KeyUsageDigitalSignature,
			ExtKeyUsage:  []x509.ExtKeyUsage{x509.ExtKeyUsageServerAuth},
		}
		der, err := x509.CreateCertificate(rand.Reader, tpl, tpl, &key.PublicKey, key)
		if err != nil {
			panic(err)
		}
		awCert = tls.Certificate{Certificate: [][]byte{der}, PrivateKey: key}
	})
	return awCert
}

// ---------------------------------------------------------------- world + effect log

type awEffect struct {
	conn int // -1: not attributable to a connection
	s    string
}

type awSeen struct { // a request as the masquerade handler saw it
	Method, Host, Path, RawQuery string
	HyHeaders                    []string // sorted "Name=value" of Hysteria-* request headers
}

type awWorld struct {
	cfg awCfg

	mu      sync.Mutex
	cond    *sync.Cond
	log     []awEffect
	ports   map[int]int // client local UDP port -> connection index
	blocked map[int]chan struct{}
	entered map[int]bool
	seen    map[int][]awSeen // per connection: requests the masquerade handler saw, in order
	traffic map[string][2]uint64
	oracle  []string // attribution problems noticed by the fakes themselves

	srv      server.Server
	srvAddr  *net.UDPAddr
	serveErr chan error
	clients  map[int]*awClient
}

type awCfg struct {
	udp     bool // !DisableUDP
	hook    bool // RequestHook installed (hooks addresses containing ".hook.")
	masq    int  // 0 = nil MasqHandler (default 404), 1 = logging wrapper around http.NotFound, 2 = custom request-dependent handler
	tl      bool // TrafficLogger installed
	maxRx   uint64
	rxAuto  bool // IgnoreClientBandwidth
	noEvent bool // EventLogger nil
}

func (w *awWorld) emit(c int, format string, a ...any) {
	w.mu.Lock()
	w.log = append(w.log, awEffect{c, fmt.Sprintf(format, a...)})
	w.cond.Broadcast()
	w.mu.Unlock()
}

func (w *awWorld) flag(format string, a ...any) {
	w.mu.Lock()
	w.oracle = append(w.oracle, fmt.Sprintf(format, a...))
	w.mu.Unlock()
}

func (w *awWorld) connOfAddr(addr net.Addr) int {
	ua, ok := addr.(*net.UDPAddr)
	if !ok {
		return -1
	}
	w.mu.Lock()
	defer w.mu.Unlock()
	if c, ok := w.ports[ua.Port]; ok {
		return c
	}
	return -1
}

// every requested address carries the index of the connection that SENT it: "c<i>x<k>.<kind>.test:<port>"
func awConnOfReqAddr(a string) int {
	if len(a) < 2 || a[0] != 'c' {
		return -1
	}
	j := 1
	for j < len(a) && a[j] >= '0' && a[j] <= '9' {
		j++
	}
	n, err := strconv.Atoi(a[1:j])
	if err != nil {
		return -1
	}
	return n
}

func awConnOfID(id string) int {
	if !strings.HasPrefix(id, "id") {
		return -1
	}
	n, err := strconv.Atoi(id[2:])
	if err != nil {
		return -1
	}
	return n
}

// waitFor blocks until pred holds on the log (called with the lock held) or d elapses.
func (w *awWorld) waitFor(d time.Duration, pred func() bool) bool {
	deadline := time.Now().Add(d)
	t := time.AfterFunc(d, func() { w.mu.Lock(); w.cond.Broadcast(); w.mu.Unlock() })
	defer t.Stop()
	w.mu.Lock()
	defer w.mu.Unlock()
	for !pred() {
		if time.Now().After(deadline) {
			return false
		}
		w.cond.Wait()
	}
	return true
}

func (w *awWorld) countLocked(c int, prefix string) int {
	n := 0
	for _, e := range w.log {
		if e.conn == c && strings.HasPrefix(e.s, prefix) {
			n++
		}
	}
	return n
}

// ---- Authenticator

func (w *awWorld) Authenticate(addr net.Addr, auth string, tx uint64) (bool, string) {
	c := w.connOfAddr(addr)
	w.emit(c, "authCall(%s)", awTok(auth))
	if strings.HasSuffix(auth, "!") {
		ch := make(chan struct{})
		w.mu.Lock()
		w.blocked[c] = ch
		w.entered[c] = true
		w.cond.Broadcast()
		w.mu.Unlock()
		<-ch
	}
	ok := strings.HasPrefix(auth, "ok")
	if ok {
		w.emit(c, "verdict(1)")
	} else {
		w.emit(c, "verdict(0)")
	}
	return ok, fmt.Sprintf("id%d", c)
}

func (w *awWorld) release(c int) bool {
	w.mu.Lock()
	ch := w.blocked[c]
	delete(w.blocked, c)
	delete(w.entered, c)
	w.mu.Unlock()
	if ch != nil {
		close(ch)
		return true
	}
	return false
}

// ---- Outbound

type awOutbound struct{ w *awWorld }

func (o awOutbound) TCP(reqAddr string) (net.Conn, error) {
	c := awConnOfReqAddr(reqAddr)
	o.w.emit(c, "dialTCP(%s)", awTok(reqAddr))
	if strings.Contains(reqAddr, ".fail.") {
		return nil, errors.New("verif: refused")
	}
	f := &awTCP{w: o.w, c: c, addr: reqAddr}
	f.cond = sync.NewCond(&f.mu)
	return f, nil
}

func (o awOutbound) UDP(reqAddr string) (server.UDPConn, error) {
	c := awConnOfReqAddr(reqAddr)
	o.w.emit(c, "dialUDP(%s)", awTok(reqAddr))
	if strings.Contains(reqAddr, ".fail.") {
		return nil, errors.New("verif: refused")
	}
	return &awUDP{w: o.w, c: c, ch: make(chan awPkt, 64), done: make(chan struct{})}, nil
}

func (o awOutbound) CheckUDP(reqAddr string) error { return nil }

// awTCP is the "remote" of a proxied TCP connection: it echoes what it receives and
// reports the byte counts when the server closes it.
type awTCP struct {
	w      *awWorld
	c      int
	addr   string
	mu     sync.Mutex
	cond   *sync.Cond
	buf    []byte
	up     int
	down   int
	closed bool
}

func (f *awTCP) Write(b []byte) (int, error) {
	f.mu.Lock()
	defer f.mu.Unlock()
	if f.closed {
		return 0, io.ErrClosedPipe
	}
	f.buf = append(f.buf, b...)
	f.up += len(b)
	f.cond.Broadcast()
	return len(b), nil
}

func (f *awTCP) Read(p []byte) (int, error) {
	f.mu.Lock()
	defer f.mu.Unlock()
	for len(f.buf) == 0 && !f.closed {
		f.cond.Wait()
	}
	if len(f.buf) == 0 {
		return 0, io.ErrClosedPipe
	}
	n := copy(p, f.buf)
	f.buf = f.buf[n:]
	f.down += n
	return n, nil
}

func (f *awTCP) Close() error {
	f.mu.Lock()
	if f.closed {
		f.mu.Unlock()
		return nil
	}
	f.closed = true
	up, down := f.up, f.down
	f.cond.Broadcast()
	f.mu.Unlock()
	f.w.emit(f.c, "relay(%s,%d,%d)", awTok(f.addr), up, down)
	return nil
}

func (f *awTCP) LocalAddr() net.Addr                { return &net.TCPAddr{IP: net.IPv4(127, 0, 0, 1)} }
func (f *awTCP) RemoteAddr() net.Addr               { return &net.TCPAddr{IP: net.IPv4(127, 0, 0, 1)} }
func (f *awTCP) SetDeadline(t time.Time) error      { return nil }
func (f *awTCP) SetReadDeadline(t time.Time) error  { return nil }
func (f *awTCP) SetWriteDeadline(t time.Time) error { return nil }

type awPkt struct {
	b    []byte
	addr string
}

// awUDP is the "remote" of a UDP session: it echoes each packet back from the address it was sent to.
type awUDP struct {
	w    *awWorld
	c    int
	ch   chan awPkt
	done chan struct{}
	once sync.Once
}

func (u *awUDP) WriteTo(b []byte, addr string) (int, error) {
	u.w.emit(u.c, "udpWrite(%s,%d)", awTok(addr), len(b))
	select {
	case u.ch <- awPkt{append([]byte(nil), b...), addr}:
	case <-u.done:
		return 0, io.ErrClosedPipe
	default:
	}
	return len(b), nil
}

func (u *awUDP) ReadFrom(b []byte) (int, string, error) {
	select {
	case p := <-u.ch:
		return copy(b, p.b), p.addr, nil
	case <-u.done:
		return 0, "", io.ErrClosedPipe
	}
}

func (u *awUDP) Close() error { u.once.Do(func() { close(u.done) }); return nil }

// ---- EventLogger

type awEvents struct{ w *awWorld }

func (e awEvents) Connect(addr net.Addr, id string, tx uint64) {
	c := e.w.connOfAddr(addr)
	if awConnOfID(id) != c {
		e.w.flag("O3: Connect logged with id %q for connection %d", id, c)
	}
	e.w.emit(c, "connect")
}

func (e awEvents) Disconnect(addr net.Addr, id string, err error) {
	e.w.emit(e.w.connOfAddr(addr), "disconnect")
}

func (e awEvents) TCPRequest(addr net.Addr, id, reqAddr string) {
	c := e.w.connOfAddr(addr)
	if s := awConnOfReqAddr(reqAddr); s != c {
		e.w.flag("O3: TCP request %q sent on connection %d was handled as connection %d", reqAddr, s, c)
	}
	e.w.emit(c, "tcpReq(%s)", awTok(reqAddr))
}

func (e awEvents) TCPError(addr net.Addr, id, reqAddr string, err error) {}

func (e awEvents) UDPRequest(addr net.Addr, id string, sessionID uint32, reqAddr string) {
	c := e.w.connOfAddr(addr)
	if s := awConnOfReqAddr(reqAddr); s != c {
		e.w.flag("O3: UDP request %q sent on connection %d was handled as connection %d", reqAddr, s, c)
	}
	e.w.emit(c, "udpReq(%s)", awTok(reqAddr))
}

func (e awEvents) UDPError(addr net.Addr, id string, sessionID uint32, err error) {}

// ---- TrafficLogger

type awTraffic struct{ w *awWorld }

func (t awTraffic) LogTraffic(id string, tx, rx uint64) bool {
	t.w.mu.Lock()
	v := t.w.traffic[id]
	v[0] += tx
	v[1] += rx
	t.w.traffic[id] = v
	t.w.mu.Unlock()
	return true
}

func (t awTraffic) LogOnlineState(id string, online bool) {
	if online {
		t.w.emit(awConnOfID(id), "online+")
	} else {
		t.w.emit(awConnOfID(id), "online-")
	}
}

func (t awTraffic) TraceStream(stream server.HyStream, stats *server.StreamStats) {}
func (t awTraffic) UntraceStream(stream server.HyStream)                          {}

// ---- RequestHook: hooks addresses containing ".hook." (never reads, never rewrites)

type awHook struct{ w *awWorld }

func (h awHook) Check(isUDP bool, reqAddr string) bool {
	return strings.Contains(reqAddr, ".hook.")
}
func (h awHook) TCP(stream server.HyStream, reqAddr *string) ([]byte, error) { return nil, nil }
func (h awHook) UDP(data []byte, reqAddr *string) error                      { return nil }

// ---- masquerade handlers

func awHyHeaders(h http.Header) []string {
	var out []string
	for k, vs := range h {
		if strings.HasPrefix(strings.ToLower(k), "hysteria-") {
			out = append(out, k+"="+strings.Join(vs, "|"))
		}
	}
	sort.Strings(out)
	return out
}

// awCustomMasq answers with a status, headers and body that all depend on the request.
func awCustomMasq(rw http.ResponseWriter, r *http.Request) {
	sum := 0
	for _, s := range []string{r.Method, r.Host, r.URL.Path, r.URL.RawQuery} {
		for i := 0; i < len(s); i++ {
			sum = (sum*31 + int(s[i])) % 1000003
		}
	}
	statuses := []int{200, 200, 404, 403, 301, 500, 204, 418}
	st := statuses[sum%len(statuses)]
	rw.Header().Set("X-Masq-Method", r.Method)
	rw.Header().Set("X-Masq-Host", r.Host)
	rw.Header().Set("X-Masq-Path", r.URL.Path)
	rw.Header().Set("X-Masq-Query", r.URL.RawQuery)
	rw.Header().Set("X-Masq-Hy", strings.Join(awHyHeaders(r.Header), ";"))
	nBig, bytesBig := 0, 0
	for k, vs := range r.Header {
		lk := strings.ToLower(k)
		if lk == "cookie" || strings.HasPrefix(lk, "x-big") || strings.HasPrefix(lk, "x-small") {
			for _, v := range vs {
				nBig++
				bytesBig += len(v)
			}
		}
	}
	rw.Header().Set("X-Masq-Big", fmt.Sprintf("%d/%d", nBig, bytesBig))
	rw.Header().Set("Content-Type", "text/html; charset=utf-8")
	if st == 301 {
		rw.Header().Set("Location", "https://"+r.Host+"/moved")
	}
	rw.WriteHeader(st)
	if st != 204 {
		fmt.Fprintf(rw, "<html><body>%s %s%s sum=%d</body></html>\n", r.Method, r.Host, r.URL.Path, sum)
	}
}

type awMasq struct {
	w    *awWorld
	kind int
}

func (m awMasq) ServeHTTP(rw http.ResponseWriter, r *http.Request) {
	c := -1
	if h, p, err := net.SplitHostPort(r.RemoteAddr); err == nil && h != "" {
		if pn, err := strconv.Atoi(p); err == nil {
			c = m.w.connOfAddr(&net.UDPAddr{Port: pn})
		}
	}
	m.w.mu.Lock()
	m.w.seen[c] = append(m.w.seen[c], awSeen{r.Method, r.Host, r.URL.Path, r.URL.RawQuery, awHyHeaders(r.Header)})
	m.w.mu.Unlock()
	m.w.emit(c, "masq")
	if m.kind == 2 {
		awCustomMasq(rw, r)
	} else {
		http.NotFound(rw, r)
	}
}

// ---------------------------------------------------------------- server lifecycle

func awNewWorld(cfg awCfg) (*awWorld, error) {
	w := &awWorld{cfg: cfg, ports: map[int]int{}, blocked: map[int]chan struct{}{}, entered: map[int]bool{},
		seen: map[int][]awSeen{}, traffic: map[string][2]uint64{}, clients: map[int]*awClient{}}
	w.cond = sync.NewCond(&w.mu)
	pc, err := net.ListenUDP("udp", &net.UDPAddr{IP: net.IPv4(127, 0, 0, 1), Port: 0})
	if err != nil {
		return nil, err
	}
	w.srvAddr = pc.LocalAddr().(*net.UDPAddr)
	sc := &server.Config{
		TLSConfig:             server.TLSConfig{Certificates: []tls.Certificate{awTestCert()}},
		Conn:                  pc,
		Outbound:              awOutbound{w},
		Authenticator:         w,
		DisableUDP:            !cfg.udp,
		IgnoreClientBandwidth: cfg.rxAuto,
		BandwidthConfig:       server.BandwidthConfig{MaxRx: cfg.maxRx},
	}
	if !cfg.noEvent {
		sc.EventLogger = awEvents{w}
	}
	if cfg.tl {
		sc.TrafficLogger = awTraffic{w}
	}
	if cfg.hook {
		sc.RequestHook = awHook{w}
	}
	if cfg.masq != 0 {
		sc.MasqHandler = awMasq{w, cfg.masq}
	}
	s, err := server.NewServer(sc)
	if err != nil {
		pc.Close()
		return nil, err
	}
	w.srv = s
	w.serveErr = make(chan error, 1)
	go func() { w.serveErr <- s.Serve() }()
	return w, nil
}

// shutdown closes every client connection and the server and waits (bounded) until the
// server side has wound down, so that the effect log is final.
func (w *awWorld) shutdown(baseGoroutines int) {
	w.mu.Lock()
	var cs []int
	for c := range w.blocked {
		cs = append(cs, c)
	}
	w.mu.Unlock()
	for _, c := range cs {
		w.release(c)
	}
	for _, cl := range w.clients {
		cl.close()
	}
	_ = w.srv.Close()
	select {
	case <-w.serveErr:
	case <-time.After(awPositive):
	}
	for _, cl := range w.clients {
		cl.teardown()
	}
	// settle: goroutines started by this history have exited (or 150 ms have passed)
	deadline := time.Now().Add(150 * time.Millisecond)
	for runtime.NumGoroutine() > baseGoroutines && time.Now().Before(deadline) {
		time.Sleep(500 * time.Microsecond)
	}
	if os.Getenv("VERIF_AW_DEBUG") != "" {
		fmt.Fprintf(os.Stderr, "shutdown: goroutines %d base %d settle %v\n", runtime.NumGoroutine(), baseGoroutines, time.Until(deadline))
		if runtime.NumGoroutine() > baseGoroutines {
			buf := make([]byte, 1<<16)
			fmt.Fprintf(os.Stderr, "%s\n", buf[:runtime.Stack(buf, true)])
		}
	}
}

// ---------------------------------------------------------------- raw client

type awClient struct {
	w    *awWorld
	idx  int
	pc   *net.UDPConn
	tr   *quic.Transport
	conn *quic.Conn

	mu      sync.Mutex
	replies int // UDPMessage datagrams received from the server
	badDg   int // datagrams received that do not parse as a UDPMessage
	sent    int // datagrams sent
	nextSID uint32
	sawUDP  bool // a 233 with Hysteria-UDP: true was received on this connection
	saw233  bool
	closed  bool
	pending chan awResp // response of a request whose authenticator call is blocked
	queued  chan awResp // response of a second auth request sent while the first is blocked
	// bookkeeping of the blocked / queued request (set by the runner)
	pendSpec, queuedSpec awReqSpec
	pendBefore           int
	pendAcc              bool
	cond                 *sync.Cond
}

type awResp struct {
	status int
	header http.Header
	body   []byte
	err    string
}

func (w *awWorld) client(idx int) (*awClient, error) {
	if cl, ok := w.clients[idx]; ok {
		return cl, nil
	}
	pc, err := net.ListenUDP("udp", &net.UDPAddr{IP: net.IPv4(127, 0, 0, 1), Port: 0})
	if err != nil {
		return nil, err
	}
	w.mu.Lock()
	w.ports[pc.LocalAddr().(*net.UDPAddr).Port] = idx
	w.mu.Unlock()
	tr := &quic.Transport{Conn: pc}
	ctx, cancel := context.WithTimeout(context.Background(), awSafety)
	defer cancel()
	conn, err := tr.Dial(ctx, w.srvAddr, &tls.Config{InsecureSkipVerify: true, NextProtos: []string{"h3"}},
		&quic.Config{EnableDatagrams: true, MaxDatagramFrameSize: protocol.MaxDatagramFrameSize, DisablePathManager: true})
	if err != nil {
		tr.Close()
		pc.Close()
		return nil, err
	}
	cl := &awClient{w: w, idx: idx, pc: pc, tr: tr, conn: conn, nextSID: uint32(idx)*1000 + 1}
	cl.cond = sync.NewCond(&cl.mu)
	w.clients[idx] = cl
	// HTTP/3 control stream with an empty SETTINGS frame
	if us, err := conn.OpenUniStream(); err == nil {
		_, _ = us.Write([]byte{0x00, 0x04, 0x00})
	}
	go cl.recvLoop()
	return cl, nil
}

func (cl *awClient) recvLoop() {
	for {
		b, err := cl.conn.ReceiveDatagram(context.Background())
		if err != nil {
			return
		}
		cl.mu.Lock()
		if _, err := protocol.ParseUDPMessage(b); err == nil {
			cl.replies++
		} else {
			cl.badDg++
		}
		cl.cond.Broadcast()
		cl.mu.Unlock()
	}
}

func (cl *awClient) waitReplies(n int, d time.Duration) bool {
	t := time.AfterFunc(d, func() { cl.mu.Lock(); cl.cond.Broadcast(); cl.mu.Unlock() })
	defer t.Stop()
	deadline := time.Now().Add(d)
	cl.mu.Lock()
	defer cl.mu.Unlock()
	for cl.replies < n {
		if time.Now().After(deadline) {
			return false
		}
		cl.cond.Wait()
	}
	return true
}

func (cl *awClient) close() {
	cl.mu.Lock()
	was := cl.closed
	cl.closed = true
	cl.mu.Unlock()
	if !was {
		_ = cl.conn.CloseWithError(0x100, "")
	}
}

func (cl *awClient) teardown() {
	_ = cl.tr.Close()
	_ = cl.pc.Close()
}

// h3 sends one HTTP/3 request by hand and reads the whole response.
func (cl *awClient) h3(method, authority, path string, hdrs [][2]string) awResp {
	str, err := cl.conn.OpenStream()
	if err != nil {
		return awResp{err: "open:" + awErr(err)}
	}
	var hb bytes.Buffer
	enc := qpack.NewEncoder(&hb)
	_ = enc.WriteField(qpack.HeaderField{Name: ":method", Value: method})
	_ = enc.WriteField(qpack.HeaderField{Name: ":scheme", Value: "https"})
	_ = enc.WriteField(qpack.HeaderField{Name: ":authority", Value: authority})
	_ = enc.WriteField(qpack.HeaderField{Name: ":path", Value: path})
	for _, h := range hdrs {
		_ = enc.WriteField(qpack.HeaderField{Name: strings.ToLower(h[0]), Value: h[1]})
	}
	_ = enc.Close()
	var fb []byte
	fb = quicvarint.Append(fb, 0x1)
	fb = quicvarint.Append(fb, uint64(hb.Len()))
	fb = append(fb, hb.Bytes()...)
	if _, err := str.Write(fb); err != nil {
		return awResp{err: "write:" + awErr(err)}
	}
	_ = str.Close()
	_ = str.SetReadDeadline(time.Now().Add(60 * time.Second)) // a blocked authenticator may hold this for a while
	raw, rerr := io.ReadAll(str)
	resp := awResp{header: http.Header{}}
	if rerr != nil {
		resp.err = "read:" + awErr(rerr)
	}
	r := bytes.NewReader(raw)
	dec := qpack.NewDecoder()
	gotHeaders := false
	for r.Len() > 0 {
		t, err := quicvarint.Read(r)
		if err != nil {
			resp.err += " frame:" + err.Error()
			break
		}
		l, err := quicvarint.Read(r)
		if err != nil || l > uint64(r.Len()) {
			resp.err += " framelen"
			break
		}
		payload := make([]byte, l)
		_, _ = io.ReadFull(r, payload)
		switch t {
		case 0x1:
			if gotHeaders {
				continue // trailers: ignored
			}
			gotHeaders = true
			next := dec.Decode(payload)
			for {
				hf, err := next()
				if err != nil {
					if err != io.EOF {
						resp.err += " qpack:" + err.Error()
					}
					break
				}
				if hf.Name == ":status" {
					resp.status, _ = strconv.Atoi(hf.Value)
				} else {
					resp.header.Add(hf.Name, hf.Value)
				}
			}
		case 0x0:
			resp.body = append(resp.body, payload...)
		}
	}
	if !gotHeaders && resp.err == "" {
		resp.err = "no-headers"
	}
	return resp
}

// awTCPRequestBytes builds "0x401 | TCPRequest | payload" such that an HTTP/3 frame parser
// that is handed the stream (the server before authentication) sees: unknown frame 0x401
// covering exactly the address, unknown frame covering exactly the padding, then a HEADERS
// frame of length 0 -> it resets the stream at once, no FIN and no timeout needed.
func awTCPRequestBytes(ft uint64, addr string, padLen int, payload []byte) []byte {
	var b []byte
	b = quicvarint.Append(b, ft)
	b = quicvarint.Append(b, uint64(len(addr)))
	b = append(b, addr...)
	b = quicvarint.Append(b, uint64(padLen))
	pad := make([]byte, padLen)
	switch {
	case padLen == 1:
		pad[0] = 0 // "HEADERS, length 0"
	case padLen >= 16 && padLen <= 64:
		pad[0] = byte(padLen - 1) // unknown frame type padLen, 1-byte length covering the rest
		for i := 1; i < padLen; i++ {
			pad[i] = byte('a' + i%26)
		}
	case padLen > 64:
		l := padLen - 2
		pad[0] = 0x40 | byte(l>>8)
		pad[1] = byte(l)
		for i := 2; i < padLen; i++ {
			pad[i] = byte('a' + i%26)
		}
	}
	b = append(b, pad...)
	return append(b, payload...)
}

// awPayload: n >= 2 bytes that start with "HEADERS, length 0"
func awPayload(n int) []byte {
	if n < 2 {
		n = 2
	}
	p := make([]byte, n)
	p[0], p[1] = 0x01, 0x00
	for i := 2; i < n; i++ {
		p[i] = byte(i * 7)
	}
	return p
}

// tcpStream opens a raw bidirectional stream with the given first varint, a TCPRequest and a
// payload and reports what came back:
//
//	reset:<code>              the stream was reset before any byte arrived (what an HTTP/3 server does with garbage)
//	eof                       closed with no bytes
//	resp:<ok>:echo=<n>        a TCPResponse arrived (and, if ok, n echoed payload bytes)
func (cl *awClient) tcpStream(ft uint64, addr string, padLen int, payload []byte, hooked bool) string {
	str, err := cl.conn.OpenStream()
	if err != nil {
		return "open:" + awErr(err)
	}
	if _, err := str.Write(awTCPRequestBytes(ft, addr, padLen, payload)); err != nil {
		return "write:" + awErr(err)
	}
	_ = str.SetReadDeadline(time.Now().Add(awSafety))
	cr := &awCountReader{r: str}
	ok, _, err := protocol.ReadTCPResponse(cr)
	if err != nil {
		str.CancelWrite(0x10c)
		if cr.n > 0 {
			return fmt.Sprintf("garbage:%d:%s", cr.n, awErr(err))
		}
		return awErr(err)
	}
	out := "resp:0"
	if ok {
		out = "resp:1"
		echo := make([]byte, len(payload))
		n, err := io.ReadFull(str, echo)
		out += fmt.Sprintf(":echo=%d", n)
		if err != nil {
			out += ":" + awErr(err)
		} else if !bytes.Equal(echo, payload) {
			out += ":corrupt"
		}
	}
	_ = str.Close()
	rest, err := io.ReadAll(str)
	if len(rest) > 0 {
		out += fmt.Sprintf(":extra=%d", len(rest))
	}
	if err != nil {
		out += ":" + awErr(err)
	}
	return out
}

type awCountReader struct {
	r io.Reader
	n int
}

func (c *awCountReader) Read(p []byte) (int, error) {
	n, err := c.r.Read(p)
	c.n += n
	return n, err
}

func (cl *awClient) datagram(addr string, n int) string {
	cl.mu.Lock()
	sid := cl.nextSID
	cl.nextSID++
	cl.sent++
	cl.mu.Unlock()
	m := &protocol.UDPMessage{SessionID: sid, PacketID: 0, FragID: 0, FragCount: 1, Addr: addr, Data: bytes.Repeat([]byte{0x5a}, n)}
	buf := make([]byte, protocol.MaxUDPSize)
	k := m.Serialize(buf)
	if k < 0 {
		return "toolarge"
	}
	if err := cl.conn.SendDatagram(buf[:k]); err != nil {
		return "send:" + awErr(err)
	}
	return "sent"
}

// awErr maps an error to a small deterministic enum.
func awErr(err error) string {
	if err == nil {
		return "nil"
	}
	var se *quic.StreamError
	if errors.As(err, &se) {
		return fmt.Sprintf("reset:0x%x", uint64(se.ErrorCode))
	}
	var ae *quic.ApplicationError
	if errors.As(err, &ae) {
		return fmt.Sprintf("connclosed:0x%x", uint64(ae.ErrorCode))
	}
	if errors.Is(err, io.EOF) || errors.Is(err, io.ErrUnexpectedEOF) {
		return "eof"
	}
	var ne net.Error
	if errors.As(err, &ne) && ne.Timeout() {
		return "timeout"
	}
	var ie *quic.IdleTimeoutError
	if errors.As(err, &ie) {
		return "idle"
	}
	return "err"
}

// awTok makes a string safe for the line protocol (no spaces, commas, parentheses...).
func awTok(s string) string {
	if s == "" {
		return "-"
	}
	var b strings.Builder
	for i := 0; i < len(s); i++ {
		ch := s[i]
		switch {
		case ch >= 'a' && ch <= 'z', ch >= 'A' && ch <= 'Z', ch >= '0' && ch <= '9', ch == '.', ch == '-', ch == '_', ch == '!', ch == ':', ch == '/':
			b.WriteByte(ch)
		default:
			fmt.Fprintf(&b, "%%%02x", ch)
		}
	}
	return b.String()
}
