//go:build verif

package main

// C16 — reconnecting client (core/client/reconnect.go).
//
// The REAL client.NewReconnectableClient runs against a REAL hysteria server on loopback.
// The ConnFactory handed out by configFunc wraps every net.PacketConn with an open/closed
// census; "kill" = the server closes that client's QUIC connection (instant CONNECTION_CLOSE).
//
//   seq OP OP …   sequential history; outcome line compared exactly with `hydrv reconnect`
//   conc k=v …    concurrent history (several goroutines, kills and Close at arbitrary
//                 points); checked by the model-free oracle only
//
// The model-free oracle (both kinds) is the property as stated: ≤ 1 factory socket open at
// every quiescent point, ConnFactory.New never called while another factory socket is open,
// nothing open after a failed attempt / a lost connection was reported / Close, Close final
// (calls fail closed, configFunc not evaluated), reconnect on loss with a fresh configuration
// and count+1, no reconnect on a recoverable error, connectedFunc counts are 1,2,3,…

import (
	"context"
	"crypto/ecdsa"
	"crypto/elliptic"
	"crypto/rand"
	"crypto/tls"
	"crypto/x509"
	"crypto/x509/pkix"
	"errors"
	"fmt"
	"go/ast"
	"go/parser"
	"go/token"
	"io"
	"math/big"
	"net"
	"path/filepath"
	"reflect"
	"runtime"
	"sort"
	"strconv"
	"strings"
	"sync"
	"sync/atomic"
	"time"

	"github.com/apernet/quic-go"

	"github.com/apernet/hysteria/core/v2/client"
	coreErrs "github.com/apernet/hysteria/core/v2/errors"
	"github.com/apernet/hysteria/core/v2/server"
	vh "github.com/apernet/hysteria/core/v2/verifhlib"
)

func init() {
	vh.Register("reconnect", func() vh.Component { return &reconnectComp{} })
	vh.RegisterConsts(reconnectShapeFacts)
}

// ------------------------------------------------------------------ structural facts (go/ast)

// reconnectShapeFacts parses core/client/reconnect.go of the tree this binary was compiled
// from and reports which methods assign rc.client and whether the dropped / replaced client
// is closed on that path (→ lean/Hy/Gen/Core.lean, obligations at the top of Props/C16.lean).
func reconnectShapeFacts() map[string]any {
	out := map[string]any{
		"c16_shape_parsed":                    0,
		"c16_rcClientAssignFuncs":             0,
		"c16_assign_clientDo":                 0,
		"c16_assign_reconnect":                0,
		"c16_clientDo_drop_closes":            0,
		"c16_reconnect_closes_old":            0,
		"c16_Close_sets_closed":               0,
		"c16_Close_closes_client":             0,
		"c16_count_incr_sites":                0,
		"c16_count_incr_in_reconnect_success": 0,
	}
	// closed-error classification (compiled code, not source): what quic-go's OpenStream returns
	// at the stream limit must pass through unwrapped; anything else becomes ClosedError
	if client.VerifWrapIsClosed(&quic.StreamLimitReachedError{}) {
		out["c16_streamlimit_unwrapped"] = 0
	} else {
		out["c16_streamlimit_unwrapped"] = 1
	}
	if client.VerifWrapIsClosed(io.EOF) && client.VerifWrapIsClosed(&quic.ApplicationError{Remote: true, ErrorCode: 0x107}) {
		out["c16_other_errors_wrapped_closed"] = 1
	} else {
		out["c16_other_errors_wrapped_closed"] = 0
	}
	fn := runtime.FuncForPC(reflect.ValueOf(client.NewReconnectableClient).Pointer())
	if fn == nil {
		return out
	}
	file, _ := fn.FileLine(fn.Entry())
	connectShapeFacts(out, filepath.Join(filepath.Dir(file), "client.go"))
	fset := token.NewFileSet()
	f, err := parser.ParseFile(fset, file, nil, 0)
	if err != nil {
		return out
	}
	out["c16_shape_parsed"] = 1

	isSel := func(e ast.Expr, recv, field string) bool {
		s, ok := e.(*ast.SelectorExpr)
		if !ok || s.Sel.Name != field {
			return false
		}
		id, ok := s.X.(*ast.Ident)
		return ok && id.Name == recv
	}
	// a call X.Close() where X is rc.client or one of the given local identifiers
	closesClient := func(n ast.Node, recv string, locals ...string) (pos token.Pos, found bool) {
		ast.Inspect(n, func(x ast.Node) bool {
			if found {
				return false
			}
			c, ok := x.(*ast.CallExpr)
			if !ok {
				return true
			}
			s, ok := c.Fun.(*ast.SelectorExpr)
			if !ok || s.Sel.Name != "Close" {
				return true
			}
			if isSel(s.X, recv, "client") {
				pos, found = c.Pos(), true
				return false
			}
			if id, ok := s.X.(*ast.Ident); ok {
				for _, l := range locals {
					if id.Name == l {
						pos, found = c.Pos(), true
						return false
					}
				}
			}
			return true
		})
		return
	}

	assigners := map[string]bool{}
	countSites := 0
	for _, d := range f.Decls {
		fd, ok := d.(*ast.FuncDecl)
		if !ok || fd.Recv == nil || len(fd.Recv.List) != 1 || fd.Body == nil {
			continue
		}
		st, ok := fd.Recv.List[0].Type.(*ast.StarExpr)
		if !ok {
			continue
		}
		if id, ok := st.X.(*ast.Ident); !ok || id.Name != "reconnectableClientImpl" {
			continue
		}
		if len(fd.Recv.List[0].Names) != 1 {
			continue
		}
		recv := fd.Recv.List[0].Names[0].Name
		name := fd.Name.Name

		// walk with a stack of enclosing nodes
		var stack []ast.Node
		ast.Inspect(fd.Body, func(n ast.Node) bool {
			if n == nil {
				stack = stack[:len(stack)-1]
				return true
			}
			stack = append(stack, n)
			switch x := n.(type) {
			case *ast.AssignStmt:
				for i, l := range x.Lhs {
					if isSel(l, recv, "client") {
						assigners[name] = true
						isNil := false
						if len(x.Rhs) == len(x.Lhs) {
							if id, ok := x.Rhs[i].(*ast.Ident); ok && id.Name == "nil" {
								isNil = true
							}
						}
						if name == "clientDo" && isNil {
							// innermost enclosing block: a Close of the dropped client must precede the assignment there
							for k := len(stack) - 1; k >= 0; k-- {
								if b, ok := stack[k].(*ast.BlockStmt); ok {
									for _, s := range b.List {
										if s.Pos() >= x.Pos() {
											break
										}
										if _, ok := closesClient(s, recv, "client"); ok {
											out["c16_clientDo_drop_closes"] = 1
										}
									}
									break
								}
							}
						}
						if name == "reconnect" && !isNil {
							if p, ok := closesClient(fd.Body, recv); ok && p < x.Pos() {
								out["c16_reconnect_closes_old"] = 1
							}
						}
					}
					if isSel(l, recv, "closed") && name == "Close" {
						if id, ok := x.Rhs[0].(*ast.Ident); ok && id.Name == "true" {
							out["c16_Close_sets_closed"] = 1
						}
					}
					if isSel(l, recv, "count") {
						countSites += 100 // any assignment other than ++ is not what the model says
					}
				}
			case *ast.IncDecStmt:
				if isSel(x.X, recv, "count") {
					countSites++
					okPath := name == "reconnect" && x.Tok == token.INC
					// must not sit in the body of an `if err != nil`
					for k := len(stack) - 2; k >= 1; k-- {
						if ifs, ok := stack[k-1].(*ast.IfStmt); ok && stack[k] == ast.Node(ifs.Body) {
							if be, ok := ifs.Cond.(*ast.BinaryExpr); ok && be.Op == token.NEQ {
								if id, ok := be.X.(*ast.Ident); ok && id.Name == "err" {
									okPath = false
								}
							}
						}
					}
					if okPath {
						out["c16_count_incr_in_reconnect_success"] = 1
					}
				}
			}
			return true
		})
		if name == "Close" {
			if _, ok := closesClient(fd.Body, recv); ok {
				out["c16_Close_closes_client"] = 1
			}
		}
	}
	out["c16_rcClientAssignFuncs"] = len(assigners)
	if assigners["clientDo"] {
		out["c16_assign_clientDo"] = 1
	}
	if assigners["reconnect"] {
		out["c16_assign_reconnect"] = 1
	}
	out["c16_count_incr_sites"] = countSites
	return out
}

// connectShapeFacts parses core/client/client.go and reports, for (*clientImpl).connect, every
// `return` in source order with the kind of error it returns and the Close calls that precede it
// ON ITS PATH (path-sensitive over if/else with terminating bodies; closures are not entered):
//
//	kind: 1 = `err` (the factory's error)  2 = ConnectError{…}  3 = AuthError{…}  4 = nil  9 = other
//	mask: 1 conn.CloseWithError unconditionally, 8 the same under `if conn != nil`, 2 tr.Close,
//	      4 pktConn.Close, +100 for every resource closed twice, +1000 for a Close under any other condition
//
// plus what the success path stores in the client (c.conn 1, c.tr 2, c.pktConn 4), what
// (*clientImpl).Close closes and in which order, and that NewClient returns no client on error.
func connectShapeFacts(out map[string]any, file string) {
	for _, k := range []string{"c16_connect_returns", "c16_connect_success_assigns", "c16_clientClose_mask",
		"c16_clientClose_order", "c16_newclient_err_returns_nil"} {
		out[k] = 0
	}
	for i := 0; i < 4; i++ {
		out[fmt.Sprintf("c16_connect_ret%d_kind", i)] = 0
		out[fmt.Sprintf("c16_connect_ret%d_mask", i)] = 9999
	}
	fset := token.NewFileSet()
	f, err := parser.ParseFile(fset, file, nil, 0)
	if err != nil {
		return
	}
	type st struct{ connU, connG, tr, pkt, odd, assigns int }
	mask := func(x st) int {
		m := 0
		if x.connU > 0 {
			m |= 1
		}
		if x.connG > 0 {
			m |= 8
		}
		if x.tr > 0 {
			m |= 2
		}
		if x.pkt > 0 {
			m |= 4
		}
		for _, n := range []int{x.connU + x.connG, x.tr, x.pkt} {
			if n > 1 {
				m += 100
			}
		}
		return m + 1000*x.odd
	}
	// closeTarget: which resource a call closes ("" if none); names as in connect() / Close()
	closeTarget := func(c *ast.CallExpr) string {
		sel, ok := c.Fun.(*ast.SelectorExpr)
		if !ok || (sel.Sel.Name != "Close" && sel.Sel.Name != "CloseWithError") {
			return ""
		}
		name := ""
		switch x := sel.X.(type) {
		case *ast.Ident:
			name = x.Name
		case *ast.SelectorExpr:
			name = x.Sel.Name // c.conn / c.tr / c.pktConn
		}
		switch name {
		case "conn", "tr", "pktConn":
			return name
		}
		return ""
	}
	// closes in a statement, not entering closures or nested blocks' control flow
	closesIn := func(n ast.Node) []string {
		var out []string
		ast.Inspect(n, func(x ast.Node) bool {
			switch y := x.(type) {
			case *ast.FuncLit:
				return false
			case *ast.CallExpr:
				if t := closeTarget(y); t != "" {
					out = append(out, t)
				}
			}
			return true
		})
		return out
	}
	terminates := func(b *ast.BlockStmt) bool {
		if b == nil || len(b.List) == 0 {
			return false
		}
		_, ok := b.List[len(b.List)-1].(*ast.ReturnStmt)
		return ok
	}
	isConnNotNil := func(e ast.Expr) bool {
		be, ok := e.(*ast.BinaryExpr)
		if !ok || be.Op != token.NEQ {
			return false
		}
		x, ok1 := be.X.(*ast.Ident)
		y, ok2 := be.Y.(*ast.Ident)
		return ok1 && ok2 && x.Name == "conn" && y.Name == "nil"
	}
	type ret struct{ kind, mask, assigns int }
	var rets []ret
	var walk func(list []ast.Stmt, cur st) st
	add := func(cur st, targets []string, guardedConn, odd bool) st {
		for _, t := range targets {
			switch {
			case odd && !(guardedConn && t == "conn"):
				cur.odd++
			case t == "conn" && guardedConn:
				cur.connG++
			case t == "conn":
				cur.connU++
			case t == "tr":
				cur.tr++
			case t == "pktConn":
				cur.pkt++
			}
		}
		return cur
	}
	walk = func(list []ast.Stmt, cur st) st {
		for _, s := range list {
			switch x := s.(type) {
			case *ast.ReturnStmt:
				k := 9
				if len(x.Results) > 0 {
					switch e := x.Results[len(x.Results)-1].(type) {
					case *ast.Ident:
						if e.Name == "err" {
							k = 1
						} else if e.Name == "nil" {
							k = 4
						}
					case *ast.CompositeLit:
						if se, ok := e.Type.(*ast.SelectorExpr); ok {
							switch se.Sel.Name {
							case "ConnectError":
								k = 2
							case "AuthError":
								k = 3
							}
						}
					}
				}
				rets = append(rets, ret{k, mask(cur), cur.assigns})
			case *ast.IfStmt:
				if terminates(x.Body) {
					walk(x.Body.List, cur) // a path of its own
				} else {
					// falls through: its closes are conditional
					inner := walk(x.Body.List, st{})
					g := isConnNotNil(x.Cond)
					cur.connG += inner.connU * b2i(g)
					cur.odd += inner.connU*b2i(!g) + inner.tr + inner.pkt + inner.connG + inner.odd
				}
				switch e := x.Else.(type) {
				case *ast.BlockStmt:
					if terminates(e) {
						walk(e.List, cur)
					} else {
						inner := walk(e.List, st{})
						cur.odd += inner.connU + inner.tr + inner.pkt + inner.connG + inner.odd
					}
				case *ast.IfStmt:
					walk([]ast.Stmt{e}, cur)
				}
			case *ast.BlockStmt:
				cur = walk(x.List, cur)
			case *ast.ForStmt, *ast.RangeStmt, *ast.SwitchStmt, *ast.TypeSwitchStmt, *ast.SelectStmt, *ast.DeferStmt, *ast.GoStmt:
				cur = add(cur, closesIn(s), false, true) // a Close under control flow the model does not have
			case *ast.AssignStmt:
				for _, l := range x.Lhs {
					if se, ok := l.(*ast.SelectorExpr); ok {
						if id, ok := se.X.(*ast.Ident); ok && id.Name == "c" {
							switch se.Sel.Name {
							case "conn":
								cur.assigns |= 1
							case "tr":
								cur.assigns |= 2
							case "pktConn":
								cur.assigns |= 4
							}
						}
					}
				}
				cur = add(cur, closesIn(s), false, false)
			default:
				cur = add(cur, closesIn(s), false, false)
			}
		}
		return cur
	}
	for _, d := range f.Decls {
		fd, ok := d.(*ast.FuncDecl)
		if !ok || fd.Body == nil {
			continue
		}
		switch {
		case fd.Recv != nil && fd.Name.Name == "connect":
			rets = nil
			walk(fd.Body.List, st{})
			out["c16_connect_returns"] = len(rets)
			for i, r := range rets {
				if i < 4 {
					out[fmt.Sprintf("c16_connect_ret%d_kind", i)] = r.kind
					out[fmt.Sprintf("c16_connect_ret%d_mask", i)] = r.mask
				}
				if r.kind == 4 {
					out["c16_connect_success_assigns"] = r.assigns
				}
			}
		case fd.Recv != nil && fd.Name.Name == "Close" && len(fd.Recv.List) == 1:
			if se, ok := fd.Recv.List[0].Type.(*ast.StarExpr); ok {
				if id, ok := se.X.(*ast.Ident); ok && id.Name == "clientImpl" {
					m, order := 0, 0
					for _, t := range closesIn(fd.Body) {
						switch t {
						case "conn":
							m |= 1
							order = order*10 + 1
						case "tr":
							m |= 2
							order = order*10 + 2
						case "pktConn":
							m |= 4
							order = order*10 + 3
						}
					}
					out["c16_clientClose_mask"] = m
					out["c16_clientClose_order"] = order
				}
			}
		case fd.Recv == nil && fd.Name.Name == "NewClient":
			okAll, seen := true, false
			ast.Inspect(fd.Body, func(n ast.Node) bool {
				r, ok := n.(*ast.ReturnStmt)
				if !ok || len(r.Results) == 0 {
					return true
				}
				last, isId := r.Results[len(r.Results)-1].(*ast.Ident)
				if isId && last.Name == "nil" {
					return true // the success return
				}
				seen = true
				first, ok := r.Results[0].(*ast.Ident)
				if !ok || first.Name != "nil" {
					okAll = false
				}
				return true
			})
			if okAll && seen {
				out["c16_newclient_err_returns_nil"] = 1
			}
		}
	}
}

func b2i(b bool) int {
	if b {
		return 1
	}
	return 0
}

// ------------------------------------------------------------------ environment: a real server

var (
	errVerifCfg = errors.New("verif: configFunc fails")
	errVerifNew = errors.New("verif: ConnFactory.New fails")
)

type rcEnv struct {
	srv      server.Server
	addr     *net.UDPAddr
	deadAddr *net.UDPAddr
	mu       sync.Mutex
	seq      int64                 // accept counter (orders accepts against socket creation)
	accepts  map[int][]*rcAccepted // client UDP port → server-side connections, in accept order
	auths    map[string]bool
}

// rcAccepted is one connection the server accepted.
type rcAccepted struct {
	seq          int64
	conn         *quic.Conn
	serverClosed bool // the harness made the SERVER close it (kill, rt stage)
}

// acceptedFor returns the connection made from a socket bound to port that was created when the
// accept counter stood at createdSeq (ports can be reused by later sockets).
func (e *rcEnv) acceptedFor(port int, createdSeq int64) *rcAccepted {
	e.mu.Lock()
	defer e.mu.Unlock()
	for _, a := range e.accepts[port] {
		if a.seq > createdSeq {
			return a
		}
	}
	return nil
}

type rcAuth struct{ e *rcEnv }

func (a rcAuth) Authenticate(addr net.Addr, auth string, tx uint64) (bool, string) {
	a.e.mu.Lock()
	a.e.auths[auth] = true
	var victim *rcAccepted
	if strings.HasPrefix(auth, "rt") {
		// RoundTrip-error stage: the server drops the connection instead of answering
		if ua, ok := addr.(*net.UDPAddr); ok {
			if l := a.e.accepts[ua.Port]; len(l) > 0 {
				victim = l[len(l)-1]
				victim.serverClosed = true
			}
		}
	}
	a.e.mu.Unlock()
	if victim != nil {
		_ = victim.conn.CloseWithError(0x107, "verif rt")
		return false, auth
	}
	return strings.HasPrefix(auth, "good"), auth
}

// blockConn is the outbound "target": reads block until it is closed, writes are discarded.
type blockConn struct {
	once sync.Once
	ch   chan struct{}
}

func newBlockConn() *blockConn { return &blockConn{ch: make(chan struct{})} }

func (b *blockConn) Read(p []byte) (int, error)         { <-b.ch; return 0, io.EOF }
func (b *blockConn) Write(p []byte) (int, error)        { return len(p), nil }
func (b *blockConn) Close() error                       { b.once.Do(func() { close(b.ch) }); return nil }
func (b *blockConn) LocalAddr() net.Addr                { return &net.TCPAddr{} }
func (b *blockConn) RemoteAddr() net.Addr               { return &net.TCPAddr{} }
func (b *blockConn) SetDeadline(t time.Time) error      { return nil }
func (b *blockConn) SetReadDeadline(t time.Time) error  { return nil }
func (b *blockConn) SetWriteDeadline(t time.Time) error { return nil }

type rcOutbound struct{}

func (rcOutbound) TCP(reqAddr string) (net.Conn, error) {
	if strings.HasPrefix(reqAddr, "refuse") {
		return nil, errors.New("verif: target refused")
	}
	return newBlockConn(), nil
}
func (rcOutbound) UDP(reqAddr string) (server.UDPConn, error) {
	return nil, errors.New("verif: no udp")
}
func (rcOutbound) CheckUDP(reqAddr string) error { return nil }

func selfSignedCert() tls.Certificate {
	key, err := ecdsa.GenerateKey(elliptic.P256(), rand.Reader)
	if err != nil {
		panic(err)
	}
	tmpl := &x509.Certificate{
		SerialNumber: big.NewInt(1),
		Subject:      pkix.Name{CommonName: "verif"},
		NotBefore:    time.Now().Add(-time.Hour),
		NotAfter:     time.Now().Add(24 * time.Hour),
		KeyUsage:     x509.KeyUsageDigitalSignature,
		ExtKeyUsage:  []x509.ExtKeyUsage{x509.ExtKeyUsageServerAuth},
		DNSNames:     []string{"verif"},
	}
	der, err := x509.CreateCertificate(rand.Reader, tmpl, tmpl, &key.PublicKey, key)
	if err != nil {
		panic(err)
	}
	return tls.Certificate{Certificate: [][]byte{der}, PrivateKey: key}
}

func newRcEnv() *rcEnv {
	e := &rcEnv{accepts: map[int][]*rcAccepted{}, auths: map[string]bool{}}
	uc, err := net.ListenUDP("udp", &net.UDPAddr{IP: net.IPv4(127, 0, 0, 1)})
	if err != nil {
		panic(err)
	}
	e.addr = uc.LocalAddr().(*net.UDPAddr)
	// an address nobody listens on ("server really down")
	dc, err := net.ListenUDP("udp", &net.UDPAddr{IP: net.IPv4(127, 0, 0, 1)})
	if err != nil {
		panic(err)
	}
	e.deadAddr = dc.LocalAddr().(*net.UDPAddr)
	_ = dc.Close()
	s, err := server.NewServer(&server.Config{
		TLSConfig:     server.TLSConfig{Certificates: []tls.Certificate{selfSignedCert()}},
		QUICConfig:    server.QUICConfig{MaxIncomingStreams: 8}, // the smallest the server accepts
		Conn:          uc,
		Outbound:      rcOutbound{},
		Authenticator: rcAuth{e},
	})
	if err != nil {
		panic(err)
	}
	e.srv = s
	go func() {
		_ = server.VerifServeWithHook(s, func(c *quic.Conn) {
			if ua, ok := c.RemoteAddr().(*net.UDPAddr); ok {
				e.mu.Lock()
				e.seq++
				e.accepts[ua.Port] = append(e.accepts[ua.Port], &rcAccepted{seq: e.seq, conn: c})
				e.mu.Unlock()
			}
		})
	}()
	return e
}

// ------------------------------------------------------------------ one history

type censusConn struct {
	*net.UDPConn
	h      *rcHist
	id     int
	port   int
	closed bool // under h.mu
	dead   bool // killed by the harness (under h.mu)

	createdSeq int64 // the environment's accept counter when the factory returned this socket
	closes     int   // Close() calls (under h.mu)
	trCloses   int   // quic.Transport.Close() calls, seen as SetReadDeadline(non-zero) (under h.mu)
	client     bool  // a successful connect handed this socket to a client (under h.mu)
}

func (c *censusConn) Close() error {
	c.h.mu.Lock()
	c.closed = true
	c.closes++
	c.h.mu.Unlock()
	return c.UDPConn.Close()
}

// SetReadDeadline: quic-go calls it on the transport's packet conn only from Transport.Close (with
// time.Now(), then with the zero time) when the transport did not create the conn itself — which
// makes tr.Close() observable from outside.
func (c *censusConn) SetReadDeadline(t time.Time) error {
	if !t.IsZero() {
		c.h.mu.Lock()
		c.trCloses++
		c.h.mu.Unlock()
	}
	return c.UDPConn.SetReadDeadline(t)
}

type rcHist struct {
	env      *rcEnv
	id       uint64
	fastOpen bool

	mu        sync.Mutex
	socks     []*censusConn
	cfgCalls  int
	connArgs  []int
	inner     map[int]client.Client // socket id → inner client (learnt in connectedFunc)
	nextAtt   func(n int) string    // answer to the n-th configuration evaluation (1-based)
	openAtNew int                   // max number of OTHER factory sockets open when New was called
	staleAuth int                   // connected with an auth string that is not the latest evaluation's
	held      []io.Closer
	lastErr   string        // text of the last error a call returned (diagnostics in oracle messages)
	broken    atomic.Bool   // a call panicked or hung (rc.m may be held for ever): stop driving this history
	brokenCh  chan struct{} // closed when broken is set: calls queued behind the dead lock give up at once
	brokenOne sync.Once

	heldGen, heldCnt int // streams kept open by ordinary calls on the current connection (under mu)

	parkMode  atomic.Int32  // which hook parks the next call that passes it
	parkedCh  chan struct{} // closed by the parked call (under mu)
	releaseCh chan struct{} // closed by the harness to let it go on (under mu)

	rc client.Client
}

type rcFactory struct {
	h    *rcHist
	fail bool
	used int32
}

func (f *rcFactory) New(addr net.Addr) (net.PacketConn, error) {
	atomic.AddInt32(&f.used, 1)
	if f.fail {
		return nil, errVerifNew
	}
	u, err := net.ListenUDP("udp", &net.UDPAddr{IP: net.IPv4(127, 0, 0, 1)})
	if err != nil {
		return nil, err
	}
	h := f.h
	h.env.mu.Lock()
	created := h.env.seq
	h.env.mu.Unlock()
	h.mu.Lock()
	open := 0
	for _, s := range h.socks {
		if !s.closed {
			open++
		}
	}
	if open > h.openAtNew {
		h.openAtNew = open
	}
	cc := &censusConn{UDPConn: u, h: h, id: len(h.socks), port: u.LocalAddr().(*net.UDPAddr).Port, createdSeq: created}
	h.socks = append(h.socks, cc)
	h.mu.Unlock()
	return cc, nil
}

func (h *rcHist) authFor(n int) string { return fmt.Sprintf("good-%d-%d", h.id, n) }

func (h *rcHist) configFunc() (*client.Config, error) {
	h.mu.Lock()
	h.cfgCalls++
	n := h.cfgCalls
	att := h.nextAtt(n)
	h.mu.Unlock()
	if att == "cfg" {
		return nil, errVerifCfg
	}
	cfg := &client.Config{
		ConnFactory: &rcFactory{h: h, fail: att == "new"},
		ServerAddr:  h.env.addr,
		Auth:        h.authFor(n),
		TLSConfig:   client.TLSConfig{InsecureSkipVerify: true},
		FastOpen:    h.fastOpen,
	}
	switch att {
	case "bad":
		cfg.ServerAddr = nil
	case "auth":
		cfg.Auth = fmt.Sprintf("bad-%d-%d", h.id, n)
	case "rt":
		cfg.Auth = fmt.Sprintf("rt-%d-%d", h.id, n)
	case "tls":
		cfg.TLSConfig = client.TLSConfig{ServerName: "verif.invalid"}
	case "down":
		cfg.ServerAddr = h.env.deadAddr
	}
	return cfg, nil
}

func (h *rcHist) connectedFunc(c client.Client, info *client.HandshakeInfo, n int) {
	in := client.VerifInner(c)
	client.VerifGate(c, h.hookBefore, h.hookAfter)
	h.mu.Lock()
	h.connArgs = append(h.connArgs, n)
	if len(h.socks) > 0 {
		h.inner[len(h.socks)-1] = in
		h.socks[len(h.socks)-1].client = true
	}
	want := h.authFor(h.cfgCalls)
	h.mu.Unlock()
	h.env.mu.Lock()
	seen := h.env.auths[want]
	h.env.mu.Unlock()
	if !seen {
		h.mu.Lock()
		h.staleAuth++
		h.mu.Unlock()
	}
}

func (h *rcHist) openIDs() []int {
	h.mu.Lock()
	defer h.mu.Unlock()
	var ids []int
	for _, s := range h.socks {
		if !s.closed {
			ids = append(ids, s.id)
		}
	}
	return ids
}

func (h *rcHist) snapshot() (cfg int, conn []int, open []int, alloc int) {
	open = h.openIDs()
	h.mu.Lock()
	defer h.mu.Unlock()
	return h.cfgCalls, append([]int(nil), h.connArgs...), open, len(h.socks)
}

// connState: what became of the QUIC connection made from socket s, as the SERVER saw it:
// "-" never accepted, "*" the server closed it first (kill / rt stage), "1" the client closed it
// (remote application error), "0" not closed by the client. If the socket shows signs of teardown
// the CONNECTION_CLOSE may still be in flight: wait for it (bounded).
func (h *rcHist) connState(s *censusConn, teardown bool) string {
	acc := h.env.acceptedFor(s.port, s.createdSeq)
	if acc == nil {
		return "-"
	}
	h.env.mu.Lock()
	sc := acc.serverClosed
	h.env.mu.Unlock()
	if sc {
		return "*"
	}
	ctx := acc.conn.Context()
	if ctx.Err() == nil && teardown {
		select {
		case <-ctx.Done():
		case <-time.After(3 * time.Second):
		}
	}
	if ctx.Err() == nil {
		return "0"
	}
	var ae *quic.ApplicationError
	if errors.As(context.Cause(ctx), &ae) && ae.Remote {
		return "1"
	}
	return "0"
}

// resources renders every factory socket as id:pNtNcX (see lean/Hy/Drv/Reconnect.lean) and checks
// the model-free resource clauses: a closed packet conn whose transport was never closed, a
// connection the client abandoned without closing, a failed attempt not closed exactly once.
func (h *rcHist) resources(orc *[]string) string {
	h.mu.Lock()
	socks := append([]*censusConn(nil), h.socks...)
	type snap struct {
		closes, tr int
		client     bool
	}
	snaps := make([]snap, len(socks))
	for i, s := range socks {
		snaps[i] = snap{s.closes, s.trCloses, s.client}
	}
	h.mu.Unlock()
	if len(socks) == 0 {
		return "-"
	}
	out := make([]string, len(socks))
	for i, s := range socks {
		sn := snaps[i]
		cs := h.connState(s, sn.closes > 0 || sn.tr > 0)
		out[i] = fmt.Sprintf("%d:p%dt%dc%s", s.id, sn.closes, sn.tr, cs)
		if sn.closes > 0 && sn.tr == 0 {
			*orc = append(*orc, fmt.Sprintf("socket %d: packet conn closed but its quic.Transport was never closed", s.id))
		}
		if sn.tr > 0 && sn.closes == 0 {
			*orc = append(*orc, fmt.Sprintf("socket %d: quic.Transport closed but its packet conn is still open", s.id))
		}
		if (sn.closes > 0 || sn.tr > 0) && cs == "0" {
			*orc = append(*orc, fmt.Sprintf("socket %d: torn down without closing its QUIC connection (the server still sees it open)", s.id))
		}
		if !sn.client && (sn.closes != 1 || sn.tr != 1) {
			*orc = append(*orc, fmt.Sprintf("socket %d of a failed connect: packet conn closed %d time(s), transport %d time(s); want exactly once each", s.id, sn.closes, sn.tr))
		}
	}
	return strings.Join(out, ",")
}

// kill: the server closes the connection of every factory socket that is open and not yet
// killed. With settle, waits until the client has noticed (connection context done, UDP
// session manager cleaned up). Returns how many were killed.
func (h *rcHist) kill(settle bool) (int, string) {
	h.mu.Lock()
	var victims []*censusConn
	for _, s := range h.socks {
		if !s.closed && !s.dead {
			victims = append(victims, s)
		}
	}
	h.mu.Unlock()
	killed := 0
	problem := ""
	for _, s := range victims {
		acc := h.env.acceptedFor(s.port, s.createdSeq)
		if acc == nil {
			continue // handshake still in progress: nothing to kill yet
		}
		h.env.mu.Lock()
		acc.serverClosed = true
		h.env.mu.Unlock()
		h.mu.Lock()
		s.dead = true
		in := h.inner[s.id]
		h.mu.Unlock()
		_ = acc.conn.CloseWithError(0x107, "verif kill")
		killed++
		if settle && in != nil {
			select {
			case <-client.VerifConnDone(in):
			case <-time.After(10 * time.Second):
				problem = "killed connection not noticed by the client within 10s"
			}
			dl := time.Now().Add(10 * time.Second)
			for !client.VerifUDPClosed(in) && time.Now().Before(dl) {
				time.Sleep(200 * time.Microsecond)
			}
		}
	}
	return killed, problem
}

func rcClassify(err error) string {
	if err == nil {
		return "ok"
	}
	if _, ok := err.(coreErrs.ClosedError); ok {
		return "closed"
	}
	// quic-go's OpenStream returns *StreamLimitReachedError (a pointer)
	var sl *quic.StreamLimitReachedError
	if errors.As(err, &sl) || errors.Is(err, quic.StreamLimitReachedError{}) {
		return "recoverable"
	}
	if errors.Is(err, errVerifCfg) {
		return "cfgErr"
	}
	if errors.Is(err, errVerifNew) {
		return "newErr"
	}
	var ce coreErrs.ConfigError
	if errors.As(err, &ce) {
		return "badCfg"
	}
	var cn coreErrs.ConnectError
	if errors.As(err, &cn) {
		return "connErr"
	}
	var ae coreErrs.AuthError
	if errors.As(err, &ae) {
		return "connErr"
	}
	var de coreErrs.DialError
	if errors.As(err, &de) {
		return "other"
	}
	return "unknown(" + strings.ReplaceAll(err.Error(), " ", "_") + ")"
}

// call runs one TCP()/UDP() on the reconnectable client with a watchdog.
type rcCallRes struct {
	s string
	c io.Closer
}

// startCall runs one TCP()/UDP() on the reconnectable client in its own goroutine.
func (h *rcHist) startCall(kind byte) <-chan rcCallRes {
	ch := make(chan rcCallRes, 1)
	rc := h.rc
	go func() {
		defer func() {
			if r := recover(); r != nil {
				ch <- rcCallRes{s: "panic(" + strings.ReplaceAll(fmt.Sprint(r), " ", "_") + ")"}
			}
		}()
		switch kind {
		case 'U':
			u, err := rc.UDP()
			if err != nil {
				h.noteErr(err)
				ch <- rcCallRes{s: rcClassify(err)}
			} else {
				ch <- rcCallRes{s: "ok", c: closerFunc(u.Close)}
			}
		default:
			addr := "ok.verif:80"
			if kind == 'R' {
				addr = "refuse.verif:80"
			}
			c, err := rc.TCP(addr)
			if err != nil {
				h.noteErr(err)
				ch <- rcCallRes{s: rcClassify(err)}
			} else {
				ch <- rcCallRes{s: "ok", c: c}
			}
		}
	}()
	return ch
}

func (h *rcHist) settleCall(r rcCallRes, hold bool) string {
	if strings.HasPrefix(r.s, "panic") {
		h.markBroken() // clientDo does not unlock on a panic
	}
	if r.c != nil {
		if hold {
			h.mu.Lock()
			h.held = append(h.held, r.c)
			h.mu.Unlock()
		} else {
			_ = r.c.Close()
		}
	}
	return r.s
}

// waitCall waits for a started call with a watchdog.
func (h *rcHist) waitCall(ch <-chan rcCallRes, hold bool) string {
	select {
	case r := <-ch:
		return h.settleCall(r, hold)
	case <-h.brokenCh:
		return "hang"
	case <-time.After(20 * time.Second):
		h.markBroken()
		return "hang"
	}
}

// call runs one TCP()/UDP() on the reconnectable client with a watchdog.
func (h *rcHist) call(kind byte, hold bool) string { return h.waitCall(h.startCall(kind), hold) }

// holdCapped: ordinary calls of a sequential history keep at most 4 streams open per connection
// (the rest are closed at once), so that the server's stream limit (8) is reached only by the
// fill op, which holds everything and confirms the saturation — not by accident, where the exact
// call that hits the limit would depend on when the credits of closed streams come back.
func (h *rcHist) holdCapped() bool {
	h.mu.Lock()
	defer h.mu.Unlock()
	if gen := len(h.connArgs); gen != h.heldGen {
		h.heldGen, h.heldCnt = gen, 0
	}
	if h.heldCnt >= 4 {
		return false
	}
	h.heldCnt++
	return true
}

// ---- parking one call between clientDo's two lock regions (the gate around the inner client)

const (
	parkNone   = 0
	parkBefore = 1 // before the inner client's TCP()/UDP() is entered
	parkAfter  = 2 // after it has returned (its error not yet processed by clientDo)
)

func (h *rcHist) hookBefore(kind byte) { h.maybePark(parkBefore) }

func (h *rcHist) hookAfter(kind byte, err error) { h.maybePark(parkAfter) }

func (h *rcHist) maybePark(where int32) {
	if !h.parkMode.CompareAndSwap(where, parkNone) {
		return
	}
	h.mu.Lock()
	parked, release := h.parkedCh, h.releaseCh
	h.mu.Unlock()
	close(parked)
	select {
	case <-release:
	case <-h.brokenCh:
	case <-time.After(60 * time.Second):
	}
}

// lateError drives the schedule  B.begin … kill … A (sees the loss, drops the client) … C
// (reconnects) … B.end (its ClosedError from the REPLACED client arrives only now):
//
//	when 'a': B is parked before it enters the inner client, then the kill
//	when 'b': the kill first, then B, parked after the inner client has answered
//
// Returns B's first state ("parked" or its result if it never reached the inner client), the kill
// result, A's, C's and B's final result ("-" if B had returned early).
func (h *rcHist) lateError(kb byte, when byte, orc *[]string) (b0, k, ra, rc, rb string) {
	doKill := func() string {
		n, problem := h.kill(true)
		if problem != "" {
			*orc = append(*orc, problem)
		}
		if n > 0 {
			return "kill"
		}
		return "nokill"
	}
	if when == 'b' {
		k = doKill()
	}
	h.mu.Lock()
	h.parkedCh, h.releaseCh = make(chan struct{}), make(chan struct{})
	parked, release := h.parkedCh, h.releaseCh
	h.mu.Unlock()
	if when == 'a' {
		h.parkMode.Store(parkBefore)
	} else {
		h.parkMode.Store(parkAfter)
	}
	_, connB, _, _ := h.snapshot()
	bch := h.startCall(kb)
	isParked := false
	select {
	case <-parked:
		isParked = true
		b0 = "parked"
	case r := <-bch:
		b0 = h.settleCall(r, h.holdCapped())
	case <-time.After(20 * time.Second):
		h.markBroken()
		b0 = "hang"
	}
	h.parkMode.Store(parkNone)
	if when == 'a' {
		k = doKill()
	}
	ra = h.call('T', h.holdCapped())
	rc = h.call('T', h.holdCapped())
	rb = "-"
	if isParked {
		cfg0, conn0, open0, _ := h.snapshot()
		close(release)
		rb = h.waitCall(bch, h.holdCapped())
		cfg1, conn1, open1, _ := h.snapshot()
		if cfg1 != cfg0 || len(conn1) != len(conn0) {
			*orc = append(*orc, "a returning call evaluated the configuration / connected")
		}
		if len(conn0) > len(connB) && rb == "closed" && rcInts(open0) != rcInts(open1) {
			*orc = append(*orc, fmt.Sprintf("a late closed-connection error from an already replaced client changed the open factory sockets %v → %v: the healthy current client was touched", open0, open1))
		}
	} else {
		close(release)
	}
	return
}

func (h *rcHist) markBroken() {
	h.broken.Store(true)
	h.brokenOne.Do(func() { close(h.brokenCh) })
}

func (h *rcHist) noteErr(err error) {
	h.mu.Lock()
	h.lastErr = err.Error()
	h.mu.Unlock()
}

func (h *rcHist) lastError() string {
	h.mu.Lock()
	defer h.mu.Unlock()
	return h.lastErr
}

type closerFunc func() error

func (f closerFunc) Close() error { return f() }

// fill: TCP calls, holding every stream, until one fails — saturates the server's stream
// limit on the current connection. Reports the class of the call that failed.
func (h *rcHist) fill() string {
	for i := 0; i < 40; i++ {
		r := h.call('T', true)
		if r == "ok" {
			continue
		}
		if r != "recoverable" {
			return r
		}
		// a stream credit may still be in flight (the auth request's stream): confirm
		time.Sleep(30 * time.Millisecond)
		r2 := h.call('T', true)
		if r2 == "ok" {
			continue
		}
		return r2
	}
	return "nofill"
}

// finish: Close (if not yet), then the Close-is-final clause, then release everything.
func (h *rcHist) finish(orc *[]string) {
	if h.rc != nil && !h.broken.Load() {
		done := make(chan struct{})
		go func() { _ = h.rc.Close(); close(done) }()
		select {
		case <-done:
		case <-time.After(30 * time.Second):
			*orc = append(*orc, "Close() did not return within 30s")
		}
		if open := h.openIDs(); len(open) != 0 {
			*orc = append(*orc, fmt.Sprintf("after Close %d factory socket(s) still open: %v", len(open), open))
		}
		cfg0, _, _, _ := h.snapshot()
		for _, k := range []byte{'T', 'U', 'R'} {
			if r := h.call(k, false); r != "closed" {
				*orc = append(*orc, fmt.Sprintf("call %c after Close returned %s, want closed", k, r))
			}
		}
		if cfg1, _, _, _ := h.snapshot(); cfg1 != cfg0 {
			*orc = append(*orc, fmt.Sprintf("configFunc evaluated %d time(s) after Close", cfg1-cfg0))
		}
	}
	h.mu.Lock()
	held := h.held
	h.held = nil
	socks := append([]*censusConn(nil), h.socks...)
	h.mu.Unlock()
	for _, c := range held {
		_ = c.Close()
	}
	for _, s := range socks { // release leaked descriptors (pinned tree)
		_ = s.UDPConn.Close()
	}
}

func (h *rcHist) commonOracle(orc *[]string) {
	h.mu.Lock()
	defer h.mu.Unlock()
	if h.openAtNew > 0 {
		*orc = append(*orc, fmt.Sprintf("ConnFactory.New was called while %d other factory socket(s) were still open", h.openAtNew))
	}
	for i, n := range h.connArgs {
		if n != i+1 {
			*orc = append(*orc, fmt.Sprintf("connectedFunc counts are %v, want 1,2,3,…", h.connArgs))
			break
		}
	}
	if h.staleAuth > 0 {
		*orc = append(*orc, fmt.Sprintf("%d connection(s) were not made with the freshly evaluated configuration", h.staleAuth))
	}
}

// ------------------------------------------------------------------ the component

type reconnectComp struct {
	env  *rcEnv
	hist uint64
}

func (c *reconnectComp) newHist() *rcHist {
	if c.env == nil {
		c.env = newRcEnv()
	}
	c.hist++
	return &rcHist{env: c.env, id: c.hist, inner: map[int]client.Client{}, brokenCh: make(chan struct{})}
}

func rcInts(xs []int) string {
	if len(xs) == 0 {
		return "-"
	}
	ss := make([]string, len(xs))
	for i, x := range xs {
		ss[i] = strconv.Itoa(x)
	}
	return strings.Join(ss, ",")
}

var rcAtts = map[string]bool{"ok": true, "cfg": true, "bad": true, "new": true, "auth": true, "rt": true, "tls": true, "down": true}

func (c *reconnectComp) Run(op string) vh.Result {
	f := strings.Fields(op)
	if len(f) == 0 {
		return vh.Result{Out: "bad-op"}
	}
	switch f[0] {
	case "seq":
		return c.runSeq(f[1:])
	case "conc":
		return c.runConc(f[1:])
	}
	return vh.Result{Out: "bad-op"}
}

func (c *reconnectComp) runSeq(ops []string) vh.Result {
	h := c.newHist()
	att := "ok"
	h.nextAtt = func(int) string { return att }
	var orc []string
	out := []string{"seq"}
	connected := false
	closedByOp := false
	// model-free bookkeeping for reconnect_on_loss / recoverable_no_reconnect:
	// must the next call evaluate the configuration?
	needConnect := true
	killedSinceConnect := false
	for _, tok := range ops {
		kind := tok
		a := ""
		if i := strings.IndexByte(tok, ':'); i >= 0 {
			kind, a = tok[:i], tok[i+1:]
		}
		if a != "" && kind != "X" && !rcAtts[a] {
			return vh.Result{Out: "bad-op"}
		}
		res := ""
		cfg0, conn0, _, _ := h.snapshot()
		switch kind {
		case "L", "E":
			if (kind == "L") != (a == "") {
				return vh.Result{Out: "bad-op"}
			}
			if h.rc != nil {
				res = "dup"
				break
			}
			att = a
			rc, err := client.NewReconnectableClient(h.configFunc, h.connectedFunc, kind == "L")
			if err != nil {
				res = rcClassify(err)
				if rc != nil {
					orc = append(orc, "NewReconnectableClient returned both a client and an error")
				}
			} else {
				res = "start"
				h.rc = rc
				needConnect = kind == "L"
			}
			if kind == "E" {
				cfg1, conn1, open1, _ := h.snapshot()
				if cfg1 != cfg0+1 {
					orc = append(orc, fmt.Sprintf("eager start evaluated configFunc %d times, want 1", cfg1-cfg0))
				}
				if err != nil && len(open1) != 0 {
					orc = append(orc, fmt.Sprintf("failed eager start left factory socket(s) open: %v", open1))
				}
				if err == nil && len(conn1) != len(conn0)+1 {
					orc = append(orc, "eager start did not call connectedFunc exactly once")
				}
			}
		case "T", "R", "U", "F":
			if a == "" {
				return vh.Result{Out: "bad-op"}
			}
			if h.rc == nil {
				res = "nostart"
				break
			}
			att = a
			if kind == "F" {
				res = h.fill()
			} else {
				res = h.call(kind[0], h.holdCapped())
			}
			cfg1, conn1, open1, _ := h.snapshot()
			if strings.HasPrefix(res, "unknown") || strings.HasPrefix(res, "panic") || res == "hang" || res == "nofill" {
				orc = append(orc, "call "+tok+" → "+res)
			}
			switch {
			case closedByOp:
				if res != "closed" || cfg1 != cfg0 {
					orc = append(orc, fmt.Sprintf("call %s after Close returned %s and evaluated configFunc %d time(s); want closed, 0", tok, res, cfg1-cfg0))
				}
			case needConnect:
				// reconnect_on_loss: exactly one fresh evaluation; on success count+1
				if cfg1 != cfg0+1 {
					orc = append(orc, fmt.Sprintf("call %s with no live connection evaluated configFunc %d time(s), want 1", tok, cfg1-cfg0))
				}
				if a == "ok" {
					if len(conn1) != len(conn0)+1 {
						orc = append(orc, fmt.Sprintf("call %s with no live connection and a working server did not reconnect (connectedFunc calls %d → %d, result %s)", tok, len(conn0), len(conn1), res))
					}
					if res == "closed" || res == "cfgErr" || res == "newErr" || res == "connErr" || res == "badCfg" {
						orc = append(orc, fmt.Sprintf("call %s on a freshly made connection that nobody killed returned %s (%s)", tok, res, h.lastError()))
					}
				} else {
					// failed_reconnect_leaks_nothing
					if len(open1) != 0 {
						orc = append(orc, fmt.Sprintf("failed reconnect attempt (%s) left factory socket(s) open: %v", a, open1))
					}
					if len(conn1) != len(conn0) {
						orc = append(orc, fmt.Sprintf("connectedFunc called on a failed attempt (%s)", a))
					}
				}
			default:
				// recoverable_no_reconnect (and ok / dial error): a live connection is reused
				if cfg1 != cfg0 || len(conn1) != len(conn0) {
					orc = append(orc, fmt.Sprintf("call %s on a live connection re-evaluated the configuration (result %s)", tok, res))
				}
				if res == "closed" && !killedSinceConnect {
					orc = append(orc, fmt.Sprintf("call %s on a live connection that nobody killed failed with a closed-connection error (%s): a recoverable error is treated as connection loss", tok, h.lastError()))
				}
			}
			if !closedByOp {
				switch res {
				case "ok", "recoverable", "other":
					needConnect = false
				default:
					needConnect = true
					if res == "closed" && len(open1) != 0 {
						orc = append(orc, fmt.Sprintf("a lost connection was reported (closed) but its factory socket is still open: %v", open1))
					}
				}
			}
		case "X":
			if len(a) != 2 || (a[0] != 'T' && a[0] != 'U') || (a[1] != 'a' && a[1] != 'b') {
				return vh.Result{Out: "bad-op"}
			}
			if h.rc == nil {
				res = "nostart"
				break
			}
			att = "ok"
			b0, k, ra, rcc, rb := h.lateError(a[0], a[1], &orc)
			res = "x." + b0 + "." + k + "." + ra + "." + rcc + "." + rb
			for _, r := range []string{b0, ra, rcc, rb} {
				if strings.HasPrefix(r, "unknown") || strings.HasPrefix(r, "panic") || r == "hang" {
					orc = append(orc, "late-error schedule "+tok+" → "+res)
				}
			}
			if closedByOp {
				if ra != "closed" || rcc != "closed" {
					orc = append(orc, fmt.Sprintf("calls after Close returned %s, %s; want closed", ra, rcc))
				}
			} else {
				// what the NEXT call must do depends on C's outcome only: B's error is about a client
				// that is no longer the current one
				switch rcc {
				case "ok", "recoverable", "other":
					needConnect = false
				default:
					needConnect = true
				}
			}
		case "K":
			if a != "" {
				return vh.Result{Out: "bad-op"}
			}
			if h.rc == nil {
				res = "nostart"
				break
			}
			n, problem := h.kill(true)
			if problem != "" {
				orc = append(orc, problem)
			}
			if n > 0 {
				res = "kill"
			} else {
				res = "nokill"
			}
		case "C":
			if a != "" {
				return vh.Result{Out: "bad-op"}
			}
			if h.rc == nil {
				res = "nostart"
				break
			}
			done := make(chan struct{})
			go func() { _ = h.rc.Close(); close(done) }()
			select {
			case <-done:
			case <-h.brokenCh:
			case <-time.After(30 * time.Second):
				h.markBroken()
				orc = append(orc, "Close() did not return within 30s")
			}
			res = "close"
			closedByOp = true
			if open := h.openIDs(); len(open) != 0 {
				orc = append(orc, fmt.Sprintf("after Close %d factory socket(s) still open: %v", len(open), open))
			}
		default:
			return vh.Result{Out: "bad-op"}
		}
		cfg, conn, open, alloc := h.snapshot()
		if len(conn) > 0 {
			connected = true
		}
		if len(conn) != len(conn0) {
			killedSinceConnect = false
		}
		if res == "kill" {
			killedSinceConnect = true
		}
		// one_live at the quiescent point
		if len(open) > 1 {
			orc = append(orc, fmt.Sprintf("after %s: %d factory sockets open at a quiescent point: %v", tok, len(open), open))
		}
		out = append(out, fmt.Sprintf("%s/%d/%s/%s/%d/%s", res, cfg, rcInts(conn), rcInts(open), alloc, h.resources(&orc)))
		if h.broken.Load() {
			out = append(out, "aborted")
			break
		}
	}
	h.commonOracle(&orc)
	h.finish(&orc)
	_ = h.resources(&orc) // after Close: every socket torn down completely
	return vh.Result{Out: strings.Join(out, " "), NonTrivial: connected, Oracle: dedup(orc)}
}

func dedup(xs []string) []string {
	seen := map[string]bool{}
	var out []string
	for _, x := range xs {
		if !seen[x] {
			seen[x] = true
			out = append(out, x)
		}
	}
	return out
}

// conc seed=S g=G m=M kills=K close=0|1 lazy=0|1 fo=0|1 fail=P
func (c *reconnectComp) runConc(kv []string) vh.Result {
	p := map[string]int{"seed": 1, "g": 3, "m": 8, "kills": 3, "close": 0, "lazy": 1, "fo": 0, "fail": 20}
	for _, x := range kv {
		i := strings.IndexByte(x, '=')
		if i < 0 {
			return vh.Result{Out: "bad-op"}
		}
		v, err := strconv.Atoi(x[i+1:])
		if _, known := p[x[:i]]; !known || err != nil {
			return vh.Result{Out: "bad-op"}
		}
		p[x[:i]] = v
	}
	r := vh.NewRNG(uint64(p["seed"]))
	h := c.newHist()
	h.fastOpen = p["fo"] == 1
	script := make([]string, 256)
	fails := []string{"cfg", "new", "auth", "bad", "tls", "rt"}
	for i := range script {
		script[i] = "ok"
		if r.Intn(100) < p["fail"] {
			script[i] = fails[r.Intn(len(fails))]
		}
	}
	h.nextAtt = func(n int) string {
		if n-1 < len(script) {
			return script[n-1]
		}
		return "ok"
	}
	var orc []string
	var omu sync.Mutex
	addOrc := func(s string) { omu.Lock(); orc = append(orc, s); omu.Unlock() }

	rc, err := client.NewReconnectableClient(h.configFunc, h.connectedFunc, p["lazy"] == 1)
	if err != nil {
		if open := h.openIDs(); len(open) != 0 {
			addOrc(fmt.Sprintf("failed eager start left factory socket(s) open: %v", open))
		}
		rc, err = client.NewReconnectableClient(h.configFunc, h.connectedFunc, true)
		if err != nil {
			return vh.Result{Out: "conc checked", Oracle: []string{"lazy NewReconnectableClient failed: " + err.Error()}}
		}
	}
	h.rc = rc

	type step struct {
		kind  byte
		hold  bool
		pause time.Duration
	}
	G, M := p["g"], p["m"]
	plans := make([][]step, G)
	for g := range plans {
		for i := 0; i < M; i++ {
			k := []byte{'T', 'T', 'T', 'U', 'U', 'R'}[r.Intn(6)]
			plans[g] = append(plans[g], step{kind: k, hold: r.Intn(3) == 0, pause: time.Duration(r.Intn(1500)) * time.Microsecond})
		}
	}
	killPauses := make([]time.Duration, p["kills"])
	for i := range killPauses {
		killPauses[i] = time.Duration(200+r.Intn(4000)) * time.Microsecond
	}
	closePause := time.Duration(500+r.Intn(6000)) * time.Microsecond

	var closeReturned atomic.Bool
	var cfgAtClose atomic.Int64
	var wg sync.WaitGroup
	for g := 0; g < G; g++ {
		wg.Add(1)
		go func(plan []step) {
			defer wg.Done()
			for _, s := range plan {
				if h.broken.Load() {
					return
				}
				time.Sleep(s.pause)
				after := closeReturned.Load()
				res := h.call(s.kind, s.hold)
				switch res {
				case "ok", "closed", "recoverable", "other", "cfgErr", "newErr", "connErr", "badCfg":
				default:
					addOrc(fmt.Sprintf("call %c → %s", s.kind, res))
				}
				if after && res != "closed" {
					addOrc(fmt.Sprintf("call %c begun after Close returned gave %s, want closed", s.kind, res))
				}
			}
		}(plans[g])
	}
	wg.Add(1)
	go func() {
		defer wg.Done()
		for _, d := range killPauses {
			time.Sleep(d)
			h.kill(false)
		}
	}()
	if p["close"] == 1 {
		wg.Add(1)
		go func() {
			defer wg.Done()
			time.Sleep(closePause)
			cd := make(chan struct{})
			go func() { _ = rc.Close(); close(cd) }()
			select {
			case <-cd:
			case <-h.brokenCh: // rc.m is held for ever by a call that panicked
				return
			}
			h.mu.Lock()
			cfgAtClose.Store(int64(h.cfgCalls))
			h.mu.Unlock()
			closeReturned.Store(true)
			if open := h.openIDs(); len(open) != 0 {
				addOrc(fmt.Sprintf("right after Close %d factory socket(s) open: %v", len(open), open))
			}
		}()
	}
	done := make(chan struct{})
	go func() { wg.Wait(); close(done) }()
	select {
	case <-done:
	case <-time.After(120 * time.Second):
		addOrc("concurrent history did not finish within 120s (deadlock?)")
		return vh.Result{Out: "conc checked", Oracle: orc}
	}
	// quiescent
	cfg, conn, open, _ := h.snapshot()
	if len(open) > 1 {
		addOrc(fmt.Sprintf("%d factory sockets open at quiescence: %v", len(open), open))
	}
	if p["close"] == 1 {
		if len(open) != 0 {
			addOrc(fmt.Sprintf("closed client has %d factory socket(s) open at quiescence: %v", len(open), open))
		}
		if int64(cfg) != cfgAtClose.Load() {
			addOrc(fmt.Sprintf("configFunc evaluated %d time(s) after Close returned", int64(cfg)-cfgAtClose.Load()))
		}
	}
	if len(conn) > cfg {
		addOrc("more connectedFunc calls than configuration evaluations")
	}
	h.commonOracle(&orc)
	h.finish(&orc)
	_ = h.resources(&orc) // after Close: every socket torn down completely
	sort.Strings(orc)
	return vh.Result{Out: "conc checked", NonTrivial: len(conn) > 0, Oracle: dedup(orc)}
}

// ------------------------------------------------------------------ generator

func (c *reconnectComp) Gen(r *vh.RNG, n int, emit func(op string, tags ...string)) {
	thorough := n >= 1000
	att := func(r *vh.RNG, allowDown bool) string {
		x := r.Intn(100)
		switch {
		case x < 68:
			return "ok"
		case x < 76:
			return "cfg"
		case x < 84:
			return "new"
		case x < 89:
			return "auth"
		case x < 93:
			return "rt"
		case x < 95:
			return "bad"
		case x < 96 || !allowDown:
			return "tls"
		default:
			return "down"
		}
	}
	fixed := []string{
		"seq L T:ok K T:ok T:ok",
		"seq E:ok K U:ok U:ok C T:ok",
		"seq L F:ok T:ok U:ok R:ok K T:ok T:ok",
		"seq E:auth L T:cfg T:new T:auth T:bad T:tls T:rt T:ok C C",
		"seq E:rt E:tls E:new E:ok K T:rt U:auth T:ok",
		"seq L C T:ok U:ok",
		"seq L T:ok R:ok K K U:cfg U:ok K C C T:ok",
		"seq L T:ok X:Tb T:ok U:ok C",
		"seq E:ok X:Ua U:ok T:ok",
		"seq L T:ok X:Ta C T:ok",
		"seq E:ok X:Ub T:ok X:Tb U:ok C",
	}
	for i := 0; i < n; i++ {
		if i < len(fixed) {
			emit(fixed[i], "seq", "fixed-shape")
			continue
		}
		if i%4 == 3 {
			op := fmt.Sprintf("conc seed=%d g=%d m=%d kills=%d close=%d lazy=%d fo=%d fail=%d",
				r.U64()%1000000, r.Range(2, 4), r.Range(4, 10), r.Range(0, 4), r.Intn(2), r.Intn(2), r.Intn(2), []int{0, 15, 30}[r.Intn(3)])
			emit(op, "conc")
			continue
		}
		hr := r.Fork()
		allowDown := thorough && hr.Intn(40) == 0
		var ops []string
		tags := map[string]bool{"seq": true}
		started := false
		for tries := 0; tries < 3 && !started; tries++ {
			if hr.Bool() {
				ops = append(ops, "L")
				started = true
				tags["lazy"] = true
			} else {
				a := att(hr, false)
				ops = append(ops, "E:"+a)
				started = a == "ok"
				tags["eager"] = true
				if a != "ok" {
					tags["failed-start"] = true
				}
			}
		}
		if !started && hr.Bool() {
			ops = append(ops, "T:ok") // call on nothing: nostart
		}
		k := hr.Range(3, 14)
		closed := false
		for j := 0; j < k && started; j++ {
			x := hr.Intn(100)
			switch {
			case x < 30:
				ops = append(ops, "T:"+att(hr, allowDown))
			case x < 45:
				ops = append(ops, "U:"+att(hr, allowDown))
			case x < 53:
				ops = append(ops, "R:"+att(hr, false))
				tags["refused"] = true
			case x < 60:
				ops = append(ops, "F:"+att(hr, false))
				tags["stream-limit"] = true
			case x < 66:
				ops = append(ops, "X:"+[]string{"Ta", "Tb", "Ua", "Ub"}[hr.Intn(4)])
				tags["late-error"] = true
			case x < 88:
				ops = append(ops, "K")
				tags["kill"] = true
			default:
				ops = append(ops, "C")
				tags["close"] = true
				if !closed {
					closed = true
					k = j + 1 + hr.Range(0, 3)
				}
			}
		}
		line := "seq " + strings.Join(ops, " ")
		for _, o := range ops {
			if strings.Contains(o, ":") && !strings.HasSuffix(o, ":ok") {
				tags["failing-attempt"] = true
			}
			if strings.HasSuffix(o, ":down") {
				tags["server-down"] = true
			}
		}
		var tl []string
		for t := range tags {
			tl = append(tl, t)
		}
		sort.Strings(tl)
		emit(line, tl...)
	}
}
