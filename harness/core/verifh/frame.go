//go:build verif

package main

import (
	"bytes"
	"fmt"
	"io"
	"runtime"
	"strings"

	"github.com/apernet/quic-go/quicvarint"

	hyerrors "github.com/apernet/hysteria/core/v2/errors"
	"github.com/apernet/hysteria/core/v2/internal/protocol"
	vh "github.com/apernet/hysteria/core/v2/verifhlib"
)

// C04: ReadTCPRequest / ReadTCPResponse / WriteTCPRequest / WriteTCPResponse.

func init() { vh.Register("frame", func() vh.Component { return &frameComp{} }) }

type frameComp struct{}

// chunkReader delivers a stream in the given chunks (an empty chunk is a (0, nil)
// read), counts the bytes it handed out, and ends with io.EOF.
type chunkReader struct {
	chunks   [][]byte
	consumed int
	// eofWithLast: the read that hands out the last byte of the stream returns it together
	// with io.EOF (n > 0, io.EOF) — what quic-go does when the FIN rides on the last frame
	eofWithLast bool
}

func (c *chunkReader) Read(p []byte) (int, error) {
	if len(c.chunks) == 0 {
		return 0, io.EOF
	}
	if len(p) == 0 {
		return 0, nil
	}
	cur := c.chunks[0]
	if len(cur) == 0 {
		c.chunks = c.chunks[1:]
		return 0, nil
	}
	n := copy(p, cur)
	if n == len(cur) {
		c.chunks = c.chunks[1:]
	} else {
		c.chunks[0] = cur[n:]
	}
	c.consumed += n
	if c.eofWithLast && c.drained() {
		return n, io.EOF
	}
	return n, nil
}

func (c *chunkReader) drained() bool {
	for _, x := range c.chunks {
		if len(x) > 0 {
			return false
		}
	}
	return true
}

func (c *chunkReader) rest() []byte {
	var b []byte
	for _, x := range c.chunks {
		b = append(b, x...)
	}
	return b
}

func varintW(w int, n uint64) []byte {
	switch w {
	case 0:
		return []byte{byte(n)}
	case 1:
		return []byte{byte(n>>8) | 0x40, byte(n)}
	case 2:
		return []byte{byte(n>>24) | 0x80, byte(n >> 16), byte(n >> 8), byte(n)}
	default:
		return []byte{byte(n>>56) | 0xc0, byte(n >> 48), byte(n >> 40), byte(n >> 32), byte(n >> 24), byte(n >> 16), byte(n >> 8), byte(n)}
	}
}

func minW(n uint64) int {
	switch {
	case n <= 63:
		return 0
	case n <= 16383:
		return 1
	case n <= 1073741823:
		return 2
	}
	return 3
}

// a legal width for n, chosen at random among those that fit
func legalW(r *vh.RNG, n uint64) int { return r.Range(minW(n), 3) }

var addrLens = []int{1, 2, 3, 62, 63, 64, 65, 255, 256, 2047, 2048}
var padLens = []int{0, 0, 1, 63, 64, 65, 511, 4095, 4096}
var badAddrLens = []uint64{0, 2049, 2050, 4096, 16384, 1 << 20, 1 << 30, 1<<62 - 1}
var badPadLens = []uint64{4097, 4098, 16384, 1 << 30, 1<<62 - 1}

func (frameComp) Gen(r *vh.RNG, n int, emit func(op string, tags ...string)) {
	for i := 0; i < n; i++ {
		k := r.Intn(100)
		switch {
		case k < 30: // valid request, any widths, trailing payload, any chunking
			al := r.Pick(addrLens)
			if r.Chance(1, 3) {
				al = r.Range(1, 2048)
			}
			pl := r.Pick(padLens)
			if r.Chance(1, 3) {
				pl = r.Range(0, 4096)
			}
			var b []byte
			framed := r.Bool()
			if framed {
				b = append(b, varintW(legalW(r, protocol.FrameTypeTCPRequest), protocol.FrameTypeTCPRequest)...)
			}
			b = append(b, varintW(legalW(r, uint64(al)), uint64(al))...)
			addr := r.ASCII(al)
			b = append(b, addr...)
			b = append(b, varintW(legalW(r, uint64(pl)), uint64(pl))...)
			b = append(b, r.Bytes(pl)...)
			trail := r.Intn(24)
			if r.Chance(1, 3) {
				trail = 0 // the frame ends the stream
			}
			b = append(b, r.Bytes(trail)...)
			op := "rdreq"
			if framed {
				op = "rdframed"
			}
			emit(fmt.Sprintf("%s %s exp=ok:%s:%d eof=%d", op, vh.Chunks(r.Chunk(b)), vh.Hex(addr), trail, r.Intn(2)), "req-valid")
		case k < 45: // valid response
			ml := r.Pick(append([]int{0, 0}, addrLens...))
			if r.Chance(1, 3) {
				ml = r.Range(0, 2048)
			}
			pl := r.Pick(padLens)
			if r.Chance(1, 3) {
				pl = r.Range(0, 4096)
			}
			st := byte(r.Intn(2))
			if r.Chance(1, 10) {
				st = byte(r.U64())
			}
			b := []byte{st}
			b = append(b, varintW(legalW(r, uint64(ml)), uint64(ml))...)
			msg := r.Bytes(ml)
			b = append(b, msg...)
			b = append(b, varintW(legalW(r, uint64(pl)), uint64(pl))...)
			b = append(b, r.Bytes(pl)...)
			trail := r.Intn(24)
			if r.Chance(1, 3) {
				trail = 0 // the frame ends the stream (a dial-error response followed by Close)
			}
			b = append(b, r.Bytes(trail)...)
			emit(fmt.Sprintf("rdresp %s exp=ok:%s:%d eof=%d", vh.Chunks(r.Chunk(b)), vh.Hex(msg), trail, r.Intn(2)), "resp-valid")
		case k < 57: // over-limit declared lengths
			var b []byte
			op := "rdreq"
			switch r.Intn(4) {
			case 0: // bad address length
				v := badAddrLens[r.Intn(len(badAddrLens))]
				b = append(b, varintW(legalW(r, v), v)...)
				b = append(b, r.Bytes(r.Intn(40))...)
			case 1: // bad padding length in request
				al := r.Pick(addrLens)
				v := badPadLens[r.Intn(len(badPadLens))]
				b = append(b, varintW(legalW(r, uint64(al)), uint64(al))...)
				b = append(b, r.ASCII(al)...)
				b = append(b, varintW(legalW(r, v), v)...)
				b = append(b, r.Bytes(r.Intn(40))...)
			case 2: // bad message length
				op = "rdresp"
				v := badAddrLens[1+r.Intn(len(badAddrLens)-1)]
				b = append(b, byte(r.Intn(2)))
				b = append(b, varintW(legalW(r, v), v)...)
				b = append(b, r.Bytes(r.Intn(40))...)
			default: // bad padding length in response
				op = "rdresp"
				ml := r.Pick(addrLens)
				v := badPadLens[r.Intn(len(badPadLens))]
				b = append(b, byte(r.Intn(2)))
				b = append(b, varintW(legalW(r, uint64(ml)), uint64(ml))...)
				b = append(b, r.Bytes(ml)...)
				b = append(b, varintW(legalW(r, v), v)...)
				b = append(b, r.Bytes(r.Intn(40))...)
			}
			emit(fmt.Sprintf("%s %s exp=proto eof=%d", op, vh.Chunks(r.Chunk(b)), r.Intn(2)), "overlimit")
		case k < 70: // truncation of a valid frame at a random offset
			al := r.Pick([]int{1, 2, 63, 64, 100})
			pl := r.Pick([]int{0, 1, 63, 64, 100})
			var b []byte
			op := "rdreq"
			if r.Bool() {
				op = "rdresp"
				b = append(b, byte(r.Intn(2)))
			}
			b = append(b, varintW(legalW(r, uint64(al)), uint64(al))...)
			b = append(b, r.ASCII(al)...)
			b = append(b, varintW(legalW(r, uint64(pl)), uint64(pl))...)
			b = append(b, r.Bytes(pl)...)
			b = b[:r.Intn(len(b)+1)]
			emit(fmt.Sprintf("%s %s eof=%d", op, vh.Chunks(r.Chunk(b)), r.Intn(2)), "truncated")
		case k < 78: // random bytes
			b := r.Bytes(r.Intn(40))
			op := []string{"rdreq", "rdresp", "rdframed"}[r.Intn(3)]
			emit(op+" "+vh.Chunks(r.Chunk(b)), "random")
		case k < 90: // writer: request
			al := r.Pick(append([]int{0, 2049, 5000}, addrLens...))
			if r.Chance(1, 3) {
				al = r.Range(1, 2048)
			}
			emit("gowrreq "+vh.Hex(r.ASCII(al)), "wr-req")
		default: // writer: response
			ml := r.Pick(append([]int{0, 2049, 5000}, addrLens...))
			if r.Chance(1, 3) {
				ml = r.Range(0, 2048)
			}
			emit(fmt.Sprintf("gowrresp %d %s", r.Intn(2), vh.Hex(r.Bytes(ml))), "wr-resp")
		}
	}
}

func b01(b bool) string {
	if b {
		return "1"
	}
	return "0"
}

// splitPad parses what a writer produced with the library varint reader and returns
// the padding bytes: [0x401] <len> <body of bodyLen> <padlen> <pad>.
func splitPad(out []byte, request bool, bodyLen int) ([]byte, bool) {
	rd := bytes.NewReader(out)
	if request {
		if ft, err := quicvarint.Read(rd); err != nil || ft != protocol.FrameTypeTCPRequest {
			return nil, false
		}
	} else {
		if _, err := rd.ReadByte(); err != nil {
			return nil, false
		}
	}
	l, err := quicvarint.Read(rd)
	if err != nil || int(l) != bodyLen {
		return nil, false
	}
	if _, err := rd.Seek(int64(bodyLen), io.SeekCurrent); err != nil {
		return nil, false
	}
	pl, err := quicvarint.Read(rd)
	if err != nil || int(pl) != rd.Len() {
		return nil, false
	}
	pad := make([]byte, pl)
	io.ReadFull(rd, pad)
	return pad, true
}

func errClass(err error) string {
	if _, ok := err.(hyerrors.ProtocolError); ok {
		return "proto"
	}
	return "eof"
}

func totalLen(cs [][]byte) int {
	n := 0
	for _, c := range cs {
		n += len(c)
	}
	return n
}

// measure the bytes allocated by f (single-threaded harness): detects a `make`
// of a peer-declared over-limit size.
func allocBytes(f func()) uint64 {
	var a, b runtime.MemStats
	runtime.ReadMemStats(&a)
	f()
	runtime.ReadMemStats(&b)
	return b.TotalAlloc - a.TotalAlloc
}

func bigFlag(n uint64) string {
	if n > 1<<20 {
		return "1"
	}
	return "0"
}

// expectation carried by generated ops (model-free: the generator knows what it built):
//	exp=ok:<hex of address|message>:<trailing bytes>   a valid frame followed by a trailing payload
//	exp=proto                                           an over-limit / empty declared length
func fieldWith(f []string, prefix string) string {
	for _, x := range f[2:] {
		if strings.HasPrefix(x, prefix) {
			return strings.TrimPrefix(x, prefix)
		}
	}
	return ""
}

func checkExp(f []string, out string, total int) []string {
	e := ""
	if len(f) >= 3 {
		e = fieldWith(f, "exp=")
	}
	if e == "" {
		return nil
	}
	if e == "proto" {
		if !strings.HasPrefix(out, "proto ") {
			return []string{"an over-limit or empty declared length was not rejected as a protocol error: " + out}
		}
		return nil
	}
	p := strings.Split(e, ":")
	want := p[1]
	var trail int
	fmt.Sscan(p[2], &trail)
	o := strings.Fields(out)
	if o[0] != "ok" {
		return []string{"a valid frame was not read back: " + out}
	}
	got := o[len(o)-2]
	if strings.HasPrefix(got, "consumed=") { // rdframed has no big= suffix
		got = o[len(o)-1]
	}
	_ = got
	var orc []string
	val := o[1]
	if f[0] == "rdresp" {
		val = o[2]
	}
	if val != want {
		orc = append(orc, "a valid frame was read back with a different address/message")
	}
	if !strings.Contains(out, fmt.Sprintf(" consumed=%d", total-trail)) {
		orc = append(orc, fmt.Sprintf("reading did not consume exactly the frame (frame %d bytes): %s", total-trail, out))
	}
	return orc
}

func (c frameComp) Run(op string) vh.Result {
	res := c.run(op)
	f := strings.Fields(op)
	if len(f) >= 3 && (f[0] == "rdreq" || f[0] == "rdframed" || f[0] == "rdresp") {
		res.Oracle = append(res.Oracle, checkExp(f, res.Out, totalLen(vh.ParseChunks(f[1])))...)
		if res.ModelOp == "" {
			res.ModelOp = f[0] + " " + f[1]
		}
	}
	return res
}

func (frameComp) run(op string) vh.Result {
	f := strings.Fields(op)
	var orc []string
	switch f[0] {
	case "rdreq", "rdframed":
		cs := vh.ParseChunks(f[1])
		total := totalLen(cs)
		flat := bytes.Join(cs, nil)
		cr := &chunkReader{chunks: cs, eofWithLast: len(f) >= 3 && fieldWith(f, "eof=") == "1"}
		var addr string
		var err error
		framedProto := false
		alloc := allocBytes(func() {
			if f[0] == "rdframed" {
				// what handleStream does before ReadTCPRequest
				var ft uint64
				ft, err = quicvarint.Read(quicvarint.NewReader(cr))
				if err != nil {
					return
				}
				if ft != protocol.FrameTypeTCPRequest {
					framedProto = true
					return
				}
			}
			addr, err = protocol.ReadTCPRequest(cr)
		})
		suffix := ""
		if f[0] == "rdreq" {
			suffix = " big=" + bigFlag(alloc)
		}
		if framedProto {
			return vh.Result{Out: fmt.Sprintf("proto consumed=%d", cr.consumed), NonTrivial: false, Oracle: nil}
		}
		if err != nil {
			cl := errClass(err)
			if cl == "proto" && alloc > 1<<20 {
				orc = append(orc, fmt.Sprintf("over-limit frame rejected only after allocating %d bytes", alloc))
			}
			if cl == "eof" && cr.consumed != total {
				// an EOF-class error with unread input: the reader lost bytes
				orc = append(orc, fmt.Sprintf("EOF-class error with %d of %d bytes consumed", cr.consumed, total))
			}
			return vh.Result{Out: fmt.Sprintf("%s consumed=%d%s", cl, cr.consumed, suffix), NonTrivial: cl == "proto", Oracle: orc}
		}
		// model-free oracle: the address is a substring of the input at the position the
		// consumed count implies, and the unread rest is a suffix of the input
		if !bytes.HasSuffix(flat, cr.rest()) || cr.consumed+len(cr.rest()) != total {
			orc = append(orc, "unread rest is not the tail of the input")
		}
		if !bytes.Contains(flat[:cr.consumed], []byte(addr)) {
			orc = append(orc, "returned address does not occur in the consumed bytes")
		}
		return vh.Result{Out: fmt.Sprintf("ok %s consumed=%d%s", vh.Hex([]byte(addr)), cr.consumed, suffix), NonTrivial: true, Oracle: orc}
	case "rdresp":
		cs := vh.ParseChunks(f[1])
		total := totalLen(cs)
		flat := bytes.Join(cs, nil)
		cr := &chunkReader{chunks: cs, eofWithLast: len(f) >= 3 && fieldWith(f, "eof=") == "1"}
		var ok bool
		var msg string
		var err error
		alloc := allocBytes(func() { ok, msg, err = protocol.ReadTCPResponse(cr) })
		suffix := " big=" + bigFlag(alloc)
		if err != nil {
			cl := errClass(err)
			if cl == "proto" && alloc > 1<<20 {
				orc = append(orc, fmt.Sprintf("over-limit frame rejected only after allocating %d bytes", alloc))
			}
			if cl == "eof" && cr.consumed != total {
				orc = append(orc, fmt.Sprintf("EOF-class error with %d of %d bytes consumed", cr.consumed, total))
			}
			return vh.Result{Out: fmt.Sprintf("%s consumed=%d%s", cl, cr.consumed, suffix), NonTrivial: cl == "proto", Oracle: orc}
		}
		if !bytes.HasSuffix(flat, cr.rest()) || cr.consumed+len(cr.rest()) != total {
			orc = append(orc, "unread rest is not the tail of the input")
		}
		b := "0"
		if ok {
			b = "1"
		}
		return vh.Result{Out: fmt.Sprintf("ok %s %s consumed=%d%s", b, vh.Hex([]byte(msg)), cr.consumed, suffix), NonTrivial: true, Oracle: orc}
	case "gowrreq":
		addr := vh.UnHex(f[1])
		var buf bytes.Buffer
		if err := protocol.WriteTCPRequest(&buf, string(addr)); err != nil {
			return vh.Result{Out: "err", NonTrivial: false, Oracle: nil}
		}
		out := buf.Bytes()
		// model-free round trip through the real reader with a trailing payload and 1-byte reads
		trailer := []byte{0xde, 0xad, 0xbe, 0xef}
		all := append(append([]byte{}, out...), trailer...)
		var cs [][]byte
		for _, x := range all {
			cs = append(cs, []byte{x})
		}
		cr := &chunkReader{chunks: cs}
		ft, err := quicvarint.Read(quicvarint.NewReader(cr))
		if err != nil || ft != protocol.FrameTypeTCPRequest {
			orc = append(orc, "written request does not start with frame type 0x401")
		} else if len(addr) >= 1 && len(addr) <= 2048 {
			got, err := protocol.ReadTCPRequest(cr)
			if err != nil || got != string(addr) {
				orc = append(orc, fmt.Sprintf("round trip failed: err=%v, address equal=%v", err, got == string(addr)))
			} else if !bytes.Equal(cr.rest(), trailer) {
				orc = append(orc, fmt.Sprintf("round trip swallowed or left bytes: rest=%x", cr.rest()))
			}
		}
		// recover the padding the writer drew (the model takes it as an input)
		pad, okp := splitPad(out, true, len(addr))
		if !okp {
			orc = append(orc, "written request is not <0x401><len><addr><padlen><pad>")
		}
		c := protocol.VerifConsts()
		inr := uint64(len(pad)) >= c["tcpRequestPaddingMin"] && uint64(len(pad)) < c["tcpRequestPaddingMax"]
		return vh.Result{Out: fmt.Sprintf("%s padrange=%s", vh.Hex(out), b01(inr)),
			ModelOp:    fmt.Sprintf("wrreq %s %s", vh.Hex(addr), vh.Hex(pad)),
			NonTrivial: len(addr) >= 1 && len(addr) <= 2048, Oracle: orc}
	case "gowrresp":
		msg := vh.UnHex(f[2])
		okb := f[1] == "1"
		var buf bytes.Buffer
		if err := protocol.WriteTCPResponse(&buf, okb, string(msg)); err != nil {
			return vh.Result{Out: "err", NonTrivial: false, Oracle: nil}
		}
		out := buf.Bytes()
		trailer := []byte{0xde, 0xad, 0xbe, 0xef}
		all := append(append([]byte{}, out...), trailer...)
		var cs [][]byte
		for _, x := range all {
			cs = append(cs, []byte{x})
		}
		cr := &chunkReader{chunks: cs}
		if len(msg) <= 2048 {
			gok, gmsg, err := protocol.ReadTCPResponse(cr)
			if err != nil || gok != okb || gmsg != string(msg) {
				orc = append(orc, fmt.Sprintf("round trip failed: err=%v", err))
			} else if !bytes.Equal(cr.rest(), trailer) {
				orc = append(orc, fmt.Sprintf("round trip swallowed or left bytes: rest=%x", cr.rest()))
			}
		}
		pad, okp := splitPad(out, false, len(msg))
		if !okp {
			orc = append(orc, "written response is not <status><len><msg><padlen><pad>")
		}
		c := protocol.VerifConsts()
		inr := uint64(len(pad)) >= c["tcpResponsePaddingMin"] && uint64(len(pad)) < c["tcpResponsePaddingMax"]
		return vh.Result{Out: fmt.Sprintf("%s padrange=%s", vh.Hex(out), b01(inr)),
			ModelOp:    fmt.Sprintf("wrresp %s %s %s", f[1], vh.Hex(msg), vh.Hex(pad)),
			NonTrivial: len(msg) <= 2048, Oracle: orc}
	}
	return vh.Result{Out: "bad-op", NonTrivial: false, Oracle: nil}
}
