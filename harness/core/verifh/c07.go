//go:build verif

package main

import (
	"github.com/apernet/hysteria/core/v2/server"
	"github.com/apernet/hysteria/core/v2/verifhlib"
)

// C07/C08: constants of core/server/udp.go (the correspondence harness itself is the
// in-package test harness/core/server/zz_verif_c07_test.go).
func init() {
	verifhlib.RegisterConsts(func() map[string]any {
		m := map[string]any{}
		for k, v := range server.VerifC07Consts() {
			m[k] = v
		}
		return m
	})
}
