//go:build verif

package main

import (
	"bytes"
	"go/ast"
	"go/parser"
	"go/printer"
	"go/token"
	"os"
	"path/filepath"
	"strings"

	"github.com/apernet/hysteria/core/v2/server"
	"github.com/apernet/hysteria/core/v2/verifhlib"
)

// C07/C08: constants of core/server/udp.go, and the SKELETON of its concurrent functions (DESIGN §2.4
// Gen/Skeleton): for each function the source-order list of lock/unlock calls, go statements, calls,
// returns, branch conditions and writes of the guarded fields.  lean/Hy/Props/C07.lean holds the
// skeleton the model's atomic steps were written from; a check that moves out of its lock region, a
// dropped test, an extra call changes the string and fails the obligation there.
// (The correspondence harness itself is the in-package test harness/core/server/zz_verif_c07_test.go.)
func init() {
	verifhlib.RegisterConsts(func() map[string]any {
		m := map[string]any{}
		for k, v := range server.VerifC07Consts() {
			m[k] = v
		}
		for k, v := range udpSkeleton() {
			m[k] = v
		}
		return m
	})
}

// C07 (lifecycle) skeletons: token form, with the address bookkeeping (C08's part) left out.
var skelFuncs = []string{"CloseWithErr", "initConn", "receiveLoop", "Run", "idleCleanupLoop", "cleanup", "feed", "Count"}

// calls that carry no lifecycle meaning
var skelIgnore = map[string]bool{"make": true, "len": true, "append": true, "errors.New": true, "time.Now": true,
	"uint16": true, "uint8": true, "int": true, "rand.Intn": true, "errors.As": true, "now.Sub": true}

// udpSkeleton returns
//   udpSkel_<f>     (C07) lifecycle skeleton of f: locks, go statements, calls, returns, branch conditions, writes of the
//                   guarded fields — WITHOUT the override/original-address bookkeeping and the decision cache;
//   udpSkel_FeedHead(C07) the part of Feed before the connection is needed (activity stamp, defragmentation);
//   udpAclSkel_<x>  (C08) the normalised source text of exactly the statements C08's model is written from: Feed from
//                   `if e.conn == nil` on, checkAddr, the dial call and the override assignment of initConn, the
//                   original-address substitution of receiveLoop, and the dialFunc closure (hook → log → dial).
// so that a change to the lifecycle does not disturb C08's obligations and vice versa.
func udpSkeleton() map[string]any {
	repo := os.Getenv("VERIF_REPO")
	if repo == "" {
		repo = "/repo"
	}
	keys := []string{"udpSkel_FeedHead", "udpAclSkel_Feed", "udpAclSkel_checkAddr", "udpAclSkel_initConn", "udpAclSkel_receiveLoop", "udpAclSkel_dialFunc"}
	for _, n := range skelFuncs {
		keys = append(keys, "udpSkel_"+n)
	}
	out := map[string]any{}
	for _, k := range keys {
		out[k] = "missing"
	}
	fset := token.NewFileSet()
	f, err := parser.ParseFile(fset, filepath.Join(repo, "core", "server", "udp.go"), nil, 0)
	if err != nil {
		for _, k := range keys {
			out[k] = "parse error: " + err.Error()
		}
		return out
	}
	want := map[string]bool{}
	for _, n := range skelFuncs {
		want[n] = true
	}
	t := &skel{fset: fset}
	isIf := func(st ast.Stmt, sub string) bool {
		x, ok := st.(*ast.IfStmt)
		return ok && strings.Contains(t.text(x.Cond), sub)
	}
	for _, d := range f.Decls {
		fd, ok := d.(*ast.FuncDecl)
		if !ok || fd.Body == nil {
			continue
		}
		name := fd.Name.Name
		if want[name] {
			sk := skel{fset: fset, lifecycle: true}
			sk.block(fd.Body)
			out["udpSkel_"+name] = strings.Join(sk.toks, " ")
		}
		switch name {
		case "Feed":
			head := skel{fset: fset, lifecycle: true}
			var tail []string
			inTail := false
			for _, st := range fd.Body.List {
				if isIf(st, "e.conn==nil") {
					inTail = true
				}
				if inTail {
					tail = append(tail, t.text(st))
				} else {
					head.stmt(st)
				}
			}
			out["udpSkel_FeedHead"] = strings.Join(head.toks, " ")
			out["udpAclSkel_Feed"] = strings.Join(tail, " ; ")
		case "checkAddr":
			out["udpAclSkel_checkAddr"] = t.text(fd.Body)
		case "initConn":
			var parts []string
			ast.Inspect(fd.Body, func(n ast.Node) bool {
				if st, ok := n.(ast.Stmt); ok {
					if as, ok := st.(*ast.AssignStmt); ok && strings.Contains(t.text(as), "e.DialFunc(") {
						parts = append(parts, t.text(as))
					}
					if isIf(st, "actualAddr") {
						parts = append(parts, t.text(st))
						return false
					}
				}
				return true
			})
			out["udpAclSkel_initConn"] = strings.Join(parts, " ; ")
		case "receiveLoop":
			var parts []string
			ast.Inspect(fd.Body, func(n ast.Node) bool {
				if st, ok := n.(ast.Stmt); ok && isIf(st, "OriginalAddr") {
					parts = append(parts, t.text(st))
					return false
				}
				if kv, ok := n.(*ast.KeyValueExpr); ok && t.text(kv.Key) == "Addr" {
					parts = append(parts, t.text(kv))
				}
				return true
			})
			out["udpAclSkel_receiveLoop"] = strings.Join(parts, " ; ")
		case "feed":
			done := false
			ast.Inspect(fd.Body, func(n ast.Node) bool {
				if fl, ok := n.(*ast.FuncLit); ok && !done {
					done = true
					out["udpAclSkel_dialFunc"] = t.text(fl.Body)
					return false
				}
				return true
			})
		}
	}
	return out
}

type skel struct {
	lifecycle bool // leave out the address bookkeeping (C08's part)
	fset      *token.FileSet
	toks []string
}

func (s *skel) text(n ast.Node) string {
	var b bytes.Buffer
	_ = printer.Fprint(&b, s.fset, n)
	return strings.Join(strings.Fields(b.String()), "")
}

func (s *skel) emit(t string) { s.toks = append(s.toks, t) }

func (s *skel) block(b *ast.BlockStmt) {
	for _, st := range b.List {
		s.stmt(st)
	}
}

func (s *skel) stmt(st ast.Stmt) {
	switch x := st.(type) {
	case *ast.BlockStmt:
		s.block(x)
	case *ast.ExprStmt:
		s.expr(x.X)
	case *ast.GoStmt:
		s.emit("go(" + s.text(x.Call.Fun) + ")")
		for _, a := range x.Call.Args {
			s.expr(a)
		}
	case *ast.DeferStmt:
		s.emit("defer(" + s.text(x.Call.Fun) + ")")
		for _, a := range x.Call.Args {
			s.expr(a)
		}
	case *ast.ReturnStmt:
		for _, r := range x.Results {
			s.expr(r)
		}
		s.emit("ret")
	case *ast.AssignStmt:
		for _, r := range x.Rhs {
			s.expr(r)
		}
		for _, l := range x.Lhs {
			t := s.text(l)
			for _, p := range []string{"e.closed", "e.conn", "e.OverrideAddr", "e.OriginalAddr", "e.aclCache", "m."} {
				if strings.HasPrefix(t, p) {
					s.emit("set(" + t + ")")
					break
				}
			}
		}
		// where a slice comes from: a fresh make() or a view of something shared
		if x.Tok == token.DEFINE && len(x.Lhs) == 1 && len(x.Rhs) == 1 {
			switch r := x.Rhs[0].(type) {
			case *ast.CallExpr:
				if s.text(r.Fun) == "make" {
					s.emit("def(" + s.text(x.Lhs[0]) + ":=make)")
				}
			case *ast.SliceExpr:
				s.emit("def(" + s.text(x.Lhs[0]) + ":=" + s.text(r) + ")")
			}
		}
	case *ast.IncDecStmt, *ast.DeclStmt, *ast.BranchStmt, *ast.EmptyStmt:
		if b, ok := st.(*ast.BranchStmt); ok {
			s.emit(b.Tok.String())
		}
	case *ast.IfStmt:
		if c := s.text(x.Cond); s.lifecycle && (strings.Contains(c, "OriginalAddr") || strings.Contains(c, "actualAddr")) {
			return
		}
		if x.Init != nil {
			s.stmt(x.Init)
		}
		s.emit("if(" + s.text(x.Cond) + "){")
		s.block(x.Body)
		s.emit("}")
		if x.Else != nil {
			s.emit("else{")
			s.stmt(x.Else)
			s.emit("}")
		}
	case *ast.ForStmt:
		if x.Cond != nil {
			s.emit("for(" + s.text(x.Cond) + "){")
		} else {
			s.emit("for{")
		}
		s.block(x.Body)
		s.emit("}")
	case *ast.RangeStmt:
		s.emit("range(" + s.text(x.X) + "){")
		s.block(x.Body)
		s.emit("}")
	case *ast.SelectStmt:
		s.emit("select{")
		for _, c := range x.Body.List {
			cc := c.(*ast.CommClause)
			if cc.Comm == nil {
				s.emit("default:")
			} else {
				s.emit("case(" + s.text(cc.Comm) + "):")
			}
			for _, b := range cc.Body {
				s.stmt(b)
			}
		}
		s.emit("}")
	default:
		s.emit("stmt(" + s.text(st) + ")")
	}
}

func (s *skel) expr(e ast.Expr) {
	ast.Inspect(e, func(n ast.Node) bool {
		switch x := n.(type) {
		case *ast.FuncLit:
			s.emit("func{")
			s.block(x.Body)
			s.emit("}")
			return false
		case *ast.CallExpr:
			name := s.text(x.Fun)
			for _, a := range x.Args {
				s.expr(a)
			}
			if fl, ok := x.Fun.(*ast.FuncLit); ok {
				s.expr(fl)
			} else if name == "delete" || name == "close" {
				s.emit(s.text(x))
			} else if !skelIgnore[name] {
				s.emit(name)
			}
			return false
		case *ast.CompositeLit:
			if s.text(x.Type) == "protocol.UDPMessage" {
				var kv []string
				for _, el := range x.Elts {
					if p, ok := el.(*ast.KeyValueExpr); ok {
						if k := s.text(p.Key); k == "SessionID" || (k == "Addr" && !s.lifecycle) {
							kv = append(kv, k+":"+s.text(p.Value))
						}
					}
				}
				s.emit("msg{" + strings.Join(kv, ",") + "}")
			}
		case *ast.UnaryExpr:
			if x.Op == token.ARROW {
				s.emit("recv(" + s.text(x.X) + ")")
			}
		}
		return true
	})
}
