//go:build verif

package main

import (
	"bytes"
	"go/ast"
	"go/parser"
	"go/printer"
	"go/token"
	"os"
	"path/filepath"
	"strings"

	"github.com/apernet/hysteria/core/v2/server"
	"github.com/apernet/hysteria/core/v2/verifhlib"
)

// C07/C08: constants of core/server/udp.go, and the SKELETON of its concurrent functions (DESIGN §2.4
// Gen/Skeleton): for each function the source-order list of lock/unlock calls, go statements, calls,
// returns, branch conditions and writes of the guarded fields.  lean/Hy/Props/C07.lean holds the
// skeleton the model's atomic steps were written from; a check that moves out of its lock region, a
// dropped test, an extra call changes the string and fails the obligation there.
// (The correspondence harness itself is the in-package test harness/core/server/zz_verif_c07_test.go.)
func init() {
	verifhlib.RegisterConsts(func() map[string]any {
		m := map[string]any{}
		for k, v := range server.VerifC07Consts() {
			m[k] = v
		}
		for k, v := range udpSkeleton() {
			m[k] = v
		}
		return m
	})
}

var skelFuncs = []string{"CloseWithErr", "Feed", "checkAddr", "initConn", "receiveLoop", "Run", "idleCleanupLoop", "cleanup", "feed", "Count"}

// calls that carry no lifecycle meaning
var skelIgnore = map[string]bool{"make": true, "len": true, "append": true, "errors.New": true, "time.Now": true,
	"uint16": true, "uint8": true, "int": true, "rand.Intn": true, "errors.As": true, "now.Sub": true}

func udpSkeleton() map[string]any {
	repo := os.Getenv("VERIF_REPO")
	if repo == "" {
		repo = "/repo"
	}
	out := map[string]any{}
	fset := token.NewFileSet()
	f, err := parser.ParseFile(fset, filepath.Join(repo, "core", "server", "udp.go"), nil, 0)
	if err != nil {
		for _, n := range skelFuncs {
			out["udpSkel_"+n] = "parse error: " + err.Error()
		}
		return out
	}
	found := map[string]string{}
	for _, d := range f.Decls {
		fd, ok := d.(*ast.FuncDecl)
		if !ok || fd.Body == nil {
			continue
		}
		var sk skel
		sk.fset = fset
		sk.block(fd.Body)
		found[fd.Name.Name] = strings.Join(sk.toks, " ")
	}
	for _, n := range skelFuncs {
		if s, ok := found[n]; ok {
			out["udpSkel_"+n] = s
		} else {
			out["udpSkel_"+n] = "missing"
		}
	}
	return out
}

type skel struct {
	fset *token.FileSet
	toks []string
}

func (s *skel) text(n ast.Node) string {
	var b bytes.Buffer
	_ = printer.Fprint(&b, s.fset, n)
	return strings.Join(strings.Fields(b.String()), "")
}

func (s *skel) emit(t string) { s.toks = append(s.toks, t) }

func (s *skel) block(b *ast.BlockStmt) {
	for _, st := range b.List {
		s.stmt(st)
	}
}

func (s *skel) stmt(st ast.Stmt) {
	switch x := st.(type) {
	case *ast.BlockStmt:
		s.block(x)
	case *ast.ExprStmt:
		s.expr(x.X)
	case *ast.GoStmt:
		s.emit("go(" + s.text(x.Call.Fun) + ")")
		for _, a := range x.Call.Args {
			s.expr(a)
		}
	case *ast.DeferStmt:
		s.emit("defer(" + s.text(x.Call.Fun) + ")")
		for _, a := range x.Call.Args {
			s.expr(a)
		}
	case *ast.ReturnStmt:
		for _, r := range x.Results {
			s.expr(r)
		}
		s.emit("ret")
	case *ast.AssignStmt:
		for _, r := range x.Rhs {
			s.expr(r)
		}
		for _, l := range x.Lhs {
			t := s.text(l)
			for _, p := range []string{"e.closed", "e.conn", "e.OverrideAddr", "e.OriginalAddr", "e.aclCache", "m.m["} {
				if strings.HasPrefix(t, p) {
					s.emit("set(" + t + ")")
				}
			}
		}
	case *ast.IncDecStmt, *ast.DeclStmt, *ast.BranchStmt, *ast.EmptyStmt:
		if b, ok := st.(*ast.BranchStmt); ok {
			s.emit(b.Tok.String())
		}
	case *ast.IfStmt:
		if x.Init != nil {
			s.stmt(x.Init)
		}
		s.emit("if(" + s.text(x.Cond) + "){")
		s.block(x.Body)
		s.emit("}")
		if x.Else != nil {
			s.emit("else{")
			s.stmt(x.Else)
			s.emit("}")
		}
	case *ast.ForStmt:
		if x.Cond != nil {
			s.emit("for(" + s.text(x.Cond) + "){")
		} else {
			s.emit("for{")
		}
		s.block(x.Body)
		s.emit("}")
	case *ast.RangeStmt:
		s.emit("range(" + s.text(x.X) + "){")
		s.block(x.Body)
		s.emit("}")
	case *ast.SelectStmt:
		s.emit("select{")
		for _, c := range x.Body.List {
			cc := c.(*ast.CommClause)
			if cc.Comm == nil {
				s.emit("default:")
			} else {
				s.emit("case(" + s.text(cc.Comm) + "):")
			}
			for _, b := range cc.Body {
				s.stmt(b)
			}
		}
		s.emit("}")
	default:
		s.emit("stmt(" + s.text(st) + ")")
	}
}

func (s *skel) expr(e ast.Expr) {
	ast.Inspect(e, func(n ast.Node) bool {
		switch x := n.(type) {
		case *ast.FuncLit:
			s.emit("func{")
			s.block(x.Body)
			s.emit("}")
			return false
		case *ast.CallExpr:
			name := s.text(x.Fun)
			for _, a := range x.Args {
				s.expr(a)
			}
			if fl, ok := x.Fun.(*ast.FuncLit); ok {
				s.expr(fl)
			} else if name == "delete" || name == "close" {
				s.emit(s.text(x))
			} else if !skelIgnore[name] {
				s.emit(name)
			}
			return false
		case *ast.CompositeLit:
			if s.text(x.Type) == "protocol.UDPMessage" {
				var kv []string
				for _, el := range x.Elts {
					if p, ok := el.(*ast.KeyValueExpr); ok {
						if k := s.text(p.Key); k == "SessionID" || k == "Addr" {
							kv = append(kv, k+":"+s.text(p.Value))
						}
					}
				}
				s.emit("msg{" + strings.Join(kv, ",") + "}")
			}
		case *ast.UnaryExpr:
			if x.Op == token.ARROW {
				s.emit("recv(" + s.text(x.X) + ")")
			}
		}
		return true
	})
}
