//go:build verif

package relayc06

import (
	"bytes"
	"crypto/ecdsa"
	"crypto/elliptic"
	"crypto/rand"
	"crypto/tls"
	"crypto/x509"
	"crypto/x509/pkix"
	"errors"
	"fmt"
	"io"
	"math/big"
	"net"
	"strconv"
	"strings"
	"sync"
	"time"

	"github.com/apernet/quic-go"

	"github.com/apernet/hysteria/core/v2/client"
	coreErrs "github.com/apernet/hysteria/core/v2/errors"
	"github.com/apernet/hysteria/core/v2/server"
	vh "github.com/apernet/hysteria/core/v2/verifhlib"
)

// C06, tie (2): the REAL client and server over loopback UDP, with a fake Outbound whose
// net.Conn is scripted.  One op = one proxied TCP connection on a fresh server + client.
//
//	lb <class> <fo> <log> <upstart> <upsizes> <downstart> <downsizes> <p1> <p2>
//	   class  tfin    target sends everything, waits until it has received everything, then EOF
//	                  (p1 = 1: the last bytes come together with EOF); client reads to EOF
//	          cfin    target never closes; client closes once both sides have received everything
//	          cwfin   target never closes; the client drains what the target sends, writes its last
//	                  chunk and calls Close at once (data + FIN in one flight): the target must
//	                  still receive everything
//	          twfin   target sends everything and returns EOF at once (p1 = 1: together with the
//	                  last bytes), the server closes the stream: the client must still receive everything
//	          cearly  client closes right after writing its first p1 chunks
//	          tearly  target returns EOF after its first p1 chunks, waiting for nothing
//	          trerr   target's Read fails after its first p1 chunks
//	          twerr   target's Write fails once p1 bytes have been accepted (short write)
//	          veto    the logger refuses the first chunk that takes direction p2[0] (T = tx,
//	                  R = rx) beyond p1 bytes; p2[1:] = now | late (late: the refusal is
//	                  returned only after the OTHER direction has ended and handleTCPRequest
//	                  has torn the relay down and returned)
//	   fo = fast open, log = traffic logger present; sizes "." or a+b+c (chunk sizes)
//	lbdial <fo> <log> <start> <len>    Outbound.TCP fails with a <len>-byte error text
//	both take an optional last field h<H>t<K>: H = 0 no RequestHook, 1 a RequestHook whose
//	Check declines every request, 2 one that intercepts every request and changes nothing;
//	K (fast open only) = the outbound dial is held back while the client issues K Reads with
//	a 25 ms deadline (they must fail without data), then the dial is released and the client
//	reads on without deadline
//
// Observed: bytes accepted by the target, bytes read by the client, every LogTraffic call and
// verdict in order, target Read/Write/Close calls, UntraceStream, Disconnect (+ close code),
// the client's errors.  Checked model-free here, and handed to `hydrv relay` (op `trace`)
// which evaluates the model's relations (Hy.Relay.Obs.check) on the observation.
func init() {
	vh.Register("relaylb", func() vh.Component { return &relayLB{} })
}

type relayLB struct{}

var lbCertOnce sync.Once
var lbCert tls.Certificate

func lbCertificate() tls.Certificate {
	lbCertOnce.Do(func() {
		key, err := ecdsa.GenerateKey(elliptic.P256(), rand.Reader)
		if err != nil {
			panic(err)
		}
		tmpl := &x509.Certificate{
			SerialNumber: big.NewInt(1),
			Subject:      pkix.Name{CommonName: "verif.test"},
			NotBefore:    time.Now().Add(-time.Hour),
			NotAfter:     time.Now().Add(24 * time.Hour),
			KeyUsage:     x509.KeyUsageDigitalSignature,
			ExtKeyUsage:  []x509.ExtKeyUsage{x509.ExtKeyUsageServerAuth},
			DNSNames:     []string{"verif.test"},
		}
		der, err := x509.CreateCertificate(rand.Reader, tmpl, tmpl, &key.PublicKey, key)
		if err != nil {
			panic(err)
		}
		lbCert = tls.Certificate{Certificate: [][]byte{der}, PrivateKey: key}
	})
	return lbCert
}

// ---------------------------------------------------------------- the world of one op

type lbEv struct {
	kind byte // 'T' tx log, 'R' rx log, 'w' target write, 'r' target read, 'c' target close
	n    int
	acc  int
	ok   bool
}

type lbPlan struct {
	class    string
	fo, log  bool
	up, down [][]byte
	p1       int
	vetoDir  byte
	late     bool
	dialMsg  []byte
	hook     int // 0 none, 1 declines, 2 intercepts (no-op)
	timeouts int // Reads that time out while the dial is held back (fast open)
}

// parseOpts reads the optional "h<H>t<K>" field.
func (p *lbPlan) parseOpts(s string) bool {
	var h, t int
	if _, err := fmt.Sscanf(s, "h%dt%d", &h, &t); err != nil || h < 0 || h > 2 || t < 0 || t > 5 {
		return false
	}
	p.hook, p.timeouts = h, t
	if !p.fo {
		p.timeouts = 0 // without fast open TCP() itself waits for the response
	}
	return true
}

const lbTargetAddr = "target.verif.test:80"
const lbProbeAddr = "probe.verif.test:1"

var errTargetRead = errors.New("scripted target read error")
var errTargetWrite = errors.New("scripted target write error")
var errLbDeadline = errors.New("verif deadline")

type lbWorld struct {
	plan     lbPlan
	mu       sync.Mutex
	cond     *sync.Cond
	deadline time.Time
	stop     chan struct{}

	upFlat, downFlat []byte
	events           []lbEv
	rUp, rDown       []byte
	cum              map[byte]int
	downIdx          int // next chunk of plan.down
	downOff          int // bytes of it already delivered
	downLimit        int
	tgtCreated       bool
	tgtClosed        bool
	tgtWriteFailed   bool
	untraced         bool
	disconnected     bool
	discCode         int64
	vetoed           bool
	vetoPending      bool
	vetoReturned     bool
	dialRelease      bool
	hookChecks       int
	releaseVeto      bool
	eofNow           bool
	writerDone       bool
	readerDone       bool
	readerErr        error
	dials            []string
	tcpErrs          []string
	anomalies        []string
}

func newLbWorld(p lbPlan) *lbWorld {
	w := &lbWorld{plan: p, cum: map[byte]int{}, stop: make(chan struct{}), deadline: time.Now().Add(12 * time.Second)}
	w.cond = sync.NewCond(&w.mu)
	w.upFlat = bytes.Join(p.up, nil)
	w.downFlat = bytes.Join(p.down, nil)
	w.downLimit = len(p.down)
	if p.class == "tearly" || p.class == "trerr" {
		w.downLimit = p.p1
		if w.downLimit > len(p.down) {
			w.downLimit = len(p.down)
		}
	}
	go func() { // lets waiters notice deadlines
		t := time.NewTicker(2 * time.Millisecond)
		defer t.Stop()
		for {
			select {
			case <-w.stop:
				return
			case <-t.C:
				w.cond.Broadcast()
			}
		}
	}()
	return w
}

// waitLocked waits (mu held) until pred holds; false on deadline.
func (w *lbWorld) waitLocked(pred func() bool, until time.Time) bool {
	for !pred() {
		if time.Now().After(until) {
			return false
		}
		w.cond.Wait()
	}
	return true
}

func (w *lbWorld) wait(pred func() bool, d time.Duration) bool {
	w.mu.Lock()
	defer w.mu.Unlock()
	until := time.Now().Add(d)
	if until.After(w.deadline) {
		until = w.deadline
	}
	return w.waitLocked(pred, until)
}

func (w *lbWorld) set(f func()) {
	w.mu.Lock()
	f()
	w.mu.Unlock()
	w.cond.Broadcast()
}

// ---------------------------------------------------------------- fake outbound + target conn

type lbOutbound struct{ w *lbWorld }

func (o *lbOutbound) TCP(reqAddr string) (net.Conn, error) {
	w := o.w
	w.mu.Lock()
	defer w.mu.Unlock()
	w.dials = append(w.dials, reqAddr)
	if reqAddr == lbProbeAddr {
		return nil, errors.New("probe")
	}
	if w.plan.timeouts > 0 {
		// the dial takes as long as the client needs for its timed-out Reads
		w.waitLocked(func() bool { return w.dialRelease }, w.deadline)
	}
	if w.plan.class == "dial" {
		return nil, errors.New(string(w.plan.dialMsg))
	}
	w.tgtCreated = true
	return &lbTarget{w: w}, nil
}
func (o *lbOutbound) UDP(reqAddr string) (server.UDPConn, error) { return nil, errors.New("no udp") }
func (o *lbOutbound) CheckUDP(reqAddr string) error               { return errors.New("no udp") }

type lbTarget struct{ w *lbWorld }

type lbAddr struct{}

func (lbAddr) Network() string { return "tcp" }
func (lbAddr) String() string  { return "192.0.2.1:80" }

func (t *lbTarget) endCondition() bool {
	w := t.w
	switch w.plan.class {
	case "tfin":
		return len(w.rUp) >= len(w.upFlat)
	case "veto":
		return w.eofNow
	}
	return true
}

func (t *lbTarget) Read(p []byte) (int, error) {
	w := t.w
	w.mu.Lock()
	defer w.mu.Unlock()
	defer w.cond.Broadcast()
	for {
		if w.tgtClosed {
			return 0, net.ErrClosed
		}
		if time.Now().After(w.deadline) {
			return 0, errLbDeadline
		}
		if w.downIdx < w.downLimit {
			chunk := w.plan.down[w.downIdx][w.downOff:]
			last := w.downIdx == w.downLimit-1 && len(chunk) <= len(p)
			withEOF := last && (w.plan.class == "tfin" || w.plan.class == "twfin") && w.plan.p1 == 1
			if withEOF && !t.endCondition() {
				w.cond.Wait()
				continue
			}
			n := copy(p, chunk)
			w.downOff += n
			if w.downOff == len(w.plan.down[w.downIdx]) {
				w.downIdx++
				w.downOff = 0
			}
			w.events = append(w.events, lbEv{kind: 'r', n: n})
			if withEOF {
				return n, io.EOF
			}
			return n, nil
		}
		switch w.plan.class {
		case "tfin", "tearly", "twfin":
			if !t.endCondition() {
				w.cond.Wait()
				continue
			}
			return 0, io.EOF
		case "trerr":
			return 0, errTargetRead
		case "veto":
			if w.eofNow {
				return 0, io.EOF
			}
		}
		w.cond.Wait() // never closes by itself
	}
}

func (t *lbTarget) Write(p []byte) (int, error) {
	w := t.w
	w.mu.Lock()
	defer w.mu.Unlock()
	defer w.cond.Broadcast()
	if w.tgtClosed {
		w.events = append(w.events, lbEv{kind: 'w', n: len(p), acc: 0})
		w.tgtWriteFailed = true
		return 0, net.ErrClosed
	}
	acc := len(p)
	var err error
	if w.plan.class == "twerr" && (w.tgtWriteFailed || len(w.rUp)+len(p) > w.plan.p1) {
		acc = w.plan.p1 - len(w.rUp)
		if acc < 0 || w.tgtWriteFailed {
			acc = 0
		}
		err = errTargetWrite
		w.tgtWriteFailed = true
	}
	w.rUp = append(w.rUp, p[:acc]...)
	w.events = append(w.events, lbEv{kind: 'w', n: len(p), acc: acc})
	return acc, err
}

func (t *lbTarget) Close() error {
	w := t.w
	w.mu.Lock()
	w.tgtClosed = true
	w.events = append(w.events, lbEv{kind: 'c'})
	w.mu.Unlock()
	w.cond.Broadcast()
	return nil
}
func (t *lbTarget) LocalAddr() net.Addr                { return lbAddr{} }
func (t *lbTarget) RemoteAddr() net.Addr               { return lbAddr{} }
func (t *lbTarget) SetDeadline(time.Time) error        { return nil }
func (t *lbTarget) SetReadDeadline(time.Time) error    { return nil }
func (t *lbTarget) SetWriteDeadline(time.Time) error   { return nil }

// ---------------------------------------------------------------- logger, event logger, authenticator

type lbLogger struct{ w *lbWorld }

func (l *lbLogger) LogTraffic(id string, tx, rx uint64) bool {
	w := l.w
	w.mu.Lock()
	defer w.mu.Unlock()
	defer w.cond.Broadcast()
	var dir byte
	var n int
	switch {
	case tx > 0 && rx == 0:
		dir, n = 'T', int(tx)
	case rx > 0 && tx == 0:
		dir, n = 'R', int(rx)
	default:
		w.anomalies = append(w.anomalies, fmt.Sprintf("LogTraffic(tx=%d, rx=%d): not exactly one direction", tx, rx))
		return true
	}
	if id != "user" {
		w.anomalies = append(w.anomalies, "LogTraffic for id "+id)
	}
	w.cum[dir] += n
	ok := true
	if w.plan.class == "veto" && dir == w.plan.vetoDir && !w.vetoed && w.cum[dir] > w.plan.p1 {
		w.vetoed = true
		ok = false
		if w.plan.late {
			w.vetoPending = true
			w.cond.Broadcast()
			w.waitLocked(func() bool { return w.releaseVeto }, w.deadline)
		}
	}
	w.events = append(w.events, lbEv{kind: dir, n: n, ok: ok})
	if !ok {
		w.vetoReturned = true
	}
	return ok
}
func (l *lbLogger) LogOnlineState(id string, online bool)                        {}
func (l *lbLogger) TraceStream(stream server.HyStream, stats *server.StreamStats) {}
func (l *lbLogger) UntraceStream(stream server.HyStream) {
	l.w.set(func() { l.w.untraced = true })
}

type lbEvents struct{ w *lbWorld }

func (e *lbEvents) Connect(addr net.Addr, id string, tx uint64) {}
func (e *lbEvents) Disconnect(addr net.Addr, id string, err error) {
	e.w.set(func() {
		e.w.disconnected = true
		e.w.discCode = -1
		var ae *quic.ApplicationError
		if errors.As(err, &ae) {
			e.w.discCode = int64(ae.ErrorCode)
		}
	})
}
func (e *lbEvents) TCPRequest(addr net.Addr, id, reqAddr string) {}
func (e *lbEvents) TCPError(addr net.Addr, id, reqAddr string, err error) {
	e.w.set(func() { e.w.tcpErrs = append(e.w.tcpErrs, reqAddr+"="+classOf(err)) })
}
func (e *lbEvents) UDPRequest(addr net.Addr, id string, sessionID uint32, reqAddr string) {}
func (e *lbEvents) UDPError(addr net.Addr, id string, sessionID uint32, err error)        {}

// lbHook is a RequestHook that declines (mode 1) or intercepts without changing anything
// (mode 2): no putback, same address.
type lbHook struct {
	w    *lbWorld
	mode int
}

func (h *lbHook) Check(isUDP bool, reqAddr string) bool {
	h.w.set(func() { h.w.hookChecks++ })
	return h.mode == 2
}
func (h *lbHook) TCP(stream server.HyStream, reqAddr *string) ([]byte, error) { return nil, nil }
func (h *lbHook) UDP(data []byte, reqAddr *string) error                      { return nil }

type lbAuth struct{}

func (lbAuth) Authenticate(addr net.Addr, auth string, tx uint64) (bool, string) { return true, "user" }

// ---------------------------------------------------------------- setup

type lbEnv struct {
	w   *lbWorld
	srv server.Server
	cl  client.Client
}

func lbStart(p lbPlan) (*lbEnv, error) {
	w := newLbWorld(p)
	pc, err := net.ListenUDP("udp", &net.UDPAddr{IP: net.IPv4(127, 0, 0, 1)})
	if err != nil {
		close(w.stop)
		return nil, err
	}
	cfg := &server.Config{
		TLSConfig:     server.TLSConfig{Certificates: []tls.Certificate{lbCertificate()}},
		Conn:          pc,
		Outbound:      &lbOutbound{w: w},
		Authenticator: lbAuth{},
		EventLogger:   &lbEvents{w: w},
	}
	if p.log {
		cfg.TrafficLogger = &lbLogger{w: w}
	}
	if p.hook != 0 {
		cfg.RequestHook = &lbHook{w: w, mode: p.hook}
	}
	srv, err := server.NewServer(cfg)
	if err != nil {
		close(w.stop)
		pc.Close()
		return nil, err
	}
	go srv.Serve()
	cl, _, err := client.NewClient(&client.Config{
		ServerAddr: pc.LocalAddr(),
		TLSConfig:  client.TLSConfig{InsecureSkipVerify: true},
		FastOpen:   p.fo,
	})
	if err != nil {
		srv.Close()
		close(w.stop)
		return nil, err
	}
	return &lbEnv{w: w, srv: srv, cl: cl}, nil
}

func (e *lbEnv) stop() {
	e.cl.Close()
	e.srv.Close()
	close(e.w.stop)
}

// ---------------------------------------------------------------- generator

func sizesStr(xs []int) string {
	if len(xs) == 0 {
		return "."
	}
	ss := make([]string, len(xs))
	for i, x := range xs {
		ss[i] = strconv.Itoa(x)
	}
	return strings.Join(ss, "+")
}

func parseSizes(s string) []int {
	if s == "." {
		return nil
	}
	var out []int
	for _, f := range strings.Split(s, "+") {
		n, _ := strconv.Atoi(f)
		out = append(out, n)
	}
	return out
}

var lbSizes = []int{1, 2, 100, 1400, 5000, 32767, 32768, 32769, 40000, 70000}

func genSizes(r *vh.RNG, min int) []int {
	n := r.Range(min, 5)
	var out []int
	total := 0
	for i := 0; i < n; i++ {
		sz := r.Pick(lbSizes)
		if r.Chance(1, 3) {
			sz = r.Range(1, 3000)
		}
		if total+sz > 150000 {
			sz = 100
		}
		total += sz
		out = append(out, sz)
	}
	return out
}

func sum(xs []int) int {
	t := 0
	for _, x := range xs {
		t += x
	}
	return t
}

func b01s(b bool) string {
	if b {
		return "1"
	}
	return "0"
}

var lbDialLens = []int{0, 1, 2047, 2048, 2049, 5000}

func (relayLB) Gen(r *vh.RNG, n int, emit func(op string, tags ...string)) {
	i := 0
	emitOne := func(op string, tags ...string) {
		if i < n {
			emit(op, tags...)
			i++
		}
	}
	// the fixed part of the matrix first: dial errors at the boundary lengths, eager and
	// fast open; refusals in both directions, immediate and late
	opts := func(fo bool, dial bool) (string, []string) {
		h := 0
		switch k := r.Intn(10); {
		case k < 3:
			h = 1
		case k < 5 && !dial:
			h = 2
		}
		t := 0
		if fo && r.Bool() {
			t = r.Range(1, 2)
		}
		tags := []string{fmt.Sprintf("hook-%d", h)}
		if t > 0 {
			tags = append(tags, "read-timeouts")
		}
		return fmt.Sprintf("h%dt%d", h, t), tags
	}
	for _, fo := range []bool{false, true} {
		for i, l := range lbDialLens {
			o := fmt.Sprintf("h%dt%d", i%2, 0)
			if fo {
				o = fmt.Sprintf("h%dt%d", (i/2)%2, 1+i%2)
			}
			emitOne(fmt.Sprintf("lbdial %s %s %d %d %s", b01s(fo), b01s(r.Bool()), r.Intn(251), l, o), "dial", fmt.Sprintf("dial-%d", l), "opts-"+o)
		}
	}
	// a declining / intercepting hook and timed-out first Reads on complete relays
	for _, o := range []string{"0 h1t0", "1 h1t2", "0 h2t0", "1 h2t1", "1 h0t2"} {
		up, down := genSizes(r, 1), genSizes(r, 1)
		emitOne(fmt.Sprintf("lb tfin %s 1 %d %s %d %s %d - %s", o[:1], r.Intn(251), sizesStr(up), r.Intn(251), sizesStr(down), r.Intn(2), o[2:]),
			"tfin", "opts-"+o[2:])
	}
	// the closer closes right after its last write: nothing written before the close may be lost
	for _, c := range []string{"cwfin 0 h0t0", "cwfin 1 h0t1", "cwfin 0 h1t0", "twfin 0 h0t0", "twfin 1 h0t0", "twfin 1 h2t1"} {
		up, down := genSizes(r, 1), genSizes(r, 1)
		emitOne(fmt.Sprintf("lb %s %s 1 %d %s %d %s %d - %s", c[:5], c[6:7], r.Intn(251), sizesStr(up), r.Intn(251), sizesStr(down), r.Intn(2), c[8:]),
			c[:5], "opts-"+c[8:])
	}
	for _, dir := range []string{"T", "R"} {
		for _, gate := range []string{"now", "late"} {
			for _, fo := range []bool{false, true} {
				up, down := genSizes(r, 1), genSizes(r, 1)
				tot := sum(up)
				if dir == "R" {
					tot = sum(down)
				}
				emitOne(fmt.Sprintf("lb veto %s 1 %d %s %d %s %d %s%s h0t0", b01s(fo), r.Intn(251), sizesStr(up), r.Intn(251), sizesStr(down),
					r.Intn(tot), dir, gate), "veto", "veto-"+dir+"-"+gate)
			}
		}
	}
	for i < n {
		fo, lg := r.Bool(), r.Chance(3, 4)
		up, down := genSizes(r, 0), genSizes(r, 0)
		us, ds := r.Intn(251), r.Intn(251)
		head := func(class string) string {
			return fmt.Sprintf("lb %s %s %s %d %s %d %s", class, b01s(fo), b01s(lg), us, sizesStr(up), ds, sizesStr(down))
		}
		o, tags := opts(fo, false)
		if fo {
			tags = append(tags, "fastopen")
		}
		if !lg {
			tags = append(tags, "nologger")
		}
		switch k := r.Intn(100); {
		case k < 22:
			emitOne(head("tfin")+fmt.Sprintf(" %d - %s", r.Intn(2), o), append(tags, "tfin")...)
		case k < 40:
			emitOne(head("cfin")+" 0 - "+o, append(tags, "cfin")...)
		case k < 46:
			emitOne(head("cwfin")+" 0 - "+o, append(tags, "cwfin")...)
		case k < 52:
			emitOne(head("twfin")+fmt.Sprintf(" %d - %s", r.Intn(2), o), append(tags, "twfin")...)
		case k < 58:
			emitOne(head("cearly")+fmt.Sprintf(" %d - %s", r.Intn(len(up)+1), o), append(tags, "cearly")...)
		case k < 64:
			emitOne(head("tearly")+fmt.Sprintf(" %d - %s", r.Intn(len(down)+1), o), append(tags, "tearly")...)
		case k < 72:
			emitOne(head("trerr")+fmt.Sprintf(" %d - %s", r.Intn(len(down)+1), o), append(tags, "trerr")...)
		case k < 82:
			if sum(up) == 0 {
				continue
			}
			emitOne(head("twerr")+fmt.Sprintf(" %d - %s", r.Intn(sum(up)), o), append(tags, "twerr")...)
		case k < 94:
			dir := "T"
			tot := sum(up)
			if r.Bool() {
				dir, tot = "R", sum(down)
			}
			if tot == 0 {
				continue
			}
			gate := "now"
			if r.Bool() {
				gate = "late"
			}
			emitOne(fmt.Sprintf("lb veto %s 1 %d %s %d %s %d %s%s %s", b01s(fo), us, sizesStr(up), ds, sizesStr(down), r.Intn(tot), dir, gate, o),
				append(tags, "veto", "veto-"+dir+"-"+gate)...)
		default:
			l := r.Pick(lbDialLens)
			if r.Bool() {
				l = r.Range(0, 6000)
			}
			od, tg := opts(fo, true)
			emitOne(fmt.Sprintf("lbdial %s %s %d %d %s", b01s(fo), b01s(lg), r.Intn(251), l, od), append(tg, "dial")...)
		}
	}
}

// ---------------------------------------------------------------- run

// lbNoConn stands in for the client's conn when TCP() itself reported the closed connection.
type lbNoConn struct{ net.Conn }

func (lbNoConn) Read([]byte) (int, error)  { return 0, net.ErrClosed }
func (lbNoConn) Write([]byte) (int, error) { return 0, net.ErrClosed }
func (lbNoConn) Close() error              { return nil }
func (lbNoConn) SetReadDeadline(time.Time) error { return nil }

func chunksOf(start int, sizes []int) [][]byte {
	var out [][]byte
	off := start
	for _, s := range sizes {
		out = append(out, pat(off%251, s))
		off += s
	}
	return out
}

func (relayLB) Run(op string) vh.Result {
	f := strings.Fields(op)
	switch {
	case len(f) == 5 && f[0] == "lbdial":
		return runLbDial(append(f, "h0t0"))
	case len(f) == 6 && f[0] == "lbdial":
		return runLbDial(f)
	case len(f) == 10 && f[0] == "lb":
		return runLbRelay(append(f, "h0t0"))
	case len(f) == 11 && f[0] == "lb":
		return runLbRelay(f)
	}
	return vh.Result{Out: "bad-op"}
}

func clientErrClass(err error) (string, []byte) {
	var de coreErrs.DialError
	var ce coreErrs.ClosedError
	var pe coreErrs.ProtocolError
	switch {
	case err == nil:
		return "nil", nil
	case errors.As(err, &de):
		return "dialerr", []byte(de.Message)
	case errors.As(err, &ce):
		if errors.As(err, &pe) {
			return "closed(protocol-error)", nil
		}
		return "closed", nil
	case errors.As(err, &pe):
		return "protocol-error", nil
	case err == io.EOF:
		return "eof", nil
	}
	return "other", nil
}

// alive: the QUIC connection still serves requests (a dial that fails at the outbound
// comes back as a DialError).
func (e *lbEnv) alive() bool {
	done := make(chan error, 1)
	go func() {
		c, err := e.cl.TCP(lbProbeAddr)
		if err == nil {
			// fast open: the answer comes with the first Read
			buf := make([]byte, 16)
			_, err = c.Read(buf)
			c.Close()
		}
		done <- err
	}()
	select {
	case err := <-done:
		cl, msg := clientErrClass(err)
		if e.w.plan.hook == 2 {
			// an intercepted request is accepted before the dial; its failure only ends the stream
			return !strings.HasPrefix(cl, "closed") && cl != "nil"
		}
		return cl == "dialerr" && string(msg) == "probe"
	case <-time.After(5 * time.Second):
		return false
	}
}

// timedOutReads issues the plan's Reads with a short deadline while the dial is held back;
// each must fail without handing out a byte.  Whatever they do hand out is returned.
func (e *lbEnv) timedOutReads(conn net.Conn, fail func(string, ...any)) []byte {
	var got []byte
	w := e.w
	if w.plan.timeouts == 0 {
		return nil
	}
	buf := make([]byte, 65536)
	for i := 0; i < w.plan.timeouts; i++ {
		conn.SetReadDeadline(time.Now().Add(25 * time.Millisecond))
		n, err := conn.Read(buf)
		got = append(got, buf[:n]...)
		if n > 0 {
			fail("a Read issued before the server had dialled returned %d bytes", n)
		} else if err == nil {
			fail("a Read issued before the server had dialled returned (0, nil)")
		} else if cl, _ := clientErrClass(err); cl != "other" {
			fail("a Read issued before the server had dialled failed with %s (%v), not with a timeout", cl, err)
		}
	}
	conn.SetReadDeadline(time.Time{})
	w.set(func() { w.dialRelease = true })
	return got
}

func runLbDial(f []string) vh.Result {
	fo, lg := f[1] == "1", f[2] == "1"
	start, _ := strconv.Atoi(f[3])
	ln, _ := strconv.Atoi(f[4])
	msg := pat(start, ln)
	plan := lbPlan{class: "dial", fo: fo, log: lg, dialMsg: msg}
	if !plan.parseOpts(f[5]) || plan.hook == 2 {
		return vh.Result{Out: "bad-op"}
	}
	env, err := lbStart(plan)
	if err != nil {
		return vh.Result{Out: "setup-failed", Oracle: []string{"loopback setup failed: " + err.Error()}}
	}
	defer env.stop()
	w := env.w
	var orc []string
	conn, cerr := env.cl.TCP(lbTargetAddr)
	where, at := "TCP()", "tcp"
	if cerr == nil {
		where, at = "first Read", "read"
		if !fo {
			orc = append(orc, "TCP() succeeded although the dial failed and fast open is off")
		}
		// what the application writes before it learns of the failure must go nowhere
		conn.Write([]byte("early data"))
		if early := env.timedOutReads(conn, func(format string, a ...any) { orc = append(orc, fmt.Sprintf(format, a...)) }); len(early) > 0 {
			orc = append(orc, "the failed dial was preceded by data handed to the application")
		}
		buf := make([]byte, 64)
		done := make(chan error, 1)
		go func() { _, e := conn.Read(buf); done <- e }()
		select {
		case cerr = <-done:
		case <-time.After(8 * time.Second):
			cerr = errLbDeadline
		}
		conn.Close()
	}
	class, got := clientErrClass(cerr)
	want := msg
	if len(want) > 2048 {
		want = want[:2048]
	}
	w.mu.Lock()
	relay := w.tgtCreated || len(w.events) > 0
	w.mu.Unlock()
	out := class + " at=" + at
	if class == "dialerr" {
		out = fmt.Sprintf("dialerr %s relay=%s at=%s", digest(got), b01s(relay), at)
		if !bytes.Equal(got, want) {
			orc = append(orc, fmt.Sprintf("dial failed with a %d-byte message; the client's DialError carries %d bytes that are not that message (bounded to 2048)", ln, len(got)))
		}
	} else {
		orc = append(orc, fmt.Sprintf("dial failed with a %d-byte message but %s returned %s (%v) instead of a DialError", ln, where, class, cerr))
	}
	if relay {
		orc = append(orc, "a failed dial entered the relay (target connection or traffic-logger calls)")
	}
	if !env.alive() {
		orc = append(orc, "the connection does not serve requests any more after a failed dial")
	}
	return vh.Result{Out: out, ModelOp: fmt.Sprintf("dial %s %d %d %d:%d", f[1], plan.hook, plan.timeouts, start, ln), NonTrivial: true, Oracle: orc}
}

func logsStr(evs []lbEv, dir byte) string {
	var ss []string
	for _, e := range evs {
		if e.kind == dir {
			c := "+"
			if !e.ok {
				c = "-"
			}
			ss = append(ss, fmt.Sprintf("%d%s", e.n, c))
		}
	}
	if len(ss) == 0 {
		return "."
	}
	return strings.Join(ss, ",")
}

func runLbRelay(f []string) vh.Result {
	p := lbPlan{class: f[1], fo: f[2] == "1", log: f[3] == "1"}
	us, _ := strconv.Atoi(f[4])
	ds, _ := strconv.Atoi(f[6])
	p.up, p.down = chunksOf(us, parseSizes(f[5])), chunksOf(ds, parseSizes(f[7]))
	p.p1, _ = strconv.Atoi(f[8])
	if p.class == "veto" {
		if len(f[9]) < 2 || !p.log {
			return vh.Result{Out: "bad-op"}
		}
		p.vetoDir = f[9][0]
		p.late = f[9][1:] == "late"
	}
	if !p.parseOpts(f[10]) {
		return vh.Result{Out: "bad-op"}
	}
	env, err := lbStart(p)
	if err != nil {
		return vh.Result{Out: "setup-failed", Oracle: []string{"loopback setup failed: " + err.Error()}}
	}
	defer env.stop()
	w := env.w
	var orc []string
	fail := func(format string, a ...any) { orc = append(orc, fmt.Sprintf(format, a...)) }

	conn, cerr := env.cl.TCP(lbTargetAddr)
	if cerr != nil {
		// a refusal of the very first chunks can close the connection before the client
		// has read the response: then there is no client side of the relay to drive
		if cl, _ := clientErrClass(cerr); !(p.class == "veto" && !p.late && strings.HasPrefix(cl, "closed")) {
			return vh.Result{Out: "tcp-failed", Oracle: []string{fmt.Sprintf("TCP() failed although the dial succeeds: %v", cerr)}}
		}
		conn = lbNoConn{}
	}
	upLimit := len(p.up)
	if p.class == "cearly" && p.p1 < upLimit {
		upLimit = p.p1
	}
	go func() {
		for i, ch := range p.up[:upLimit] {
			if p.class == "cwfin" && i == upLimit-1 {
				// everything the target sends has been read: the down direction is idle
				w.wait(func() bool { return len(w.rDown) >= len(w.downFlat) }, 10*time.Second)
			}
			if _, err := conn.Write(ch); err != nil {
				break
			}
		}
		if p.class == "cwfin" {
			if upLimit == 0 {
				w.wait(func() bool { return len(w.rDown) >= len(w.downFlat) }, 10*time.Second)
			}
			conn.Close() // right after the last Write
		}
		w.set(func() { w.writerDone = true })
	}()
	// Reads that time out while the server is still dialling, then the reader proper
	if early := env.timedOutReads(conn, fail); len(early) > 0 {
		w.set(func() { w.rDown = append(w.rDown, early...) })
	}
	go func() {
		buf := make([]byte, 65536)
		for {
			n, err := conn.Read(buf)
			w.set(func() {
				w.rDown = append(w.rDown, buf[:n]...)
				if err != nil {
					w.readerErr = err
					w.readerDone = true
				}
			})
			if err != nil {
				return
			}
		}
	}()

	const T = 10 * time.Second
	switch {
	case p.class == "cfin":
		if !w.wait(func() bool {
			return w.writerDone && len(w.rDown) >= len(w.downFlat) && len(w.rUp) >= len(w.upFlat)
		}, T) {
			w.mu.Lock()
			fail("nobody closed and both senders finished, but after 10 s the target has %d of %d bytes and the client %d of %d",
				len(w.rUp), len(w.upFlat), len(w.rDown), len(w.downFlat))
			w.mu.Unlock()
		}
		conn.Close()
	case p.class == "cearly":
		w.wait(func() bool { return w.writerDone }, T)
		conn.Close()
	case p.class == "cwfin":
		w.wait(func() bool { return w.writerDone }, T) // the writer has closed the conn
	case p.class == "veto" && p.late:
		if !w.wait(func() bool { return w.vetoPending }, T) {
			fail("the chunk to be refused never reached the traffic logger")
		}
		// end the OTHER direction, let handleTCPRequest tear down and return, then refuse
		if p.vetoDir == 'R' {
			conn.Close()
		} else {
			w.set(func() { w.eofNow = true })
		}
		if !w.wait(func() bool { return w.untraced && w.tgtClosed }, T) {
			fail("the relay was not torn down after the other direction ended")
		}
		w.set(func() { w.releaseVeto = true })
		w.wait(func() bool { return w.readerDone }, T)
		conn.Close()
	default:
		if !w.wait(func() bool { return w.readerDone }, T) {
			w.mu.Lock()
			fail("the client's Read neither ended nor failed within 10 s (class %s; client has %d of %d bytes, target %d of %d)",
				p.class, len(w.rDown), len(w.downFlat), len(w.rUp), len(w.upFlat))
			w.mu.Unlock()
		}
		conn.Close()
	}
	if !w.wait(func() bool { return w.tgtClosed }, T) {
		fail("the server never closed the target connection (no teardown)")
	}
	w.wait(func() bool { return w.readerDone }, T)

	// the connection-close effect
	w.mu.Lock()
	refused := w.vetoed
	w.mu.Unlock()
	if refused && !w.wait(func() bool { return w.vetoReturned }, T) {
		fail("the refusing LogTraffic call never returned")
	}
	closed := false
	if refused {
		closed = w.wait(func() bool { return w.disconnected }, 4*time.Second)
		if !closed {
			fail("the traffic logger refused a chunk (direction %c, %s) but the client's connection was not closed", p.vetoDir, f[9][1:])
		} else if w.discCode != int64(server.VerifC06Consts()["closeErrCodeTrafficLimitReached"]) {
			fail("connection closed after a refusal with code %#x", w.discCode)
		}
	} else {
		if !env.alive() {
			closed = true
			fail("the connection stopped serving requests although the traffic logger refused nothing")
		}
	}

	// snapshot
	w.mu.Lock()
	defer w.mu.Unlock()
	orc = append(orc, w.anomalies...)
	rUp, rDown := append([]byte{}, w.rUp...), append([]byte{}, w.rDown...)
	evs := append([]lbEv{}, w.events...)
	if !bytes.HasPrefix(w.upFlat, rUp) {
		fail("what the target received is not a prefix of what the client sent")
	}
	if !bytes.HasPrefix(w.downFlat, rDown) {
		fail("what the client received is not a prefix of what the target sent")
	}
	complete := p.class == "tfin" || p.class == "cfin" || p.class == "cwfin"
	completeDown := complete || p.class == "twfin"
	if complete && (!bytes.Equal(rUp, w.upFlat) || !bytes.Equal(rDown, w.downFlat)) {
		fail("both senders finished before anybody closed, but the target has %d of %d bytes and the client %d of %d",
			len(rUp), len(w.upFlat), len(rDown), len(w.downFlat))
	}
	if p.class == "cwfin" && !bytes.Equal(rUp, w.upFlat) {
		fail("the client closed right after its last write: the target has only %d of the %d bytes written before the close", len(rUp), len(w.upFlat))
	}
	if p.class == "twfin" && !bytes.Equal(rDown, w.downFlat) {
		fail("the target ended right after its last bytes and the server closed the stream: the client has only %d of the %d bytes written before the close", len(rDown), len(w.downFlat))
	}
	appTx, appRx, offTx, offRx := 0, 0, 0, 0
	if p.log {
		var txQ, rdQ []int
		endT, endR := false, false
		for _, e := range evs {
			switch e.kind {
			case 'T':
				if endT {
					fail("tx logged again after the refusal")
				}
				if e.n < 1 || e.n > copyBuf {
					fail("tx chunk of %d bytes", e.n)
				}
				offTx += e.n
				if e.ok {
					appTx += e.n
					txQ = append(txQ, e.n)
				} else {
					endT = true
				}
			case 'w':
				if len(txQ) == 0 || txQ[0] != e.n {
					fail("the target was written %d bytes that the logger had not approved as a chunk before", e.n)
				} else {
					txQ = txQ[1:]
				}
				if endT {
					fail("bytes forwarded to the target after the logger's refusal")
				}
			case 'r':
				if e.n > 0 {
					rdQ = append(rdQ, e.n)
				}
			case 'R':
				if endR {
					fail("rx logged again after the refusal")
				}
				if len(rdQ) == 0 || rdQ[0] != e.n {
					fail("rx logged %d bytes, which is not the chunk the target's Read returned", e.n)
				} else {
					rdQ = rdQ[1:]
				}
				offRx += e.n
				if e.ok {
					appRx += e.n
				} else {
					endR = true
				}
			}
		}
		if len(rUp) > appTx {
			fail("target received %d bytes, logger approved %d", len(rUp), appTx)
		}
		if appTx-len(rUp) > copyBuf {
			fail("tx approved %d, target received %d: more than one chunk apart", appTx, len(rUp))
		}
		if appTx > len(rUp) && !w.tgtWriteFailed {
			// approved but never handed to the target: only possible for the chunk in flight
			// when the relay was torn down
			if len(txQ) > 1 {
				fail("%d approved tx chunks were never written to the target", len(txQ))
			}
		}
		if len(rDown) > appRx {
			fail("client received %d bytes, logger approved %d", len(rDown), appRx)
		}
		if offTx > len(w.upFlat) {
			fail("tx handed to the logger %d bytes, the client sent only %d", offTx, len(w.upFlat))
		}
		if completeDown && !complete && appRx != len(w.downFlat) {
			fail("complete down direction of %d bytes logged as rx=%d", len(w.downFlat), appRx)
		}
		if complete && (appTx != len(w.upFlat) || appRx != len(w.downFlat)) {
			fail("complete relay of %d/%d bytes logged as tx=%d rx=%d", len(w.upFlat), len(w.downFlat), appTx, appRx)
		}
	} else {
		for _, e := range evs {
			if e.kind == 'T' || e.kind == 'R' {
				fail("traffic logged without a logger")
			}
		}
	}
	um, dm := "1", "0"
	if complete {
		um = "2c"
	}
	if completeDown {
		dm = "2c"
	}
	if !p.log {
		um, dm = "p", "p"
		if complete {
			um = "pc"
		}
		if completeDown {
			dm = "pc"
		}
	}
	mop := fmt.Sprintf("trace %s %s %d:%d %s %s %s %d:%d %s %s", b01s(closed),
		um, us%251, len(w.upFlat), runs(rUp), logsStr(evs, 'T'),
		dm, ds%251, len(w.downFlat), runs(rDown), logsStr(evs, 'R'))
	return vh.Result{Out: "valid", ModelOp: mop, NonTrivial: len(rUp)+len(rDown) > 0 || refused, Oracle: orc}
}
