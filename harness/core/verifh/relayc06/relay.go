//go:build verif

package relayc06

import (
	"bytes"
	"errors"
	"fmt"
	"io"
	"strconv"
	"strings"
	"sync"
	"time"

	"github.com/apernet/hysteria/core/v2/server"
	vh "github.com/apernet/hysteria/core/v2/verifhlib"
)

// Package relayc06 is the C06 part of verif-core.
//
// C06, tie (1): the REAL copyBufferLog / copyTwoWayEx (core/server/copy.go, reached through
// the in-package shim harness/core/server/zz_verif_c06.go) driven by scripted readers,
// writers and loggers; exact differential with `hydrv relay` and model-free oracles.
//
//	copy   <src> <verd> <wres>
//	twoway <sched> <upsrc> <upverd> <upwres> <downsrc> <downverd> <downwres>
//	twowayw …   the same with the logger wrapped as handleTCPRequest wraps it after the D11
//	            repair: a refusal closes the connection (the stream fails from then on)
//
//	src   "." | comma list of "<start>:<len>/<e>": the source has <len> pattern bytes
//	      available and returns them (at most len(buf) per Read) with error e on the
//	      last piece: n = nil, E = io.EOF, X = another error.  An exhausted script reads (0, EOF).
//	verd  "." | string of 0/1: the logger's verdict per call (exhausted: true)
//	wres  "." | comma list of "ok" | "k<N>": Write accepts everything / accepts N bytes and fails
//	sched string over u/d/m (twoway): which party takes its next atomic step
func init() {
	vh.RegisterConsts(func() map[string]any {
		m := map[string]any{}
		for k, v := range server.VerifC06Consts() {
			m[k] = v
		}
		return m
	})
	vh.Register("relay", func() vh.Component { return &relayComp{} })
}

var copyBuf = int(server.VerifC06Consts()["copyBufSize"])

// ---------------------------------------------------------------- pattern bytes

func pat(start, n int) []byte {
	b := make([]byte, n)
	for i := range b {
		b[i] = byte((start + i) % 251)
	}
	return b
}

func fnv32(b []byte) uint32 {
	h := uint32(2166136261)
	for _, x := range b {
		h ^= uint32(x)
		h *= 16777619
	}
	return h
}

func digest(b []byte) string { return fmt.Sprintf("%d:%d", len(b), fnv32(b)) }

// runs renders bytes losslessly as maximal pattern runs "start:len;…" ("x<hex>" for a
// byte the pattern cannot produce); "." for none.
func runs(b []byte) string {
	if len(b) == 0 {
		return "."
	}
	var out []string
	i := 0
	for i < len(b) {
		if b[i] >= 251 {
			out = append(out, fmt.Sprintf("x%02x", b[i]))
			i++
			continue
		}
		st := int(b[i])
		j := i + 1
		for j < len(b) && int(b[j]) == (st+j-i)%251 {
			j++
		}
		out = append(out, fmt.Sprintf("%d:%d", st, j-i))
		i = j
	}
	return strings.Join(out, ";")
}

// ---------------------------------------------------------------- scripts

type rdEntry struct {
	data []byte
	err  byte // 'n', 'E', 'X'
}

type wrEntry struct {
	ok bool
	k  int
}

var errScriptRead = errors.New("scripted read error")
var errScriptWrite = errors.New("scripted write error")
var errScriptClosed = errors.New("scripted: use of closed connection")

func parseSrc(s string) []rdEntry {
	if s == "." {
		return nil
	}
	var out []rdEntry
	for _, f := range strings.Split(s, ",") {
		a := strings.Split(f, "/")
		se := strings.Split(a[0], ":")
		st, _ := strconv.Atoi(se[0])
		n, _ := strconv.Atoi(se[1])
		out = append(out, rdEntry{data: pat(st, n), err: a[1][0]})
	}
	return out
}

func parseVerd(s string) []bool {
	if s == "." {
		return nil
	}
	out := make([]bool, len(s))
	for i := range s {
		out[i] = s[i] == '1'
	}
	return out
}

func parseWres(s string) []wrEntry {
	if s == "." {
		return nil
	}
	var out []wrEntry
	for _, f := range strings.Split(s, ",") {
		if f == "ok" {
			out = append(out, wrEntry{ok: true})
		} else {
			k, _ := strconv.Atoi(f[1:])
			out = append(out, wrEntry{k: k})
		}
	}
	return out
}

func srcFlat(src []rdEntry) []byte {
	var b []byte
	for _, e := range src {
		b = append(b, e.data...)
	}
	return b
}

// dirScript is the environment of ONE copy direction: its source, its logger verdicts, its
// sink.  It records what the real code did with it.
type dirScript struct {
	src     []rdEntry
	verd    []bool
	wres    []wrEntry
	srcShut bool // source closed by the teardown
	dstShut bool // sink closed by the teardown

	events     []string
	written    []byte
	logged     uint64
	offered    uint64
	consumed   int
	maxChunk   int
	bufSizes   map[int]int
	pendingErr byte   // the error the last Read returned together with data: 'n', 'E', 'X'
	end        string // how the loop must end, as far as the environment can tell: nil|disconnect|werr|rerr
	lastLog    int    // size of the last approved chunk not yet written (-1: none)
	vetoAt     int    // stream offset at which a chunk was refused (-1: none)
	orc        []string
}

func newDirScript(src []rdEntry, verd []bool, wres []wrEntry) *dirScript {
	return &dirScript{src: src, verd: verd, wres: wres, bufSizes: map[int]int{}, lastLog: -1, vetoAt: -1, pendingErr: 'n'}
}

func errOf(c byte) error {
	switch c {
	case 'E':
		return io.EOF
	case 'X':
		return errScriptRead
	}
	return nil
}

func errCh(err error) string {
	switch err {
	case nil:
		return "n"
	case io.EOF:
		return "E"
	}
	return "X"
}

// read returns whether this call ends the loop.
func (d *dirScript) read(p []byte) (int, error, bool) {
	d.bufSizes[len(p)]++
	if d.end != "" {
		d.orc = append(d.orc, "Read called after the loop had to end ("+d.end+")")
	}
	if d.srcShut {
		d.events = append(d.events, "r0X")
		d.end = "rerr"
		return 0, errScriptClosed, true
	}
	if len(d.src) == 0 {
		d.events = append(d.events, "r0E")
		d.end = "nil"
		return 0, io.EOF, true
	}
	e := &d.src[0]
	var n int
	var err error
	if len(e.data) > len(p) {
		n = copy(p, e.data[:len(p)])
		e.data = e.data[n:]
	} else {
		n = copy(p, e.data)
		err = errOf(e.err)
		d.src = d.src[1:]
	}
	d.consumed += n
	d.events = append(d.events, fmt.Sprintf("r%d%s", n, errCh(err)))
	if n == 0 {
		if err == io.EOF {
			d.end = "nil"
		} else if err != nil {
			d.end = "rerr"
		}
		return n, err, err != nil
	}
	d.pendingErr = errCh(err)[0] // the loop ends after the write of a chunk that came with an error
	return n, err, false
}

func (d *dirScript) log(n uint64) (bool, bool) {
	if d.end != "" {
		d.orc = append(d.orc, "log called after the loop had to end ("+d.end+")")
	}
	v := true
	if len(d.verd) > 0 {
		v = d.verd[0]
		d.verd = d.verd[1:]
	}
	d.offered += n
	if int(n) > d.maxChunk {
		d.maxChunk = int(n)
	}
	if v {
		d.logged += n
		d.lastLog = int(n)
		d.events = append(d.events, fmt.Sprintf("l%d+", n))
		return true, false
	}
	d.events = append(d.events, fmt.Sprintf("l%d-", n))
	d.vetoAt = d.consumed - int(n)
	d.end = "disconnect"
	return false, true
}

func (d *dirScript) write(p []byte) (int, error, bool) {
	if d.end != "" {
		d.orc = append(d.orc, "Write called after the loop had to end ("+d.end+")")
	}
	if d.lastLog != len(p) {
		d.orc = append(d.orc, fmt.Sprintf("Write of %d bytes not directly preceded by the logger's approval of that chunk", len(p)))
	}
	d.lastLog = -1
	w := wrEntry{ok: true}
	if d.dstShut {
		w = wrEntry{k: 0}
	} else if len(d.wres) > 0 {
		w = d.wres[0]
		d.wres = d.wres[1:]
	}
	if w.ok {
		d.written = append(d.written, p...)
		d.events = append(d.events, fmt.Sprintf("w%d/%d", len(p), len(p)))
		switch d.pendingErr {
		case 'E':
			d.end = "nil"
			return len(p), nil, true
		case 'X':
			d.end = "rerr"
			return len(p), nil, true
		}
		return len(p), nil, false
	}
	k := w.k
	if k > len(p) {
		k = len(p)
	}
	d.written = append(d.written, p[:k]...)
	d.events = append(d.events, fmt.Sprintf("w%d/%d", len(p), k))
	d.end = "werr"
	err := errScriptWrite
	if d.dstShut {
		err = errScriptClosed
	}
	return k, err, true
}

func classOf(err error) string {
	switch {
	case err == nil:
		return "nil"
	case err == server.VerifErrDisconnect:
		return "disconnect"
	case err == errScriptWrite:
		return "werr"
	case err == errScriptRead:
		return "rerr"
	case err == errScriptClosed:
		return "closed"
	}
	return "other:" + strings.ReplaceAll(err.Error(), " ", "_")
}

func (d *dirScript) trace() string {
	if len(d.events) == 0 {
		return "."
	}
	return strings.Join(d.events, ",")
}

func (d *dirScript) summary(res string) string {
	return fmt.Sprintf("res=%s written=%s logged=%d offered=%d inflight=%d trace=%s",
		res, digest(d.written), d.logged, d.offered, int(d.logged)-len(d.written), d.trace())
}

// oracle checks the C06 relations on what the real loop did, without the model.
func (d *dirScript) oracle(name string, source []byte, res string, clean bool) []string {
	orc := append([]string{}, d.orc...)
	if !bytes.HasPrefix(source, d.written) {
		orc = append(orc, name+": forwarded bytes are not a prefix of what the source produced")
	}
	infl := int(d.logged) - len(d.written)
	if infl < 0 {
		orc = append(orc, fmt.Sprintf("%s: %d bytes forwarded but only %d approved by the logger", name, len(d.written), d.logged))
	}
	if infl > d.maxChunk || infl > copyBuf {
		orc = append(orc, fmt.Sprintf("%s: logged exceeds forwarded by %d bytes, more than one chunk", name, infl))
	}
	if infl > 0 && res != "werr" && res != "closed" && res != "running" {
		orc = append(orc, fmt.Sprintf("%s: %d logged bytes not forwarded although no write failed (result %s)", name, infl, res))
	}
	if d.maxChunk > copyBuf {
		orc = append(orc, fmt.Sprintf("%s: a chunk of %d bytes exceeds the copy buffer", name, d.maxChunk))
	}
	for sz := range d.bufSizes {
		if sz != copyBuf {
			orc = append(orc, fmt.Sprintf("%s: Read called with a %d-byte buffer, constant says %d", name, sz, copyBuf))
		}
	}
	if d.vetoAt >= 0 {
		if len(d.written) > d.vetoAt {
			orc = append(orc, name+": bytes of the refused chunk (or later ones) were forwarded")
		}
		if res != "disconnect" && res != "running" {
			orc = append(orc, name+": the logger refused a chunk but the result is "+res)
		}
		if n := len(d.events); n == 0 || !strings.HasSuffix(d.events[n-1], "-") {
			orc = append(orc, name+": the loop went on after the logger's refusal")
		}
	}
	if clean && (res != "nil" || !bytes.Equal(d.written, source) || int(d.logged) != len(source)) {
		orc = append(orc, fmt.Sprintf("%s: source ended with EOF, nothing refused or failed, but result=%s forwarded=%d of %d logged=%d",
			name, res, len(d.written), len(source), d.logged))
	}
	return orc
}

// cleanScript: EOF only with the last entry, no read error, all verdicts true, all writes ok.
func cleanScript(src []rdEntry, verd []bool, wres []wrEntry) bool {
	for i, e := range src {
		if e.err == 'X' || (e.err == 'E' && i != len(src)-1) {
			return false
		}
	}
	for _, v := range verd {
		if !v {
			return false
		}
	}
	for _, w := range wres {
		if !w.ok {
			return false
		}
	}
	return true
}

// ---------------------------------------------------------------- generator

type relayComp struct{}

var chunkSizes = []int{0, 1, 1, 2, 3, 17, 64, 255, 1000, 1400, 4096}

func genSrc(r *vh.RNG, maxReads int, big bool) (string, int, []string) {
	n := r.Intn(maxReads + 1)
	var parts []string
	var tags []string
	off := r.Intn(251)
	pieces := 0
	bigLeft := 2 // at most two reads beyond the copy buffer per script (keeps the streams fast)
	for i := 0; i < n; i++ {
		sz := r.Pick(chunkSizes)
		if r.Chance(1, 4) {
			sz = r.Range(0, 3000)
		}
		if big && bigLeft > 0 && r.Chance(1, 2) {
			bigLeft--
			sz = r.Pick([]int{copyBuf - 1, copyBuf, copyBuf + 1, 2 * copyBuf, 2*copyBuf + 17, 70000})
			tags = append(tags, "big")
		}
		e := "n"
		last := i == n-1
		switch {
		case last && r.Chance(1, 2):
			e = "E"
			if sz > 0 {
				tags = append(tags, "eof-with-data")
			}
		case last && r.Chance(1, 4):
			e = "X"
		case !last && r.Chance(1, 25):
			e = "X"
		case !last && r.Chance(1, 40):
			e = "E"
		}
		if sz == 0 && e == "n" {
			tags = append(tags, "zero-read")
		}
		parts = append(parts, fmt.Sprintf("%d:%d/%s", off%251, sz, e))
		off += sz
		if sz > 0 {
			pieces += (sz + copyBuf - 1) / copyBuf
		}
	}
	if len(parts) == 0 {
		return ".", 0, tags
	}
	return strings.Join(parts, ","), pieces, tags
}

func genVerd(r *vh.RNG, pieces int) (string, bool) {
	if pieces == 0 || !r.Chance(1, 4) {
		if pieces == 0 || r.Bool() {
			return ".", false
		}
		return strings.Repeat("1", pieces), false
	}
	k := r.Intn(pieces)
	s := strings.Repeat("1", k) + "0"
	if r.Bool() {
		s += strings.Repeat("1", r.Intn(3)) // never consulted
	}
	return s, true
}

func genWres(r *vh.RNG, pieces int) (string, bool) {
	if pieces == 0 || !r.Chance(1, 4) {
		return ".", false
	}
	k := r.Intn(pieces)
	var parts []string
	for i := 0; i < k; i++ {
		parts = append(parts, "ok")
	}
	parts = append(parts, fmt.Sprintf("k%d", r.Pick([]int{0, 0, 1, 2, 100, 1399, 1400, 32767, 32768, 40000})))
	return strings.Join(parts, ","), true
}

func (relayComp) Gen(r *vh.RNG, n int, emit func(op string, tags ...string)) {
	for i := 0; i < n; i++ {
		if r.Chance(7, 10) {
			big := r.Chance(1, 16)
			maxReads := 6
			if r.Chance(1, 10) {
				maxReads = 40
			}
			src, pieces, tags := genSrc(r, maxReads, big)
			verd, veto := genVerd(r, pieces)
			wres, werr := genWres(r, pieces)
			tags = append(tags, "copy")
			if veto {
				tags = append(tags, "veto")
			}
			if werr {
				tags = append(tags, "write-error")
			}
			emit(fmt.Sprintf("copy %s %s %s", src, verd, wres), tags...)
		} else {
			us, up, t1 := genSrc(r, 5, r.Chance(1, 20))
			ds, dp, t2 := genSrc(r, 5, r.Chance(1, 20))
			uv, v1 := genVerd(r, up)
			dv, v2 := genVerd(r, dp)
			uw, w1 := genWres(r, up)
			dw, w2 := genWres(r, dp)
			ln := r.Intn(3*(up+dp)+12) + 1
			var sb strings.Builder
			mode := r.Intn(4)
			for j := 0; j < ln; j++ {
				var c byte
				switch mode {
				case 0: // up runs ahead
					c = "uuuudm"[r.Intn(6)]
				case 1: // down runs ahead
					c = "ddddum"[r.Intn(6)]
				default:
					c = "udm"[r.Intn(3)]
				}
				sb.WriteByte(c)
			}
			tags := append(append(t1, t2...), "twoway")
			if v1 || v2 {
				tags = append(tags, "veto")
			}
			if w1 || w2 {
				tags = append(tags, "write-error")
			}
			op := "twoway"
			if r.Bool() {
				op = "twowayw"
			}
			emit(fmt.Sprintf("%s %s %s %s %s %s %s %s", op, sb.String(), us, uv, uw, ds, dv, dw), tags...)
		}
	}
}

// ---------------------------------------------------------------- copy: copyBufferLog alone

type fnReader func(p []byte) (int, error)

func (f fnReader) Read(p []byte) (int, error) { return f(p) }

type fnWriter func(p []byte) (int, error)

func (f fnWriter) Write(p []byte) (int, error) { return f(p) }

func runCopy(f []string) vh.Result {
	src, verd, wres := parseSrc(f[1]), parseVerd(f[2]), parseWres(f[3])
	source := srcFlat(src)
	clean := cleanScript(src, verd, wres)
	d := newDirScript(src, verd, wres)
	err := server.VerifCopyBufferLog(
		fnWriter(func(p []byte) (int, error) { n, e, _ := d.write(p); return n, e }),
		fnReader(func(p []byte) (int, error) { n, e, _ := d.read(p); return n, e }),
		func(n uint64) bool { v, _ := d.log(n); return v })
	res := classOf(err)
	orc := d.oracle("copy", source, res, clean)
	return vh.Result{Out: d.summary(res), NonTrivial: len(d.written) > 0 || d.offered > 0, Oracle: orc}
}

// ---------------------------------------------------------------- twoway: copyTwoWayEx under an imposed schedule

// gate makes every environment call of one goroutine wait for the controller's grant, so
// that the interleaving of the two real goroutines is exactly the schedule of the op line.
// When the real code does something the environment cannot explain (an anomaly) the gates
// are opened (`abort`) so that nothing is left blocked.
type gate struct {
	req   chan struct{}
	grant chan struct{}
	done  chan bool
	abort chan struct{}
}

func newGate(abort chan struct{}) *gate {
	return &gate{req: make(chan struct{}), grant: make(chan struct{}), done: make(chan bool), abort: abort}
}

func (g *gate) call(f func() bool) {
	select {
	case g.req <- struct{}{}:
	case <-g.abort:
		f()
		return
	}
	select {
	case <-g.grant:
	case <-g.abort:
		f()
		return
	}
	term := f()
	select {
	case g.done <- term:
	case <-g.abort:
	}
}

const gateTimeout = 3 * time.Second

// step lets the goroutine perform its next environment call; reports whether that call
// makes copyBufferLog return.  early: copyTwoWayEx's result channel, watched while no
// result has been returned yet.
func (g *gate) step(early chan error) (term bool, ret *error, anomaly string) {
	select {
	case <-g.req:
	case e := <-early:
		return false, &e, "copyTwoWayEx returned although no direction had to end"
	case <-time.After(gateTimeout):
		return false, nil, "made no further call to its environment although its loop cannot have ended"
	}
	g.grant <- struct{}{}
	select {
	case t := <-g.done:
		return t, nil, ""
	case <-time.After(gateTimeout):
		return false, nil, "environment call did not return"
	}
}

type gatedRW struct {
	rd, wr *dirScript // the direction that reads from / writes to this end
	rg, wg *gate
}

func (c *gatedRW) Read(p []byte) (n int, err error) {
	c.rg.call(func() bool { var t bool; n, err, t = c.rd.read(p); return t })
	return
}

func (c *gatedRW) Write(p []byte) (n int, err error) {
	c.wg.call(func() bool { var t bool; n, err, t = c.wr.write(p); return t })
	return
}

type gatedLogger struct {
	up, down *dirScript
	ug, dg   *gate
	wrapped  bool // a refusal closes the connection: both stream ends fail from then on
	mu       sync.Mutex
	orc      []string
}

func (l *gatedLogger) refused() {
	if l.wrapped {
		l.up.srcShut, l.down.dstShut = true, true
	}
}

func (l *gatedLogger) LogTraffic(id string, tx, rx uint64) (ok bool) {
	switch {
	case tx > 0 && rx == 0:
		l.ug.call(func() bool {
			var t bool
			ok, t = l.up.log(tx)
			if !ok {
				l.refused()
			}
			return t
		})
	case rx > 0 && tx == 0:
		l.dg.call(func() bool {
			var t bool
			ok, t = l.down.log(rx)
			if !ok {
				l.refused()
			}
			return t
		})
	default:
		l.mu.Lock()
		l.orc = append(l.orc, fmt.Sprintf("LogTraffic(tx=%d, rx=%d): not exactly one direction", tx, rx))
		l.mu.Unlock()
		ok = true
	}
	return
}
func (l *gatedLogger) LogOnlineState(id string, online bool)                        {}
func (l *gatedLogger) TraceStream(stream server.HyStream, stats *server.StreamStats) {}
func (l *gatedLogger) UntraceStream(stream server.HyStream)                          {}

func runTwoWay(f []string) vh.Result {
	us, uv, uw := parseSrc(f[2]), parseVerd(f[3]), parseWres(f[4])
	ds, dv, dw := parseSrc(f[5]), parseVerd(f[6]), parseWres(f[7])
	upSource, downSource := srcFlat(us), srcFlat(ds)
	up, down := newDirScript(us, uv, uw), newDirScript(ds, dv, dw)
	abort := make(chan struct{})
	ug, dg := newGate(abort), newGate(abort)
	stream := &gatedRW{rd: up, wr: down, rg: ug, wg: dg} // serverRw: the QUIC stream
	target := &gatedRW{rd: down, wr: up, rg: dg, wg: ug} // remoteRw: the outbound connection
	logger := &gatedLogger{up: up, down: down, ug: ug, dg: dg, wrapped: f[0] == "twowayw"}
	stats := &server.StreamStats{}
	retCh := make(chan error, 1)
	go func() { retCh <- server.VerifCopyTwoWayEx("user", stream, target, logger, stats) }()

	var executed strings.Builder
	upFin, downFin := false, false
	returned := false
	var ret error
	mpc := 0 // 0 recv, 1 closeTarget, 2 closeStream, 3 closeConn, 4 done
	tclosed, sclosed := false, false
	firstEnd := ""
	var orc []string
	anomaly := ""

	stepDir := func(c byte) {
		g, d, fin, name := ug, up, &upFin, "up"
		if c == 'd' {
			g, d, fin, name = dg, down, &downFin, "down"
		}
		executed.WriteByte(c)
		if *fin || anomaly != "" {
			return
		}
		var early chan error
		if !returned {
			early = retCh
		}
		term, er, an := g.step(early)
		if an != "" {
			anomaly = name + ": " + an
			if er != nil {
				ret, returned = *er, true
			}
			return
		}
		if !term {
			return
		}
		*fin = true
		executed.WriteByte(c) // the send on errChan
		if !returned {
			select {
			case ret = <-retCh:
				returned = true
				firstEnd = d.end
				executed.WriteByte('m') // `return <-errChan`
				mpc = 1
			case <-g.req:
				anomaly = name + ": called its environment again after its loop had to end (" + d.end + ")"
			case <-time.After(gateTimeout):
				anomaly = name + ": its loop had to end (" + d.end + ") but copyTwoWayEx did not return"
			}
		} else {
			// the second result goes to a channel nobody reads; a stray call would show here
			select {
			case <-g.req:
				anomaly = name + ": called its environment again after its loop had to end (" + d.end + ")"
			case <-time.After(200 * time.Microsecond):
			}
		}
	}
	stepMain := func() {
		executed.WriteByte('m')
		switch mpc {
		case 1:
			tclosed = true
			down.srcShut, up.dstShut = true, true
			mpc = 2
		case 2:
			sclosed = true
			up.srcShut, down.dstShut = true, true
			if ret == server.VerifErrDisconnect {
				mpc = 3
			} else {
				mpc = 4
			}
		case 3:
			mpc = 4
		}
	}
	for i := 0; i < len(f[1]) && anomaly == ""; i++ {
		switch f[1][i] {
		case 'u', 'd':
			stepDir(f[1][i])
		case 'm':
			stepMain()
		}
	}
	// run everything to its end (closing both ends makes a blocked direction finish)
	for guard := 0; !(upFin && downFin && mpc == 4) && anomaly == "" && guard < 1000000; guard++ {
		if returned && mpc != 4 {
			stepMain()
		}
		if !upFin {
			stepDir('u')
		}
		if !downFin {
			stepDir('d')
		}
	}
	if anomaly != "" {
		// open the gates, fail every further call, and let the real code run out
		up.srcShut, up.dstShut, down.srcShut, down.dstShut = true, true, true, true
		close(abort)
		if !returned {
			select {
			case ret = <-retCh:
			case <-time.After(gateTimeout):
			}
		}
		time.Sleep(5 * time.Millisecond)
		return vh.Result{Out: "anomaly", ModelOp: fmt.Sprintf("%s %s %s %s %s %s %s %s", f[0], executed.String(), f[2], f[3], f[4], f[5], f[6], f[7]),
			Oracle: []string{"the real copyTwoWayEx left the behaviour its environment allows: " + anomaly}}
	}
	retClass := "running"
	if returned {
		retClass = classOf(ret)
		if retClass != firstEnd {
			orc = append(orc, fmt.Sprintf("copyTwoWayEx returned %s, the direction that finished first ended with %s", retClass, firstEnd))
		}
	}
	resOf := func(d *dirScript) string {
		if d.end == "" {
			return "running"
		}
		return d.end
	}
	logger.mu.Lock()
	orc = append(orc, logger.orc...)
	logger.mu.Unlock()
	orc = append(orc, up.oracle("up", upSource, resOf(up), false)...)
	orc = append(orc, down.oracle("down", downSource, resOf(down), false)...)
	if stats.Tx.Load() != up.offered || stats.Rx.Load() != down.offered {
		orc = append(orc, fmt.Sprintf("StreamStats tx=%d rx=%d but the logger was handed tx=%d rx=%d",
			stats.Tx.Load(), stats.Rx.Load(), up.offered, down.offered))
	}
	b01 := func(b bool) string {
		if b {
			return "1"
		}
		return "0"
	}
	out := fmt.Sprintf("ret=%s tclosed=%s sclosed=%s up[%s] down[%s]", retClass, b01(tclosed), b01(sclosed),
		up.summary(resOf(up)), down.summary(resOf(down)))
	mop := fmt.Sprintf("%s %s %s %s %s %s %s %s", f[0], executed.String(), f[2], f[3], f[4], f[5], f[6], f[7])
	return vh.Result{Out: out, ModelOp: mop, NonTrivial: len(up.written)+len(down.written) > 0, Oracle: orc}
}

func (relayComp) Run(op string) vh.Result {
	f := strings.Fields(op)
	switch {
	case len(f) == 4 && f[0] == "copy":
		return runCopy(f)
	case len(f) == 8 && (f[0] == "twoway" || f[0] == "twowayw"):
		return runTwoWay(f)
	}
	return vh.Result{Out: "bad-op"}
}
