//go:build verif

package relayc06

// C06 structural facts read with go/ast from the CURRENT source of
// core/internal/utils/qstream.go and core/client/client.go, regenerated into
// lean/Hy/Gen/QShape.lean on every run (tools/hv/props/C06.py: gen_qshape).  For every method
// of QStream and of tcpConn: its top-level statements, each printed on one line (go/printer,
// white space collapsed, comments dropped).  Hy.Props.C06 decides that these are the
// renderings of the programs the model is made of (Hy.QStream.render).
//
//	verif-core qshape -ops <file with one line "shape <qstream.go> <client.go>">

import (
	"bytes"
	"go/ast"
	"go/parser"
	"go/printer"
	"go/token"
	"sort"
	"strings"

	vh "github.com/apernet/hysteria/core/v2/verifhlib"
)

func init() { vh.Register("qshape", func() vh.Component { return qShapeComp{} }) }

type qShapeComp struct{}

func (qShapeComp) Gen(r *vh.RNG, n int, emit func(op string, tags ...string)) {}

func recvName(fd *ast.FuncDecl) string {
	if fd.Recv == nil || len(fd.Recv.List) != 1 {
		return ""
	}
	t := fd.Recv.List[0].Type
	if st, ok := t.(*ast.StarExpr); ok {
		t = st.X
	}
	if id, ok := t.(*ast.Ident); ok {
		return id.Name
	}
	return ""
}

func methodFacts(path string, recv string, facts map[string][]string) error {
	fset := token.NewFileSet()
	file, err := parser.ParseFile(fset, path, nil, 0)
	if err != nil {
		return err
	}
	for _, d := range file.Decls {
		fd, ok := d.(*ast.FuncDecl)
		if !ok || fd.Body == nil || recvName(fd) != recv {
			continue
		}
		key := recv + "." + fd.Name.Name
		facts[key] = []string{}
		for _, st := range fd.Body.List {
			var b bytes.Buffer
			_ = printer.Fprint(&b, fset, st)
			facts[key] = append(facts[key], strings.Join(strings.Fields(b.String()), " "))
		}
	}
	return nil
}

func (qShapeComp) Run(op string) vh.Result {
	f := strings.Fields(op)
	if len(f) != 3 || f[0] != "shape" {
		return vh.Result{Out: "bad-op"}
	}
	facts := map[string][]string{}
	if err := methodFacts(f[1], "QStream", facts); err != nil {
		return vh.Result{Out: "parse-error " + strings.ReplaceAll(err.Error(), "\n", " ")}
	}
	if err := methodFacts(f[2], "tcpConn", facts); err != nil {
		return vh.Result{Out: "parse-error " + strings.ReplaceAll(err.Error(), "\n", " ")}
	}
	keys := make([]string, 0, len(facts))
	for k := range facts {
		keys = append(keys, k)
	}
	sort.Strings(keys)
	var parts []string
	for _, k := range keys {
		parts = append(parts, k+"\t"+strings.Join(facts[k], "\x1e"))
	}
	return vh.Result{Out: strings.Join(parts, "\x1f"), NonTrivial: true}
}
