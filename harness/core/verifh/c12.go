//go:build verif

//go:debug randseednop=0

package main

import (
	"github.com/apernet/hysteria/core/v2/internal/congestion/bbr"
	"github.com/apernet/hysteria/core/v2/internal/congestion/common"
	vh "github.com/apernet/hysteria/core/v2/verifhlib"
)

// C12: the components live in package bbr (in-package access to the unexported
// containers and to bbrSender); this file only registers them.
func init() {
	vh.Register("ring", bbr.NewVerifRing)
	vh.Register("pnq", bbr.NewVerifPnq)
	vh.Register("bbr", bbr.NewVerifBbr)
	vh.Register("bbrfat", bbr.NewVerifBbrFat)
	vh.RegisterConsts(bbr.VerifConstsC12)
	vh.RegisterConsts(common.VerifConstsC12)
}
