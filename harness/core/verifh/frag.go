//go:build verif

package main

import (
	"bytes"
	"encoding/binary"
	"fmt"
	"strconv"
	"strings"

	"github.com/apernet/hysteria/core/v2/internal/frag"
	"github.com/apernet/hysteria/core/v2/internal/protocol"
	vh "github.com/apernet/hysteria/core/v2/verifhlib"
)

// C05: UDPMessage.Serialize / ParseUDPMessage / frag.FragUDPMessage / frag.Defragger.Feed.
//
//	frag     stateless: ser, rt (serialize+parse), parse, frag
//	defrag   stateful:  reset, orig (split a message with the real splitter and keep the
//	         fragments), feedf i j (feed fragment j of message i), feed … (raw fragment)
//	defragx  the same operations, generated exhaustively: every arrival order of n fragments
//	         with one duplicate, on a fresh defragger and on one holding another message

func init() {
	vh.Register("frag", func() vh.Component { return &fragComp{} })
	vh.Register("defrag", func() vh.Component { return &defragComp{} })
	vh.Register("defragx", func() vh.Component { return &defragComp{exhaustive: true} })
}

// ---------------------------------------------------------------- shared helpers

// fragPat is the deterministic filler both sides compute: byte i = seed + 7i + 13*(i/256).
func fragPat(seed, n int) []byte {
	b := make([]byte, n)
	for i := range b {
		b[i] = byte(seed + i*7 + i/256*13)
	}
	return b
}

func fragDigest(b []byte) uint64 {
	h := uint64(7)
	for _, c := range b {
		h = (h*31 + uint64(c) + 1) % 4294967291
	}
	return h
}

func fragShowData(b []byte) string {
	if len(b) <= 48 {
		return vh.Hex(b)
	}
	return fmt.Sprintf("#%d:%d", len(b), fragDigest(b))
}

func fragShowMsg(m *protocol.UDPMessage) string {
	return fmt.Sprintf("%d %d %d %d %s %s", m.SessionID, m.PacketID, m.FragID, m.FragCount,
		fragShowData([]byte(m.Addr)), fragShowData(m.Data))
}

func fragVarintLen(n int) int {
	switch {
	case n <= 63:
		return 1
	case n <= 16383:
		return 2
	case n <= 1073741823:
		return 4
	}
	return 8
}

// independent of UDPMessage.HeaderSize
func fragHeaderLen(alen int) int { return 8 + fragVarintLen(alen) + alen }

func fragSerialize(m *protocol.UDPMessage) ([]byte, bool) {
	buf := make([]byte, m.Size())
	n := m.Serialize(buf)
	if n != len(buf) {
		return nil, false
	}
	return buf, true
}

func atoiAll(ss []string) ([]int, bool) {
	out := make([]int, len(ss))
	for i, s := range ss {
		v, err := strconv.Atoi(s)
		if err != nil {
			return nil, false
		}
		out[i] = v
	}
	return out, true
}

func sameMsg(a, b *protocol.UDPMessage) bool {
	return a.SessionID == b.SessionID && a.PacketID == b.PacketID && a.FragID == b.FragID &&
		a.FragCount == b.FragCount && a.Addr == b.Addr && bytes.Equal(a.Data, b.Data)
}

// checkFrags is the model-free oracle of FragUDPMessage: given the message and the limit it
// says what the result has to be (C05: fits, ≤255, all-or-nothing, reassembles).
func checkFrags(m *protocol.UDPMessage, limit int, frags []protocol.UDPMessage, panicked bool, pmsg string) []string {
	var orc []string
	if panicked {
		return []string{"FragUDPMessage panicked: " + pmsg}
	}
	hdr := fragHeaderLen(len(m.Addr))
	if hdr != m.HeaderSize() {
		orc = append(orc, fmt.Sprintf("HeaderSize()=%d but the header is %d bytes", m.HeaderSize(), hdr))
	}
	if len(frags) > 255 {
		orc = append(orc, fmt.Sprintf("%d fragments (more than 255)", len(frags)))
	}
	size := hdr + len(m.Data)
	switch {
	case size <= limit:
		if len(frags) != 1 || !sameMsg(&frags[0], m) {
			orc = append(orc, "a message that fits the limit was not sent whole and unchanged")
		}
		return orc
	case limit-hdr <= 0:
		if len(frags) != 0 {
			orc = append(orc, "fragments produced although the limit leaves no room for payload")
		}
		return orc
	}
	mps := limit - hdr
	need := (len(m.Data) + mps - 1) / mps
	if need > 255 {
		if len(frags) != 0 {
			orc = append(orc, fmt.Sprintf("%d fragments needed (>255) but %d were produced instead of discarding the message", need, len(frags)))
		}
		return orc
	}
	if len(frags) != need {
		orc = append(orc, fmt.Sprintf("%d fragments produced, %d needed: the message is neither sent completely nor discarded for a reason", len(frags), need))
		return orc
	}
	var cat []byte
	for i := range frags {
		f := &frags[i]
		b, ok := fragSerialize(f)
		if !ok {
			orc = append(orc, fmt.Sprintf("fragment %d: Serialize did not write Size() bytes", i))
		} else if len(b) > limit {
			orc = append(orc, fmt.Sprintf("fragment %d is %d bytes, limit %d", i, len(b), limit))
		}
		if int(f.FragID) != i || int(f.FragCount) != need {
			orc = append(orc, fmt.Sprintf("fragment %d carries id %d count %d (expected %d/%d)", i, f.FragID, f.FragCount, i, need))
		}
		if f.SessionID != m.SessionID || f.PacketID != m.PacketID || f.Addr != m.Addr {
			orc = append(orc, fmt.Sprintf("fragment %d does not carry the message's session/packet id/address", i))
		}
		if len(f.Data) == 0 {
			orc = append(orc, fmt.Sprintf("fragment %d is empty", i))
		}
		cat = append(cat, f.Data...)
	}
	if !bytes.Equal(cat, m.Data) {
		orc = append(orc, "fragment payloads do not concatenate to the original payload")
	}
	return orc
}

func callFrag(m *protocol.UDPMessage, limit int) (frags []protocol.UDPMessage, panicked bool, pmsg string) {
	defer func() {
		if r := recover(); r != nil {
			frags, panicked, pmsg = nil, true, fmt.Sprint(r)
		}
	}()
	return frag.FragUDPMessage(m, limit), false, ""
}

// ---------------------------------------------------------------- stateless component

type fragComp struct{}

var fragAddrLens = []int{1, 2, 3, 7, 62, 63, 64, 65, 255, 256, 2047, 2048}
var fragDataLens = []int{1, 2, 3, 15, 16, 17, 254, 255, 256, 257, 511, 1199, 1200, 1201, 4095, 4096, 4097, 16383, 16384, 65534, 65535}

func genAddrLen(r *vh.RNG) int {
	if r.Chance(1, 3) {
		return r.Range(1, 2048)
	}
	if r.Chance(1, 2) {
		return r.Range(1, 40)
	}
	return r.Pick(fragAddrLens)
}

func genDataLen(r *vh.RNG) int {
	// large payloads are kept to a few percent: the model's splitter loop is quadratic in them
	switch k := r.Intn(100); {
	case k < 12:
		return r.Pick(fragDataLens)
	case k < 17:
		return r.Range(1, 65535)
	case k < 40:
		return r.Range(1, 300)
	default:
		return r.Range(1, 3000)
	}
}

// genLimit draws a datagram limit for a message with the given header and payload length.
func genLimit(r *vh.RNG, hdr, dlen int) (int, string) {
	switch k := r.Intn(100); {
	case k < 25:
		return r.Range(0, 1500), "limit-random"
	case k < 40: // at or below the header size
		return r.Pick([]int{0, 1, 8, hdr - 1, hdr, hdr, hdr + 1, hdr + 1, -1, -100}), "limit-header"
	case k < 65: // the 255/256-fragment boundary
		want := r.Pick([]int{253, 254, 255, 255, 256, 256, 257, 300, 512, 1000})
		mps := (dlen + want - 1) / want
		mps += r.Pick([]int{-1, 0, 0, 0, 1})
		if mps < 1 {
			mps = 1
		}
		return hdr + mps, "limit-255-boundary"
	case k < 75: // around "fits whole"
		return hdr + dlen + r.Pick([]int{-2, -1, 0, 1}), "limit-fits"
	case k < 85: // one or two payload bytes per fragment
		return hdr + r.Range(1, 2), "limit-tiny-payload"
	default: // last fragment of 1 byte / exact multiple
		parts := r.Range(2, 12)
		mps := (dlen + parts - 1) / parts
		if mps < 1 {
			mps = 1
		}
		return hdr + mps, "limit-parts"
	}
}

func (fragComp) Gen(r *vh.RNG, n int, emit func(op string, tags ...string)) {
	for i := 0; i < n; i++ {
		sid, pid := int(r.U64()&0xffffffff), r.Intn(65536)
		switch k := r.Intn(100); {
		case k < 55: // split
			alen, dlen := genAddrLen(r), genDataLen(r)
			if r.Chance(1, 4) { // make the 255/256 boundary reachable with 1-byte fragments
				dlen = r.Pick([]int{254, 255, 256, 257, 510, 512})
			}
			limit, tag := genLimit(r, fragHeaderLen(alen), dlen)
			fid, cnt := 0, 1
			if r.Chance(1, 10) { // FragUDPMessage copies whatever header it is given when the message fits
				fid, cnt = r.Intn(256), r.Intn(256)
			}
			emit(fmt.Sprintf("frag %d %d %d %d %d %d %d %d %d", sid, pid, fid, cnt, alen, r.Intn(256), dlen, r.Intn(256), limit), tag)
		case k < 60: // Serialize into a buffer of a given size
			alen, dlen := genAddrLen(r), r.Pick([]int{0, 1, 2, 100, 1200})
			size := fragHeaderLen(alen) + dlen
			bl := size + r.Pick([]int{-9, -1, 0, 0, 1, 100})
			if bl < 0 {
				bl = 0
			}
			emit(fmt.Sprintf("ser %d %d %d %d %d %d %d %d %d", sid, pid, r.Intn(256), r.Intn(256), alen, r.Intn(256), dlen, r.Intn(256), bl), "serialize")
		case k < 72: // Serialize then Parse
			alen := r.Pick(append([]int{0, 2049, 2050, 3000}, fragAddrLens...))
			if r.Chance(1, 3) {
				alen = r.Range(1, 2048)
			}
			dlen := r.Pick([]int{0, 1, 1, 2, 47, 48, 49, 1200, 4096, 65535})
			emit(fmt.Sprintf("rt %d %d %d %d %d %d %d %d", sid, pid, r.Intn(256), r.Intn(256), alen, r.Intn(256), dlen, r.Intn(256)), "roundtrip")
		default: // ParseUDPMessage on structured and malformed datagrams
			b, tag := genDatagram(r, sid, pid)
			emit("parse "+vh.Hex(b), tag)
		}
	}
}

// genDatagram builds a datagram from the codec's field structure and damages it at field boundaries.
func genDatagram(r *vh.RNG, sid, pid int) ([]byte, string) {
	hdr := make([]byte, 8)
	binary.BigEndian.PutUint32(hdr, uint32(sid))
	binary.BigEndian.PutUint16(hdr[4:], uint16(pid))
	hdr[6], hdr[7] = byte(r.Intn(256)), byte(r.Intn(256))
	alen := r.Pick([]int{1, 2, 3, 63, 64, 100, 2047, 2048})
	dlen := r.Pick([]int{1, 1, 2, 10, 60})
	addr, data := r.ASCII(alen), r.Bytes(dlen)
	switch k := r.Intn(100); {
	case k < 20: // valid, any varint width for the address length
		b := append(append(append(hdr, varintW(legalW(r, uint64(alen)), uint64(alen))...), addr...), data...)
		return b, "dgram-valid"
	case k < 35: // truncated anywhere (header, varint, address, no payload byte)
		b := append(append(append(hdr, varintW(legalW(r, uint64(alen)), uint64(alen))...), addr...), data...)
		cut := r.Intn(len(b) + 1)
		if r.Chance(1, 3) {
			cut = r.Pick([]int{0, 1, 3, 4, 5, 6, 7, 8, 9, len(b) - dlen, len(b) - dlen - 1, len(b) - dlen + 1})
		}
		if cut < 0 {
			cut = 0
		}
		if cut > len(b) {
			cut = len(b)
		}
		return b[:cut], "dgram-truncated"
	case k < 55: // declared address length wrong: 0, over the limit, longer than what follows, exactly what follows
		rest := append(append([]byte{}, addr...), data...)
		v := uint64(r.Pick([]int{0, 0, 2049, 2050, 4096, 16384, len(rest), len(rest) + 1, len(rest) - 1, 1 << 30}))
		if r.Chance(1, 6) {
			v = 1<<62 - 1
		}
		b := append(append(hdr, varintW(legalW(r, v), v)...), rest...)
		return b, "dgram-badlen"
	case k < 65: // exactly 2048/2049 address bytes followed by 0/1 payload bytes
		al := r.Pick([]int{2048, 2049})
		b := append(append(append(hdr, varintW(legalW(r, uint64(al)), uint64(al))...), r.ASCII(al)...), r.Bytes(r.Intn(2))...)
		return b, "dgram-limit"
	case k < 80: // bit flips in the first 12 bytes of a valid datagram
		b := append(append(append(hdr, varintW(legalW(r, uint64(alen)), uint64(alen))...), addr...), data...)
		for j := 0; j < 1+r.Intn(3); j++ {
			b[r.Intn(min(12, len(b)))] ^= byte(1 << r.Intn(8))
		}
		return b, "dgram-bitflip"
	default:
		return r.Bytes(r.Intn(24)), "dgram-random"
	}
}

func (fragComp) Run(op string) vh.Result {
	f := strings.Fields(op)
	var orc []string
	switch f[0] {
	case "frag":
		v, ok := atoiAll(f[1:])
		if !ok || len(v) != 9 {
			return vh.Result{Out: "bad-op"}
		}
		m := &protocol.UDPMessage{SessionID: uint32(v[0]), PacketID: uint16(v[1]), FragID: uint8(v[2]), FragCount: uint8(v[3]),
			Addr: string(fragPat(v[5], v[4])), Data: fragPat(v[7], v[6])}
		orig := *m
		orig.Data = append([]byte{}, m.Data...)
		limit := v[8]
		frags, panicked, pmsg := callFrag(m, limit)
		orc = checkFrags(&orig, limit, frags, panicked, pmsg)
		if !sameMsg(m, &orig) {
			orc = append(orc, "FragUDPMessage modified its argument")
		}
		nontriv := fragHeaderLen(v[4])+v[6] > limit
		if panicked {
			return vh.Result{Out: "panic", NonTrivial: nontriv, Oracle: orc}
		}
		if len(frags) == 0 {
			return vh.Result{Out: "nil", NonTrivial: nontriv, Oracle: orc}
		}
		var sb strings.Builder
		fmt.Fprintf(&sb, "ok n=%d", len(frags))
		for i := range frags {
			b, _ := fragSerialize(&frags[i])
			fmt.Fprintf(&sb, " %d:%d:%d:%d", frags[i].FragID, frags[i].FragCount, frags[i].Size(), fragDigest(b))
		}
		return vh.Result{Out: sb.String(), NonTrivial: nontriv, Oracle: orc}
	case "ser":
		v, ok := atoiAll(f[1:])
		if !ok || len(v) != 9 {
			return vh.Result{Out: "bad-op"}
		}
		m := &protocol.UDPMessage{SessionID: uint32(v[0]), PacketID: uint16(v[1]), FragID: uint8(v[2]), FragCount: uint8(v[3]),
			Addr: string(fragPat(v[5], v[4])), Data: fragPat(v[7], v[6])}
		buf := make([]byte, v[8])
		var n int
		out, pmsg := vh.GuardMsg(func() string {
			n = m.Serialize(buf)
			if n < 0 {
				return "-1"
			}
			return fmt.Sprintf("ok %d %d", n, fragDigest(buf[:n]))
		})
		size := fragHeaderLen(v[4]) + v[6]
		if out == "panic" {
			orc = append(orc, "Serialize panicked: "+pmsg)
		} else if (n < 0) != (v[8] < size) || (n >= 0 && n != size) {
			orc = append(orc, fmt.Sprintf("Serialize returned %d for a %d-byte message and a %d-byte buffer", n, size, v[8]))
		}
		return vh.Result{Out: out, NonTrivial: n >= 0, Oracle: orc}
	case "rt":
		v, ok := atoiAll(f[1:])
		if !ok || len(v) != 8 {
			return vh.Result{Out: "bad-op"}
		}
		m := &protocol.UDPMessage{SessionID: uint32(v[0]), PacketID: uint16(v[1]), FragID: uint8(v[2]), FragCount: uint8(v[3]),
			Addr: string(fragPat(v[5], v[4])), Data: fragPat(v[7], v[6])}
		valid := v[4] >= 1 && v[4] <= 2048 && v[6] >= 1
		out, pmsg := vh.GuardMsg(func() string {
			b, ok := fragSerialize(m)
			if !ok {
				orc = append(orc, "Serialize did not write Size() bytes into an exact buffer")
				return "ser-failed"
			}
			got, err := protocol.ParseUDPMessage(vh.Exact(b))
			if err != nil {
				if valid {
					orc = append(orc, "round trip: a valid message was rejected: "+err.Error())
				}
				return "reject"
			}
			if !valid {
				orc = append(orc, "round trip: a message outside the protocol limits was accepted")
			} else if !sameMsg(got, m) {
				orc = append(orc, "round trip: parsed message differs from the serialized one")
			}
			return "ok " + fragShowMsg(got)
		})
		if out == "panic" {
			orc = append(orc, "Serialize/ParseUDPMessage panicked: "+pmsg)
		}
		return vh.Result{Out: out, NonTrivial: valid, Oracle: orc}
	case "parse":
		in := vh.UnHex(f[1])
		out, pmsg := vh.GuardMsg(func() string {
			got, err := protocol.ParseUDPMessage(vh.Exact(in))
			if err != nil {
				return "reject"
			}
			// model-free: header fields are the first 8 bytes, address and payload are the tail
			if len(in) < 10 || got.SessionID != binary.BigEndian.Uint32(in) || got.PacketID != binary.BigEndian.Uint16(in[4:]) ||
				got.FragID != in[6] || got.FragCount != in[7] {
				orc = append(orc, "parsed header fields are not the first 8 bytes of the datagram")
			}
			if len(got.Addr) < 1 || len(got.Addr) > 2048 || len(got.Data) < 1 {
				orc = append(orc, fmt.Sprintf("accepted a datagram with address length %d, payload length %d", len(got.Addr), len(got.Data)))
			}
			if !bytes.HasSuffix(in, append([]byte(got.Addr), got.Data...)) {
				orc = append(orc, "address+payload are not the tail of the datagram")
			}
			if hl := len(in) - len(got.Addr) - len(got.Data); hl < 9 || hl > 16 {
				orc = append(orc, fmt.Sprintf("header of %d bytes", hl))
			}
			// what was accepted survives re-encoding
			if b, ok := fragSerialize(got); ok {
				again, err := protocol.ParseUDPMessage(b)
				if err != nil || !sameMsg(again, got) {
					orc = append(orc, "an accepted message does not survive Serialize+Parse")
				}
			}
			return "ok " + fragShowMsg(got)
		})
		if out == "panic" {
			orc = append(orc, "ParseUDPMessage panicked: "+pmsg)
		}
		return vh.Result{Out: out, NonTrivial: out != "reject" || len(in) >= 9, Oracle: orc}
	}
	return vh.Result{Out: "bad-op"}
}

// ---------------------------------------------------------------- stateful component

type origMsg struct {
	m     protocol.UDPMessage
	frags []protocol.UDPMessage
}

type defragComp struct {
	exhaustive bool

	d     *frag.Defragger
	origs []origMsg
	dirty bool // a raw fragment was fed since reset: the sent-set oracle does not apply
	// model-free expectation for clean histories (fragments of registered messages with
	// distinct packet ids only): which message the single slot is collecting, what it has seen
	cur     int
	seen    map[int]bool
	done    bool
	emitted int
}

func (c *defragComp) reset() {
	c.d = &frag.Defragger{}
	c.origs = nil
	c.dirty = false
	c.cur = -1
	c.seen = nil
	c.done = false
	c.emitted = 0
}

func permute(r *vh.RNG, xs []int) {
	for i := len(xs) - 1; i > 0; i-- {
		j := r.Intn(i + 1)
		xs[i], xs[j] = xs[j], xs[i]
	}
}

// origOp draws a message that the splitter cuts into about `parts` fragments.
func origOp(r *vh.RNG, pid, parts int) string {
	alen := r.Pick([]int{1, 3, 9, 63, 64, 300})
	hdr := fragHeaderLen(alen)
	mps := r.Pick([]int{1, 2, 3, 7, 16, 100, 1200 - hdr})
	if mps < 1 {
		mps = 1
	}
	if parts > 40 {
		mps = r.Range(1, 3)
	}
	dlen := mps*(parts-1) + r.Range(1, mps)
	if dlen > 65535 {
		dlen = 65535
	}
	return fmt.Sprintf("orig %d %d %d %d %d %d %d", r.Intn(1<<32), pid, alen, r.Intn(256), dlen, r.Intn(256), hdr+mps)
}

func (c *defragComp) Gen(r *vh.RNG, n int, emit func(op string, tags ...string)) {
	if c.exhaustive {
		c.genExhaustive(n, emit)
		return
	}
	total := 0
	e := func(op string, tags ...string) { emit(op, tags...); total++ }
	for total < n {
		e("reset", "history")
		k := r.Range(1, 6)
		pids := map[int]bool{}
		var counts []int
		for i := 0; i < k; i++ {
			pid := r.Range(1, 65535)
			if r.Chance(1, 12) {
				pid = r.Pick([]int{0, 1, 255, 256, 65535})
			}
			for pids[pid] {
				pid = r.Range(1, 65535)
			}
			pids[pid] = true
			parts := r.Range(2, 6)
			switch r.Intn(20) {
			case 0:
				parts = 1 // fits whole: passes through
			case 1:
				parts = r.Pick([]int{254, 255})
			case 2:
				parts = r.Pick([]int{256, 300}) // discarded by the splitter: nothing to feed
			case 3:
				parts = r.Range(7, 40)
			}
			e(origOp(r, pid, parts), "orig")
			if parts > 255 {
				parts = 0
			}
			counts = append(counts, parts)
		}
		// NOTE: counts[] is what the generator intends; if the splitter under test produces
		// something else, `feedf` on a missing fragment is reported by Run as an oracle failure.
		mode := r.Intn(10)
		switch {
		case mode < 3: // one message, any order, duplicates
			i := r.Intn(k)
			var seq []int
			for j := 0; j < counts[i]; j++ {
				seq = append(seq, j)
				for r.Chance(1, 4) {
					seq = append(seq, r.Intn(counts[i]))
				}
			}
			permute(r, seq)
			for _, j := range seq {
				e(fmt.Sprintf("feedf %d %d", i, j), "feed-anyorder")
			}
		case mode < 5: // message after message, each complete in random order
			order := make([]int, k)
			for i := range order {
				order[i] = i
			}
			permute(r, order)
			for _, i := range order {
				seq := make([]int, counts[i])
				for j := range seq {
					seq[j] = j
				}
				permute(r, seq)
				for _, j := range seq {
					e(fmt.Sprintf("feedf %d %d", i, j), "feed-sequential")
					if r.Chance(1, 6) {
						e(fmt.Sprintf("feedf %d %d", i, seq[r.Intn(len(seq))]), "feed-sequential")
					}
				}
			}
		case mode < 9: // interleaved, with drops and duplicates
			var pool [][2]int
			for i := 0; i < k; i++ {
				for j := 0; j < counts[i]; j++ {
					if r.Chance(1, 8) {
						continue // dropped
					}
					pool = append(pool, [2]int{i, j})
					for r.Chance(1, 6) {
						pool = append(pool, [2]int{i, j})
					}
				}
			}
			// partial shuffle: mostly bursts of one message, sometimes fully mixed
			if r.Chance(1, 2) {
				for a := len(pool) - 1; a > 0; a-- {
					b := r.Intn(a + 1)
					pool[a], pool[b] = pool[b], pool[a]
				}
			} else {
				for a := 0; a+1 < len(pool); a++ {
					if r.Chance(1, 3) {
						b := r.Range(a, min(a+4, len(pool)-1))
						pool[a], pool[b] = pool[b], pool[a]
					}
				}
			}
			for _, p := range pool {
				e(fmt.Sprintf("feedf %d %d", p[0], p[1]), "feed-interleaved")
			}
		default: // raw fragments: malformed, colliding ids, inconsistent counts
			for s := 0; s < r.Range(4, 14); s++ {
				if r.Chance(1, 3) && k > 0 {
					i := r.Intn(k)
					if counts[i] > 0 {
						e(fmt.Sprintf("feedf %d %d", i, r.Intn(counts[i])), "feed-raw-mix")
						continue
					}
				}
				pid := r.Pick([]int{0, 1, 7, 7, 7, 65535})
				cnt := r.Pick([]int{0, 1, 2, 2, 3, 3, 255})
				fid := r.Pick([]int{0, 1, 2, cnt, cnt + 1, 255})
				if r.Chance(1, 2) && cnt > 0 {
					fid = r.Intn(cnt)
				}
				e(fmt.Sprintf("feed %d %d %d %d %s %s", r.Intn(4), pid, fid%256, cnt, vh.Hex(r.ASCII(r.Range(1, 4))), vh.Hex(r.Bytes(r.Range(1, 5)))), "feed-raw")
			}
		}
	}
}

// genExhaustive: for every n in 2..maxN, every distinct arrival order of the n fragments plus one
// duplicate, (a) on a fresh defragger and (b) on one that holds a fragment of another message.
func (c *defragComp) genExhaustive(maxN int, emit func(op string, tags ...string)) {
	if maxN > 7 {
		maxN = 7
	}
	for n := 2; n <= maxN; n++ {
		hdr := fragHeaderLen(3)
		// n fragments of 4 bytes, the last one of 1..4 bytes
		dlen := 4*(n-1) + 1 + n%4
		for dup := 0; dup < n; dup++ {
			multiset := make([]int, 0, n+1)
			for j := 0; j < n; j++ {
				multiset = append(multiset, j)
			}
			multiset = append(multiset, dup)
			seen := map[string]bool{}
			var rec func(prefix []int, rest []int)
			rec = func(prefix []int, rest []int) {
				if len(rest) == 0 {
					key := fmt.Sprint(prefix)
					if seen[key] {
						return
					}
					seen[key] = true
					for variant := 0; variant < 2; variant++ {
						emit("reset", "history")
						emit(fmt.Sprintf("orig %d %d 3 %d %d %d %d", 1000+n, 100+n, 97, dlen, dup, hdr+4), "orig")
						if variant == 1 {
							emit(fmt.Sprintf("orig %d %d 3 %d %d %d %d", 2000+n, 200+n, 98, dlen, dup+1, hdr+4), "orig")
							emit(fmt.Sprintf("feedf 1 %d", dup), "feed-stale")
						}
						for _, j := range prefix {
							emit(fmt.Sprintf("feedf 0 %d", j), fmt.Sprintf("feed-exhaustive-n%d", n))
						}
					}
					return
				}
				for i := range rest {
					nr := append(append([]int{}, rest[:i]...), rest[i+1:]...)
					rec(append(append([]int{}, prefix...), rest[i]), nr)
				}
			}
			rec(nil, multiset)
		}
	}
}

func (c *defragComp) stateStr() string {
	pid, slots, count, size := c.d.VerifState()
	return fmt.Sprintf("st=%d,%d,%d,%d", pid, slots, count, size)
}

// feedOne feeds a private copy of fm to the real Defragger.
func (c *defragComp) feedOne(fm *protocol.UDPMessage) (out *protocol.UDPMessage, panicked bool, pmsg string) {
	defer func() {
		if r := recover(); r != nil {
			out, panicked, pmsg = nil, true, fmt.Sprint(r)
		}
	}()
	mm := *fm
	return c.d.Feed(&mm), false, ""
}

func (c *defragComp) Run(op string) vh.Result {
	if c.d == nil {
		c.reset()
	}
	f := strings.Fields(op)
	var orc []string
	switch f[0] {
	case "reset":
		c.reset()
		return vh.Result{Out: "ok"}
	case "orig":
		v, ok := atoiAll(f[1:])
		if !ok || len(v) != 7 {
			return vh.Result{Out: "bad-op"}
		}
		m := protocol.UDPMessage{SessionID: uint32(v[0]), PacketID: uint16(v[1]), FragID: 0, FragCount: 1,
			Addr: string(fragPat(v[3], v[2])), Data: fragPat(v[5], v[4])}
		keep := m
		keep.Data = append([]byte{}, m.Data...)
		frags, panicked, pmsg := callFrag(&m, v[6])
		orc = checkFrags(&keep, v[6], frags, panicked, pmsg)
		for i := range c.origs {
			if c.origs[i].m.PacketID == keep.PacketID {
				c.dirty = true // the generator keeps packet ids distinct; a corpus line may not
			}
		}
		c.origs = append(c.origs, origMsg{m: keep, frags: frags})
		if panicked {
			return vh.Result{Out: "panic", NonTrivial: true, Oracle: orc}
		}
		return vh.Result{Out: fmt.Sprintf("frags %d", len(frags)), NonTrivial: len(frags) > 1, Oracle: orc}
	case "feedf", "feed":
		var fm *protocol.UDPMessage
		oi, fj := -1, -1
		if f[0] == "feedf" {
			v, ok := atoiAll(f[1:])
			if !ok || len(v) != 2 {
				return vh.Result{Out: "bad-op"}
			}
			if v[0] < 0 || v[0] >= len(c.origs) || v[1] < 0 || v[1] >= len(c.origs[v[0]].frags) {
				// the generator planned a fragment the splitter under test did not produce
				return vh.Result{Out: "bad-op", Oracle: []string{fmt.Sprintf("fragment %d of message %d does not exist: the splitter produced a different number of fragments than required", v[1], v[0])}}
			}
			oi, fj = v[0], v[1]
			fm = &c.origs[oi].frags[fj]
		} else {
			if len(f) != 7 {
				return vh.Result{Out: "bad-op"}
			}
			v, ok := atoiAll(f[1:5])
			if !ok {
				return vh.Result{Out: "bad-op"}
			}
			fm = &protocol.UDPMessage{SessionID: uint32(v[0]), PacketID: uint16(v[1]), FragID: uint8(v[2]), FragCount: uint8(v[3]),
				Addr: string(vh.UnHex(f[5])), Data: vh.UnHex(f[6])}
			if fm.FragCount > 1 {
				c.dirty = true
			}
		}
		out, panicked, pmsg := c.feedOne(fm)
		if panicked {
			return vh.Result{Out: "panic", NonTrivial: true, Oracle: []string{"Defragger.Feed panicked: " + pmsg}}
		}
		// ---- model-free oracle
		if fm.FragCount <= 1 {
			if out == nil || !sameMsg(out, fm) {
				orc = append(orc, "an unfragmented message was not passed through unchanged")
			}
		} else if !c.dirty && oi >= 0 {
			o := &c.origs[oi]
			if c.cur != oi {
				c.cur, c.seen, c.done = oi, map[int]bool{}, false
			}
			expect := !c.done && !c.seen[fj] && len(c.seen)+1 == len(o.frags)
			c.seen[fj] = true
			if expect {
				c.done = true
			}
			if out != nil {
				c.emitted++
				want := o.m
				want.FragID, want.FragCount = 0, 1
				if !sameMsg(out, &want) {
					// is it at least one of the messages that were sent?
					among := false
					for i := range c.origs {
						w := c.origs[i].m
						if out.SessionID == w.SessionID && out.Addr == w.Addr && bytes.Equal(out.Data, w.Data) {
							among = true
						}
					}
					if among {
						orc = append(orc, "the reassembled message is another message than the one whose fragments completed")
					} else {
						orc = append(orc, fmt.Sprintf("the reassembler emitted a payload that was never sent as one message (%d bytes, %s)", len(out.Data), fragShowData(out.Data)))
					}
				}
				if !expect {
					orc = append(orc, "a message was emitted although its fragments had not all arrived (or it had been emitted already)")
				}
			} else if expect {
				orc = append(orc, "all fragments of the message have arrived (no other message in between) but nothing was emitted")
			}
		}
		if out == nil {
			return vh.Result{Out: "nil " + c.stateStr(), NonTrivial: fm.FragCount > 1, Oracle: orc}
		}
		return vh.Result{Out: "msg " + fragShowMsg(out) + " " + c.stateStr(), NonTrivial: true, Oracle: orc}
	}
	return vh.Result{Out: "bad-op"}
}
