//go:build verif

package main

// C10, layer 1: the Hysteria-CC-RX header codec of core/internal/protocol/http.go
// (AuthRequestFromHeader / AuthRequestToHeader / AuthResponseFromHeader /
// AuthResponseToHeader) and strconv.ParseUint as those functions use it, driven with
// header values that are missing, empty, non-numeric, signed, overflowing, "auto" and its
// near misses, padded with blanks, multi-valued. The Lean model is Hy.Model.Rate
// (driver `hydrv rate`).
//
// ops (values are hex, "-" = empty string; a value list is "." = header absent, else
// comma separated — the list stored under the canonical key):
//
//	pu <hex>            strconv.ParseUint(s, 10, 64)            -> "pu <n> ok|syntax|range"
//	reqparse <vals>     AuthRequestFromHeader(h).Rx             -> "req rx=<n>"
//	respparse <vals>    AuthResponseFromHeader(h).{Rx,RxAuto}   -> "resp rx=<n> auto=<0|1>"
//	reqfmt <n>          AuthRequestToHeader(h, {Rx:n})          -> "reqhdr <hex>"
//	respfmt <a> <n>     AuthResponseToHeader(h, {Rx:n,RxAuto:a})-> "resphdr <hex>"

import (
	"errors"
	"fmt"
	"math/big"
	"net/http"
	"reflect"
	"strconv"
	"strings"

	"github.com/apernet/hysteria/core/v2/internal/congestion"
	"github.com/apernet/hysteria/core/v2/internal/protocol"
	vh "github.com/apernet/hysteria/core/v2/verifhlib"
)

func init() {
	vh.Register("ratecodec", func() vh.Component { return &rateCodec{} })
	vh.RegisterConsts(func() map[string]any {
		h := http.Header{}
		protocol.AuthResponseToHeader(h, protocol.AuthResponse{Rx: 12345, RxAuto: true})
		return map[string]any{
			"C10_HeaderCCRX":   protocol.CommonHeaderCCRX,
			"C10_StatusAuthOK": uint64(protocol.StatusAuthOK),
			"C10_AutoLiteral":  h.Get(protocol.CommonHeaderCCRX),
			"C10_TypeBBR":      congestion.TypeBBR,
			"C10_TypeReno":     congestion.TypeReno,
		}
	})
}

type rateCodec struct{}

var c10Key = http.CanonicalHeaderKey(protocol.CommonHeaderCCRX)

func c10Vals(s string) ([]string, bool) {
	if s == "." {
		return nil, true
	}
	var out []string
	for _, f := range strings.Split(s, ",") {
		if f != "-" && (len(f)%2 != 0 || strings.Trim(f, "0123456789abcdef") != "") {
			return nil, false
		}
		out = append(out, string(vh.UnHex(f)))
	}
	return out, true
}

func c10Header(vals []string) http.Header {
	h := http.Header{}
	if vals != nil {
		h[c10Key] = vals
	}
	return h
}

// c10Canonical: for a non-empty string of ASCII digits, the number a peer means by it —
// its decimal value, saturated at 2^64-1 (a declaration larger than any representable rate
// is the largest rate, not "unknown"). Model-free: big.Int arithmetic.
func c10Canonical(s string) (uint64, bool) {
	if s == "" {
		return 0, false
	}
	for i := 0; i < len(s); i++ {
		if s[i] < '0' || s[i] > '9' {
			return 0, false
		}
	}
	b, _ := new(big.Int).SetString(s, 10)
	if !b.IsUint64() {
		return 1<<64 - 1, true
	}
	return b.Uint64(), true
}

func (c *rateCodec) Run(op string) vh.Result {
	f := strings.Fields(op)
	bad := vh.Result{Out: "bad-op"}
	if len(f) < 2 {
		return bad
	}
	switch f[0] {
	case "pu":
		vals, ok := c10Vals(f[1])
		if !ok || len(vals) != 1 || len(f) != 2 {
			return bad
		}
		n, err := strconv.ParseUint(vals[0], 10, 64)
		k := "ok"
		if err != nil {
			switch {
			case errors.Is(err, strconv.ErrSyntax):
				k = "syntax"
			case errors.Is(err, strconv.ErrRange):
				k = "range"
			default:
				k = "other"
			}
		}
		return vh.Result{Out: fmt.Sprintf("pu %d %s", n, k), NonTrivial: k != "syntax"}
	case "reqparse":
		vals, ok := c10Vals(f[1])
		if !ok || len(f) != 2 {
			return bad
		}
		r := c10AuthRequestFromHeader(c10Header(vals))
		res := vh.Result{Out: fmt.Sprintf("req rx=%d", r.Rx), NonTrivial: r.Rx != 0}
		first := ""
		if len(vals) > 0 {
			first = vals[0]
		}
		if n, ok := c10Canonical(first); ok && r.Rx != n {
			res.Oracle = append(res.Oracle, fmt.Sprintf("request header %q means %d (decimal, saturated at 2^64-1) but was read as %d", first, n, r.Rx))
		}
		if len(vals) == 0 && r.Rx != 0 {
			res.Oracle = append(res.Oracle, fmt.Sprintf("absent header read as %d, not 0 (unknown)", r.Rx))
		}
		return res
	case "respparse":
		vals, ok := c10Vals(f[1])
		if !ok || len(f) != 2 {
			return bad
		}
		r := protocol.AuthResponseFromHeader(c10Header(vals))
		res := vh.Result{Out: fmt.Sprintf("resp rx=%d auto=%s", r.Rx, b01(r.RxAuto)), NonTrivial: r.Rx != 0 || r.RxAuto}
		first := ""
		if len(vals) > 0 {
			first = vals[0]
		}
		if n, ok := c10Canonical(first); ok && (r.Rx != n || r.RxAuto) {
			res.Oracle = append(res.Oracle, fmt.Sprintf("response header %q means %d (decimal, saturated at 2^64-1) but was read as rx=%d auto=%v", first, n, r.Rx, r.RxAuto))
		}
		if first == "auto" && !r.RxAuto {
			res.Oracle = append(res.Oracle, "response header \"auto\" not read as RxAuto")
		}
		if first != "auto" && r.RxAuto {
			res.Oracle = append(res.Oracle, fmt.Sprintf("response header %q read as RxAuto", first))
		}
		return res
	case "reqfmt":
		if len(f) != 2 {
			return bad
		}
		n, err := strconv.ParseUint(f[1], 10, 64)
		if err != nil {
			return bad
		}
		h := http.Header{}
		protocol.AuthRequestToHeader(h, protocol.AuthRequest{Auth: "x", Rx: n})
		vs := h[c10Key]
		if len(vs) != 1 {
			return vh.Result{Out: fmt.Sprintf("nvals=%d", len(vs)), Oracle: []string{"AuthRequestToHeader did not set exactly one Hysteria-CC-RX value"}}
		}
		res := vh.Result{Out: "reqhdr " + vh.Hex([]byte(vs[0])), NonTrivial: true}
		if back := c10AuthRequestFromHeader(h); back.Rx != n {
			res.Oracle = append(res.Oracle, fmt.Sprintf("request round trip: sent %d, header %q, read back %d", n, vs[0], back.Rx))
		}
		return res
	case "respfmt":
		if len(f) != 3 || (f[1] != "0" && f[1] != "1") {
			return bad
		}
		n, err := strconv.ParseUint(f[2], 10, 64)
		if err != nil {
			return bad
		}
		a := f[1] == "1"
		h := http.Header{}
		protocol.AuthResponseToHeader(h, protocol.AuthResponse{UDPEnabled: true, Rx: n, RxAuto: a})
		vs := h[c10Key]
		if len(vs) != 1 {
			return vh.Result{Out: fmt.Sprintf("nvals=%d", len(vs)), Oracle: []string{"AuthResponseToHeader did not set exactly one Hysteria-CC-RX value"}}
		}
		res := vh.Result{Out: "resphdr " + vh.Hex([]byte(vs[0])), NonTrivial: true}
		back := protocol.AuthResponseFromHeader(h)
		if back.RxAuto != a || (!a && back.Rx != n) {
			res.Oracle = append(res.Oracle, fmt.Sprintf("response round trip: sent rx=%d auto=%v, header %q, read back rx=%d auto=%v", n, a, vs[0], back.Rx, back.RxAuto))
		}
		return res
	}
	return bad
}

// C10Boundaries: the uint64 values every C10 generator visits.
var c10Boundaries = []uint64{
	0, 1, 9, 10, 99, 100, 65535, 65536, 65537, 1000000, 1 << 32, 1<<32 + 1,
	1844674407370955161, 1844674407370955162, 1<<63 - 1, 1 << 63, 1<<63 + 1,
	18446744073709551609, 18446744073709551610, 1<<64 - 2, 1<<64 - 1,
}

// c10JunkValues: header values a peer (or a middlebox) may put on the wire.
func c10JunkValues() []string {
	out := []string{
		"", "auto", "Auto", "AUTO", "auto ", " auto", "aut", "autoo", "auto0", "0auto", "a",
		"+1", "-1", "-0", "+0", "--1", " 1", "1 ", "\t1", "1\t", " 65536 ", "1 2", "0x10", "0X10", "0b1", "0o7",
		"1e6", "1E6", "1_000", "_1", "1_", "1.5", "1.0", ".5", "1,000", "١٢٣", "１２３", "\x00", "1\x00", "\x001",
		"12a", "a12", "1a2", "NaN", "inf", "true", "65536B", "65536 Bps", "1k", "1M", "०", "\xff", "1\xff", "\x80\x81",
		"00", "000", "00065536", "0000000000000000000000000000065537", "01", "000000000000000000000000000000",
		"18446744073709551616", "18446744073709551617", "18446744073709551620", "18446744073709551625",
		"1844674407370955161", "1844674407370955162", "18446744073709551615", "18446744073709551614",
		"018446744073709551615", "018446744073709551616", "0018446744073709551616",
		"99999999999999999999", "100000000000000000000", "184467440737095516150", "184467440737095516160",
		"99999999999999999999x", "x99999999999999999999", "18446744073709551616 ", "18446744073709551616a",
		"1844674407370955161x", "18446744073709551615x", "-18446744073709551616", "+18446744073709551615",
		strings.Repeat("9", 40), strings.Repeat("9", 200), strings.Repeat("0", 200) + "7", strings.Repeat("1", 19), strings.Repeat("1", 20), strings.Repeat("1", 21),
		"9223372036854775807", "9223372036854775808", "-9223372036854775808",
	}
	for d := 0; d <= 9; d++ {
		out = append(out, "1844674407370955161"+strconv.Itoa(d), "1844674407370955162"+strconv.Itoa(d))
	}
	return out
}

func c10HexVal(s string) string { return vh.Hex([]byte(s)) }

func c10RandomValue(r *vh.RNG) string {
	switch r.Intn(8) {
	case 0: // canonical decimal of a random uint64 of random magnitude
		return strconv.FormatUint(r.U64()>>uint(r.Intn(64)), 10)
	case 1: // boundary
		return strconv.FormatUint(c10Boundaries[r.Intn(len(c10Boundaries))], 10)
	case 2: // random digit string, 1..26 digits
		n := r.Range(1, 26)
		b := make([]byte, n)
		for i := range b {
			b[i] = byte('0' + r.Intn(10))
		}
		return string(b)
	case 3: // digit string with one byte replaced
		b := []byte(strconv.FormatUint(r.U64()>>uint(r.Intn(64)), 10))
		if r.Bool() {
			b = append(b, []byte(strconv.FormatUint(r.U64(), 10))...)
		}
		repl := []byte(" +-_.aAxe\t\x00\xff,/:")
		b[r.Intn(len(b))] = repl[r.Intn(len(repl))]
		return string(b)
	case 4: // near 2^64
		x := new(big.Int).SetUint64(1<<64 - 1)
		x.Add(x, big.NewInt(int64(r.Range(-12, 12))))
		return x.String()
	case 5: // padded / prefixed
		pre := []string{" ", "  ", "\t", "0", "00", "+", "-", ""}
		suf := []string{" ", "\t", "\r", "\n", ";", "", ""}
		return pre[r.Intn(len(pre))] + strconv.FormatUint(c10Boundaries[r.Intn(len(c10Boundaries))], 10) + suf[r.Intn(len(suf))]
	case 6:
		return string(r.Bytes(r.Range(0, 6)))
	default:
		j := c10JunkValues()
		return j[r.Intn(len(j))]
	}
}

func (c *rateCodec) Gen(r *vh.RNG, n int, emit func(op string, tags ...string)) {
	// fixed part: every boundary and every junk value through every entry point
	for _, v := range c10Boundaries {
		emit(fmt.Sprintf("reqfmt %d", v), "fmt")
		emit(fmt.Sprintf("respfmt 0 %d", v), "fmt")
		emit(fmt.Sprintf("respfmt 1 %d", v), "fmt-auto")
		s := c10HexVal(strconv.FormatUint(v, 10))
		emit("pu "+s, "boundary")
		emit("reqparse "+s, "boundary")
		emit("respparse "+s, "boundary")
	}
	emit("reqparse .", "missing")
	emit("respparse .", "missing")
	for _, j := range c10JunkValues() {
		s := c10HexVal(j)
		emit("pu "+s, "junk")
		emit("reqparse "+s, "junk")
		emit("respparse "+s, "junk")
		emit("reqparse "+s+","+c10HexVal("65536"), "multi")
		emit("respparse "+c10HexVal("65536")+","+s, "multi")
	}
	emit("respparse "+c10HexVal("auto")+","+c10HexVal("5"), "multi")
	emit("respparse "+c10HexVal("5")+","+c10HexVal("auto"), "multi")
	for emitted := 0; emitted < n; emitted++ {
		switch r.Intn(10) {
		case 0:
			emit(fmt.Sprintf("reqfmt %d", r.U64()>>uint(r.Intn(64))), "fmt")
		case 1:
			emit(fmt.Sprintf("respfmt %d %d", r.Intn(2), r.U64()>>uint(r.Intn(64))), "fmt")
		case 2, 3:
			emit("pu "+c10HexVal(c10RandomValue(r)), "rand")
		case 4, 5, 6:
			vs := c10HexVal(c10RandomValue(r))
			if r.Chance(1, 6) {
				vs += "," + c10HexVal(c10RandomValue(r))
			}
			emit("reqparse "+vs, "rand")
		default:
			vs := c10HexVal(c10RandomValue(r))
			if r.Chance(1, 6) {
				vs += "," + c10HexVal(c10RandomValue(r))
			}
			if r.Chance(1, 10) {
				vs = c10HexVal("auto")
			}
			emit("respparse "+vs, "rand")
		}
	}
}

// c10AuthRequestFromHeader calls protocol.AuthRequestFromHeader through reflection and keeps its FIRST result, so
// that this binary (shared by every core property) still builds when the function grows a second result (an error):
// a changed signature must show up as a behavioural difference in the streams, not as a build failure of all of them.
func c10AuthRequestFromHeader(h http.Header) protocol.AuthRequest {
	out := reflect.ValueOf(protocol.AuthRequestFromHeader).Call([]reflect.Value{reflect.ValueOf(h)})
	if len(out) > 0 {
		if r, ok := out[0].Interface().(protocol.AuthRequest); ok {
			return r
		}
	}
	return protocol.AuthRequest{}
}
