//go:build verif

package main

// C01 "no proxying before authentication on the same connection" and
// C02 "unauthenticated peers see only the masquerade web server".
//
//	component auth : one HISTORY per op line (1..3 connections to one real server: auth requests with
//	                 accepted / rejected / blocking credentials, near-miss and plain HTTP/3 requests, raw
//	                 0x401 streams, other raw streams, UDPMessage datagrams, closes).  Out = what each
//	                 client event observed + the per-connection projection of the effect log of the fakes.
//	                 `hydrv auth` replays the history on Hy.Model.Auth.step and must print the same line.
//	component masq : one REQUEST per op line (stateful; `reset <cfg>` starts a fresh server).  Out = the whole
//	                 HTTP/3 response.  `hydrv masq` computes Hy.Model.Masq.serve on the (Method, Host, URL.Path)
//	                 the server saw, with the masquerade handler's own answer (from an httptest recorder) as
//	                 the model's `masq r` parameter.
//
// Model-free oracles (evaluated on the implementation alone).  O1-O4 are C01's clauses and are evaluated by both
// components; O5/O6 are C02's clauses and are evaluated by the `masq` component only (the `auth` component neither
// reports them nor compares what a non-233 response contains or which requests reach the authenticator: on a tree
// where only C02 fails, C01 must stay silent):
//
//	O1  no dialTCP / dialUDP / relay / udpWrite / tcpReq / udpReq effect of connection c before the fake
//	    authenticator returned ok for c
//	O2  the authenticator is never called for c once it returned ok for c
//	O3  a request handled as connection c was sent on connection c (attribution by the fakes)
//	O4  a 0x401 stream / datagram on a connection without an accepted auth draws no reply bytes
//	O5  every request that is not an accepted auth request gets exactly the response the masquerade handler
//	    alone gives (status, headers minus transport-added ones, body), never 233, no Hysteria-* header
//	O6  status 233 only for POST hysteria /auth with an accepted (now or earlier) authentication on c

import (
	"bytes"
	"fmt"
	"net/http"
	"net/http/httptest"
	"net/url"
	"runtime"
	"sort"
	"strconv"
	"strings"

	"github.com/apernet/hysteria/core/v2/internal/protocol"
	vh "github.com/apernet/hysteria/core/v2/verifhlib"
)

func init() {
	vh.Register("auth", func() vh.Component { return &authComp{} })
	vh.Register("masq", func() vh.Component { return &masqComp{} })
	vh.RegisterConsts(func() map[string]any {
		m := protocol.VerifConstsC01()
		m["MethodPost"] = http.MethodPost
		return m
	})
}

// ---------------------------------------------------------------- request tables (append-only: corpus files index them)

var (
	awMethods     = []string{"POST", "GET", "PUT", "post", "DELETE"}
	awAuthorities = []string{"hysteria", "Hysteria", "hysteria:443", "hysteria.", "other.example", "HYSTERIA", "hysteria.example", "xhysteria"}
	awPaths       = []string{"/auth", "/auth/", "/AUTH", "//auth", "/auth?x=1", "/", "/%61uth", "/auth%2f", "/authx", "/index.html", "/auth?", "/auth/x"}
)

type awReqSpec struct {
	m, a, p int
	hflags  int // 1: Hysteria-Auth, 2: Hysteria-CC-RX, 4: Hysteria-Padding
	cred    string
	big     int // index into awBigHeaders: a LARGE extra header set (0 = none); optional field "b<k>"
	odd     int // index into awOddHeaders: odd values of the Hysteria-* request headers (0 = none); optional field "o<k>"
}

// awOddHeaders: odd shapes of the three Hysteria-* request headers (append-only: corpus files index it).  A non-nil
// list REPLACES what hflags would send for that header (several entries = the header repeated; {} = header absent).
// None of this may change how a request that is not an accepted authentication is answered: the server must not
// parse-and-complain, it hands the request to the masquerade handler (Hysteria-CC-RX is parsed leniently: junk = 0).
var awOddHeaders = []struct {
	auth, ccrx, pad []string
}{
	{},
	{ccrx: []string{"10 mbps"}},                        // 1 non-numeric
	{ccrx: []string{"-1"}},                             // 2 negative
	{ccrx: []string{"0x10"}},                           // 3 hex
	{ccrx: []string{"auto"}},                           // 4 the RESPONSE's special value
	{ccrx: []string{"18446744073709551616"}},           // 5 2^64: overflow
	{ccrx: []string{""}},                               // 6 present but empty
	{ccrx: []string{"1.5e6"}},                          // 7 float
	{ccrx: []string{"100", "abc"}},                     // 8 repeated: good then junk
	{ccrx: []string{"abc", "100"}},                     // 9 repeated: junk then good
	{ccrx: []string{"99999999999999999999999999"}},     // 10 far beyond uint64
	{ccrx: []string{"+5"}},                             // 11 explicit sign
	{ccrx: []string{"18446744073709551615"}},           // 12 max uint64 (valid)
	{pad: []string{""}},                                // 13 empty padding
	{pad: []string{strings.Repeat("Z", 8000)}},         // 14 huge padding
	{pad: []string{"a", "b", "c"}},                     // 15 repeated padding
	{pad: []string{"!#$%&'*+-.^_`|~ ;,=()"}},           // 16 padding outside the alphabet the client draws from
	{auth: []string{"bad", "ok1"}},                     // 17 repeated credentials, first rejected
	{auth: []string{strings.Repeat("x", 5000)}},        // 18 huge credentials
	{auth: []string{""}, ccrx: []string{"NaN"}},        // 19 empty credentials + junk rx
	{auth: []string{"bad"}, ccrx: []string{"12three"}}, // 20 digits then junk (ASCII only: the driver decodes header text bytewise)
	{ccrx: []string{"1_000"}},                          // 21 digit separators
	{ccrx: []string{"  "}},                             // 22 blanks only
}

// awBigHeaders: extra request headers far larger than an auth request needs, all well below net/http's default
// limit of 1 MiB per header section (append-only: corpus files index it): {count, bytes per value, name}
var awBigHeaders = []struct {
	n, size int
	name    string
}{
	{0, 0, ""},
	{1, 3 * 1024, "cookie"},
	{1, 5000, "x-big"},
	{1, 20 * 1024, "cookie"},
	{1, 100 * 1024, "x-big"},
	{40, 120, "x-small"},  // many small headers summing past 4 KiB
	{160, 110, "x-small"}, // ... and past 16 KiB
	{1, 4200, "x-big"},
	{1, 6 * 1024, "cookie"},
}

func (s awReqSpec) String() string {
	out := fmt.Sprintf("%d/%d/%d/%d/%s", s.m, s.a, s.p, s.hflags, awTok(s.cred))
	if s.big != 0 {
		out += fmt.Sprintf("/b%d", s.big)
	}
	if s.odd != 0 {
		out += fmt.Sprintf("/o%d", s.odd)
	}
	return out
}

func awParseReqSpec(f string) (awReqSpec, bool) {
	p := strings.Split(f, "/")
	if len(p) < 5 || len(p) > 7 {
		return awReqSpec{}, false
	}
	var s awReqSpec
	var err error
	for _, x := range p[5:] {
		switch {
		case len(x) >= 2 && x[0] == 'b' && s.big == 0:
			if s.big, err = strconv.Atoi(x[1:]); err != nil || s.big < 1 || s.big >= len(awBigHeaders) {
				return s, false
			}
		case len(x) >= 2 && x[0] == 'o' && s.odd == 0:
			if s.odd, err = strconv.Atoi(x[1:]); err != nil || s.odd < 1 || s.odd >= len(awOddHeaders) {
				return s, false
			}
		default:
			return s, false
		}
	}
	if s.m, err = strconv.Atoi(p[0]); err != nil || s.m < 0 || s.m >= len(awMethods) {
		return s, false
	}
	if s.a, err = strconv.Atoi(p[1]); err != nil || s.a < 0 || s.a >= len(awAuthorities) {
		return s, false
	}
	if s.p, err = strconv.Atoi(p[2]); err != nil || s.p < 0 || s.p >= len(awPaths) {
		return s, false
	}
	if s.hflags, err = strconv.Atoi(p[3]); err != nil || s.hflags < 0 || s.hflags > 7 {
		return s, false
	}
	s.cred = p[4]
	if s.cred == "-" {
		s.cred = ""
	}
	return s, true
}

func awAuthSpec(cred string) awReqSpec { return awReqSpec{m: 0, a: 0, p: 0, hflags: 7, cred: cred} }

func (s awReqSpec) headers() [][2]string {
	var h [][2]string
	o := awOddHeaders[s.odd]
	put := func(name string, odd []string, flag int, dflt string) {
		if odd != nil {
			for _, v := range odd {
				h = append(h, [2]string{name, v})
			}
		} else if s.hflags&flag != 0 {
			h = append(h, [2]string{name, dflt})
		}
	}
	put("hysteria-auth", o.auth, 1, s.cred)
	put("hysteria-cc-rx", o.ccrx, 2, "0")
	put("hysteria-padding", o.pad, 4, strings.Repeat("p", 300))
	if b := awBigHeaders[s.big]; b.n > 0 {
		for i := 0; i < b.n; i++ {
			name := b.name
			if b.n > 1 {
				name = fmt.Sprintf("%s-%d", b.name, i)
			}
			v := make([]byte, b.size)
			for j := range v {
				v[j] = "abcdefghijklmnopqrstuvwxyz0123456789"[(i*7+j*13)%36]
			}
			h = append(h, [2]string{name, string(v)})
		}
	}
	return h
}

// what the authenticator is handed for this request: the Hysteria-Auth header (or "")
func (s awReqSpec) authString() string {
	if o := awOddHeaders[s.odd]; o.auth != nil {
		if len(o.auth) == 0 {
			return ""
		}
		return o.auth[0] // http.Header.Get: the first value
	}
	if s.hflags&1 != 0 {
		return s.cred
	}
	return ""
}

// triple: (Method, Host, URL.Path, RawQuery) as net/http + http3 parse the request (assumed; when the
// masquerade handler saw the request, what IT saw is used instead).
func (s awReqSpec) triple() awSeen {
	t := awSeen{Method: awMethods[s.m], Host: awAuthorities[s.a]}
	if u, err := url.ParseRequestURI(awPaths[s.p]); err == nil {
		t.Path, t.RawQuery = u.Path, u.RawQuery
	} else {
		t.Path = awPaths[s.p]
	}
	return t
}

// ---------------------------------------------------------------- the oracle response: the handler ALONE

type awCanonResp struct {
	status int
	hdrs   []string // sorted "name=value", lower-case names, transport-added ones removed
	body   []byte
}

var awTransportHeaders = map[string]bool{"date": true, "content-length": true}

func awCanon(status int, h http.Header, body []byte) awCanonResp {
	c := awCanonResp{status: status, body: body}
	for k, vs := range h {
		lk := strings.ToLower(k)
		if awTransportHeaders[lk] {
			continue
		}
		for _, v := range vs {
			c.hdrs = append(c.hdrs, lk+"="+v)
		}
	}
	sort.Strings(c.hdrs)
	return c
}

func (c awCanonResp) String() string {
	h := "-"
	if len(c.hdrs) > 0 {
		h = vh.Hex([]byte(strings.Join(c.hdrs, "\n")))
	}
	return fmt.Sprintf("%d %s %s", c.status, h, vh.Hex(c.body))
}

func (c awCanonResp) equal(d awCanonResp) bool {
	return c.status == d.status && strings.Join(c.hdrs, "\n") == strings.Join(d.hdrs, "\n") && bytes.Equal(c.body, d.body)
}

func (c awCanonResp) hysteriaHeaders() []string {
	var out []string
	for _, h := range c.hdrs {
		if strings.HasPrefix(h, "hysteria-") {
			out = append(out, h)
		}
	}
	return out
}

// awHandlerAlone mounts the configured masquerade handler (default: http.NotFound) on a recorder
// and gives it the request as the server-side handler saw it.
func awHandlerAlone(masqKind int, seen awSeen, reqHeaders [][2]string) awCanonResp {
	rec := httptest.NewRecorder()
	u := &url.URL{Scheme: "https", Host: seen.Host, Path: seen.Path, RawQuery: seen.RawQuery}
	req := &http.Request{Method: seen.Method, URL: u, Host: seen.Host, Header: http.Header{}, Proto: "HTTP/3.0", ProtoMajor: 3,
		RequestURI: u.RequestURI()}
	for _, h := range reqHeaders {
		req.Header.Add(h[0], h[1])
	}
	if masqKind == 2 {
		awCustomMasq(rec, req)
	} else {
		http.NotFound(rec, req)
	}
	return awCanon(rec.Code, rec.Header(), rec.Body.Bytes())
}

// ---------------------------------------------------------------- configuration token

func awParseCfg(s string) (awCfg, bool) {
	// e.g. u1k0m2t1e1a0r0
	if len(s) != 14 {
		return awCfg{}, false
	}
	get := func(i int, key byte, max int) (int, bool) {
		if s[i] != key || s[i+1] < '0' || int(s[i+1]-'0') > max {
			return 0, false
		}
		return int(s[i+1] - '0'), true
	}
	var c awCfg
	u, ok1 := get(0, 'u', 1)
	k, ok2 := get(2, 'k', 1)
	m, ok3 := get(4, 'm', 2)
	t, ok4 := get(6, 't', 1)
	e, ok5 := get(8, 'e', 1)
	a, ok6 := get(10, 'a', 1)
	r, ok7 := get(12, 'r', 1)
	if !(ok1 && ok2 && ok3 && ok4 && ok5 && ok6 && ok7) {
		return c, false
	}
	c.udp, c.hook, c.masq, c.tl, c.noEvent, c.rxAuto = u == 1, k == 1, m, t == 1, e == 0, a == 1
	if r == 1 {
		c.maxRx = 1000000
	}
	return c, true
}

func awGenCfg(r *vh.RNG) string {
	b := func(num, den int) int {
		if r.Chance(num, den) {
			return 1
		}
		return 0
	}
	return fmt.Sprintf("u%dk%dm%dt%de%da%dr%d", b(3, 4), b(1, 4), r.Intn(3), b(3, 4), b(7, 8), b(1, 5), b(1, 3))
}

// ---------------------------------------------------------------- running events against the world

type awRunner struct {
	w        *awWorld
	cfg      awCfg
	evIdx    int
	dgAddrs  map[int][]string // per connection: addresses of datagrams sent (to settle the UDP side)
	dgOK     map[int]int      // per connection: datagrams sent to addresses that answer
	oracle   []string
	baseGo   int
	lastSeen map[int]int  // per connection: how many masq-handler sightings were consumed
	stuck    map[int]bool // per connection: an expected effect did not come within the bounded wait
	c02      bool         // evaluate C02's clauses O5/O6 (component masq)
}

func awNewRunner(cfg awCfg) (*awRunner, error) {
	base := runtime.NumGoroutine()
	w, err := awNewWorld(cfg)
	if err != nil {
		return nil, err
	}
	return &awRunner{w: w, cfg: cfg, dgAddrs: map[int][]string{}, dgOK: map[int]int{}, baseGo: base, lastSeen: map[int]int{}, stuck: map[int]bool{}}, nil
}

func (rn *awRunner) fail(format string, a ...any) {
	rn.oracle = append(rn.oracle, fmt.Sprintf(format, a...))
}

func (rn *awRunner) acceptedSoFar(c int) bool {
	rn.w.mu.Lock()
	defer rn.w.mu.Unlock()
	return rn.w.countLocked(c, "verdict(1)") > 0
}

func (rn *awRunner) authCalls(c int) int {
	rn.w.mu.Lock()
	defer rn.w.mu.Unlock()
	return rn.w.countLocked(c, "authCall(")
}

// settleUDP waits (bounded) until every datagram sent so far on c has been consumed by the server's
// UDP session manager; called only when the client has SEEN "Hysteria-UDP: true" on c.
func (rn *awRunner) settleUDP(cl *awClient) {
	c := cl.idx
	if rn.stuck[c] {
		return // a bounded wait already expired on this connection: do not pay for it again
	}
	addrs := rn.dgAddrs[c]
	ok1 := rn.w.waitFor(awPositive, func() bool {
		for _, a := range addrs {
			found := false
			pre := "dialUDP(" + awTok(a) + ")"
			for _, e := range rn.w.log {
				if e.conn == c && e.s == pre {
					found = true
					break
				}
			}
			if !found {
				return false
			}
		}
		return true
	})
	if !ok1 || !cl.waitReplies(rn.dgOK[c], awPositive) {
		rn.stuck[c] = true
	}
}

type awReqResult struct {
	resp     awResp
	canon    awCanonResp
	alone    awCanonResp
	seen     awSeen
	sawMasq  bool // the masquerade handler logged this request (only when a MasqHandler is configured)
	is233    bool
	called   bool // the authenticator was called during this request
	accepted bool // ... and returned ok
}

// verdictsSince lists the verdicts of the authenticator calls on c after the first `calls` ones.
func (rn *awRunner) verdictsSince(c, calls int) []bool {
	rn.w.mu.Lock()
	defer rn.w.mu.Unlock()
	n := 0
	var out []bool
	for _, e := range rn.w.log {
		if e.conn != c {
			continue
		}
		if strings.HasPrefix(e.s, "authCall(") {
			n++
		} else if strings.HasPrefix(e.s, "verdict(") && n > calls {
			out = append(out, e.s == "verdict(1)")
		}
	}
	return out
}

// classify a completed request: which triple the server saw, what the handler alone answers, oracles O5/O6.
// called/accepted: the authenticator was called for THIS request / and returned ok; acceptedBefore: it had
// returned ok for this connection before this request was handled.
func (rn *awRunner) finishRequest(cl *awClient, spec awReqSpec, resp awResp, called, accepted, acceptedBefore bool) awReqResult {
	c := cl.idx
	res := awReqResult{resp: resp, called: called, accepted: accepted}
	res.seen = spec.triple()
	rn.w.mu.Lock()
	if sl := rn.w.seen[c]; len(sl) > rn.lastSeen[c] && !(resp.status == 233 && resp.err == "") {
		res.seen = sl[rn.lastSeen[c]]
		res.sawMasq = true
		rn.lastSeen[c]++
	}
	rn.w.mu.Unlock()
	res.canon = awCanon(resp.status, resp.header, resp.body)
	res.alone = awHandlerAlone(rn.cfg.masq, res.seen, spec.headers())
	res.is233 = resp.status == 233
	// literal shape from PROTOCOL.md (not the package constants)
	shape := res.seen.Method == "POST" && res.seen.Host == "hysteria" && res.seen.Path == "/auth"
	acceptedReq := shape && (acceptedBefore || res.accepted)
	desc := fmt.Sprintf("%s %s %s on c%d", res.seen.Method, res.seen.Host, awPaths[spec.p], c)
	if res.is233 && resp.err == "" {
		cl.mu.Lock()
		cl.saw233 = true
		if strings.EqualFold(resp.header.Get("hysteria-udp"), "true") {
			cl.sawUDP = true
		}
		cl.mu.Unlock()
	}
	if resp.err != "" || !rn.c02 {
		return res
	}
	if res.called && !shape {
		rn.fail("O6: the authenticator was called for a request that is not POST hysteria /auth: %s", desc)
	}
	if !acceptedReq {
		if res.is233 {
			rn.fail("O5: status 233 for a request that is not an accepted authentication: %s", desc)
		}
		if hy := res.canon.hysteriaHeaders(); len(hy) > 0 && len(res.alone.hysteriaHeaders()) == 0 {
			rn.fail("O5: Hysteria-* response header %q on a request that is not an accepted authentication: %s", hy[0], desc)
		}
		if !res.canon.equal(res.alone) {
			rn.fail("O5: response differs from the masquerade handler alone for %s: got %s want %s", desc, res.canon, res.alone)
		}
	} else {
		if !res.is233 {
			rn.fail("O6: accepted authentication request answered %d instead of 233: %s", resp.status, desc)
		}
	}
	return res
}

func (rn *awRunner) doRequest(cl *awClient, spec awReqSpec) awReqResult {
	before := rn.authCalls(cl.idx)
	accBefore := rn.acceptedSoFar(cl.idx)
	resp := cl.h3(awMethods[spec.m], awAuthorities[spec.a], awPaths[spec.p], spec.headers())
	vs := rn.verdictsSince(cl.idx, before)
	res := rn.finishRequest(cl, spec, resp, len(vs) > 0, len(vs) > 0 && vs[0], accBefore)
	if res.is233 && cl.sawUDP {
		rn.settleUDP(cl)
	}
	return res
}

// outcome token of a request for the auth component: "233" or "other" (WHAT a non-233 response contains is C02's business)
func (res awReqResult) authOutcome() string {
	if res.resp.err != "" {
		return "err:" + awTok(res.resp.err)
	}
	if res.is233 {
		return "233"
	}
	return "other"
}

// authModelEvent: how a completed request is handed to the C01 model.  Whether the server TREATED it as an
// authentication request is an observation (the authenticator was consulted for it, or it was answered 233), not
// something C01 derives from the request: which requests are auth-shaped is C02's clause.
func (res awReqResult) authModelEvent(c int, spec awReqSpec) string {
	return fmt.Sprintf("H%d/%d/%s", c, awB(res.called || res.is233), awTok(spec.authString()))
}

func awReqAddr(c, k int, kind string) string {
	if kind == "bad" {
		return ""
	}
	return fmt.Sprintf("c%dx%d.%s.test:80", c, k, kind)
}

// checkSilent: O4, evaluated right after a stream outcome on connection c
func (rn *awRunner) checkSilent(c int, accepted bool, outcome, what string) {
	if accepted {
		return
	}
	if strings.HasPrefix(outcome, "resp:") || strings.HasPrefix(outcome, "garbage:") {
		rn.fail("O4: %s on connection %d, which has no accepted authentication, drew reply bytes: %s", what, c, outcome)
	}
}

// finish closes everything, makes the log final and evaluates O1..O4 on it; returns per-connection projections.
func (rn *awRunner) finish() (proj map[int][]string, dg map[int][3]int) {
	// end of the history: every blocked authenticator is released and answered, then every
	// connection is closed (in connection order), then the server
	var ids []int
	for c := range rn.w.clients {
		ids = append(ids, c)
	}
	sort.Ints(ids)
	for _, c := range ids {
		cl := rn.w.clients[c]
		cl.mu.Lock()
		isClosed := cl.closed
		cl.mu.Unlock()
		if !isClosed {
			rn.authEvent(cl, 'X', c, nil, -1)
		}
	}
	rn.w.shutdown(rn.baseGo)
	rn.w.mu.Lock()
	defer rn.w.mu.Unlock()
	proj = map[int][]string{}
	accepted := map[int]bool{}
	for _, e := range rn.w.log {
		if e.s != "masq" { // which requests go to the masquerade handler is C02's clause
			proj[e.conn] = append(proj[e.conn], e.s)
		}
		switch {
		case e.s == "verdict(1)":
			accepted[e.conn] = true
		case strings.HasPrefix(e.s, "authCall("):
			if accepted[e.conn] {
				rn.fail("O2: the authenticator was called again on connection %d after it had accepted it", e.conn)
			}
		case strings.HasPrefix(e.s, "dialTCP("), strings.HasPrefix(e.s, "dialUDP("), strings.HasPrefix(e.s, "relay("),
			strings.HasPrefix(e.s, "udpWrite("), strings.HasPrefix(e.s, "tcpReq("), strings.HasPrefix(e.s, "udpReq("),
			e.s == "connect", e.s == "online+":
			if !accepted[e.conn] {
				rn.fail("O1: %s for connection %d before any accepted authentication on that connection", e.s, e.conn)
			}
		}
	}
	rn.oracle = append(rn.oracle, rn.w.oracle...)
	dg = map[int][3]int{}
	for c, cl := range rn.w.clients {
		cl.mu.Lock()
		dg[c] = [3]int{cl.sent, cl.replies, cl.badDg}
		if !accepted[c] && cl.replies+cl.badDg > 0 {
			rn.fail("O4: connection %d, which has no accepted authentication, received %d datagrams from the server", c, cl.replies+cl.badDg)
		}
		cl.mu.Unlock()
	}
	return proj, dg
}

// ---------------------------------------------------------------- component auth

type authComp struct{}

// event tokens of a history:
//
//	A<c>/<cred>          auth request (POST hysteria /auth, all three headers); cred "ok…" is accepted, anything else rejected
//	B<c>/<cred>          the same with an authenticator that BLOCKS until released (R or the end of the history)
//	Q<c>/<cred>          a second auth request while the first is blocked (answered after the release)
//	R<c>                 release the blocked authenticator of c and wait for the answer(s)
//	H<c>/<m>/<a>/<p>/<hflags>/<cred>   any other HTTP/3 request (indices into the tables above)
//	S<c>/<kind>/<pad>/<n>  raw stream: 0x401, TCPRequest (address c<c>x<i>.<kind>.test:80, padding pad), n payload bytes
//	G<c>/<ft>            raw stream whose first varint is ft (≠ 0x401)
//	D<c>/<kind>/<n>      UDPMessage datagram with n data bytes
//	X<c>                 close the connection
func (authComp) Gen(r *vh.RNG, n int, emit func(op string, tags ...string)) {
	maxEv := 12
	if n >= 1000 { // thorough tier
		maxEv = 40
	}
	for i := 0; i < n; i++ {
		hr := r.Fork()
		op, tags := awGenHistory(hr, maxEv)
		emit(op, tags...)
	}
}

var awCreds = []string{"ok1", "ok2", "bad", "", "okx", "no-ok"}

func awGenHistory(r *vh.RNG, maxEv int) (string, []string) {
	cfg := awGenCfg(r)
	nconn := 1 + r.Intn(3)
	if r.Chance(1, 3) {
		nconn = 2
	}
	var evs []string
	tags := []string{fmt.Sprintf("conns:%d", nconn)}
	pendingB := map[int]bool{}
	queued := map[int]bool{}
	closed := map[int]bool{}
	nev := r.Range(3, maxEv)
	streamEv := func(c int) string {
		kind := []string{"ok", "ok", "ok", "fail", "hook", "bad"}[r.Intn(6)]
		pad := []int{1, 16, 17, 63, 64, 65, 200, 300}[r.Intn(8)]
		return fmt.Sprintf("S%d/%s/%d/%d", c, kind, pad, []int{2, 3, 17, 100, 1000}[r.Intn(5)])
	}
	dgEv := func(c int) string {
		kind := "ok"
		if r.Chance(1, 6) {
			kind = "fail"
		}
		return fmt.Sprintf("D%d/%s/%d", c, kind, []int{0, 1, 40, 900}[r.Intn(4)])
	}
	// opening template: the scenarios the property is about
	switch r.Intn(8) {
	case 0: // proxy attempts before anything else
		evs = append(evs, streamEv(0), dgEv(0))
		tags = append(tags, "tpl:preauth")
	case 1: // rejected, then proxy attempts
		evs = append(evs, "A0/bad", streamEv(0), dgEv(0))
		tags = append(tags, "tpl:rejected")
	case 2: // verdict pending while streams and datagrams arrive
		evs = append(evs, "B0/"+[]string{"ok1", "bad"}[r.Intn(2)], streamEv(0), dgEv(0))
		pendingB[0] = true
		tags = append(tags, "tpl:pending")
	case 3: // one connection authenticated, the OTHER one tries to proxy
		if nconn < 2 {
			nconn = 2
		}
		evs = append(evs, "A0/ok1", streamEv(1), dgEv(1), streamEv(0))
		tags = append(tags, "tpl:other-conn")
	case 4: // authenticated, then rejected / repeated attempts, then proxy
		evs = append(evs, "A0/ok1", "A0/"+awCreds[r.Intn(len(awCreds))], streamEv(0), dgEv(0))
		tags = append(tags, "tpl:reauth")
	case 5: // datagrams queued before auth are consumed after it
		evs = append(evs, dgEv(0), dgEv(0), "A0/ok2", dgEv(0))
		tags = append(tags, "tpl:queued-dgram")
	default:
		tags = append(tags, "tpl:none")
	}
	for guard := 0; len(evs) < nev && guard < 1000; guard++ {
		if len(closed) == nconn {
			break
		}
		c := r.Intn(nconn)
		if closed[c] {
			continue
		}
		var ev string
		switch k := r.Intn(20); {
		case k < 4:
			ev = fmt.Sprintf("A%d/%s", c, awTok(awCreds[r.Intn(len(awCreds))]))
			if pendingB[c] {
				ev = fmt.Sprintf("R%d", c)
				pendingB[c], queued[c] = false, false
			}
		case k < 6:
			if pendingB[c] {
				if !queued[c] && r.Bool() {
					ev = fmt.Sprintf("Q%d/%s", c, awTok(awCreds[r.Intn(len(awCreds))]))
					queued[c] = true
				} else {
					ev = fmt.Sprintf("R%d", c)
					pendingB[c], queued[c] = false, false
				}
			} else {
				ev = fmt.Sprintf("B%d/%s", c, awTok(awCreds[r.Intn(len(awCreds))]))
				pendingB[c] = true
			}
		case k < 8:
			s := awReqSpec{m: r.Intn(len(awMethods)), a: r.Intn(len(awAuthorities)), p: r.Intn(len(awPaths)), hflags: r.Intn(8), cred: awCreds[r.Intn(3)]}
			if r.Bool() { // near miss: exactly one coordinate off
				s = awReqSpec{m: 0, a: 0, p: 0, hflags: 7, cred: awCreds[r.Intn(3)]}
				switch r.Intn(3) {
				case 0:
					s.m = 1 + r.Intn(len(awMethods)-1)
				case 1:
					s.a = 1 + r.Intn(len(awAuthorities)-1)
				default:
					s.p = 1 + r.Intn(len(awPaths)-1)
				}
			}
			if pendingB[c] {
				// a request the server takes for an auth request would wait on authMutex behind the blocked one (Q covers
				// that); which requests those are is C02's clause, so stay far away from the shape here
				s = awReqSpec{m: 1 + r.Intn(2), a: 4, p: []int{5, 9}[r.Intn(2)], hflags: r.Intn(8), cred: awCreds[r.Intn(3)]}
			}
			ev = fmt.Sprintf("H%d/%s", c, s)
		case k < 13:
			ev = streamEv(c)
		case k < 14:
			ev = fmt.Sprintf("G%d/%d", c, []int{0x402, 0x400, 0x21, 0x40, 0x3ff, 0xffff}[r.Intn(6)])
		case k < 19:
			ev = dgEv(c)
		default:
			if len(evs) < 3 {
				continue
			}
			ev = fmt.Sprintf("X%d", c)
			closed[c] = true
			delete(pendingB, c)
			delete(queued, c)
		}
		evs = append(evs, ev)
	}
	for _, e := range evs {
		tags = append(tags, "ev:"+e[:1])
	}
	return "hist " + cfg + " " + strings.Join(evs, " "), tags
}

func awSplitEv(ev string) (kind byte, c int, rest []string, ok bool) {
	if len(ev) < 2 {
		return 0, 0, nil, false
	}
	parts := strings.Split(ev[1:], "/")
	c, err := strconv.Atoi(parts[0])
	if err != nil || c < 0 || c > 7 {
		return 0, 0, nil, false
	}
	return ev[0], c, parts[1:], true
}

func (authComp) Run(op string) vh.Result {
	f := strings.Fields(op)
	if len(f) < 2 || f[0] != "hist" {
		return vh.Result{Out: "bad-op"}
	}
	cfg, ok := awParseCfg(f[1])
	if !ok {
		return vh.Result{Out: "bad-op"}
	}
	rn, err := awNewRunner(cfg)
	if err != nil {
		return vh.Result{Out: "harness-error " + awTok(err.Error())}
	}
	var outs []string
	var mev []string // the events as handed to the model (with what the server saw / chose)
	nontrivial := false
	for i, ev := range f[2:] {
		rn.evIdx = i
		kind, c, rest, ok := awSplitEv(ev)
		if !ok {
			rn.finish()
			return vh.Result{Out: "bad-op"}
		}
		cl, err := rn.w.client(c)
		if err != nil {
			outs = append(outs, "dial:"+awErr(err))
			mev = append(mev, ev)
			continue
		}
		cl.mu.Lock()
		isClosed := cl.closed
		cl.mu.Unlock()
		if isClosed {
			outs = append(outs, "closed")
			mev = append(mev, fmt.Sprintf("C%d", c))
			continue
		}
		out, m := rn.authEvent(cl, kind, c, rest, i)
		if out == "bad-op" {
			rn.finish()
			return vh.Result{Out: "bad-op"}
		}
		outs = append(outs, out)
		mev = append(mev, m)
		if strings.Contains(out, "233") || strings.HasPrefix(out, "resp:") {
			nontrivial = true
		}
	}
	proj, dg := rn.finish()
	var cs []int
	for c := range rn.w.clients {
		cs = append(cs, c)
	}
	for c := range proj {
		if _, ok := rn.w.clients[c]; !ok {
			cs = append(cs, c)
		}
	}
	sort.Ints(cs)
	var sb strings.Builder
	// the harness's own verdict on the two trace properties the Lean monitors decide
	gate, reeval := 1, 1
	for _, o := range rn.oracle {
		if strings.HasPrefix(o, "O1:") || strings.HasPrefix(o, "O4:") {
			gate = 0
		}
		if strings.HasPrefix(o, "O2:") {
			reeval = 0
		}
	}
	fmt.Fprintf(&sb, "hist mon=%d%d ev=%s", gate, reeval, strings.Join(outs, ","))
	for _, c := range cs {
		fmt.Fprintf(&sb, " c%d=%s", c, strings.Join(proj[c], ";"))
		if _, ok := rn.w.clients[c]; ok {
			fmt.Fprintf(&sb, " dg%d=%d/%d/%d", c, dg[c][0], dg[c][1], dg[c][2])
		}
	}
	return vh.Result{Out: sb.String(), ModelOp: "hist " + f[1] + " " + strings.Join(mev, " "), NonTrivial: nontrivial, Oracle: rn.oracle}
}

// hexTriple renders what the server saw for the model: method, host, path as hex
func awHexTriple(s awSeen) string {
	return vh.Hex([]byte(s.Method)) + "/" + vh.Hex([]byte(s.Host)) + "/" + vh.Hex([]byte(s.Path))
}

func (rn *awRunner) authEvent(cl *awClient, kind byte, c int, rest []string, i int) (out, mev string) {
	credOf := func(s string) string {
		if s == "-" {
			return ""
		}
		return s
	}
	switch kind {
	case 'A', 'H':
		var spec awReqSpec
		if kind == 'A' {
			if len(rest) != 1 {
				return "bad-op", ""
			}
			spec = awAuthSpec(credOf(rest[0]))
		} else {
			var ok bool
			if spec, ok = awParseReqSpec(strings.Join(rest, "/")); !ok {
				return "bad-op", ""
			}
		}
		if cl.pending != nil && spec.triple().Method == "POST" && spec.triple().Host == "hysteria" && spec.triple().Path == "/auth" {
			// would block behind the pending request: release first (documented semantics of A/H while pending)
			o, m := rn.authEvent(cl, 'R', c, nil, i)
			o2, m2 := rn.authEvent(cl, kind, c, rest, i)
			return o + "+" + o2, m + "+" + m2
		}
		res := rn.doRequest(cl, spec)
		return res.authOutcome(), res.authModelEvent(c, spec)
	case 'B':
		if len(rest) != 1 {
			return "bad-op", ""
		}
		if cl.pending != nil {
			return "skipped", fmt.Sprintf("K%d", c)
		}
		spec := awAuthSpec(credOf(rest[0]) + "!")
		before := rn.authCalls(c)
		accBefore := rn.acceptedSoFar(c)
		ch := make(chan awResp, 1)
		go func() { ch <- cl.h3(awMethods[spec.m], awAuthorities[spec.a], awPaths[spec.p], spec.headers()) }()
		// wait until the authenticator is entered (blocked) or the response is there
		entered := make(chan struct{})
		go func() {
			rn.w.waitFor(awSafety, func() bool { return rn.w.entered[c] })
			close(entered)
		}()
		select {
		case resp := <-ch:
			vs := rn.verdictsSince(c, before)
			res := rn.finishRequest(cl, spec, resp, len(vs) > 0, len(vs) > 0 && vs[0], accBefore)
			if res.is233 && cl.sawUDP {
				rn.settleUDP(cl)
			}
			// let the watcher goroutine end
			rn.w.mu.Lock()
			rn.w.entered[c] = true
			rn.w.cond.Broadcast()
			rn.w.mu.Unlock()
			<-entered
			rn.w.mu.Lock()
			delete(rn.w.entered, c)
			rn.w.mu.Unlock()
			return res.authOutcome(), res.authModelEvent(c, spec)
		case <-entered:
			cl.pending = make(chan awResp, 1)
			pch := cl.pending
			go func() { pch <- <-ch }()
			cl.pendSpec, cl.pendBefore, cl.pendAcc = spec, before, accBefore
			return "pending", fmt.Sprintf("B%d/%s", c, awTok(spec.authString()))
		}
	case 'Q':
		if len(rest) != 1 {
			return "bad-op", ""
		}
		if cl.pending == nil || cl.queued != nil {
			return "skipped", fmt.Sprintf("K%d", c)
		}
		spec := awAuthSpec(strings.TrimSuffix(credOf(rest[0]), "!"))
		cl.queued = make(chan awResp, 1)
		qch := cl.queued
		cl.queuedSpec = spec
		go func() { qch <- cl.h3(awMethods[spec.m], awAuthorities[spec.a], awPaths[spec.p], spec.headers()) }()
		return "queued", fmt.Sprintf("Q%d/%s", c, awTok(spec.authString()))
	case 'R':
		if cl.pending == nil {
			return "none", fmt.Sprintf("N%d", c)
		}
		rn.w.release(c)
		resp := <-cl.pending
		cl.pending = nil
		var resp2 awResp
		hasQ := cl.queued != nil
		if hasQ {
			resp2 = <-cl.queued
			cl.queued = nil
		}
		// the blocked request commits (and unlocks) before the queued one is looked at
		vs := rn.verdictsSince(c, cl.pendBefore)
		res := rn.finishRequest(cl, cl.pendSpec, resp, len(vs) > 0, len(vs) > 0 && vs[0], cl.pendAcc)
		out = res.authOutcome()
		if hasQ {
			res2 := rn.finishRequest(cl, cl.queuedSpec, resp2, len(vs) > 1, len(vs) > 1 && vs[1], cl.pendAcc || (len(vs) > 0 && vs[0]))
			out += "+" + res2.authOutcome()
		}
		if cl.sawUDP {
			rn.settleUDP(cl)
		}
		return out, fmt.Sprintf("R%d", c)
	case 'S', 'G':
		accepted := rn.acceptedSoFar(c)
		var o string
		if kind == 'S' {
			if len(rest) != 3 {
				return "bad-op", ""
			}
			pad, err1 := strconv.Atoi(rest[1])
			n, err2 := strconv.Atoi(rest[2])
			if err1 != nil || err2 != nil || !(pad == 1 || (pad >= 16 && pad <= 4096)) || n < 2 || n > 65536 ||
				!(rest[0] == "ok" || rest[0] == "fail" || rest[0] == "hook" || rest[0] == "bad") {
				return "bad-op", ""
			}
			addr := awReqAddr(c, i, rest[0])
			o = cl.tcpStream(protocol.FrameTypeTCPRequest, addr, pad, awPayload(n), false)
			if strings.HasPrefix(o, "resp:") && rest[0] != "fail" {
				// the remote is closed by the server once the stream ended: wait for its byte counts
				want := "relay(" + awTok(addr) + ","
				if !rn.stuck[c] && !rn.w.waitFor(awPositive, func() bool { return rn.w.countLocked(c, want) > 0 }) {
					rn.stuck[c] = true
				}
			}
			mev = fmt.Sprintf("S%d/%s/%s/%d", c, rest[0], awTok(addr), n)
		} else {
			if len(rest) != 1 {
				return "bad-op", ""
			}
			ft, err := strconv.ParseUint(rest[0], 10, 62)
			if err != nil || ft == protocol.FrameTypeTCPRequest || ft < 0x0e {
				return "bad-op", ""
			}
			o = cl.tcpStream(ft, "", 1, awPayload(2), false)
			mev = fmt.Sprintf("G%d/%d", c, ft)
		}
		rn.checkSilent(c, accepted, o, "a raw stream")
		return o, mev
	case 'D':
		if len(rest) != 2 || !(rest[0] == "ok" || rest[0] == "fail") {
			return "bad-op", ""
		}
		n, err := strconv.Atoi(rest[1])
		if err != nil || n < 0 || n > 1000 {
			return "bad-op", ""
		}
		addr := awReqAddr(c, i, rest[0])
		o := cl.datagram(addr, n)
		if o == "sent" && n > 0 { // a UDPMessage without data bytes is malformed: the server drops it
			rn.dgAddrs[c] = append(rn.dgAddrs[c], addr)
			if rest[0] == "ok" {
				rn.dgOK[c]++
			}
			if cl.sawUDP {
				rn.settleUDP(cl)
			}
		}
		return o, fmt.Sprintf("D%d/%s/%s/%d", c, rest[0], awTok(addr), n)
	case 'X':
		if cl.pending != nil {
			o, m := rn.authEvent(cl, 'R', c, nil, i)
			o2, m2 := rn.authEvent(cl, 'X', c, nil, i)
			return o + "+" + o2, m + "+" + m2
		}
		cl.close()
		if cl.saw233 && !rn.cfg.noEvent {
			rn.w.waitFor(awPositive, func() bool { return rn.w.countLocked(c, "disconnect") > 0 })
		} else if cl.saw233 && rn.cfg.tl {
			rn.w.waitFor(awPositive, func() bool { return rn.w.countLocked(c, "online-") > 0 })
		}
		return "closed", fmt.Sprintf("X%d", c)
	}
	return "bad-op", ""
}

// ---------------------------------------------------------------- component masq

// ops (stateful; a history runs from `reset` to `end`):
//
//	reset <cfg>                       fresh server
//	req <c> <m>/<a>/<p>/<hflags>/<cred>[/b<k>][/o<k>]   one HTTP/3 request on connection c (b: large header set, o: odd
//	                                  Hysteria-* header values); Out = the whole response
//	stream <c> <kind> <pad> <n>       raw 0x401 stream with a TCPRequest; Out = silent | reply
//	dgram <c> <n>                     UDPMessage datagram (fire and forget; replies are counted at `end`)
//	breq <c> <cred>                   auth request whose authenticator call BLOCKS (Out = pending, or the answer if none was made)
//	rel <c>                           release it; Out = the answer (233 | other)
//	end                               close everything; Out = per-connection count of datagrams received
type masqComp struct {
	rn   *awRunner
	nreq int
}

func (masqComp) Gen(r *vh.RNG, n int, emit func(op string, tags ...string)) {
	creds := []string{"ok1", "bad", "", "ok2"}
	// about every fourth request carries a LARGE header set (3 KiB .. 100 KiB, one header or many small ones): every
	// request below the library's header limit must reach ServeHTTP / the masquerade handler whatever its size
	// ... and about every third one odd shapes of the Hysteria-* request headers themselves (non-numeric / negative /
	// overflowing / empty / repeated Hysteria-CC-RX, empty / huge / repeated padding, repeated / huge credentials)
	big := func(s awReqSpec, tag string) (awReqSpec, []string) {
		tags := []string{tag}
		if r.Chance(1, 4) {
			s.big = 1 + r.Intn(len(awBigHeaders)-1)
			tags = append(tags, "bighdr", fmt.Sprintf("bighdr:%d", s.big))
		}
		if r.Chance(1, 3) {
			s.odd = 1 + r.Intn(len(awOddHeaders)-1)
			if tag == "shape:accepted" && awOddHeaders[s.odd].auth != nil {
				s.odd = 1 + r.Intn(12) // keep the accepted credentials: odd Hysteria-CC-RX only
			}
			// An ACCEPTED request that declares a receive rate at or beyond 2^64-1 (strconv.ParseUint returns MaxUint64
			// together with its range error, which the server ignores) makes the server pace that client's own
			// connection with Brutal at 2^64-1 B/s; its later replies then stall now and then (noticed as D17,
			// DESIGN 0.3 — outside C02). Such a stall shows up here as a 4 s read timeout, which says nothing about
			// masquerading, so accepted requests keep away from these three shapes (rejected ones still draw them).
			if strings.HasPrefix(s.authString(), "ok") && (s.odd == 5 || s.odd == 10 || s.odd == 12) {
				s.odd = []int{1, 2, 3, 4, 6, 7, 8, 9, 11}[r.Intn(9)]
			}
			tags = append(tags, "oddhdr", fmt.Sprintf("oddhdr:%d", s.odd))
		}
		return s, tags
	}
	for emitted := 0; emitted < n; {
		emit("reset "+awGenCfg(r), "reset")
		nconn := 1 + r.Intn(2)
		k := r.Range(4, 10)
		for j := 0; j < k; j++ {
			c := r.Intn(nconn)
			switch x := r.Intn(16); {
			case x < 5: // exactly one coordinate off the auth shape
				s := awReqSpec{m: 0, a: 0, p: 0, hflags: r.Intn(8), cred: creds[r.Intn(len(creds))]}
				tag := ""
				switch r.Intn(3) {
				case 0:
					s.m = 1 + r.Intn(len(awMethods)-1)
					tag = "near:method"
				case 1:
					s.a = 1 + r.Intn(len(awAuthorities)-1)
					tag = "near:authority"
				default:
					s.p = 1 + r.Intn(len(awPaths)-1)
					tag = "near:path"
				}
				s, tags := big(s, tag)
				emit(fmt.Sprintf("req %d %s", c, s), tags...)
			case x < 8: // anything
				s := awReqSpec{m: r.Intn(len(awMethods)), a: r.Intn(len(awAuthorities)), p: r.Intn(len(awPaths)), hflags: r.Intn(8), cred: creds[r.Intn(len(creds))]}
				s, tags := big(s, "any")
				emit(fmt.Sprintf("req %d %s", c, s), tags...)
			case x < 11: // exact shape, rejected credentials (or none)
				s := awReqSpec{m: 0, a: 0, p: 0, hflags: r.Intn(8), cred: []string{"bad", "", "no-ok", "OK1"}[r.Intn(4)]}
				if s.hflags&1 == 0 {
					s.cred = "bad"
				}
				s, tags := big(s, "shape:rejected")
				emit(fmt.Sprintf("req %d %s", c, s), tags...)
			case x < 13: // exact shape, accepted credentials
				s := awReqSpec{m: 0, a: 0, p: 0, hflags: 1 | r.Intn(8), cred: creds[r.Intn(2)*3]}
				s, tags := big(s, "shape:accepted")
				emit(fmt.Sprintf("req %d %s", c, s), tags...)
			case x < 15:
				if r.Chance(1, 2) { // a stream and a datagram while the verdict is pending
					emit(fmt.Sprintf("breq %d %s", c, []string{"ok1", "bad"}[r.Intn(2)]), "pending")
					emit(fmt.Sprintf("stream %d ok 64 9", c), "stream")
					emit(fmt.Sprintf("dgram %d 5", c), "dgram")
					emit(fmt.Sprintf("rel %d", c), "pending")
					emitted += 3
					break
				}
				emit(fmt.Sprintf("stream %d %s %d %d", c, []string{"ok", "ok", "fail", "bad"}[r.Intn(4)], []int{1, 16, 64, 65, 300}[r.Intn(5)], []int{2, 9, 300}[r.Intn(3)]), "stream")
			default:
				emit(fmt.Sprintf("dgram %d %d", c, r.Intn(200)), "dgram")
			}
			emitted++
		}
		emit("end", "end")
	}
}

func (m *masqComp) Run(op string) vh.Result {
	f := strings.Fields(op)
	if len(f) == 0 {
		return vh.Result{Out: "bad-op"}
	}
	if f[0] == "reset" {
		if len(f) != 2 {
			return vh.Result{Out: "bad-op"}
		}
		cfg, ok := awParseCfg(f[1])
		if !ok {
			return vh.Result{Out: "bad-op"}
		}
		var orc []string
		if m.rn != nil { // a history that was not ended (replay of a prefix)
			m.rn.finish()
			orc = m.rn.oracle
			m.rn = nil
		}
		rn, err := awNewRunner(cfg)
		if err != nil {
			return vh.Result{Out: "harness-error " + awTok(err.Error())}
		}
		rn.c02 = true
		m.rn = rn
		m.nreq = 0
		return vh.Result{Out: "ok", ModelOp: fmt.Sprintf("reset %d %d %d", awB(cfg.udp), cfg.maxRx, awB(cfg.rxAuto)), Oracle: orc}
	}
	if m.rn == nil {
		return vh.Result{Out: "bad-op"}
	}
	rn := m.rn
	if f[0] == "end" {
		if len(f) != 1 {
			return vh.Result{Out: "bad-op"}
		}
		_, dg := rn.finish()
		var cs []int
		for c := range rn.w.clients {
			cs = append(cs, c)
		}
		sort.Ints(cs)
		out := "end"
		for _, c := range cs {
			out += fmt.Sprintf(" c%d:%d", c, dg[c][1]+dg[c][2])
		}
		m.rn = nil
		return vh.Result{Out: out, ModelOp: "end", Oracle: rn.oracle}
	}
	if len(f) < 2 {
		return vh.Result{Out: "bad-op"}
	}
	c, err := strconv.Atoi(f[1])
	if err != nil || c < 0 || c > 7 {
		return vh.Result{Out: "bad-op"}
	}
	n0 := len(rn.oracle)
	newOracle := func() []string { o := append([]string(nil), rn.oracle[n0:]...); rn.oracle = rn.oracle[:n0]; return o }
	cl, err := rn.w.client(c)
	if err != nil {
		return vh.Result{Out: "dial:" + awErr(err)}
	}
	m.nreq++
	switch f[0] {
	case "req":
		if len(f) != 3 {
			return vh.Result{Out: "bad-op"}
		}
		spec, ok := awParseReqSpec(f[2])
		if !ok {
			return vh.Result{Out: "bad-op"}
		}
		if t := spec.triple(); cl.pending != nil && t.Method == "POST" && t.Host == "hysteria" && t.Path == "/auth" {
			return vh.Result{Out: "bad-op"} // would wait on authMutex behind the blocked request: not part of this op language
		}
		res := rn.doRequest(cl, spec)
		if res.resp.err != "" {
			return vh.Result{Out: "err:" + awTok(res.resp.err), ModelOp: "h3err " + f[1], Oracle: newOracle()}
		}
		v := strings.HasPrefix(spec.authString(), "ok")
		pad := res.resp.header.Get("hysteria-padding")
		out := fmt.Sprintf("%s called=%d", res.canon, awB(res.called))
		mop := fmt.Sprintf("req %d %d %s %s %s", c, awB(v), awHexTriple(res.seen), vh.Hex([]byte(pad)), res.alone)
		return vh.Result{Out: out, ModelOp: mop, NonTrivial: true, Oracle: newOracle()}
	case "breq", "rel":
		var o, mo string
		if f[0] == "breq" {
			if len(f) != 3 {
				return vh.Result{Out: "bad-op"}
			}
			o, mo = rn.authEvent(cl, 'B', c, []string{f[2]}, 1000+m.nreq)
		} else {
			if len(f) != 2 {
				return vh.Result{Out: "bad-op"}
			}
			o, mo = rn.authEvent(cl, 'R', c, nil, 1000+m.nreq)
		}
		if o == "bad-op" {
			return vh.Result{Out: "bad-op"}
		}
		// model op: B<c>/<cred!> -> "breq c v"; H.. (answered at once) -> "breq c v"; K/N -> "noop"; R<c> -> "rel c"
		v := strings.HasPrefix(f[len(f)-1], "ok")
		switch mo[0] {
		case 'B', 'H':
			mo = fmt.Sprintf("breq %d %d", c, awB(v))
		case 'R':
			mo = fmt.Sprintf("rel %d", c)
		default:
			mo = "noop " + o
		}
		return vh.Result{Out: o, ModelOp: mo, NonTrivial: true, Oracle: newOracle()}
	case "stream":
		if len(f) != 5 {
			return vh.Result{Out: "bad-op"}
		}
		pad, err1 := strconv.Atoi(f[3])
		n, err2 := strconv.Atoi(f[4])
		if err1 != nil || err2 != nil || !(pad == 1 || (pad >= 16 && pad <= 4096)) || n < 2 || n > 65536 ||
			!(f[2] == "ok" || f[2] == "fail" || f[2] == "bad") {
			return vh.Result{Out: "bad-op"}
		}
		accepted := rn.acceptedSoFar(c)
		addr := awReqAddr(c, 1000+m.nreq, f[2])
		o := cl.tcpStream(protocol.FrameTypeTCPRequest, addr, pad, awPayload(n), false)
		rn.checkSilent(c, accepted, o, "a raw 0x401 stream")
		out := "silent"
		if strings.HasPrefix(o, "resp:") || strings.HasPrefix(o, "garbage:") {
			out = "reply"
		} else if f[2] == "bad" && o == "eof" {
			out = "closed-no-bytes"
		}
		return vh.Result{Out: out, ModelOp: fmt.Sprintf("stream %d %d", c, awB(f[2] == "bad")), NonTrivial: true, Oracle: newOracle()}
	case "dgram":
		if len(f) != 3 {
			return vh.Result{Out: "bad-op"}
		}
		n, err := strconv.Atoi(f[2])
		if err != nil || n < 0 || n > 1000 {
			return vh.Result{Out: "bad-op"}
		}
		addr := awReqAddr(c, 1000+m.nreq, "ok")
		o := cl.datagram(addr, n)
		if o == "sent" && n > 0 { // a UDPMessage without data bytes is malformed: the server drops it
			rn.dgAddrs[c] = append(rn.dgAddrs[c], addr)
			rn.dgOK[c]++
			if cl.sawUDP {
				rn.settleUDP(cl)
			}
		}
		return vh.Result{Out: o, ModelOp: fmt.Sprintf("dgram %d %d", c, awB(n > 0)), Oracle: newOracle()}
	}
	return vh.Result{Out: "bad-op"}
}

func awB(b bool) int {
	if b {
		return 1
	}
	return 0
}
