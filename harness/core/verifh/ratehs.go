//go:build verif

// C10, layer 2: REAL handshakes. A loopback hysteria client/server
// pair (core/client, core/server over 127.0.0.1 UDP), raw HTTP/3 clients that send a
// hand-crafted Hysteria-CC-RX to the real server, and a bare HTTP/3 server that answers
// the real client with a hand-crafted Hysteria-CC-RX. Observed per handshake:
//
//	the authenticator's tx argument, EventLogger.Connect(tx), client.HandshakeInfo.Tx,
//	and — through the instrumented copy of congestion/utils.go (see
//	core/internal/congestion/zz_verif_c10.go) — which congestion controller was actually
//	handed to quic-go on each of the two quic.Conn and with what rate.
//
// ops (compared line by line with `hydrv rate`):
//
//	hs <cUp> <cDown> <sUp> <sDown> <ign> <sCC> <cCC>   -> hs auth=<n> srv=<inst> rep=<n> cli=<inst> rep=<n>
//	rawcli <vals> <sUp> <sDown> <ign> <sCC>            -> rawcli auth=<n> srv=<inst> rep=<n> resp=<hex>
//	rawsrv <vals> <cUp> <cDown> <cCC>                  -> rawsrv cli=<inst> rep=<n> req=<hex>
//	scfg <up> <down>                                   -> scfg ok | scfg reject   (server.Config floor)
//
// <inst> = brutal:<bps> | bbr | builtin (no SetCongestionControl call: quic-go's own).
// <vals> = "." (header absent) or comma separated hex values ("-" = empty).
// For raw ops the model is given the value AS DELIVERED by the HTTP/3 stack (learnt from
// a second header carrying the same bytes), since that stack is not hysteria's code.
package main

import (
	"context"
	"crypto/ecdsa"
	"crypto/elliptic"
	"crypto/rand"
	"crypto/tls"
	"crypto/x509"
	"crypto/x509/pkix"
	"fmt"
	"math/big"
	"net"
	"net/http"
	"net/url"
	"strconv"
	"strings"
	"sync"
	"time"

	"github.com/apernet/hysteria/core/v2/client"
	"github.com/apernet/hysteria/core/v2/internal/congestion"
	"github.com/apernet/hysteria/core/v2/internal/protocol"
	"github.com/apernet/hysteria/core/v2/server"
	vh "github.com/apernet/hysteria/core/v2/verifhlib"
	"github.com/apernet/quic-go"
	"github.com/apernet/quic-go/http3"
)

func init() {
	vh.Register("ratehs", func() vh.Component { return c10NewComp() })
}

// ------------------------------------------------------------------ plumbing

type c10AuthRec struct {
	remote string
	auth   string
	tx     uint64
}

type c10ConnRec struct {
	remote string
	tx     uint64
}

type c10SrvInst struct {
	srv    server.Server
	addr   *net.UDPAddr
	authCh chan c10AuthRec
	connCh chan c10ConnRec
}

func (s *c10SrvInst) Authenticate(addr net.Addr, auth string, tx uint64) (bool, string) {
	select {
	case s.authCh <- c10AuthRec{addr.String(), auth, tx}:
	default:
	}
	return true, "c10"
}

func (s *c10SrvInst) Connect(addr net.Addr, id string, tx uint64) {
	select {
	case s.connCh <- c10ConnRec{addr.String(), tx}:
	default:
	}
}
func (s *c10SrvInst) Disconnect(net.Addr, string, error)          {}
func (s *c10SrvInst) TCPRequest(net.Addr, string, string)         {}
func (s *c10SrvInst) TCPError(net.Addr, string, string, error)    {}
func (s *c10SrvInst) UDPRequest(net.Addr, string, uint32, string) {}
func (s *c10SrvInst) UDPError(net.Addr, string, uint32, error)    {}

type c10FakeSrv struct {
	h3   *http3.Server
	conn *net.UDPConn
	addr *net.UDPAddr
	mu   sync.Mutex
	vals []string // Hysteria-CC-RX values to answer with (nil = none)
	got  []string // Hysteria-CC-RX values of the last auth request
	seen bool
}

type c10Comp struct {
	cert    tls.Certificate
	mu      sync.Mutex
	events  []congestion.VerifC10Event
	servers map[string]*c10SrvInst
	fake    *c10FakeSrv
	deliv   map[string][]string // rawsrv: sent value list -> list delivered to an HTTP/3 client
	delivOK map[string]bool
}

func c10NewComp() *c10Comp {
	c := &c10Comp{servers: map[string]*c10SrvInst{}, deliv: map[string][]string{}, delivOK: map[string]bool{}}
	c.cert = c10SelfSigned()
	congestion.VerifC10SetHook(func(ev congestion.VerifC10Event) {
		c.mu.Lock()
		c.events = append(c.events, ev)
		c.mu.Unlock()
	})
	return c
}

func (c *c10Comp) close() {
	congestion.VerifC10SetHook(nil)
	for _, s := range c.servers {
		_ = s.srv.Close()
	}
	if c.fake != nil {
		_ = c.fake.h3.Close()
		_ = c.fake.conn.Close()
	}
}

func c10SelfSigned() tls.Certificate {
	key, err := ecdsa.GenerateKey(elliptic.P256(), rand.Reader)
	if err != nil {
		panic(err)
	}
	tpl := &x509.Certificate{
		SerialNumber: big.NewInt(10),
		Subject:      pkix.Name{CommonName: "verif-c10"},
		NotBefore:    time.Now().Add(-time.Hour),
		NotAfter:     time.Now().Add(24 * time.Hour),
		KeyUsage:     x509.KeyUsageDigitalSignature,
		ExtKeyUsage:  []x509.ExtKeyUsage{x509.ExtKeyUsageServerAuth},
		DNSNames:     []string{"localhost", protocol.URLHost},
		IPAddresses:  []net.IP{net.IPv4(127, 0, 0, 1)},
	}
	der, err := x509.CreateCertificate(rand.Reader, tpl, tpl, &key.PublicKey, key)
	if err != nil {
		panic(err)
	}
	return tls.Certificate{Certificate: [][]byte{der}, PrivateKey: key}
}

func c10ListenLoop() (*net.UDPConn, *net.UDPAddr) {
	conn, err := net.ListenUDP("udp4", &net.UDPAddr{IP: net.IPv4(127, 0, 0, 1), Port: 0})
	if err != nil {
		panic(err)
	}
	return conn, conn.LocalAddr().(*net.UDPAddr)
}

func (c *c10Comp) newServer(sUp, sDown uint64, ign bool, cc string) (*c10SrvInst, error) {
	conn, addr := c10ListenLoop()
	s := &c10SrvInst{addr: addr, authCh: make(chan c10AuthRec, 16), connCh: make(chan c10ConnRec, 16)}
	srv, err := server.NewServer(&server.Config{
		TLSConfig:             server.TLSConfig{Certificates: []tls.Certificate{c.cert}},
		Conn:                  conn,
		BandwidthConfig:       server.BandwidthConfig{MaxTx: sUp, MaxRx: sDown},
		IgnoreClientBandwidth: ign,
		CongestionConfig:      server.CongestionConfig{Type: cc},
		Authenticator:         s,
		EventLogger:           s,
	})
	if err != nil {
		_ = conn.Close()
		return nil, err
	}
	s.srv = srv
	go srv.Serve()
	return s, nil
}

func (c *c10Comp) server(sUp, sDown uint64, ign bool, cc string) (*c10SrvInst, error) {
	k := fmt.Sprintf("%d/%d/%v/%s", sUp, sDown, ign, cc)
	if s, ok := c.servers[k]; ok {
		return s, nil
	}
	if len(c.servers) >= 160 {
		for kk, s := range c.servers {
			_ = s.srv.Close()
			delete(c.servers, kk)
		}
	}
	s, err := c.newServer(sUp, sDown, ign, cc)
	if err != nil {
		return nil, err
	}
	c.servers[k] = s
	return s, nil
}

func c10Drain(s *c10SrvInst) {
	for {
		select {
		case <-s.authCh:
		case <-s.connCh:
		default:
			return
		}
	}
}

func (c *c10Comp) resetEvents() {
	c.mu.Lock()
	c.events = nil
	c.mu.Unlock()
}

func c10Port(a string) string {
	_, p, err := net.SplitHostPort(a)
	if err != nil {
		return a
	}
	return p
}

// c10Side summarises what the congestion package did on ONE quic.Conn.
type c10Side struct {
	inst     string // brutal:<bps> | bbr | builtin | multi(...) | <go type>
	brutal   bool
	rate     uint64
	problems []string
}

func (c *c10Comp) sideOf(localPort, remotePort string) c10Side {
	c.mu.Lock()
	evs := append([]congestion.VerifC10Event(nil), c.events...)
	c.mu.Unlock()
	var installs, traces []congestion.VerifC10Event
	for _, e := range evs {
		if c10Port(e.Local) != localPort || c10Port(e.Remote) != remotePort {
			continue
		}
		if e.Kind == "install" {
			installs = append(installs, e)
		} else {
			traces = append(traces, e)
		}
	}
	var s c10Side
	switch len(installs) {
	case 0:
		s.inst = "builtin"
	case 1:
		e := installs[0]
		switch e.CC {
		case "brutal":
			s.inst, s.brutal, s.rate = fmt.Sprintf("brutal:%d", e.Tx), true, e.Tx
		default:
			s.inst = e.CC
		}
	default:
		var ks []string
		for _, e := range installs {
			ks = append(ks, e.CC)
		}
		s.inst = "multi(" + strings.Join(ks, "+") + ")"
		s.problems = append(s.problems, fmt.Sprintf("%d congestion controllers were installed on one connection (%s)", len(installs), s.inst))
	}
	// the rate asked of UseBrutal must be the rate the sender was built with
	nb := 0
	for _, e := range traces {
		if e.Kind == "UseBrutal" {
			nb++
			if !s.brutal || e.Tx != s.rate {
				s.problems = append(s.problems, fmt.Sprintf("UseBrutal was asked for %d but the connection got %s", e.Tx, s.inst))
			}
		}
	}
	if s.brutal && nb == 0 {
		s.problems = append(s.problems, "a Brutal sender was installed without a UseBrutal call")
	}
	return s
}

func c10ParseU(s string) (uint64, bool) {
	n, err := strconv.ParseUint(s, 10, 64)
	return n, err == nil && strconv.FormatUint(n, 10) == s
}

// c10Digits: for a non-empty string of ASCII digits, its decimal value saturated at 2^64-1
// (a declaration larger than any representable rate is the largest rate, not "unknown").
func c10Digits(s string) (uint64, bool) {
	if s == "" {
		return 0, false
	}
	for i := 0; i < len(s); i++ {
		if s[i] < '0' || s[i] > '9' {
			return 0, false
		}
	}
	b, _ := new(big.Int).SetString(s, 10)
	if !b.IsUint64() {
		return 1<<64 - 1, true
	}
	return b.Uint64(), true
}

func c10ParseB(s string) (bool, bool) { return s == "1", s == "0" || s == "1" }

func c10ParseCC(s string) bool { return s == "bbr" || s == "reno" }

func c10ParseVals(s string) ([]string, bool) {
	if s == "." {
		return nil, true
	}
	var out []string
	for _, f := range strings.Split(s, ",") {
		if f != "-" && (len(f)%2 != 0 || strings.Trim(f, "0123456789abcdef") != "") {
			return nil, false
		}
		out = append(out, string(vh.UnHex(f)))
	}
	return out, true
}

func c10ShowVals(vs []string) string {
	if vs == nil {
		return "."
	}
	ss := make([]string, len(vs))
	for i, v := range vs {
		ss[i] = vh.Hex([]byte(v))
	}
	return strings.Join(ss, ",")
}

func c10First(vs []string) string {
	if len(vs) == 0 {
		return ""
	}
	return vs[0]
}

// ------------------------------------------------------------------ model-free oracles

// c10MinNZ: the smaller of the two limits where 0 means "no limit"; 0 if neither limits.
func c10MinNZ(a, b uint64) uint64 {
	switch {
	case a == 0:
		return b
	case b == 0:
		return a
	case a < b:
		return a
	}
	return b
}

// c10OracleServer: the property's clauses for the server c10Side, stated on observations only.
// declared = the receive rate the client declared (as the server's authenticator saw it).
func c10OracleServer(s c10Side, reported, declared, own uint64, ign bool, cc string) []string {
	out := append([]string(nil), s.problems...)
	if s.brutal {
		if s.rate == 0 {
			out = append(out, "server: Brutal installed with rate 0")
		}
		if own != 0 && s.rate > own {
			out = append(out, fmt.Sprintf("server sends at %d, above its own limit %d", s.rate, own))
		}
		if s.rate > declared {
			out = append(out, fmt.Sprintf("server sends at %d, above the client's declared receive rate %d", s.rate, declared))
		}
		if ign {
			out = append(out, "server ignores client bandwidth but installed a fixed rate")
		}
		if reported != s.rate {
			out = append(out, fmt.Sprintf("server reported tx=%d to the event logger but installed Brutal at %d", reported, s.rate))
		}
		if !ign && declared != 0 && s.rate != c10MinNZ(own, declared) {
			out = append(out, fmt.Sprintf("server rate %d is not the smaller of own limit %d (0 = unlimited) and declared %d", s.rate, own, declared))
		}
	} else {
		if !ign && declared != 0 {
			out = append(out, fmt.Sprintf("client declared %d and the server does not ignore it, but no fixed rate was installed (%s)", declared, s.inst))
		}
		if reported != 0 {
			out = append(out, fmt.Sprintf("server reported tx=%d to the event logger but runs %s", reported, s.inst))
		}
		want := "bbr"
		if cc == "reno" {
			want = "builtin"
		}
		if s.inst != want {
			out = append(out, fmt.Sprintf("server should run its configured controller (%s -> %s) but has %s", cc, want, s.inst))
		}
	}
	return out
}

// c10OracleClient: auto = server answered "auto"; declared = server's declared receive rate.
func c10OracleClient(s c10Side, reported, declared, own uint64, auto bool, cc string) []string {
	out := append([]string(nil), s.problems...)
	if s.brutal {
		if s.rate == 0 {
			out = append(out, "client: Brutal installed with rate 0")
		}
		if s.rate > own {
			out = append(out, fmt.Sprintf("client sends at %d, above its own limit %d", s.rate, own))
		}
		if declared != 0 && s.rate > declared {
			out = append(out, fmt.Sprintf("client sends at %d, above the server's declared receive rate %d", s.rate, declared))
		}
		if auto {
			out = append(out, "server answered auto but the client installed a fixed rate")
		}
		if reported != s.rate {
			out = append(out, fmt.Sprintf("HandshakeInfo.Tx=%d but Brutal was installed at %d", reported, s.rate))
		}
		if !auto && own != 0 && s.rate != c10MinNZ(own, declared) {
			out = append(out, fmt.Sprintf("client rate %d is not the smaller of own limit %d and declared %d (0 = unlimited)", s.rate, own, declared))
		}
	} else {
		if !auto && own != 0 {
			out = append(out, fmt.Sprintf("client has a send limit %d and the server did not answer auto, but no fixed rate was installed (%s)", own, s.inst))
		}
		if reported != 0 {
			out = append(out, fmt.Sprintf("HandshakeInfo.Tx=%d but the client runs %s", reported, s.inst))
		}
		want := "bbr"
		if cc == "reno" {
			want = "builtin"
		}
		if s.inst != want {
			out = append(out, fmt.Sprintf("client should run its configured controller (%s -> %s) but has %s", cc, want, s.inst))
		}
	}
	return out
}

// ------------------------------------------------------------------ ops

type c10RecFactory struct{ last *net.UDPConn }

func (f *c10RecFactory) New(net.Addr) (net.PacketConn, error) {
	conn, err := net.ListenUDP("udp4", &net.UDPAddr{IP: net.IPv4(127, 0, 0, 1), Port: 0})
	if err != nil {
		return nil, err
	}
	f.last = conn
	return conn, nil
}

func (c *c10Comp) dial(addr net.Addr, cUp, cDown uint64, cCC string) (client.Client, *client.HandshakeInfo, string, error) {
	var lastErr error
	for attempt := 0; attempt < 2; attempt++ {
		f := &c10RecFactory{}
		cl, info, err := client.NewClient(&client.Config{
			ConnFactory:      f,
			ServerAddr:       addr,
			Auth:             "c10",
			TLSConfig:        client.TLSConfig{InsecureSkipVerify: true},
			BandwidthConfig:  client.BandwidthConfig{MaxTx: cUp, MaxRx: cDown},
			CongestionConfig: client.CongestionConfig{Type: cCC},
		})
		if err == nil {
			return cl, info, c10Port(f.last.LocalAddr().String()), nil
		}
		lastErr = err
	}
	return nil, nil, "", lastErr
}

func c10WaitConn(s *c10SrvInst, cport string) (c10ConnRec, bool) {
	deadline := time.After(3 * time.Second)
	for {
		select {
		case r := <-s.connCh:
			if c10Port(r.remote) == cport {
				return r, true
			}
		case <-deadline:
			return c10ConnRec{}, false
		}
	}
}

func c10WaitAuth(s *c10SrvInst, cport string) (c10AuthRec, bool) {
	deadline := time.After(3 * time.Second)
	for {
		select {
		case r := <-s.authCh:
			if c10Port(r.remote) == cport {
				return r, true
			}
		case <-deadline:
			return c10AuthRec{}, false
		}
	}
}

func (c *c10Comp) runHS(f []string) vh.Result {
	bad := vh.Result{Out: "bad-op"}
	if len(f) != 8 {
		return bad
	}
	cUp, ok1 := c10ParseU(f[1])
	cDown, ok2 := c10ParseU(f[2])
	sUp, ok3 := c10ParseU(f[3])
	sDown, ok4 := c10ParseU(f[4])
	ign, ok5 := c10ParseB(f[5])
	if !(ok1 && ok2 && ok3 && ok4 && ok5 && c10ParseCC(f[6]) && c10ParseCC(f[7])) {
		return bad
	}
	sCC, cCC := f[6], f[7]
	s, err := c.server(sUp, sDown, ign, sCC)
	if err != nil {
		return vh.Result{Out: "scfg-reject"}
	}
	c10Drain(s)
	c.resetEvents()
	cl, info, cport, err := c.dial(s.addr, cUp, cDown, cCC)
	if err != nil {
		return vh.Result{Out: "handshake-failed", Oracle: []string{"loopback handshake did not complete: " + err.Error()}}
	}
	defer cl.Close()
	sport := c10Port(s.addr.String())
	ar, okA := c10WaitAuth(s, cport)
	cr, okC := c10WaitConn(s, cport)
	if !okA || !okC {
		return vh.Result{Out: "no-server-events", Oracle: []string{"client holds a HandshakeInfo but the server's authenticator/event logger was not called"}}
	}
	ss := c.sideOf(sport, cport)
	cs := c.sideOf(cport, sport)
	res := vh.Result{
		Out:        fmt.Sprintf("hs auth=%d srv=%s rep=%d cli=%s rep=%d", ar.tx, ss.inst, cr.tx, cs.inst, info.Tx),
		NonTrivial: true,
	}
	if ar.tx != cDown {
		res.Oracle = append(res.Oracle, fmt.Sprintf("client declared MaxRx=%d but the authenticator was given tx=%d", cDown, ar.tx))
	}
	res.Oracle = append(res.Oracle, c10OracleServer(ss, cr.tx, cDown, sUp, ign, sCC)...)
	res.Oracle = append(res.Oracle, c10OracleClient(cs, info.Tx, sDown, cUp, ign, cCC)...)
	return res
}

func (c *c10Comp) runRawCli(f []string) vh.Result {
	bad := vh.Result{Out: "bad-op"}
	if len(f) != 6 {
		return bad
	}
	vals, ok0 := c10ParseVals(f[1])
	sUp, ok1 := c10ParseU(f[2])
	sDown, ok2 := c10ParseU(f[3])
	ign, ok3 := c10ParseB(f[4])
	if !(ok0 && ok1 && ok2 && ok3 && c10ParseCC(f[5])) {
		return bad
	}
	sCC := f[5]
	s, err := c.server(sUp, sDown, ign, sCC)
	if err != nil {
		return vh.Result{Out: "scfg-reject"}
	}
	c10Drain(s)
	c.resetEvents()
	hdr := http.Header{}
	if vals != nil {
		hdr[http.CanonicalHeaderKey(protocol.CommonHeaderCCRX)] = vals
		// the same bytes in the auth header: tells us what the HTTP/3 stack delivered
		hdr[http.CanonicalHeaderKey(protocol.RequestHeaderAuth)] = vals
	}
	status, rh, cport, cleanup, err := c10RawRoundTrip(s.addr, hdr)
	if err != nil {
		// the HTTP/3 stack refused to carry this value: nothing reached hysteria's code
		return vh.Result{Out: "noop", ModelOp: "noop"}
	}
	defer cleanup()
	if status != protocol.StatusAuthOK {
		return vh.Result{Out: fmt.Sprintf("status=%d", status), Oracle: []string{fmt.Sprintf("authenticator accepted but the server answered %d", status)}}
	}
	sport := c10Port(s.addr.String())
	ar, okA := c10WaitAuth(s, cport)
	cr, okC := c10WaitConn(s, cport)
	if !okA || !okC {
		return vh.Result{Out: "no-server-events", Oracle: []string{"233 received but the server's authenticator/event logger was not called"}}
	}
	ss := c.sideOf(sport, cport)
	respVals := rh[http.CanonicalHeaderKey(protocol.CommonHeaderCCRX)]
	var delivered []string
	if vals != nil {
		delivered = []string{ar.auth}
	}
	res := vh.Result{
		Out:        fmt.Sprintf("rawcli auth=%d srv=%s rep=%d resp=%s", ar.tx, ss.inst, cr.tx, vh.Hex([]byte(c10First(respVals)))),
		ModelOp:    fmt.Sprintf("rawcli %s %d %d %s %s", c10ShowVals(delivered), sUp, sDown, f[4], sCC),
		NonTrivial: true,
	}
	if len(respVals) != 1 {
		res.Oracle = append(res.Oracle, fmt.Sprintf("233 response carries %d Hysteria-CC-RX values", len(respVals)))
	}
	// declared = whatever number the server's own parser made of the header (ar.tx);
	// the bound clauses must hold for it whatever the bytes were
	res.Oracle = append(res.Oracle, c10OracleServer(ss, cr.tx, ar.tx, sUp, ign, sCC)...)
	if n, ok := c10Digits(c10First(delivered)); ok && ar.tx != n {
		res.Oracle = append(res.Oracle, fmt.Sprintf("header %q means %d (decimal, saturated at 2^64-1) but the authenticator was given tx=%d", c10First(delivered), n, ar.tx))
	}
	if ign && c10First(respVals) != "auto" {
		res.Oracle = append(res.Oracle, fmt.Sprintf("server ignores client bandwidth but answered Hysteria-CC-RX=%q, not auto", c10First(respVals)))
	}
	if !ign && c10First(respVals) != strconv.FormatUint(sDown, 10) {
		res.Oracle = append(res.Oracle, fmt.Sprintf("server's MaxRx is %d but it answered Hysteria-CC-RX=%q", sDown, c10First(respVals)))
	}
	return res
}

// c10RawRoundTrip sends POST https://hysteria/auth with the given headers over HTTP/3.
func c10RawRoundTrip(addr *net.UDPAddr, hdr http.Header) (int, http.Header, string, func(), error) {
	conn, laddr := c10ListenLoop()
	tr := &quic.Transport{Conn: conn}
	rt := &http3.Transport{
		TLSClientConfig: &tls.Config{InsecureSkipVerify: true},
		Dial: func(ctx context.Context, _ string, tlsCfg *tls.Config, cfg *quic.Config) (*quic.Conn, error) {
			return tr.DialEarly(ctx, addr, tlsCfg, cfg)
		},
	}
	cleanup := func() {
		_ = rt.Close()
		_ = tr.Close()
		_ = conn.Close()
	}
	ctx, cancel := context.WithTimeout(context.Background(), 5*time.Second)
	defer cancel()
	req := (&http.Request{
		Method: http.MethodPost,
		URL:    &url.URL{Scheme: "https", Host: protocol.URLHost, Path: protocol.URLPath},
		Header: hdr,
	}).WithContext(ctx)
	resp, err := rt.RoundTrip(req)
	if err != nil {
		cleanup()
		return 0, nil, "", nil, err
	}
	_ = resp.Body.Close()
	return resp.StatusCode, resp.Header, strconv.Itoa(laddr.Port), cleanup, nil
}

func (c *c10Comp) fakeServer() *c10FakeSrv {
	if c.fake != nil {
		return c.fake
	}
	conn, addr := c10ListenLoop()
	fs := &c10FakeSrv{conn: conn, addr: addr}
	key := http.CanonicalHeaderKey(protocol.CommonHeaderCCRX)
	fs.h3 = &http3.Server{
		TLSConfig: http3.ConfigureTLSConfig(&tls.Config{Certificates: []tls.Certificate{c.cert}}),
		QUICConfig: &quic.Config{
			EnableDatagrams:      true,
			MaxDatagramFrameSize: protocol.MaxDatagramFrameSize,
			DisablePathManager:   true,
		},
		Handler: http.HandlerFunc(func(w http.ResponseWriter, r *http.Request) {
			if r.Method != http.MethodPost || r.Host != protocol.URLHost || r.URL.Path != protocol.URLPath {
				w.WriteHeader(http.StatusNotFound)
				return
			}
			fs.mu.Lock()
			fs.got = append([]string(nil), r.Header[key]...)
			fs.seen = true
			vals := fs.vals
			fs.mu.Unlock()
			w.Header()[http.CanonicalHeaderKey(protocol.ResponseHeaderUDPEnabled)] = []string{"true"}
			if vals != nil {
				w.Header()[key] = vals
			}
			w.WriteHeader(protocol.StatusAuthOK)
		}),
	}
	go fs.h3.Serve(conn)
	c.fake = fs
	return fs
}

func (c *c10Comp) runRawSrv(f []string) vh.Result {
	bad := vh.Result{Out: "bad-op"}
	if len(f) != 5 {
		return bad
	}
	vals, ok0 := c10ParseVals(f[1])
	cUp, ok1 := c10ParseU(f[2])
	cDown, ok2 := c10ParseU(f[3])
	if !(ok0 && ok1 && ok2 && c10ParseCC(f[4])) {
		return bad
	}
	cCC := f[4]
	fs := c.fakeServer()
	fs.mu.Lock()
	fs.vals = vals
	fs.seen = false
	fs.mu.Unlock()
	// what does an HTTP/3 client receive for these values? (same quic-go http3.Transport the
	// real client uses) — learnt once per value list with a plain round trip
	k := f[1]
	if _, done := c.delivOK[k]; !done {
		status, rh, _, cleanup, err := c10RawRoundTrip(fs.addr, http.Header{})
		if err == nil {
			cleanup()
		}
		c.delivOK[k] = err == nil && status == protocol.StatusAuthOK
		if c.delivOK[k] {
			c.deliv[k] = rh[http.CanonicalHeaderKey(protocol.CommonHeaderCCRX)]
		}
	}
	if !c.delivOK[k] {
		return vh.Result{Out: "noop", ModelOp: "noop"}
	}
	delivered := c.deliv[k]
	fs.mu.Lock()
	fs.seen = false
	fs.mu.Unlock()
	c.resetEvents()
	cl, info, cport, err := c.dial(fs.addr, cUp, cDown, cCC)
	if err != nil {
		return vh.Result{Out: "handshake-failed", Oracle: []string{"client did not complete against a 233 answer: " + err.Error()}}
	}
	defer cl.Close()
	fs.mu.Lock()
	got := fs.got
	fs.mu.Unlock()
	cs := c.sideOf(cport, strconv.Itoa(fs.addr.Port))
	res := vh.Result{
		Out:        fmt.Sprintf("rawsrv cli=%s rep=%d req=%s", cs.inst, info.Tx, vh.Hex([]byte(c10First(got)))),
		ModelOp:    fmt.Sprintf("rawsrv %s %d %d %s", c10ShowVals(delivered), cUp, cDown, cCC),
		NonTrivial: true,
	}
	if len(got) != 1 || got[0] != strconv.FormatUint(cDown, 10) {
		res.Oracle = append(res.Oracle, fmt.Sprintf("client's MaxRx is %d but it sent Hysteria-CC-RX=%q", cDown, got))
	}
	// bound clauses that hold whatever the server wrote: never above the client's own limit,
	// reported = installed, "auto" => controller, canonical decimal => exact rule
	d := c10First(delivered)
	if n, ok := c10Digits(d); ok {
		res.Oracle = append(res.Oracle, c10OracleClient(cs, info.Tx, n, cUp, false, cCC)...)
	} else if d == "auto" {
		res.Oracle = append(res.Oracle, c10OracleClient(cs, info.Tx, 0, cUp, true, cCC)...)
	} else {
		res.Oracle = append(res.Oracle, cs.problems...)
		if cs.brutal && (cs.rate > cUp || cs.rate == 0) {
			res.Oracle = append(res.Oracle, fmt.Sprintf("client sends at %d with own limit %d after a junk Hysteria-CC-RX %q", cs.rate, cUp, d))
		}
		if cs.brutal && info.Tx != cs.rate || !cs.brutal && info.Tx != 0 {
			res.Oracle = append(res.Oracle, fmt.Sprintf("HandshakeInfo.Tx=%d but the client runs %s", info.Tx, cs.inst))
		}
	}
	return res
}

func (c *c10Comp) runSCfg(f []string) vh.Result {
	if len(f) != 3 {
		return vh.Result{Out: "bad-op"}
	}
	up, ok1 := c10ParseU(f[1])
	down, ok2 := c10ParseU(f[2])
	if !ok1 || !ok2 {
		return vh.Result{Out: "bad-op"}
	}
	s, err := c.newServer(up, down, false, "bbr")
	if err != nil {
		return vh.Result{Out: "scfg reject"}
	}
	_ = s.srv.Close()
	return vh.Result{Out: "scfg ok", NonTrivial: true}
}

func (c *c10Comp) Run(op string) vh.Result {
	f := strings.Fields(op)
	if len(f) == 0 {
		return vh.Result{Out: "bad-op"}
	}
	switch f[0] {
	case "hs":
		return c.runHS(f)
	case "rawcli":
		return c.runRawCli(f)
	case "rawsrv":
		return c.runRawSrv(f)
	case "scfg":
		return c.runSCfg(f)
	}
	return vh.Result{Out: "bad-op"}
}

// ------------------------------------------------------------------ generator

var c10Grid = []uint64{0, 65536, 65537, 1000000, 1 << 63, 1<<64 - 1}

var c10Ccs = []string{"bbr", "reno"}

// header values that an HTTP/3 stack will carry (no CTLs other than HTAB)
func c10WireJunk() []string {
	return []string{
		"", "auto", "Auto", "auto ", " auto", "autoo", "-1", "+1", "-0", " 100000", "100000 ", "\t100000", " 100000 ",
		"1e6", "0x10000", "1_000_000", "100000.0", "1,000,000", "65536B", "abc", "１２３", "\xff",
		"00065536", "0000000000000000000000000000065537", "0", "00",
		"18446744073709551615", "18446744073709551616", "18446744073709551620", "99999999999999999999",
		"99999999999999999999x", "x99999999999999999999", "184467440737095516150", strings.Repeat("9", 60),
		"9223372036854775808", "1", "65535",
	}
}

func c10Hexv(s string) string { return vh.Hex([]byte(s)) }

func c10Shuffled(r *vh.RNG, n int) []int {
	p := make([]int, n)
	for i := range p {
		p[i] = i
	}
	for i := n - 1; i > 0; i-- {
		j := r.Intn(i + 1)
		p[i], p[j] = p[j], p[i]
	}
	return p
}

func (c *c10Comp) Gen(r *vh.RNG, n int, emit func(op string, tags ...string)) {
	// server.Config floor
	for _, p := range [][2]uint64{{0, 0}, {65536, 65536}, {65535, 0}, {0, 65535}, {1, 0}, {0, 1}, {65537, 65535}, {1<<64 - 1, 1 << 63}} {
		emit(fmt.Sprintf("scfg %d %d", p[0], p[1]), "scfg")
	}
	// raw clients: hand-crafted Hysteria-CC-RX against real servers
	type sc struct {
		up, down uint64
		ign      bool
		cc       string
	}
	scs := []sc{{65536, 1000000, false, "bbr"}, {0, 0, false, "reno"}, {1 << 63, 65537, false, "bbr"}, {1000000, 65536, true, "bbr"}}
	junk := c10WireJunk()
	emitRawCli := func(vs string, s sc, tag string) {
		emit(fmt.Sprintf("rawcli %s %d %d %s %s", vs, s.up, s.down, c10B01(s.ign), s.cc), tag)
	}
	for i, s := range scs {
		emitRawCli(".", s, "rawcli-missing")
		for j, v := range junk {
			if i < 2 || (i+j)%3 == 0 {
				emitRawCli(c10Hexv(v), s, "rawcli")
			}
		}
		emitRawCli(c10Hexv("abc")+","+c10Hexv("70000"), s, "rawcli-multi")
		emitRawCli(c10Hexv("70000")+","+c10Hexv("abc"), s, "rawcli-multi")
	}
	// bare HTTP/3 server: hand-crafted Hysteria-CC-RX answered to real clients
	type cc struct {
		up, down uint64
		cc       string
	}
	ccfgs := []cc{{1000000, 65537, "bbr"}, {0, 0, "reno"}, {1<<64 - 1, 1, "bbr"}}
	for i, k := range ccfgs {
		emit(fmt.Sprintf("rawsrv . %d %d %s", k.up, k.down, k.cc), "rawsrv-missing")
		for j, v := range junk {
			if i == 0 || (i+j)%3 == 0 {
				emit(fmt.Sprintf("rawsrv %s %d %d %s", c10Hexv(v), k.up, k.down, k.cc), "rawsrv")
			}
		}
		emit(fmt.Sprintf("rawsrv %s,%s %d %d %s", c10Hexv("auto"), c10Hexv("70000"), k.up, k.down, k.cc), "rawsrv-multi")
		emit(fmt.Sprintf("rawsrv %s,%s %d %d %s", c10Hexv("70000"), c10Hexv("auto"), k.up, k.down, k.cc), "rawsrv-multi")
	}
	// the grid {0, 65536, 65537, 10^6, 2^63, 2^64-1}^4 x ignore x {bbr, reno}
	g := len(c10Grid)
	full := g * g * g * g * 2 * 2
	hs := func(cUp, cDown, sUp, sDown uint64, ign bool, sCC, cCC, tag string) {
		emit(fmt.Sprintf("hs %d %d %d %d %s %s %s", cUp, cDown, sUp, sDown, c10B01(ign), sCC, cCC), tag)
	}
	if n >= full {
		for _, ccT := range c10Ccs {
			for ign := 0; ign < 2; ign++ {
				for _, sUp := range c10Grid {
					for _, sDown := range c10Grid {
						for _, cUp := range c10Grid {
							for _, cDown := range c10Grid {
								hs(cUp, cDown, sUp, sDown, ign == 1, ccT, ccT, "grid")
							}
						}
					}
				}
			}
		}
		n -= full
	} else {
		// sampled: walk two independent shuffles of the 72 (declared, own, ignore) triples of
		// the server's rule and of the client's rule, so every triple of either rule is
		// visited once per 72 samples
		nt := g * g * 2
		var ps, pc []int
		for i := 0; i < n; i++ {
			if i%nt == 0 {
				ps, pc = c10Shuffled(r, nt), c10Shuffled(r, nt)
			}
			a, b := ps[i%nt], pc[i%nt]
			cDown, sUp := c10Grid[a%g], c10Grid[(a/g)%g]
			sDown, cUp := c10Grid[b%g], c10Grid[(b/g)%g]
			ign := a/(g*g) == 1
			if i%2 == 1 {
				ign = b/(g*g) == 1
			}
			ccT := c10Ccs[r.Intn(2)]
			hs(cUp, cDown, sUp, sDown, ign, ccT, ccT, "grid-sample")
		}
		n = 0
	}
	// extras (thorough): off-grid values, small client values, mixed controller types
	cvals := []uint64{1, 2, 65535, 65536, 99999, 1<<32 + 7, 1<<63 - 1, 1<<63 + 1, 1<<64 - 2}
	svals := []uint64{0, 65536, 65538, 123456, 1 << 40, 1<<63 - 1, 1<<63 + 1, 1<<64 - 2}
	for i := 0; i < n; i++ {
		pick := func(xs []uint64) uint64 {
			if r.Chance(1, 4) {
				return c10Grid[r.Intn(g)]
			}
			if r.Chance(1, 4) {
				return 65536 + r.U64()>>uint(r.Range(1, 60))
			}
			return xs[r.Intn(len(xs))]
		}
		hs(pick(cvals), pick(cvals), pick(svals), pick(svals), r.Chance(1, 4), c10Ccs[r.Intn(2)], c10Ccs[r.Intn(2)], "extra")
	}
}

func c10B01(b bool) string {
	if b {
		return "1"
	}
	return "0"
}
