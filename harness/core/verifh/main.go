//go:build verif

// verif-core: correspondence harness for module core (overlaid at /repo/core/verifh).
package main

import (
	"github.com/apernet/hysteria/core/v2/internal/protocol"
	"github.com/apernet/hysteria/core/v2/verifhlib"
)

func init() {
	verifhlib.RegisterConsts(func() map[string]any {
		m := map[string]any{}
		for k, v := range protocol.VerifConsts() {
			m[k] = v
		}
		return m
	})
}

func main() { verifhlib.Main() }
