//go:build verif

package main

import (
	"github.com/apernet/hysteria/core/v2/server"
	vh "github.com/apernet/hysteria/core/v2/verifhlib"
)

func init() {
	vh.RegisterConsts(func() map[string]any {
		m := map[string]any{}
		for k, v := range server.VerifC06Consts() {
			m[k] = v
		}
		return m
	})
}
