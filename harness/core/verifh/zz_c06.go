//go:build verif

package main

// C06: the components `relay` and `relaylb` (and the constants of core/server's copy
// loop) register themselves from their own package, so that their helper names cannot
// collide with other properties' files in this package.
import _ "github.com/apernet/hysteria/core/v2/verifh/relayc06"
