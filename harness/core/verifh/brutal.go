//go:build verif

package main

import (
	"fmt"
	"math"
	"math/big"
	"math/bits"
	"strconv"
	"strings"
	"time"

	"github.com/apernet/quic-go/congestion"
	"github.com/apernet/quic-go/monotime"

	"github.com/apernet/hysteria/core/v2/internal/congestion/brutal"
	"github.com/apernet/hysteria/core/v2/internal/congestion/common"
	vh "github.com/apernet/hysteria/core/v2/verifhlib"
)

// C11: the REAL BrutalSender and Pacer driven on a virtual clock (every time is an
// argument of the operation; no real clock is read).
//
// ops (decimal; every op ends with the observation point `now inflight`):
//
//	reset <bps> <nocomp> <now> <inflight>
//	rtt <ns> <now> <inflight>
//	mds <size> <now> <inflight>
//	send <t> <size> <now> <inflight>      a packet the pacer is supposed to have released
//	usend <t> <size> <now> <inflight>     a packet reported to OnPacketSent although the pacer did not
//	                                      release it (ACK-only, PTO probe, path-MTU probe): any size
//	gsend <t> <size> <now> <inflight>     sent only if HasPacingBudget(t) and size ≤ one datagram
//	ack <t> <nAck> <nLoss> <now> <inflight>
//	q <now> <inflight>
//
// Model-free oracles (they only use the configured rate, the sizes and times of the
// operations themselves, and what the implementation answered):
//
//	O1 ackRate ∈ [0.8, 1]; it is 1 with compensation disabled
//	O2 ackRate = max(0.8, acked/(acked+lost)) over the events of seconds (now-5, now] when
//	   these hold ≥ 50 samples, else 1 (recomputed from the harness's own event log; time
//	   non-decreasing)
//	O3 bps ≤ getBandwidth() ≤ ⌊bps·5/4⌋ (= bps when compensation is disabled)
//	O4 GetCongestionWindow() ≥ maxDatagramSize (datagrams ≤ 10240) and CanSend(0)
//	O5 t := TimeUntilSend(); t ≠ 0 → HasPacingBudget(t) and HasPacingBudget(t+δ);
//	   t = 0 → HasPacingBudget(now) for now ≥ lastSentTime
//	O6 while every `send` was released by HasPacingBudget and is ≤ one datagram (`usend`s of any
//	   size may occur in between and are not counted): for every window [t_i, t_j] of paced
//	   sends, Σ paced bytes ≤ max(B·4ms, 10·M) + B·(t_j−t_i)/10⁹ with
//	   B = ⌊bps·5/4⌋ (bps when compensation is disabled) and M the largest datagram size set
//	O7 Budget(now) ≤ max(B·4ms, 10·M)
func init() {
	vh.Register("brutal", func() vh.Component { return &brutalComp{} })
	vh.RegisterConsts(func() map[string]any {
		m := map[string]any{}
		for k, v := range common.VerifC11Consts() {
			m[k] = v
		}
		for k, v := range brutal.VerifC11Consts() {
			m[k] = v
		}
		return m
	})
}

type c11RTT struct{ srtt time.Duration }

func (r *c11RTT) MinRTT() time.Duration                       { return r.srtt }
func (r *c11RTT) LatestRTT() time.Duration                    { return r.srtt }
func (r *c11RTT) SmoothedRTT() time.Duration                  { return r.srtt }
func (r *c11RTT) MeanDeviation() time.Duration                { return 0 }
func (r *c11RTT) MaxAckDelay() time.Duration                  { return 0 }
func (r *c11RTT) PTO(bool) time.Duration                      { return 0 }
func (r *c11RTT) UpdateRTT(sendDelta, ackDelay time.Duration) {}
func (r *c11RTT) SetMaxAckDelay(time.Duration)                {}
func (r *c11RTT) SetInitialRTT(time.Duration)                 {}

type c11Send struct {
	t    int64
	size int64
}

type c11Ev struct {
	sec       int64
	ack, loss uint64
}

type brutalComp struct {
	bs     *brutal.BrutalSender
	rtt    *c11RTT
	bps    uint64
	nocomp bool
	// oracle bookkeeping (model-free)
	gated     bool // every send so far was released by HasPacingBudget and ≤ one datagram
	maxMds    int64
	sends     []c11Send
	evs       []c11Ev
	lastEvSec int64
	evMono    bool
	inRange   bool // no operation so far left the "rate × gap fits 63 bits" range
	lastT     int64
	// only the first failing op of a history is reported, and at most c11MaxReports
	// histories per run (a broken pacer fails on nearly every op)
	reported bool
	reports  int
}

const c11MaxReports = 12

const c11Start = int64(3600) * 1e9 // monotime.Now() starts one hour in

func (c *brutalComp) reset(bps uint64, nocomp bool) {
	c.bs = brutal.NewBrutalSender(bps, nocomp)
	c.rtt = &c11RTT{}
	c.bs.SetRTTStatsProvider(c.rtt)
	c.bps, c.nocomp = bps, nocomp
	c.gated, c.maxMds, c.sends, c.evs = true, int64(congestion.InitialPacketSize), nil, nil
	c.lastEvSec, c.evMono, c.inRange, c.lastT = 0, true, true, 0
	c.reported = false
}

// ---------------------------------------------------------------- oracle arithmetic

func (c *brutalComp) rateCap() *big.Int {
	b := new(big.Int).SetUint64(c.bps)
	if c.nocomp {
		return b
	}
	b.Mul(b, big.NewInt(5))
	return b.Div(b, big.NewInt(4))
}

// burst allowance of the property: the larger of 4 ms at the rate cap and ten datagrams
func (c *brutalComp) burstCap() *big.Int {
	a := new(big.Int).Mul(c.rateCap(), big.NewInt(4_000_000))
	a.Div(a, big.NewInt(1_000_000_000))
	b := big.NewInt(10 * c.maxMds)
	if a.Cmp(b) < 0 {
		return b
	}
	return a
}

// fits63 reports whether rateCap × gap stays below 2^63
func (c *brutalComp) fits63(gap int64) bool {
	if gap < 0 {
		return false
	}
	p := new(big.Int).Mul(c.rateCap(), big.NewInt(gap))
	return p.BitLen() <= 63
}

// gapOK: the range condition for evaluating Budget at time t; before the first send the
// pacer does not look at the clock
func (c *brutalComp) gapOK(last, t int64) bool { return last == 0 || c.fits63(t-last) }

func (c *brutalComp) expectedAckRate(nowSec int64) float64 {
	if c.nocomp {
		return 1
	}
	var a, l uint64
	for _, e := range c.evs {
		if e.sec > nowSec-5 && e.sec <= nowSec {
			a += e.ack
			l += e.loss
		}
	}
	if a+l < 50 {
		return 1
	}
	// max(4/5, a/(a+l)) decided on the integers, then the nearest float64
	if 5*a < 4*(a+l) {
		return 0.8
	}
	return float64(a) / float64(a+l)
}

// ---------------------------------------------------------------- Run

func b01c11(b bool) string {
	if b {
		return "1"
	}
	return "0"
}

func (c *brutalComp) observe(now, inflight int64) (string, []string) {
	var orc []string
	bs := c.bs
	p := bs.VerifC11Pacer()
	b, mds, last := p.VerifC11State()
	bw := p.VerifC11Bandwidth()
	mb := p.VerifC11MaxBurst()
	bud := int64(p.Budget(monotime.Time(now)))
	hpb := bs.HasPacingBudget(monotime.Time(now))
	tusS, tusPanic := vh.GuardMsg(func() string { return strconv.FormatInt(int64(bs.TimeUntilSend(0)), 10) })
	cs := bs.CanSend(congestion.ByteCount(inflight))
	cwnd := int64(bs.GetCongestionWindow())
	ar := bs.VerifC11AckRate()
	var sl []string
	for _, s := range bs.VerifC11Slots() {
		sl = append(sl, fmt.Sprintf("%d:%d:%d", int64(s[0]), s[1], s[2]))
	}
	out := fmt.Sprintf("ok b=%d last=%d mds=%d bw=%d mb=%d bud=%d hpb=%s tus=%s cs=%s cwnd=%d ar=%016x slots=%s fq=1",
		b, last, mds, bw, mb, bud, b01c11(hpb), tusS, b01c11(cs), cwnd, math.Float64bits(ar), strings.Join(sl, ","))

	// O1
	if !(ar >= 0.8 && ar <= 1) {
		orc = append(orc, fmt.Sprintf("ackRate %v outside [0.8, 1]", ar))
	}
	if c.nocomp && ar != 1 {
		orc = append(orc, fmt.Sprintf("ackRate %v with loss compensation disabled", ar))
	}
	// O3
	capB := c.rateCap()
	if bw < 0 || uint64(bw) < c.bps || big.NewInt(bw).Cmp(capB) > 0 {
		orc = append(orc, fmt.Sprintf("pacer bandwidth %d outside [bps, cap] = [%d, %s]", bw, c.bps, capB))
	}
	// O4
	bmds := bs.VerifC11MaxDatagramSize()
	if bmds <= 10240 && cwnd < bmds {
		orc = append(orc, fmt.Sprintf("congestion window %d below one datagram (%d)", cwnd, bmds))
	}
	if !bs.CanSend(0) {
		orc = append(orc, "CanSend(0) is false: the sender can never start")
	}
	// O5 (only meaningful with a usable rate and in range)
	if tusPanic != "" {
		orc = append(orc, "TimeUntilSend panicked: "+tusPanic)
	} else if c.bps > 0 && c.inRange && bmds == mds {
		tus, _ := strconv.ParseInt(tusS, 10, 64)
		if tus != 0 {
			for _, d := range []int64{0, 1, 999, 1_000_000} {
				if c.gapOK(last, tus+d) && !bs.HasPacingBudget(monotime.Time(tus+d)) {
					orc = append(orc, fmt.Sprintf("no budget for a datagram at the announced wake-up time %d (+%d): budget %d < %d",
						tus, d, int64(p.Budget(monotime.Time(tus+d))), mds))
					break
				}
			}
		} else if now >= last && c.gapOK(last, now) && !hpb {
			orc = append(orc, fmt.Sprintf("TimeUntilSend says 'now' but HasPacingBudget(%d) is false (budget %d < %d)", now, bud, mds))
		}
	}
	// O7
	if c.bps > 0 && c.inRange && now >= last && c.gapOK(last, now) && big.NewInt(bud).Cmp(c.burstCap()) > 0 {
		orc = append(orc, fmt.Sprintf("Budget(%d) = %d exceeds the burst allowance %s", now, bud, c.burstCap()))
	}
	return out, orc
}

// mulDiv1e9 returns ⌊a·b/10⁹⌋ (a, b ≥ 0) computed in 128 bits; ok=false if it does not fit 64 bits
func mulDiv1e9(a, b uint64) (uint64, bool) {
	hi, lo := bits.Mul64(a, b)
	if hi >= 1_000_000_000 {
		return 0, false
	}
	q, _ := bits.Div64(hi, lo, 1_000_000_000)
	return q, true
}

// window check for the newest send against every earlier one
func (c *brutalComp) checkWindows() []string {
	j := len(c.sends) - 1
	capB, burst := c.rateCap(), c.burstCap()
	if !capB.IsUint64() || !burst.IsUint64() {
		return nil
	}
	cb, bu := capB.Uint64(), burst.Uint64()
	var sum uint64
	for i := j; i >= 0; i-- {
		sum += uint64(c.sends[i].size)
		acc, ok := mulDiv1e9(cb, uint64(c.sends[j].t-c.sends[i].t))
		if !ok || acc > math.MaxUint64-bu {
			break // the allowance no longer fits 64 bits: far above anything sent
		}
		if allowed := bu + acc; sum > allowed {
			return []string{fmt.Sprintf("rate bound exceeded: %d bytes released in [%d, %d] (%d ns, %d sends), allowed burst %d + %d B/s × interval = %d",
				sum, c.sends[i].t, c.sends[j].t, c.sends[j].t-c.sends[i].t, j-i+1, bu, cb, allowed)}
		}
	}
	return nil
}

func (c *brutalComp) Run(op string) vh.Result {
	f := strings.Fields(op)
	if len(f) < 3 {
		return vh.Result{Out: "bad-op"}
	}
	xs := make([]int64, 0, len(f)-1)
	for _, s := range f[1:] {
		v, err := strconv.ParseInt(s, 10, 64)
		if err != nil {
			return vh.Result{Out: "bad-op"}
		}
		xs = append(xs, v)
	}
	if c.bs == nil && f[0] != "reset" {
		c.reset(0, false) // mirrors the driver's initial state
	}
	var orc []string
	nontrivial := false
	now, infl := xs[len(xs)-2], xs[len(xs)-1]
	switch {
	case f[0] == "reset" && len(xs) == 4 && xs[0] >= 0 && (xs[1] == 0 || xs[1] == 1):
		c.reset(uint64(xs[0]), xs[1] == 1)
	case f[0] == "rtt" && len(xs) == 3:
		c.rtt.srtt = time.Duration(xs[0])
	case f[0] == "mds" && len(xs) == 3:
		c.bs.SetMaxDatagramSize(congestion.ByteCount(xs[0]))
		if xs[0] > c.maxMds {
			c.maxMds = xs[0]
		}
	case (f[0] == "send" || f[0] == "usend" || f[0] == "gsend") && len(xs) == 4:
		t, size := xs[0], xs[1]
		_, mds, last := c.bs.VerifC11Pacer().VerifC11State()
		hpb := c.bs.HasPacingBudget(monotime.Time(t))
		if f[0] == "gsend" && !(hpb && size >= 0 && size <= mds) {
			break // the pacer holds the packet back: nothing is sent
		}
		if last != 0 && !c.fits63(t-last) {
			c.inRange = false
		}
		paced := f[0] != "usend"
		if t <= 0 || t < c.lastT || size < 0 || (paced && (size > mds || !hpb)) {
			c.gated = false
		}
		c.lastT = t
		c.bs.OnPacketSent(monotime.Time(t), congestion.ByteCount(infl), 0, congestion.ByteCount(size), true)
		nontrivial = true
		if paced && c.gated && c.inRange {
			c.sends = append(c.sends, c11Send{t, size})
			orc = append(orc, c.checkWindows()...)
		}
	case f[0] == "ack" && len(xs) == 5 && xs[0] >= 0 && xs[1] >= 0 && xs[2] >= 0:
		t := xs[0]
		sec := t / 1e9
		if sec < c.lastEvSec {
			c.evMono = false
		}
		c.lastEvSec = sec
		c.evs = append(c.evs, c11Ev{sec, uint64(xs[1]), uint64(xs[2])})
		c.bs.OnCongestionEventEx(congestion.ByteCount(infl), monotime.Time(t),
			make([]congestion.AckedPacketInfo, xs[1]), make([]congestion.LostPacketInfo, xs[2]))
		nontrivial = true
		// O2
		if c.evMono {
			want := c.expectedAckRate(sec)
			if got := c.bs.VerifC11AckRate(); math.Float64bits(got) != math.Float64bits(want) {
				orc = append(orc, fmt.Sprintf("ackRate %v, but the events of the last five seconds give %v", got, want))
			}
		}
	case f[0] == "q" && len(xs) == 2:
	default:
		return vh.Result{Out: "bad-op"}
	}
	out, o2 := c.observe(now, infl)
	orc = append(orc, o2...)
	if len(orc) > 0 {
		if c.reported || c.reports >= c11MaxReports {
			orc = nil
		} else {
			c.reported = true
			c.reports++
		}
	}
	return vh.Result{Out: out, NonTrivial: nontrivial, Oracle: orc}
}

// ---------------------------------------------------------------- Gen

var c11Rates = []uint64{65536, 65537, 100_000, 1_000_000, 12_500_000, 125_000_000, 1_250_000_000, 10_000_000_000, 40_000_000_000}

func c11LogUniform(r *vh.RNG, lo, hi uint64) uint64 {
	l := math.Log(float64(lo)) + (math.Log(float64(hi))-math.Log(float64(lo)))*float64(r.Intn(1<<20))/float64(1<<20)
	v := uint64(math.Exp(l))
	if v < lo {
		v = lo
	}
	if v > hi {
		v = hi
	}
	return v
}

// largest gap (ns) with rateCap × gap < 2^63, capped at two hours
func (c *brutalComp) maxGap() int64 {
	q := new(big.Int).Lsh(big.NewInt(1), 63)
	q.Sub(q, big.NewInt(1))
	q.Div(q, c.rateCap())
	lim := int64(7200) * 1e9
	if q.IsInt64() && q.Int64() < lim {
		return q.Int64()
	}
	return lim
}

func (c *brutalComp) Gen(r *vh.RNG, n int, emit func(op string, tags ...string)) {
	emitted := 0
	e := func(tag string, format string, a ...any) {
		emit(fmt.Sprintf(format, a...), tag)
		emitted++
	}
	for emitted < n {
		// ---- one history
		bps := c11Rates[r.Intn(len(c11Rates))]
		if r.Chance(1, 2) {
			bps = c11LogUniform(r, 65536, 40_000_000_000)
		}
		wild := r.Chance(1, 5) // ungated sends, backward time, out-of-range gaps, tiny rates: differential only
		if wild && r.Chance(1, 4) {
			bps = uint64(r.Pick([]int{1, 2, 100, 1000, 65535}))
		}
		nocomp := r.Chance(1, 6)
		now := c11Start + int64(r.Intn(1_000_000_000))
		if r.Chance(1, 8) {
			now = int64(r.Range(1, 3_000_000_000)) // the first seconds of the clock: window reaches below 0
		}
		infl := func() int64 {
			if c.bs == nil || r.Chance(1, 3) {
				return 0
			}
			w := int64(c.bs.GetCongestionWindow())
			return w + int64(r.Range(-2, 2))*int64(r.Pick([]int{0, 1, 1, 1000}))
		}
		obs := func(t int64) int64 { // observation time at or after t
			switch r.Intn(4) {
			case 0:
				return t
			case 1:
				return t + int64(r.Intn(1000))
			case 2:
				return t + int64(r.Intn(2_000_000))
			}
			return t + int64(r.Intn(50_000_000))
		}
		tag := "gated"
		if wild {
			tag = "wild"
		}
		e(tag+":reset", "reset %d %s %d %d", bps, b01c11(nocomp), now, 0)
		mds := int64(1280)
		if r.Chance(2, 3) {
			mds = int64(r.Pick([]int{1200, 1252, 1280, 1350, 1452, 1500}))
			e(tag+":mds", "mds %d %d %d", mds, now, infl())
		}
		if r.Chance(3, 4) {
			e(tag+":rtt", "rtt %d %d %d", c11RTTValue(r), now, infl())
		}
		steps := r.Range(20, 140)
		ackClock := now
		for s := 0; s < steps && emitted < n+300; s++ {
			k := r.Intn(100)
			switch {
			case k < 55: // the QUIC send loop: send while the pacer allows, else sleep until the announced time
				burst := 1
				if r.Chance(1, 4) {
					burst = r.Range(2, 30)
				}
				for i := 0; i < burst; i++ {
					size := mds
					if r.Chance(1, 5) {
						size = int64(r.Range(1, int(mds)))
					}
					if wild && r.Chance(1, 6) {
						size = mds * int64(r.Range(1, 30)) // not gated: may exceed the budget
						e(tag+":send-ungated", "send %d %d %d %d", now, size, obs(now), infl())
						continue
					}
					if c.bs.HasPacingBudget(monotime.Time(now)) {
						e(tag+":send", "send %d %d %d %d", now, size, obs(now), infl())
						continue
					}
					// pacing limited: wait until the announced time (sometimes a little later)
					tus := int64(c.bs.TimeUntilSend(0))
					if tus > now {
						now = tus
					}
					if r.Chance(1, 3) {
						now += int64(r.Intn(3_000_000))
					}
					if c.bs.HasPacingBudget(monotime.Time(now)) {
						e(tag+":send-after-wait", "send %d %d %d %d", now, size, obs(now), infl())
					} else {
						e(tag+":wake-without-budget", "q %d %d", now, infl())
					}
				}
			case k < 60: // packets that bypass the pacer while it is limiting, then the send loop resumes at once
				for i := 0; i < 40 && c.bs.HasPacingBudget(monotime.Time(now)); i++ {
					e(tag+":send-drain", "send %d %d %d %d", now, mds, now, infl())
				}
				for cyc := r.Range(1, 3); cyc > 0; cyc-- {
					for u := r.Range(1, 3); u > 0; u-- {
						var size int64
						kind := ""
						switch r.Intn(4) {
						case 0:
							size, kind = int64(r.Range(30, 80)), "usend-ack"
						case 1:
							size, kind = int64(r.Range(200, int(mds))), "usend-probe"
						case 2:
							size, kind = mds, "usend-probe"
						default:
							size, kind = mds+int64(r.Range(1, 300)), "usend-mtu"
						}
						e(tag+":"+kind, "usend %d %d %d %d", now, size, now, infl())
					}
					if r.Chance(1, 3) {
						e(tag+":gsend", "gsend %d %d %d %d", now, mds, now, infl())
					}
					for i := 0; i < 30 && c.bs.HasPacingBudget(monotime.Time(now)); i++ {
						e(tag+":send-after-unpaced", "send %d %d %d %d", now, mds, now, infl())
					}
					if r.Chance(1, 2) {
						now += int64(r.Intn(100_000))
					}
				}
			case k < 66: // idle gap
				g := c.maxGap()
				var d int64
				switch r.Intn(5) {
				case 0:
					d = int64(r.Intn(1_000_000))
				case 1:
					d = int64(r.Intn(1_000_000_000))
				case 2:
					d = g - int64(r.Intn(3))
				case 3:
					d = int64(r.U64() % uint64(g+1))
				default:
					d = int64(r.Intn(8)) * 1_000_000_000
				}
				if d > g {
					d = g
				}
				if wild && r.Chance(1, 3) {
					d = g + 1 + int64(r.U64()%uint64(4*g+1)) // beyond "rate × gap fits 63 bits"
					if d > int64(1)<<61 {
						d = int64(1) << 61
					}
					now += d
					e(tag+":idle-out-of-range", "q %d %d", now, infl())
					break
				}
				now += d
				e(tag+":idle", "q %d %d", now, infl())
			case k < 68 && wild: // time running backwards (not a QUIC behaviour)
				back := now - int64(r.Intn(2_000_000_000))
				if back < 1 {
					back = 1
				}
				e(tag+":backward", "q %d %d", back, infl())
			case k < 90: // ack / loss batches
				ackClock = now
				if wild && r.Chance(1, 5) { // an event stamped in the past (not a QUIC behaviour)
					ackClock = now - int64(r.Intn(7_000_000_000))
					if ackClock < 0 {
						ackClock = 0
					}
				}
				var a, l int
				switch r.Intn(8) {
				case 0:
					a, l = r.Pick([]int{49, 50, 51, 0, 1}), 0
				case 1:
					t := r.Pick([]int{49, 50, 51, 100, 1000})
					l = t / 5
					a = t - l + r.Range(-1, 1) // around the 0.8 clamp
				case 2:
					a, l = 0, r.Range(0, 60)
				case 3:
					a, l = r.Range(0, 12), r.Range(0, 3)
				case 4:
					a, l = r.Range(0, 2000), r.Range(0, 600)
				default:
					a, l = r.Range(0, 100), r.Range(0, 14)
				}
				if a < 0 {
					a = 0
				}
				e(tag+":ack", "ack %d %d %d %d %d", ackClock, a, l, obs(now), infl())
				if r.Chance(1, 2) {
					now += int64(r.Pick([]int{1000, 1_000_000, 200_000_000, 999_999_999, 1_000_000_000, 1_300_000_000}))
				}
				if r.Chance(1, 12) {
					now += int64(r.Range(3, 7)) * 1_000_000_000 // let slots expire
				}
			case k < 94: // path MTU discovery raises the datagram size
				nm := mds + int64(r.Range(1, 120))
				if r.Chance(1, 10) {
					nm = int64(r.Pick([]int{9000, 10240, 1500, 1452}))
				}
				if wild && r.Chance(1, 6) {
					nm = int64(r.Pick([]int{20000, 65535, 1200}))
				}
				if nm > mds || wild {
					mds = nm
					e(tag+":mds", "mds %d %d %d", mds, obs(now), infl())
				}
			case k < 97:
				e(tag+":rtt", "rtt %d %d %d", c11RTTValue(r), obs(now), infl())
			default:
				now += int64(r.Intn(20_000_000))
				e(tag+":q", "q %d %d", obs(now), infl())
			}
		}
	}
}

func c11RTTValue(r *vh.RNG) int64 {
	switch r.Intn(7) {
	case 0:
		return 0
	case 1:
		return int64(r.Range(1, 1000))
	case 2:
		return int64(r.Range(1, 1000)) * 1000
	case 3:
		return int64(r.Range(1, 400)) * 1_000_000
	case 4:
		return int64(r.Pick([]int{999_999_999, 1_000_000_000, 1_000_000_001, 2_500_000_000}))
	case 5:
		return int64(r.Intn(60_000)) * 1_000_000
	}
	return int64(r.U64() % 3_000_000_000)
}
