//go:build verif

package main

import (
	"fmt"
	"go/ast"
	"go/parser"
	"go/token"
	"path/filepath"
	"reflect"
	"runtime"
	"strconv"
	"strings"

	"github.com/apernet/hysteria/core/v2/client"
	vh "github.com/apernet/hysteria/core/v2/verifhlib"
)

// Component `cudp` (C03, replies arriving at a client): the REAL client udpSessionManager.
//
//	reset <chanSize>   fresh manager (chanSize = the compiled udpMessageChanSize, handed to the model)
//	new                NewUDP                       -> new <id> | closed
//	feed <id>          one reply for session id     -> unknown | deliver | drop | panic:<text>
//	recv <id>          one non-blocking receive     -> msg | empty | eof | nosuch
//	close <id>         udpConn.Close (idempotent)   -> ok | nosuch
//	closeall           the receive loop ends        -> ok
//	race <n>           n fresh sessions, each fed by two goroutines while the application closes it
//	                   (the goroutines' interleaving is the Go scheduler's)  -> ok | closed | panic:<text>
func init() {
	vh.Register("cudp", func() vh.Component { return &cudpComp{} })
	vh.RegisterConsts(cudpShapeFacts)
}

type cudpComp struct {
	m *client.VerifC03Mgr
}

func (c *cudpComp) Gen(r *vh.RNG, n int, emit func(op string, tags ...string)) {
	for n > 0 {
		emit(fmt.Sprintf("reset %d", client.VerifC03ChanSize), "reset")
		n--
		steps := r.Range(5, 60)
		next := 1
		big := r.Chance(1, 12) // fill one queue to the brim
		for i := 0; i < steps && n > 0; i++ {
			pickID := func() int {
				switch r.Intn(10) {
				case 0:
					return r.Intn(next + 3) // possibly unknown
				case 1:
					return 0
				default:
					if next == 1 {
						return 1
					}
					return r.Range(1, next-1)
				}
			}
			switch k := r.Intn(100); {
			case k < 20:
				emit("new", "new")
				next++
			case k < 55:
				emit(fmt.Sprintf("feed %d", pickID()), "feed")
			case k < 70:
				emit(fmt.Sprintf("recv %d", pickID()), "recv")
			case k < 85:
				emit(fmt.Sprintf("close %d", pickID()), "close")
			case k < 90:
				emit("closeall", "closeall")
			case k < 95 && big && next > 1:
				id := r.Range(1, next-1)
				for j := 0; j < int(client.VerifC03ChanSize)+3 && n > 0; j++ {
					emit(fmt.Sprintf("feed %d", id), "feed-fill")
					n--
				}
			default:
				rounds := r.Pick([]int{1, 3, 20, 100})
				emit(fmt.Sprintf("race %d", rounds), "race")
				next += rounds
			}
			n--
		}
	}
}

func (c *cudpComp) Run(op string) vh.Result {
	f := strings.Fields(op)
	res := vh.Result{}
	bad := func() vh.Result { res.Out = "bad-op"; return res }
	if len(f) == 0 {
		return bad()
	}
	arg := func() (uint32, bool) {
		if len(f) != 2 {
			return 0, false
		}
		v, err := strconv.ParseUint(f[1], 10, 32)
		return uint32(v), err == nil
	}
	if f[0] == "reset" {
		if c.m != nil {
			c.m.CloseAll()
		}
		c.m = client.VerifC03New()
		res.Out = "ok"
		return res
	}
	if c.m == nil {
		c.m = client.VerifC03New()
	}
	panicked := func(p string) {
		res.Out = "panic:" + p
		res.Oracle = append(res.Oracle, "client receive side PANICS on a reply from the server: "+p+" (op "+op+")")
	}
	switch f[0] {
	case "new":
		id, ok := c.m.New()
		if ok {
			res.Out = fmt.Sprintf("new %d", id)
		} else {
			res.Out = "closed"
		}
	case "feed":
		id, ok := arg()
		if !ok {
			return bad()
		}
		p, known, delivered := c.m.Feed(id)
		switch {
		case p != "":
			panicked(p)
		case !known:
			res.Out = "unknown"
		case delivered:
			res.Out = "deliver"
			res.NonTrivial = true
		default:
			res.Out = "drop"
			res.NonTrivial = true
		}
	case "recv":
		id, ok := arg()
		if !ok {
			return bad()
		}
		res.Out = c.m.Recv(id)
	case "close":
		id, ok := arg()
		if !ok {
			return bad()
		}
		p, known := c.m.Close(id)
		switch {
		case p != "":
			panicked(p)
		case known:
			res.Out = "ok"
		default:
			res.Out = "nosuch"
		}
	case "closeall":
		c.m.CloseAll()
		res.Out = "ok"
	case "race":
		n, ok := arg()
		if !ok {
			return bad()
		}
		p, made := c.m.Race(int(n))
		switch {
		case p != "":
			panicked(p)
		case made == 0 && n > 0:
			res.Out = "closed"
		default:
			res.Out = "ok"
			res.NonTrivial = true
		}
	default:
		return bad()
	}
	return res
}

// cudpShapeFacts: go/ast facts about core/client/udp.go (regenerated into Hy/Gen/Core.lean).
//
//	c03_feed_send_locked      1 iff, in udpSessionManager.feed, an m.mutex.RLock()/Lock() call precedes every
//	                          channel send and no m.mutex.RUnlock()/Unlock() that is not deferred precedes the last one
//	c03_close_callers_locked  1 iff every call of m.close(...) lies in a function (or function literal) whose body
//	                          calls m.mutex.Lock() and defers m.mutex.Unlock() before it
func cudpShapeFacts() map[string]any {
	out := map[string]any{"c03_cudp_parsed": 0, "c03_feed_send_locked": 0, "c03_close_callers_locked": 0,
		"c03_udpMessageChanSize": int(client.VerifC03ChanSize)}
	fn := runtime.FuncForPC(reflect.ValueOf(client.VerifC03New).Pointer())
	if fn == nil {
		return out
	}
	file, _ := fn.FileLine(fn.Entry())
	src := filepath.Join(cudpRepoClientDir(file), "udp.go")
	fset := token.NewFileSet()
	f, err := parser.ParseFile(fset, src, nil, 0)
	if err != nil {
		return out
	}
	out["c03_cudp_parsed"] = 1
	mutexCall := func(e ast.Expr, names ...string) bool {
		c, ok := e.(*ast.CallExpr)
		if !ok {
			return false
		}
		s, ok := c.Fun.(*ast.SelectorExpr)
		if !ok {
			return false
		}
		x, ok := s.X.(*ast.SelectorExpr)
		if !ok || x.Sel.Name != "mutex" {
			return false
		}
		for _, n := range names {
			if s.Sel.Name == n {
				return true
			}
		}
		return false
	}
	for _, d := range f.Decls {
		fd, ok := d.(*ast.FuncDecl)
		if !ok || fd.Body == nil || fd.Name.Name != "feed" || fd.Recv == nil {
			continue
		}
		var sends []token.Pos
		var lockPos, unlockPos token.Pos = token.NoPos, token.NoPos
		ast.Inspect(fd.Body, func(n ast.Node) bool {
			switch x := n.(type) {
			case *ast.SendStmt:
				sends = append(sends, x.Pos())
			case *ast.DeferStmt:
				return false // a deferred unlock runs at return
			case *ast.ExprStmt:
				if mutexCall(x.X, "RLock", "Lock") && lockPos == token.NoPos {
					lockPos = x.Pos()
				}
				if mutexCall(x.X, "RUnlock", "Unlock") && unlockPos == token.NoPos {
					unlockPos = x.Pos()
				}
			}
			return true
		})
		ok2 := len(sends) > 0 && lockPos != token.NoPos
		for _, s := range sends {
			if lockPos > s || (unlockPos != token.NoPos && unlockPos < s) {
				ok2 = false
			}
		}
		if ok2 {
			out["c03_feed_send_locked"] = 1
		}
	}
	// callers of m.close
	allLocked, calls := true, 0
	var visitBody func(body *ast.BlockStmt)
	visitBody = func(body *ast.BlockStmt) {
		var lockPos, deferUnlockPos token.Pos = token.NoPos, token.NoPos
		for _, st := range body.List {
			switch x := st.(type) {
			case *ast.ExprStmt:
				if mutexCall(x.X, "Lock") && lockPos == token.NoPos {
					lockPos = x.Pos()
				}
			case *ast.DeferStmt:
				if mutexCall(x.Call, "Unlock") && deferUnlockPos == token.NoPos {
					deferUnlockPos = x.Pos()
				}
			}
		}
		ast.Inspect(body, func(n ast.Node) bool {
			switch x := n.(type) {
			case *ast.FuncLit:
				visitBody(x.Body)
				return false
			case *ast.CallExpr:
				if s, ok := x.Fun.(*ast.SelectorExpr); ok && s.Sel.Name == "close" {
					if id, ok := s.X.(*ast.Ident); ok && id.Name == "m" {
						calls++
						if lockPos == token.NoPos || deferUnlockPos == token.NoPos || lockPos > x.Pos() || deferUnlockPos > x.Pos() {
							allLocked = false
						}
					}
				}
			}
			return true
		})
	}
	for _, d := range f.Decls {
		if fd, ok := d.(*ast.FuncDecl); ok && fd.Body != nil {
			visitBody(fd.Body)
		}
	}
	if allLocked && calls > 0 {
		out["c03_close_callers_locked"] = 1
	}
	return out
}

// the shim is compiled through -overlay: its recorded file name is the overlay TARGET inside the repo's
// core/client directory, so the directory of that name is the source directory
func cudpRepoClientDir(shimFile string) string { return filepath.Dir(shimFile) }
