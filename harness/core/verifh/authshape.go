//go:build verif

package main

// C01/C02 structural facts read from the CURRENT source of core/server/server.go with go/ast
// (regenerated into lean/Hy/Gen/AuthShape.lean on every run; the expectations are `rfl`
// obligations at the top of Hy/Props/C01.lean and C02.lean):
//
//	flagDecls        where an identifier named `authenticated` is declared (expected: one field of h3sHandler)
//	flagWrites       every assignment to <x>.authenticated: enclosing function, value, chain of enclosing if-conditions
//	                 (for the C01 facts flagWrites/authCalls/udpManagers/tcpSpawns the conditions that depend on the
//	                 request are left out: which requests count as authentication requests is C02's clause)
//	authCalls        every call of <..>.Authenticate: enclosing function, guards, and whether h.authMutex.Lock() and the
//	                 `if h.authenticated { ...; return }` re-check precede it in that function
//	udpManagers      every call of newUDPSessionManager: enclosing function, guards
//	tcpSpawns        every `go h.handleTCPRequest(..)`: enclosing function, guards
//	dispatcherHead   the first statement of ProxyStreamHijacker (condition and body)
//	handlerCtors     every call of newH3sHandler: enclosing function
//	respWrites       every use of the ResponseWriter parameter of ServeHTTP: the call it is part of, guards
//	shapeCond        the condition of the first `if` of ServeHTTP
//	h3ServerFields   the fields set in every http3.Server literal (expected: Handler and StreamDispatcher only - no
//	                 MaxHeaderBytes or other limit that would make quic-go answer a request itself)
//
// The component is driven like any other (`verif-core authshape -ops <file with one line "shape <path>">`).

import (
	"bytes"
	"fmt"
	"go/ast"
	"go/parser"
	"go/printer"
	"go/token"
	"sort"
	"strings"

	vh "github.com/apernet/hysteria/core/v2/verifhlib"
)

func init() { vh.Register("authshape", func() vh.Component { return authShapeComp{} }) }

type authShapeComp struct{}

func (authShapeComp) Gen(r *vh.RNG, n int, emit func(op string, tags ...string)) {}

func asText(fset *token.FileSet, n ast.Node) string {
	var b bytes.Buffer
	_ = printer.Fprint(&b, fset, n)
	// an atomic.Bool flag reads as the plain field (the facts are about WHERE it is read / written)
	return strings.ReplaceAll(strings.Join(strings.Fields(b.String()), " "), ".authenticated.Load()", ".authenticated")
}

func (authShapeComp) Run(op string) vh.Result {
	f := strings.Fields(op)
	if len(f) != 2 || f[0] != "shape" {
		return vh.Result{Out: "bad-op"}
	}
	fset := token.NewFileSet()
	file, err := parser.ParseFile(fset, f[1], nil, 0)
	if err != nil {
		return vh.Result{Out: "parse-error " + awTok(err.Error())}
	}
	facts := map[string][]string{}
	add := func(k, v string) { facts[k] = append(facts[k], v) }

	// declarations of the name `authenticated`
	ast.Inspect(file, func(n ast.Node) bool {
		switch x := n.(type) {
		case *ast.TypeSpec:
			if st, ok := x.Type.(*ast.StructType); ok {
				for _, fl := range st.Fields.List {
					for _, nm := range fl.Names {
						if nm.Name == "authenticated" {
							add("flagDecls", "field "+x.Name.Name+"."+nm.Name)
						}
					}
				}
			}
		case *ast.ValueSpec:
			for _, nm := range x.Names {
				if nm.Name == "authenticated" {
					add("flagDecls", "var "+nm.Name)
				}
			}
		case *ast.AssignStmt:
			if x.Tok == token.DEFINE {
				for _, l := range x.Lhs {
					if id, ok := l.(*ast.Ident); ok && id.Name == "authenticated" {
						add("flagDecls", "local "+id.Name)
					}
				}
			}
		}
		return true
	})

	for _, d := range file.Decls {
		fd, ok := d.(*ast.FuncDecl)
		if !ok || fd.Body == nil {
			continue
		}
		fname := fd.Name.Name
		if fd.Recv != nil && len(fd.Recv.List) == 1 {
			fname = strings.TrimPrefix(asText(fset, fd.Recv.List[0].Type), "*") + "." + fname
		}
		// name of the http.ResponseWriter parameter, if any
		rwName := ""
		for _, p := range fd.Type.Params.List {
			if asText(fset, p.Type) == "http.ResponseWriter" && len(p.Names) == 1 {
				rwName = p.Names[0].Name
			}
		}
		// name of the *http.Request parameter, if any
		reqName := ""
		for _, p := range fd.Type.Params.List {
			if asText(fset, p.Type) == "*http.Request" && len(p.Names) == 1 {
				reqName = p.Names[0].Name
			}
		}
		mentionsReq := func(e ast.Expr) bool {
			found := false
			ast.Inspect(e, func(n ast.Node) bool {
				if id, ok := n.(*ast.Ident); ok && reqName != "" && id.Name == reqName {
					found = true
				}
				return !found
			})
			return found
		}
		var stack []ast.Node
		// guardsOf(false): the chain of enclosing if-conditions; guardsOf(true): the same without the conditions that
		// depend on the REQUEST (which requests count as authentication requests is C02's clause, not C01's)
		guardsOf := func(dropReq bool) string {
			var g []string
			for i, n := range stack {
				ifs, ok := n.(*ast.IfStmt)
				if !ok || i+1 >= len(stack) {
					continue
				}
				if dropReq && mentionsReq(ifs.Cond) {
					continue
				}
				switch stack[i+1] {
				case ast.Node(ifs.Body):
					g = append(g, "if("+asText(fset, ifs.Cond)+")")
				case ifs.Else:
					g = append(g, "else("+asText(fset, ifs.Cond)+")")
				}
			}
			if len(g) == 0 {
				return "-"
			}
			return strings.Join(g, " > ")
		}
		guards := func() string { return guardsOf(false) }
		gate := func() string { return guardsOf(true) }
		inGo := func() bool {
			for _, n := range stack {
				if _, ok := n.(*ast.GoStmt); ok {
					return true
				}
			}
			return false
		}
		// statements of the function body seen so far, in source order (for "precedes" facts)
		var seenLock, seenRecheck bool
		ast.Inspect(fd.Body, func(n ast.Node) bool {
			if n == nil {
				stack = stack[:len(stack)-1]
				return false
			}
			stack = append(stack, n)
			switch x := n.(type) {
			case *ast.AssignStmt:
				for i, l := range x.Lhs {
					if se, ok := l.(*ast.SelectorExpr); ok && se.Sel.Name == "authenticated" {
						rhs := "?"
						if i < len(x.Rhs) {
							rhs = asText(fset, x.Rhs[i])
						}
						add("flagWrites", fmt.Sprintf("%s | %s %s %s | %s", fname, asText(fset, l), x.Tok, rhs, gate()))
					}
				}
			case *ast.CompositeLit:
				if x.Type != nil && asText(fset, x.Type) == "http3.Server" {
					var keys []string
					for _, el := range x.Elts {
						if kv, ok := el.(*ast.KeyValueExpr); ok {
							keys = append(keys, asText(fset, kv.Key))
						} else {
							keys = append(keys, "positional")
						}
					}
					sort.Strings(keys)
					add("h3ServerFields", fname+" | "+strings.Join(keys, ","))
				}
			case *ast.KeyValueExpr:
				if id, ok := x.Key.(*ast.Ident); ok && id.Name == "authenticated" {
					add("flagWrites", fmt.Sprintf("%s | literal %s | %s", fname, asText(fset, x.Value), gate()))
				}
			case *ast.UnaryExpr:
				if x.Op == token.AND {
					if se, ok := x.X.(*ast.SelectorExpr); ok && se.Sel.Name == "authenticated" {
						add("flagWrites", fmt.Sprintf("%s | address-taken | %s", fname, gate()))
					}
				}
			case *ast.IfStmt:
				if asText(fset, x.Cond) == "h.authenticated" && len(x.Body.List) > 0 {
					if _, ok := x.Body.List[len(x.Body.List)-1].(*ast.ReturnStmt); ok {
						seenRecheck = true
					}
				}
			case *ast.CallExpr:
				fun := asText(fset, x.Fun)
				// writes through an atomic.Bool: <x>.authenticated.Store(v) / Swap / CompareAndSwap
				if se, ok := x.Fun.(*ast.SelectorExpr); ok {
					if in, ok := se.X.(*ast.SelectorExpr); ok && in.Sel.Name == "authenticated" &&
						(se.Sel.Name == "Store" || se.Sel.Name == "Swap" || se.Sel.Name == "CompareAndSwap") && len(x.Args) > 0 {
						add("flagWrites", fmt.Sprintf("%s | %s = %s | %s", fname, asText(fset, in), asText(fset, x.Args[len(x.Args)-1]), gate()))
					}
				}
				switch {
				case fun == "h.authMutex.Lock":
					seenLock = true
				case strings.HasSuffix(fun, ".Authenticate"):
					lhs := "-"
					if len(stack) >= 2 {
						if as, ok := stack[len(stack)-2].(*ast.AssignStmt); ok {
							var ls []string
							for _, l := range as.Lhs {
								ls = append(ls, asText(fset, l))
							}
							lhs = strings.Join(ls, ",")
						}
					}
					add("authCalls", fmt.Sprintf("%s | %s = %s | %s | lock-before=%v recheck-before=%v", fname, lhs, fun, gate(), seenLock, seenRecheck))
				case fun == "newUDPSessionManager":
					add("udpManagers", fmt.Sprintf("%s | %s", fname, gate()))
				case fun == "newH3sHandler":
					add("handlerCtors", fname)
				case strings.HasSuffix(fun, ".handleTCPRequest"):
					add("tcpSpawns", fmt.Sprintf("%s | go=%v | %s", fname, inGo(), gate()))
				}
			case *ast.Ident:
				if rwName != "" && x.Name == rwName && x.Obj != nil && x.Obj.Kind == ast.Var {
					// the innermost enclosing call statement
					ctx := "?"
					for i := len(stack) - 1; i >= 0; i-- {
						if es, ok := stack[i].(*ast.ExprStmt); ok {
							if ce, ok := es.X.(*ast.CallExpr); ok {
								ctx = asText(fset, ce.Fun)
							}
							break
						}
						if _, ok := stack[i].(ast.Stmt); ok {
							ctx = fmt.Sprintf("%T", stack[i])
							break
						}
					}
					add("respWrites", fmt.Sprintf("%s | %s | %s", fname, ctx, guards()))
				}
			}
			return true
		})
		if fd.Name.Name == "ProxyStreamHijacker" && len(fd.Body.List) > 0 {
			if ifs, ok := fd.Body.List[0].(*ast.IfStmt); ok {
				add("dispatcherHead", fmt.Sprintf("if(%s) %s", asText(fset, ifs.Cond), asText(fset, ifs.Body)))
			} else {
				add("dispatcherHead", "not-an-if: "+asText(fset, fd.Body.List[0]))
			}
		}
		if fd.Name.Name == "ServeHTTP" && len(fd.Body.List) > 0 {
			if ifs, ok := fd.Body.List[0].(*ast.IfStmt); ok {
				add("shapeCond", asText(fset, ifs.Cond))
				add("shapeCond", fmt.Sprintf("statements=%d else=%v", len(fd.Body.List), ifs.Else != nil))
			} else {
				add("shapeCond", "not-an-if: "+asText(fset, fd.Body.List[0]))
			}
		}
	}
	// respWrites: the declaration of the parameter itself is not a use
	keys := make([]string, 0, len(facts))
	for k := range facts {
		keys = append(keys, k)
	}
	sort.Strings(keys)
	var parts []string
	for _, k := range keys {
		vs := facts[k]
		if k == "respWrites" { // a set (several uses per statement)
			sort.Strings(vs)
			var u []string
			for i, v := range vs {
				if i == 0 || v != vs[i-1] {
					u = append(u, v)
				}
			}
			vs = u
		}
		for _, v := range vs {
			parts = append(parts, k+"\t"+v)
		}
	}
	return vh.Result{Out: strings.Join(parts, "\x1f")}
}
