//go:build verif

// NOTE: the packet-id hunt below needs rand.Seed to take effect (math/rand's global source is
// what the send paths draw from); `//go:debug randseednop=0` for this binary is in c12.go.

package main

import (
	"bytes"
	"encoding/binary"
	"errors"
	"fmt"
	"hash/fnv"
	"math/rand"
	"strings"

	"github.com/apernet/quic-go"

	"github.com/apernet/hysteria/core/v2/client"
	"github.com/apernet/hysteria/core/v2/internal/frag"
	"github.com/apernet/hysteria/core/v2/internal/protocol"
	"github.com/apernet/hysteria/core/v2/server"
	vh "github.com/apernet/hysteria/core/v2/verifhlib"
)

// C05, send paths: the REAL server receiveLoop → sendMessageAutoFrag and the REAL client
// udpSessionManager.NewUDP → udpConn.Send, over a fake udpIO.SendMessage that does what both
// udpIOImpl.SendMessage do ([logger] → Serialize into the caller's buffer, -1 = silent drop →
// SendDatagram) with a scripted transport:
//
//	autofrag <c|s> <sid> <alen> <aseed> <dlen> <dseed> <limit> <h|a> <failAt> <refuseAt>
//
// h: SendDatagram answers DatagramTooLargeError{limit} iff the datagram is longer than limit;
// a: the first datagram is refused with that error whatever its size; failAt: index of the
// SendMessage call whose SendDatagram fails with another error; refuseAt: index of the call at
// which the server's traffic logger refuses (-1: never).

func init() { vh.Register("autofrag", func() vh.Component { return &autoFragComp{} }) }

var (
	errVerifSendFail = errors.New("verif: SendDatagram failed")
	errVerifRefused  = errors.New("verif: traffic logger refused")
)

type handedDgram struct {
	b    []byte
	resp string // O, T<limit>, F
}

// fakeSend is the scripted udpIO.SendMessage.
type fakeSend struct {
	server            bool
	limit             int
	adversarial       bool
	failAt, refuseAt  int
	calls             int
	tokens            []string // one per SendMessage call, for the model
	handed            []handedDgram
	failed            bool // an error other than the first too-large answer has been returned
	afterFailure      int  // SendMessage calls made after that
	bufLens           map[int]bool
}

func (t *fakeSend) send(buf []byte, m *protocol.UDPMessage) error {
	idx := t.calls
	t.calls++
	if t.failed {
		t.afterFailure++
	}
	t.bufLens[len(buf)] = true
	if t.server && idx == t.refuseAt { // server udpIOImpl: TrafficLogger.LogTraffic refuses
		t.tokens = append(t.tokens, "RO")
		t.failed = true
		return errVerifRefused
	}
	n := m.Serialize(buf)
	if n < 0 { // message larger than buffer, silent drop
		t.tokens = append(t.tokens, "O")
		return nil
	}
	dg := append([]byte{}, buf[:n]...)
	switch {
	case idx == t.failAt:
		t.tokens = append(t.tokens, "F")
		t.handed = append(t.handed, handedDgram{dg, "F"})
		t.failed = true
		return errVerifSendFail
	case n > t.limit || (t.adversarial && idx == 0):
		tok := fmt.Sprintf("T%d", t.limit)
		t.tokens = append(t.tokens, tok)
		t.handed = append(t.handed, handedDgram{dg, tok})
		if idx != 0 {
			t.failed = true
		}
		return &quic.DatagramTooLargeError{MaxDatagramPayloadSize: int64(t.limit)}
	}
	t.tokens = append(t.tokens, "O")
	t.handed = append(t.handed, handedDgram{dg, "O"})
	return nil
}

type autoFragComp struct {
	newUDP func() (client.HyUDPConn, uint32, error)
	conns  map[uint32]client.HyUDPConn
	cur    *fakeSend
}

func (c *autoFragComp) Gen(r *vh.RNG, n int, emit func(op string, tags ...string)) {
	// packet-id hunt: 40 draws per generated case on each side (at least 150000), from a seeded math/rand
	hunt := min(max(150000, 40*n), 2000000)
	emit(fmt.Sprintf("pidhunt c %d %d", r.Intn(1<<30), hunt), "pid-hunt")
	emit(fmt.Sprintf("pidhunt s %d %d", r.Intn(1<<30), hunt), "pid-hunt")
	// sessions: ONE receiveLoop / ONE udpConn relaying 4..8 packets, most of them oversized with the same fragment count
	for i := 0; i < max(40, n/16); i++ {
		side := "c"
		if r.Bool() {
			side = "s"
		}
		alen := r.Pick([]int{1, 9, 14, 40})
		hdr := fragHeaderLen(alen)
		parts := r.Range(2, 6)
		mps := r.Pick([]int{3, 10, 42, 200, 1000})
		base := mps*(parts-1) + r.Range(1, mps)
		limit := hdr + mps
		failCall, tag := -1, "session"
		if r.Chance(1, 7) {
			failCall, tag = r.Range(0, 3*parts), "session+fail"
		}
		aseed := r.Intn(256)
		var pk []string
		for j, k := 0, r.Range(4, 8); j < k; j++ {
			dl, al, as := base, alen, aseed
			switch x := r.Intn(10); {
			case x < 6: // same fragment count
			case x < 8: // another fragment count
				dl = mps*r.Range(1, 7) + r.Range(1, mps)
			case x < 9: // fits whole
				dl = r.Range(1, mps)
			default: // another address of the same length
				as = r.Intn(256)
			}
			pk = append(pk, fmt.Sprintf("%d:%d:%d:%d", al, as, dl, r.Intn(256)))
		}
		emit(fmt.Sprintf("session %s %d %d %d %s", side, r.Range(1, 6), limit, failCall, strings.Join(pk, "|")), tag, "side-"+side)
	}
	for i := 0; i < n; i++ {
		side := "c"
		if r.Bool() {
			side = "s"
		}
		alen := r.Pick([]int{1, 2, 9, 14, 40, 63, 64, 255, 2048})
		if r.Chance(1, 3) {
			alen = r.Range(1, 60)
		}
		hdr := fragHeaderLen(alen)
		var dlen int
		tag := ""
		switch k := r.Intn(100); {
		case k < 35:
			dlen, tag = r.Range(1, 300), "payload-small"
		case k < 65:
			dlen, tag = r.Range(300, 4096-hdr), "payload-medium"
		case k < 85: // around the 4096-byte send buffer
			dlen, tag = 4096-hdr+r.Pick([]int{-2, -1, 0, 0, 1, 2, 100}), "payload-buffer-edge"
		default:
			dlen, tag = r.Pick([]int{4096, 4097, 5000, 9000, 65535}), "payload-oversize"
		}
		if dlen < 1 {
			dlen = 1
		}
		if side == "s" && dlen > 4096 {
			dlen = 4096 // the server reads its socket into a MaxUDPSize buffer
		}
		var limit int
		switch k := r.Intn(100); {
		case k < 40:
			limit = r.Range(20, 1500)
		case k < 55:
			limit = hdr + r.Pick([]int{-5, -1, 0, 1, 2, 3})
		case k < 75: // the 255/256-fragment boundary
			want := r.Pick([]int{254, 255, 255, 256, 256, 257, 400})
			mps := (dlen+want-1)/want + r.Pick([]int{-1, 0, 0, 1})
			if mps < 1 {
				mps = 1
			}
			limit = hdr + mps
		case k < 90: // 2..8 parts
			parts := r.Range(2, 8)
			limit = hdr + (dlen+parts-1)/parts
		default: // fits whole, or not by one byte
			limit = hdr + dlen + r.Pick([]int{-1, 0, 1, 500})
		}
		mode := "h"
		if r.Chance(1, 8) {
			mode = "a"
		}
		failAt, refuseAt := -1, -1
		if r.Chance(1, 4) {
			failAt = r.Pick([]int{0, 1, 1, 2, 2, 3, 5, 17, 100, 254, 255})
			tag += "+fail"
		}
		if side == "s" && r.Chance(1, 12) {
			refuseAt = r.Pick([]int{0, 0, 1, 2, 3})
			tag += "+refuse"
		}
		emit(fmt.Sprintf("autofrag %s %d %d %d %d %d %d %s %d %d", side, r.Range(1, 6), alen, r.Intn(256), dlen, r.Intn(256), limit, mode, failAt, refuseAt), tag, "side-"+side)
	}
}

func (c *autoFragComp) clientConn(sid uint32) (client.HyUDPConn, bool) {
	if c.newUDP == nil {
		c.conns = map[uint32]client.HyUDPConn{}
		// ONE real session manager for the whole run; its udpIO.SendMessage forwards to the
		// scripted transport of the current operation
		c.newUDP, _ = client.VerifC05Sessions(func(buf []byte, m *protocol.UDPMessage) error { return c.cur.send(buf, m) })
	}
	for len(c.conns) < int(sid) {
		conn, id, err := c.newUDP()
		if err != nil {
			return nil, false
		}
		c.conns[id] = conn
	}
	conn, ok := c.conns[sid]
	return conn, ok
}

// pidHunt seeds math/rand's global source and pushes N small messages through the real send
// path over a transport that refuses each whole datagram (limit = header + 10): every send
// draws one packet id. Model-free oracle: no fragment ever carries packet id 0, and the two
// fragments of a send carry the same id.
func (c *autoFragComp) pidHunt(f []string) vh.Result {
	v, ok := atoiAll(f[2:])
	if !ok || len(v) != 2 || (f[1] != "c" && f[1] != "s") || v[1] < 0 || v[1] > 5000000 {
		return vh.Result{Out: "bad-op"}
	}
	seed, n := v[0], v[1]
	addr, data := []byte("a"), fragPat(1, 20)
	limit := fragHeaderLen(1) + 10
	var orc []string
	draws, zeros, mism, lo, hi := 0, 0, 0, 65536, -1
	var cur uint16
	send := func(buf []byte, m *protocol.UDPMessage) error {
		if m.FragCount <= 1 {
			return &quic.DatagramTooLargeError{MaxDatagramPayloadSize: int64(limit)}
		}
		if m.FragID == 0 {
			draws++
			cur = m.PacketID
			if cur == 0 {
				zeros++
				if zeros == 1 {
					orc = append(orc, fmt.Sprintf("fragments carry packet id 0 (draw %d after rand.Seed(%d))", draws, seed))
				}
			}
			lo, hi = min(lo, int(cur)), max(hi, int(cur))
		} else if m.PacketID != cur {
			mism++
		}
		return nil
	}
	rand.Seed(int64(seed)) //nolint:staticcheck // deliberate: make the draws of the code under test reproducible
	_, pmsg := vh.GuardMsg(func() string {
		if f[1] == "s" {
			pkts, addrs := make([][]byte, n), make([]string, n)
			for i := range pkts {
				pkts[i], addrs[i] = data, string(addr)
			}
			server.VerifC05ReceiveLoop(1, pkts, addrs, send)
		} else {
			saved := c.cur
			c.cur = nil
			newUDP, stop := client.VerifC05Sessions(send)
			conn, _, err := newUDP()
			if err == nil {
				for i := 0; i < n; i++ {
					conn.Send(data, string(addr))
				}
			}
			stop()
			c.cur = saved
		}
		return ""
	})
	if pmsg != "" {
		orc = append(orc, "the send path panicked: "+pmsg)
	}
	if draws != n {
		orc = append(orc, fmt.Sprintf("%d of %d sends drew a packet id", draws, n))
	}
	if mism > 0 {
		orc = append(orc, fmt.Sprintf("%d fragment(s) carry another packet id than the first fragment of their message", mism))
	}
	return vh.Result{Out: "ok", NonTrivial: draws > 0, Oracle: orc}
}

// ---------------------------------------------------------------- sessions

type sessPkt struct {
	addr, data []byte
	tokens     []string
	handed     []handedDgram
	err        error
	attempted  bool
}

// session runs several packets through ONE real receiveLoop (server) or ONE real udpConn (client)
// over an honest transport (too-large iff longer than the limit; optional failure at one call).
func (c *autoFragComp) session(f []string) vh.Result {
	if len(f) != 6 || (f[1] != "c" && f[1] != "s") {
		return vh.Result{Out: "bad-op"}
	}
	v, ok := atoiAll(f[2:5])
	if !ok || v[0] < 1 || v[0] > 64 {
		return vh.Result{Out: "bad-op"}
	}
	sid, limit, failCall := v[0], v[1], v[2]
	isServer := f[1] == "s"
	var pk []*sessPkt
	var specs [][]int
	for _, t := range strings.Split(f[5], "|") {
		w, ok := atoiAll(strings.Split(t, ":"))
		if !ok || len(w) != 4 || w[0] < 0 || w[2] < 0 {
			return vh.Result{Out: "bad-op"}
		}
		if isServer && w[2] > 4096 {
			w[2] = 4096
		}
		specs = append(specs, w)
		pk = append(pk, &sessPkt{addr: fragPat(w[1], w[0]), data: fragPat(w[3], w[2])})
	}
	var orc []string
	cur := -1
	calls, failed, after := 0, false, 0
	send := func(buf []byte, m *protocol.UDPMessage) error {
		idx := calls
		calls++
		if cur < 0 || cur >= len(pk) {
			orc = append(orc, "SendMessage outside any packet of the session")
			return nil
		}
		p := pk[cur]
		if len(buf) != protocol.MaxUDPSize {
			orc = append(orc, fmt.Sprintf("SendMessage was given a %d-byte buffer, not MaxUDPSize", len(buf)))
		}
		if failed && isServer {
			after++
		}
		n := m.Serialize(buf)
		if n < 0 {
			p.tokens = append(p.tokens, "O")
			return nil
		}
		dg := append([]byte{}, buf[:n]...)
		switch {
		case idx == failCall:
			p.tokens = append(p.tokens, "F")
			p.handed = append(p.handed, handedDgram{dg, "F"})
			failed = true
			return errVerifSendFail
		case n > limit:
			tok := fmt.Sprintf("T%d", limit)
			p.tokens = append(p.tokens, tok)
			p.handed = append(p.handed, handedDgram{dg, tok})
			return &quic.DatagramTooLargeError{MaxDatagramPayloadSize: int64(limit)}
		}
		p.tokens = append(p.tokens, "O")
		p.handed = append(p.handed, handedDgram{dg, "O"})
		return nil
	}
	_, pmsg := vh.GuardMsg(func() string {
		if isServer {
			pkts, addrs := make([][]byte, len(pk)), make([]string, len(pk))
			for i, p := range pk {
				pkts[i], addrs[i] = append([]byte{}, p.data...), string(p.addr)
			}
			err := server.VerifC05ReceiveLoopHook(uint32(sid), pkts, addrs, send, func(more bool) {
				cur++
				if more && cur < len(pk) {
					pk[cur].attempted = true
				}
			})
			if err != server.VerifC05SocketDone && cur >= 0 && cur < len(pk) {
				pk[cur].err = err // the loop ended while relaying packet `cur`
			}
		} else {
			saved := c.cur
			newUDP, stop := client.VerifC05Sessions(send)
			var conn client.HyUDPConn
			for i := 0; i < sid; i++ { // session ids count from 1
				conn, _, _ = newUDP()
			}
			for i, p := range pk {
				cur = i
				p.attempted = true
				p.err = conn.Send(append([]byte{}, p.data...), string(p.addr))
			}
			stop()
			c.cur = saved
		}
		return ""
	})
	if pmsg != "" {
		return vh.Result{Out: "panic", NonTrivial: true, Oracle: []string{"the send path panicked: " + pmsg}}
	}
	if after > 0 {
		orc = append(orc, fmt.Sprintf("%d SendMessage call(s) after the session's send had failed", after))
	}

	// ---------------- per packet: outcome, model op, model-free oracles
	type sentMsg struct {
		addr string
		data []byte
	}
	var outs, mops []string
	var allLeft [][]*protocol.UDPMessage // per packet: the parsed datagrams that left
	var complete []bool
	var fragIDs []uint16 // packet id of every packet that was fragmented (≥ 2 fragments handed over)
	for i, p := range pk {
		if !p.attempted {
			break
		}
		errStr := "none"
		var tl *quic.DatagramTooLargeError
		switch {
		case p.err == nil:
		case errors.As(p.err, &tl):
			errStr = fmt.Sprintf("toolarge:%d", tl.MaxDatagramPayloadSize)
		case errors.Is(p.err, errVerifSendFail):
			errStr = "other"
		default:
			errStr = "unexpected"
			orc = append(orc, fmt.Sprintf("packet %d: the send path returned an error the transport never produced: %v", i, p.err))
		}
		H := p.handed
		want := protocol.UDPMessage{SessionID: uint32(sid), PacketID: 0, FragID: 0, FragCount: 1, Addr: string(p.addr), Data: p.data}
		if len(H) > 0 {
			whole, _ := fragSerialize(&want)
			if !bytes.Equal(H[0].b, whole) {
				orc = append(orc, fmt.Sprintf("packet %d of the session: the first datagram is not the whole message with packet id 0, FragID 0, FragCount 1", i))
			}
		}
		var left []*protocol.UDPMessage
		var pid uint16
		for j := 1; j < len(H); j++ {
			if len(H[j].b) > limit {
				orc = append(orc, fmt.Sprintf("packet %d: datagram %d is %d bytes, the transport reported a limit of %d", i, j, len(H[j].b), limit))
			}
			fm, perr := protocol.ParseUDPMessage(vh.Exact(H[j].b))
			if perr != nil {
				orc = append(orc, fmt.Sprintf("packet %d: datagram %d does not parse", i, j))
				continue
			}
			if j == 1 {
				pid = fm.PacketID
			}
			if fm.PacketID == 0 || fm.PacketID != pid || int(fm.FragID) != j-1 {
				orc = append(orc, fmt.Sprintf("packet %d: datagram %d carries packet id %d (first fragment %d), FragID %d", i, j, fm.PacketID, pid, fm.FragID))
			}
			if H[j].resp == "O" {
				left = append(left, fm)
			}
		}
		if len(H) > 2 {
			fragIDs = append(fragIDs, pid)
		}
		done := false
		if len(H) == 1 && H[0].resp == "O" {
			if m0, perr := protocol.ParseUDPMessage(vh.Exact(H[0].b)); perr == nil {
				left, done = []*protocol.UDPMessage{m0}, true
			}
		} else if p.err == nil && len(left) > 0 && len(left) == int(left[0].FragCount) {
			done = true
		}
		allLeft = append(allLeft, left)
		complete = append(complete, done)
		draw := 0
		if len(H) > 1 && len(H[1].b) >= 6 {
			draw = (int(binary.BigEndian.Uint16(H[1].b[4:])) + 65535) % 65536
		}
		var sb strings.Builder
		fmt.Fprintf(&sb, "err=%s n=%d", errStr, len(H))
		for _, h := range H {
			fmt.Fprintf(&sb, " %d:%d:%s", len(h.b), fragDigest(h.b), h.resp)
		}
		outs = append(outs, sb.String())
		toks := "-"
		if len(p.tokens) > 0 {
			toks = strings.Join(p.tokens, ",")
		}
		mops = append(mops, fmt.Sprintf("%d:%d:%d:%d:%d:%s", specs[i][0], specs[i][1], specs[i][2], specs[i][3], draw, toks))
	}

	// (ii) ids: k >= 4 fragmented packets of one session never all carry the same id
	// (a false alarm needs k-1 independent collisions at 1/65535 each)
	if len(fragIDs) >= 4 {
		same := true
		for _, x := range fragIDs {
			same = same && x == fragIDs[0]
		}
		if same {
			orc = append(orc, fmt.Sprintf("all %d fragmented packets of the session carry the same packet id %d", len(fragIDs), fragIDs[0]))
		}
	}

	// (i) the receiver: ParseUDPMessage (done above) + ONE Defragger for the session
	isSent := func(o *protocol.UDPMessage) bool {
		for i, p := range pk {
			if i < len(allLeft) && o.SessionID == uint32(sid) && o.Addr == string(p.addr) && bytes.Equal(o.Data, p.data) {
				return true
			}
		}
		return false
	}
	feedSeq := func(seq []*protocol.UDPMessage) []*protocol.UDPMessage {
		d := &frag.Defragger{}
		var got []*protocol.UDPMessage
		for _, fm := range seq {
			mm := *fm
			if o := d.Feed(&mm); o != nil {
				got = append(got, o)
			}
		}
		return got
	}
	{
		// in order, nothing lost: exactly the completely sent packets, in order
		var seq []*protocol.UDPMessage
		var wantData [][]byte
		for i, l := range allLeft {
			seq = append(seq, l...)
			if complete[i] {
				wantData = append(wantData, pk[i].data)
			}
		}
		got := feedSeq(seq)
		okAll := len(got) == len(wantData)
		for i := 0; okAll && i < len(got); i++ {
			okAll = bytes.Equal(got[i].Data, wantData[i])
		}
		if !okAll {
			orc = append(orc, fmt.Sprintf("receiver, no loss, in order: %d message(s) came out of the %d packets that left completely (or not the same payloads)", len(got), len(wantData)))
		}
		// adversarial loss: for adjacent fragmented packets A, B drop the tail of A and the head of B
		for i := 0; i+1 < len(allLeft); i++ {
			a, b := allLeft[i], allLeft[i+1]
			if len(a) < 2 || len(b) < 2 {
				continue
			}
			for cut := 1; cut < len(a) && cut < len(b); cut++ {
				s2 := append(append([]*protocol.UDPMessage{}, a[:cut]...), b[cut:]...)
				for _, o := range feedSeq(s2) {
					if !isSent(o) {
						orc = append(orc, fmt.Sprintf("receiver: with packets %d and %d of the session cut at fragment %d (tail of the first and head of the second lost) a payload was emitted that was never sent as one message (%d bytes)", i, i+1, cut, len(o.Data)))
					}
				}
			}
		}
		// pseudo-random subsets, orders and duplicates of everything that left
		hh := fnv.New64a()
		hh.Write([]byte(strings.Join(f, " ")))
		pr := vh.NewRNG(hh.Sum64())
		for round := 0; round < 6 && len(seq) > 0; round++ {
			var s3 []*protocol.UDPMessage
			for _, x := range seq {
				if pr.Chance(1, 5) {
					continue
				}
				s3 = append(s3, x)
				if pr.Chance(1, 6) {
					s3 = append(s3, x)
				}
			}
			for a := 0; a+1 < len(s3); a++ {
				if pr.Chance(1, 2) {
					b := pr.Range(a, min(a+3, len(s3)-1))
					s3[a], s3[b] = s3[b], s3[a]
				}
			}
			for _, o := range feedSeq(s3) {
				if !isSent(o) {
					orc = append(orc, fmt.Sprintf("receiver: under loss/reordering/duplication of the session's datagrams a payload was emitted that was never sent as one message (%d bytes)", len(o.Data)))
				}
			}
		}
	}
	if len(outs) == 0 {
		return vh.Result{Out: "bad-op"}
	}
	if len(orc) > 8 {
		orc = orc[:8]
	}
	return vh.Result{Out: strings.Join(outs, " | "),
		ModelOp:    fmt.Sprintf("session %s %d %s", f[1], sid, strings.Join(mops, "|")),
		NonTrivial: len(fragIDs) >= 2, Oracle: orc}
}

func (c *autoFragComp) Run(op string) vh.Result {
	f := strings.Fields(op)
	if len(f) == 4 && f[0] == "pidhunt" {
		return c.pidHunt(f)
	}
	if len(f) > 0 && f[0] == "session" {
		return c.session(f)
	}
	if len(f) != 11 || f[0] != "autofrag" || (f[1] != "c" && f[1] != "s") || (f[8] != "h" && f[8] != "a") {
		return vh.Result{Out: "bad-op"}
	}
	v, ok := atoiAll(append(append([]string{}, f[2:8]...), f[9:]...))
	if !ok {
		return vh.Result{Out: "bad-op"}
	}
	sid, alen, aseed, dlen, dseed, limit, failAt, refuseAt := v[0], v[1], v[2], v[3], v[4], v[5], v[6], v[7]
	isServer := f[1] == "s"
	if isServer && dlen > 4096 {
		dlen = 4096
	}
	if sid < 1 || sid > 64 || alen < 0 || dlen < 0 {
		return vh.Result{Out: "bad-op"}
	}
	addr, data := fragPat(aseed, alen), fragPat(dseed, dlen)
	t := &fakeSend{server: isServer, limit: limit, adversarial: f[8] == "a", failAt: failAt, refuseAt: refuseAt, bufLens: map[int]bool{}}
	c.cur = t
	var err error
	var orc []string
	_, pmsg := vh.GuardMsg(func() string {
		if isServer {
			err = server.VerifC05ReceiveLoop(uint32(sid), [][]byte{append([]byte{}, data...)}, []string{string(addr)}, t.send)
			if err == server.VerifC05SocketDone {
				err = nil // every send worked; the loop ended because the scripted socket is empty
			}
		} else {
			conn, ok := c.clientConn(uint32(sid))
			if !ok {
				err = errors.New("verif: no session")
				return ""
			}
			err = conn.Send(append([]byte{}, data...), string(addr))
		}
		return ""
	})
	if pmsg != "" {
		return vh.Result{Out: "panic", NonTrivial: true, Oracle: []string{"the send path panicked: " + pmsg}}
	}
	errStr := "none"
	var tl *quic.DatagramTooLargeError
	switch {
	case err == nil:
	case errors.As(err, &tl):
		errStr = fmt.Sprintf("toolarge:%d", tl.MaxDatagramPayloadSize)
	case errors.Is(err, errVerifSendFail):
		errStr = "other"
	case errors.Is(err, errVerifRefused):
		errStr = "disconnect"
	default:
		errStr = "unexpected"
		orc = append(orc, "the send path returned an error the transport never produced: "+err.Error())
	}

	// ---------------- model-free oracles
	want := protocol.UDPMessage{SessionID: uint32(sid), PacketID: 0, FragID: 0, FragCount: 1, Addr: string(addr), Data: data}
	hdr := fragHeaderLen(alen)
	size := hdr + dlen
	for bl := range t.bufLens {
		if bl != protocol.MaxUDPSize {
			orc = append(orc, fmt.Sprintf("SendMessage was given a %d-byte buffer, not MaxUDPSize", bl))
		}
	}
	if t.afterFailure > 0 {
		orc = append(orc, fmt.Sprintf("%d more SendMessage call(s) after one had failed: a later fragment goes out after a failed one", t.afterFailure))
	}
	if (err == nil) == t.failed {
		orc = append(orc, fmt.Sprintf("returned error %q but the transport/logger failed=%v", errStr, t.failed))
	}
	H := t.handed
	if size > protocol.MaxUDPSize && len(H) != 0 {
		orc = append(orc, "a message larger than the send buffer reached SendDatagram")
	}
	var pid uint16
	nfr := 0
	if len(H) > 0 {
		whole, _ := fragSerialize(&want)
		if !bytes.Equal(H[0].b, whole) {
			orc = append(orc, "the first datagram is not the whole message with packet id 0, FragID 0, FragCount 1")
		}
		if len(H) > 1 && !strings.HasPrefix(H[0].resp, "T") {
			orc = append(orc, "more datagrams were sent although the whole message had not been refused as too large")
		}
		nfr = len(H) - 1
	}
	var frs []*protocol.UDPMessage
	for i := 1; i < len(H); i++ {
		if len(H[i].b) > limit {
			orc = append(orc, fmt.Sprintf("datagram %d is %d bytes, the transport reported a limit of %d", i, len(H[i].b), limit))
		}
		fm, perr := protocol.ParseUDPMessage(vh.Exact(H[i].b))
		if perr != nil {
			orc = append(orc, fmt.Sprintf("datagram %d does not parse: %v", i, perr))
			continue
		}
		frs = append(frs, fm)
		if i == 1 {
			pid = fm.PacketID
			if pid == 0 {
				orc = append(orc, "fragments carry packet id 0")
			}
		}
		if fm.PacketID != pid || int(fm.FragID) != i-1 || fm.SessionID != uint32(sid) || fm.Addr != string(addr) {
			orc = append(orc, fmt.Sprintf("datagram %d: packet id %d (first %d), FragID %d (expected %d), session %d", i, fm.PacketID, pid, fm.FragID, i-1, fm.SessionID))
		}
		if int(fm.FragCount) < nfr || fm.FragCount != frs[0].FragCount {
			orc = append(orc, fmt.Sprintf("datagram %d: FragCount %d with %d fragments handed over", i, fm.FragCount, nfr))
		}
	}
	if nfr > 255 {
		orc = append(orc, fmt.Sprintf("%d fragments", nfr))
	}
	complete := false
	if err == nil && len(H) > 0 && strings.HasPrefix(H[0].resp, "T") {
		// all-or-nothing on the wire
		mps := limit - hdr
		switch {
		case size <= limit: // (adversarial transport) fits after all: sent whole with the drawn id
			if nfr != 1 || len(frs) != 1 || frs[0].FragCount != 1 {
				orc = append(orc, "a message that fits the reported limit was not re-sent whole")
			}
			complete = nfr == 1
		case mps <= 0 || (dlen+mps-1)/mps > 255:
			if nfr != 0 {
				orc = append(orc, fmt.Sprintf("%d fragment(s) sent of a message that cannot be fragmented (no room / more than 255 needed): partial send", nfr))
			}
		default:
			need := (dlen + mps - 1) / mps
			if nfr != need || len(frs) != need || int(frs[0].FragCount) != need {
				orc = append(orc, fmt.Sprintf("%d of %d fragments sent without an error being reported", nfr, need))
			}
			complete = nfr == need
		}
	}
	if err == nil && len(H) == 1 && H[0].resp == "O" {
		complete = true
		frs = []*protocol.UDPMessage{}
		if m0, perr := protocol.ParseUDPMessage(vh.Exact(H[0].b)); perr == nil {
			frs = append(frs, m0)
		} else if alen >= 1 && alen <= 2048 && dlen >= 1 {
			orc = append(orc, "the whole datagram does not parse at the receiver")
		} else {
			complete = false
		}
	}
	// receiver: the datagrams that left, in a pseudo-random order with duplicates, through the
	// real Defragger; complete set => exactly the original once; otherwise nothing
	var left []*protocol.UDPMessage
	if len(H) == 1 && H[0].resp == "O" {
		left = frs
	} else {
		for i := 1; i < len(H); i++ {
			if H[i].resp == "O" && i-1 < len(frs) {
				left = append(left, frs[i-1])
			}
		}
	}
	if len(orc) == 0 && len(left) > 0 {
		hh := fnv.New64a()
		hh.Write([]byte(op))
		pr := vh.NewRNG(hh.Sum64())
		seq := append([]*protocol.UDPMessage{}, left...)
		if left[0].FragCount > 1 {
			for j := 0; j < 1+len(left)/3; j++ {
				seq = append(seq, left[pr.Intn(len(left))])
			}
		}
		for a := len(seq) - 1; a > 0; a-- {
			b := pr.Intn(a + 1)
			seq[a], seq[b] = seq[b], seq[a]
		}
		d := &frag.Defragger{}
		var outs []*protocol.UDPMessage
		for _, fm := range seq {
			mm := *fm
			if o := d.Feed(&mm); o != nil {
				outs = append(outs, o)
			}
		}
		allLeft := complete && len(left) == len(frs)
		switch {
		case allLeft && (len(outs) != 1 || outs[0].SessionID != uint32(sid) || outs[0].Addr != string(addr) || !bytes.Equal(outs[0].Data, data)):
			orc = append(orc, fmt.Sprintf("receiver: %d message(s) emitted for a completely sent message, or not identical to the original", len(outs)))
		case !allLeft && len(outs) != 0:
			orc = append(orc, "receiver: a message was emitted although only part of its fragments had left the sender")
		}
	}

	// ---------------- outcome line and model op
	draw := 0
	if len(H) > 1 && len(H[1].b) >= 6 {
		draw = (int(binary.BigEndian.Uint16(H[1].b[4:])) + 65535) % 65536 // packet id - 1
	}
	var sb strings.Builder
	fmt.Fprintf(&sb, "err=%s n=%d", errStr, len(H))
	for _, h := range H {
		fmt.Fprintf(&sb, " %d:%d:%s", len(h.b), fragDigest(h.b), h.resp)
	}
	toks := "-"
	if len(t.tokens) > 0 {
		toks = strings.Join(t.tokens, ",")
	}
	return vh.Result{Out: sb.String(),
		ModelOp:    fmt.Sprintf("autofrag %s %d %d %d %d %d %d %s", f[1], sid, alen, aseed, dlen, dseed, draw, toks),
		NonTrivial: len(H) > 1 || size > protocol.MaxUDPSize || t.failed, Oracle: orc}
}
