//go:build verif

package server

// VerifC07Consts exposes the constants the C07/C08 theorems are stated over
// (regenerated into lean/Hy/Gen/Core.lean on every run).
func VerifC07Consts() map[string]uint64 {
	return map[string]uint64{
		"maxSessionACLCache":    uint64(maxSessionACLCache),
		"idleCleanupIntervalNs": uint64(idleCleanupInterval),
	}
}
