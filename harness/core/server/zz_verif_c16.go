//go:build verif

package server

import (
	"context"

	"github.com/apernet/quic-go"
)

// C16 shim: the server's accept loop (serverImpl.Serve, 6 lines) with a hook that hands every
// accepted QUIC connection to the harness, so that "kill" can be the SERVER closing exactly
// that client's connection (an immediate CONNECTION_CLOSE). Everything after Accept is the
// real handleClient. The server is the environment of C16, not the code under test.
func VerifServeWithHook(s Server, hook func(*quic.Conn)) error {
	si := s.(*serverImpl)
	for {
		conn, err := si.listener.Accept(context.Background())
		if err != nil {
			return err
		}
		hook(conn)
		go si.handleClient(conn)
	}
}
