//go:build verif

package server

import (
	"errors"
	"time"

	"github.com/apernet/hysteria/core/v2/internal/frag"
	"github.com/apernet/hysteria/core/v2/internal/protocol"
	"github.com/apernet/hysteria/core/v2/internal/utils"
)

// C05 shim: runs the REAL udpSessionEntry.receiveLoop (which builds the UDPMessage, allocates
// the MaxUDPSize buffers and calls the real sendMessageAutoFrag) on a session whose UDP socket
// delivers the given packets and then fails, and whose udpIO.SendMessage is `send`.
// It returns the error the session exited with (the socket's final error when every send worked).

var VerifC05SocketDone = errors.New("verif: socket drained")

type verifC05Conn struct {
	pkts   [][]byte
	addrs  []string
	onRead func(more bool)
}

func (c *verifC05Conn) ReadFrom(b []byte) (int, string, error) {
	if c.onRead != nil {
		c.onRead(len(c.pkts) > 0) // the loop is about to handle the next packet of the session
	}
	if len(c.pkts) == 0 {
		return 0, "", VerifC05SocketDone
	}
	n := copy(b, c.pkts[0]) // a UDP read truncates to the buffer
	a := c.addrs[0]
	c.pkts, c.addrs = c.pkts[1:], c.addrs[1:]
	return n, a, nil
}
func (c *verifC05Conn) WriteTo(b []byte, addr string) (int, error) { return len(b), nil }
func (c *verifC05Conn) Close() error                               { return nil }

type verifC05IO struct {
	send func(buf []byte, m *protocol.UDPMessage) error
}

func (io *verifC05IO) ReceiveMessage() (*protocol.UDPMessage, error) {
	return nil, errors.New("verif: not used")
}
func (io *verifC05IO) SendMessage(buf []byte, m *protocol.UDPMessage) error { return io.send(buf, m) }
func (io *verifC05IO) Hook(data []byte, reqAddr *string) error              { return nil }
func (io *verifC05IO) UDP(reqAddr string) (UDPConn, error)                  { return nil, errors.New("verif: not used") }
func (io *verifC05IO) CheckUDP(reqAddr string) error                        { return nil }

func VerifC05ReceiveLoop(id uint32, pkts [][]byte, addrs []string, send func(buf []byte, m *protocol.UDPMessage) error) error {
	return VerifC05ReceiveLoopHook(id, pkts, addrs, send, nil)
}

// VerifC05ReceiveLoopHook is VerifC05ReceiveLoop with a callback at every socket read: ONE loop
// instance (one session) relays all the packets, the callback marks the packet boundaries.
func VerifC05ReceiveLoopHook(id uint32, pkts [][]byte, addrs []string, send func(buf []byte, m *protocol.UDPMessage) error, onRead func(more bool)) error {
	var exitErr error
	e := &udpSessionEntry{
		ID:       id,
		D:        &frag.Defragger{},
		Last:     utils.NewAtomicTime(time.Now()),
		IO:       &verifC05IO{send: send},
		ExitFunc: func(err error) { exitErr = err },
		conn:     &verifC05Conn{pkts: pkts, addrs: addrs, onRead: onRead},
	}
	e.receiveLoop()
	return exitErr
}
