//go:build verif

package server

// VerifC10Fill runs the real (*Config).fill (defaults + validation, incl. the floor on
// BandwidthConfig.MaxTx / MaxRx) without opening a listener.
func (c *Config) VerifC10Fill() error { return c.fill() }
