//go:build verif

package server

import "io"

// C06 shim: exports the unexported relay functions of copy.go to the correspondence
// harness (harness/core/verifh/relayc06/relay.go) and the constants the Lean theorems are
// stated over.  Nothing here changes behaviour.

// VerifErrDisconnect is copy.go's errDisconnect (compared by identity).
var VerifErrDisconnect = errDisconnect

func VerifCopyBufferLog(dst io.Writer, src io.Reader, log func(n uint64) bool) error {
	return copyBufferLog(dst, src, log)
}

func VerifCopyTwoWayEx(id string, serverRw, remoteRw io.ReadWriter, l TrafficLogger, stats *StreamStats) error {
	return copyTwoWayEx(id, serverRw, remoteRw, l, stats)
}

func VerifCopyTwoWay(serverRw, remoteRw io.ReadWriter) error {
	return copyTwoWay(serverRw, remoteRw)
}

// VerifC06Consts: the size of the buffers copyBufferLog hands to src.Read (read from the
// pool the function itself uses), and the close code sent on a traffic-logger refusal.
func VerifC06Consts() map[string]uint64 {
	bufp := copyBufPool.Get().(*[]byte)
	n := len(*bufp)
	copyBufPool.Put(bufp)
	return map[string]uint64{
		"copyBufSize":                     uint64(n),
		"closeErrCodeTrafficLimitReached": closeErrCodeTrafficLimitReached,
	}
}
